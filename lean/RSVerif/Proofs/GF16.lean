/-
  GF(2^16) of `Model/Field.lean` as a Mathlib `Field`:
  * `GF16` wraps a symbol; `CommRing`, `CharP 2`, `Fintype` (65536 elements);
  * the generator `gen` (coordinates of the polynomial `x`) has order exactly 65535
    (from the kernel computation of `Proofs/GF16Order.lean`);
  * every non-zero element is a power of the generator, hence `a * a^65534 = 1`;
  * `Field GF16` with `a⁻¹ = ⟨ginv a.val⟩`, and the bridge lemmas to `gmul/gpow/gexp/ginv`;
  * the discrete logarithm `glog`.
-/
import RSVerif.Proofs.FieldLaws
import RSVerif.Proofs.GF16Order
import RSVerif.Model.Spec
import Mathlib.Algebra.Field.Defs
import Mathlib.Algebra.CharP.Two
import Mathlib.GroupTheory.OrderOfElement
import Mathlib.Data.Fintype.Card

namespace RS

/-- a field element: a symbol (Cantor coordinates) with the field structure of `gmul`/xor -/
@[ext] structure GF16 where
  val : Sym
deriving DecidableEq

namespace GF16

instance : Zero GF16 := ⟨⟨0#16⟩⟩
instance : One GF16 := ⟨⟨gone⟩⟩
instance : Add GF16 := ⟨fun a b => ⟨a.val ^^^ b.val⟩⟩
instance : Neg GF16 := ⟨fun a => a⟩
instance : Sub GF16 := ⟨fun a b => ⟨a.val ^^^ b.val⟩⟩
instance : Mul GF16 := ⟨fun a b => ⟨gmul a.val b.val⟩⟩

theorem zero_val : (0 : GF16).val = 0#16 := rfl
theorem one_val : (1 : GF16).val = gone := rfl
theorem add_val (a b : GF16) : (a + b).val = a.val ^^^ b.val := rfl
theorem sub_val (a b : GF16) : (a - b).val = a.val ^^^ b.val := rfl
theorem neg_val (a : GF16) : (-a).val = a.val := rfl
theorem mul_val (a b : GF16) : (a * b).val = gmul a.val b.val := rfl

theorem mk_zero : (⟨0#16⟩ : GF16) = 0 := rfl
theorem mk_one : (⟨gone⟩ : GF16) = 1 := rfl
theorem mk_add (a b : Sym) : (⟨a ^^^ b⟩ : GF16) = ⟨a⟩ + ⟨b⟩ := rfl
theorem mk_mul (a b : Sym) : (⟨gmul a b⟩ : GF16) = ⟨a⟩ * ⟨b⟩ := rfl

theorem val_injective : Function.Injective GF16.val := fun _ _ h => GF16.ext h
theorem val_eq_zero {a : GF16} : a.val = 0#16 ↔ a = 0 := ⟨fun h => GF16.ext h, fun h => h ▸ rfl⟩

instance instCommRing : CommRing GF16 where
  add_assoc a b c := GF16.ext (BitVec.xor_assoc _ _ _)
  zero_add a := GF16.ext (zero_xor' _)
  add_zero a := GF16.ext (xor_zero' _)
  add_comm a b := GF16.ext (BitVec.xor_comm _ _)
  neg_add_cancel a := GF16.ext (xor_self' _)
  sub_eq_add_neg _ _ := rfl
  mul_assoc a b c := GF16.ext (gmul_assoc _ _ _)
  one_mul a := GF16.ext (gmul_one_left _)
  mul_one a := GF16.ext (gmul_one_right _)
  left_distrib a b c := GF16.ext (gmul_xor_right _ _ _)
  right_distrib a b c := GF16.ext (gmul_xor_left _ _ _)
  zero_mul a := GF16.ext (gmul_zero_left _)
  mul_zero a := GF16.ext (gmul_zero_right _)
  mul_comm a b := GF16.ext (gmul_comm _ _)
  nsmul := nsmulRec
  zsmul := zsmulRec

theorem one_ne_zero' : (1 : GF16) ≠ 0 := by decide

instance instNontrivial : Nontrivial GF16 := ⟨⟨1, 0, one_ne_zero'⟩⟩

theorem add_self (a : GF16) : a + a = 0 := GF16.ext (xor_self' _)

instance instCharP : CharP GF16 2 :=
  CharTwo.of_one_ne_zero_of_two_eq_zero one_ne_zero' (by
    rw [← one_add_one_eq_two]; exact add_self 1)

/-! ### finiteness -/

/-- `GF16 ≃ Fin 65536` -/
def equivFin : GF16 ≃ Fin 65536 where
  toFun a := a.val.toFin
  invFun i := ⟨BitVec.ofFin i⟩
  left_inv _ := rfl
  right_inv _ := rfl

instance instFintype : Fintype GF16 := Fintype.ofEquiv (Fin 65536) equivFin.symm

theorem card : Fintype.card GF16 = 65536 := by
  rw [Fintype.card_congr equivFin, Fintype.card_fin]

/-! ### `gpow` is the monoid power -/

theorem gpowAux_eq_pow : ∀ (f : Nat) (a : Sym) (n : Nat), n < 2 ^ f →
    (⟨gpowAux f a n⟩ : GF16) = (⟨a⟩ : GF16) ^ n
  | 0, a, n, h => by
    have hn : n = 0 := by simpa using h
    subst hn
    simp [gpowAux, mk_one]
  | f + 1, a, n, h => by
    by_cases hn : n = 0
    · subst hn; simp [gpowAux, mk_one]
    · have hlt : n / 2 < 2 ^ f := by rw [Nat.pow_succ] at h; omega
      have ih := gpowAux_eq_pow f (gmul a a) (n / 2) hlt
      rw [mk_mul, ← pow_two, ← pow_mul] at ih
      simp only [gpowAux, if_neg hn]
      by_cases hodd : n % 2 = 1
      · rw [if_pos hodd, mk_mul, ih, ← pow_succ']
        congr 1; omega
      · rw [if_neg hodd, ih]
        congr 1; omega

theorem mk_gpow (a : Sym) (n : Nat) (h : n < 2 ^ 64) : (⟨gpow a n⟩ : GF16) = (⟨a⟩ : GF16) ^ n :=
  gpowAux_eq_pow 64 a n h

theorem pow_val (a : GF16) (n : Nat) (h : n < 2 ^ 64) : (a ^ n).val = gpow a.val n := by
  rw [← mk_gpow a.val n h]

/-! ### the generator -/

/-- the generator as a field element -/
def g : GF16 := ⟨gen⟩

theorem isLin_mulX : IsLin mulX := mulX_xor

theorem mulX_eq_pmul_basis : ∀ i : Fin 16, mulX (unitVec i) = pmul (unitVec i) 2#16 := by
  decide +kernel

/-- `mulX` is multiplication by the polynomial `x = 2#16` -/
theorem mulX_eq_pmul (a : Sym) : mulX a = pmul a 2#16 :=
  lin_ext (f := mulX) (g := fun a => pmul a 2#16) isLin_mulX (isLin_pmul_left _)
    mulX_eq_pmul_basis a

theorem phi_gen : phi gen = 2#16 := by decide
theorem phiInv_two : phiInv 2#16 = gen := by decide

theorem phiInv_one' : phiInv 1#16 = gone := by decide

theorem phiInv_injective : Function.Injective phiInv := fun a b h => by
  rw [← phi_phiInv a, ← phi_phiInv b, h]

/-- `g^k` is (the coordinate vector of) `x^k` -/
theorem g_pow_val (k : Nat) : (g ^ k).val = phiInv (xpow k) := by
  induction k with
  | zero => rw [pow_zero, xpow_zero, phiInv_one']; rfl
  | succ k ih =>
    rw [pow_succ, mul_val, ih, xpow_succ, mulX_eq_pmul]
    show phiInv (pmul (phi (phiInv (xpow k))) (phi gen)) = _
    rw [phi_phiInv, phi_gen]

theorem mulXIter_eq_iterate (k : Nat) (s : Sym) : mulXIter k s = mulX^[k] s := by
  induction k generalizing s with
  | zero => rfl
  | succ k ih => exact ih (mulX s)

/-- `xpow k` is the `k`-fold iterate of `mulX` on `1` -/
theorem xpow_eq_iterate (k : Nat) : xpow k = mulX^[k] 1#16 := mulXIter_eq_iterate k _

/-- `gpow gen k` is (the coordinate vector of) `x^k` -/
theorem gpow_gen (k : Nat) (h : k < 2 ^ 64) : gpow gen k = phiInv (xpow k) := by
  rw [← g_pow_val, pow_val _ _ h]; rfl

theorem g_pow_eq_one_iff (k : Nat) : g ^ k = 1 ↔ xpow k = 1#16 := by
  constructor
  · intro h
    have h1 : phiInv (xpow k) = phiInv 1#16 := by
      rw [← g_pow_val, h, phiInv_one']; rfl
    exact phiInv_injective h1
  · intro h
    apply GF16.ext
    rw [g_pow_val, h, phiInv_one']; rfl

theorem g_pow_65535 : g ^ 65535 = 1 := (g_pow_eq_one_iff _).2 xpow_65535

theorem g_pow_ne_one (k : Nat) (h0 : 0 < k) (hk : k < 65535) : g ^ k ≠ 1 :=
  fun h => xpow_ne_one k h0 hk ((g_pow_eq_one_iff k).1 h)

/-- the generator has multiplicative order exactly 65535 -/
theorem orderOf_g : orderOf g = 65535 :=
  (orderOf_eq_iff (by decide)).2 ⟨g_pow_65535, fun m hm h0 => g_pow_ne_one m h0 hm⟩

theorem g_pow_ne_zero (k : Nat) : g ^ k ≠ 0 := by
  intro h
  have h1 : g ^ (k * 65535) = 1 := by rw [mul_comm, pow_mul, g_pow_65535, one_pow]
  rcases Nat.eq_zero_or_pos k with hk | hk
  · subst hk; rw [pow_zero] at h; exact one_ne_zero' h
  · have : g ^ (k * 65535) = 0 := by rw [pow_mul, h, zero_pow (by decide)]
    rw [h1] at this
    exact one_ne_zero' this

theorem g_pow_injOn {a b : Nat} (ha : a < 65535) (hb : b < 65535) (h : g ^ a = g ^ b) : a = b := by
  have := pow_injOn_Iio_orderOf (x := g)
  rw [orderOf_g] at this
  exact this ha hb h

/-! ### every non-zero element is a power of the generator -/

theorem card_ne_zero : Fintype.card {a : GF16 // a ≠ 0} = 65535 := by
  rw [Fintype.card_subtype_compl (fun a : GF16 => a = 0), card, Fintype.card_subtype_eq]

/-- `k ↦ g^k`, from `Fin 65535` to the non-zero elements -/
def powMap (k : Fin 65535) : {a : GF16 // a ≠ 0} := ⟨g ^ k.val, g_pow_ne_zero _⟩

theorem powMap_bijective : Function.Bijective powMap := by
  rw [Fintype.bijective_iff_injective_and_card]
  refine ⟨?_, ?_⟩
  · intro a b h
    exact Fin.ext (g_pow_injOn a.isLt b.isLt (congrArg Subtype.val h))
  · rw [Fintype.card_fin, card_ne_zero]

/-- every non-zero element is a power of the generator -/
theorem exists_pow_eq (a : GF16) (ha : a ≠ 0) : ∃ k, k < 65535 ∧ a = g ^ k := by
  obtain ⟨k, hk⟩ := powMap_bijective.2 ⟨a, ha⟩
  exact ⟨k.val, k.isLt, (congrArg Subtype.val hk).symm⟩

theorem pow_65535 (a : GF16) (ha : a ≠ 0) : a ^ 65535 = 1 := by
  obtain ⟨k, _, rfl⟩ := exists_pow_eq a ha
  rw [← pow_mul, mul_comm, pow_mul, g_pow_65535, one_pow]

/-- every non-zero element is a unit, with inverse `a^65534` -/
theorem mul_pow_65534 (a : GF16) (ha : a ≠ 0) : a * a ^ 65534 = 1 := by
  rw [← pow_succ']; exact pow_65535 a ha

/-! ### the field -/

instance instInv : Inv GF16 := ⟨fun a => ⟨ginv a.val⟩⟩

theorem inv_val (a : GF16) : (a⁻¹).val = ginv a.val := rfl

theorem inv_eq_pow (a : GF16) : a⁻¹ = a ^ 65534 :=
  mk_gpow a.val 65534 (by decide)

instance instField : Field GF16 where
  __ := instCommRing
  inv := fun a => ⟨ginv a.val⟩
  exists_pair_ne := ⟨1, 0, one_ne_zero'⟩
  mul_inv_cancel a ha := by
    show a * a⁻¹ = 1
    rw [inv_eq_pow]; exact mul_pow_65534 a ha
  inv_zero := by
    show (0 : GF16)⁻¹ = 0
    rw [inv_eq_pow, zero_pow (by decide)]
  nnqsmul := _
  nnqsmul_def := fun _ _ => rfl
  qsmul := _
  qsmul_def := fun _ _ => rfl

theorem ginv_zero : ginv 0#16 = 0#16 := congrArg GF16.val (inv_zero (G₀ := GF16))

end GF16

/-! ### bridge lemmas on raw symbols -/

open GF16

theorem gexp_eq (m : Nat) (h : m < 2 ^ 64) : (⟨gexp m⟩ : GF16) = (⟨gen⟩ : GF16) ^ m :=
  mk_gpow gen m h

theorem gexp_65535 : gexp 65535 = gone := by
  have := gexp_eq 65535 (by decide)
  exact congrArg GF16.val (this.trans g_pow_65535)

theorem gexp_add (a b : Nat) (h : a + b < 2 ^ 64) : gexp (a + b) = gmul (gexp a) (gexp b) := by
  have h1 := gexp_eq (a + b) h
  rw [pow_add, ← gexp_eq a (by omega), ← gexp_eq b (by omega)] at h1
  exact congrArg GF16.val h1

theorem gexp_injOn {a b : Nat} (ha : a < 65535) (hb : b < 65535) (h : gexp a = gexp b) : a = b := by
  apply g_pow_injOn ha hb
  show (⟨gen⟩ : GF16) ^ a = (⟨gen⟩ : GF16) ^ b
  rw [← gexp_eq a (by omega), ← gexp_eq b (by omega), h]

theorem exists_log (x : Sym) (hx : x ≠ 0) : ∃ k, k < 65535 ∧ gexp k = x := by
  obtain ⟨k, hk, h⟩ := exists_pow_eq ⟨x⟩ (fun h => hx (congrArg GF16.val h))
  refine ⟨k, hk, ?_⟩
  have := gexp_eq k (by omega)
  exact congrArg GF16.val (this.trans h.symm)

theorem gexp_ne_zero (k : Nat) (h : k < 2 ^ 64) : gexp k ≠ 0 := by
  intro h0
  have := gexp_eq k h
  rw [h0] at this
  exact g_pow_ne_zero k this.symm

/-- `gexp` is periodic with period 65535 -/
theorem gexp_mod (k : Nat) (h : k < 2 ^ 64) : gexp (k % 65535) = gexp k := by
  have h1 := gexp_eq k h
  have h2 := gexp_eq (k % 65535) (by omega)
  have : (⟨gen⟩ : GF16) ^ k = (⟨gen⟩ : GF16) ^ (k % 65535) := by
    conv_lhs => rw [← Nat.div_add_mod k 65535, pow_add, pow_mul]
    show (g ^ 65535) ^ (k / 65535) * _ = _
    rw [g_pow_65535, one_pow, one_mul]
  exact congrArg GF16.val (h2.trans (this.symm.trans h1.symm))

theorem gmul_ginv (a : Sym) (ha : a ≠ 0) : gmul a (ginv a) = gone := by
  have : (⟨a⟩ : GF16) ≠ 0 := fun h => ha (congrArg GF16.val h)
  exact congrArg GF16.val (mul_inv_cancel₀ this)

theorem gmul_eq_zero {a b : Sym} : gmul a b = 0 ↔ a = 0 ∨ b = 0 := by
  have := mul_eq_zero (M₀ := GF16) (a := ⟨a⟩) (b := ⟨b⟩)
  constructor
  · intro h
    rcases this.1 (GF16.ext h) with h | h
    · exact Or.inl (congrArg GF16.val h)
    · exact Or.inr (congrArg GF16.val h)
  · rintro (h | h)
    · subst h; exact gmul_zero_left _
    · subst h; exact gmul_zero_right _

/-! ### the discrete logarithm -/

open Classical in
/-- discrete logarithm to base `gen` (`glog 0 = 0` by convention) -/
noncomputable def glog (x : Sym) : Nat :=
  if h : x ≠ 0 then Nat.find (exists_log x h) else 0

theorem glog_spec (x : Sym) (hx : x ≠ 0) : glog x < 65535 ∧ gexp (glog x) = x := by
  unfold glog
  rw [dif_pos hx]
  exact Nat.find_spec (exists_log x hx)

theorem glog_gexp (k : Nat) (hk : k < 65535) : glog (gexp k) = k := by
  have h := glog_spec (gexp k) (gexp_ne_zero k (by omega))
  exact gexp_injOn h.1 hk h.2

end RS

#print axioms RS.GF16.instCommRing
#print axioms RS.GF16.instCharP
#print axioms RS.GF16.card
#print axioms RS.GF16.pow_val
#print axioms RS.GF16.orderOf_g
#print axioms RS.GF16.gpow_gen
#print axioms RS.GF16.xpow_eq_iterate
#print axioms RS.GF16.instFintype
#print axioms RS.GF16.exists_pow_eq
#print axioms RS.GF16.mul_pow_65534
#print axioms RS.GF16.instField
#print axioms RS.GF16.inv_val
#print axioms RS.gexp_eq
#print axioms RS.gexp_65535
#print axioms RS.gexp_add
#print axioms RS.gexp_injOn
#print axioms RS.exists_log
#print axioms RS.gexp_mod
#print axioms RS.gmul_ginv
#print axioms RS.gmul_eq_zero
#print axioms RS.glog_spec
#print axioms RS.glog_gexp
