/-
  Schedule theorems for `fft` / `ifft` (Model/Engine.lean):

  1. size and frame of `fft` / `ifft`                       (`fft_size`, `fft_frame`, …)
  2. Naive and two-layer fft agree on the first `trunc` outputs, and the truncated fft agrees
     with the full one there                                (`fft_agree`, `fft_sched_agree`, `fft_trunc`)
  3. with a zero tail, Naive and two-layer ifft produce the same array, and the truncated ifft
     equals the full one                                    (`ifft_agree`, `ifft_sched_agree`, `ifft_trunc`)
  4. full Naive fft and ifft (same `delta`) are mutually inverse
                                                            (`ifft_fft_inverse`, `fft_ifft_inverse`)
-/
import RSVerif.Proofs.SchedAux

namespace RS
open ShardAlg

variable {V : Type} [ShardAlg V]

/-! ## 1. size and frame -/

theorem rd_fftLayer_frame (delta : Nat) (proc : Nat → Bool) (d pos size : Nat) (a : Array V)
    {p : Nat} (hp : p < pos ∨ pos + size ≤ p) :
    rd (fftLayer delta proc d pos size a) p = rd a p := by
  by_cases h : p < a.size
  · rw [rd_fftLayer_of_lt _ _ _ _ _ _ h, fftPt_out (by omega)]
  · rw [rd_eq_zero _ (by simpa using h), rd_eq_zero _ h]

theorem rd_ifftLayer_frame (delta : Nat) (proc : Nat → Bool) (d pos size : Nat) (a : Array V)
    {p : Nat} (hp : p < pos ∨ pos + size ≤ p) :
    rd (ifftLayer delta proc d pos size a) p = rd a p := by
  by_cases h : p < a.size
  · rw [rd_ifftLayer_of_lt _ _ _ _ _ _ h, ifftPt_out (by omega)]
  · rw [rd_eq_zero _ (by simpa using h), rd_eq_zero _ h]

theorem rd_runFftPlan_frame (delta pos size : Nat) (plan : List Layer) (a : Array V)
    {p : Nat} (hp : p < pos ∨ pos + size ≤ p) :
    rd (runFftPlan delta pos size plan a) p = rd a p := by
  induction plan generalizing a with
  | nil => rfl
  | cons l ls ih =>
    simp only [runFftPlan, List.foldl_cons] at ih ⊢
    rw [ih, rd_fftLayer_frame _ _ _ _ _ _ hp]

theorem rd_runIfftPlan_frame (delta pos size : Nat) (plan : List Layer) (a : Array V)
    {p : Nat} (hp : p < pos ∨ pos + size ≤ p) :
    rd (runIfftPlan delta pos size plan a) p = rd a p := by
  induction plan generalizing a with
  | nil => rfl
  | cons l ls ih =>
    simp only [runIfftPlan, List.foldl_cons] at ih ⊢
    rw [ih, rd_ifftLayer_frame _ _ _ _ _ _ hp]

@[simp] theorem fft_size (s : Sched) (a : Array V) (pos size trunc delta : Nat) :
    (fft s a pos size trunc delta).size = a.size := by
  simp [fft]

@[simp] theorem ifft_size (s : Sched) (a : Array V) (pos size trunc delta : Nat) :
    (ifft s a pos size trunc delta).size = a.size := by
  simp [ifft]

theorem fft_frame (s : Sched) (a : Array V) (pos size trunc delta : Nat) {p : Nat}
    (hp : p < pos ∨ pos + size ≤ p) :
    rd (fft s a pos size trunc delta) p = rd a p :=
  rd_runFftPlan_frame _ _ _ _ _ hp

theorem ifft_frame (s : Sched) (a : Array V) (pos size trunc delta : Nat) {p : Nat}
    (hp : p < pos ∨ pos + size ≤ p) :
    rd (ifft s a pos size trunc delta) p = rd a p :=
  rd_runIfftPlan_frame _ _ _ _ _ hp

/-! ## 2. fft: schedules agree below `trunc` -/

/-- an fft plan for `2^n` points (distances `2^(n-1), …, 1`) that processes at least every block
    starting below `trunc` -/
inductive FftPlanOK (trunc : Nat) : Nat → List Layer → Prop
  | nil : FftPlanOK trunc 0 []
  | cons {n : Nat} {proc : Nat → Bool} {plan : List Layer} :
      (∀ r, r < trunc → proc r = true) → FftPlanOK trunc n plan →
      FftPlanOK trunc (n + 1) ((2 ^ n, proc) :: plan)

theorem FftPlanOK.mono {trunc trunc' n : Nat} {P : List Layer} (h : trunc ≤ trunc')
    (hP : FftPlanOK trunc' n P) : FftPlanOK trunc n P := by
  induction hP with
  | nil => exact .nil
  | cons hp _ ih => exact .cons (fun r hr => hp r (Nat.lt_of_lt_of_le hr h)) ih

theorem naiveFftPlan_ok (trunc n : Nat) : FftPlanOK trunc n (naiveFftPlan trunc n) := by
  induction n with
  | zero => exact .nil
  | succ n ih => exact .cons (fun r h => by simpa using h) ih

theorem twoFftPlan_ok (trunc : Nat) : ∀ n, FftPlanOK trunc n (twoFftPlan trunc n)
  | 0 => .nil
  | 1 => .cons (n := 0) (fun r h => by simpa using h) .nil
  | n + 2 =>
    .cons (fun r h => by simpa using h)
      (.cons (fun r h => by
        have := blk_le (2 ^ (n + 2)) r
        simp only [decide_eq_true_eq]; omega) (twoFftPlan_ok trunc n))

theorem fftPlan_ok (s : Sched) (n trunc : Nat) : FftPlanOK trunc n (fftPlan s n trunc) := by
  cases s
  · exact naiveFftPlan_ok trunc n
  · exact twoFftPlan_ok trunc n

/-- `f` and `g` agree on every window position whose aligned `B`-block starts below `trunc` -/
def AgreeBelow (pos trunc B : Nat) (f g : Nat → V) : Prop :=
  ∀ i, i / B * B < trunc → f (pos + i) = g (pos + i)

omit [ShardAlg V] in
theorem AgreeBelow.half {pos trunc B : Nat} {f g : Nat → V}
    (H : AgreeBelow pos trunc (2 * B) f g) : AgreeBelow pos trunc B f g :=
  fun i hi => H i (Nat.lt_of_le_of_lt (blk_mono B i) hi)

theorem fftPt_agree {delta : Nat} {proc proc' : Nat → Bool} {d pos size trunc : Nat}
    {f g : Nat → V} (hd : 0 < d)
    (hp : ∀ r, r < trunc → proc r = true) (hp' : ∀ r, r < trunc → proc' r = true)
    (H : AgreeBelow pos trunc (2 * d) f g) :
    AgreeBelow pos trunc (2 * d)
      (fftPt delta proc d pos size f) (fftPt delta proc' d pos size g) := by
  intro i hi
  by_cases hw : i < size
  · by_cases hlo : i % (2 * d) < d
    · rw [fftPt_lo hw (hp _ hi) hlo, fftPt_lo hw (hp' _ hi) hlo, H i hi,
        H (i + d) (by rw [(lo_partner hlo).1]; exact hi)]
    · obtain ⟨h1, h2, _⟩ := hi_partner hd hlo
      rw [fftPt_hi hw (hp _ hi) hlo h1, fftPt_hi hw (hp' _ hi) hlo h1, H i hi,
        H (i - d) (by rw [h2]; exact hi)]
  · rw [fftPt_out (by omega), fftPt_out (by omega)]
    exact H i hi

theorem runFftPt_agree {delta pos size trunc n : Nat} {P Q : List Layer}
    (hP : FftPlanOK trunc n P) (hQ : FftPlanOK trunc n Q) {f g : Nat → V}
    (H : AgreeBelow pos trunc (2 ^ n) f g) :
    AgreeBelow pos trunc 1 (runFftPt delta pos size P f) (runFftPt delta pos size Q g) := by
  induction hP generalizing Q f g with
  | nil => cases hQ; exact H
  | @cons n proc plan hp _ ih =>
    cases hQ with
    | cons hq hQ =>
      simp only [runFftPt, List.foldl_cons] at ih ⊢
      apply ih hQ
      apply AgreeBelow.half
      apply fftPt_agree (Nat.two_pow_pos n) hp hq
      rw [Nat.pow_succ, Nat.mul_comm] at H
      exact H

/-- General form: for `trunc ≤ trunc'`, any two schedules agree on the first `trunc` outputs. -/
theorem fft_agree (s s' : Sched) (a : Array V) (pos size trunc trunc' delta : Nat)
    (h : pos + size ≤ a.size) (ht : trunc ≤ trunc') {i : Nat} (hi : i < trunc) :
    rd (fft s a pos size trunc delta) (pos + i) = rd (fft s' a pos size trunc' delta) (pos + i) := by
  simp only [fft, rd_runFftPlan _ _ _ _ _ h]
  exact runFftPt_agree (fftPlan_ok s _ trunc) ((fftPlan_ok s' _ trunc').mono ht)
    (fun _ _ => rfl) i (by simpa using hi)

theorem fft_sched_agree (a : Array V) (pos size n trunc delta : Nat) (_hs : size = 2 ^ n)
    (_ht : trunc ≤ size) (h : pos + size ≤ a.size) {i : Nat} (hi : i < trunc) :
    rd (fft .naive a pos size trunc delta) (pos + i) =
      rd (fft .twoLayer a pos size trunc delta) (pos + i) :=
  fft_agree _ _ a pos size trunc trunc delta h (Nat.le_refl _) hi

/-- the truncated transform agrees with the full one on the first `trunc` outputs -/
theorem fft_trunc (s s' : Sched) (a : Array V) (pos size n trunc delta : Nat) (_hs : size = 2 ^ n)
    (ht : trunc ≤ size) (h : pos + size ≤ a.size) {i : Nat} (hi : i < trunc) :
    rd (fft s a pos size trunc delta) (pos + i) = rd (fft s' a pos size size delta) (pos + i) :=
  fft_agree _ _ a pos size trunc size delta h ht hi

/-! ## 3. ifft: schedules agree on inputs with a zero tail -/

/-- an ifft plan (distances `2^lvl, …, 2^(lvl+m-1)`) that processes at least every block
    starting below `trunc` -/
inductive IfftPlanOK (trunc : Nat) : Nat → Nat → List Layer → Prop
  | nil {lvl : Nat} : IfftPlanOK trunc lvl 0 []
  | cons {lvl m : Nat} {proc : Nat → Bool} {plan : List Layer} :
      (∀ r, r < trunc → proc r = true) → IfftPlanOK trunc (lvl + 1) m plan →
      IfftPlanOK trunc lvl (m + 1) ((2 ^ lvl, proc) :: plan)

theorem IfftPlanOK.mono {trunc trunc' lvl m : Nat} {P : List Layer} (h : trunc ≤ trunc')
    (hP : IfftPlanOK trunc' lvl m P) : IfftPlanOK trunc lvl m P := by
  induction hP with
  | nil => exact .nil
  | cons hp _ ih => exact .cons (fun r hr => hp r (Nat.lt_of_lt_of_le hr h)) ih

theorem naiveIfftPlan_ok (trunc lvl m : Nat) :
    IfftPlanOK trunc lvl m (naiveIfftPlan trunc lvl m) := by
  induction m generalizing lvl with
  | zero => exact .nil
  | succ m ih => exact .cons (fun r h => by simpa using h) (ih (lvl + 1))

theorem twoIfftPlan_ok (trunc : Nat) : ∀ lvl m, IfftPlanOK trunc lvl m (twoIfftPlan trunc lvl m)
  | _, 0 => .nil
  | _, 1 => .cons (fun _ _ => rfl) .nil
  | lvl, m + 2 =>
    .cons (fun r h => by
        have := blk_le (2 ^ (lvl + 2)) r
        simp only [decide_eq_true_eq]; omega)
      (.cons (fun r h => by simpa using h) (twoIfftPlan_ok trunc (lvl + 2) m))

theorem ifftPlan_ok (s : Sched) (n trunc : Nat) : IfftPlanOK trunc 0 n (ifftPlan s n trunc) := by
  cases s
  · exact naiveIfftPlan_ok trunc 0 n
  · exact twoIfftPlan_ok trunc 0 n

/-- every aligned `B`-block of the window that starts at or beyond `trunc` is zero -/
def ZeroFrom (pos size trunc B : Nat) (f : Nat → V) : Prop :=
  ∀ i, i < size → trunc ≤ i / B * B → f (pos + i) = zero

section
variable [LawfulShardAlg V]

/-- a `2d`-block starting at or beyond `trunc` consists of two zero `d`-blocks and stays zero,
    processed or not -/
theorem ifftPt_zero {delta : Nat} {proc : Nat → Bool} {d pos size trunc : Nat} {f : Nat → V}
    (hd : 0 < d) (hdvd : 2 * d ∣ size) (H : ZeroFrom pos size trunc d f) {i : Nat}
    (hi : i < size) (ht : trunc ≤ i / (2 * d) * (2 * d)) :
    ifftPt delta proc d pos size f (pos + i) = zero := by
  have h0 : f (pos + i) = zero := H i hi (Nat.le_trans ht (blk_mono d i))
  cases hp : proc (i / (2 * d) * (2 * d)) with
  | false => rw [ifftPt_skip hi hp, h0]
  | true =>
    by_cases hlo : i % (2 * d) < d
    · have hlt := lo_partner_lt hd hdvd hi hlo
      have h1 : f (pos + (i + d)) = zero := H (i + d) hlt (by
        have := blk_mono d (i + d)
        rw [(lo_partner hlo).1] at this
        exact Nat.le_trans ht this)
      rw [ifftPt_lo hi hp hlo, h0, h1, LawfulShardAlg.add_zero, LawfulShardAlg.smul_zero,
        LawfulShardAlg.add_zero]
    · obtain ⟨a1, a2, _⟩ := hi_partner hd hlo
      have h1 : f (pos + (i - d)) = zero := H (i - d) (by omega) (by
        have := blk_mono d (i - d)
        rw [a2] at this
        exact Nat.le_trans ht this)
      rw [ifftPt_hi hi hp hlo a1, h0, h1, LawfulShardAlg.add_zero]

theorem ifftPt_zeroFrom {delta : Nat} {proc : Nat → Bool} {d pos size trunc : Nat} {f : Nat → V}
    (hd : 0 < d) (hdvd : 2 * d ∣ size) (H : ZeroFrom pos size trunc d f) :
    ZeroFrom pos size trunc (2 * d) (ifftPt delta proc d pos size f) :=
  fun _ hi ht => ifftPt_zero hd hdvd H hi ht

theorem ifftPt_congr_proc {delta : Nat} {proc proc' : Nat → Bool} {d pos size trunc : Nat}
    {f : Nat → V} (hd : 0 < d) (hdvd : 2 * d ∣ size)
    (hp : ∀ r, r < trunc → proc r = true) (hp' : ∀ r, r < trunc → proc' r = true)
    (H : ZeroFrom pos size trunc d f) :
    ifftPt delta proc d pos size f = ifftPt delta proc' d pos size f := by
  funext p
  rcases window_cases pos size p with h | ⟨i, hi, rfl⟩
  · rw [ifftPt_out h, ifftPt_out h]
  · by_cases ht : i / (2 * d) * (2 * d) < trunc
    · by_cases hlo : i % (2 * d) < d
      · rw [ifftPt_lo hi (hp _ ht) hlo, ifftPt_lo hi (hp' _ ht) hlo]
      · obtain ⟨a1, _, _⟩ := hi_partner hd hlo
        rw [ifftPt_hi hi (hp _ ht) hlo a1, ifftPt_hi hi (hp' _ ht) hlo a1]
    · rw [ifftPt_zero hd hdvd H hi (by omega), ifftPt_zero hd hdvd H hi (by omega)]

theorem runIfftPt_agree {delta pos size trunc lvl m : Nat} {P Q : List Layer}
    (hP : IfftPlanOK trunc lvl m P) (hQ : IfftPlanOK trunc lvl m Q) {f : Nat → V}
    (hs : size = 2 ^ (lvl + m)) (H : ZeroFrom pos size trunc (2 ^ lvl) f) :
    runIfftPt delta pos size P f = runIfftPt delta pos size Q f := by
  induction hP generalizing Q f with
  | nil => cases hQ; rfl
  | @cons lvl m proc plan hp _ ih =>
    cases hQ with
    | @cons _ _ proc' plan' hq hQ =>
      have hdvd : 2 * 2 ^ lvl ∣ size := two_pow_dvd_of_eq hs
      have hd := Nat.two_pow_pos lvl
      simp only [runIfftPt, List.foldl_cons] at ih ⊢
      rw [ifftPt_congr_proc hd hdvd hp hq H]
      apply ih hQ (by rw [hs]; congr 1; omega)
      have := ifftPt_zeroFrom (delta := delta) (proc := proc') hd hdvd H
      rw [Nat.pow_succ, Nat.mul_comm]
      exact this

/-- General form: with a zero tail from `trunc` on and `trunc ≤ trunc'`, any two schedules give
    the same array. -/
theorem ifft_agree (s s' : Sched) (a : Array V) (pos size n trunc trunc' delta : Nat)
    (hs : size = 2 ^ n) (h : pos + size ≤ a.size) (ht : trunc ≤ trunc')
    (hz : ∀ i, trunc ≤ i → i < size → rd a (pos + i) = zero) :
    ifft s a pos size trunc delta = ifft s' a pos size trunc' delta := by
  apply ext_rd (by simp)
  have hn : Nat.log2 size = n := by rw [hs]; exact Nat.log2_two_pow
  simp only [ifft, rd_runIfftPlan _ _ _ _ _ h, hn]
  apply runIfftPt_agree (ifftPlan_ok s n trunc) ((ifftPlan_ok s' n trunc').mono ht)
    (by simpa using hs)
  intro i hi hti
  exact hz i (by simpa using hti) hi

theorem ifft_sched_agree (a : Array V) (pos size n trunc delta : Nat) (hs : size = 2 ^ n)
    (_ht : trunc ≤ size) (h : pos + size ≤ a.size)
    (hz : ∀ i, trunc ≤ i → i < size → rd a (pos + i) = zero) :
    ifft .naive a pos size trunc delta = ifft .twoLayer a pos size trunc delta :=
  ifft_agree _ _ a pos size n trunc trunc delta hs h (Nat.le_refl _) hz

/-- under the zero-tail hypothesis the truncated ifft equals the full one -/
theorem ifft_trunc (s s' : Sched) (a : Array V) (pos size n trunc delta : Nat) (hs : size = 2 ^ n)
    (ht : trunc ≤ size) (h : pos + size ≤ a.size)
    (hz : ∀ i, trunc ≤ i → i < size → rd a (pos + i) = zero) :
    ifft s a pos size trunc delta = ifft s' a pos size size delta :=
  ifft_agree _ _ a pos size n trunc size delta hs h ht hz

/-! ## 4. full Naive fft and ifft are mutually inverse -/

theorem add_add_cancel_right (a b : V) : add (add a b) b = a := by
  rw [LawfulShardAlg.add_assoc, LawfulShardAlg.add_self, LawfulShardAlg.add_zero]

/-- a fully processed ifft layer undoes the fully processed fft layer at the same distance -/
theorem ifftPt_fftPt {delta : Nat} {proc proc' : Nat → Bool} {d pos size : Nat} {f : Nat → V}
    (hd : 0 < d) (hdvd : 2 * d ∣ size)
    (hp : ∀ r, r < size → proc r = true) (hp' : ∀ r, r < size → proc' r = true) :
    ifftPt delta proc' d pos size (fftPt delta proc d pos size f) = f := by
  funext p
  rcases window_cases pos size p with h | ⟨i, hi, rfl⟩
  · rw [ifftPt_out h, fftPt_out h]
  · have hr : i / (2 * d) * (2 * d) < size := Nat.lt_of_le_of_lt (blk_le _ _) hi
    by_cases hlo : i % (2 * d) < d
    · have hlt := lo_partner_lt hd hdvd hi hlo
      obtain ⟨b1, b2⟩ := lo_partner hlo
      rw [ifftPt_lo hi (hp' _ hr) hlo, fftPt_lo hi (hp _ hr) hlo,
        fftPt_hi hlt (hp _ (by rw [b1]; exact hr)) b2 (by omega), b1, Nat.add_sub_cancel,
        add_add_cancel_right, add_add_cancel_right]
    · obtain ⟨a1, a2, a3⟩ := hi_partner hd hlo
      rw [ifftPt_hi hi (hp' _ hr) hlo a1, fftPt_hi hi (hp _ hr) hlo a1,
        fftPt_lo (i := i - d) (by omega) (hp _ (by rw [a2]; exact hr)) a3, a2,
        Nat.sub_add_cancel a1, add_add_cancel_right]

/-- a fully processed fft layer undoes the fully processed ifft layer at the same distance -/
theorem fftPt_ifftPt {delta : Nat} {proc proc' : Nat → Bool} {d pos size : Nat} {f : Nat → V}
    (hd : 0 < d) (hdvd : 2 * d ∣ size)
    (hp : ∀ r, r < size → proc r = true) (hp' : ∀ r, r < size → proc' r = true) :
    fftPt delta proc' d pos size (ifftPt delta proc d pos size f) = f := by
  funext p
  rcases window_cases pos size p with h | ⟨i, hi, rfl⟩
  · rw [fftPt_out h, ifftPt_out h]
  · have hr : i / (2 * d) * (2 * d) < size := Nat.lt_of_le_of_lt (blk_le _ _) hi
    by_cases hlo : i % (2 * d) < d
    · have hlt := lo_partner_lt hd hdvd hi hlo
      obtain ⟨b1, b2⟩ := lo_partner hlo
      rw [fftPt_lo hi (hp' _ hr) hlo, ifftPt_lo hi (hp _ hr) hlo,
        ifftPt_hi hlt (hp _ (by rw [b1]; exact hr)) b2 (by omega), Nat.add_sub_cancel,
        add_add_cancel_right]
    · obtain ⟨a1, a2, a3⟩ := hi_partner hd hlo
      rw [fftPt_hi hi (hp' _ hr) hlo a1, ifftPt_hi hi (hp _ hr) hlo a1,
        ifftPt_lo (i := i - d) (by omega) (hp _ (by rw [a2]; exact hr)) a3, a2,
        Nat.sub_add_cancel a1, add_add_cancel_right, add_add_cancel_right]

end

theorem naiveIfftPlan_snoc (trunc lvl m : Nat) :
    naiveIfftPlan trunc lvl (m + 1) =
      naiveIfftPlan trunc lvl m ++ [(2 ^ (lvl + m), fun r => decide (r < trunc))] := by
  induction m generalizing lvl with
  | zero => rfl
  | succ m ih =>
    rw [naiveIfftPlan, ih (lvl + 1), naiveIfftPlan, List.cons_append]
    have : lvl + 1 + m = lvl + (m + 1) := by omega
    rw [this]

section
variable [LawfulShardAlg V]

theorem runIfftPt_runFftPt_naive {delta pos size N : Nat} (hs : size = 2 ^ N) :
    ∀ m, m ≤ N → ∀ f : Nat → V,
      runIfftPt delta pos size (naiveIfftPlan size 0 m)
        (runFftPt delta pos size (naiveFftPlan size m) f) = f := by
  intro m
  induction m with
  | zero => intro _ f; rfl
  | succ m ih =>
    intro hm f
    have ih' := ih (by omega) (fftPt delta (fun r => decide (r < size)) (2 ^ m) pos size f)
    rw [naiveIfftPlan_snoc]
    simp only [runIfftPt, runFftPt, naiveFftPlan, List.foldl_append, List.foldl_cons,
      List.foldl_nil, Nat.zero_add] at ih' ⊢
    rw [ih']
    exact ifftPt_fftPt (Nat.two_pow_pos m)
      (two_pow_dvd_of_eq (l := m) (m := N - m - 1) (by rw [hs]; congr 1; omega))
      (fun r h => by simpa using h) (fun r h => by simpa using h)

theorem runFftPt_runIfftPt_naive {delta pos size N : Nat} (hs : size = 2 ^ N) :
    ∀ m, m ≤ N → ∀ f : Nat → V,
      runFftPt delta pos size (naiveFftPlan size m)
        (runIfftPt delta pos size (naiveIfftPlan size 0 m) f) = f := by
  intro m
  induction m with
  | zero => intro _ f; rfl
  | succ m ih =>
    intro hm f
    have ih' := ih (by omega) f
    rw [naiveIfftPlan_snoc]
    simp only [runIfftPt, runFftPt, naiveFftPlan, List.foldl_append, List.foldl_cons,
      List.foldl_nil, Nat.zero_add] at ih' ⊢
    rw [fftPt_ifftPt (Nat.two_pow_pos m)
      (two_pow_dvd_of_eq (l := m) (m := N - m - 1) (by rw [hs]; congr 1; omega))
      (fun r h => by simpa using h) (fun r h => by simpa using h)]
    exact ih'

theorem ifft_fft_inverse (a : Array V) (pos size n delta : Nat) (hs : size = 2 ^ n)
    (h : pos + size ≤ a.size) :
    ifft .naive (fft .naive a pos size size delta) pos size size delta = a := by
  apply ext_rd (by simp)
  have hn : Nat.log2 size = n := by rw [hs]; exact Nat.log2_two_pow
  have h' : pos + size ≤ (fft .naive a pos size size delta).size := by simpa using h
  rw [ifft, rd_runIfftPlan _ _ _ _ _ h', fft, rd_runFftPlan _ _ _ _ _ h, hn]
  exact runIfftPt_runFftPt_naive hs n (Nat.le_refl _) _

theorem fft_ifft_inverse (a : Array V) (pos size n delta : Nat) (hs : size = 2 ^ n)
    (h : pos + size ≤ a.size) :
    fft .naive (ifft .naive a pos size size delta) pos size size delta = a := by
  apply ext_rd (by simp)
  have hn : Nat.log2 size = n := by rw [hs]; exact Nat.log2_two_pow
  have h' : pos + size ≤ (ifft .naive a pos size size delta).size := by simpa using h
  rw [fft, rd_runFftPlan _ _ _ _ _ h', ifft, rd_runIfftPlan _ _ _ _ _ h, hn]
  exact runFftPt_runIfftPt_naive hs n (Nat.le_refl _) _

end

end RS

#print axioms RS.fft_size
#print axioms RS.fft_frame
#print axioms RS.ifft_size
#print axioms RS.ifft_frame
#print axioms RS.fft_agree
#print axioms RS.fft_sched_agree
#print axioms RS.fft_trunc
#print axioms RS.ifft_agree
#print axioms RS.ifft_sched_agree
#print axioms RS.ifft_trunc
#print axioms RS.ifft_fft_inverse
#print axioms RS.fft_ifft_inverse
