/-
  The butterfly schedule never shows: encoder and decoder results do not depend on `Sched`.

  `Sched.naive` (engine_naive.rs) and `Sched.twoLayer` (engine_nosimd/ssse3/avx2/neon.rs) differ
  only in which blocks at or beyond `truncated_size` they process (`Proofs/Sched.lean`):

    * `ifft_agree`: on a window whose tail from `trunc` on is zero the two iffts give EQUAL arrays,
    * `fft_agree` : the two ffts agree on the first `trunc` outputs.

  The codecs call `ifft` only on windows whose tail was zero-filled (or with `trunc = size`), and
  only ever read the first `trunc` outputs of an `fft`.  Hence

    3. decodeHigh_sched_indep, decodeLow_sched_indep
    2. encodeLow_sched_indep
    1. encodeHigh_sched_indep
    4. recoveryList_sched_indep, restoredList_sched_indep   (object level)

  All theorems are stated for two arbitrary schedules `s s'`.
  Helper lemmas live in the namespace `RS.EA`.
-/
import RSVerif.Proofs.Sched
import RSVerif.Proofs.StaleAux
import RSVerif.Proofs.Envelope
import RSVerif.Proofs.Inv

namespace RS
open ShardAlg

namespace EA

variable {V : Type} [ShardAlg V]

/-! ### sizes -/

omit [ShardAlg V] in
theorem foldl_size {β : Type} (f : Array V → β → Array V) (hf : ∀ a b, (f a b).size = a.size)
    (l : List β) (a : Array V) : (l.foldl f a).size = a.size := by
  induction l generalizing a with
  | nil => rfl
  | cons b l ih => rw [List.foldl_cons, ih, hf]

omit [ShardAlg V] in
/-- two folds whose steps agree on arrays of size `N` (and preserve the size) agree -/
theorem foldl_congr_size {β : Type} (f g : Array V → β → Array V) (N : Nat) (l : List β)
    (hs : ∀ a b, (f a b).size = a.size)
    (hfg : ∀ a b, b ∈ l → a.size = N → f a b = g a b) (a : Array V) (ha : a.size = N) :
    l.foldl f a = l.foldl g a := by
  induction l generalizing a with
  | nil => rfl
  | cons b l ih =>
    rw [List.foldl_cons, List.foldl_cons, ← hfg a b (List.mem_cons_self ..) ha]
    exact ih (fun a' b' hb' => hfg a' b' (List.mem_cons_of_mem _ hb')) _ (by rw [hs, ha])

@[simp] theorem xorWithin_size (a : Array V) (x y count : Nat) :
    (xorWithin a x y count).size = a.size := by
  unfold xorWithin
  exact foldl_size _ (fun a i => by simp) _ _

@[simp] theorem copyWithin_size (a : Array V) (x y count : Nat) :
    (copyWithin a x y count).size = a.size := by
  unfold copyWithin
  exact foldl_size _ (fun a i => by simp) _ _

@[simp] theorem formalDerivative_size (a : Array V) : (formalDerivative a).size = a.size := by
  unfold formalDerivative
  exact foldl_size _ (fun a i => by simp) _ _

@[simp] theorem decodePrepare_size (isData recv : Nat → Bool) (loc : Array Nat) (a : Array V) :
    (decodePrepare isData recv loc a).size = a.size := by
  simp [decodePrepare]

@[simp] theorem decodeReveal_size (lo hi : Nat) (recv : Nat → Bool) (loc : Array Nat) (a : Array V) :
    (decodeReveal lo hi recv loc a).size = a.size := by
  simp [decodeReveal]

/-! ### decoder phases pointwise -/

/-- `decodePrepare` zeroes everything that is not a shard slot -/
theorem rd_decodePrepare_zero (isData recv : Nat → Bool) (loc : Array Nat) (a : Array V) {p : Nat}
    (h : isData p = false) : rd (decodePrepare isData recv loc a) p = zero := by
  by_cases hp : p < a.size
  · rw [rd_eq_getElem _ (by simpa using hp)]
    simp [decodePrepare, h]
  · exact rd_eq_zero _ (by simpa using hp)

/-- `decodeReveal` is pointwise -/
theorem rd_decodeReveal_congr (lo hi : Nat) (recv : Nat → Bool) (loc : Array Nat) {a b : Array V}
    (hs : a.size = b.size) {p : Nat} (h : rd a p = rd b p) :
    rd (decodeReveal lo hi recv loc a) p = rd (decodeReveal lo hi recv loc b) p := by
  by_cases hp : p < a.size
  · have hp' : p < b.size := hs ▸ hp
    rw [rd_eq_getElem _ (by simpa using hp), rd_eq_getElem _ (by simpa using hp')]
    simp only [decodeReveal, Array.getElem_ofFn, h]
  · rw [rd_eq_zero _ (by simpa using hp), rd_eq_zero _ (by simpa [← hs] using hp)]

/-! ### the common shape of both decoders -/

section
variable [LawfulShardAlg V]

/-- prepare (zero from `trunc` on) → ifft → formal derivative → fft → reveal (below `trunc`):
    the result below `trunc` does not depend on the schedule -/
theorem decode_core (s s' : Sched) (isData recv : Nat → Bool) (loc : Array Nat) (lo hi trunc n : Nat)
    (mem : Array V) (hsz : mem.size = 2 ^ n)
    (hdata : ∀ p, trunc ≤ p → isData p = false) {p : Nat} (hp : p < trunc) :
    rd (decodeReveal lo hi recv loc
        (fft s (formalDerivative (ifft s (decodePrepare isData recv loc mem) 0
          (decodePrepare isData recv loc mem).size trunc 0)) 0
          (formalDerivative (ifft s (decodePrepare isData recv loc mem) 0
            (decodePrepare isData recv loc mem).size trunc 0)).size trunc 0)) p =
    rd (decodeReveal lo hi recv loc
        (fft s' (formalDerivative (ifft s' (decodePrepare isData recv loc mem) 0
          (decodePrepare isData recv loc mem).size trunc 0)) 0
          (formalDerivative (ifft s' (decodePrepare isData recv loc mem) 0
            (decodePrepare isData recv loc mem).size trunc 0)).size trunc 0)) p := by
  have e : ifft s (decodePrepare isData recv loc mem) 0 (decodePrepare isData recv loc mem).size
        trunc 0 =
      ifft s' (decodePrepare isData recv loc mem) 0 (decodePrepare isData recv loc mem).size
        trunc 0 :=
    ifft_agree s s' _ 0 _ n trunc trunc 0 (by simpa using hsz) (by simp) (Nat.le_refl _)
      (fun i hi _ => by
        rw [Nat.zero_add]
        exact rd_decodePrepare_zero _ _ _ _ (hdata i hi))
  rw [e]
  apply rd_decodeReveal_congr _ _ _ _ (by simp)
  have := fft_agree s s' (formalDerivative (ifft s' (decodePrepare isData recv loc mem) 0
      (decodePrepare isData recv loc mem).size trunc 0)) 0
    (formalDerivative (ifft s' (decodePrepare isData recv loc mem) 0
      (decodePrepare isData recv loc mem).size trunc 0)).size trunc trunc 0 (by simp)
    (Nat.le_refl _) hp
  rwa [Nat.zero_add] at this

end

end EA

variable {V : Type} [ShardAlg V] [LawfulShardAlg V]

/-! ## 3. decoders -/

/-- **high-rate decoder**: everything below `oend = npow2 r + k` (recovery slots and original
    slots, in particular every restored original) is schedule independent -/
theorem decodeHigh_sched_indep' (s s' : Sched) (lw : Array Nat) (k r : Nat) (recv : Nat → Bool)
    (mem : Array V) (hsup : supportsHigh k r = true) (hsz : mem.size = highDecWorkCount k r)
    {p : Nat} (hp : p < npow2 r + k) :
    rd (decodeHigh s lw k r recv mem) p = rd (decodeHigh s' lw k r recv mem) p := by
  obtain ⟨_, _, _, hr, hs⟩ := supportsHigh_eq.mp hsup
  obtain ⟨n, _, hn, hle, _⟩ := npow2_eq_pow hs
  have hrc : r ≤ npow2 r := le_npow2 (by omega)
  have hsz' : mem.size = 2 ^ n := by rw [hsz]; exact hn
  unfold decodeHigh
  exact EA.decode_core s s' _ recv _ _ _ (npow2 r + k) n mem hsz'
    (fun q hq => by simp; omega) hp

/-- the statement for the original positions `[npow2 r, npow2 r + k)` -/
theorem decodeHigh_sched_indep (lw : Array Nat) (k r : Nat) (recv : Nat → Bool)
    (mem : Array V) (hsup : supportsHigh k r = true) (hsz : mem.size = highDecWorkCount k r)
    (p : Nat) (_hlo : npow2 r ≤ p) (hp : p < npow2 r + k) :
    rd (decodeHigh .naive lw k r recv mem) p = rd (decodeHigh .twoLayer lw k r recv mem) p :=
  decodeHigh_sched_indep' _ _ lw k r recv mem hsup hsz hp

/-- **low-rate decoder**: everything below `rend = npow2 k + r` is schedule independent -/
theorem decodeLow_sched_indep' (s s' : Sched) (lw : Array Nat) (k r : Nat) (recv : Nat → Bool)
    (mem : Array V) (hsup : supportsLow k r = true) (hsz : mem.size = lowDecWorkCount k r)
    {p : Nat} (hp : p < npow2 k + r) :
    rd (decodeLow s lw k r recv mem) p = rd (decodeLow s' lw k r recv mem) p := by
  obtain ⟨_, _, hk, _, hs⟩ := supportsLow_eq.mp hsup
  obtain ⟨n, _, hn, hle, _⟩ := npow2_eq_pow hs
  have hkc : k ≤ npow2 k := le_npow2 (by omega)
  have hsz' : mem.size = 2 ^ n := by rw [hsz]; exact hn
  unfold decodeLow
  exact EA.decode_core s s' _ recv _ _ _ (npow2 k + r) n mem hsz'
    (fun q hq => by simp; omega) hp

/-- the statement for the original positions `[0, k)` -/
theorem decodeLow_sched_indep (lw : Array Nat) (k r : Nat) (recv : Nat → Bool)
    (mem : Array V) (hsup : supportsLow k r = true) (hsz : mem.size = lowDecWorkCount k r)
    (p : Nat) (hp : p < k) :
    rd (decodeLow .naive lw k r recv mem) p = rd (decodeLow .twoLayer lw k r recv mem) p := by
  obtain ⟨_, _, hk, _, _⟩ := supportsLow_eq.mp hsup
  have hkc : k ≤ npow2 k := le_npow2 (by omega)
  exact decodeLow_sched_indep' _ _ lw k r recv mem hsup hsz (by omega)

/-! ## 2. low-rate encoder -/

namespace EA

omit [LawfulShardAlg V] in
/-- a full fft (`trunc = size`) does not depend on the schedule at all -/
theorem fft_full_agree (s s' : Sched) (a : Array V) (pos size delta : Nat)
    (h : pos + size ≤ a.size) :
    fft s a pos size size delta = fft s' a pos size size delta := by
  apply ext_rd (by simp)
  funext p
  rcases window_cases pos size p with hw | ⟨i, hi, rfl⟩
  · rw [fft_frame _ _ _ _ _ _ (by omega), fft_frame _ _ _ _ _ _ (by omega)]
  · exact fft_agree s s' a pos size size size delta h (Nat.le_refl _) hi

omit [LawfulShardAlg V] in
/-- a truncated fft: everything below `pos + trunc` is schedule independent -/
theorem rd_fft_below (s s' : Sched) (a : Array V) (pos size trunc delta : Nat)
    (h : pos + size ≤ a.size) {p : Nat} (hp : p < pos + trunc) :
    rd (fft s a pos size trunc delta) p = rd (fft s' a pos size trunc delta) p := by
  by_cases hlt : p < pos
  · rw [fft_frame _ _ _ _ _ _ (Or.inl hlt), fft_frame _ _ _ _ _ _ (Or.inl hlt)]
  · have := fft_agree s s' a pos size trunc trunc delta h (Nat.le_refl _)
      (i := p - pos) (by omega)
    rwa [show pos + (p - pos) = p by omega] at this

omit [LawfulShardAlg V] in
/-- the fft phase of the low-rate encoder: recovery positions `< r` are schedule independent -/
theorem lowRest_agree (s s' : Sched) (k r : Nat) (a : Array V)
    (hsup : supportsLow k r = true) (ha : a.size = lowEncWorkCount k r) {j : Nat} (hj : j < r) :
    rd (Stale.lowRest s k r a) j = rd (Stale.lowRest s' k r a) j := by
  obtain ⟨_, _, _, _, hgeo, _, _⟩ := low_geometry hsup
  obtain ⟨_, _, hk, _, _⟩ := supportsLow_eq.mp hsup
  have hc := npow2_pos (n := k) (by omega)
  have hdm := Nat.div_add_mod r (npow2 k)
  have hfull : (List.range (r / npow2 k)).foldl
        (fun a c => fft s a (c * npow2 k) (npow2 k) (npow2 k) (c * npow2 k + npow2 k)) a =
      (List.range (r / npow2 k)).foldl
        (fun a c => fft s' a (c * npow2 k) (npow2 k) (npow2 k) (c * npow2 k + npow2 k)) a := by
    refine foldl_congr_size _ _ (lowEncWorkCount k r) _ (fun a c => by simp)
      (fun b c hc hb => ?_) a ha
    have hc' : c < r / npow2 k := List.mem_range.1 hc
    have h1 : (c + 1) * npow2 k ≤ r / npow2 k * npow2 k := Nat.mul_le_mul_right _ hc'
    have h2 := Nat.div_mul_le_self r (npow2 k)
    have h3 := (hgeo c (by rw [Nat.succ_mul] at h1; omega)).2
    rw [Nat.succ_mul] at h3
    exact fft_full_agree s s' b _ _ _ (by rw [hb]; exact h3)
  unfold Stale.lowRest
  simp only []
  rw [hfull]
  by_cases hl : r % npow2 k > 0
  · rw [if_pos hl, if_pos hl]
    have h3 := (hgeo (r / npow2 k) (by rw [Nat.mul_comm]; omega)).2
    rw [Nat.succ_mul] at h3
    apply rd_fft_below
    · rw [foldl_size _ (fun a c => by simp), ha]; exact h3
    · rw [Nat.mul_comm]; omega
  · rw [if_neg hl, if_neg hl]

end EA

/-- **low-rate encoder**: the recovery shards (positions `< r`) are schedule independent.
    (Positions `≥ r` of the last, truncated chunk may differ; they are never exposed.) -/
theorem encodeLow_sched_indep' (s s' : Sched) (k r : Nat) (mem : Array V)
    (hsup : supportsLow k r = true) (hsz : mem.size = lowEncWorkCount k r)
    {j : Nat} (hj : j < r) :
    rd (encodeLow s k r mem) j = rd (encodeLow s' k r mem) j := by
  obtain ⟨_, _, hk, _, _⟩ := supportsLow_eq.mp hsup
  obtain ⟨n, _, hn, _, _⟩ := npow2_eq_pow (n := k) (by omega)
  obtain ⟨_, _, hcw, _, _, _, _⟩ := low_geometry hsup
  have e1 : ifft s (zeroRange mem k (npow2 k)) 0 (npow2 k) k 0 =
      ifft s' (zeroRange mem k (npow2 k)) 0 (npow2 k) k 0 :=
    ifft_agree s s' _ 0 _ n k k 0 hn (by simp [hsz]; exact hcw) (Nat.le_refl _)
      (fun i hi hic => by rw [Nat.zero_add, Stale.rd_zeroRange, if_pos ⟨hi, hic⟩])
  rw [Stale.encodeLow_eq, Stale.encodeLow_eq, e1]
  apply EA.lowRest_agree s s' k r _ hsup _ hj
  rw [EA.foldl_size _ (fun a c => by simp)]
  simp [hsz]

theorem encodeLow_sched_indep (k r : Nat) (mem : Array V)
    (hsup : supportsLow k r = true) (hsz : mem.size = lowEncWorkCount k r) (j : Nat) (hj : j < r) :
    rd (encodeLow .naive k r mem) j = rd (encodeLow .twoLayer k r mem) j :=
  encodeLow_sched_indep' _ _ k r mem hsup hsz hj

/-! ## 1. high-rate encoder -/

namespace EA

omit [LawfulShardAlg V] in
@[simp] theorem highFullChunk_size (s : Sched) (chunk : Nat) (a : Array V) (c : Nat) :
    (highFullChunk s chunk a c).size = a.size := by
  simp [highFullChunk]

omit [LawfulShardAlg V] in
@[simp] theorem highStage1_size (s : Sched) (k r : Nat) (mem : Array V) :
    (Stale.highStage1 s k r mem).size = mem.size := by
  simp [Stale.highStage1]

omit [LawfulShardAlg V] in
@[simp] theorem highLoop_size (s : Sched) (k r : Nat) (a : Array V) :
    (Stale.highLoop s k r a).size = a.size := by
  unfold Stale.highLoop
  exact foldl_size _ (fun a i => highFullChunk_size ..) _ _

omit [LawfulShardAlg V] in
@[simp] theorem highTailRest_size (s : Sched) (k r : Nat) (a : Array V) :
    (Stale.highTailRest s k r a).size = a.size := by
  simp [Stale.highTailRest]

end EA

/-- **high-rate encoder**: the recovery shards (positions `< r`) are schedule independent.
    Every ifft runs on a window with a zero-filled tail (or with `trunc = size`), so the work
    memories are equal right before the final truncated fft. -/
theorem encodeHigh_sched_indep' (s s' : Sched) (k r : Nat) (mem : Array V)
    (hsup : supportsHigh k r = true) (hsz : mem.size = highEncWorkCount k r)
    {j : Nat} (hj : j < r) :
    rd (encodeHigh s k r mem) j = rd (encodeHigh s' k r mem) j := by
  obtain ⟨hk0, _, _, hr, _⟩ := supportsHigh_eq.mp hsup
  obtain ⟨n, _, hn, _, _⟩ := npow2_eq_pow (n := r) (by omega)
  have hc := npow2_pos (n := r) (by omega)
  obtain ⟨_, _, _, _, hgeo, _, _⟩ := high_geometry hsup
  have hcw : npow2 r ≤ highEncWorkCount k r := by
    have := (hgeo 0 (by omega)).2
    omega
  have hdm := Nat.div_add_mod k (npow2 r)
  have hdiv := Nat.div_mul_le_self k (npow2 r)
  -- first chunk
  have e1 : Stale.highStage1 s k r mem = Stale.highStage1 s' k r mem := by
    unfold Stale.highStage1
    exact ifft_agree s s' _ 0 _ n _ _ _ hn (by simp [hsz]; exact hcw) (Nat.le_refl _)
      (fun i hi hic => by rw [Nat.zero_add, Stale.rd_zeroRange, if_pos ⟨hi, hic⟩])
  -- full chunks
  have e2 : ∀ a : Array V, a.size = highEncWorkCount k r →
      Stale.highLoop s k r a = Stale.highLoop s' k r a := by
    intro a ha
    unfold Stale.highLoop
    refine EA.foldl_congr_size _ _ (highEncWorkCount k r) _ (fun a i => EA.highFullChunk_size ..)
      (fun b i hi hb => ?_) a ha
    have hi' : i < k / npow2 r - 1 := List.mem_range.1 hi
    have h1 : (i + 1 + 1) * npow2 r ≤ k / npow2 r * npow2 r := Nat.mul_le_mul_right _ (by omega)
    rw [Nat.succ_mul] at h1
    have h3 := (hgeo (i + 1) (by omega)).2
    rw [Nat.succ_mul] at h3
    unfold highFullChunk
    simp only []
    rw [ifft_agree s s' b ((i + 1) * npow2 r) (npow2 r) n (npow2 r) (npow2 r) _ hn
      (by rw [hb]; exact h3) (Nat.le_refl _) (fun i' h1' h2' => by omega)]
  rw [Stale.encodeHigh_eq, Stale.encodeHigh_eq, ← e1]
  have hS : (Stale.highStage1 s k r mem).size = highEncWorkCount k r := by
    rw [EA.highStage1_size, hsz]
  by_cases hkc : k > npow2 r
  · rw [if_pos hkc, if_pos hkc, ← e2 _ hS]
    have hL : (Stale.highLoop s k r (Stale.highStage1 s k r mem)).size = highEncWorkCount k r := by
      rw [EA.highLoop_size, hS]
    by_cases hl : k % npow2 r > 0
    · rw [if_pos hl, if_pos hl]
      generalize Stale.highLoop s k r (Stale.highStage1 s k r mem) = A at hL ⊢
      have h3 := (hgeo (k / npow2 r) (by rw [Nat.mul_comm]; omega)).2
      rw [Nat.succ_mul] at h3
      -- final partial chunk
      have e3 : Stale.highTailRest s k r
            (zeroRange A (k / npow2 r * npow2 r + k % npow2 r) A.size) =
          Stale.highTailRest s' k r
            (zeroRange A (k / npow2 r * npow2 r + k % npow2 r) A.size) := by
        unfold Stale.highTailRest
        rw [ifft_agree s s' _ (k / npow2 r * npow2 r) (npow2 r) n (k % npow2 r) (k % npow2 r) _ hn
          (by rw [Stale.zeroRange_size, hL]; exact h3) (Nat.le_refl _)
          (fun i hi hic => by rw [Stale.rd_zeroRange, if_pos (by omega)])]
      rw [e3]
      exact EA.rd_fft_below s s' _ 0 _ r 0
        (by rw [EA.highTailRest_size, Stale.zeroRange_size, hL]; omega) (by omega)
    · rw [if_neg hl, if_neg hl]
      exact EA.rd_fft_below s s' _ 0 _ r 0 (by rw [hL]; omega) (by omega)
  · rw [if_neg hkc, if_neg hkc]
    exact EA.rd_fft_below s s' _ 0 _ r 0 (by rw [hS]; omega) (by omega)

theorem encodeHigh_sched_indep (k r : Nat) (mem : Array V)
    (hsup : supportsHigh k r = true) (hsz : mem.size = highEncWorkCount k r) (j : Nat) (hj : j < r) :
    rd (encodeHigh .naive k r mem) j = rd (encodeHigh .twoLayer k r mem) j :=
  encodeHigh_sched_indep' _ _ k r mem hsup hsz hj

/-! ## 4. object level

  The lane-vector algebra `Vector Sym L` is lawful (`instLawfulShardAlgVector` in
  `Proofs/Lanes.lean`); the instance is taken as an instance argument here so that this file does
  not depend on the field-law development. -/

namespace EA

theorem filterMap_congr {α β : Type} (f g : α → Option β) (l : List α)
    (h : ∀ x, x ∈ l → f x = g x) : l.filterMap f = l.filterMap g := by
  induction l with
  | nil => rfl
  | cons x l ih =>
    rw [List.filterMap_cons, List.filterMap_cons, h x (List.mem_cons_self ..),
      ih (fun y hy => h y (List.mem_cons_of_mem _ hy))]

end EA

/-- the encoder transform of either rate: recovery positions are schedule independent -/
theorem encodeMem_sched_indep {L : Nat} [LawfulShardAlg (Vector Sym L)] (s s' : Sched)
    (rate : Rate) (k r : Nat) (mem : Array (Vector Sym L))
    (hsup : supportsRate rate k r = true) (hsz : mem.size = encWorkCount rate k r)
    {j : Nat} (hj : j < r) :
    rd (encodeMem rate s k r mem) j = rd (encodeMem rate s' k r mem) j := by
  cases rate
  · exact encodeHigh_sched_indep' s s' k r mem hsup hsz hj
  · exact encodeLow_sched_indep' s s' k r mem hsup hsz hj

/-- position of original shard 0 in the decoder work memory (`DecWork.Inv.obase`) -/
def obaseOf (rate : Rate) (r : Nat) : Nat :=
  match rate with
  | .high => npow2 r
  | .low => 0

theorem DecWork.Inv.obase_eq {rate : Rate} {w : DecWork} (hinv : DecWork.Inv rate w) :
    w.obase = obaseOf rate w.r := by
  have := hinv.obase
  cases rate <;> exact this

/-- the decoder transform of either rate: original positions `obase + i`, `i < k`, are schedule
    independent -/
theorem decodeMem_sched_indep {L : Nat} [LawfulShardAlg (Vector Sym L)] (s s' : Sched)
    (rate : Rate) (lw : Array Nat) (k r : Nat) (recv : Nat → Bool) (obase : Nat)
    (hob : obase = obaseOf rate r)
    (mem : Array (Vector Sym L))
    (hsup : supportsRate rate k r = true) (hsz : mem.size = decWorkCount rate k r)
    {i : Nat} (hi : i < k) :
    rd (decodeMem rate s lw k r recv mem) (obase + i) =
      rd (decodeMem rate s' lw k r recv mem) (obase + i) := by
  cases rate
  · change obase = npow2 r at hob
    subst hob
    exact decodeHigh_sched_indep' s s' lw k r recv mem hsup hsz (by omega)
  · change obase = 0 at hob
    subst hob
    obtain ⟨_, _, hk, _, _⟩ := supportsLow_eq.mp hsup
    have hkc : k ≤ npow2 k := le_npow2 (by omega)
    exact decodeLow_sched_indep' s s' lw k r recv mem hsup hsz (by omega)

/-- **recovery shards exposed by the `EncoderResult` do not depend on the engine** -/
theorem recoveryList_sched_indep (s s' : Sched) (rate : Rate) (w : EncWork)
    [LawfulShardAlg (Vector Sym w.L)] (hinv : EncWork.Inv rate w) :
    ({ w with mem := encodeMem rate s w.k w.r w.mem } : EncWork).recoveryList =
      ({ w with mem := encodeMem rate s' w.k w.r w.mem } : EncWork).recoveryList := by
  unfold EncWork.recoveryList
  apply EA.filterMap_congr
  intro i hi
  have hi' : i < w.r := List.mem_range.1 hi
  have h := encodeMem_sched_indep s s' rate w.k w.r w.mem hinv.supported hinv.size hi'
  simp only [EncWork.recovery]
  rw [if_pos hi', if_pos hi']
  congr 2

theorem DecWork.restoredOriginal_withMem (w : DecWork) (m : Array (Vector Sym w.L)) (i : Nat) :
    ({ w with mem := m } : DecWork).restoredOriginal i =
      if i < w.k ∧ w.recvAt (w.obase + i) = false then
        some (unlayout w.sb (rd m (w.obase + i)))
      else none := rfl

/-- **restored originals yielded by the `DecoderResult` do not depend on the engine** -/
theorem restoredList_sched_indep (s s' : Sched) (rate : Rate) (lw : Array Nat) (w : DecWork)
    [LawfulShardAlg (Vector Sym w.L)] (hinv : DecWork.Inv rate w) :
    ({ w with mem := decodeMem rate s lw w.k w.r w.recvAt w.mem } : DecWork).restoredList =
      ({ w with mem := decodeMem rate s' lw w.k w.r w.recvAt w.mem } : DecWork).restoredList := by
  unfold DecWork.restoredList
  apply EA.filterMap_congr
  intro i hi
  have hi' : i < w.k := List.mem_range.1 hi
  have h := decodeMem_sched_indep s s' rate lw w.k w.r w.recvAt w.obase hinv.obase_eq w.mem
    hinv.supported hinv.size hi'
  rw [DecWork.restoredOriginal_withMem, DecWork.restoredOriginal_withMem, h]

/-- **`RateEncoder::encode`: the outcome (error or list of recovery shards) does not depend on the
    engine the encoder object was built with** -/
theorem Encoder.encode_sched_indep [∀ L, LawfulShardAlg (Vector Sym L)] (e : Encoder)
    (s' : Sched) (hinv : e.Inv) :
    ({ e with sched := s' } : Encoder).encode.1 = e.encode.1 := by
  obtain ⟨rate, w, hi, _, hw⟩ := hinv
  simp only [Encoder.encode, hi]
  by_cases hc : w.recv = w.k
  · rw [if_pos hc, if_pos hc]
    exact congrArg Outcome.ok (recoveryList_sched_indep s' e.sched rate w hw)
  · rw [if_neg hc, if_neg hc]

/-- **`RateDecoder::decode`: the outcome (error or list of restored originals) does not depend on
    the engine the decoder object was built with** -/
theorem Decoder.decode_sched_indep [∀ L, LawfulShardAlg (Vector Sym L)] (lw : Array Nat)
    (d : Decoder) (s' : Sched) (hinv : d.Inv) :
    (Decoder.decode lw { d with sched := s' }).1 = (Decoder.decode lw d).1 := by
  obtain ⟨rate, w, hi, _, hw⟩ := hinv
  simp only [Decoder.decode, hi]
  by_cases h1 : w.orecv + w.rrecv < w.k
  · rw [if_pos h1, if_pos h1]
  · rw [if_neg h1, if_neg h1]
    by_cases h2 : w.orecv = w.k
    · rw [if_pos h2, if_pos h2]
    · rw [if_neg h2, if_neg h2]
      exact congrArg Outcome.ok (restoredList_sched_indep s' d.sched rate lw w hw)

end RS

#print axioms RS.decodeHigh_sched_indep'
#print axioms RS.decodeHigh_sched_indep
#print axioms RS.decodeLow_sched_indep'
#print axioms RS.decodeLow_sched_indep
#print axioms RS.encodeLow_sched_indep'
#print axioms RS.encodeLow_sched_indep
#print axioms RS.encodeHigh_sched_indep'
#print axioms RS.encodeHigh_sched_indep
#print axioms RS.encodeMem_sched_indep
#print axioms RS.decodeMem_sched_indep
#print axioms RS.recoveryList_sched_indep
#print axioms RS.restoredList_sched_indep
#print axioms RS.Encoder.encode_sched_indep
#print axioms RS.Decoder.decode_sched_indep
