/-
  The SIMD multiply kernel `mul128` (`Ssse3::mul_128`, Model/Simd.lean) computes, in every one of
  its 16 lanes, the symbol-level byte-shuffle kernel `mulShuffle` (Model/Kernels.lean), hence the
  field product (Proofs/Kernels.lean).

  * `shuffle_nibble` : `pshufb` with an index byte `< 16` is a plain table lookup,
  * `srli4_and`      : `(a >>64 4) & 0x0f` is the high nibble of every byte (the bits crossing in
                       from the neighbouring byte of the 64-bit lane are masked away),
  * `mul128_spec`    : `symOf (mul128 mulf lo hi) i = mulShuffle mulf (symOf lo hi i)`, all 16 lanes,
  * `mul128_eq`, `mul128_gmul` : corollaries for XOR-additive `mulf` and for `y ↦ g^m ⊗ y`.
  Core Lean only.
-/
import RSVerif.Proofs.Kernels
import RSVerif.Model.Simd

namespace RS

/-! ### vectors -/

theorem v128_getD (a : V128) (i : Nat) (h : i < 16) : a.toArray.getD i 0#8 = a[i] := by
  have : i < a.toArray.size := by rw [Vector.size_toArray]; exact h
  rw [Array.getD_eq_getD_getElem?, Array.getElem?_eq_getElem this]
  rfl

theorem v128and_getElem (a b : V128) (i : Fin 16) : (v128and a b)[i] = a[i] &&& b[i] := by
  simp only [v128and, Fin.getElem_fin, Vector.getElem_zipWith]

theorem v128xor_getElem (a b : V128) (i : Fin 16) : (v128xor a b)[i] = a[i] ^^^ b[i] := by
  simp only [v128xor, Fin.getElem_fin, Vector.getElem_zipWith]

theorem v128set1_getElem (x : Byte) (i : Fin 16) : (v128set1 x)[i] = x := by
  simp only [v128set1, Fin.getElem_fin, Vector.getElem_replicate]

/-! ### 2. `pshufb` on nibble indices -/

/-- `_mm_shuffle_epi8` with an index vector whose bytes are all `< 16`: bit 7 is clear and
    `& 15` is the identity, so byte `i` is `t[idx[i]]`. -/
theorem shuffle_nibble (t idx : V128) (hidx : ∀ i : Fin 16, (idx[i]).toNat < 16) (i : Fin 16) :
    (v128shuffle t idx)[i] = t.toArray.getD (idx[i]).toNat 0#8 := by
  have h := hidx i
  have hm : (idx[i]).msb = false := by
    rw [BitVec.msb_eq_false_iff_two_mul_lt]; omega
  simp only [v128shuffle, Fin.getElem_fin, Vector.getElem_ofFn] at hm h ⊢
  rw [hm, Nat.mod_eq_of_lt h]
  simp

/-- pointwise form: only the index byte of lane `i` matters -/
theorem shuffle_nibble' (t idx : V128) (i : Fin 16) (h : (idx[i]).toNat < 16) :
    (v128shuffle t idx)[i] = t.toArray.getD (idx[i]).toNat 0#8 := by
  have hm : (idx[i]).msb = false := by
    rw [BitVec.msb_eq_false_iff_two_mul_lt]; omega
  simp only [v128shuffle, Fin.getElem_fin, Vector.getElem_ofFn] at hm h ⊢
  rw [hm, Nat.mod_eq_of_lt h]
  simp

/-! ### 1. the 64-bit lane shift -/

theorem foldl_range8 (f : Nat → Nat) :
    (List.range 8).foldl (fun acc i => acc + f i) 0 = f 0 + f 1 + f 2 + f 3 + f 4 + f 5 + f 6 + f 7 := by
  simp only [List.range_succ, List.range_zero, List.nil_append, List.cons_append, List.foldl_cons,
    List.foldl_nil, Nat.zero_add]

/-- the 64-bit lane written out (little endian) -/
theorem lane64_eq (a : V128) (h : Nat) :
    lane64 a h =
      (a.toArray.getD (8 * h + 0) 0#8).toNat * 256 ^ 0 + (a.toArray.getD (8 * h + 1) 0#8).toNat * 256 ^ 1 +
      (a.toArray.getD (8 * h + 2) 0#8).toNat * 256 ^ 2 + (a.toArray.getD (8 * h + 3) 0#8).toNat * 256 ^ 3 +
      (a.toArray.getD (8 * h + 4) 0#8).toNat * 256 ^ 4 + (a.toArray.getD (8 * h + 5) 0#8).toNat * 256 ^ 5 +
      (a.toArray.getD (8 * h + 6) 0#8).toNat * 256 ^ 6 + (a.toArray.getD (8 * h + 7) 0#8).toNat * 256 ^ 7 :=
  foldl_range8 (fun i => (a.toArray.getD (8 * h + i) 0#8).toNat * 256 ^ i)

theorem nib_aux (x0 x1 x2 x3 x4 x5 x6 x7 : Nat) (b0 : x0 < 256) (b1 : x1 < 256) (b2 : x2 < 256)
    (b3 : x3 < 256) (b4 : x4 < 256) (b5 : x5 < 256) (b6 : x6 < 256) (b7 : x7 < 256) (j : Nat)
    (hj : j < 8) :
    (x0 * 256 ^ 0 + x1 * 256 ^ 1 + x2 * 256 ^ 2 + x3 * 256 ^ 3 + x4 * 256 ^ 4 + x5 * 256 ^ 5 +
        x6 * 256 ^ 6 + x7 * 256 ^ 7) / 2 ^ 4 / 256 ^ j % 16
      = [x0, x1, x2, x3, x4, x5, x6, x7][j]! / 16 := by
  have hcases : j = 0 ∨ j = 1 ∨ j = 2 ∨ j = 3 ∨ j = 4 ∨ j = 5 ∨ j = 6 ∨ j = 7 := by omega
  rcases hcases with rfl | rfl | rfl | rfl | rfl | rfl | rfl | rfl <;>
    simp only [List.getElem!_cons_zero, List.getElem!_cons_succ] <;> omega

/-- byte `j` of the 64-bit lane `h`, shifted right by 4 and masked with `0x0f`, is the high
    nibble of byte `8h + j`: nothing of byte `8h + j + 1` survives the mask -/
theorem lane64_srli4_nibble (a : V128) (h j : Nat) (hj : j < 8) :
    lane64 a h / 2 ^ 4 / 256 ^ j % 16 = (a.toArray.getD (8 * h + j) 0#8).toNat / 16 := by
  rw [lane64_eq]
  have key := nib_aux _ _ _ _ _ _ _ _
    (a.toArray.getD (8 * h + 0) 0#8).isLt (a.toArray.getD (8 * h + 1) 0#8).isLt
    (a.toArray.getD (8 * h + 2) 0#8).isLt (a.toArray.getD (8 * h + 3) 0#8).isLt
    (a.toArray.getD (8 * h + 4) 0#8).isLt (a.toArray.getD (8 * h + 5) 0#8).isLt
    (a.toArray.getD (8 * h + 6) 0#8).isLt (a.toArray.getD (8 * h + 7) 0#8).isLt j hj
  rw [key]
  have hcases : j = 0 ∨ j = 1 ∨ j = 2 ∨ j = 3 ∨ j = 4 ∨ j = 5 ∨ j = 6 ∨ j = 7 := by omega
  rcases hcases with rfl | rfl | rfl | rfl | rfl | rfl | rfl | rfl <;>
    simp only [List.getElem!_cons_zero, List.getElem!_cons_succ]

theorem and_0f_toNat (x : Byte) : (x &&& 0x0f#8).toNat = x.toNat % 16 := by
  rw [BitVec.toNat_and]
  exact Nat.and_two_pow_sub_one_eq_mod x.toNat 4

theorem ushr4_toNat (x : Byte) : (x >>> 4).toNat = x.toNat / 16 := by
  rw [BitVec.toNat_ushiftRight, Nat.shiftRight_eq_div_pow]

/-- `_mm_and_si128(v, _mm_set1_epi8(0x0f))`: low nibble of every byte -/
theorem and_clr (a : V128) (i : Fin 16) : (v128and a (v128set1 0x0f#8))[i] = a[i] &&& 0x0f#8 := by
  rw [v128and_getElem, v128set1_getElem]

/-- `_mm_and_si128(_mm_srli_epi64(v, 4), _mm_set1_epi8(0x0f))`: high nibble of every byte, although
    the shift is a 64-bit lane shift -/
theorem srli4_and (a : V128) (i : Fin 16) :
    (v128and (v128srli64 a 4) (v128set1 0x0f#8))[i] = a[i] >>> 4 := by
  rw [v128and_getElem, v128set1_getElem]
  apply BitVec.eq_of_toNat_eq
  rw [and_0f_toNat, ushr4_toNat]
  simp only [v128srli64, Fin.getElem_fin, Vector.getElem_ofFn, BitVec.toNat_ofNat]
  have hj : i.val % 8 < 8 := Nat.mod_lt _ (by decide)
  have h := lane64_srli4_nibble a (i.val / 8) (i.val % 8) hj
  have hi : 8 * (i.val / 8) + i.val % 8 = i.val := by omega
  rw [hi, v128_getD a i.val i.isLt] at h
  omega

/-! ### bytes of a symbol -/

/-- the symbol with low byte `l` and high byte `h` -/
def joinBytes (l h : Byte) : Sym := BitVec.ofNat 16 (l.toNat + 256 * h.toNat)

theorem joinBytes_getLsbD (l h : Byte) (j : Nat) :
    (joinBytes l h).getLsbD j = if j < 8 then l.getLsbD j else h.getLsbD (j - 8) := by
  unfold joinBytes
  rw [BitVec.getLsbD_ofNat, Nat.add_comm]
  have := Nat.testBit_two_pow_mul_add h.toNat (b := l.toNat) (i := 8) l.isLt j
  rw [show (2 : Nat) ^ 8 = 256 from rfl] at this
  rw [this]
  by_cases h8 : j < 8
  · have : j < 16 := by omega
    simp [h8, this, BitVec.getLsbD]
  · simp only [h8, if_false]
    by_cases h16 : j < 16
    · simp [h16, BitVec.getLsbD]
    · have : 8 ≤ j - 8 := by omega
      simp only [h16, decide_false, Bool.false_and]
      exact (Nat.testBit_lt_two_pow (Nat.lt_of_lt_of_le h.isLt
        (Nat.pow_le_pow_right (by decide) this))).symm

theorem joinBytes_xor (l1 l2 h1 h2 : Byte) :
    joinBytes (l1 ^^^ l2) (h1 ^^^ h2) = joinBytes l1 h1 ^^^ joinBytes l2 h2 := by
  apply BitVec.eq_of_getLsbD_eq
  intro j _
  rw [BitVec.getLsbD_xor, joinBytes_getLsbD, joinBytes_getLsbD, joinBytes_getLsbD]
  split <;> rw [BitVec.getLsbD_xor]

/-- low and high byte of a symbol, as the `Multiply128lutT` tables store them, put together again -/
theorem joinBytes_split (t : Sym) :
    joinBytes (BitVec.ofNat 8 (t.toNat % 256)) (BitVec.ofNat 8 (t.toNat / 256)) = t := by
  apply BitVec.eq_of_toNat_eq
  unfold joinBytes
  simp only [BitVec.toNat_ofNat]
  have := t.isLt
  omega

theorem symOf_eq (lo hi : V128) (i : Fin 16) : symOf lo hi i = joinBytes lo[i] hi[i] := rfl

theorem symOf_toNat (lo hi : V128) (i : Fin 16) :
    (symOf lo hi i).toNat = lo[i].toNat + 256 * hi[i].toNat := by
  unfold symOf
  rw [BitVec.toNat_ofNat]
  have := lo[i].isLt
  have := hi[i].isLt
  omega

/-! ### table lookups -/

theorem lutLo_getD (mulf : Sym → Sym) (k v : Nat) (hv : v < 16) :
    (lutLo mulf k).toArray.getD v 0#8 = BitVec.ofNat 8 ((lut16 mulf k v).toNat % 256) := by
  rw [v128_getD _ _ hv]
  simp only [lutLo, Vector.getElem_ofFn]

theorem lutHi_getD (mulf : Sym → Sym) (k v : Nat) (hv : v < 16) :
    (lutHi mulf k).toArray.getD v 0#8 = BitVec.ofNat 8 ((lut16 mulf k v).toNat / 256) := by
  rw [v128_getD _ _ hv]
  simp only [lutHi, Vector.getElem_ofFn]

/-- one `pshufb` pair on the low nibbles of `v` -/
theorem lookup_lo_nibble (mulf : Sym → Sym) (k : Nat) (v : V128) (i : Fin 16) :
    joinBytes (v128shuffle (lutLo mulf k) (v128and v (v128set1 0x0f#8)))[i]
              (v128shuffle (lutHi mulf k) (v128and v (v128set1 0x0f#8)))[i]
      = lut16 mulf k (v[i].toNat % 16) := by
  have hd : ((v128and v (v128set1 0x0f#8))[i]).toNat = v[i].toNat % 16 := by
    rw [and_clr, and_0f_toNat]
  have hlt : ((v128and v (v128set1 0x0f#8))[i]).toNat < 16 := by rw [hd]; omega
  rw [shuffle_nibble' _ _ i hlt, shuffle_nibble' _ _ i hlt, hd,
    lutLo_getD _ _ _ (by omega), lutHi_getD _ _ _ (by omega), joinBytes_split]

/-- one `pshufb` pair on the high nibbles of `v` -/
theorem lookup_hi_nibble (mulf : Sym → Sym) (k : Nat) (v : V128) (i : Fin 16) :
    joinBytes (v128shuffle (lutLo mulf k) (v128and (v128srli64 v 4) (v128set1 0x0f#8)))[i]
              (v128shuffle (lutHi mulf k) (v128and (v128srli64 v 4) (v128set1 0x0f#8)))[i]
      = lut16 mulf k (v[i].toNat / 16) := by
  have hd : ((v128and (v128srli64 v 4) (v128set1 0x0f#8))[i]).toNat = v[i].toNat / 16 := by
    rw [srli4_and, ushr4_toNat]
  have hb := v[i].isLt
  have hlt : ((v128and (v128srli64 v 4) (v128set1 0x0f#8))[i]).toNat < 16 := by rw [hd]; omega
  rw [shuffle_nibble' _ _ i hlt, shuffle_nibble' _ _ i hlt, hd,
    lutLo_getD _ _ _ (by omega), lutHi_getD _ _ _ (by omega), joinBytes_split]

/-! ### 3. the kernel -/

/-- `mulShuffle` is the xor of the four table entries (no additivity needed) -/
theorem mulShuffle_eq_mulNibble (mulf : Sym → Sym) (x : Sym) : mulShuffle mulf x = mulNibble mulf x := by
  unfold mulShuffle mulNibble
  simp only [← loByte_xor, ← hiByte_xor]
  rw [loByte_or_hiByte]

/-- in every lane the SIMD kernel returns the xor of the four nibble-table entries -/
theorem mul128_nibble (mulf : Sym → Sym) (valueLo valueHi : V128) (i : Fin 16) :
    symOf (mul128 mulf valueLo valueHi).1 (mul128 mulf valueLo valueHi).2 i
      = mulNibble mulf (symOf valueLo valueHi i) := by
  have hlo := valueLo[i].isLt
  have hhi := valueHi[i].isLt
  have e1 : (symOf valueLo valueHi i).toNat % 256 = valueLo[i].toNat := by
    rw [symOf_toNat]; omega
  have e2 : (symOf valueLo valueHi i).toNat / 256 = valueHi[i].toNat := by
    rw [symOf_toNat]; omega
  unfold mulNibble
  simp only [e1, e2]
  rw [symOf_eq]
  simp only [mul128, v128xor_getElem, joinBytes_xor]
  rw [lookup_lo_nibble, lookup_hi_nibble, lookup_lo_nibble, lookup_hi_nibble]

/-- `Ssse3::mul_128` computes, in each of the 16 lanes, exactly the symbol-level shuffle kernel. -/
theorem mul128_spec (mulf : Sym → Sym) (valueLo valueHi : V128) (i : Fin 16) :
    symOf (mul128 mulf valueLo valueHi).1 (mul128 mulf valueLo valueHi).2 i
      = mulShuffle mulf (symOf valueLo valueHi i) := by
  rw [mul128_nibble, mulShuffle_eq_mulNibble]

/-- for a table set filled from an XOR-additive map, every lane holds `mulf` of the input lane -/
theorem mul128_eq (mulf : Sym → Sym) (hadd : ∀ a b, mulf (a ^^^ b) = mulf a ^^^ mulf b)
    (valueLo valueHi : V128) (i : Fin 16) :
    symOf (mul128 mulf valueLo valueHi).1 (mul128 mulf valueLo valueHi).2 i
      = mulf (symOf valueLo valueHi i) := by
  rw [mul128_spec, mulShuffle_eq mulf hadd]

/-- the SIMD kernel multiplies by `g^m` in the field: all multipliers, all symbols, all 16 lanes -/
theorem mul128_gmul (m : Nat) (valueLo valueHi : V128) (i : Fin 16) :
    symOf (mul128 (fun y => gmul (gexp m) y) valueLo valueHi).1
          (mul128 (fun y => gmul (gexp m) y) valueLo valueHi).2 i
      = gmul (gexp m) (symOf valueLo valueHi i) :=
  mul128_eq (fun y => gmul (gexp m) y) (fun a b => gmul_xor_right (gexp m) a b) valueLo valueHi i

/-- the same against `Engine::mul` of the model -/
theorem mul128_mulLog (m : Nat) (valueLo valueHi : V128) (i : Fin 16) :
    symOf (mul128 (fun y => mulLog y m) valueLo valueHi).1
          (mul128 (fun y => mulLog y m) valueLo valueHi).2 i
      = mulLog (symOf valueLo valueHi i) m :=
  mul128_gmul m valueLo valueHi i

end RS

#print axioms RS.shuffle_nibble
#print axioms RS.srli4_and
#print axioms RS.and_clr
#print axioms RS.mul128_spec
#print axioms RS.mul128_eq
#print axioms RS.mul128_gmul
#print axioms RS.mul128_mulLog
