/-
  Auxiliary facts for Proofs/InvPres.lean: arithmetic of `npow2` / work counts / `supports*`,
  size preservation of the engine and codec transforms, and `countSet` bookkeeping.
  Everything lives in `RS.InvAux` to avoid name clashes with other proof files.
-/
import RSVerif.Proofs.Inv

namespace RS
namespace InvAux

/-! ### arithmetic -/

theorem le_ite {c : Prop} [Decidable c] {n a b : Nat} (h1 : c → n ≤ a) (h2 : ¬c → n ≤ b) :
    n ≤ if c then a else b := by
  by_cases h : c
  · rw [if_pos h]; exact h1 h
  · rw [if_neg h]; exact h2 h

theorem le_npow2Aux (f p n : Nat) : p ≤ npow2Aux f p n := by
  induction f generalizing p with
  | zero => simp [npow2Aux]
  | succ f ih =>
    rw [npow2Aux]
    apply le_ite
    · intro _; exact Nat.le_refl _
    · intro _; have := ih (2 * p); omega

theorem le_npow2 {n : Nat} (h : n ≤ 65536) : n ≤ npow2 n := by
  unfold npow2
  repeat' (intros; apply le_ite)
  all_goals (intros; omega)

theorem npow2_pos (n : Nat) : 1 ≤ npow2 n := by
  unfold npow2
  have := le_npow2Aux 64 131072 n
  generalize npow2Aux 64 131072 n = x at *
  repeat' (intros; apply le_ite)
  all_goals (intros; omega)

theorem le_nextMultipleOf (n m : Nat) : n ≤ nextMultipleOf n m := by
  unfold nextMultipleOf
  apply le_ite <;> intro _ <;> omega

theorem le_nextMultipleOf_right {n m : Nat} (hn : 0 < n) : m ≤ nextMultipleOf n m := by
  unfold nextMultipleOf
  apply le_ite
  · intro h
    exact Nat.le_of_dvd hn (Nat.dvd_of_mod_eq_zero h)
  · intro _
    have := Nat.mod_le n m
    omega

theorem supportsHigh_iff {k r : Nat} :
    supportsHigh k r = true ↔ 0 < k ∧ 0 < r ∧ k < 65536 ∧ r < 65536 ∧ npow2 r + k ≤ 65536 := by
  simp [supportsHigh, and_assoc]

theorem supportsLow_iff {k r : Nat} :
    supportsLow k r = true ↔ 0 < k ∧ 0 < r ∧ k < 65536 ∧ r < 65536 ∧ npow2 k + r ≤ 65536 := by
  simp [supportsLow, and_assoc]

/-- the original shards fit into the encoder work space -/
theorem k_le_encWorkCount {rate : Rate} {k r : Nat} (h : supportsRate rate k r = true) :
    k ≤ encWorkCount rate k r := by
  cases rate with
  | high => exact le_nextMultipleOf _ _
  | low =>
    have h' := supportsLow_iff.1 h
    have h1 : k ≤ npow2 k := le_npow2 (by omega)
    have h2 : npow2 k ≤ nextMultipleOf r (npow2 k) := le_nextMultipleOf_right h'.2.1
    show k ≤ nextMultipleOf r (npow2 k)
    omega

/-- geometry of the decoder work space: bases, disjointness and fit -/
theorem dec_geometry {rate : Rate} {k r : Nat} (h : supportsRate rate k r = true) :
    (match rate with | .high => npow2 r | .low => 0) + k ≤ decWorkCount rate k r ∧
    (match rate with | .high => 0 | .low => npow2 k) + r ≤ decWorkCount rate k r ∧
    k ≤ npow2 k ∧ r ≤ npow2 r := by
  cases rate with
  | high =>
    have h' := supportsHigh_iff.1 h
    have h1 : k ≤ npow2 k := le_npow2 (by omega)
    have h2 : r ≤ npow2 r := le_npow2 (by omega)
    have h3 : npow2 r + k ≤ npow2 (npow2 r + k) := le_npow2 h'.2.2.2.2
    show npow2 r + k ≤ npow2 (npow2 r + k) ∧ 0 + r ≤ npow2 (npow2 r + k) ∧ _
    omega
  | low =>
    have h' := supportsLow_iff.1 h
    have h1 : k ≤ npow2 k := le_npow2 (by omega)
    have h2 : r ≤ npow2 r := le_npow2 (by omega)
    have h3 : npow2 k + r ≤ npow2 (npow2 k + r) := le_npow2 h'.2.2.2.2
    show 0 + k ≤ npow2 (npow2 k + r) ∧ npow2 k + r ≤ npow2 (npow2 k + r) ∧ _
    omega

/-- `use_high_rate` only fails with `UnsupportedShardCount` -/
theorem useHighRate_error {k r : Nat} {e : Err} (h : useHighRate k r = .error e) :
    e = .unsupportedShardCount k r := by
  unfold useHighRate at h
  by_cases h1 : k > 65536 ∨ r > 65536
  · rw [if_pos h1] at h; injection h with h; exact h.symm
  · rw [if_neg h1] at h
    simp only at h
    by_cases h2 : k = 0 ∨ r = 0 ∨ min (npow2 k) (npow2 r) + max k r > 65536
    · rw [if_pos h2] at h; injection h with h; exact h.symm
    · rw [if_neg h2] at h
      by_cases h3 : npow2 k < npow2 r
      · rw [if_pos h3] at h; cases h
      · rw [if_neg h3] at h
        by_cases h4 : npow2 k > npow2 r
        · rw [if_pos h4] at h; cases h
        · rw [if_neg h4] at h; cases h

/-- when `use_high_rate` chooses a rate, that rate supports the configuration -/
theorem useHighRate_ok {k r : Nat} {b : Bool} (h : useHighRate k r = .ok b) :
    supportsRate (if b then .high else .low) k r = true := by
  unfold useHighRate at h
  have pk := npow2_pos k
  have pr := npow2_pos r
  by_cases h1 : k > 65536 ∨ r > 65536
  · rw [if_pos h1] at h; cases h
  · rw [if_neg h1] at h
    simp only at h
    by_cases h2 : k = 0 ∨ r = 0 ∨ min (npow2 k) (npow2 r) + max k r > 65536
    · rw [if_pos h2] at h; cases h
    · rw [if_neg h2] at h
      have hmin : min (npow2 k) (npow2 r) + max k r ≤ 65536 := by omega
      by_cases h3 : npow2 k < npow2 r
      · rw [if_pos h3] at h
        injection h with h; subst h
        show supportsLow k r = true
        rw [supportsLow_iff]; omega
      · rw [if_neg h3] at h
        by_cases h4 : npow2 k > npow2 r
        · rw [if_pos h4] at h
          injection h with h; subst h
          show supportsHigh k r = true
          rw [supportsHigh_iff]; omega
        · rw [if_neg h4] at h
          injection h with h; subst h
          by_cases h5 : k ≤ r
          · rw [decide_eq_true h5]
            show supportsHigh k r = true
            rw [supportsHigh_iff]; omega
          · rw [decide_eq_false h5]
            show supportsLow k r = true
            rw [supportsLow_iff]; omega

theorem chooseRate_default_error {k r : Nat} {e : Err} (h : chooseRate .default k r = .error e) :
    e = .unsupportedShardCount k r ∧ supportsDefault k r = false := by
  unfold chooseRate at h
  simp only at h
  cases h' : useHighRate k r with
  | error e' =>
    rw [h'] at h
    injection h with h; subst h
    exact ⟨useHighRate_error h', by simp [supportsDefault, h']⟩
  | ok b =>
    rw [h'] at h
    cases b <;> cases h

theorem chooseRate_default_ok {k r : Nat} {rate : Rate} (h : chooseRate .default k r = .ok rate) :
    supportsRate rate k r = true ∧ supportsDefault k r = true := by
  unfold chooseRate at h
  simp only at h
  cases h' : useHighRate k r with
  | error e' => rw [h'] at h; cases h
  | ok b =>
    rw [h'] at h
    have := useHighRate_ok h'
    cases b
    · injection h with h; subst h; exact ⟨this, by simp [supportsDefault, h']⟩
    · injection h with h; subst h; exact ⟨this, by simp [supportsDefault, h']⟩

/-! ### size preservation -/

section size
open ShardAlg
variable {V : Type} [ShardAlg V]

omit [ShardAlg V] in
theorem foldl_size {β : Type} (f : Array V → β → Array V) (hf : ∀ a b, (f a b).size = a.size)
    (l : List β) (a : Array V) : (l.foldl f a).size = a.size := by
  induction l generalizing a with
  | nil => rfl
  | cons x xs ih => rw [List.foldl_cons, ih, hf]

theorem fftLayer_size (delta : Nat) (proc : Nat → Bool) (d pos size : Nat) (a : Array V) :
    (fftLayer delta proc d pos size a).size = a.size := by
  simp [fftLayer]

theorem ifftLayer_size (delta : Nat) (proc : Nat → Bool) (d pos size : Nat) (a : Array V) :
    (ifftLayer delta proc d pos size a).size = a.size := by
  simp [ifftLayer]

theorem fft_size (s : Sched) (a : Array V) (pos size trunc delta : Nat) :
    (fft s a pos size trunc delta).size = a.size := by
  unfold fft runFftPlan
  exact foldl_size _ (fun a l => fftLayer_size ..) _ _

theorem ifft_size (s : Sched) (a : Array V) (pos size trunc delta : Nat) :
    (ifft s a pos size trunc delta).size = a.size := by
  unfold ifft runIfftPlan
  exact foldl_size _ (fun a l => ifftLayer_size ..) _ _

theorem zeroRange_size (a : Array V) (lo hi : Nat) : (zeroRange a lo hi).size = a.size := by
  simp [zeroRange]

theorem xorWithin_size (a : Array V) (x y count : Nat) : (xorWithin a x y count).size = a.size := by
  unfold xorWithin
  exact foldl_size _ (fun a i => by simp) _ _

theorem copyWithin_size (a : Array V) (x y count : Nat) : (copyWithin a x y count).size = a.size := by
  unfold copyWithin
  exact foldl_size _ (fun a i => by simp) _ _

theorem formalDerivative_size (a : Array V) : (formalDerivative a).size = a.size := by
  unfold formalDerivative
  exact foldl_size _ (fun a i => xorWithin_size ..) _ _

theorem decodePrepare_size (isData recv : Nat → Bool) (loc : Array Nat) (a : Array V) :
    (decodePrepare isData recv loc a).size = a.size := by
  simp [decodePrepare]

theorem decodeReveal_size (lo hi : Nat) (recv : Nat → Bool) (loc : Array Nat) (a : Array V) :
    (decodeReveal lo hi recv loc a).size = a.size := by
  simp [decodeReveal]

theorem highFullChunk_size (s : Sched) (chunk : Nat) (a : Array V) (c : Nat) :
    (highFullChunk s chunk a c).size = a.size := by
  simp only [highFullChunk, xorWithin_size, ifft_size]

theorem encodeHigh_size (s : Sched) (k r : Nat) (mem : Array V) :
    (encodeHigh s k r mem).size = mem.size := by
  unfold encodeHigh
  simp only [fft_size]
  split
  · split
    · simp only [xorWithin_size, ifft_size, zeroRange_size]
      rw [foldl_size _ (fun a i => highFullChunk_size ..)]
      simp only [ifft_size, zeroRange_size]
    · rw [foldl_size _ (fun a i => highFullChunk_size ..)]
      simp only [ifft_size, zeroRange_size]
  · simp only [ifft_size, zeroRange_size]

theorem encodeLow_size (s : Sched) (k r : Nat) (mem : Array V) :
    (encodeLow s k r mem).size = mem.size := by
  unfold encodeLow
  simp only
  split
  · rw [fft_size, foldl_size _ (fun a i => fft_size ..), foldl_size _ (fun a i => copyWithin_size ..),
      ifft_size, zeroRange_size]
  · rw [foldl_size _ (fun a i => fft_size ..), foldl_size _ (fun a i => copyWithin_size ..),
      ifft_size, zeroRange_size]

theorem decodeHigh_size (s : Sched) (lw : Array Nat) (k r : Nat) (recv : Nat → Bool) (mem : Array V) :
    (decodeHigh s lw k r recv mem).size = mem.size := by
  simp only [decodeHigh, decodeReveal_size, fft_size, formalDerivative_size, ifft_size,
    decodePrepare_size]

theorem decodeLow_size (s : Sched) (lw : Array Nat) (k r : Nat) (recv : Nat → Bool) (mem : Array V) :
    (decodeLow s lw k r recv mem).size = mem.size := by
  simp only [decodeLow, decodeReveal_size, fft_size, formalDerivative_size, ifft_size,
    decodePrepare_size]

end size

theorem encodeMem_size {L : Nat} (rate : Rate) (s : Sched) (k r : Nat) (mem : Array (Vector Sym L)) :
    (encodeMem rate s k r mem).size = mem.size := by
  cases rate
  · exact encodeHigh_size ..
  · exact encodeLow_size ..

theorem decodeMem_size {L : Nat} (rate : Rate) (s : Sched) (lw : Array Nat) (k r : Nat)
    (recv : Nat → Bool) (mem : Array (Vector Sym L)) :
    (decodeMem rate s lw k r recv mem).size = mem.size := by
  cases rate
  · exact decodeHigh_size ..
  · exact decodeLow_size ..

/-! ### `countSet` -/

theorem countSet_replicate (n b m : Nat) : countSet (Array.replicate n false) b m = 0 := by
  induction m with
  | zero => rfl
  | succ m ih =>
    rw [countSet, ih]
    have : (Array.replicate n false).getD (b + m) false = false := by
      simp only [Array.getD_eq_getD_getElem?, Array.getElem?_replicate]
      split <;> rfl
    rw [this]; rfl

theorem getD_set_ne (bits : Array Bool) {p q : Nat} (h : p ≠ q) :
    (bits.setIfInBounds p true).getD q false = bits.getD q false := by
  simp [Array.getD_eq_getD_getElem?, h]

theorem getD_set_self (bits : Array Bool) {p : Nat} (h : p < bits.size) :
    (bits.setIfInBounds p true).getD p false = true := by
  simp [Array.getD_eq_getD_getElem?, h]

/-- setting a bit outside the window leaves the count unchanged -/
theorem countSet_set_out (bits : Array Bool) (b m p : Nat) (h : p < b ∨ b + m ≤ p) :
    countSet (bits.setIfInBounds p true) b m = countSet bits b m := by
  induction m with
  | zero => rfl
  | succ m ih =>
    rw [countSet, countSet, ih (by omega), getD_set_ne bits (by omega)]

/-- setting a previously clear bit inside the window adds one -/
theorem countSet_set_in (bits : Array Bool) (b m p : Nat) (h1 : b ≤ p) (h2 : p < b + m)
    (hp : p < bits.size) (hclear : bits.getD p false = false) :
    countSet (bits.setIfInBounds p true) b m = countSet bits b m + 1 := by
  induction m with
  | zero => omega
  | succ m ih =>
    rw [countSet, countSet]
    by_cases hpm : p = b + m
    · subst hpm
      rw [countSet_set_out bits b m _ (by omega), getD_set_self bits hp, hclear]
      simp
    · rw [ih (by omega), getD_set_ne bits hpm]
      omega

end InvAux
end RS

#print axioms RS.InvAux.k_le_encWorkCount
#print axioms RS.InvAux.dec_geometry
#print axioms RS.InvAux.chooseRate_default_ok
#print axioms RS.InvAux.chooseRate_default_error
#print axioms RS.InvAux.encodeMem_size
#print axioms RS.InvAux.decodeMem_size
#print axioms RS.InvAux.countSet_replicate
#print axioms RS.InvAux.countSet_set_in
#print axioms RS.InvAux.countSet_set_out
