/-
  Auxiliary material for `Proofs/Sched.lean`:
  * block arithmetic (`i / (2*d) * (2*d)`, partners `i ± d`),
  * the pointwise ("function on `Nat → V`") form of the butterfly layers and of plan execution,
  * transfer between arrays (`rd`) and functions.
-/
import RSVerif.Proofs.Laws

namespace RS
open ShardAlg

/-! ### block arithmetic -/

theorem divmod_of_eq {D q m i : Nat} (h : D * q + m = i) (hm : m < D) :
    i / D = q ∧ i % D = m := by
  subst h
  have hD : 0 < D := by omega
  constructor
  · rw [Nat.mul_add_div hD, Nat.div_eq_of_lt hm]; rfl
  · rw [Nat.mul_add_mod, Nat.mod_eq_of_lt hm]

/-- the lower-half partner `i + d` lies in the same `2d`-block, in the upper half -/
theorem lo_partner {d i : Nat} (hlo : i % (2 * d) < d) :
    (i + d) / (2 * d) = i / (2 * d) ∧ ¬ (i + d) % (2 * d) < d := by
  have h := Nat.div_add_mod i (2 * d)
  have := divmod_of_eq (D := 2 * d) (q := i / (2 * d)) (m := i % (2 * d) + d) (i := i + d)
    (by omega) (by omega)
  omega

/-- the upper-half partner `i - d` lies in the same `2d`-block, in the lower half -/
theorem hi_partner {d i : Nat} (hd : 0 < d) (hhi : ¬ i % (2 * d) < d) :
    d ≤ i ∧ (i - d) / (2 * d) = i / (2 * d) ∧ (i - d) % (2 * d) < d := by
  have h := Nat.div_add_mod i (2 * d)
  have hm : i % (2 * d) < 2 * d := Nat.mod_lt _ (by omega)
  have := divmod_of_eq (D := 2 * d) (q := i / (2 * d)) (m := i % (2 * d) - d) (i := i - d)
    (by omega) (by omega)
  omega

/-- the enclosing block of double size starts no later -/
theorem blk_mono (B i : Nat) : i / (2 * B) * (2 * B) ≤ i / B * B := by
  have h1 : i / (2 * B) = i / B / 2 := by
    rw [Nat.mul_comm 2 B, Nat.div_div_eq_div_mul]
  rw [h1]
  have h2 : i / B / 2 * (2 * B) = (i / B / 2 * 2) * B := by
    rw [Nat.mul_assoc]
  rw [h2]
  exact Nat.mul_le_mul_right B (Nat.div_mul_le_self _ _)

theorem blk_le (B i : Nat) : i / B * B ≤ i := Nat.div_mul_le_self i B

/-- if `2d ∣ size`, the lower-half partner of an in-window index is in the window -/
theorem lo_partner_lt {d i size : Nat} (hd : 0 < d) (hdvd : 2 * d ∣ size) (hi : i < size)
    (hlo : i % (2 * d) < d) : i + d < size := by
  obtain ⟨k, rfl⟩ := hdvd
  have h2d : 0 < 2 * d := by omega
  have h1 : i / (2 * d) < k := by
    rw [Nat.div_lt_iff_lt_mul h2d, Nat.mul_comm]; exact hi
  have h2 := (lo_partner hlo).1
  rw [← h2, Nat.div_lt_iff_lt_mul h2d, Nat.mul_comm] at h1
  exact h1

theorem two_pow_dvd_of_eq {l m size : Nat} (h : size = 2 ^ (l + (m + 1))) : 2 * 2 ^ l ∣ size := by
  subst h
  refine ⟨2 ^ m, ?_⟩
  rw [Nat.pow_add, Nat.pow_succ]
  ac_rfl

variable {V : Type} [ShardAlg V]

/-! ### pointwise layers -/

/-- `fftLayer` as a transformation of functions `Nat → V` -/
def fftPt (delta : Nat) (proc : Nat → Bool) (d pos size : Nat) (f : Nat → V) (p : Nat) : V :=
  if pos ≤ p ∧ p < pos + size then
    if proc ((p - pos) / (2 * d) * (2 * d)) then
      if (p - pos) % (2 * d) < d then
        add (f p) (smul (skewElem ((p - pos) / (2 * d) * (2 * d) + d + delta - 1)) (f (p + d)))
      else
        add (f p) (add (f (p - d))
          (smul (skewElem ((p - pos) / (2 * d) * (2 * d) + d + delta - 1)) (f p)))
    else f p
  else f p

/-- `ifftLayer` as a transformation of functions `Nat → V` -/
def ifftPt (delta : Nat) (proc : Nat → Bool) (d pos size : Nat) (f : Nat → V) (p : Nat) : V :=
  if pos ≤ p ∧ p < pos + size then
    if proc ((p - pos) / (2 * d) * (2 * d)) then
      if (p - pos) % (2 * d) < d then
        add (f p) (smul (skewElem ((p - pos) / (2 * d) * (2 * d) + d + delta - 1))
          (add (f (p + d)) (f p)))
      else
        add (f p) (f (p - d))
    else f p
  else f p

def runFftPt (delta pos size : Nat) (plan : List Layer) (f : Nat → V) : Nat → V :=
  plan.foldl (fun f l => fftPt delta l.2 l.1 pos size f) f

def runIfftPt (delta pos size : Nat) (plan : List Layer) (f : Nat → V) : Nat → V :=
  plan.foldl (fun f l => ifftPt delta l.2 l.1 pos size f) f

section pt
variable {delta : Nat} {proc : Nat → Bool} {d pos size : Nat} {f : Nat → V}

theorem fftPt_out {p : Nat} (h : ¬ (pos ≤ p ∧ p < pos + size)) :
    fftPt delta proc d pos size f p = f p := by
  simp only [fftPt, if_neg h]

theorem ifftPt_out {p : Nat} (h : ¬ (pos ≤ p ∧ p < pos + size)) :
    ifftPt delta proc d pos size f p = f p := by
  simp only [ifftPt, if_neg h]

theorem window_cases (pos size p : Nat) :
    ¬ (pos ≤ p ∧ p < pos + size) ∨ ∃ i, i < size ∧ p = pos + i := by
  by_cases h : pos ≤ p ∧ p < pos + size
  · exact Or.inr ⟨p - pos, by omega, by omega⟩
  · exact Or.inl h

theorem fftPt_skip {i : Nat} (hi : i < size) (hp : proc (i / (2 * d) * (2 * d)) = false) :
    fftPt delta proc d pos size f (pos + i) = f (pos + i) := by
  have hw : pos ≤ pos + i ∧ pos + i < pos + size := by omega
  simp [fftPt, hw, Nat.add_sub_cancel_left, hp]

theorem fftPt_lo {i : Nat} (hi : i < size) (hp : proc (i / (2 * d) * (2 * d)) = true)
    (hlo : i % (2 * d) < d) :
    fftPt delta proc d pos size f (pos + i) =
      add (f (pos + i))
        (smul (skewElem (i / (2 * d) * (2 * d) + d + delta - 1)) (f (pos + (i + d)))) := by
  have hw : pos ≤ pos + i ∧ pos + i < pos + size := by omega
  simp [fftPt, hw, Nat.add_sub_cancel_left, hp, hlo, Nat.add_assoc]

theorem fftPt_hi {i : Nat} (hi : i < size) (hp : proc (i / (2 * d) * (2 * d)) = true)
    (hhi : ¬ i % (2 * d) < d) (hdi : d ≤ i) :
    fftPt delta proc d pos size f (pos + i) =
      add (f (pos + i)) (add (f (pos + (i - d)))
        (smul (skewElem (i / (2 * d) * (2 * d) + d + delta - 1)) (f (pos + i)))) := by
  have hw : pos ≤ pos + i ∧ pos + i < pos + size := by omega
  have e : pos + i - d = pos + (i - d) := by omega
  simp [fftPt, hw, Nat.add_sub_cancel_left, hp, hhi, e]

theorem ifftPt_skip {i : Nat} (hi : i < size) (hp : proc (i / (2 * d) * (2 * d)) = false) :
    ifftPt delta proc d pos size f (pos + i) = f (pos + i) := by
  have hw : pos ≤ pos + i ∧ pos + i < pos + size := by omega
  simp [ifftPt, hw, Nat.add_sub_cancel_left, hp]

theorem ifftPt_lo {i : Nat} (hi : i < size) (hp : proc (i / (2 * d) * (2 * d)) = true)
    (hlo : i % (2 * d) < d) :
    ifftPt delta proc d pos size f (pos + i) =
      add (f (pos + i))
        (smul (skewElem (i / (2 * d) * (2 * d) + d + delta - 1))
          (add (f (pos + (i + d))) (f (pos + i)))) := by
  have hw : pos ≤ pos + i ∧ pos + i < pos + size := by omega
  simp [ifftPt, hw, Nat.add_sub_cancel_left, hp, hlo, Nat.add_assoc]

theorem ifftPt_hi {i : Nat} (hi : i < size) (hp : proc (i / (2 * d) * (2 * d)) = true)
    (hhi : ¬ i % (2 * d) < d) (hdi : d ≤ i) :
    ifftPt delta proc d pos size f (pos + i) =
      add (f (pos + i)) (f (pos + (i - d))) := by
  have hw : pos ≤ pos + i ∧ pos + i < pos + size := by omega
  have e : pos + i - d = pos + (i - d) := by omega
  simp [ifftPt, hw, Nat.add_sub_cancel_left, hp, hhi, e]

end pt

/-! ### transfer between arrays and functions -/

theorem rd_eq_getElem (a : Array V) {p : Nat} (h : p < a.size) : rd a p = a[p] := by
  simp [rd, Array.getD, h]

theorem rd_eq_zero (a : Array V) {p : Nat} (h : ¬ p < a.size) : rd a p = zero := by
  simp [rd, Array.getD, h]

theorem ext_rd {a b : Array V} (hs : a.size = b.size) (h : rd a = rd b) : a = b := by
  apply Array.ext hs
  intro i h1 h2
  have := congrFun h i
  rwa [rd_eq_getElem a h1, rd_eq_getElem b h2] at this

@[simp] theorem fftLayer_size (delta : Nat) (proc : Nat → Bool) (d pos size : Nat) (a : Array V) :
    (fftLayer delta proc d pos size a).size = a.size := by
  simp [fftLayer]

@[simp] theorem ifftLayer_size (delta : Nat) (proc : Nat → Bool) (d pos size : Nat) (a : Array V) :
    (ifftLayer delta proc d pos size a).size = a.size := by
  simp [ifftLayer]

theorem rd_fftLayer_of_lt (delta : Nat) (proc : Nat → Bool) (d pos size : Nat) (a : Array V)
    {p : Nat} (hp : p < a.size) :
    rd (fftLayer delta proc d pos size a) p = fftPt delta proc d pos size (rd a) p := by
  rw [rd_eq_getElem _ (by simpa using hp)]
  simp only [fftLayer, Array.getElem_ofFn, fftPt]

theorem rd_ifftLayer_of_lt (delta : Nat) (proc : Nat → Bool) (d pos size : Nat) (a : Array V)
    {p : Nat} (hp : p < a.size) :
    rd (ifftLayer delta proc d pos size a) p = ifftPt delta proc d pos size (rd a) p := by
  rw [rd_eq_getElem _ (by simpa using hp)]
  simp only [ifftLayer, Array.getElem_ofFn, ifftPt]

theorem rd_fftLayer (delta : Nat) (proc : Nat → Bool) (d pos size : Nat) (a : Array V)
    (h : pos + size ≤ a.size) :
    rd (fftLayer delta proc d pos size a) = fftPt delta proc d pos size (rd a) := by
  funext p
  by_cases hp : p < a.size
  · exact rd_fftLayer_of_lt delta proc d pos size a hp
  · rw [rd_eq_zero _ (by simpa using hp), fftPt_out (by omega), rd_eq_zero _ hp]

theorem rd_ifftLayer (delta : Nat) (proc : Nat → Bool) (d pos size : Nat) (a : Array V)
    (h : pos + size ≤ a.size) :
    rd (ifftLayer delta proc d pos size a) = ifftPt delta proc d pos size (rd a) := by
  funext p
  by_cases hp : p < a.size
  · exact rd_ifftLayer_of_lt delta proc d pos size a hp
  · rw [rd_eq_zero _ (by simpa using hp), ifftPt_out (by omega), rd_eq_zero _ hp]

@[simp] theorem runFftPlan_size (delta pos size : Nat) (plan : List Layer) (a : Array V) :
    (runFftPlan delta pos size plan a).size = a.size := by
  induction plan generalizing a with
  | nil => rfl
  | cons l ls ih => simp only [runFftPlan, List.foldl_cons] at ih ⊢; rw [ih]; simp

@[simp] theorem runIfftPlan_size (delta pos size : Nat) (plan : List Layer) (a : Array V) :
    (runIfftPlan delta pos size plan a).size = a.size := by
  induction plan generalizing a with
  | nil => rfl
  | cons l ls ih => simp only [runIfftPlan, List.foldl_cons] at ih ⊢; rw [ih]; simp

theorem rd_runFftPlan (delta pos size : Nat) (plan : List Layer) (a : Array V)
    (h : pos + size ≤ a.size) :
    rd (runFftPlan delta pos size plan a) = runFftPt delta pos size plan (rd a) := by
  induction plan generalizing a with
  | nil => rfl
  | cons l ls ih =>
    simp only [runFftPlan, runFftPt, List.foldl_cons] at ih ⊢
    rw [ih _ (by simpa using h), rd_fftLayer _ _ _ _ _ _ h]

theorem rd_runIfftPlan (delta pos size : Nat) (plan : List Layer) (a : Array V)
    (h : pos + size ≤ a.size) :
    rd (runIfftPlan delta pos size plan a) = runIfftPt delta pos size plan (rd a) := by
  induction plan generalizing a with
  | nil => rfl
  | cons l ls ih =>
    simp only [runIfftPlan, runIfftPt, List.foldl_cons] at ih ⊢
    rw [ih _ (by simpa using h), rd_ifftLayer _ _ _ _ _ _ h]

end RS
