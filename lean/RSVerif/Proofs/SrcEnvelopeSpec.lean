/-
  The translated source (Gen/SrcEnvelope.lean, regenerated from /repo on every run) equals the
  hand-written model on every pair of `usize` values, and none of its `usize` operations overflows.

  The proofs are deliberately generic (`src_decide`: hand the facts about `next_power_of_two` /
  `next_multiple_of` to `grind`, which case-splits the `if`-trees and closes the linear arithmetic), so
  that a behaviour-preserving rewrite of the Rust functions still goes through, while a change of
  behaviour does not.
-/
import RSVerif.Gen.SrcEnvelope
import RSVerif.Model.State
import RSVerif.Proofs.EnvelopeAux

namespace RS
open RS.Rust RS.Src

/-- the model's result values, in the vocabulary of the translation -/
def resOfBool : Except Err Bool → Nat → Nat → Res Bool
  | .ok b, _, _ => Res.Ok b
  | .error _, k, r => Res.Err (SrcErr.UnsupportedShardCount k r)

def srcErrOf : Err → SrcErr
  | .unsupportedShardCount k r => SrcErr.UnsupportedShardCount k r
  | .invalidShardSize sb => SrcErr.InvalidShardSize sb
  | _ => SrcErr.InvalidShardSize 0

def resOfUnit : Except Err Unit → Res Unit
  | .ok () => Res.Ok ()
  | .error e => Res.Err (srcErrOf e)

theorem nextMultipleOf_le (n m : Nat) (hm : 0 < m) : nextMultipleOf n m ≤ n + m := by
  unfold nextMultipleOf
  have := Nat.mod_lt n hm
  split <;> omega

/-- facts about `next_power_of_two` handed to the automation for both arguments: the complete case
    description on `[0, 65536]` (so every true linear statement about `k, r, npow2 k, npow2 r` in that
    range is within reach of the arithmetic), plus the coarse bounds -/
macro "npow2_facts" k:ident r:ident : tactic => `(tactic| (
  have hf1 := @npow2_le_65536 $k; have hf2 := @le_npow2 $k; have hf3 := @npow2_pos $k
  have hf4 := @npow2_le_65536 $r; have hf5 := @le_npow2 $r; have hf6 := @npow2_pos $r
  have hf7 := npow2_cases $k; have hf8 := npow2_cases $r))

theorem src_supports_high (k r : Nat) : HighRate_supports k r = some (supportsHigh k r) := by
  npow2_facts k r
  simp only [HighRate_supports, supportsHigh, GF_ORDER] at *
  generalize npow2 k = pk at *
  generalize npow2 r = pr at *
  grind (splits := 3000)

theorem src_supports_low (k r : Nat) : LowRate_supports k r = some (supportsLow k r) := by
  npow2_facts k r
  simp only [LowRate_supports, supportsLow, GF_ORDER] at *
  generalize npow2 k = pk at *
  generalize npow2 r = pr at *
  grind (splits := 3000)

theorem src_use_high_rate (k r : Nat) : use_high_rate k r = some (resOfBool (useHighRate k r) k r) := by
  npow2_facts k r
  simp only [use_high_rate, useHighRate, GF_ORDER] at *
  generalize npow2 k = pk at *
  generalize npow2 r = pr at *
  grind (splits := 3000) [resOfBool]

theorem src_supports_default (k r : Nat) : DefaultRate_supports k r = some (supportsDefault k r) := by
  simp only [DefaultRate_supports, supportsDefault, src_use_high_rate]
  cases useHighRate k r <;> simp [resOfBool]

/-- `Rate::validate` is generic in `Self::supports`; instantiated with each of the three translated
    `supports` it is the model's `validate`. -/
theorem src_validate (kind : Kind) (k r sb : Nat) :
    Rate_validate (fun a b => some (supports kind a b)) k r sb = some (resOfUnit (validate kind k r sb)) := by
  simp only [Rate_validate, validate, badShardSize]
  cases supports kind k r <;> grind [resOfUnit, srcErrOf]

theorem src_validate_high (k r sb : Nat) :
    Rate_validate HighRate_supports k r sb = some (resOfUnit (validate .high k r sb)) := by
  have : HighRate_supports = fun a b => some (supports .high a b) := by
    funext a b; simp [src_supports_high, supports]
  rw [this]; exact src_validate .high k r sb

theorem src_validate_low (k r sb : Nat) :
    Rate_validate LowRate_supports k r sb = some (resOfUnit (validate .low k r sb)) := by
  have : LowRate_supports = fun a b => some (supports .low a b) := by
    funext a b; simp [src_supports_low, supports]
  rw [this]; exact src_validate .low k r sb

theorem src_validate_default (k r sb : Nat) :
    Rate_validate DefaultRate_supports k r sb = some (resOfUnit (validate .default k r sb)) := by
  have : DefaultRate_supports = fun a b => some (supports .default a b) := by
    funext a b; simp [src_supports_default, supports]
  rw [this]; exact src_validate .default k r sb

/-! work-space sizes: under `supports` (the functions' `debug_assert!`), no overflow and the model's value -/

theorem src_work_count_high_enc (k r : Nat) (h : supportsHigh k r = true) :
    HighRateEncoder_work_count k r = some (highEncWorkCount k r) := by
  npow2_facts k r
  have hm := nextMultipleOf_le k (npow2 r)
  simp only [HighRateEncoder_work_count, src_supports_high, h, highEncWorkCount]
  simp only [supportsHigh] at h
  generalize nextMultipleOf k (npow2 r) = nm at *
  generalize npow2 r = pr at *
  grind (splits := 3000)

theorem src_work_count_low_enc (k r : Nat) (h : supportsLow k r = true) :
    LowRateEncoder_work_count k r = some (lowEncWorkCount k r) := by
  npow2_facts k r
  have hm := nextMultipleOf_le r (npow2 k)
  simp only [LowRateEncoder_work_count, src_supports_low, h, lowEncWorkCount]
  simp only [supportsLow] at h
  generalize nextMultipleOf r (npow2 k) = nm at *
  generalize npow2 k = pk at *
  grind (splits := 3000)

theorem src_work_count_high_dec (k r : Nat) (h : supportsHigh k r = true) :
    HighRateDecoder_work_count k r = some (highDecWorkCount k r) := by
  npow2_facts k r
  simp only [HighRateDecoder_work_count, src_supports_high, h, highDecWorkCount]
  simp only [supportsHigh] at h
  generalize npow2 (npow2 r + k) = pp at *
  generalize npow2 r = pr at *
  grind (splits := 3000)

theorem src_work_count_low_dec (k r : Nat) (h : supportsLow k r = true) :
    LowRateDecoder_work_count k r = some (lowDecWorkCount k r) := by
  npow2_facts k r
  simp only [LowRateDecoder_work_count, src_supports_low, h, lowDecWorkCount]
  simp only [supportsLow] at h
  generalize npow2 (npow2 k + r) = pp at *
  generalize npow2 k = pk at *
  grind (splits := 3000)

/-! the `reset_work` functions: validate (`?`), then ONE `work.reset(…)` whose arguments are returned here:
    counts, shard size, layout bases and the work-space size the model's `encResetWork` / `decResetWork`
    pass on -/

/-- what the model hands to `DecWork.reset` for a rate -/
def decResetArgs (rate : Rate) (k r sb : Nat) : Nat × Nat × Nat × Nat × Nat × Nat :=
  match rate with
  | .high => (k, r, sb, npow2 r, 0, highDecWorkCount k r)
  | .low => (k, r, sb, 0, npow2 k, lowDecWorkCount k r)

def encResetArgs (rate : Rate) (k r sb : Nat) : Nat × Nat × Nat × Nat :=
  match rate with
  | .high => (k, r, sb, highEncWorkCount k r)
  | .low => (k, r, sb, lowEncWorkCount k r)

def resetRes {α : Type} (v : Except Err Unit) (a : α) : Res α :=
  match v with
  | .ok () => Res.Ok a
  | .error e => Res.Err (srcErrOf e)

theorem validate_ok_supports_high {k r sb : Nat} (h : validate .high k r sb = .ok ()) : supportsHigh k r = true := by
  simp only [validate, supports] at h
  cases hs : supportsHigh k r <;> simp_all

theorem validate_ok_supports_low {k r sb : Nat} (h : validate .low k r sb = .ok ()) : supportsLow k r = true := by
  simp only [validate, supports] at h
  cases hs : supportsLow k r <;> simp_all

theorem src_reset_work_high_enc (k r sb : Nat) :
    HighRateEncoder_reset_work k r sb = some (resetRes (validate .high k r sb) (encResetArgs .high k r sb)) := by
  simp only [HighRateEncoder_reset_work, src_validate_high]
  cases hv : validate .high k r sb with
  | error e => simp [resOfUnit, resetRes]
  | ok u =>
    cases u
    simp only [resOfUnit, resetRes, encResetArgs, src_work_count_high_enc k r (validate_ok_supports_high hv)]

theorem src_reset_work_low_enc (k r sb : Nat) :
    LowRateEncoder_reset_work k r sb = some (resetRes (validate .low k r sb) (encResetArgs .low k r sb)) := by
  simp only [LowRateEncoder_reset_work, src_validate_low]
  cases hv : validate .low k r sb with
  | error e => simp [resOfUnit, resetRes]
  | ok u =>
    cases u
    simp only [resOfUnit, resetRes, encResetArgs, src_work_count_low_enc k r (validate_ok_supports_low hv)]

theorem src_reset_work_high_dec (k r sb : Nat) :
    HighRateDecoder_reset_work k r sb = some (resetRes (validate .high k r sb) (decResetArgs .high k r sb)) := by
  simp only [HighRateDecoder_reset_work, src_validate_high]
  cases hv : validate .high k r sb with
  | error e => simp [resOfUnit, resetRes]
  | ok u =>
    cases u
    have hs := validate_ok_supports_high hv
    have hr : r ≤ 9223372036854775808 := by
      simp only [supportsHigh] at hs; grind
    simp only [resOfUnit, resetRes, decResetArgs, src_work_count_high_dec k r hs, if_pos hr]

theorem src_reset_work_low_dec (k r sb : Nat) :
    LowRateDecoder_reset_work k r sb = some (resetRes (validate .low k r sb) (decResetArgs .low k r sb)) := by
  simp only [LowRateDecoder_reset_work, src_validate_low]
  cases hv : validate .low k r sb with
  | error e => simp [resOfUnit, resetRes]
  | ok u =>
    cases u
    have hs := validate_ok_supports_low hv
    have hk : k ≤ 9223372036854775808 := by
      simp only [supportsLow] at hs; grind
    simp only [resOfUnit, resetRes, decResetArgs, src_work_count_low_dec k r hs, if_pos hk]

end RS
