/-
  Invariant establishment / preservation (item 1), absence of panics in reachable states (item 2)
  and "a failed call changes nothing" + transparency of failed calls in operation sequences
  (item 4, C07) for the codec objects of Model/State.lean.

  Method: for every operation a complete case description (`*_split`) under the invariant is
  proved once; the user-facing theorems are corollaries.
-/
import RSVerif.Proofs.InvPresAux

namespace RS
open InvAux

/-! ## work-space level -/


theorem badShardSize_false {sb : Nat} (h : badShardSize sb = false) : sb ≠ 0 ∧ sb % 2 = 0 := by
  simp [badShardSize] at h
  omega

theorem validateRate_split (rate : Rate) (k r sb : Nat) :
    (supportsRate rate k r = false ∧ validateRate rate k r sb = .error (.unsupportedShardCount k r)) ∨
    (supportsRate rate k r = true ∧ badShardSize sb = true ∧
      validateRate rate k r sb = .error (.invalidShardSize sb)) ∨
    (supportsRate rate k r = true ∧ badShardSize sb = false ∧ validateRate rate k r sb = .ok ()) := by
  unfold validateRate
  cases h1 : supportsRate rate k r <;> cases h2 : badShardSize sb <;> simp

/-- complete description of `reset_work` of an encoder: the work space passed in is arbitrary -/
theorem encResetWork_split (stale : Stale) (rate : Rate) (w : EncWork) (k r sb : Nat) :
    (supportsRate rate k r = false ∧
      encResetWork stale rate w k r sb = .err (.unsupportedShardCount k r)) ∨
    (supportsRate rate k r = true ∧ badShardSize sb = true ∧
      encResetWork stale rate w k r sb = .err (.invalidShardSize sb)) ∨
    (supportsRate rate k r = true ∧ badShardSize sb = false ∧
      ∃ w', encResetWork stale rate w k r sb = .ok w' ∧ EncWork.Inv rate w' ∧
        w'.k = k ∧ w'.r = r ∧ w'.sb = sb ∧ w'.recv = 0) := by
  unfold encResetWork
  rcases validateRate_split rate k r sb with ⟨h1, h⟩ | ⟨h1, h2, h⟩ | ⟨h1, h2, h⟩
  · left; rw [h]; exact ⟨h1, rfl⟩
  · right; left; rw [h]; exact ⟨h1, h2, rfl⟩
  · right; right
    rw [h]
    have ⟨hs0, hs2⟩ := badShardSize_false h2
    refine ⟨h1, h2, ?_⟩
    simp only [EncWork.reset, hs2, ne_eq, not_true_eq_false, if_false]
    refine ⟨_, rfl, ?_, rfl, rfl, rfl, rfl⟩
    exact ⟨h1, hs0, hs2, rfl, Nat.zero_le _, by simp⟩

theorem EncWork.add_split {rate : Rate} {w : EncWork} (hw : EncWork.Inv rate w) (shard : Array Nat) :
    (w.recv = w.k ∧ w.add shard = .err (.tooManyOriginal w.k)) ∨
    (w.recv ≠ w.k ∧ shard.size ≠ w.sb ∧ w.add shard = .err (.differentShardSize w.sb shard.size)) ∨
    (w.recv ≠ w.k ∧ shard.size = w.sb ∧
      ∃ w', w.add shard = .ok w' ∧ EncWork.Inv rate w' ∧ w'.k = w.k ∧ w'.r = w.r ∧ w'.sb = w.sb ∧
        w'.recv = w.recv + 1) := by
  unfold EncWork.add
  by_cases h1 : w.recv = w.k
  · left; exact ⟨h1, by rw [if_pos h1]⟩
  · right
    rw [if_neg h1]
    by_cases h2 : shard.size ≠ w.sb
    · left; exact ⟨h1, h2, by rw [if_pos h2]⟩
    · right
      rw [if_neg h2]
      have hlt : w.recv < w.mem.size := by
        have := k_le_encWorkCount hw.supported
        have := hw.size
        have := hw.recv_le
        omega
      rw [dif_pos hw.lanes, if_pos hlt]
      refine ⟨h1, by omega, _, rfl, ?_, rfl, rfl, rfl, rfl⟩
      have := hw.recv_le
      exact ⟨hw.supported, hw.sb_pos, hw.sb_even, hw.lanes, by show w.recv + 1 ≤ w.k; omega,
        by simp [hw.size]⟩

def obaseOf (rate : Rate) (_k r : Nat) : Nat := match rate with | .high => npow2 r | .low => 0
def rbaseOf (rate : Rate) (k _r : Nat) : Nat := match rate with | .high => 0 | .low => npow2 k

theorem DecWork.Inv.obase' {rate : Rate} {w : DecWork} (hw : DecWork.Inv rate w) :
    w.obase = obaseOf rate w.k w.r := by
  cases rate <;> exact hw.obase

theorem DecWork.Inv.rbase' {rate : Rate} {w : DecWork} (hw : DecWork.Inv rate w) :
    w.rbase = rbaseOf rate w.k w.r := by
  cases rate <;> exact hw.rbase

theorem DecWork.Inv.mk' {rate : Rate} {w : DecWork}
    (supported : supportsRate rate w.k w.r = true) (sb_pos : w.sb ≠ 0) (sb_even : w.sb % 2 = 0)
    (lanes : w.sb / 2 = w.L) (obase : w.obase = obaseOf rate w.k w.r)
    (rbase : w.rbase = rbaseOf rate w.k w.r) (size : w.mem.size = decWorkCount rate w.k w.r)
    (bits : max (w.obase + w.k) (w.rbase + w.r) ≤ w.received.size)
    (orecv : w.orecv = countSet w.received w.obase w.k)
    (rrecv : w.rrecv = countSet w.received w.rbase w.r) : DecWork.Inv rate w := by
  cases rate <;> exact ⟨supported, sb_pos, sb_even, lanes, obase, rbase, size, bits, orecv, rrecv⟩

/-- geometry of the decoder work space: fit and disjointness of the two windows -/
theorem dec_geometry' {rate : Rate} {k r : Nat} (h : supportsRate rate k r = true) :
    obaseOf rate k r + k ≤ decWorkCount rate k r ∧ rbaseOf rate k r + r ≤ decWorkCount rate k r ∧
    (rbaseOf rate k r + r ≤ obaseOf rate k r ∨ obaseOf rate k r + k ≤ rbaseOf rate k r) := by
  have := dec_geometry h
  cases rate <;> simp only [obaseOf, rbaseOf] at * <;> omega

theorem decResetWork_split (stale : Stale) (rate : Rate) (w : DecWork) (k r sb : Nat) :
    (supportsRate rate k r = false ∧
      decResetWork stale rate w k r sb = .err (.unsupportedShardCount k r)) ∨
    (supportsRate rate k r = true ∧ badShardSize sb = true ∧
      decResetWork stale rate w k r sb = .err (.invalidShardSize sb)) ∨
    (supportsRate rate k r = true ∧ badShardSize sb = false ∧
      ∃ w', decResetWork stale rate w k r sb = .ok w' ∧ DecWork.Inv rate w' ∧
        w'.k = k ∧ w'.r = r ∧ w'.sb = sb ∧ w'.orecv = 0 ∧ w'.rrecv = 0) := by
  unfold decResetWork
  rcases validateRate_split rate k r sb with ⟨h1, h⟩ | ⟨h1, h2, h⟩ | ⟨h1, h2, h⟩
  · left; rw [h]; exact ⟨h1, rfl⟩
  · right; left; rw [h]; exact ⟨h1, h2, rfl⟩
  · right; right
    rw [h]
    have ⟨hs0, hs2⟩ := badShardSize_false h2
    refine ⟨h1, h2, ?_⟩
    cases rate with
    | high =>
      simp only [DecWork.reset, hs2, ne_eq, not_true_eq_false, if_false]
      refine ⟨_, rfl, ?_, rfl, rfl, rfl, rfl, rfl⟩
      exact DecWork.Inv.mk' h1 hs0 hs2 rfl rfl rfl (by simp) (by simp; omega)
        (countSet_replicate ..).symm (countSet_replicate ..).symm
    | low =>
      simp only [DecWork.reset, hs2, ne_eq, not_true_eq_false, if_false]
      refine ⟨_, rfl, ?_, rfl, rfl, rfl, rfl, rfl⟩
      exact DecWork.Inv.mk' h1 hs0 hs2 rfl rfl rfl (by simp) (by simp; omega)
        (countSet_replicate ..).symm (countSet_replicate ..).symm

/-- copy of the private `DecWork.insert` -/
def DecWork.insert' (w : DecWork) (pos : Nat) (shard : Array Nat) : Outcome DecWork :=
  if h : w.sb / 2 = w.L then
    if pos < w.mem.size then
      .ok { w with mem := w.mem.setIfInBounds pos (h ▸ layout w.sb shard),
                   received := w.received.setIfInBounds pos true }
    else .panic "shard index out of range"
  else .panic "lane count invariant broken"

theorem DecWork.addOriginal_eq' (w : DecWork) (index : Nat) (shard : Array Nat) :
    w.addOriginal index shard =
      if index ≥ w.k then .err (.invalidOriginalIndex w.k index)
      else if w.recvAt (w.obase + index) then .err (.duplicateOriginal index)
      else if shard.size ≠ w.sb then .err (.differentShardSize w.sb shard.size)
      else (w.insert' (w.obase + index) shard).bind fun w => .ok { w with orecv := w.orecv + 1 } :=
  rfl

theorem DecWork.addRecovery_eq' (w : DecWork) (index : Nat) (shard : Array Nat) :
    w.addRecovery index shard =
      if index ≥ w.r then .err (.invalidRecoveryIndex w.r index)
      else if w.recvAt (w.rbase + index) then .err (.duplicateRecovery index)
      else if shard.size ≠ w.sb then .err (.differentShardSize w.sb shard.size)
      else (w.insert' (w.rbase + index) shard).bind fun w => .ok { w with rrecv := w.rrecv + 1 } :=
  rfl

theorem DecWork.addOriginal_split {rate : Rate} {w : DecWork} (hw : DecWork.Inv rate w)
    (index : Nat) (shard : Array Nat) :
    (index ≥ w.k ∧ w.addOriginal index shard = .err (.invalidOriginalIndex w.k index)) ∨
    (index < w.k ∧ w.recvAt (w.obase + index) = true ∧
      w.addOriginal index shard = .err (.duplicateOriginal index)) ∨
    (index < w.k ∧ w.recvAt (w.obase + index) = false ∧ shard.size ≠ w.sb ∧
      w.addOriginal index shard = .err (.differentShardSize w.sb shard.size)) ∨
    (index < w.k ∧ w.recvAt (w.obase + index) = false ∧ shard.size = w.sb ∧
      ∃ w', w.addOriginal index shard = .ok w' ∧ DecWork.Inv rate w' ∧ w'.k = w.k ∧ w'.r = w.r ∧
        w'.sb = w.sb ∧ w'.orecv = w.orecv + 1 ∧ w'.rrecv = w.rrecv ∧
        w'.received = w.received.setIfInBounds (w.obase + index) true ∧
        w'.obase = w.obase ∧ w'.rbase = w.rbase) := by
  rw [DecWork.addOriginal_eq']
  by_cases h1 : index ≥ w.k
  · left; exact ⟨h1, by rw [if_pos h1]⟩
  · right
    rw [if_neg h1]
    cases h2 : w.recvAt (w.obase + index)
    · right
      by_cases h3 : shard.size ≠ w.sb
      · left; exact ⟨by omega, rfl, h3, by simp [h3]⟩
      · right
        have hg := dec_geometry' hw.supported
        have hob := hw.obase'
        have hrb := hw.rbase'
        have hsz := hw.size
        have hbits := hw.bits
        have hlt : w.obase + index < w.mem.size := by
          rw [hsz, hob]; omega
        refine ⟨by omega, rfl, by omega, ?_⟩
        simp only [Bool.false_eq_true, if_false, if_neg h3, DecWork.insert', dif_pos hw.lanes,
          if_pos hlt, Outcome.bind]
        refine ⟨_, rfl, ?_, rfl, rfl, rfl, rfl, rfl, rfl, rfl, rfl⟩
        refine DecWork.Inv.mk' hw.supported hw.sb_pos hw.sb_even hw.lanes hob hrb (by simp [hsz])
          (by simp; exact hbits) ?_ ?_
        · show w.orecv + 1 = countSet (w.received.setIfInBounds (w.obase + index) true) w.obase w.k
          rw [countSet_set_in _ _ _ _ (by omega) (by omega) (by omega) h2, hw.orecv]
        · show w.rrecv = countSet (w.received.setIfInBounds (w.obase + index) true) w.rbase w.r
          rw [countSet_set_out, hw.rrecv]
          omega
    · left; exact ⟨by omega, rfl, by simp⟩


theorem DecWork.addRecovery_split {rate : Rate} {w : DecWork} (hw : DecWork.Inv rate w)
    (index : Nat) (shard : Array Nat) :
    (index ≥ w.r ∧ w.addRecovery index shard = .err (.invalidRecoveryIndex w.r index)) ∨
    (index < w.r ∧ w.recvAt (w.rbase + index) = true ∧
      w.addRecovery index shard = .err (.duplicateRecovery index)) ∨
    (index < w.r ∧ w.recvAt (w.rbase + index) = false ∧ shard.size ≠ w.sb ∧
      w.addRecovery index shard = .err (.differentShardSize w.sb shard.size)) ∨
    (index < w.r ∧ w.recvAt (w.rbase + index) = false ∧ shard.size = w.sb ∧
      ∃ w', w.addRecovery index shard = .ok w' ∧ DecWork.Inv rate w' ∧ w'.k = w.k ∧ w'.r = w.r ∧
        w'.sb = w.sb ∧ w'.orecv = w.orecv ∧ w'.rrecv = w.rrecv + 1 ∧
        w'.received = w.received.setIfInBounds (w.rbase + index) true ∧
        w'.obase = w.obase ∧ w'.rbase = w.rbase) := by
  rw [DecWork.addRecovery_eq']
  by_cases h1 : index ≥ w.r
  · left; exact ⟨h1, by rw [if_pos h1]⟩
  · right
    rw [if_neg h1]
    cases h2 : w.recvAt (w.rbase + index)
    · right
      by_cases h3 : shard.size ≠ w.sb
      · left; exact ⟨by omega, rfl, h3, by simp [h3]⟩
      · right
        have hg := dec_geometry' hw.supported
        have hob := hw.obase'
        have hrb := hw.rbase'
        have hsz := hw.size
        have hbits := hw.bits
        have hlt : w.rbase + index < w.mem.size := by
          rw [hsz, hrb]; omega
        refine ⟨by omega, rfl, by omega, ?_⟩
        simp only [Bool.false_eq_true, if_false, if_neg h3, DecWork.insert', dif_pos hw.lanes,
          if_pos hlt, Outcome.bind]
        refine ⟨_, rfl, ?_, rfl, rfl, rfl, rfl, rfl, rfl, rfl, rfl⟩
        refine DecWork.Inv.mk' hw.supported hw.sb_pos hw.sb_even hw.lanes hob hrb (by simp [hsz])
          (by simp; exact hbits) ?_ ?_
        · show w.orecv = countSet (w.received.setIfInBounds (w.rbase + index) true) w.obase w.k
          rw [countSet_set_out, hw.orecv]
          omega
        · show w.rrecv + 1 = countSet (w.received.setIfInBounds (w.rbase + index) true) w.rbase w.r
          rw [countSet_set_in _ _ _ _ (by omega) (by omega) (by omega) h2, hw.rrecv]
    · left; exact ⟨by omega, rfl, by simp⟩

theorem DecWork.resetReceived_inv {rate : Rate} {w : DecWork} (hw : DecWork.Inv rate w) :
    DecWork.Inv rate w.resetReceived :=
  DecWork.Inv.mk' hw.supported hw.sb_pos hw.sb_even hw.lanes hw.obase' hw.rbase' hw.size
    (by simp [DecWork.resetReceived]; exact hw.bits)
    (countSet_replicate ..).symm (countSet_replicate ..).symm

/-! ## choice of the rate -/

theorem chooseRate_split (kind : Kind) (k r : Nat) :
    (supports kind k r = false ∧ chooseRate kind k r = .error (.unsupportedShardCount k r)) ∨
    (∃ rate, chooseRate kind k r = .ok rate ∧ kindAllows kind rate k r ∧
      supportsRate rate k r = supports kind k r) := by
  cases kind with
  | high => right; exact ⟨.high, rfl, rfl, rfl⟩
  | low => right; exact ⟨.low, rfl, rfl, rfl⟩
  | default =>
    cases h : chooseRate .default k r with
    | error e =>
      have ⟨h1, h2⟩ := chooseRate_default_error h
      left; exact ⟨h2, by rw [h1]⟩
    | ok rate =>
      have ⟨h1, h2⟩ := chooseRate_default_ok h
      right; exact ⟨rate, rfl, h, by rw [h1]; exact h2.symm⟩

/-- a non-default flavour fixes the rate -/
theorem kindAllows_supports {kind : Kind} {rate : Rate} {k' r' : Nat} (hne : kind ≠ .default)
    (h : kindAllows kind rate k' r') (k r : Nat) :
    supportsRate rate k r = supports kind k r ∧ kindAllows kind rate k r := by
  cases kind with
  | high => cases h; exact ⟨rfl, rfl⟩
  | low => cases h; exact ⟨rfl, rfl⟩
  | default => exact absurd rfl hne

/-! ## encoder objects -/

/-- what a successfully (re)configured encoder looks like -/
def Encoder.Fresh (e : Encoder) (kind : Kind) (sched : Sched) (k r sb : Nat) : Prop :=
  e.Inv ∧ e.kind = kind ∧ e.sched = sched ∧
    ∃ rate w, e.inner = .some rate w ∧ w.k = k ∧ w.r = r ∧ w.sb = sb ∧ w.recv = 0

theorem Encoder.new_split (stale : Stale) (kind : Kind) (sched : Sched) (k r sb : Nat)
    (work : Option EncWork) :
    (supports kind k r = false ∧
      Encoder.new stale kind sched k r sb work = .err (.unsupportedShardCount k r)) ∨
    (supports kind k r = true ∧ badShardSize sb = true ∧
      Encoder.new stale kind sched k r sb work = .err (.invalidShardSize sb)) ∨
    (supports kind k r = true ∧ badShardSize sb = false ∧
      ∃ e, Encoder.new stale kind sched k r sb work = .ok e ∧ e.Fresh kind sched k r sb) := by
  unfold Encoder.new
  rcases chooseRate_split kind k r with ⟨h1, h⟩ | ⟨rate, h, hka, hs⟩
  · left; rw [h]; exact ⟨h1, rfl⟩
  · rw [h]
    simp only
    rcases encResetWork_split stale rate (work.getD {}) k r sb with
      ⟨h1, h'⟩ | ⟨h1, h2, h'⟩ | ⟨h1, h2, w', h', hw', hk, hr, hsb, hrecv⟩
    · left; rw [h']; exact ⟨by rw [← hs]; exact h1, rfl⟩
    · right; left; rw [h']; exact ⟨by rw [← hs]; exact h1, h2, rfl⟩
    · right; right; rw [h']
      refine ⟨by rw [← hs]; exact h1, h2, _, rfl, ⟨rate, w', rfl, ?_, hw'⟩, rfl, rfl,
        rate, w', rfl, hk, hr, hsb, hrecv⟩
      rw [hk, hr]; exact hka

theorem Encoder.reset_split {e : Encoder} (he : e.Inv) (stale : Stale) (k r sb : Nat) :
    (supports e.kind k r = false ∧
      e.reset stale k r sb = (.err (.unsupportedShardCount k r), e)) ∨
    (supports e.kind k r = true ∧ badShardSize sb = true ∧
      e.reset stale k r sb = (.err (.invalidShardSize sb), e)) ∨
    (supports e.kind k r = true ∧ badShardSize sb = false ∧
      ∃ e', e.reset stale k r sb = (.ok (), e') ∧ e'.Fresh e.kind e.sched k r sb) := by
  obtain ⟨kind, sched, inner⟩ := e
  obtain ⟨cur, w, hi, hka, hw⟩ := he
  simp only at hi hka
  subst hi
  by_cases hd : kind = .default
  · subst hd
    simp only [Encoder.reset]
    rcases chooseRate_split .default k r with ⟨h1, h⟩ | ⟨rate, h, hka', hs⟩
    · left; rw [h]; exact ⟨h1, rfl⟩
    · right
      rw [h]
      simp only
      cases h2 : badShardSize sb
      · right
        have hsup : supports .default k r = true := by
          have := (chooseRate_default_ok h).2; exact this
        rcases encResetWork_split stale rate w k r sb with
          ⟨h1, h'⟩ | ⟨h1, h2', h'⟩ | ⟨h1, h2', w', h', hw', hk, hr, hsb, hrecv⟩
        · rw [hs, hsup] at h1; cases h1
        · rw [h2] at h2'; cases h2'
        · refine ⟨hsup, rfl, ?_⟩
          simp only [Bool.false_eq_true, if_false, h']
          refine ⟨_, rfl, ⟨rate, w', rfl, ?_, hw'⟩, rfl, rfl,
            rate, w', rfl, hk, hr, hsb, hrecv⟩
          rw [hk, hr]; exact hka'
      · left
        have hsup : supports .default k r = true := by
          have := (chooseRate_default_ok h).2; exact this
        exact ⟨hsup, rfl, by simp⟩
  · have ⟨hs, hka'⟩ := kindAllows_supports hd hka k r
    have hred : Encoder.reset stale ⟨kind, sched, .some cur w⟩ k r sb =
        match encResetWork stale cur w k r sb with
        | .ok w' => (.ok (), { kind := kind, sched := sched, inner := .some cur w' })
        | .err er => (.err er, ⟨kind, sched, .some cur w⟩)
        | .panic why => (.panic why, ⟨kind, sched, .some cur w⟩) := by
      cases kind with
      | default => exact absurd rfl hd
      | high => rfl
      | low => rfl
    rw [hred]
    rcases encResetWork_split stale cur w k r sb with
      ⟨h1, h'⟩ | ⟨h1, h2, h'⟩ | ⟨h1, h2, w', h', hw', hk, hr, hsb, hrecv⟩
    · left; rw [h']; exact ⟨by rw [← hs]; exact h1, rfl⟩
    · right; left; rw [h']; exact ⟨by rw [← hs]; exact h1, h2, rfl⟩
    · right; right; rw [h']
      refine ⟨by rw [← hs]; exact h1, h2, _, rfl, ⟨cur, w', rfl, ?_, hw'⟩, rfl, rfl,
        cur, w', rfl, hk, hr, hsb, hrecv⟩
      rw [hk, hr]; exact hka'


theorem Encoder.add_split {e : Encoder} (he : e.Inv) (shard : Array Nat) :
    ∃ rate w, e.inner = .some rate w ∧ EncWork.Inv rate w ∧
    ((w.recv = w.k ∧ e.add shard = (.err (.tooManyOriginal w.k), e)) ∨
     (w.recv ≠ w.k ∧ shard.size ≠ w.sb ∧
       e.add shard = (.err (.differentShardSize w.sb shard.size), e)) ∨
     (w.recv ≠ w.k ∧ shard.size = w.sb ∧
       ∃ e', e.add shard = (.ok (), e') ∧ e'.Inv ∧ e'.kind = e.kind ∧ e'.sched = e.sched ∧
         ∃ w', e'.inner = .some rate w' ∧ w'.k = w.k ∧ w'.r = w.r ∧ w'.sb = w.sb ∧
           w'.recv = w.recv + 1)) := by
  obtain ⟨kind, sched, inner⟩ := e
  obtain ⟨rate, w, hi, hka, hw⟩ := he
  simp only at hi hka
  subst hi
  refine ⟨rate, w, rfl, hw, ?_⟩
  simp only [Encoder.add]
  rcases EncWork.add_split hw shard with
    ⟨h1, h'⟩ | ⟨h1, h2, h'⟩ | ⟨h1, h2, w', h', hw', hk, hr, hsb, hrecv⟩
  · left; rw [h']; exact ⟨h1, rfl⟩
  · right; left; rw [h']; exact ⟨h1, h2, rfl⟩
  · right; right; rw [h']
    refine ⟨h1, h2, _, rfl, ⟨rate, w', rfl, ?_, hw'⟩, rfl, rfl, w', rfl, hk, hr, hsb, hrecv⟩
    rw [hk, hr]; exact hka

theorem Encoder.encode_split {e : Encoder} (he : e.Inv) :
    ∃ rate w, e.inner = .some rate w ∧ EncWork.Inv rate w ∧
    ((w.recv ≠ w.k ∧ e.encode = (.err (.tooFewOriginal w.k w.recv), e)) ∨
     (w.recv = w.k ∧
       ∃ out e', e.encode = (.ok out, e') ∧ e'.Inv ∧ e'.kind = e.kind ∧ e'.sched = e.sched ∧
         ∃ w', e'.inner = .some rate w' ∧ w'.k = w.k ∧ w'.r = w.r ∧ w'.sb = w.sb ∧
           w'.recv = 0)) := by
  obtain ⟨kind, sched, inner⟩ := e
  obtain ⟨rate, w, hi, hka, hw⟩ := he
  simp only at hi hka
  subst hi
  refine ⟨rate, w, rfl, hw, ?_⟩
  simp only [Encoder.encode]
  by_cases h1 : w.recv = w.k
  · right
    rw [if_pos h1]
    refine ⟨h1, _, _, rfl, ⟨rate, _, rfl, hka, ?_⟩, rfl, rfl, _, rfl, rfl, rfl, rfl, rfl⟩
    exact ⟨hw.supported, hw.sb_pos, hw.sb_even, hw.lanes, Nat.zero_le _,
      by show (encodeMem rate sched w.k w.r w.mem).size = _; rw [encodeMem_size]; exact hw.size⟩
  · left
    rw [if_neg h1]
    exact ⟨h1, rfl⟩

/-! ### item 1: the invariant is established and preserved -/

theorem Encoder.new_inv {stale : Stale} {kind : Kind} {sched : Sched} {k r sb : Nat}
    {work : Option EncWork} {e : Encoder}
    (h : Encoder.new stale kind sched k r sb work = .ok e) : e.Inv := by
  rcases Encoder.new_split stale kind sched k r sb work with
    ⟨_, h'⟩ | ⟨_, _, h'⟩ | ⟨_, _, e', h', hf⟩
  · rw [h'] at h; cases h
  · rw [h'] at h; cases h
  · rw [h'] at h; cases h; exact hf.1

theorem Encoder.reset_inv {e : Encoder} (he : e.Inv) (stale : Stale) (k r sb : Nat) :
    (e.reset stale k r sb).2.Inv := by
  rcases Encoder.reset_split he stale k r sb with ⟨_, h'⟩ | ⟨_, _, h'⟩ | ⟨_, _, e', h', hf⟩
  · rw [h']; exact he
  · rw [h']; exact he
  · rw [h']; exact hf.1

theorem Encoder.add_inv {e : Encoder} (he : e.Inv) (shard : Array Nat) : (e.add shard).2.Inv := by
  obtain ⟨rate, w, _, _, h⟩ := Encoder.add_split he shard
  rcases h with ⟨_, h'⟩ | ⟨_, _, h'⟩ | ⟨_, _, e', h', hi, _⟩
  · rw [h']; exact he
  · rw [h']; exact he
  · rw [h']; exact hi

theorem Encoder.encode_inv {e : Encoder} (he : e.Inv) : e.encode.2.Inv := by
  obtain ⟨rate, w, _, _, h⟩ := Encoder.encode_split he
  rcases h with ⟨_, h'⟩ | ⟨_, out, e', h', hi, _⟩
  · rw [h']; exact he
  · rw [h']; exact hi

/-! ### item 2: no panic -/

theorem Encoder.new_never_panics (stale : Stale) (kind : Kind) (sched : Sched) (k r sb : Nat)
    (work : Option EncWork) (why : String) :
    Encoder.new stale kind sched k r sb work ≠ .panic why := by
  rcases Encoder.new_split stale kind sched k r sb work with
    ⟨_, h'⟩ | ⟨_, _, h'⟩ | ⟨_, _, e', h', hf⟩ <;> rw [h'] <;> intro h <;> cases h

theorem Encoder.reset_never_panics {e : Encoder} (he : e.Inv) (stale : Stale) (k r sb : Nat)
    (why : String) : (e.reset stale k r sb).1 ≠ .panic why := by
  rcases Encoder.reset_split he stale k r sb with ⟨_, h'⟩ | ⟨_, _, h'⟩ | ⟨_, _, e', h', hf⟩ <;>
    rw [h'] <;> intro h <;> cases h

theorem Encoder.add_never_panics {e : Encoder} (he : e.Inv) (shard : Array Nat) (why : String) :
    (e.add shard).1 ≠ .panic why := by
  obtain ⟨rate, w, _, _, h⟩ := Encoder.add_split he shard
  rcases h with ⟨_, h'⟩ | ⟨_, _, h'⟩ | ⟨_, _, e', h', _⟩ <;> rw [h'] <;> intro h <;> cases h

theorem Encoder.encode_never_panics {e : Encoder} (he : e.Inv) (why : String) :
    e.encode.1 ≠ .panic why := by
  obtain ⟨rate, w, _, _, h⟩ := Encoder.encode_split he
  rcases h with ⟨_, h'⟩ | ⟨_, out, e', h', _⟩ <;> rw [h'] <;> intro h <;> cases h

theorem Encoder.intoParts_never_panics {e : Encoder} (he : e.Inv) (why : String) :
    e.intoParts ≠ .panic why := by
  obtain ⟨rate, w, hi, _⟩ := he
  unfold Encoder.intoParts
  rw [hi]
  intro h; cases h

/-! ### item 4 (C07): a failed call changes nothing -/

theorem Encoder.reset_failed_unchanged {e : Encoder} (he : e.Inv) (stale : Stale) (k r sb : Nat)
    (hf : ∀ a, (e.reset stale k r sb).1 ≠ .ok a) : (e.reset stale k r sb).2 = e := by
  rcases Encoder.reset_split he stale k r sb with ⟨_, h'⟩ | ⟨_, _, h'⟩ | ⟨_, _, e', h', _⟩
  · rw [h']
  · rw [h']
  · rw [h'] at hf; exact absurd rfl (hf ())

theorem Encoder.add_failed_unchanged {e : Encoder} (he : e.Inv) (shard : Array Nat)
    (hf : ∀ a, (e.add shard).1 ≠ .ok a) : (e.add shard).2 = e := by
  obtain ⟨rate, w, _, _, h⟩ := Encoder.add_split he shard
  rcases h with ⟨_, h'⟩ | ⟨_, _, h'⟩ | ⟨_, _, e', h', _⟩
  · rw [h']
  · rw [h']
  · rw [h'] at hf; exact absurd rfl (hf ())

theorem Encoder.encode_failed_unchanged {e : Encoder} (he : e.Inv)
    (hf : ∀ a, e.encode.1 ≠ .ok a) : e.encode.2 = e := by
  obtain ⟨rate, w, _, _, h⟩ := Encoder.encode_split he
  rcases h with ⟨_, h'⟩ | ⟨_, out, e', h', _⟩
  · rw [h']
  · rw [h'] at hf; exact absurd rfl (hf out)

/-- in particular the inner codec is never missing after any call on a reachable object -/
theorem Encoder.Inv.inner_ne_none {e : Encoder} (he : e.Inv) : ∃ rate w, e.inner = .some rate w :=
  let ⟨rate, w, h, _⟩ := he; ⟨rate, w, h⟩


/-! ## decoder objects -/

/-- what a successfully (re)configured decoder looks like -/
def Decoder.Fresh (d : Decoder) (kind : Kind) (sched : Sched) (k r sb : Nat) : Prop :=
  d.Inv ∧ d.kind = kind ∧ d.sched = sched ∧
    ∃ rate w, d.inner = .some rate w ∧ w.k = k ∧ w.r = r ∧ w.sb = sb ∧ w.orecv = 0 ∧ w.rrecv = 0

theorem Decoder.new_split (stale : Stale) (kind : Kind) (sched : Sched) (k r sb : Nat)
    (work : Option DecWork) :
    (supports kind k r = false ∧
      Decoder.new stale kind sched k r sb work = .err (.unsupportedShardCount k r)) ∨
    (supports kind k r = true ∧ badShardSize sb = true ∧
      Decoder.new stale kind sched k r sb work = .err (.invalidShardSize sb)) ∨
    (supports kind k r = true ∧ badShardSize sb = false ∧
      ∃ d, Decoder.new stale kind sched k r sb work = .ok d ∧ d.Fresh kind sched k r sb) := by
  unfold Decoder.new
  rcases chooseRate_split kind k r with ⟨h1, h⟩ | ⟨rate, h, hka, hs⟩
  · left; rw [h]; exact ⟨h1, rfl⟩
  · rw [h]
    simp only
    rcases decResetWork_split stale rate (work.getD {}) k r sb with
      ⟨h1, h'⟩ | ⟨h1, h2, h'⟩ | ⟨h1, h2, w', h', hw', hk, hr, hsb, ho, hrr⟩
    · left; rw [h']; exact ⟨by rw [← hs]; exact h1, rfl⟩
    · right; left; rw [h']; exact ⟨by rw [← hs]; exact h1, h2, rfl⟩
    · right; right; rw [h']
      refine ⟨by rw [← hs]; exact h1, h2, _, rfl, ⟨rate, w', rfl, ?_, hw'⟩, rfl, rfl,
        rate, w', rfl, hk, hr, hsb, ho, hrr⟩
      rw [hk, hr]; exact hka

theorem Decoder.reset_split {d : Decoder} (hd : d.Inv) (stale : Stale) (k r sb : Nat) :
    (supports d.kind k r = false ∧
      d.reset stale k r sb = (.err (.unsupportedShardCount k r), d)) ∨
    (supports d.kind k r = true ∧ badShardSize sb = true ∧
      d.reset stale k r sb = (.err (.invalidShardSize sb), d)) ∨
    (supports d.kind k r = true ∧ badShardSize sb = false ∧
      ∃ d', d.reset stale k r sb = (.ok (), d') ∧ d'.Fresh d.kind d.sched k r sb) := by
  obtain ⟨kind, sched, inner⟩ := d
  obtain ⟨cur, w, hi, hka, hw⟩ := hd
  simp only at hi hka
  subst hi
  by_cases hdf : kind = .default
  · subst hdf
    simp only [Decoder.reset]
    rcases chooseRate_split .default k r with ⟨h1, h⟩ | ⟨rate, h, hka', hs⟩
    · left; rw [h]; exact ⟨h1, rfl⟩
    · right
      rw [h]
      simp only
      have hsup : supports .default k r = true := by
        have := (chooseRate_default_ok h).2; exact this
      cases h2 : badShardSize sb
      · right
        rcases decResetWork_split stale rate w k r sb with
          ⟨h1, h'⟩ | ⟨h1, h2', h'⟩ | ⟨h1, h2', w', h', hw', hk, hr, hsb, ho, hrr⟩
        · rw [hs, hsup] at h1; cases h1
        · rw [h2] at h2'; cases h2'
        · refine ⟨hsup, rfl, ?_⟩
          simp only [Bool.false_eq_true, if_false, h']
          refine ⟨_, rfl, ⟨rate, w', rfl, ?_, hw'⟩, rfl, rfl,
            rate, w', rfl, hk, hr, hsb, ho, hrr⟩
          rw [hk, hr]; exact hka'
      · left
        exact ⟨hsup, rfl, by simp⟩
  · have ⟨hs, hka'⟩ := kindAllows_supports hdf hka k r
    have hred : Decoder.reset stale ⟨kind, sched, .some cur w⟩ k r sb =
        match decResetWork stale cur w k r sb with
        | .ok w' => (.ok (), { kind := kind, sched := sched, inner := .some cur w' })
        | .err er => (.err er, ⟨kind, sched, .some cur w⟩)
        | .panic why => (.panic why, ⟨kind, sched, .some cur w⟩) := by
      cases kind with
      | default => exact absurd rfl hdf
      | high => rfl
      | low => rfl
    rw [hred]
    rcases decResetWork_split stale cur w k r sb with
      ⟨h1, h'⟩ | ⟨h1, h2, h'⟩ | ⟨h1, h2, w', h', hw', hk, hr, hsb, ho, hrr⟩
    · left; rw [h']; exact ⟨by rw [← hs]; exact h1, rfl⟩
    · right; left; rw [h']; exact ⟨by rw [← hs]; exact h1, h2, rfl⟩
    · right; right; rw [h']
      refine ⟨by rw [← hs]; exact h1, h2, _, rfl, ⟨cur, w', rfl, ?_, hw'⟩, rfl, rfl,
        cur, w', rfl, hk, hr, hsb, ho, hrr⟩
      rw [hk, hr]; exact hka'

theorem Decoder.addOriginal_split {d : Decoder} (hd : d.Inv) (index : Nat) (shard : Array Nat) :
    ∃ rate w, d.inner = .some rate w ∧ DecWork.Inv rate w ∧
    ((index ≥ w.k ∧ d.addOriginal index shard = (.err (.invalidOriginalIndex w.k index), d)) ∨
     (index < w.k ∧ w.recvAt (w.obase + index) = true ∧
       d.addOriginal index shard = (.err (.duplicateOriginal index), d)) ∨
     (index < w.k ∧ w.recvAt (w.obase + index) = false ∧ shard.size ≠ w.sb ∧
       d.addOriginal index shard = (.err (.differentShardSize w.sb shard.size), d)) ∨
     (index < w.k ∧ w.recvAt (w.obase + index) = false ∧ shard.size = w.sb ∧
       ∃ d', d.addOriginal index shard = (.ok (), d') ∧ d'.Inv ∧ d'.kind = d.kind ∧
         d'.sched = d.sched ∧
         ∃ w', d'.inner = .some rate w' ∧ w'.k = w.k ∧ w'.r = w.r ∧ w'.sb = w.sb ∧
           w'.orecv = w.orecv + 1 ∧ w'.rrecv = w.rrecv ∧
           w'.received = w.received.setIfInBounds (w.obase + index) true ∧
           w'.obase = w.obase ∧ w'.rbase = w.rbase)) := by
  obtain ⟨kind, sched, inner⟩ := d
  obtain ⟨rate, w, hi, hka, hw⟩ := hd
  simp only at hi hka
  subst hi
  refine ⟨rate, w, rfl, hw, ?_⟩
  simp only [Decoder.addOriginal]
  rcases DecWork.addOriginal_split hw index shard with
    ⟨h1, h'⟩ | ⟨h1, h2, h'⟩ | ⟨h1, h2, h3, h'⟩ |
    ⟨h1, h2, h3, w', h', hw', hk, hr, hsb, ho, hrr, hrec, hob, hrb⟩
  · left; rw [h']; exact ⟨h1, rfl⟩
  · right; left; rw [h']; exact ⟨h1, h2, rfl⟩
  · right; right; left; rw [h']; exact ⟨h1, h2, h3, rfl⟩
  · right; right; right; rw [h']
    refine ⟨h1, h2, h3, _, rfl, ⟨rate, w', rfl, ?_, hw'⟩, rfl, rfl, w', rfl, hk, hr, hsb, ho, hrr,
      hrec, hob, hrb⟩
    rw [hk, hr]; exact hka

theorem Decoder.addRecovery_split {d : Decoder} (hd : d.Inv) (index : Nat) (shard : Array Nat) :
    ∃ rate w, d.inner = .some rate w ∧ DecWork.Inv rate w ∧
    ((index ≥ w.r ∧ d.addRecovery index shard = (.err (.invalidRecoveryIndex w.r index), d)) ∨
     (index < w.r ∧ w.recvAt (w.rbase + index) = true ∧
       d.addRecovery index shard = (.err (.duplicateRecovery index), d)) ∨
     (index < w.r ∧ w.recvAt (w.rbase + index) = false ∧ shard.size ≠ w.sb ∧
       d.addRecovery index shard = (.err (.differentShardSize w.sb shard.size), d)) ∨
     (index < w.r ∧ w.recvAt (w.rbase + index) = false ∧ shard.size = w.sb ∧
       ∃ d', d.addRecovery index shard = (.ok (), d') ∧ d'.Inv ∧ d'.kind = d.kind ∧
         d'.sched = d.sched ∧
         ∃ w', d'.inner = .some rate w' ∧ w'.k = w.k ∧ w'.r = w.r ∧ w'.sb = w.sb ∧
           w'.orecv = w.orecv ∧ w'.rrecv = w.rrecv + 1 ∧
           w'.received = w.received.setIfInBounds (w.rbase + index) true ∧
           w'.obase = w.obase ∧ w'.rbase = w.rbase)) := by
  obtain ⟨kind, sched, inner⟩ := d
  obtain ⟨rate, w, hi, hka, hw⟩ := hd
  simp only at hi hka
  subst hi
  refine ⟨rate, w, rfl, hw, ?_⟩
  simp only [Decoder.addRecovery]
  rcases DecWork.addRecovery_split hw index shard with
    ⟨h1, h'⟩ | ⟨h1, h2, h'⟩ | ⟨h1, h2, h3, h'⟩ |
    ⟨h1, h2, h3, w', h', hw', hk, hr, hsb, ho, hrr, hrec, hob, hrb⟩
  · left; rw [h']; exact ⟨h1, rfl⟩
  · right; left; rw [h']; exact ⟨h1, h2, rfl⟩
  · right; right; left; rw [h']; exact ⟨h1, h2, h3, rfl⟩
  · right; right; right; rw [h']
    refine ⟨h1, h2, h3, _, rfl, ⟨rate, w', rfl, ?_, hw'⟩, rfl, rfl, w', rfl, hk, hr, hsb, ho, hrr,
      hrec, hob, hrb⟩
    rw [hk, hr]; exact hka

theorem Decoder.decode_split {d : Decoder} (hd : d.Inv) (lw : Array Nat) :
    ∃ rate w, d.inner = .some rate w ∧ DecWork.Inv rate w ∧
    ((w.orecv + w.rrecv < w.k ∧
       d.decode lw = (.err (.notEnoughShards w.k w.orecv w.rrecv), d)) ∨
     (¬ w.orecv + w.rrecv < w.k ∧
       ∃ out d', d.decode lw = (.ok out, d') ∧ d'.Inv ∧ d'.kind = d.kind ∧ d'.sched = d.sched ∧
         ∃ w', d'.inner = .some rate w' ∧ w'.k = w.k ∧ w'.r = w.r ∧ w'.sb = w.sb ∧
           w'.orecv = 0 ∧ w'.rrecv = 0)) := by
  obtain ⟨kind, sched, inner⟩ := d
  obtain ⟨rate, w, hi, hka, hw⟩ := hd
  simp only at hi hka
  subst hi
  refine ⟨rate, w, rfl, hw, ?_⟩
  simp only [Decoder.decode]
  by_cases h1 : w.orecv + w.rrecv < w.k
  · left; rw [if_pos h1]; exact ⟨h1, rfl⟩
  · right
    rw [if_neg h1]
    refine ⟨h1, ?_⟩
    by_cases h2 : w.orecv = w.k
    · rw [if_pos h2]
      exact ⟨_, _, rfl, ⟨rate, _, rfl, hka, DecWork.resetReceived_inv hw⟩, rfl, rfl,
        _, rfl, rfl, rfl, rfl, rfl, rfl⟩
    · rw [if_neg h2]
      refine ⟨_, _, rfl, ⟨rate, _, rfl, hka, DecWork.resetReceived_inv ?_⟩, rfl, rfl,
        _, rfl, rfl, rfl, rfl, rfl, rfl⟩
      exact DecWork.Inv.mk' hw.supported hw.sb_pos hw.sb_even hw.lanes hw.obase' hw.rbase'
        (by show (decodeMem rate sched lw w.k w.r w.recvAt w.mem).size = _
            rw [decodeMem_size]; exact hw.size)
        hw.bits hw.orecv hw.rrecv

/-! ### item 1 -/

theorem Decoder.new_inv {stale : Stale} {kind : Kind} {sched : Sched} {k r sb : Nat}
    {work : Option DecWork} {d : Decoder}
    (h : Decoder.new stale kind sched k r sb work = .ok d) : d.Inv := by
  rcases Decoder.new_split stale kind sched k r sb work with
    ⟨_, h'⟩ | ⟨_, _, h'⟩ | ⟨_, _, d', h', hf⟩
  · rw [h'] at h; cases h
  · rw [h'] at h; cases h
  · rw [h'] at h; cases h; exact hf.1

theorem Decoder.reset_inv {d : Decoder} (hd : d.Inv) (stale : Stale) (k r sb : Nat) :
    (d.reset stale k r sb).2.Inv := by
  rcases Decoder.reset_split hd stale k r sb with ⟨_, h'⟩ | ⟨_, _, h'⟩ | ⟨_, _, d', h', hf⟩
  · rw [h']; exact hd
  · rw [h']; exact hd
  · rw [h']; exact hf.1

theorem Decoder.addOriginal_inv {d : Decoder} (hd : d.Inv) (index : Nat) (shard : Array Nat) :
    (d.addOriginal index shard).2.Inv := by
  obtain ⟨rate, w, _, _, h⟩ := Decoder.addOriginal_split hd index shard
  rcases h with ⟨_, h'⟩ | ⟨_, _, h'⟩ | ⟨_, _, _, h'⟩ | ⟨_, _, _, d', h', hi, _⟩
  · rw [h']; exact hd
  · rw [h']; exact hd
  · rw [h']; exact hd
  · rw [h']; exact hi

theorem Decoder.addRecovery_inv {d : Decoder} (hd : d.Inv) (index : Nat) (shard : Array Nat) :
    (d.addRecovery index shard).2.Inv := by
  obtain ⟨rate, w, _, _, h⟩ := Decoder.addRecovery_split hd index shard
  rcases h with ⟨_, h'⟩ | ⟨_, _, h'⟩ | ⟨_, _, _, h'⟩ | ⟨_, _, _, d', h', hi, _⟩
  · rw [h']; exact hd
  · rw [h']; exact hd
  · rw [h']; exact hd
  · rw [h']; exact hi

theorem Decoder.decode_inv {d : Decoder} (hd : d.Inv) (lw : Array Nat) : (d.decode lw).2.Inv := by
  obtain ⟨rate, w, _, _, h⟩ := Decoder.decode_split hd lw
  rcases h with ⟨_, h'⟩ | ⟨_, out, d', h', hi, _⟩
  · rw [h']; exact hd
  · rw [h']; exact hi

/-! ### item 2 -/

theorem Decoder.new_never_panics (stale : Stale) (kind : Kind) (sched : Sched) (k r sb : Nat)
    (work : Option DecWork) (why : String) :
    Decoder.new stale kind sched k r sb work ≠ .panic why := by
  rcases Decoder.new_split stale kind sched k r sb work with
    ⟨_, h'⟩ | ⟨_, _, h'⟩ | ⟨_, _, d', h', hf⟩ <;> rw [h'] <;> intro h <;> cases h

theorem Decoder.reset_never_panics {d : Decoder} (hd : d.Inv) (stale : Stale) (k r sb : Nat)
    (why : String) : (d.reset stale k r sb).1 ≠ .panic why := by
  rcases Decoder.reset_split hd stale k r sb with ⟨_, h'⟩ | ⟨_, _, h'⟩ | ⟨_, _, d', h', hf⟩ <;>
    rw [h'] <;> intro h <;> cases h

theorem Decoder.addOriginal_never_panics {d : Decoder} (hd : d.Inv) (index : Nat) (shard : Array Nat)
    (why : String) : (d.addOriginal index shard).1 ≠ .panic why := by
  obtain ⟨rate, w, _, _, h⟩ := Decoder.addOriginal_split hd index shard
  rcases h with ⟨_, h'⟩ | ⟨_, _, h'⟩ | ⟨_, _, _, h'⟩ | ⟨_, _, _, d', h', _⟩ <;>
    rw [h'] <;> intro h <;> cases h

theorem Decoder.addRecovery_never_panics {d : Decoder} (hd : d.Inv) (index : Nat) (shard : Array Nat)
    (why : String) : (d.addRecovery index shard).1 ≠ .panic why := by
  obtain ⟨rate, w, _, _, h⟩ := Decoder.addRecovery_split hd index shard
  rcases h with ⟨_, h'⟩ | ⟨_, _, h'⟩ | ⟨_, _, _, h'⟩ | ⟨_, _, _, d', h', _⟩ <;>
    rw [h'] <;> intro h <;> cases h

theorem Decoder.decode_never_panics {d : Decoder} (hd : d.Inv) (lw : Array Nat) (why : String) :
    (d.decode lw).1 ≠ .panic why := by
  obtain ⟨rate, w, _, _, h⟩ := Decoder.decode_split hd lw
  rcases h with ⟨_, h'⟩ | ⟨_, out, d', h', _⟩ <;> rw [h'] <;> intro h <;> cases h

theorem Decoder.intoParts_never_panics {d : Decoder} (hd : d.Inv) (why : String) :
    d.intoParts ≠ .panic why := by
  obtain ⟨rate, w, hi, _⟩ := hd
  unfold Decoder.intoParts
  rw [hi]
  intro h; cases h

/-! ### item 4 (C07) -/

theorem Decoder.reset_failed_unchanged {d : Decoder} (hd : d.Inv) (stale : Stale) (k r sb : Nat)
    (hf : ∀ a, (d.reset stale k r sb).1 ≠ .ok a) : (d.reset stale k r sb).2 = d := by
  rcases Decoder.reset_split hd stale k r sb with ⟨_, h'⟩ | ⟨_, _, h'⟩ | ⟨_, _, d', h', _⟩
  · rw [h']
  · rw [h']
  · rw [h'] at hf; exact absurd rfl (hf ())

theorem Decoder.addOriginal_failed_unchanged {d : Decoder} (hd : d.Inv) (index : Nat)
    (shard : Array Nat) (hf : ∀ a, (d.addOriginal index shard).1 ≠ .ok a) :
    (d.addOriginal index shard).2 = d := by
  obtain ⟨rate, w, _, _, h⟩ := Decoder.addOriginal_split hd index shard
  rcases h with ⟨_, h'⟩ | ⟨_, _, h'⟩ | ⟨_, _, _, h'⟩ | ⟨_, _, _, d', h', _⟩
  · rw [h']
  · rw [h']
  · rw [h']
  · rw [h'] at hf; exact absurd rfl (hf ())

theorem Decoder.addRecovery_failed_unchanged {d : Decoder} (hd : d.Inv) (index : Nat)
    (shard : Array Nat) (hf : ∀ a, (d.addRecovery index shard).1 ≠ .ok a) :
    (d.addRecovery index shard).2 = d := by
  obtain ⟨rate, w, _, _, h⟩ := Decoder.addRecovery_split hd index shard
  rcases h with ⟨_, h'⟩ | ⟨_, _, h'⟩ | ⟨_, _, _, h'⟩ | ⟨_, _, _, d', h', _⟩
  · rw [h']
  · rw [h']
  · rw [h']
  · rw [h'] at hf; exact absurd rfl (hf ())

theorem Decoder.decode_failed_unchanged {d : Decoder} (hd : d.Inv) (lw : Array Nat)
    (hf : ∀ a, (d.decode lw).1 ≠ .ok a) : (d.decode lw).2 = d := by
  obtain ⟨rate, w, _, _, h⟩ := Decoder.decode_split hd lw
  rcases h with ⟨_, h'⟩ | ⟨_, out, d', h', _⟩
  · rw [h']
  · rw [h'] at hf; exact absurd rfl (hf out)

theorem Decoder.Inv.inner_ne_none {d : Decoder} (hd : d.Inv) : ∃ rate w, d.inner = .some rate w :=
  let ⟨rate, w, h, _⟩ := hd; ⟨rate, w, h⟩


/-! ## item 4: operation sequences; failed calls are transparent -/

/-- "the call returned `Ok`" -/
def Outcome.returnedOk {α : Type} : Outcome α → Bool
  | .ok _ => true
  | _ => false

theorem Outcome.returnedOk_false {α : Type} {x : Outcome α} (h : x.returnedOk = false) :
    ∀ a, x ≠ .ok a := by
  intro a hx; rw [hx] at h; cases h

inductive EncOp where
  | reset (k r sb : Nat)
  | add (shard : Array Nat)
  | encode

/-- one call on an encoder object: (returned `Ok`?, object afterwards) -/
def Encoder.step (stale : Stale) (e : Encoder) : EncOp → Bool × Encoder
  | .reset k r sb => ((e.reset stale k r sb).1.returnedOk, (e.reset stale k r sb).2)
  | .add shard => ((e.add shard).1.returnedOk, (e.add shard).2)
  | .encode => (e.encode.1.returnedOk, e.encode.2)

/-- the object after a sequence of calls -/
def Encoder.run (stale : Stale) (e : Encoder) (ops : List EncOp) : Encoder :=
  ops.foldl (fun e op => (e.step stale op).2) e

/-- the calls of the sequence that return `Ok` when the sequence is run from `e` -/
def Encoder.okOps (stale : Stale) : Encoder → List EncOp → List EncOp
  | _, [] => []
  | e, op :: ops =>
    if (e.step stale op).1 then op :: Encoder.okOps stale (e.step stale op).2 ops
    else Encoder.okOps stale (e.step stale op).2 ops

/-- all calls of the sequence return `Ok` when run from `e` -/
def Encoder.allOk (stale : Stale) : Encoder → List EncOp → Bool
  | _, [] => true
  | e, op :: ops => (e.step stale op).1 && Encoder.allOk stale (e.step stale op).2 ops

theorem Encoder.step_inv {e : Encoder} (he : e.Inv) (stale : Stale) (op : EncOp) :
    (e.step stale op).2.Inv := by
  cases op with
  | reset k r sb => exact Encoder.reset_inv he stale k r sb
  | add shard => exact Encoder.add_inv he shard
  | encode => exact Encoder.encode_inv he

theorem Encoder.step_failed_unchanged {e : Encoder} (he : e.Inv) (stale : Stale) (op : EncOp)
    (h : (e.step stale op).1 = false) : (e.step stale op).2 = e := by
  cases op with
  | reset k r sb =>
    exact Encoder.reset_failed_unchanged he stale k r sb (Outcome.returnedOk_false h)
  | add shard => exact Encoder.add_failed_unchanged he shard (Outcome.returnedOk_false h)
  | encode => exact Encoder.encode_failed_unchanged he (Outcome.returnedOk_false h)

theorem Encoder.run_inv {e : Encoder} (he : e.Inv) (stale : Stale) (ops : List EncOp) :
    (e.run stale ops).Inv := by
  induction ops generalizing e with
  | nil => exact he
  | cons op ops ih => exact ih (Encoder.step_inv he stale op)

/-- C07 for sequences: removing the failing calls does not change the final object -/
theorem Encoder.run_filter_failed {e : Encoder} (he : e.Inv) (stale : Stale) (ops : List EncOp) :
    e.run stale ops = e.run stale (Encoder.okOps stale e ops) := by
  induction ops generalizing e with
  | nil => rfl
  | cons op ops ih =>
    have hi := Encoder.step_inv he stale op
    rw [Encoder.okOps]
    cases h : (e.step stale op).1
    · have hu := Encoder.step_failed_unchanged he stale op h
      simp only [Bool.false_eq_true, if_false]
      show Encoder.run stale (e.step stale op).2 ops = _
      rw [hu]
      exact ih he
    · simp only [if_true]
      show Encoder.run stale (e.step stale op).2 ops =
        Encoder.run stale (e.step stale op).2 (Encoder.okOps stale (e.step stale op).2 ops)
      exact ih hi

/-- and in the filtered sequence every call returns `Ok` -/
theorem Encoder.okOps_allOk {e : Encoder} (he : e.Inv) (stale : Stale) (ops : List EncOp) :
    Encoder.allOk stale e (Encoder.okOps stale e ops) = true := by
  induction ops generalizing e with
  | nil => rfl
  | cons op ops ih =>
    have hi := Encoder.step_inv he stale op
    rw [Encoder.okOps]
    cases h : (e.step stale op).1
    · have hu := Encoder.step_failed_unchanged he stale op h
      simp only [Bool.false_eq_true, if_false]
      rw [hu]
      exact ih he
    · simp only [if_true, Encoder.allOk, h, Bool.true_and]
      exact ih hi

inductive DecOp where
  | reset (k r sb : Nat)
  | addOriginal (index : Nat) (shard : Array Nat)
  | addRecovery (index : Nat) (shard : Array Nat)
  | decode

def Decoder.step (stale : Stale) (lw : Array Nat) (d : Decoder) : DecOp → Bool × Decoder
  | .reset k r sb => ((d.reset stale k r sb).1.returnedOk, (d.reset stale k r sb).2)
  | .addOriginal i s => ((d.addOriginal i s).1.returnedOk, (d.addOriginal i s).2)
  | .addRecovery i s => ((d.addRecovery i s).1.returnedOk, (d.addRecovery i s).2)
  | .decode => ((d.decode lw).1.returnedOk, (d.decode lw).2)

def Decoder.run (stale : Stale) (lw : Array Nat) (d : Decoder) (ops : List DecOp) : Decoder :=
  ops.foldl (fun d op => (d.step stale lw op).2) d

def Decoder.okOps (stale : Stale) (lw : Array Nat) : Decoder → List DecOp → List DecOp
  | _, [] => []
  | d, op :: ops =>
    if (d.step stale lw op).1 then op :: Decoder.okOps stale lw (d.step stale lw op).2 ops
    else Decoder.okOps stale lw (d.step stale lw op).2 ops

def Decoder.allOk (stale : Stale) (lw : Array Nat) : Decoder → List DecOp → Bool
  | _, [] => true
  | d, op :: ops => (d.step stale lw op).1 && Decoder.allOk stale lw (d.step stale lw op).2 ops

theorem Decoder.step_inv {d : Decoder} (hd : d.Inv) (stale : Stale) (lw : Array Nat) (op : DecOp) :
    (d.step stale lw op).2.Inv := by
  cases op with
  | reset k r sb => exact Decoder.reset_inv hd stale k r sb
  | addOriginal i s => exact Decoder.addOriginal_inv hd i s
  | addRecovery i s => exact Decoder.addRecovery_inv hd i s
  | decode => exact Decoder.decode_inv hd lw

theorem Decoder.step_failed_unchanged {d : Decoder} (hd : d.Inv) (stale : Stale) (lw : Array Nat)
    (op : DecOp) (h : (d.step stale lw op).1 = false) : (d.step stale lw op).2 = d := by
  cases op with
  | reset k r sb =>
    exact Decoder.reset_failed_unchanged hd stale k r sb (Outcome.returnedOk_false h)
  | addOriginal i s =>
    exact Decoder.addOriginal_failed_unchanged hd i s (Outcome.returnedOk_false h)
  | addRecovery i s =>
    exact Decoder.addRecovery_failed_unchanged hd i s (Outcome.returnedOk_false h)
  | decode => exact Decoder.decode_failed_unchanged hd lw (Outcome.returnedOk_false h)

theorem Decoder.run_inv {d : Decoder} (hd : d.Inv) (stale : Stale) (lw : Array Nat)
    (ops : List DecOp) : (d.run stale lw ops).Inv := by
  induction ops generalizing d with
  | nil => exact hd
  | cons op ops ih => exact ih (Decoder.step_inv hd stale lw op)

theorem Decoder.run_filter_failed {d : Decoder} (hd : d.Inv) (stale : Stale) (lw : Array Nat)
    (ops : List DecOp) : d.run stale lw ops = d.run stale lw (Decoder.okOps stale lw d ops) := by
  induction ops generalizing d with
  | nil => rfl
  | cons op ops ih =>
    have hi := Decoder.step_inv hd stale lw op
    rw [Decoder.okOps]
    cases h : (d.step stale lw op).1
    · have hu := Decoder.step_failed_unchanged hd stale lw op h
      simp only [Bool.false_eq_true, if_false]
      show Decoder.run stale lw (d.step stale lw op).2 ops = _
      rw [hu]
      exact ih hd
    · simp only [if_true]
      show Decoder.run stale lw (d.step stale lw op).2 ops =
        Decoder.run stale lw (d.step stale lw op).2
          (Decoder.okOps stale lw (d.step stale lw op).2 ops)
      exact ih hi

theorem Decoder.okOps_allOk {d : Decoder} (hd : d.Inv) (stale : Stale) (lw : Array Nat)
    (ops : List DecOp) : Decoder.allOk stale lw d (Decoder.okOps stale lw d ops) = true := by
  induction ops generalizing d with
  | nil => rfl
  | cons op ops ih =>
    have hi := Decoder.step_inv hd stale lw op
    rw [Decoder.okOps]
    cases h : (d.step stale lw op).1
    · have hu := Decoder.step_failed_unchanged hd stale lw op h
      simp only [Bool.false_eq_true, if_false]
      rw [hu]
      exact ih hd
    · simp only [if_true, Decoder.allOk, h, Bool.true_and]
      exact ih hi

end RS

#print axioms RS.Encoder.new_inv
#print axioms RS.Encoder.reset_inv
#print axioms RS.Encoder.add_inv
#print axioms RS.Encoder.encode_inv
#print axioms RS.Decoder.new_inv
#print axioms RS.Decoder.reset_inv
#print axioms RS.Decoder.addOriginal_inv
#print axioms RS.Decoder.addRecovery_inv
#print axioms RS.Decoder.decode_inv
#print axioms RS.Encoder.new_never_panics
#print axioms RS.Encoder.reset_never_panics
#print axioms RS.Encoder.add_never_panics
#print axioms RS.Encoder.encode_never_panics
#print axioms RS.Encoder.intoParts_never_panics
#print axioms RS.Decoder.new_never_panics
#print axioms RS.Decoder.reset_never_panics
#print axioms RS.Decoder.addOriginal_never_panics
#print axioms RS.Decoder.addRecovery_never_panics
#print axioms RS.Decoder.decode_never_panics
#print axioms RS.Decoder.intoParts_never_panics
#print axioms RS.Encoder.reset_failed_unchanged
#print axioms RS.Encoder.add_failed_unchanged
#print axioms RS.Encoder.encode_failed_unchanged
#print axioms RS.Decoder.reset_failed_unchanged
#print axioms RS.Decoder.addOriginal_failed_unchanged
#print axioms RS.Decoder.addRecovery_failed_unchanged
#print axioms RS.Decoder.decode_failed_unchanged
#print axioms RS.Encoder.run_inv
#print axioms RS.Encoder.run_filter_failed
#print axioms RS.Encoder.okOps_allOk
#print axioms RS.Decoder.run_inv
#print axioms RS.Decoder.run_filter_failed
#print axioms RS.Decoder.okOps_allOk
