/-
  C01 — any `original_count` of the shards restore every missing original.

  Assembly of the main correctness theorem of the decoders from
    * the generic decoder core (`Proofs/DecCore.lean`),
    * the codeword polynomial (`Proofs/Codeword.lean`),
    * lane-wise independence (`Proofs/Hom.lean`) and the lanes of `cauchyEncode`
      (`Proofs/CauchyEncAux.lean`),
    * the one-lane theorems `RT.decodeHigh_sym` / `RT.decodeLow_sym`
      (`Proofs/RoundtripHigh.lean`, `Proofs/RoundtripLow.lean`; common part
      `RT.decode_generic` in `Proofs/RoundtripAux.lean`).

  Hypothesis `LocSpec` (see `Proofs/RoundtripAux.lean`): `eval_poly` returns for every point the
  discrete log of the erasure-locator value.

    decodeHigh_correct        (Theorem H)  work-memory level, any lane count
    decodeLow_correct         (Theorem L)
    roundtrip_objects         `Decoder.decode` on a work space that satisfies `DecWork.Inv` and
                              holds shards of an encoding (`DecWork.Holds`): returns exactly the
                              missing originals (bytes)
    roundtrip_run             the same for a run `Decoder.new` / `addAllOriginal` /
                              `addAllRecovery` / `decode` fed with shards of `cauchyEncodeBytes`
    encoder_run               `Encoder.new` / `addAll` / `encode` returns `cauchyEncodeBytes`
    roundtrip_encode_decode   encoder run + decoder run
-/
import RSVerif.Proofs.RoundtripHigh
import RSVerif.Proofs.RoundtripLow
import RSVerif.Proofs.CauchyEnc
import RSVerif.Proofs.Inv
import RSVerif.Proofs.Layout
import RSVerif.Proofs.InvPres

namespace RS
open ShardAlg

/-- **Theorem H (C01, high rate).**  Work memory: recovery shards at `[0, r)`, originals at
    `[m, m + k)`, `m = npow2 r`.  If every received original slot holds the original, every
    received recovery slot holds the recovery shard of the closed-form encoding of the
    originals, and at least as many recovery shards are received as originals are missing, then
    `decodeHigh` (any schedule, any lane count) leaves every missing original in its slot. -/
theorem decodeHigh_correct {L : Nat} (s : Sched) (lw : Array Nat) (k r : Nat)
    (hsup : supportsHigh k r = true) (orig : Array (Vector Sym L)) (_horig : orig.size = k)
    (recv : Nat → Bool) (mem : Array (Vector Sym L))
    (hsz : mem.size = highDecWorkCount k r)
    (hO : ∀ i, i < k → recv (npow2 r + i) = true →
      rd mem (npow2 r + i) = orig.getD i (Vector.replicate L 0#16))
    (hR : ∀ j, j < r → recv j = true →
      rd mem j = (cauchyEncode .high k r orig).getD j (Vector.replicate L 0#16))
    (hEnough : ((List.range k).filter (fun i => !recv (npow2 r + i))).length
      ≤ ((List.range r).filter (fun j => recv j)).length)
    (hLoc : LocSpec (erasuresHigh k r recv)
      (evalPolyWith lw (erasuresHigh k r recv) (npow2 r + k))) :
    ∀ i, i < k → recv (npow2 r + i) = false →
      rd (decodeHigh s lw k r recv mem) (npow2 r + i) = orig.getD i (Vector.replicate L 0#16) := by
  intro i hi hri
  apply Vector.ext
  intro l hl
  show (rd (decodeHigh s lw k r recv mem) (npow2 r + i))[(⟨l, hl⟩ : Fin L)] =
    (orig.getD i (Vector.replicate L 0#16))[(⟨l, hl⟩ : Fin L)]
  rw [CE.rd_lane, decodeHigh_lane ⟨l, hl⟩]
  refine RT.decodeHigh_sym s lw k r hsup recv
    (fun i => (orig.getD i (Vector.replicate L 0#16))[(⟨l, hl⟩ : Fin L)]) _
    (by rw [Array.size_map]; exact hsz) ?_ ?_ hEnough hLoc hi hri
  · intro i' hi' hr'
    rw [← CE.rd_lane, hO i' hi' hr']
  · intro j hj hr'
    rw [← CE.rd_lane, hR j hj hr', CE.cauchyEncode_lane_high k r orig hj ⟨l, hl⟩]

/-- **Theorem L (C01, low rate).**  Work memory: originals at `[0, k)`, recovery shards at
    `[m, m + r)`, `m = npow2 k`. -/
theorem decodeLow_correct {L : Nat} (s : Sched) (lw : Array Nat) (k r : Nat)
    (hsup : supportsLow k r = true) (orig : Array (Vector Sym L)) (_horig : orig.size = k)
    (recv : Nat → Bool) (mem : Array (Vector Sym L))
    (hsz : mem.size = lowDecWorkCount k r)
    (hO : ∀ i, i < k → recv i = true → rd mem i = orig.getD i (Vector.replicate L 0#16))
    (hR : ∀ j, j < r → recv (npow2 k + j) = true →
      rd mem (npow2 k + j) = (cauchyEncode .low k r orig).getD j (Vector.replicate L 0#16))
    (hEnough : ((List.range k).filter (fun i => !recv i)).length
      ≤ ((List.range r).filter (fun j => recv (npow2 k + j))).length)
    (hLoc : LocSpec (erasuresLow k r recv) (evalPolyWith lw (erasuresLow k r recv) 65536)) :
    ∀ i, i < k → recv i = false →
      rd (decodeLow s lw k r recv mem) i = orig.getD i (Vector.replicate L 0#16) := by
  intro i hi hri
  apply Vector.ext
  intro l hl
  show (rd (decodeLow s lw k r recv mem) i)[(⟨l, hl⟩ : Fin L)] =
    (orig.getD i (Vector.replicate L 0#16))[(⟨l, hl⟩ : Fin L)]
  rw [CE.rd_lane, decodeLow_lane ⟨l, hl⟩]
  refine RT.decodeLow_sym s lw k r hsup recv
    (fun i => (orig.getD i (Vector.replicate L 0#16))[(⟨l, hl⟩ : Fin L)]) _
    (by rw [Array.size_map]; exact hsz) ?_ ?_ hEnough hLoc hi hri
  · intro i' hi' hr'
    rw [← CE.rd_lane, hO i' hi' hr']
  · intro j hj hr'
    rw [← CE.rd_lane, hR j hj hr', CE.cauchyEncode_lane_low k r orig hj ⟨l, hl⟩]

/-! ### the model objects -/

/-- the locator hypothesis for the decoder of `rate` -/
def LocSpecRate (rate : Rate) (lw : Array Nat) (k r : Nat) (recv : Nat → Bool) : Prop :=
  match rate with
  | .high =>
    LocSpec (erasuresHigh k r recv) (evalPolyWith lw (erasuresHigh k r recv) (npow2 r + k))
  | .low => LocSpec (erasuresLow k r recv) (evalPolyWith lw (erasuresLow k r recv) 65536)

/-- The received positions of a decoder's work memory hold shards of the encoding of the
    original shards `orig` (bytes), under their encode-time indexes: original `i` at
    `obase + i`, recovery shard `j` of the closed-form encoding at `rbase + j`.
    (`toArray` avoids the cast between `Vector Sym w.L` and `Vector Sym (w.sb / 2)`.) -/
structure DecWork.Holds (rate : Rate) (w : DecWork) (orig : List (Array Nat)) : Prop where
  count : orig.length = w.k
  sizes : ∀ i, i < w.k → (orig.getD i #[]).size = w.sb
  bytes : ∀ i, i < w.k → ∀ t, t < w.sb → (orig.getD i #[]).getD t 0 < 256
  originals : ∀ i, i < w.k → w.recvAt (w.obase + i) = true →
    (w.mem.getD (w.obase + i) (Vector.replicate w.L 0#16)).toArray
      = (layout w.sb (orig.getD i #[])).toArray
  recovery : ∀ j, j < w.r → w.recvAt (w.rbase + j) = true →
    (w.mem.getD (w.rbase + j) (Vector.replicate w.L 0#16)).toArray
      = ((cauchyEncode rate w.k w.r (orig.map (layout w.sb)).toArray).getD j
          (Vector.replicate (w.sb / 2) 0#16)).toArray

namespace RT

theorem countSet_add_missing (bits : Array Bool) (base n : Nat) :
    countSet bits base n
      + ((List.range n).filter (fun i => !bits.getD (base + i) false)).length = n := by
  induction n with
  | zero => simp [countSet]
  | succ n ih =>
    have e : ([n].filter (fun i => !bits.getD (base + i) false)).length
        = if bits.getD (base + n) false = true then 0 else 1 := by
      rw [List.filter_cons, List.filter_nil]
      cases bits.getD (base + n) false <;> rfl
    rw [List.range_succ, List.filter_append, List.length_append, e]
    simp only [countSet]
    split <;> omega

theorem countSet_eq_length (bits : Array Bool) (base n : Nat) :
    countSet bits base n
      = ((List.range n).filter (fun i => bits.getD (base + i) false)).length := by
  induction n with
  | zero => simp [countSet]
  | succ n ih =>
    have e : ([n].filter (fun i => bits.getD (base + i) false)).length
        = if bits.getD (base + n) false = true then 1 else 0 := by
      rw [List.filter_cons, List.filter_nil]
      cases bits.getD (base + n) false <;> rfl
    rw [List.range_succ, List.filter_append, List.length_append, e]
    simp only [countSet]
    split <;> omega

/-- what the result object yields, with the restored shards written out -/
theorem restoredList_aux (w : DecWork) (l : List Nat) (hl : ∀ i ∈ l, i < w.k) :
    (l.filterMap fun i => (w.restoredOriginal i).map fun s => (i, s)) =
      (l.filter fun i => !(w.recvAt (w.obase + i))).map
        (fun i => (i, unlayout w.sb (w.mem.getD (w.obase + i) (Vector.replicate w.L 0#16)))) := by
  induction l with
  | nil => simp
  | cons i is ih =>
    have hk : i < w.k := hl i (by simp)
    have ih' := ih (fun j hj => hl j (by simp [hj]))
    simp only [List.filterMap_cons, List.filter_cons]
    by_cases h : w.recvAt (w.obase + i) = true
    · have hn : w.restoredOriginal i = none := by
        unfold DecWork.restoredOriginal; simp [h]
      simp [hn, h, ih']
    · have hf : w.recvAt (w.obase + i) = false := by simpa using h
      have hs : w.restoredOriginal i = some (unlayout w.sb
          (w.mem.getD (w.obase + i) (Vector.replicate w.L 0#16))) := by
        unfold DecWork.restoredOriginal; simp [hk, hf]
      simp [hs, hf, ih']

theorem restoredList_eq (w : DecWork) :
    w.restoredList = ((List.range w.k).filter fun i => !(w.recvAt (w.obase + i))).map
      (fun i => (i, unlayout w.sb (w.mem.getD (w.obase + i) (Vector.replicate w.L 0#16)))) := by
  unfold DecWork.restoredList
  exact restoredList_aux w _ (fun i hi => List.mem_range.mp hi)

theorem lanes_getD (sb : Nat) (orig : List (Array Nat)) {i : Nat} (hi : i < orig.length) :
    ((orig.map (layout sb)).toArray).getD i (Vector.replicate (sb / 2) 0#16)
      = layout sb (orig.getD i #[]) := by
  simp [Array.getD_eq_getD_getElem?, hi, List.getD_eq_getElem?_getD]

/-- the decoded work memory holds every missing original (bytes) -/
theorem decodeMem_restores (lw : Array Nat) (s : Sched) (rate : Rate) (w : DecWork)
    (hinv : DecWork.Inv rate w) (orig : List (Array Nat)) (hold : DecWork.Holds rate w orig)
    (henough : w.k ≤ w.orecv + w.rrecv) (hLoc : LocSpecRate rate lw w.k w.r w.recvAt)
    {i : Nat} (hi : i < w.k) (hri : w.recvAt (w.obase + i) = false) :
    unlayout w.sb ((decodeMem rate s lw w.k w.r w.recvAt w.mem).getD (w.obase + i)
      (Vector.replicate w.L 0#16)) = orig.getD i #[] := by
  obtain ⟨k, r, sb, obase, rbase, orecv, rrecv, received, L, mem, hb, al, bal⟩ := w
  obtain ⟨hsup, _, hsbe, hlanes, hob, hrb, hsize, _, hor, hrr⟩ := hinv
  obtain ⟨hcount, hsizes, hbytes, hoO, hoR⟩ := hold
  simp only at hsup hsbe hlanes hob hrb hsize hor hrr hcount hsizes hbytes
  simp only [DecWork.recvAt] at hoO hoR henough hLoc hi hri ⊢
  subst hlanes
  have hmiss := countSet_add_missing received obase k
  have hrec := countSet_eq_length received rbase r
  have hlen : ((orig.map (layout sb)).toArray).size = k := by simp [hcount]
  cases rate with
  | high =>
    simp only at hob hrb
    subst hob hrb
    simp only [Nat.zero_add] at hrec hoR
    have key := decodeHigh_correct s lw k r hsup ((orig.map (layout sb)).toArray) hlen
      (fun p => received.getD p false) mem hsize
      (fun i' hi' hr' => by
        rw [lanes_getD sb orig (by omega)]
        exact Vector.toArray_inj.1 (hoO i' hi' hr'))
      (fun j hj hr' => Vector.toArray_inj.1 (hoR j hj hr'))
      (by omega) hLoc i hi hri
    show unlayout sb (rd (decodeHigh s lw k r (fun p => received.getD p false) mem)
      (npow2 r + i)) = _
    rw [key, lanes_getD sb orig (by omega), unlayout_layout hsbe (hsizes i hi) (hbytes i hi)]
  | low =>
    simp only at hob hrb
    subst hob hrb
    simp only [Nat.zero_add] at hmiss hoO hri ⊢
    have key := decodeLow_correct s lw k r hsup ((orig.map (layout sb)).toArray) hlen
      (fun p => received.getD p false) mem hsize
      (fun i' hi' hr' => by
        rw [lanes_getD sb orig (by omega)]
        exact Vector.toArray_inj.1 (hoO i' hi' hr'))
      (fun j hj hr' => Vector.toArray_inj.1 (hoR j hj hr'))
      (by omega) hLoc i hi hri
    show unlayout sb (rd (decodeLow s lw k r (fun p => received.getD p false) mem) i) = _
    rw [key, lanes_getD sb orig (by omega), unlayout_layout hsbe (hsizes i hi) (hbytes i hi)]

end RT

/-- **C01 at the level of the model objects.**  A decoder (any flavour, any engine) whose work
    space satisfies the object invariant and holds, at the received positions, shards of the
    encoding of `orig` under their encode-time indexes (original `i`; recovery shard `j` of the
    closed-form encoding `cauchyEncode rate k r`), and which received at least `k` distinct
    shards, answers `decode` with `ok` and exactly the missing originals: ascending index,
    original bytes. -/
theorem roundtrip_objects (lw : Array Nat) (d : Decoder) (rate : Rate) (w : DecWork)
    (hin : d.inner = .some rate w) (hinv : DecWork.Inv rate w)
    (orig : List (Array Nat)) (hold : DecWork.Holds rate w orig)
    (henough : w.k ≤ w.orecv + w.rrecv)
    (hLoc : LocSpecRate rate lw w.k w.r w.recvAt) :
    (d.decode lw).1 = .ok (((List.range w.k).filter (fun i => !w.recvAt (w.obase + i))).map
      (fun i => (i, orig.getD i #[]))) := by
  unfold Decoder.decode
  rw [hin]
  simp only
  rw [if_neg (by omega)]
  by_cases hall : w.orecv = w.k
  · rw [if_pos hall]
    simp only
    have hmiss := RT.countSet_add_missing w.received w.obase w.k
    rw [← hinv.orecv, hall] at hmiss
    have hnil : (List.range w.k).filter (fun i => !w.recvAt (w.obase + i)) = [] :=
      List.eq_nil_of_length_eq_zero (by unfold DecWork.recvAt; omega)
    rw [RT.restoredList_eq, hnil]
    rfl
  · rw [if_neg hall]
    simp only
    rw [RT.restoredList_eq]
    simp only
    congr 1
    apply List.map_congr_left
    intro i hi
    rw [List.mem_filter, List.mem_range] at hi
    congr 1
    have h2 : w.recvAt (w.obase + i) = false := by
      have h3 := hi.2
      simpa [DecWork.recvAt] using h3
    exact RT.decodeMem_restores lw d.sched rate w hinv orig hold henough hLoc hi.1 h2

/-! ### runs of the model objects -/

open InvAux

namespace RT

theorem cast_toArray {n m : Nat} (h : n = m) (v : Vector Sym n) :
    (h ▸ v : Vector Sym m).toArray = v.toArray := by
  subst h; rfl

theorem countSet_zero {bits : Array Bool} {base n : Nat} (h : countSet bits base n = 0) :
    ∀ i, i < n → bits.getD (base + i) false = false := by
  induction n with
  | zero => intro i hi; omega
  | succ n ih =>
    simp only [countSet] at h
    intro i hi
    by_cases hin : i = n
    · subst hin
      cases hb : bits.getD (base + i) false
      · rfl
      · rw [hb] at h; simp at h
    · exact ih (by omega) i (by omega)

/-- nothing received: the content condition is vacuous -/
theorem holds_of_none_received {rate : Rate} {w : DecWork} (hw : DecWork.Inv rate w)
    (orig : List (Array Nat)) (hc : orig.length = w.k)
    (hs : ∀ i, i < w.k → (orig.getD i #[]).size = w.sb)
    (hb : ∀ i, i < w.k → ∀ t, t < w.sb → (orig.getD i #[]).getD t 0 < 256)
    (ho : w.orecv = 0) (hr : w.rrecv = 0) : DecWork.Holds rate w orig := by
  refine ⟨hc, hs, hb, ?_, ?_⟩
  · intro i hi hrv
    have := countSet_zero (by rw [← hw.orecv]; exact ho) i hi
    unfold DecWork.recvAt at hrv
    rw [this] at hrv
    cases hrv
  · intro j hj hrv
    have := countSet_zero (by rw [← hw.rrecv]; exact hr) j hj
    unfold DecWork.recvAt at hrv
    rw [this] at hrv
    cases hrv

theorem DecWork.addOriginal_ok {rate : Rate} {w w' : DecWork} (hw : DecWork.Inv rate w) {i : Nat}
    {b : Array Nat} (h : w.addOriginal i b = .ok w') :
    i < w.k ∧ w.recvAt (w.obase + i) = false ∧ b.size = w.sb ∧ w.obase + i < w.mem.size ∧
    w' = { w with mem := w.mem.setIfInBounds (w.obase + i) (hw.lanes ▸ layout w.sb b),
                  received := w.received.setIfInBounds (w.obase + i) true,
                  orecv := w.orecv + 1 } := by
  rw [DecWork.addOriginal_eq'] at h
  by_cases h1 : i ≥ w.k
  · rw [if_pos h1] at h; cases h
  rw [if_neg h1] at h
  by_cases h2 : w.recvAt (w.obase + i) = true
  · rw [if_pos h2] at h; cases h
  rw [if_neg h2] at h
  by_cases h3 : b.size ≠ w.sb
  · rw [if_pos h3] at h; cases h
  rw [if_neg h3] at h
  unfold DecWork.insert' at h
  rw [dif_pos hw.lanes] at h
  by_cases h4 : w.obase + i < w.mem.size
  · rw [if_pos h4] at h
    simp only [Outcome.bind] at h
    injection h with h
    exact ⟨by omega, by simpa using h2, by omega, h4, h.symm⟩
  · rw [if_neg h4] at h
    cases h

theorem DecWork.addRecovery_ok {rate : Rate} {w w' : DecWork} (hw : DecWork.Inv rate w) {j : Nat}
    {b : Array Nat} (h : w.addRecovery j b = .ok w') :
    j < w.r ∧ w.recvAt (w.rbase + j) = false ∧ b.size = w.sb ∧ w.rbase + j < w.mem.size ∧
    w' = { w with mem := w.mem.setIfInBounds (w.rbase + j) (hw.lanes ▸ layout w.sb b),
                  received := w.received.setIfInBounds (w.rbase + j) true,
                  rrecv := w.rrecv + 1 } := by
  rw [DecWork.addRecovery_eq'] at h
  by_cases h1 : j ≥ w.r
  · rw [if_pos h1] at h; cases h
  rw [if_neg h1] at h
  by_cases h2 : w.recvAt (w.rbase + j) = true
  · rw [if_pos h2] at h; cases h
  rw [if_neg h2] at h
  by_cases h3 : b.size ≠ w.sb
  · rw [if_pos h3] at h; cases h
  rw [if_neg h3] at h
  unfold DecWork.insert' at h
  rw [dif_pos hw.lanes] at h
  by_cases h4 : w.rbase + j < w.mem.size
  · rw [if_pos h4] at h
    simp only [Outcome.bind] at h
    injection h with h
    exact ⟨by omega, by simpa using h2, by omega, h4, h.symm⟩
  · rw [if_neg h4] at h
    cases h

theorem addOriginal_holds {rate : Rate} {w w' : DecWork} (hw : DecWork.Inv rate w)
    {orig : List (Array Nat)} (hold : DecWork.Holds rate w orig) {i : Nat}
    (h : w.addOriginal i (orig.getD i #[]) = .ok w') : DecWork.Holds rate w' orig := by
  obtain ⟨hik, hclr, hsz, hlt, rfl⟩ := DecWork.addOriginal_ok hw h
  have hg := dec_geometry' hw.supported
  have hob := hw.obase'
  have hrb := hw.rbase'
  refine ⟨hold.count, hold.sizes, hold.bytes, ?_, ?_⟩
  · intro i' hi' hrv
    show ((w.mem.setIfInBounds (w.obase + i) _).getD (w.obase + i') _).toArray = _
    rw [getD_setIfInBounds]
    by_cases hii : i' = i
    · subst hii
      rw [if_pos ⟨rfl, hlt⟩, cast_toArray]
    · rw [if_neg (by omega)]
      apply hold.originals i' hi'
      have h2 : (w.received.setIfInBounds (w.obase + i) true).getD (w.obase + i') false = true :=
        hrv
      rwa [getD_set_ne _ (by omega)] at h2
  · intro j hj hrv
    have hne : w.obase + i ≠ w.rbase + j := by
      have hk : i < w.k := hik
      have hr : j < w.r := hj
      omega
    show ((w.mem.setIfInBounds (w.obase + i) _).getD (w.rbase + j) _).toArray = _
    rw [getD_setIfInBounds, if_neg (fun hc => hne hc.1)]
    apply hold.recovery j hj
    have h2 : (w.received.setIfInBounds (w.obase + i) true).getD (w.rbase + j) false = true :=
      hrv
    rwa [getD_set_ne _ hne] at h2

theorem addRecovery_holds {rate : Rate} {w w' : DecWork} (hw : DecWork.Inv rate w)
    {orig : List (Array Nat)} (hold : DecWork.Holds rate w orig) {j : Nat} {b : Array Nat}
    (hb : layout w.sb b = (cauchyEncode rate w.k w.r (orig.map (layout w.sb)).toArray).getD j
      (Vector.replicate (w.sb / 2) 0#16))
    (h : w.addRecovery j b = .ok w') : DecWork.Holds rate w' orig := by
  obtain ⟨hjr, hclr, hsz, hlt, rfl⟩ := DecWork.addRecovery_ok hw h
  have hg := dec_geometry' hw.supported
  have hob := hw.obase'
  have hrb := hw.rbase'
  refine ⟨hold.count, hold.sizes, hold.bytes, ?_, ?_⟩
  · intro i hi hrv
    have hne : w.rbase + j ≠ w.obase + i := by
      have hk : i < w.k := hi
      have hr : j < w.r := hjr
      omega
    show ((w.mem.setIfInBounds (w.rbase + j) _).getD (w.obase + i) _).toArray = _
    rw [getD_setIfInBounds, if_neg (fun hc => hne hc.1)]
    apply hold.originals i hi
    have h2 : (w.received.setIfInBounds (w.rbase + j) true).getD (w.obase + i) false = true :=
      hrv
    rwa [getD_set_ne _ hne] at h2
  · intro j' hj' hrv
    show ((w.mem.setIfInBounds (w.rbase + j) _).getD (w.rbase + j') _).toArray = _
    rw [getD_setIfInBounds]
    by_cases hjj : j' = j
    · subst hjj
      rw [if_pos ⟨rfl, hlt⟩, cast_toArray, hb]
    · rw [if_neg (by omega)]
      apply hold.recovery j' hj'
      have h2 : (w.received.setIfInBounds (w.rbase + j) true).getD (w.rbase + j') false = true :=
        hrv
      rwa [getD_set_ne _ (by omega)] at h2

theorem layout_cauchyEncodeBytes (rate : Rate) (k r sb : Nat) (orig : List (Array Nat)) {j : Nat}
    (hj : j < r) :
    layout sb ((cauchyEncodeBytes rate k r sb orig).getD j #[])
      = (cauchyEncode rate k r (orig.map (layout sb)).toArray).getD j
          (Vector.replicate (sb / 2) 0#16) := by
  have hsz : (cauchyEncode rate k r (orig.map (layout sb)).toArray).size = r := by
    simp [cauchyEncode]
  unfold cauchyEncodeBytes
  simp only [List.getD_eq_getElem?_getD, Array.getElem?_toList, Array.getElem?_map,
    Array.getD_eq_getD_getElem?]
  rw [Array.getElem?_eq_getElem (by rw [hsz]; exact hj)]
  simp only [Option.map_some, Option.getD_some]
  exact layout_unlayout _

theorem DecWork.addOriginal_inv_ok {rate : Rate} {w w' : DecWork} (hw : DecWork.Inv rate w)
    {i : Nat} {b : Array Nat} (h : w.addOriginal i b = .ok w') : DecWork.Inv rate w' := by
  rcases DecWork.addOriginal_split hw i b with ⟨_, he⟩ | ⟨_, _, he⟩ | ⟨_, _, _, he⟩ |
    ⟨_, _, _, w'', he, hinv, _⟩
  · rw [he] at h; cases h
  · rw [he] at h; cases h
  · rw [he] at h; cases h
  · rw [he] at h; injection h with h; subst h; exact hinv

theorem DecWork.addRecovery_inv_ok {rate : Rate} {w w' : DecWork} (hw : DecWork.Inv rate w)
    {i : Nat} {b : Array Nat} (h : w.addRecovery i b = .ok w') : DecWork.Inv rate w' := by
  rcases DecWork.addRecovery_split hw i b with ⟨_, he⟩ | ⟨_, _, he⟩ | ⟨_, _, _, he⟩ |
    ⟨_, _, _, w'', he, hinv, _⟩
  · rw [he] at h; cases h
  · rw [he] at h; cases h
  · rw [he] at h; cases h
  · rw [he] at h; injection h with h; subst h; exact hinv

end RT

/-- Decoder `d` runs rate `rate` on `(k, r, sb)`; its work space satisfies the object invariant
    and holds shards of the encoding of `orig`; the originals given so far are exactly those
    with index in `og`, and `nr` recovery shards were given. -/
def Decoder.Carries (d : Decoder) (rate : Rate) (k r sb : Nat) (orig : List (Array Nat))
    (og : List Nat) (nr : Nat) : Prop :=
  ∃ w, d.inner = .some rate w ∧ DecWork.Inv rate w ∧ DecWork.Holds rate w orig ∧
    w.k = k ∧ w.r = r ∧ w.sb = sb ∧ w.orecv = og.length ∧ w.rrecv = nr ∧
    ∀ i, i < k → (w.recvAt (w.obase + i) = true ↔ i ∈ og)

namespace RT

theorem addOriginal_carries {d d' : Decoder} {rate : Rate} {k r sb : Nat}
    {orig : List (Array Nat)} {og : List Nat} {nr : Nat}
    (hc : d.Carries rate k r sb orig og nr) {i : Nat}
    (h : d.addOriginal i (orig.getD i #[]) = (.ok (), d')) :
    d'.Carries rate k r sb orig (i :: og) nr := by
  obtain ⟨w, hin, hinv, hold, hk, hr, hsb, ho, hrr, hmem⟩ := hc
  unfold Decoder.addOriginal at h
  rw [hin] at h
  simp only at h
  cases hres : w.addOriginal i (orig.getD i #[]) with
  | err e => rw [hres] at h; simp only at h; injection h with h1 _; cases h1
  | panic e => rw [hres] at h; simp only at h; injection h with h1 _; cases h1
  | ok w' =>
    rw [hres] at h
    simp only at h
    injection h with _ h2
    subst h2
    have hinv' := DecWork.addOriginal_inv_ok hinv hres
    have hold' := addOriginal_holds hinv hold hres
    obtain ⟨hik, hclr, hsz, hlt, rfl⟩ := DecWork.addOriginal_ok hinv hres
    refine ⟨_, rfl, hinv', hold', hk, hr, hsb, ?_, hrr, ?_⟩
    · show w.orecv + 1 = (i :: og).length
      rw [ho]; rfl
    · intro i' hi'
      show (w.received.setIfInBounds (w.obase + i) true).getD (w.obase + i') false = true ↔ _
      have hbits := hinv.bits
      by_cases hii : i' = i
      · subst hii
        rw [getD_set_self _ (by omega)]
        simp
      · rw [getD_set_ne _ (by omega), List.mem_cons]
        have := hmem i' hi'
        unfold DecWork.recvAt at this
        rw [this]
        simp [hii]

theorem addRecovery_carries {d d' : Decoder} {rate : Rate} {k r sb : Nat}
    {orig : List (Array Nat)} {og : List Nat} {nr : Nat}
    (hc : d.Carries rate k r sb orig og nr) {j : Nat}
    (h : d.addRecovery j ((cauchyEncodeBytes rate k r sb orig).getD j #[]) = (.ok (), d')) :
    d'.Carries rate k r sb orig og (nr + 1) := by
  obtain ⟨w, hin, hinv, hold, hk, hr, hsb, ho, hrr, hmem⟩ := hc
  unfold Decoder.addRecovery at h
  rw [hin] at h
  simp only at h
  cases hres : w.addRecovery j ((cauchyEncodeBytes rate k r sb orig).getD j #[]) with
  | err e => rw [hres] at h; simp only at h; injection h with h1 _; cases h1
  | panic e => rw [hres] at h; simp only at h; injection h with h1 _; cases h1
  | ok w' =>
    rw [hres] at h
    simp only at h
    injection h with _ h2
    subst h2
    have hinv' := DecWork.addRecovery_inv_ok hinv hres
    obtain ⟨hjr, hclr, hsz, hlt, hw'⟩ := DecWork.addRecovery_ok hinv hres
    have hold' := addRecovery_holds hinv hold
      (by rw [hk, hr, hsb]; exact layout_cauchyEncodeBytes rate k r sb orig (by omega)) hres
    subst hw'
    have hg := dec_geometry' hinv.supported
    have hob := hinv.obase'
    have hrb := hinv.rbase'
    refine ⟨_, rfl, hinv', hold', hk, hr, hsb, ho, ?_, ?_⟩
    · show w.rrecv + 1 = nr + 1
      rw [hrr]
    · intro i' hi'
      show (w.received.setIfInBounds (w.rbase + j) true).getD (w.obase + i') false = true ↔ _
      have hne : w.rbase + j ≠ w.obase + i' := by
        have h1 : i' < w.k := by omega
        have h2 : j < w.r := hjr
        omega
      rw [getD_set_ne _ hne]
      exact hmem i' hi'

theorem addAllOriginal_carries {rate : Rate} {k r sb : Nat} {orig : List (Array Nat)} {nr : Nat}
    (os : List Nat) :
    ∀ {d d1 : Decoder} {og : List Nat}, d.Carries rate k r sb orig og nr →
      addAllOriginal d (os.map fun i => (i, orig.getD i #[])) = .ok d1 →
      d1.Carries rate k r sb orig (os.reverse ++ og) nr := by
  induction os with
  | nil =>
    intro d d1 og hc h
    simp only [List.map_nil, addAllOriginal] at h
    injection h with h
    subst h
    simpa using hc
  | cons i os ih =>
    intro d d1 og hc h
    simp only [List.map_cons, addAllOriginal] at h
    cases hstep : d.addOriginal i (orig.getD i #[]) with
    | mk out d' =>
      rw [hstep] at h
      cases out with
      | ok u =>
        simp only [stepE, Outcome.bind] at h
        have h2 := ih (addOriginal_carries hc hstep) h
        simpa [List.reverse_cons, List.append_assoc] using h2
      | err e => simp only [stepE, Outcome.bind] at h; cases h
      | panic e => simp only [stepE, Outcome.bind] at h; cases h

theorem addAllRecovery_carries {rate : Rate} {k r sb : Nat} {orig : List (Array Nat)}
    {og : List Nat} (rs : List Nat) :
    ∀ {d d1 : Decoder} {nr : Nat}, d.Carries rate k r sb orig og nr →
      addAllRecovery d (rs.map fun j => (j, (cauchyEncodeBytes rate k r sb orig).getD j #[]))
        = .ok d1 →
      d1.Carries rate k r sb orig og (nr + rs.length) := by
  induction rs with
  | nil =>
    intro d d1 nr hc h
    simp only [List.map_nil, addAllRecovery] at h
    injection h with h
    subst h
    simpa using hc
  | cons j rs ih =>
    intro d d1 nr hc h
    simp only [List.map_cons, addAllRecovery] at h
    cases hstep : d.addRecovery j ((cauchyEncodeBytes rate k r sb orig).getD j #[]) with
    | mk out d' =>
      rw [hstep] at h
      cases out with
      | ok u =>
        simp only [stepE, Outcome.bind] at h
        have h2 := ih (addRecovery_carries hc hstep) h
        rw [List.length_cons]
        rw [show nr + (rs.length + 1) = nr + 1 + rs.length by omega]
        exact h2
      | err e => simp only [stepE, Outcome.bind] at h; cases h
      | panic e => simp only [stepE, Outcome.bind] at h; cases h

/-- a freshly created decoder carries (vacuously) every encoding -/
theorem new_carries {stale : Stale} {kind : Kind} {sched : Sched} {k r sb : Nat} {d0 : Decoder}
    {rate : Rate} (hnew : Decoder.new stale kind sched k r sb none = .ok d0)
    (hrate : chooseRate kind k r = .ok rate)
    (orig : List (Array Nat)) (hlen : orig.length = k)
    (hsz : ∀ i, i < k → (orig.getD i #[]).size = sb)
    (hbytes : ∀ i, i < k → ∀ t, t < sb → (orig.getD i #[]).getD t 0 < 256) :
    d0.Carries rate k r sb orig [] 0 := by
  unfold Decoder.new at hnew
  rw [hrate] at hnew
  simp only [Option.getD_none] at hnew
  rcases decResetWork_split stale rate {} k r sb with ⟨_, he⟩ | ⟨_, _, he⟩ |
    ⟨_, _, w, he, hinv, hk, hr, hsb, ho, hrr⟩
  · rw [he] at hnew; cases hnew
  · rw [he] at hnew; cases hnew
  · rw [he] at hnew
    simp only [Outcome.bind] at hnew
    injection hnew with hnew
    subst hnew
    refine ⟨w, rfl, hinv,
      holds_of_none_received hinv orig (by rw [hk]; exact hlen) (by rw [hk, hsb]; exact hsz)
        (by rw [hk, hsb]; exact hbytes) ho hrr, hk, hr, hsb, ho, hrr, ?_⟩
    intro i hi
    have := countSet_zero (by rw [← hinv.orecv]; exact ho) i (by rw [hk]; exact hi)
    unfold DecWork.recvAt
    rw [this]
    simp

end RT

/-- **C01, end to end on the model objects.**  Create a decoder of any flavour and engine for
    `(k, r, sb)`; give it the originals with the indexes `os` and the recovery shards with the
    indexes `rs` of the closed-form encoding of `orig` (all calls succeed, i.e. the indexes are
    in range and distinct), at least `k` shards in total.  Then `decode` returns exactly the
    originals that were not given: ascending index, original bytes.  (`hLoc`: `eval_poly`
    computes the log of the erasure locator, proved separately.) -/
theorem roundtrip_run (stale : Stale) (lw : Array Nat) (kind : Kind) (sched : Sched) (k r sb : Nat)
    (orig : List (Array Nat)) (hlen : orig.length = k)
    (hsz : ∀ i, i < k → (orig.getD i #[]).size = sb)
    (hbytes : ∀ i, i < k → ∀ t, t < sb → (orig.getD i #[]).getD t 0 < 256)
    (os rs : List Nat) (d0 d1 d2 : Decoder) (rate : Rate)
    (hnew : Decoder.new stale kind sched k r sb none = .ok d0)
    (hrate : chooseRate kind k r = .ok rate)
    (hO : addAllOriginal d0 (os.map fun i => (i, orig.getD i #[])) = .ok d1)
    (hR : addAllRecovery d1
      (rs.map fun j => (j, (cauchyEncodeBytes rate k r sb orig).getD j #[])) = .ok d2)
    (henough : k ≤ os.length + rs.length)
    (hLoc : ∀ recv, LocSpecRate rate lw k r recv) :
    (d2.decode lw).1 = .ok (((List.range k).filter (fun i => decide (i ∉ os))).map
      (fun i => (i, orig.getD i #[]))) := by
  have c0 := RT.new_carries hnew hrate orig hlen hsz hbytes
  have c1 := RT.addAllOriginal_carries os c0 hO
  have c2 := RT.addAllRecovery_carries rs c1 hR
  obtain ⟨w2, hin2, hinv2, hold2, hk, hr, hsb, ho, hrr, hmem⟩ := c2
  have hmain := roundtrip_objects lw d2 rate w2 hin2 hinv2 orig hold2
    (by rw [hk, ho, hrr]; simp; omega) (by rw [hk, hr]; exact hLoc _)
  rw [hmain, hk]
  congr 2
  apply List.filter_congr
  intro i hi
  rw [List.mem_range] at hi
  have h1 := hmem i hi
  simp only [List.append_nil, List.mem_reverse] at h1
  cases hrv : w2.recvAt (w2.obase + i)
  · have : i ∉ os := fun hc => by rw [h1.2 hc] at hrv; cases hrv
    simp [this]
  · have : i ∈ os := h1.1 hrv
    simp [this]


namespace RT
theorem EncWork.add_ok {rate : Rate} {w w' : EncWork} (hw : EncWork.Inv rate w) {b : Array Nat}
    (h : w.add b = .ok w') :
    w.recv < w.k ∧ b.size = w.sb ∧ w.recv < w.mem.size ∧ EncWork.Inv rate w' ∧
    w' = { w with mem := w.mem.setIfInBounds w.recv (hw.lanes ▸ layout w.sb b),
                  recv := w.recv + 1 } := by
  have hinv' : EncWork.Inv rate w' := by
    rcases EncWork.add_split hw b with ⟨_, he⟩ | ⟨_, _, he⟩ | ⟨_, _, w'', he, hinv, _⟩
    · rw [he] at h; cases h
    · rw [he] at h; cases h
    · rw [he] at h; injection h with h; subst h; exact hinv
  unfold EncWork.add at h
  by_cases h1 : w.recv = w.k
  · rw [if_pos h1] at h; cases h
  rw [if_neg h1] at h
  by_cases h3 : b.size ≠ w.sb
  · rw [if_pos h3] at h; cases h
  rw [if_neg h3, dif_pos hw.lanes] at h
  by_cases h4 : w.recv < w.mem.size
  · rw [if_pos h4] at h
    injection h with h
    have := hw.recv_le
    exact ⟨by omega, by omega, h4, hinv', h.symm⟩
  · rw [if_neg h4] at h
    cases h

end RT

/-- encoder `e` runs rate `rate` on `(k, r, sb)` and was given the original shards `given`
    (in this order) -/
def Encoder.Carries (e : Encoder) (rate : Rate) (k r sb : Nat) (given : List (Array Nat)) : Prop :=
  ∃ w, e.inner = .some rate w ∧ EncWork.Inv rate w ∧ w.k = k ∧ w.r = r ∧ w.sb = sb ∧
    w.recv = given.length ∧
    ∀ i, i < given.length → (w.mem.getD i (Vector.replicate w.L 0#16)).toArray
      = (layout sb (given.getD i #[])).toArray

namespace RT

theorem add_carries {e e' : Encoder} {rate : Rate} {k r sb : Nat} {given : List (Array Nat)}
    (hc : e.Carries rate k r sb given) {b : Array Nat} (h : e.add b = (.ok (), e')) :
    e'.Carries rate k r sb (given ++ [b]) := by
  obtain ⟨w, hin, hinv, hk, hr, hsb, hrecv, hmem⟩ := hc
  unfold Encoder.add at h
  rw [hin] at h
  simp only at h
  cases hres : w.add b with
  | err er => rw [hres] at h; simp only at h; injection h with h1 _; cases h1
  | panic er => rw [hres] at h; simp only at h; injection h with h1 _; cases h1
  | ok w' =>
    rw [hres] at h
    simp only at h
    injection h with _ h2
    subst h2
    obtain ⟨hlt, hsz, hltm, hinv', rfl⟩ := EncWork.add_ok hinv hres
    refine ⟨_, rfl, hinv', hk, hr, hsb, ?_, ?_⟩
    · show w.recv + 1 = (given ++ [b]).length
      rw [hrecv]; simp
    · intro i hi
      show ((w.mem.setIfInBounds w.recv _).getD i _).toArray = _
      rw [List.length_append, List.length_singleton] at hi
      rw [getD_setIfInBounds]
      by_cases hii : i = given.length
      · subst hii
        rw [if_pos ⟨hrecv, by rw [← hrecv]; exact hltm⟩, cast_toArray, hsb]
        simp
      · rw [if_neg (by omega), hmem i (by omega)]
        congr 2
        simp only [List.getD_eq_getElem?_getD]
        rw [List.getElem?_append_left (by omega)]

theorem addAll_carries {rate : Rate} {k r sb : Nat} (bs : List (Array Nat)) :
    ∀ {e e1 : Encoder} {given : List (Array Nat)}, e.Carries rate k r sb given →
      oneShotEncode.addAll e bs = .ok e1 → e1.Carries rate k r sb (given ++ bs) := by
  induction bs with
  | nil =>
    intro e e1 given hc h
    simp only [oneShotEncode.addAll] at h
    injection h with h
    subst h
    simpa using hc
  | cons b bs ih =>
    intro e e1 given hc h
    simp only [oneShotEncode.addAll] at h
    cases hstep : e.add b with
    | mk out e' =>
      rw [hstep] at h
      cases out with
      | ok u =>
        simp only [stepE, Outcome.bind] at h
        have h2 := ih (add_carries hc hstep) h
        simpa [List.append_assoc] using h2
      | err er => simp only [stepE, Outcome.bind] at h; cases h
      | panic er => simp only [stepE, Outcome.bind] at h; cases h

theorem toList_eq_map_range {α : Type} (a : Array α) (d : α) :
    a.toList = (List.range a.size).map (fun j => a.getD j d) := by
  apply List.ext_getElem
  · simp
  · intro n h1 h2
    have hn : n < a.size := by simpa using h1
    simp [Array.getD_eq_getD_getElem?, hn]

theorem filterMap_some {α β : Type} (g : α → β) (l : List α) :
    l.filterMap (fun a => some (g a)) = l.map g := by
  induction l with
  | nil => rfl
  | cons a l ih => simp [ih]

/-- the recovery shards an encoder exposes after `encode` are the closed-form encoding -/
theorem recoveryList_encode {rate : Rate} (s : Sched) (w : EncWork) (hinv : EncWork.Inv rate w)
    (orig : List (Array Nat)) (hlen : orig.length = w.k)
    (hmem : ∀ i, i < w.k → (w.mem.getD i (Vector.replicate w.L 0#16)).toArray
      = (layout w.sb (orig.getD i #[])).toArray) :
    ({ w with mem := encodeMem rate s w.k w.r w.mem } : EncWork).recoveryList
      = cauchyEncodeBytes rate w.k w.r w.sb orig := by
  obtain ⟨k, r, sb, recv, L, mem, hb, al⟩ := w
  obtain ⟨hsup, _, hsbe, hlanes, _, hsize⟩ := hinv
  simp only at hsup hsbe hlanes hsize hlen hmem
  subst hlanes
  have hval : ∀ j, j < r → (encodeMem rate s k r mem).getD j (Vector.replicate (sb / 2) 0#16)
      = (cauchyEncode rate k r (orig.map (layout sb)).toArray).getD j
          (Vector.replicate (sb / 2) 0#16) := by
    intro j hj
    have horig : ∀ i, i < k → rd mem i
        = ((orig.map (layout sb)).toArray).getD i (Vector.replicate (sb / 2) 0#16) := by
      intro i hi
      rw [lanes_getD sb orig (by omega)]
      exact Vector.toArray_inj.1 (hmem i hi)
    cases rate with
    | high => exact encodeHigh_eq_cauchy' s k r hsup mem _ hsize horig hj
    | low => exact encodeLow_eq_cauchy' s k r hsup mem _ hsize horig hj
  have hsz : (cauchyEncode rate k r (orig.map (layout sb)).toArray).size = r := by
    simp [cauchyEncode]
  unfold EncWork.recoveryList EncWork.recovery cauchyEncodeBytes
  simp only
  rw [Array.toList_map, toList_eq_map_range _ (Vector.replicate (sb / 2) 0#16), hsz, List.map_map]
  rw [List.filterMap_congr (g := fun j => some (unlayout sb
    ((cauchyEncode rate k r (orig.map (layout sb)).toArray).getD j
      (Vector.replicate (sb / 2) 0#16))))]
  · rw [filterMap_some]
    rfl
  · intro j hj
    rw [List.mem_range] at hj
    rw [if_pos hj, hval j hj]

/-- `encode` of an encoder that was given all `k` originals returns the closed-form encoding -/
theorem encode_carries {e : Encoder} {rate : Rate} {k r sb : Nat} {orig : List (Array Nat)}
    (hc : e.Carries rate k r sb orig) (hlen : orig.length = k) :
    e.encode.1 = .ok (cauchyEncodeBytes rate k r sb orig) := by
  obtain ⟨w, hin, hinv, hk, hr, hsb, hrecv, hmem⟩ := hc
  unfold Encoder.encode
  rw [hin]
  simp only
  rw [if_pos (by omega)]
  simp only
  rw [recoveryList_encode e.sched w hinv orig (by omega)
    (fun i hi => by rw [hmem i (by omega), hsb]), hk, hr, hsb]

theorem enc_new_carries {stale : Stale} {kind : Kind} {sched : Sched} {k r sb : Nat} {e0 : Encoder}
    {rate : Rate} (hnew : Encoder.new stale kind sched k r sb none = .ok e0)
    (hrate : chooseRate kind k r = .ok rate) : e0.Carries rate k r sb [] := by
  unfold Encoder.new at hnew
  rw [hrate] at hnew
  simp only [Option.getD_none] at hnew
  rcases encResetWork_split stale rate {} k r sb with ⟨_, he⟩ | ⟨_, _, he⟩ |
    ⟨_, _, w, he, hinv, hk, hr, hsb, ho⟩
  · rw [he] at hnew; cases hnew
  · rw [he] at hnew; cases hnew
  · rw [he] at hnew
    simp only [Outcome.bind] at hnew
    injection hnew with hnew
    subst hnew
    exact ⟨w, rfl, hinv, hk, hr, hsb, ho, fun i hi => absurd hi (by simp)⟩

end RT

/-- **C02 on the model objects.**  An encoder of any flavour and engine that was given the `k`
    original shards `orig` returns exactly the closed-form encoding `cauchyEncodeBytes`. -/
theorem encoder_run (stale : Stale) (kind : Kind) (sched : Sched) (k r sb : Nat)
    (orig : List (Array Nat)) (hlen : orig.length = k) (e0 e1 : Encoder) (rate : Rate)
    (hnew : Encoder.new stale kind sched k r sb none = .ok e0)
    (hrate : chooseRate kind k r = .ok rate)
    (hadd : oneShotEncode.addAll e0 orig = .ok e1) :
    e1.encode.1 = .ok (cauchyEncodeBytes rate k r sb orig) := by
  have c0 := RT.enc_new_carries hnew hrate
  have c1 := RT.addAll_carries orig c0 hadd
  rw [List.nil_append] at c1
  exact RT.encode_carries c1 hlen


/-- **C01 + C02, end to end on the model objects.**  Encode `orig` with an encoder object, feed
    a decoder object of the same rate with the originals `os` and the recovery shards `rs` of the
    encoder's output (all calls succeed; at least `k` shards in total): `decode` returns exactly
    the originals that were not given. -/
theorem roundtrip_encode_decode (staleE staleD : Stale) (lw : Array Nat) (kindE kindD : Kind)
    (schedE schedD : Sched) (k r sb : Nat) (orig : List (Array Nat)) (hlen : orig.length = k)
    (hsz : ∀ i, i < k → (orig.getD i #[]).size = sb)
    (hbytes : ∀ i, i < k → ∀ t, t < sb → (orig.getD i #[]).getD t 0 < 256)
    (rate : Rate) (hrE : chooseRate kindE k r = .ok rate) (hrD : chooseRate kindD k r = .ok rate)
    (e0 e1 : Encoder) (hnewE : Encoder.new staleE kindE schedE k r sb none = .ok e0)
    (haddE : oneShotEncode.addAll e0 orig = .ok e1)
    (recs : List (Array Nat)) (hrec : e1.encode.1 = .ok recs)
    (os rs : List Nat) (d0 d1 d2 : Decoder)
    (hnewD : Decoder.new staleD kindD schedD k r sb none = .ok d0)
    (hO : addAllOriginal d0 (os.map fun i => (i, orig.getD i #[])) = .ok d1)
    (hR : addAllRecovery d1 (rs.map fun j => (j, recs.getD j #[])) = .ok d2)
    (henough : k ≤ os.length + rs.length)
    (hLoc : ∀ recv, LocSpecRate rate lw k r recv) :
    (d2.decode lw).1 = .ok (((List.range k).filter (fun i => decide (i ∉ os))).map
      (fun i => (i, orig.getD i #[]))) := by
  have henc := encoder_run staleE kindE schedE k r sb orig hlen e0 e1 rate hnewE hrE haddE
  rw [henc] at hrec
  injection hrec with hrec
  subst hrec
  exact roundtrip_run staleD lw kindD schedD k r sb orig hlen hsz hbytes os rs d0 d1 d2 rate
    hnewD hrD hO hR henough hLoc

end RS

#print axioms RS.decodeHigh_correct
#print axioms RS.decodeLow_correct
#print axioms RS.roundtrip_objects
#print axioms RS.roundtrip_run
#print axioms RS.encoder_run
#print axioms RS.roundtrip_encode_decode
