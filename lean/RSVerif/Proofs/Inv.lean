/-
  Invariants of the codec objects (definitions only; preservation is proved in Proofs/InvPres.lean).
-/
import RSVerif.Model.State
import RSVerif.Model.Spec

namespace RS

/-- flavour / rate consistency of an object -/
def kindAllows (kind : Kind) (rate : Rate) (k r : Nat) : Prop :=
  match kind with
  | .high => rate = .high
  | .low => rate = .low
  | .default => chooseRate .default k r = .ok rate

/-- number of `true` entries of `bits` at positions `base, …, base + n - 1` -/
def countSet (bits : Array Bool) (base : Nat) : Nat → Nat
  | 0 => 0
  | n + 1 => countSet bits base n + (if bits.getD (base + n) false then 1 else 0)

/-- invariant of an encoder's work space under rate `rate` -/
structure EncWork.Inv (rate : Rate) (w : EncWork) : Prop where
  supported : supportsRate rate w.k w.r = true
  sb_pos : w.sb ≠ 0
  sb_even : w.sb % 2 = 0
  lanes : w.sb / 2 = w.L
  recv_le : w.recv ≤ w.k
  size : w.mem.size = encWorkCount rate w.k w.r

/-- invariant of an encoder object: an inner codec is present, consistent with the flavour -/
def Encoder.Inv (e : Encoder) : Prop :=
  ∃ rate w, e.inner = .some rate w ∧ kindAllows e.kind rate w.k w.r ∧ EncWork.Inv rate w

/-- invariant of a decoder's work space under rate `rate` -/
structure DecWork.Inv (rate : Rate) (w : DecWork) : Prop where
  supported : supportsRate rate w.k w.r = true
  sb_pos : w.sb ≠ 0
  sb_even : w.sb % 2 = 0
  lanes : w.sb / 2 = w.L
  obase : w.obase = (match rate with | .high => npow2 w.r | .low => 0)
  rbase : w.rbase = (match rate with | .high => 0 | .low => npow2 w.k)
  size : w.mem.size = decWorkCount rate w.k w.r
  bits : max (w.obase + w.k) (w.rbase + w.r) ≤ w.received.size
  orecv : w.orecv = countSet w.received w.obase w.k
  rrecv : w.rrecv = countSet w.received w.rbase w.r

def Decoder.Inv (d : Decoder) : Prop :=
  ∃ rate w, d.inner = .some rate w ∧ kindAllows d.kind rate w.k w.r ∧ DecWork.Inv rate w

end RS
