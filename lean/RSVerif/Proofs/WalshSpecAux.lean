/-
  Auxiliary file for `WalshSpec`: `add_mod`/`sub_mod` in `ZMod 65535`, the Walsh sign, radix-2 levels.
-/
import RSVerif.Proofs.Walsh
import Mathlib.Data.ZMod.Basic
import Mathlib.Algebra.BigOperators.Ring.Finset
import Mathlib.Algebra.BigOperators.Intervals
import Mathlib.Tactic.Ring
import Mathlib.Tactic.LinearCombination

open Finset

namespace RS

/-- the ring of discrete logarithms -/
abbrev Z := ZMod 65535

/-! ### `add_mod` / `sub_mod` in `ZMod 65535` -/

theorem Z_65536 : ((65536 : ℕ) : Z) = 1 := by
  have h : ((65535 : ℕ) : Z) = 0 := ZMod.natCast_self 65535
  have e : (65536 : ℕ) = 65535 + 1 := rfl
  rw [e, Nat.cast_add, h, zero_add, Nat.cast_one]

theorem addMod_lt (x y : ℕ) (hx : x < 65536) (hy : y < 65536) : addMod x y < 65536 :=
  (addMod_spec x y hx hy).1

theorem subMod_lt (x y : ℕ) (hx : x < 65536) (hy : y < 65536) : subMod x y < 65536 :=
  (subMod_spec x y hx hy).1

theorem addMod_cast (x y : ℕ) (hx : x < 65536) (hy : y < 65536) :
    ((addMod x y : ℕ) : Z) = (x : Z) + (y : Z) := by
  have h := (addMod_spec x y hx hy).2
  rw [← Nat.cast_add]
  exact (ZMod.natCast_eq_natCast_iff' _ _ 65535).2 h

theorem subMod_cast (x y : ℕ) (hx : x < 65536) (hy : y < 65536) :
    ((subMod x y : ℕ) : Z) = (x : Z) - (y : Z) := by
  have h := (subMod_spec x y hx hy).2
  have h' : ((subMod x y + y : ℕ) : Z) = (x : Z) :=
    (ZMod.natCast_eq_natCast_iff' _ _ 65535).2 h
  rw [Nat.cast_add] at h'
  rw [← h']; ring

/-- item 4: the product step of `eval_poly` is multiplication in `ZMod 65535`. -/
theorem mulStep_spec (e f : ℕ) (he : e < 65536) (hf : f < 65536) :
    addMod (e * f % 65536) (e * f / 65536) < 65536 ∧
      ((addMod (e * f % 65536) (e * f / 65536) : ℕ) : Z) = (e : Z) * (f : Z) := by
  have h1 : e * f % 65536 < 65536 := Nat.mod_lt _ (by decide)
  have h2 : e * f / 65536 < 65536 := by
    rw [Nat.div_lt_iff_lt_mul (by decide)]
    exact Nat.mul_lt_mul'' he hf
  refine ⟨addMod_lt _ _ h1 h2, ?_⟩
  rw [addMod_cast _ _ h1 h2]
  have h3 : e * f = e * f % 65536 + 65536 * (e * f / 65536) := (Nat.mod_add_div _ _).symm
  have h4 : ((e * f : ℕ) : Z) = ((e * f % 65536 : ℕ) : Z) + ((65536 : ℕ) : Z) * ((e * f / 65536 : ℕ) : Z) := by
    rw [← Nat.cast_mul, ← Nat.cast_add, ← h3]
  rw [Z_65536, one_mul, Nat.cast_mul] at h4
  exact h4.symm

/-! ### the Walsh sign `(-1)^popcount (x &&& y)` on 16-bit numbers -/

/-- contribution of one bit position -/
def wbit (u v : Bool) : Z := if u && v then -1 else 1

/-- `wsign x y = (-1)^popcount (x &&& y)` (over the low 16 bits) -/
def wsign (x y : ℕ) : Z := ∏ i ∈ range 16, wbit (x.testBit i) (y.testBit i)

theorem wbit_xor_left (u v w : Bool) : wbit (u ^^ v) w = wbit u w * wbit v w := by
  cases u <;> cases v <;> cases w <;> simp [wbit]

theorem wbit_comm (u v : Bool) : wbit u v = wbit v u := by
  cases u <;> cases v <;> simp [wbit]

theorem wbit_false_left (v : Bool) : wbit false v = 1 := by simp [wbit]

theorem wbit_false_right (v : Bool) : wbit v false = 1 := by simp [wbit]

theorem wbit_mul_self (u v : Bool) : wbit u v * wbit u v = 1 := by
  cases u <;> cases v <;> simp [wbit]

theorem wsign_comm (x y : ℕ) : wsign x y = wsign y x :=
  Finset.prod_congr rfl fun _ _ => wbit_comm _ _

theorem wsign_xor_left (x j y : ℕ) : wsign (x ^^^ j) y = wsign x y * wsign j y := by
  unfold wsign
  rw [← Finset.prod_mul_distrib]
  exact Finset.prod_congr rfl fun i _ => by rw [Nat.testBit_xor, wbit_xor_left]

theorem wsign_xor_right (x y j : ℕ) : wsign x (y ^^^ j) = wsign x y * wsign x j := by
  rw [wsign_comm, wsign_xor_left, wsign_comm y, wsign_comm j]

theorem wsign_zero_left (y : ℕ) : wsign 0 y = 1 :=
  Finset.prod_eq_one fun i _ => by rw [Nat.zero_testBit, wbit_false_left]

theorem wsign_zero_right (x : ℕ) : wsign x 0 = 1 := by rw [wsign_comm, wsign_zero_left]

theorem wsign_mul_self (x y : ℕ) : wsign x y * wsign x y = 1 := by
  unfold wsign
  rw [← Finset.prod_mul_distrib]
  exact Finset.prod_eq_one fun i _ => wbit_mul_self _ _

theorem wsign_two_pow (i : ℕ) (hi : i < 16) (y : ℕ) :
    wsign (2 ^ i) y = if y.testBit i then -1 else 1 := by
  unfold wsign
  rw [Finset.prod_eq_single i]
  · rw [Nat.testBit_two_pow_self]; cases y.testBit i <;> simp [wbit]
  · intro k _ hk
    rw [Nat.testBit_two_pow_of_ne (Ne.symm hk), wbit_false_left]
  · intro h; exact absurd (Finset.mem_range.2 hi) h

/-- for `x < 2^b` the sign only depends on the low `b` bits of the other argument -/
theorem wsign_mod (x p b : ℕ) (hx : x < 2 ^ b) : wsign x (p % 2 ^ b) = wsign x p := by
  refine Finset.prod_congr rfl fun i _ => ?_
  by_cases hib : i < b
  · rw [Nat.testBit_mod_two_pow]; simp [hib]
  · have hxi : x.testBit i = false :=
      Nat.testBit_lt_two_pow (Nat.lt_of_lt_of_le hx (Nat.pow_le_pow_right (by decide) (Nat.le_of_not_lt hib)))
    rw [hxi, wbit_false_left, wbit_false_left]

theorem wsign_of_mod_eq (x p q b : ℕ) (hx : x < 2 ^ b) (h : p % 2 ^ b = q % 2 ^ b) :
    wsign x p = wsign x q := by
  rw [← wsign_mod x p b hx, ← wsign_mod x q b hx, h]

/-- `2^b + x = 2^b xor x` for `x < 2^b` -/
theorem two_pow_add_eq_xor (b x : ℕ) (hx : x < 2 ^ b) : 2 ^ b + x = 2 ^ b ^^^ x := by
  have h := Nat.two_pow_add_eq_or_of_lt hx 1
  rw [Nat.mul_one] at h
  rw [h]
  apply Nat.eq_of_testBit_eq
  intro i
  rw [Nat.testBit_or, Nat.testBit_xor]
  by_cases hib : b = i
  · subst hib
    rw [Nat.testBit_lt_two_pow hx]; simp
  · rw [Nat.testBit_two_pow_of_ne hib]; simp

theorem wsign_two_pow_add (b x p : ℕ) (hb : b < 16) (hx : x < 2 ^ b) :
    wsign (2 ^ b + x) p = (if p.testBit b then -1 else 1) * wsign x p := by
  rw [two_pow_add_eq_xor b x hx, wsign_xor_left, wsign_two_pow b hb]

/-! ### radix-2 levels and partial transforms (on functions `ℕ → Z`) -/

/-- one radix-2 butterfly level at distance `d = 2^b` -/
def lvl (d : ℕ) (f : ℕ → Z) (p : ℕ) : Z :=
  if p / d % 2 = 0 then f p + f (p + d) else f (p - d) - f p

/-- the transform of every aligned block of size `2^b` -/
def part (b : ℕ) (f : ℕ → Z) (p : ℕ) : Z :=
  ∑ x ∈ range (2 ^ b), wsign x p * f (p / 2 ^ b * 2 ^ b + x)

theorem part_zero (f : ℕ → Z) : part 0 f = f := by
  funext p
  simp [part, wsign_zero_left]

theorem part_succ (b : ℕ) (hb : b < 16) (f : ℕ → Z) (p : ℕ) :
    part (b + 1) f p = lvl (2 ^ b) (part b f) p := by
  have hd : 0 < 2 ^ b := Nat.two_pow_pos b
  have htb : p.testBit b = decide (p / 2 ^ b % 2 = 1) := Nat.testBit_eq_decide_div_mod_eq
  unfold lvl
  show ∑ x ∈ range (2 ^ (b + 1)), wsign x p * f (p / 2 ^ (b + 1) * 2 ^ (b + 1) + x) = _
  rw [pow_succ, mul_two, Finset.sum_range_add, ← mul_two, ← Nat.div_div_eq_div_mul]
  generalize hm : p / 2 ^ b = m at htb
  have hB : m / 2 * (2 ^ b * 2) = m / 2 * 2 * 2 ^ b := by ring
  rw [hB]
  have hsecond : ∀ x ∈ range (2 ^ b), wsign (2 ^ b + x) p * f (m / 2 * 2 * 2 ^ b + (2 ^ b + x)) =
      (if p.testBit b then -1 else 1) * (wsign x p * f ((m / 2 * 2 + 1) * 2 ^ b + x)) := by
    intro x hx
    rw [wsign_two_pow_add b x p hb (Finset.mem_range.1 hx)]
    have : m / 2 * 2 * 2 ^ b + (2 ^ b + x) = (m / 2 * 2 + 1) * 2 ^ b + x := by ring
    rw [this]; ring
  rw [Finset.sum_congr rfl hsecond, ← Finset.mul_sum]
  by_cases hpar : m % 2 = 0
  · rw [if_pos hpar]
    have h2 : m / 2 * 2 = m := by omega
    have ht : p.testBit b = false := by rw [htb]; simp [hpar]
    rw [h2, ht]
    simp only [Bool.false_eq_true, if_false, one_mul]
    unfold part
    rw [hm, Nat.add_div_right p hd, hm]
    have hw : ∀ x ∈ range (2 ^ b), wsign x (p + 2 ^ b) * f ((m + 1) * 2 ^ b + x) =
        wsign x p * f ((m + 1) * 2 ^ b + x) := by
      intro x hx
      rw [wsign_of_mod_eq x (p + 2 ^ b) p b (Finset.mem_range.1 hx) (Nat.add_mod_right p (2 ^ b))]
    rw [Finset.sum_congr rfl hw]
  · rw [if_neg hpar]
    have h2 : m / 2 * 2 + 1 = m := by omega
    have ht : p.testBit b = true := by rw [htb]; simp; omega
    have hge : 2 ^ b ≤ p := by
      have : 1 ≤ p / 2 ^ b := by omega
      exact (Nat.le_div_iff_mul_le hd).1 this |>.trans' (by omega)
    rw [h2, ht]
    simp only [if_true]
    unfold part
    have hsub : (p - 2 ^ b) / 2 ^ b = m / 2 * 2 := by
      have := Nat.sub_mul_div p (2 ^ b) 1
      rw [Nat.mul_one] at this
      rw [this, hm]; omega
    rw [hm, hsub]
    have hw : ∀ x ∈ range (2 ^ b), wsign x (p - 2 ^ b) * f (m / 2 * 2 * 2 ^ b + x) =
        wsign x p * f (m / 2 * 2 * 2 ^ b + x) := by
      intro x hx
      rw [wsign_of_mod_eq x (p - 2 ^ b) p b (Finset.mem_range.1 hx) (Nat.mod_eq_sub_mod hge).symm]
    rw [Finset.sum_congr rfl hw]
    ring

/-! ### two radix-2 levels, expanded -/

theorem lvl2_00 (f : ℕ → Z) (d p : ℕ) (hd : 0 < d) (h1 : p / d % 2 = 0) (h2 : p / (2 * d) % 2 = 0) :
    lvl (2 * d) (lvl d f) p = (f p + f (p + d)) + (f (p + 2 * d) + f (p + 2 * d + d)) := by
  have h3 : (p + 2 * d) / d % 2 = 0 := by rw [Nat.add_mul_div_right p 2 hd]; omega
  unfold lvl
  rw [if_pos h2, if_pos h1, if_pos h3]

theorem lvl2_10 (f : ℕ → Z) (d p : ℕ) (hd : 0 < d) (h1 : p / d % 2 = 1) (h2 : p / (2 * d) % 2 = 0) :
    lvl (2 * d) (lvl d f) p = (f (p - d) - f p) + (f (p + 2 * d - d) - f (p + 2 * d)) := by
  have h3 : ¬ (p + 2 * d) / d % 2 = 0 := by rw [Nat.add_mul_div_right p 2 hd]; omega
  have h1' : ¬ p / d % 2 = 0 := by omega
  unfold lvl
  rw [if_pos h2, if_neg h1', if_neg h3]

theorem lvl2_01 (f : ℕ → Z) (d p : ℕ) (h1 : p / d % 2 = 0) (h2 : p / (2 * d) % 2 = 1) :
    lvl (2 * d) (lvl d f) p = (f (p - 2 * d) + f (p - 2 * d + d)) - (f p + f (p + d)) := by
  have h4 : p / (2 * d) = p / d / 2 := by rw [Nat.mul_comm 2 d, Nat.div_div_eq_div_mul]
  rw [h4] at h2
  have h3 : (p - 2 * d) / d % 2 = 0 := by
    have := Nat.sub_mul_div p d 2
    rw [Nat.mul_comm d 2] at this
    rw [this]; generalize p / d = m at *; omega
  have h2' : ¬ p / (2 * d) % 2 = 0 := by rw [h4]; omega
  unfold lvl
  rw [if_neg h2', if_pos h1, if_pos h3]

theorem lvl2_11 (f : ℕ → Z) (d p : ℕ) (h1 : p / d % 2 = 1) (h2 : p / (2 * d) % 2 = 1) :
    lvl (2 * d) (lvl d f) p = (f (p - 2 * d - d) - f (p - 2 * d)) - (f (p - d) - f p) := by
  have h4 : p / (2 * d) = p / d / 2 := by rw [Nat.mul_comm 2 d, Nat.div_div_eq_div_mul]
  rw [h4] at h2
  have h3 : ¬ (p - 2 * d) / d % 2 = 0 := by
    have := Nat.sub_mul_div p d 2
    rw [Nat.mul_comm d 2] at this
    rw [this]; generalize p / d = m at *; omega
  have h2' : ¬ p / (2 * d) % 2 = 0 := by rw [h4]; omega
  have h1' : ¬ p / d % 2 = 0 := by omega
  unfold lvl
  rw [if_neg h2', if_neg h1', if_neg h3]

end RS
