/-
  The support envelope (C08): characterisation of `supports`, agreement of the default-rate rule
  with the dedicated rates, agreement of the constructors and `reset` with `supports`,
  index safety of every supported configuration, downward closure and the staircase `capOf`.
-/
import RSVerif.Proofs.EnvelopeAux

namespace RS

/-! ### unfolding the Boolean predicates -/

theorem supportsHigh_eq {k r : Nat} :
    supportsHigh k r = true ↔ 0 < k ∧ 0 < r ∧ k < 65536 ∧ r < 65536 ∧ npow2 r + k ≤ 65536 := by
  simp only [supportsHigh, Bool.and_eq_true, decide_eq_true_eq, gt_iff_lt, and_assoc]

theorem supportsLow_eq {k r : Nat} :
    supportsLow k r = true ↔ 0 < k ∧ 0 < r ∧ k < 65536 ∧ r < 65536 ∧ npow2 k + r ≤ 65536 := by
  simp only [supportsLow, Bool.and_eq_true, decide_eq_true_eq, gt_iff_lt, and_assoc]

/-- the arithmetic condition under which the default rule accepts -/
def defaultCond (k r : Nat) : Prop :=
  k ≤ 65536 ∧ r ≤ 65536 ∧ 0 < k ∧ 0 < r ∧ min (npow2 k) (npow2 r) + max k r ≤ 65536

theorem useHighRate_of_not {k r : Nat} (h : ¬ defaultCond k r) :
    useHighRate k r = .error (.unsupportedShardCount k r) := by
  unfold defaultCond at h
  unfold useHighRate
  by_cases h1 : k > 65536 ∨ r > 65536
  · rw [if_pos h1]
  · rw [if_neg h1]; dsimp only
    rw [if_pos (by omega)]

theorem useHighRate_of {k r : Nat} (h : defaultCond k r) :
    useHighRate k r =
      .ok (decide (npow2 k > npow2 r) || (decide (npow2 k = npow2 r) && decide (k ≤ r))) := by
  unfold defaultCond at h
  unfold useHighRate
  rw [if_neg (by omega)]; dsimp only
  rw [if_neg (by omega)]
  by_cases h1 : npow2 k < npow2 r
  · rw [if_pos h1]
    have h2 : ¬ npow2 k > npow2 r := by omega
    have h3 : ¬ npow2 k = npow2 r := by omega
    simp [h2, h3]
  · rw [if_neg h1]
    by_cases h2 : npow2 k > npow2 r
    · rw [if_pos h2]; simp [h2]
    · rw [if_neg h2]
      have h3 : npow2 k = npow2 r := by omega
      simp [h3]

theorem useHighRate_error {k r : Nat} {e : Err} (h : useHighRate k r = .error e) :
    e = .unsupportedShardCount k r := by
  by_cases hc : defaultCond k r
  · rw [useHighRate_of hc] at h; cases h
  · rw [useHighRate_of_not hc] at h; cases h; rfl

theorem supportsDefault_eq {k r : Nat} :
    supportsDefault k r = true ↔
      k ≤ 65536 ∧ r ≤ 65536 ∧ 0 < k ∧ 0 < r ∧ min (npow2 k) (npow2 r) + max k r ≤ 65536 := by
  show _ ↔ defaultCond k r
  unfold supportsDefault
  by_cases hc : defaultCond k r
  · rw [useHighRate_of hc]; simp [hc]
  · rw [useHighRate_of_not hc]; simp [hc]

/-! ### A. envelope characterisations -/

theorem supportsHigh_iff {k r : Nat} :
    supportsHigh k r = true ↔
      1 ≤ k ∧ 1 ≤ r ∧ ∃ n, n ≤ 16 ∧ r ≤ 2 ^ n ∧ k ≤ 65536 - 2 ^ n := by
  rw [supportsHigh_eq]
  constructor
  · rintro ⟨hk, hr, hk', hr', h⟩
    obtain ⟨e, he, heq, hle, _⟩ := npow2_eq_pow (n := r) (by omega)
    exact ⟨hk, hr, e, he, hle, by omega⟩
  · rintro ⟨hk, hr, n, hn, h1, h2⟩
    have hp : 0 < 2 ^ n := Nat.two_pow_pos n
    have := npow2_le_pow hn h1
    omega

example : supportsHigh 61440 4096 = true ∧ supportsHigh 61441 4096 = false
    ∧ supportsHigh 4096 61440 = false := by decide

theorem supportsLow_iff {k r : Nat} :
    supportsLow k r = true ↔
      1 ≤ k ∧ 1 ≤ r ∧ ∃ n, n ≤ 16 ∧ k ≤ 2 ^ n ∧ r ≤ 65536 - 2 ^ n := by
  rw [supportsLow_eq]
  constructor
  · rintro ⟨hk, hr, hk', hr', h⟩
    obtain ⟨e, he, heq, hle, _⟩ := npow2_eq_pow (n := k) (by omega)
    exact ⟨hk, hr, e, he, hle, by omega⟩
  · rintro ⟨hk, hr, n, hn, h1, h2⟩
    have hp : 0 < 2 ^ n := Nat.two_pow_pos n
    have := npow2_le_pow hn h1
    omega

example : supportsLow 4096 61440 = true ∧ supportsLow 4097 61440 = false
    ∧ supportsLow 61440 4096 = false := by decide

/-- the default rule accepts exactly what one of the dedicated rates accepts -/
theorem supportsDefault_eq_or (k r : Nat) :
    supportsDefault k r = (supportsHigh k r || supportsLow k r) := by
  rw [Bool.eq_iff_iff, Bool.or_eq_true, supportsDefault_eq, supportsHigh_eq, supportsLow_eq]
  constructor
  · rintro ⟨hk, hr, hk0, hr0, h⟩
    have := le_npow2 hk; have := le_npow2 hr
    have := npow2_pos hk; have := npow2_pos hr
    omega
  · rintro (⟨hk0, hr0, hk, hr, h⟩ | ⟨hk0, hr0, hk, hr, h⟩)
    · have := le_npow2 (n := r) (by omega)
      have := npow2_le_32768 (n := r) (by omega) (by omega)
      rcases Nat.lt_or_ge k r with hlt | hge
      · have := npow2_mono (Nat.le_of_lt hlt) (by omega); omega
      · omega
    · have := le_npow2 (n := k) (by omega)
      have := npow2_le_32768 (n := k) (by omega) (by omega)
      rcases Nat.lt_or_ge r k with hlt | hge
      · have := npow2_mono (Nat.le_of_lt hlt) (by omega); omega
      · omega

theorem supportsDefault_iff {k r : Nat} :
    supportsDefault k r = true ↔
      1 ≤ k ∧ 1 ≤ r ∧ ∃ n, n ≤ 16 ∧
        ((k ≤ 2 ^ n ∧ r ≤ 65536 - 2 ^ n) ∨ (r ≤ 2 ^ n ∧ k ≤ 65536 - 2 ^ n)) := by
  rw [supportsDefault_eq_or, Bool.or_eq_true, supportsHigh_iff, supportsLow_iff]
  constructor
  · rintro (⟨hk, hr, n, hn, h⟩ | ⟨hk, hr, n, hn, h⟩)
    · exact ⟨hk, hr, n, hn, Or.inr h⟩
    · exact ⟨hk, hr, n, hn, Or.inl h⟩
  · rintro ⟨hk, hr, n, hn, h | h⟩
    · exact Or.inr ⟨hk, hr, n, hn, h⟩
    · exact Or.inl ⟨hk, hr, n, hn, h⟩

example : supportsDefault 61440 4096 = true ∧ supportsDefault 61441 4096 = false
    ∧ supportsDefault 4096 61440 = true ∧ supportsDefault 4096 61441 = false
    ∧ supportsDefault 32768 32768 = true ∧ supportsDefault 32769 32768 = false := by decide

/-! ### B. the default rule -/

theorem rate_rule {k r : Nat} {b : Bool} (h : useHighRate k r = .ok b) :
    b = (decide (npow2 k > npow2 r) || (decide (npow2 k = npow2 r) && decide (k ≤ r))) := by
  by_cases hc : defaultCond k r
  · rw [useHighRate_of hc] at h; cases h; rfl
  · rw [useHighRate_of_not hc] at h; cases h

theorem useHighRate_ok_supportsDefault {k r : Nat} {b : Bool} (h : useHighRate k r = .ok b) :
    supportsDefault k r = true := by
  unfold supportsDefault; rw [h]

theorem default_sub_dedicated_high {k r : Nat} (h : useHighRate k r = .ok true) :
    supportsHigh k r = true := by
  have hd := supportsDefault_eq.mp (useHighRate_ok_supportsDefault h)
  have hb := rate_rule h
  obtain ⟨hk, hr, hk0, hr0, hs⟩ := hd
  have := le_npow2 hk; have := le_npow2 hr
  have := npow2_pos hk; have := npow2_pos hr
  rw [supportsHigh_eq]
  have hb' : npow2 k > npow2 r ∨ (npow2 k = npow2 r ∧ k ≤ r) := by
    simpa using hb.symm
  omega

theorem default_sub_dedicated_low {k r : Nat} (h : useHighRate k r = .ok false) :
    supportsLow k r = true := by
  have hd := supportsDefault_eq.mp (useHighRate_ok_supportsDefault h)
  have hb := rate_rule h
  obtain ⟨hk, hr, hk0, hr0, hs⟩ := hd
  have := le_npow2 hk; have := le_npow2 hr
  have := npow2_pos hk; have := npow2_pos hr
  rw [supportsLow_eq]
  have hb' : ¬ npow2 k > npow2 r ∧ (npow2 k = npow2 r → ¬ k ≤ r) := by
    simpa using hb.symm
  omega

theorem useHighRate_error_iff {k r : Nat} :
    (∃ e, useHighRate k r = .error e) ↔ supportsDefault k r = false := by
  unfold supportsDefault
  cases h : useHighRate k r with
  | error e => simp
  | ok b => simp

theorem useHighRate_error_eq {k r : Nat} :
    supportsDefault k r = false ↔ useHighRate k r = .error (.unsupportedShardCount k r) := by
  constructor
  · intro h
    obtain ⟨e, he⟩ := useHighRate_error_iff.mpr h
    rw [he, useHighRate_error he]
  · intro h; exact useHighRate_error_iff.mp ⟨_, h⟩

/-! ### C. constructors and `reset` agree with `supports` -/

theorem badShardSize_false_iff {sb : Nat} : badShardSize sb = false ↔ sb ≠ 0 ∧ sb % 2 = 0 := by
  unfold badShardSize
  simp only [Bool.or_eq_false_iff, decide_eq_false_iff_not]
  omega

theorem badShardSize_true_iff {sb : Nat} : badShardSize sb = true ↔ ¬ (sb ≠ 0 ∧ sb % 2 = 0) := by
  rw [← badShardSize_false_iff]; cases badShardSize sb <;> simp

/-- `validate`: the three outcomes, each with its truthful error -/
theorem validate_cases (kind : Kind) (k r sb : Nat) :
    (supports kind k r = false ∧ validate kind k r sb = .error (.unsupportedShardCount k r))
    ∨ (supports kind k r = true ∧ badShardSize sb = true
        ∧ validate kind k r sb = .error (.invalidShardSize sb))
    ∨ (supports kind k r = true ∧ badShardSize sb = false ∧ validate kind k r sb = .ok ()) := by
  unfold validate
  cases hs : supports kind k r <;> cases hb : badShardSize sb <;> simp

theorem validate_ok_iff {kind : Kind} {k r sb : Nat} :
    validate kind k r sb = .ok () ↔ supports kind k r = true ∧ sb ≠ 0 ∧ sb % 2 = 0 := by
  rw [← badShardSize_false_iff]
  rcases validate_cases kind k r sb with ⟨h1, h2⟩ | ⟨h1, h2, h3⟩ | ⟨h1, h2, h3⟩
  · simp [h1, h2]
  · simp [h1, h2, h3]
  · simp [h1, h2, h3]

theorem validate_error_unsupported {kind : Kind} {k r sb : Nat} (h : supports kind k r = false) :
    validate kind k r sb = .error (.unsupportedShardCount k r) := by
  rcases validate_cases kind k r sb with ⟨h1, h2⟩ | ⟨h1, h2, h3⟩ | ⟨h1, h2, h3⟩
  · exact h2
  all_goals (rw [h] at h1; cases h1)

theorem validate_error_size {kind : Kind} {k r sb : Nat} (h : supports kind k r = true)
    (hb : ¬ (sb ≠ 0 ∧ sb % 2 = 0)) :
    validate kind k r sb = .error (.invalidShardSize sb) := by
  rw [← badShardSize_true_iff] at hb
  rcases validate_cases kind k r sb with ⟨h1, h2⟩ | ⟨h1, h2, h3⟩ | ⟨h1, h2, h3⟩
  · rw [h] at h1; cases h1
  · exact h3
  · rw [hb] at h2; cases h2

theorem validateRate_cases (rate : Rate) (k r sb : Nat) :
    (supportsRate rate k r = false
        ∧ validateRate rate k r sb = .error (.unsupportedShardCount k r))
    ∨ (supportsRate rate k r = true ∧ badShardSize sb = true
        ∧ validateRate rate k r sb = .error (.invalidShardSize sb))
    ∨ (supportsRate rate k r = true ∧ badShardSize sb = false
        ∧ validateRate rate k r sb = .ok ()) := by
  unfold validateRate
  cases hs : supportsRate rate k r <;> cases hb : badShardSize sb <;> simp

/-- the rate chosen for a flavour: dedicated flavours keep theirs, the default one follows the
    rule, and in every case support by the flavour is support by the chosen rate -/
theorem chooseRate_cases (kind : Kind) (k r : Nat) :
    (supports kind k r = false ∧ chooseRate kind k r = .error (.unsupportedShardCount k r)
        ∧ kind = .default)
    ∨ (∃ rate, chooseRate kind k r = .ok rate ∧ supports kind k r = supportsRate rate k r
        ∧ (kind = .high → rate = .high) ∧ (kind = .low → rate = .low)
        ∧ (kind = .default → supports kind k r = true)) := by
  cases kind with
  | high => exact Or.inr ⟨.high, rfl, rfl, fun _ => rfl, nofun, nofun⟩
  | low => exact Or.inr ⟨.low, rfl, rfl, nofun, fun _ => rfl, nofun⟩
  | default =>
    unfold chooseRate supports
    dsimp only
    cases hu : useHighRate k r with
    | error e =>
      have := useHighRate_error hu; subst this
      exact Or.inl ⟨useHighRate_error_iff.mp ⟨_, hu⟩, rfl, rfl⟩
    | ok b =>
      have hd := useHighRate_ok_supportsDefault hu
      cases b with
      | true =>
        exact Or.inr ⟨.high, rfl, by rw [hd]; exact (default_sub_dedicated_high hu).symm,
          nofun, nofun, fun _ => hd⟩
      | false =>
        exact Or.inr ⟨.low, rfl, by rw [hd]; exact (default_sub_dedicated_low hu).symm,
          nofun, nofun, fun _ => hd⟩

theorem encResetWork_cases (stale : Stale) (rate : Rate) (w : EncWork) (k r sb : Nat) :
    (supportsRate rate k r = false
        ∧ encResetWork stale rate w k r sb = .err (.unsupportedShardCount k r))
    ∨ (supportsRate rate k r = true ∧ badShardSize sb = true
        ∧ encResetWork stale rate w k r sb = .err (.invalidShardSize sb))
    ∨ (supportsRate rate k r = true ∧ badShardSize sb = false
        ∧ ∃ w', encResetWork stale rate w k r sb = .ok w') := by
  unfold encResetWork
  rcases validateRate_cases rate k r sb with ⟨h1, h2⟩ | ⟨h1, h2, h3⟩ | ⟨h1, h2, h3⟩
  · rw [h2]; exact Or.inl ⟨h1, rfl⟩
  · rw [h3]; exact Or.inr (Or.inl ⟨h1, h2, rfl⟩)
  · rw [h3]; refine Or.inr (Or.inr ⟨h1, h2, ?_⟩)
    have := badShardSize_false_iff.mp h2
    unfold EncWork.reset
    rw [if_neg (by omega)]
    exact ⟨_, rfl⟩

theorem decResetWork_cases (stale : Stale) (rate : Rate) (w : DecWork) (k r sb : Nat) :
    (supportsRate rate k r = false
        ∧ decResetWork stale rate w k r sb = .err (.unsupportedShardCount k r))
    ∨ (supportsRate rate k r = true ∧ badShardSize sb = true
        ∧ decResetWork stale rate w k r sb = .err (.invalidShardSize sb))
    ∨ (supportsRate rate k r = true ∧ badShardSize sb = false
        ∧ ∃ w', decResetWork stale rate w k r sb = .ok w') := by
  unfold decResetWork
  rcases validateRate_cases rate k r sb with ⟨h1, h2⟩ | ⟨h1, h2, h3⟩ | ⟨h1, h2, h3⟩
  · rw [h2]; exact Or.inl ⟨h1, rfl⟩
  · rw [h3]; exact Or.inr (Or.inl ⟨h1, h2, rfl⟩)
  · rw [h3]; refine Or.inr (Or.inr ⟨h1, h2, ?_⟩)
    have := badShardSize_false_iff.mp h2
    cases rate <;> (dsimp only; unfold DecWork.reset; rw [if_neg (by omega)]; exact ⟨_, rfl⟩)

/-- `Encoder.new`: the three outcomes, each with its truthful error -/
theorem Encoder.new_cases (stale : Stale) (kind : Kind) (sched : Sched) (k r sb : Nat)
    (work : Option EncWork) :
    (supports kind k r = false
        ∧ Encoder.new stale kind sched k r sb work = .err (.unsupportedShardCount k r))
    ∨ (supports kind k r = true ∧ badShardSize sb = true
        ∧ Encoder.new stale kind sched k r sb work = .err (.invalidShardSize sb))
    ∨ (supports kind k r = true ∧ badShardSize sb = false
        ∧ ∃ rate w, (kind = .high → rate = .high) ∧ (kind = .low → rate = .low)
            ∧ Encoder.new stale kind sched k r sb work
                = .ok { kind := kind, sched := sched, inner := .some rate w }) := by
  unfold Encoder.new
  rcases chooseRate_cases kind k r with ⟨h1, h2, _⟩ | ⟨rate, h2, h1, hh, hl, _⟩
  · rw [h2]; exact Or.inl ⟨h1, rfl⟩
  · rw [h2, h1]; dsimp only
    rcases encResetWork_cases stale rate (work.getD {}) k r sb with
      ⟨e1, e2⟩ | ⟨e1, e2, e3⟩ | ⟨e1, e2, w', e3⟩
    · rw [e2]; exact Or.inl ⟨e1, rfl⟩
    · rw [e3]; exact Or.inr (Or.inl ⟨e1, e2, rfl⟩)
    · rw [e3]; exact Or.inr (Or.inr ⟨e1, e2, rate, w', hh, hl, rfl⟩)

theorem Encoder.new_ok_iff {stale : Stale} {kind : Kind} {sched : Sched} {k r sb : Nat}
    {work : Option EncWork} :
    (∃ e, Encoder.new stale kind sched k r sb work = .ok e)
      ↔ supports kind k r = true ∧ sb ≠ 0 ∧ sb % 2 = 0 := by
  rw [← badShardSize_false_iff]
  rcases Encoder.new_cases stale kind sched k r sb work with
    ⟨h1, h2⟩ | ⟨h1, h2, h3⟩ | ⟨h1, h2, rate, w, _, _, h3⟩
  · simp [h1, h2]
  · simp [h1, h2, h3]
  · simp [h1, h2, h3]

theorem Encoder.new_no_panic {stale : Stale} {kind : Kind} {sched : Sched} {k r sb : Nat}
    {work : Option EncWork} :
    ∀ why, Encoder.new stale kind sched k r sb work ≠ .panic why := by
  intro why
  rcases Encoder.new_cases stale kind sched k r sb work with
    ⟨h1, h2⟩ | ⟨h1, h2, h3⟩ | ⟨h1, h2, rate, w, _, _, h3⟩
  · simp [h2]
  · simp [h3]
  · simp [h3]

/-- `Decoder.new`: the three outcomes, each with its truthful error -/
theorem Decoder.new_cases (stale : Stale) (kind : Kind) (sched : Sched) (k r sb : Nat)
    (work : Option DecWork) :
    (supports kind k r = false
        ∧ Decoder.new stale kind sched k r sb work = .err (.unsupportedShardCount k r))
    ∨ (supports kind k r = true ∧ badShardSize sb = true
        ∧ Decoder.new stale kind sched k r sb work = .err (.invalidShardSize sb))
    ∨ (supports kind k r = true ∧ badShardSize sb = false
        ∧ ∃ rate w, (kind = .high → rate = .high) ∧ (kind = .low → rate = .low)
            ∧ Decoder.new stale kind sched k r sb work
                = .ok { kind := kind, sched := sched, inner := .some rate w }) := by
  unfold Decoder.new
  rcases chooseRate_cases kind k r with ⟨h1, h2, _⟩ | ⟨rate, h2, h1, hh, hl, _⟩
  · rw [h2]; exact Or.inl ⟨h1, rfl⟩
  · rw [h2, h1]; dsimp only
    rcases decResetWork_cases stale rate (work.getD {}) k r sb with
      ⟨e1, e2⟩ | ⟨e1, e2, e3⟩ | ⟨e1, e2, w', e3⟩
    · rw [e2]; exact Or.inl ⟨e1, rfl⟩
    · rw [e3]; exact Or.inr (Or.inl ⟨e1, e2, rfl⟩)
    · rw [e3]; exact Or.inr (Or.inr ⟨e1, e2, rate, w', hh, hl, rfl⟩)

theorem Decoder.new_ok_iff {stale : Stale} {kind : Kind} {sched : Sched} {k r sb : Nat}
    {work : Option DecWork} :
    (∃ d, Decoder.new stale kind sched k r sb work = .ok d)
      ↔ supports kind k r = true ∧ sb ≠ 0 ∧ sb % 2 = 0 := by
  rw [← badShardSize_false_iff]
  rcases Decoder.new_cases stale kind sched k r sb work with
    ⟨h1, h2⟩ | ⟨h1, h2, h3⟩ | ⟨h1, h2, rate, w, _, _, h3⟩
  · simp [h1, h2]
  · simp [h1, h2, h3]
  · simp [h1, h2, h3]

theorem Decoder.new_no_panic {stale : Stale} {kind : Kind} {sched : Sched} {k r sb : Nat}
    {work : Option DecWork} :
    ∀ why, Decoder.new stale kind sched k r sb work ≠ .panic why := by
  intro why
  rcases Decoder.new_cases stale kind sched k r sb work with
    ⟨h1, h2⟩ | ⟨h1, h2, h3⟩ | ⟨h1, h2, rate, w, _, _, h3⟩
  · simp [h2]
  · simp [h3]
  · simp [h3]

/-- `Encoder.reset` on a well-formed encoder: the three outcomes, each with its truthful error;
    in the two error outcomes the encoder is unchanged -/
theorem Encoder.reset_cases (stale : Stale) (e : Encoder) (k r sb : Nat) {cur : Rate} {w : EncWork}
    (hi : e.inner = .some cur w) (hh : e.kind = .high → cur = .high)
    (hl : e.kind = .low → cur = .low) :
    (supports e.kind k r = false
        ∧ e.reset stale k r sb = (.err (.unsupportedShardCount k r), e))
    ∨ (supports e.kind k r = true ∧ badShardSize sb = true
        ∧ e.reset stale k r sb = (.err (.invalidShardSize sb), e))
    ∨ (supports e.kind k r = true ∧ badShardSize sb = false
        ∧ ∃ rate w', (e.kind = .high → rate = .high) ∧ (e.kind = .low → rate = .low)
            ∧ e.reset stale k r sb = (.ok (), { e with inner := .some rate w' })) := by
  obtain ⟨kind, sched, inner⟩ := e
  dsimp only at hi hh hl ⊢
  subst hi
  unfold Encoder.reset
  dsimp only
  cases kind with
  | default =>
    dsimp only
    rcases chooseRate_cases .default k r with ⟨h1, h2, _⟩ | ⟨rate, h2, h1, _, _, hd⟩
    · rw [h2]; exact Or.inl ⟨h1, rfl⟩
    · have hs := hd rfl
      rw [h2]; dsimp only
      cases hb : badShardSize sb with
      | true => exact Or.inr (Or.inl ⟨hs, rfl, by simp⟩)
      | false =>
        rcases encResetWork_cases stale rate w k r sb with
          ⟨e1, e2⟩ | ⟨e1, e2, e3⟩ | ⟨e1, e2, w', e3⟩
        · rw [← h1, hs] at e1; cases e1
        · rw [hb] at e2; cases e2
        · rw [e3]; exact Or.inr (Or.inr ⟨hs, rfl, rate, w', nofun, nofun, by simp⟩)
  | high =>
    have := hh rfl; subst this
    dsimp only
    rcases encResetWork_cases stale .high w k r sb with
      ⟨e1, e2⟩ | ⟨e1, e2, e3⟩ | ⟨e1, e2, w', e3⟩
    · rw [e2]; exact Or.inl ⟨e1, rfl⟩
    · rw [e3]; exact Or.inr (Or.inl ⟨e1, e2, rfl⟩)
    · rw [e3]; exact Or.inr (Or.inr ⟨e1, e2, .high, w', fun _ => rfl, nofun, rfl⟩)
  | low =>
    have := hl rfl; subst this
    dsimp only
    rcases encResetWork_cases stale .low w k r sb with
      ⟨e1, e2⟩ | ⟨e1, e2, e3⟩ | ⟨e1, e2, w', e3⟩
    · rw [e2]; exact Or.inl ⟨e1, rfl⟩
    · rw [e3]; exact Or.inr (Or.inl ⟨e1, e2, rfl⟩)
    · rw [e3]; exact Or.inr (Or.inr ⟨e1, e2, .low, w', nofun, fun _ => rfl, rfl⟩)

theorem Encoder.reset_ok_iff {stale : Stale} {e : Encoder} {k r sb : Nat} {cur : Rate} {w : EncWork}
    (hi : e.inner = .some cur w) (hh : e.kind = .high → cur = .high)
    (hl : e.kind = .low → cur = .low) :
    (e.reset stale k r sb).1 = .ok () ↔ supports e.kind k r = true ∧ sb ≠ 0 ∧ sb % 2 = 0 := by
  rw [← badShardSize_false_iff]
  rcases Encoder.reset_cases stale e k r sb hi hh hl with
    ⟨h1, h2⟩ | ⟨h1, h2, h3⟩ | ⟨h1, h2, rate, w', _, _, h3⟩
  · simp [h1, h2]
  · simp [h1, h2, h3]
  · simp [h1, h2, h3]

theorem Encoder.reset_no_panic {stale : Stale} {e : Encoder} {k r sb : Nat} {cur : Rate} {w : EncWork}
    (hi : e.inner = .some cur w) (hh : e.kind = .high → cur = .high)
    (hl : e.kind = .low → cur = .low) :
    ∀ why, (e.reset stale k r sb).1 ≠ .panic why := by
  intro why
  rcases Encoder.reset_cases stale e k r sb hi hh hl with
    ⟨h1, h2⟩ | ⟨h1, h2, h3⟩ | ⟨h1, h2, rate, w', _, _, h3⟩
  · simp [h2]
  · simp [h3]
  · simp [h3]

/-- the repaired defect D1: whatever the outcome, `reset` leaves an inner codec behind -/
theorem Encoder.reset_inner_ne_none {stale : Stale} {e : Encoder} {k r sb : Nat} {cur : Rate}
    {w : EncWork} (hi : e.inner = .some cur w) (hh : e.kind = .high → cur = .high)
    (hl : e.kind = .low → cur = .low) :
    (e.reset stale k r sb).2.inner ≠ .none := by
  rcases Encoder.reset_cases stale e k r sb hi hh hl with
    ⟨h1, h2⟩ | ⟨h1, h2, h3⟩ | ⟨h1, h2, rate, w', _, _, h3⟩
  · simp [h2, hi]
  · simp [h3, hi]
  · simp [h3]

/-- a failed `reset` leaves the encoder exactly as it was -/
theorem Encoder.reset_unchanged_of_not_ok {stale : Stale} {e : Encoder} {k r sb : Nat} {cur : Rate}
    {w : EncWork} (hi : e.inner = .some cur w) (hh : e.kind = .high → cur = .high)
    (hl : e.kind = .low → cur = .low) (hne : (e.reset stale k r sb).1 ≠ .ok ()) :
    (e.reset stale k r sb).2 = e := by
  rcases Encoder.reset_cases stale e k r sb hi hh hl with
    ⟨h1, h2⟩ | ⟨h1, h2, h3⟩ | ⟨h1, h2, rate, w', _, _, h3⟩
  · rw [h2]
  · rw [h3]
  · rw [h3] at hne; exact absurd rfl hne

/-- after a successful `reset` the hypotheses of the `reset` theorems hold again -/
theorem Encoder.reset_wf {stale : Stale} {e : Encoder} {k r sb : Nat} {cur : Rate}
    {w : EncWork} (hi : e.inner = .some cur w) (hh : e.kind = .high → cur = .high)
    (hl : e.kind = .low → cur = .low) :
    ∃ cur' w', (e.reset stale k r sb).2.inner = .some cur' w'
      ∧ ((e.reset stale k r sb).2.kind = .high → cur' = .high)
      ∧ ((e.reset stale k r sb).2.kind = .low → cur' = .low) := by
  rcases Encoder.reset_cases stale e k r sb hi hh hl with
    ⟨h1, h2⟩ | ⟨h1, h2, h3⟩ | ⟨h1, h2, rate, w', hh', hl', h3⟩
  · rw [h2]; exact ⟨cur, w, hi, hh, hl⟩
  · rw [h3]; exact ⟨cur, w, hi, hh, hl⟩
  · rw [h3]; exact ⟨rate, w', rfl, hh', hl'⟩

/-- every encoder made by `Encoder.new` satisfies the hypotheses of the `reset` theorems -/
theorem Encoder.new_wf {stale : Stale} {kind : Kind} {sched : Sched} {k r sb : Nat}
    {work : Option EncWork} {e : Encoder} (h : Encoder.new stale kind sched k r sb work = .ok e) :
    ∃ cur w, e.inner = .some cur w ∧ (e.kind = .high → cur = .high)
      ∧ (e.kind = .low → cur = .low) := by
  rcases Encoder.new_cases stale kind sched k r sb work with
    ⟨h1, h2⟩ | ⟨h1, h2, h3⟩ | ⟨h1, h2, rate, w, hh, hl, h3⟩
  · rw [h2] at h; cases h
  · rw [h3] at h; cases h
  · rw [h3] at h; cases h; exact ⟨rate, w, rfl, hh, hl⟩

/-- the hypotheses are satisfiable: a default-rate encoder for (3, 2) exists, a `reset` to the
    edge of the envelope succeeds and a `reset` just outside fails and leaves it intact -/
example (stale : Stale) :
    ∃ e cur w, Encoder.new stale .default .twoLayer 3 2 64 none = .ok e
      ∧ e.inner = .some cur w ∧ (e.kind = .high → cur = .high) ∧ (e.kind = .low → cur = .low)
      ∧ (e.reset stale 61440 4096 2).1 = .ok ()
      ∧ (e.reset stale 61441 4096 2).1 ≠ .ok ()
      ∧ (e.reset stale 61441 4096 2).2 = e := by
  obtain ⟨e, he⟩ := (Encoder.new_ok_iff (stale := stale) (kind := .default) (sched := .twoLayer)
    (k := 3) (r := 2) (sb := 64) (work := none)).mpr (by decide)
  obtain ⟨cur, w, hi, hh, hl⟩ := Encoder.new_wf he
  have hk : e.kind = .default := by
    rcases Encoder.new_cases stale .default .twoLayer 3 2 64 none with
      ⟨h1, h2⟩ | ⟨h1, h2, h3⟩ | ⟨h1, h2, rate, w, _, _, h3⟩
    · rw [h2] at he; cases he
    · rw [h3] at he; cases he
    · rw [h3] at he; cases he; rfl
  have h1 : (e.reset stale 61440 4096 2).1 = .ok () :=
    (Encoder.reset_ok_iff hi hh hl).mpr (by rw [hk]; decide)
  have h2 : (e.reset stale 61441 4096 2).1 ≠ .ok () := fun h =>
    absurd ((Encoder.reset_ok_iff hi hh hl).mp h).1 (by rw [hk]; decide)
  exact ⟨e, cur, w, he, hi, hh, hl, h1, h2, Encoder.reset_unchanged_of_not_ok hi hh hl h2⟩

/-- `Decoder.reset` on a well-formed decoder: the three outcomes, each with its truthful error;
    in the two error outcomes the decoder is unchanged -/
theorem Decoder.reset_cases (stale : Stale) (e : Decoder) (k r sb : Nat) {cur : Rate} {w : DecWork}
    (hi : e.inner = .some cur w) (hh : e.kind = .high → cur = .high)
    (hl : e.kind = .low → cur = .low) :
    (supports e.kind k r = false
        ∧ e.reset stale k r sb = (.err (.unsupportedShardCount k r), e))
    ∨ (supports e.kind k r = true ∧ badShardSize sb = true
        ∧ e.reset stale k r sb = (.err (.invalidShardSize sb), e))
    ∨ (supports e.kind k r = true ∧ badShardSize sb = false
        ∧ ∃ rate w', (e.kind = .high → rate = .high) ∧ (e.kind = .low → rate = .low)
            ∧ e.reset stale k r sb = (.ok (), { e with inner := .some rate w' })) := by
  obtain ⟨kind, sched, inner⟩ := e
  dsimp only at hi hh hl ⊢
  subst hi
  unfold Decoder.reset
  dsimp only
  cases kind with
  | default =>
    dsimp only
    rcases chooseRate_cases .default k r with ⟨h1, h2, _⟩ | ⟨rate, h2, h1, _, _, hd⟩
    · rw [h2]; exact Or.inl ⟨h1, rfl⟩
    · have hs := hd rfl
      rw [h2]; dsimp only
      cases hb : badShardSize sb with
      | true => exact Or.inr (Or.inl ⟨hs, rfl, by simp⟩)
      | false =>
        rcases decResetWork_cases stale rate w k r sb with
          ⟨e1, e2⟩ | ⟨e1, e2, e3⟩ | ⟨e1, e2, w', e3⟩
        · rw [← h1, hs] at e1; cases e1
        · rw [hb] at e2; cases e2
        · rw [e3]; exact Or.inr (Or.inr ⟨hs, rfl, rate, w', nofun, nofun, by simp⟩)
  | high =>
    have := hh rfl; subst this
    dsimp only
    rcases decResetWork_cases stale .high w k r sb with
      ⟨e1, e2⟩ | ⟨e1, e2, e3⟩ | ⟨e1, e2, w', e3⟩
    · rw [e2]; exact Or.inl ⟨e1, rfl⟩
    · rw [e3]; exact Or.inr (Or.inl ⟨e1, e2, rfl⟩)
    · rw [e3]; exact Or.inr (Or.inr ⟨e1, e2, .high, w', fun _ => rfl, nofun, rfl⟩)
  | low =>
    have := hl rfl; subst this
    dsimp only
    rcases decResetWork_cases stale .low w k r sb with
      ⟨e1, e2⟩ | ⟨e1, e2, e3⟩ | ⟨e1, e2, w', e3⟩
    · rw [e2]; exact Or.inl ⟨e1, rfl⟩
    · rw [e3]; exact Or.inr (Or.inl ⟨e1, e2, rfl⟩)
    · rw [e3]; exact Or.inr (Or.inr ⟨e1, e2, .low, w', nofun, fun _ => rfl, rfl⟩)

theorem Decoder.reset_ok_iff {stale : Stale} {e : Decoder} {k r sb : Nat} {cur : Rate} {w : DecWork}
    (hi : e.inner = .some cur w) (hh : e.kind = .high → cur = .high)
    (hl : e.kind = .low → cur = .low) :
    (e.reset stale k r sb).1 = .ok () ↔ supports e.kind k r = true ∧ sb ≠ 0 ∧ sb % 2 = 0 := by
  rw [← badShardSize_false_iff]
  rcases Decoder.reset_cases stale e k r sb hi hh hl with
    ⟨h1, h2⟩ | ⟨h1, h2, h3⟩ | ⟨h1, h2, rate, w', _, _, h3⟩
  · simp [h1, h2]
  · simp [h1, h2, h3]
  · simp [h1, h2, h3]

theorem Decoder.reset_no_panic {stale : Stale} {e : Decoder} {k r sb : Nat} {cur : Rate} {w : DecWork}
    (hi : e.inner = .some cur w) (hh : e.kind = .high → cur = .high)
    (hl : e.kind = .low → cur = .low) :
    ∀ why, (e.reset stale k r sb).1 ≠ .panic why := by
  intro why
  rcases Decoder.reset_cases stale e k r sb hi hh hl with
    ⟨h1, h2⟩ | ⟨h1, h2, h3⟩ | ⟨h1, h2, rate, w', _, _, h3⟩
  · simp [h2]
  · simp [h3]
  · simp [h3]

/-- the repaired defect D1: whatever the outcome, `reset` leaves an inner codec behind -/
theorem Decoder.reset_inner_ne_none {stale : Stale} {e : Decoder} {k r sb : Nat} {cur : Rate}
    {w : DecWork} (hi : e.inner = .some cur w) (hh : e.kind = .high → cur = .high)
    (hl : e.kind = .low → cur = .low) :
    (e.reset stale k r sb).2.inner ≠ .none := by
  rcases Decoder.reset_cases stale e k r sb hi hh hl with
    ⟨h1, h2⟩ | ⟨h1, h2, h3⟩ | ⟨h1, h2, rate, w', _, _, h3⟩
  · simp [h2, hi]
  · simp [h3, hi]
  · simp [h3]

/-- a failed `reset` leaves the decoder exactly as it was -/
theorem Decoder.reset_unchanged_of_not_ok {stale : Stale} {e : Decoder} {k r sb : Nat} {cur : Rate}
    {w : DecWork} (hi : e.inner = .some cur w) (hh : e.kind = .high → cur = .high)
    (hl : e.kind = .low → cur = .low) (hne : (e.reset stale k r sb).1 ≠ .ok ()) :
    (e.reset stale k r sb).2 = e := by
  rcases Decoder.reset_cases stale e k r sb hi hh hl with
    ⟨h1, h2⟩ | ⟨h1, h2, h3⟩ | ⟨h1, h2, rate, w', _, _, h3⟩
  · rw [h2]
  · rw [h3]
  · rw [h3] at hne; exact absurd rfl hne

/-- after a successful `reset` the hypotheses of the `reset` theorems hold again -/
theorem Decoder.reset_wf {stale : Stale} {e : Decoder} {k r sb : Nat} {cur : Rate}
    {w : DecWork} (hi : e.inner = .some cur w) (hh : e.kind = .high → cur = .high)
    (hl : e.kind = .low → cur = .low) :
    ∃ cur' w', (e.reset stale k r sb).2.inner = .some cur' w'
      ∧ ((e.reset stale k r sb).2.kind = .high → cur' = .high)
      ∧ ((e.reset stale k r sb).2.kind = .low → cur' = .low) := by
  rcases Decoder.reset_cases stale e k r sb hi hh hl with
    ⟨h1, h2⟩ | ⟨h1, h2, h3⟩ | ⟨h1, h2, rate, w', hh', hl', h3⟩
  · rw [h2]; exact ⟨cur, w, hi, hh, hl⟩
  · rw [h3]; exact ⟨cur, w, hi, hh, hl⟩
  · rw [h3]; exact ⟨rate, w', rfl, hh', hl'⟩

/-- every decoder made by `Decoder.new` satisfies the hypotheses of the `reset` theorems -/
theorem Decoder.new_wf {stale : Stale} {kind : Kind} {sched : Sched} {k r sb : Nat}
    {work : Option DecWork} {e : Decoder} (h : Decoder.new stale kind sched k r sb work = .ok e) :
    ∃ cur w, e.inner = .some cur w ∧ (e.kind = .high → cur = .high)
      ∧ (e.kind = .low → cur = .low) := by
  rcases Decoder.new_cases stale kind sched k r sb work with
    ⟨h1, h2⟩ | ⟨h1, h2, h3⟩ | ⟨h1, h2, rate, w, hh, hl, h3⟩
  · rw [h2] at h; cases h
  · rw [h3] at h; cases h
  · rw [h3] at h; cases h; exact ⟨rate, w, rfl, hh, hl⟩

/-- the hypotheses are satisfiable: a default-rate decoder for (3, 2) exists, a `reset` to the
    edge of the envelope succeeds and a `reset` just outside fails and leaves it intact -/
example (stale : Stale) :
    ∃ e cur w, Decoder.new stale .default .twoLayer 3 2 64 none = .ok e
      ∧ e.inner = .some cur w ∧ (e.kind = .high → cur = .high) ∧ (e.kind = .low → cur = .low)
      ∧ (e.reset stale 61440 4096 2).1 = .ok ()
      ∧ (e.reset stale 61441 4096 2).1 ≠ .ok ()
      ∧ (e.reset stale 61441 4096 2).2 = e := by
  obtain ⟨e, he⟩ := (Decoder.new_ok_iff (stale := stale) (kind := .default) (sched := .twoLayer)
    (k := 3) (r := 2) (sb := 64) (work := none)).mpr (by decide)
  obtain ⟨cur, w, hi, hh, hl⟩ := Decoder.new_wf he
  have hk : e.kind = .default := by
    rcases Decoder.new_cases stale .default .twoLayer 3 2 64 none with
      ⟨h1, h2⟩ | ⟨h1, h2, h3⟩ | ⟨h1, h2, rate, w, _, _, h3⟩
    · rw [h2] at he; cases he
    · rw [h3] at he; cases he
    · rw [h3] at he; cases he; rfl
  have h1 : (e.reset stale 61440 4096 2).1 = .ok () :=
    (Decoder.reset_ok_iff hi hh hl).mpr (by rw [hk]; decide)
  have h2 : (e.reset stale 61441 4096 2).1 ≠ .ok () := fun h =>
    absurd ((Decoder.reset_ok_iff hi hh hl).mp h).1 (by rw [hk]; decide)
  exact ⟨e, cur, w, he, hi, hh, hl, h1, h2, Decoder.reset_unchanged_of_not_ok hi hh hl h2⟩

/-! ### E. index safety of every supported configuration -/

theorem high_geometry {k r : Nat} (h : supportsHigh k r = true) :
    let c := npow2 r
    2 * c ≤ 65536 ∧ k ≤ highEncWorkCount k r ∧ highEncWorkCount k r ≤ 65536
      ∧ c ∣ highEncWorkCount k r
      ∧ (∀ j, j * c < k → (j + 2) * c ≤ 65536 ∧ (j + 1) * c ≤ highEncWorkCount k r)
      ∧ c + k ≤ highDecWorkCount k r ∧ highDecWorkCount k r ≤ 65536 := by
  obtain ⟨hk0, hr0, hk, hr, hs⟩ := supportsHigh_eq.mp h
  have hd1 := le_npow2 (n := npow2 r + k) hs
  have hd2 := npow2_le_65536 (n := npow2 r + k) hs
  show 2 * npow2 r ≤ 65536 ∧ k ≤ highEncWorkCount k r ∧ highEncWorkCount k r ≤ 65536
      ∧ npow2 r ∣ highEncWorkCount k r
      ∧ (∀ j, j * npow2 r < k → (j + 2) * npow2 r ≤ 65536 ∧ (j + 1) * npow2 r ≤ highEncWorkCount k r)
      ∧ npow2 r + k ≤ highDecWorkCount k r ∧ highDecWorkCount k r ≤ 65536
  unfold highDecWorkCount highEncWorkCount nextMultipleOf
  refine ⟨?_, ?_, ?_, ?_, ?_, hd1, hd2⟩
  · have := npow2_le_32768 (n := r) (by omega) (by omega); omega
  · split <;> omega
  · split <;> omega
  · apply Nat.dvd_of_mod_eq_zero
    rcases npow2_lit r (by omega) with c | c | c | c | c | c | c | c | c | c | c | c | c | c | c
      | c | c <;> (rw [c]; split <;> omega)
  · intro j hj
    rcases npow2_lit r (by omega) with c | c | c | c | c | c | c | c | c | c | c | c | c | c | c
      | c | c <;> (rw [c] at hj hs ⊢; split <;> omega)

theorem low_geometry {k r : Nat} (h : supportsLow k r = true) :
    let c := npow2 k
    2 * c ≤ 65536 ∧ r ≤ lowEncWorkCount k r ∧ c ≤ lowEncWorkCount k r
      ∧ lowEncWorkCount k r ≤ 65536
      ∧ (∀ j, j * c < r → (j + 2) * c ≤ 65536 ∧ (j + 1) * c ≤ lowEncWorkCount k r)
      ∧ c + r ≤ lowDecWorkCount k r ∧ lowDecWorkCount k r ≤ 65536 := by
  obtain ⟨hk0, hr0, hk, hr, hs⟩ := supportsLow_eq.mp h
  have hd1 := le_npow2 (n := npow2 k + r) hs
  have hd2 := npow2_le_65536 (n := npow2 k + r) hs
  show 2 * npow2 k ≤ 65536 ∧ r ≤ lowEncWorkCount k r ∧ npow2 k ≤ lowEncWorkCount k r
      ∧ lowEncWorkCount k r ≤ 65536
      ∧ (∀ j, j * npow2 k < r → (j + 2) * npow2 k ≤ 65536 ∧ (j + 1) * npow2 k ≤ lowEncWorkCount k r)
      ∧ npow2 k + r ≤ lowDecWorkCount k r ∧ lowDecWorkCount k r ≤ 65536
  unfold lowDecWorkCount lowEncWorkCount nextMultipleOf
  refine ⟨?_, ?_, ?_, ?_, ?_, hd1, hd2⟩
  · have := npow2_le_32768 (n := k) (by omega) (by omega); omega
  · split <;> omega
  · rcases npow2_lit k (by omega) with c | c | c | c | c | c | c | c | c | c | c | c | c | c | c
      | c | c <;> (rw [c]; split <;> omega)
  · split <;> omega
  · intro j hj
    rcases npow2_lit k (by omega) with c | c | c | c | c | c | c | c | c | c | c | c | c | c | c
      | c | c <;> (rw [c] at hj hs ⊢; split <;> omega)

/-! ### D. downward closure and the staircase -/

theorem supportsHigh_mono {k r r' : Nat} (h : supportsHigh k r = true) (h1 : 1 ≤ r')
    (h2 : r' ≤ r) : supportsHigh k r' = true := by
  rw [supportsHigh_eq] at h ⊢
  have := npow2_mono h2 (by omega)
  omega

theorem supportsLow_mono {k r r' : Nat} (h : supportsLow k r = true) (h1 : 1 ≤ r')
    (h2 : r' ≤ r) : supportsLow k r' = true := by
  rw [supportsLow_eq] at h ⊢
  omega

theorem supports_mono {kind : Kind} {k r r' : Nat} (h : supports kind k r = true) (h1 : 1 ≤ r')
    (h2 : r' ≤ r) : supports kind k r' = true := by
  cases kind with
  | high => exact supportsHigh_mono h h1 h2
  | low => exact supportsLow_mono h h1 h2
  | default =>
    unfold supports at h ⊢
    dsimp only at h ⊢
    rw [supportsDefault_eq_or, Bool.or_eq_true] at h ⊢
    rcases h with h | h
    · exact Or.inl (supportsHigh_mono h h1 h2)
    · exact Or.inr (supportsLow_mono h h1 h2)

/-- every supported configuration has `1 ≤ k, r ≤ 65535` -/
theorem supports_bounds {kind : Kind} {k r : Nat} (h : supports kind k r = true) :
    1 ≤ k ∧ k ≤ 65535 ∧ 1 ≤ r ∧ r ≤ 65535 := by
  have key : supportsHigh k r = true ∨ supportsLow k r = true := by
    cases kind with
    | high => exact Or.inl h
    | low => exact Or.inr h
    | default =>
      unfold supports at h
      dsimp only at h
      rwa [supportsDefault_eq_or, Bool.or_eq_true] at h
  rcases key with h | h
  · have := supportsHigh_eq.mp h; omega
  · have := supportsLow_eq.mp h; omega

/-- invariant of the binary search -/
theorem capSearch_spec (kind : Kind) (k : Nat) :
    ∀ (f lo hi : Nat), lo ≤ hi → hi - lo < 2 ^ f →
      (lo = 0 ∨ supports kind k lo = true) → (∀ r, hi < r → supports kind k r = false) →
      (capSearch kind k f lo hi = 0 ∨ supports kind k (capSearch kind k f lo hi) = true)
        ∧ (∀ r, capSearch kind k f lo hi < r → supports kind k r = false) := by
  intro f
  induction f with
  | zero =>
    intro lo hi hle hlt hlo hhi
    have : lo = hi := by simp at hlt; omega
    subst this
    unfold capSearch
    exact ⟨hlo, hhi⟩
  | succ f ih =>
    intro lo hi hle hlt hlo hhi
    rw [Nat.pow_succ] at hlt
    unfold capSearch
    by_cases hc : lo ≥ hi
    · rw [if_pos hc]
      have : lo = hi := by omega
      subst this
      exact ⟨hlo, hhi⟩
    · rw [if_neg hc]
      dsimp only
      cases hm : supports kind k ((lo + hi + 1) / 2) with
      | true =>
        rw [if_pos rfl]
        exact ih _ _ (by omega) (by omega) (Or.inr hm) hhi
      | false =>
        rw [if_neg (by simp)]
        refine ih _ _ (by omega) (by omega) hlo ?_
        intro r hr
        cases hs : supports kind k r with
        | false => rfl
        | true =>
          have := supports_mono (r' := (lo + hi + 1) / 2) hs (by omega) (by omega)
          rw [hm] at this; cases this

/-- the supported recovery counts of a row are exactly `1 … capOf kind k` -/
theorem capOf_spec {kind : Kind} {k r : Nat} :
    supports kind k r = true ↔ 1 ≤ r ∧ r ≤ capOf kind k := by
  have hsp := capSearch_spec kind k 20 0 65537 (by omega) (by decide) (Or.inl rfl)
    (fun r hr => by
      cases hs : supports kind k r with
      | false => rfl
      | true => have := supports_bounds hs; omega)
  unfold capOf
  obtain ⟨h1, h2⟩ := hsp
  constructor
  · intro hs
    refine ⟨(supports_bounds hs).2.2.1, ?_⟩
    rcases Nat.lt_or_ge (capSearch kind k 20 0 65537) r with hlt | hge
    · rw [h2 r hlt] at hs; cases hs
    · exact hge
  · rintro ⟨hr1, hr2⟩
    rcases h1 with h0 | hs
    · omega
    · exact supports_mono hs hr1 hr2

example : capOf .default 61440 = 4096 ∧ capOf .high 61440 = 4096 ∧ capOf .low 61440 = 0
    ∧ capOf .default 4096 = 61440 ∧ capOf .default 32768 = 32768 ∧ capOf .default 32769 = 16384
    ∧ capOf .default 65535 = 1 ∧ capOf .default 65536 = 0 := by decide

#print axioms supportsHigh_iff
#print axioms supportsLow_iff
#print axioms supportsDefault_iff
#print axioms supportsDefault_eq_or
#print axioms rate_rule
#print axioms default_sub_dedicated_high
#print axioms default_sub_dedicated_low
#print axioms useHighRate_error_iff
#print axioms useHighRate_error
#print axioms useHighRate_error_eq
#print axioms validate_ok_iff
#print axioms validate_cases
#print axioms validate_error_unsupported
#print axioms validate_error_size
#print axioms Encoder.new_cases
#print axioms Encoder.new_ok_iff
#print axioms Encoder.new_no_panic
#print axioms Encoder.new_wf
#print axioms Decoder.new_cases
#print axioms Decoder.new_ok_iff
#print axioms Decoder.new_no_panic
#print axioms Decoder.new_wf
#print axioms Encoder.reset_cases
#print axioms Encoder.reset_ok_iff
#print axioms Encoder.reset_no_panic
#print axioms Encoder.reset_inner_ne_none
#print axioms Encoder.reset_unchanged_of_not_ok
#print axioms Encoder.reset_wf
#print axioms Decoder.reset_cases
#print axioms Decoder.reset_ok_iff
#print axioms Decoder.reset_no_panic
#print axioms Decoder.reset_inner_ne_none
#print axioms Decoder.reset_unchanged_of_not_ok
#print axioms Decoder.reset_wf
#print axioms high_geometry
#print axioms low_geometry
#print axioms supports_mono
#print axioms supports_bounds
#print axioms capSearch_spec
#print axioms capOf_spec

end RS
