/-
  mod-65535 arithmetic (`add_mod`, `sub_mod`) and truncation independence of the Walsh
  transform used by `eval_poly`.

  * `addMod_spec`, `subMod_spec` : on representatives in `[0, 65535]` (0 and 65535 both stand
    for zero) `addMod` / `subMod` are addition / subtraction of ℤ/65535.
  * `fwht_trunc_indep` : if all entries at or beyond `t` are zero, `fwht a t = fwht a 65536`.
  * `evalPoly_trunc_indep`, `evalPoly_trunc_mono` : hence `evalPolyWith` does not depend on the
    truncation argument once it covers all non-zero entries.
  Core Lean only.
-/
import RSVerif.Model.Engine

namespace RS

/-! ### `add_mod` / `sub_mod` -/

theorem addMod_spec (x y : Nat) (hx : x < 65536) (hy : y < 65536) :
    addMod x y < 65536 ∧ addMod x y % 65535 = (x + y) % 65535 := by
  unfold addMod
  simp only
  by_cases h : x + y < 65536
  · have h1 : (x + y) / 65536 = 0 := by omega
    rw [h1]; omega
  · have h1 : (x + y) / 65536 = 1 := by omega
    rw [h1]
    have h2 : (x + y + 1) % 65536 = x + y - 65535 := by omega
    rw [h2]
    omega

theorem subMod_spec (x y : Nat) (hx : x < 65536) (hy : y < 65536) :
    subMod x y < 65536 ∧ (subMod x y + y) % 65535 = x % 65535 := by
  unfold subMod
  simp only
  by_cases h : y ≤ x
  · have h0 : (x + 4294967296 - y) % 4294967296 = x - y := by omega
    rw [h0]
    have h1 : (x - y) / 65536 = 0 := by omega
    rw [h1]
    omega
  · have h0 : (x + 4294967296 - y) % 4294967296 = x + 4294967296 - y := by omega
    rw [h0]
    have h1 : (x + 4294967296 - y) / 65536 = 65535 := by omega
    rw [h1]
    have h2 : (x + 4294967296 - y + 65535) % 4294967296 = x + 65535 - y := by omega
    rw [h2]
    omega

theorem addMod_zero_zero : addMod 0 0 = 0 := by decide
theorem subMod_zero_zero : subMod 0 0 = 0 := by decide

/-! ### pointwise description of one FWHT pass -/

theorem fwhtLayer_size (d t : Nat) (a : Array Nat) : (fwhtLayer d t a).size = a.size := by
  unfold fwhtLayer; exact Array.size_ofFn

/-- the radix-4 butterfly `fwht_4`, output number `k` -/
def bfly4 (v0 v1 v2 v3 k : Nat) : Nat :=
  match k with
  | 0 => addMod (addMod v0 v1) (addMod v2 v3)
  | 1 => addMod (subMod v0 v1) (subMod v2 v3)
  | 2 => subMod (addMod v0 v1) (addMod v2 v3)
  | _ => subMod (subMod v0 v1) (subMod v2 v3)

/-- the butterfly of four zeros is zero -/
theorem bfly4_zero (k : Nat) : bfly4 0 0 0 0 k = 0 := by
  unfold bfly4
  split <;> simp only [addMod_zero_zero, subMod_zero_zero]

/-- new value of position `p` after one pass at distance `d` -/
def fwhtAt (d t : Nat) (a : Array Nat) (p : Nat) : Nat :=
  if p / (4 * d) * (4 * d) < t then
    bfly4 (a.getD (p / (4 * d) * (4 * d) + (p - p / (4 * d) * (4 * d)) % d) 0)
      (a.getD (p / (4 * d) * (4 * d) + (p - p / (4 * d) * (4 * d)) % d + d) 0)
      (a.getD (p / (4 * d) * (4 * d) + (p - p / (4 * d) * (4 * d)) % d + 2 * d) 0)
      (a.getD (p / (4 * d) * (4 * d) + (p - p / (4 * d) * (4 * d)) % d + 3 * d) 0)
      ((p - p / (4 * d) * (4 * d)) / d)
  else a.getD p 0

theorem fwhtLayer_getElem (d t : Nat) (a : Array Nat) (p : Nat) (h : p < (fwhtLayer d t a).size) :
    (fwhtLayer d t a)[p] = fwhtAt d t a p := by
  have h' : p < a.size := by rw [fwhtLayer_size] at h; exact h
  show (Array.ofFn (n := a.size) _)[p]'(by rw [Array.size_ofFn]; exact h') = _
  rw [Array.getElem_ofFn]
  rfl

theorem fwhtLayer_getD (d t : Nat) (a : Array Nat) (p : Nat) :
    (fwhtLayer d t a).getD p 0 = if p < a.size then fwhtAt d t a p else 0 := by
  by_cases h : p < a.size
  · have h' : p < (fwhtLayer d t a).size := by rw [fwhtLayer_size]; exact h
    rw [if_pos h, ← fwhtLayer_getElem d t a p h']
    simp [Array.getD, h']
  · have h' : ¬ p < (fwhtLayer d t a).size := by rw [fwhtLayer_size]; exact h
    rw [if_neg h]
    simp [Array.getD, h']

/-! ### the invariant -/

/-- every aligned block of size `d` that starts at or beyond `t` is all zero -/
def ZeroBlocks (d t : Nat) (a : Array Nat) : Prop := ∀ i, t ≤ i / d * d → a.getD i 0 = 0

/-- a position at or beyond the start `g` of a `4d`-aligned group lies in a `d`-aligned block
    starting at or beyond `g` -/
theorem group_le_block (d p j : Nat) (hd : 0 < d) (h : p / (4 * d) * (4 * d) ≤ j) :
    p / (4 * d) * (4 * d) ≤ j / d * d := by
  have e : p / (4 * d) * (4 * d) = p / (4 * d) * 4 * d := by
    rw [Nat.mul_assoc]
  rw [e] at h ⊢
  exact Nat.mul_le_mul_right d ((Nat.le_div_iff_mul_le hd).mpr h)

/-- the hypothesis of the task, as the invariant at block size 1 -/
theorem zeroBlocks_one (a : Array Nat) (t : Nat)
    (hz : ∀ i, t ≤ i → i < a.size → a.getD i 0 = 0) : ZeroBlocks 1 t a := by
  intro i hi
  rw [Nat.div_one, Nat.mul_one] at hi
  by_cases h : i < a.size
  · exact hz i hi h
  · simp [Array.getD, h]

/-- One pass: a skipped group consists of four all-zero blocks, so skipping it changes nothing,
    and afterwards the (4× larger) blocks at or beyond `t` are still zero. -/
theorem fwhtLayer_step (d d' t n : Nat) (a : Array Nat) (hd : 0 < d) (hd' : d' = 4 * d)
    (hn : a.size = n) (hz : ZeroBlocks d t a) :
    fwhtLayer d t a = fwhtLayer d n a ∧ (fwhtLayer d t a).size = n ∧
      ZeroBlocks d' t (fwhtLayer d t a) := by
  refine ⟨?_, ?_, ?_⟩
  · apply Array.ext
    · rw [fwhtLayer_size, fwhtLayer_size]
    · intro p h1 h2
      rw [fwhtLayer_getElem, fwhtLayer_getElem]
      have hp : p < n := by rw [fwhtLayer_size, hn] at h1; exact h1
      have hg : p / (4 * d) * (4 * d) < n := Nat.lt_of_le_of_lt (Nat.div_mul_le_self _ _) hp
      unfold fwhtAt
      rw [if_pos hg]
      by_cases ht : p / (4 * d) * (4 * d) < t
      · rw [if_pos ht]
      · rw [if_neg ht]
        have ht' : t ≤ p / (4 * d) * (4 * d) := Nat.le_of_not_lt ht
        have z : ∀ j, p / (4 * d) * (4 * d) ≤ j → a.getD j 0 = 0 := fun j hj =>
          hz j (Nat.le_trans ht' (group_le_block d p j hd hj))
        rw [z p (Nat.div_mul_le_self _ _),
          z (p / (4 * d) * (4 * d) + (p - p / (4 * d) * (4 * d)) % d) (by omega),
          z (p / (4 * d) * (4 * d) + (p - p / (4 * d) * (4 * d)) % d + d) (by omega),
          z (p / (4 * d) * (4 * d) + (p - p / (4 * d) * (4 * d)) % d + 2 * d) (by omega),
          z (p / (4 * d) * (4 * d) + (p - p / (4 * d) * (4 * d)) % d + 3 * d) (by omega),
          bfly4_zero]
  · rw [fwhtLayer_size, hn]
  · subst hd'
    intro i hi
    rw [fwhtLayer_getD]
    split
    · unfold fwhtAt
      rw [if_neg (Nat.not_lt.mpr hi)]
      exact hz i (Nat.le_trans hi (group_le_block d i i hd (Nat.div_mul_le_self _ _)))
    · rfl

/-! ### truncation independence -/

/-- `fwht(data, m_truncated)` gives the same result as the full transform whenever all entries
    at or beyond `m_truncated` are zero. -/
theorem fwht_trunc_indep (a : Array Nat) (t : Nat) (hs : a.size = 65536)
    (hz : ∀ i, t ≤ i → i < 65536 → a.getD i 0 = 0) :
    fwht a t = fwht a 65536 := by
  have z0 : ZeroBlocks 1 t a := zeroBlocks_one a t (by rw [hs]; exact hz)
  unfold fwht
  simp only [List.foldl]
  obtain ⟨e1, s1, z1⟩ := fwhtLayer_step 1 4 t 65536 a (by decide) rfl hs z0
  rw [← e1]
  obtain ⟨e2, s2, z2⟩ := fwhtLayer_step 4 16 t 65536 _ (by decide) rfl s1 z1
  rw [← e2]
  obtain ⟨e3, s3, z3⟩ := fwhtLayer_step 16 64 t 65536 _ (by decide) rfl s2 z2
  rw [← e3]
  obtain ⟨e4, s4, z4⟩ := fwhtLayer_step 64 256 t 65536 _ (by decide) rfl s3 z3
  rw [← e4]
  obtain ⟨e5, s5, z5⟩ := fwhtLayer_step 256 1024 t 65536 _ (by decide) rfl s4 z4
  rw [← e5]
  obtain ⟨e6, s6, z6⟩ := fwhtLayer_step 1024 4096 t 65536 _ (by decide) rfl s5 z5
  rw [← e6]
  obtain ⟨e7, s7, z7⟩ := fwhtLayer_step 4096 16384 t 65536 _ (by decide) rfl s6 z6
  rw [← e7]
  obtain ⟨e8, _, _⟩ := fwhtLayer_step 16384 65536 t 65536 _ (by decide) rfl s7 z7
  rw [← e8]

/-- `eval_poly(erasures, truncated_size)` equals the untruncated evaluation whenever all
    entries of `erasures` at or beyond `truncated_size` are zero. -/
theorem evalPoly_trunc_indep (lw erasures : Array Nat) (t : Nat) (hs : erasures.size = 65536)
    (hz : ∀ i, t ≤ i → i < 65536 → erasures.getD i 0 = 0) :
    evalPolyWith lw erasures t = evalPolyWith lw erasures 65536 := by
  unfold evalPolyWith
  rw [fwht_trunc_indep erasures t hs hz]

/-- hence the result is the same for every truncation `t' ≥ t`. -/
theorem evalPoly_trunc_mono (lw erasures : Array Nat) (t t' : Nat) (hs : erasures.size = 65536)
    (hz : ∀ i, t ≤ i → i < 65536 → erasures.getD i 0 = 0) (htt : t ≤ t') :
    evalPolyWith lw erasures t' = evalPolyWith lw erasures t := by
  rw [evalPoly_trunc_indep lw erasures t hs hz,
    evalPoly_trunc_indep lw erasures t' hs (fun i hi => hz i (Nat.le_trans htt hi))]

/-- the same for the transform itself -/
theorem fwht_trunc_mono (a : Array Nat) (t t' : Nat) (hs : a.size = 65536)
    (hz : ∀ i, t ≤ i → i < 65536 → a.getD i 0 = 0) (htt : t ≤ t') :
    fwht a t' = fwht a t := by
  rw [fwht_trunc_indep a t hs hz,
    fwht_trunc_indep a t' hs (fun i hi => hz i (Nat.le_trans htt hi))]

end RS

#print axioms RS.addMod_spec
#print axioms RS.subMod_spec
#print axioms RS.fwht_trunc_indep
#print axioms RS.evalPoly_trunc_indep
#print axioms RS.evalPoly_trunc_mono
