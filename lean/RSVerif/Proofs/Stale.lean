/-
  Object-level part of "results never depend on what the codec object did before".

  The work memory after `reset` is an ARBITRARY function `stale` (left-over contents of a
  recycled allocation / uninitialised memory).  Two objects whose bookkeeping is equal and whose
  memories agree on the positions that hold inserted shards (`SameData`) expose the same results.
  A round on any object — whatever it did before — gives the result of a fresh object.

  Data-path lemmas: `Proofs/StaleAux.lean`.
-/
import RSVerif.Proofs.StaleAux
import RSVerif.Proofs.Inv

namespace RS
open ShardAlg

/-! ### relating two outcomes -/

/-- both outcomes have the same shape; errors / panic messages are equal, results are related -/
def Outcome.Rel {α β : Type} (R : α → β → Prop) : Outcome α → Outcome β → Prop
  | .ok a, .ok b => R a b
  | .err e, .err e' => e = e'
  | .panic w, .panic w' => w = w'
  | _, _ => False

namespace Outcome

theorem Rel.bind {α β γ δ : Type} {R : α → β → Prop} {S : γ → δ → Prop}
    {x : Outcome α} {y : Outcome β} {f : α → Outcome γ} {g : β → Outcome δ}
    (h : Rel R x y) (hf : ∀ a b, R a b → Rel S (f a) (g b)) : Rel S (x.bind f) (y.bind g) := by
  cases x <;> cases y <;> simp only [Rel] at h
  · exact hf _ _ h
  · exact h
  · exact h

theorem Rel.mono {α β : Type} {R S : α → β → Prop} {x : Outcome α} {y : Outcome β}
    (h : Rel R x y) (hRS : ∀ a b, R a b → S a b) : Rel S x y := by
  cases x <;> cases y <;> simp only [Rel] at h ⊢
  · exact hRS _ _ h
  · exact h
  · exact h

theorem Rel.eq {α : Type} {x y : Outcome α} (h : Rel Eq x y) : x = y := by
  cases x <;> cases y <;> simp only [Rel] at h <;> rw [h]

theorem Rel.cases {α β : Type} {R : α → β → Prop} {x : Outcome α} {y : Outcome β}
    (h : Rel R x y) :
    (∃ a b, x = .ok a ∧ y = .ok b ∧ R a b) ∨ (∃ e, x = .err e ∧ y = .err e) ∨
      (∃ w, x = .panic w ∧ y = .panic w) := by
  cases x <;> cases y <;> simp only [Rel] at h
  · exact .inl ⟨_, _, rfl, rfl, h⟩
  · subst h; exact .inr (.inl ⟨_, rfl, rfl⟩)
  · subst h; exact .inr (.inr ⟨_, rfl, rfl⟩)

theorem Rel.bind_eq {α β γ : Type} {R : α → β → Prop} {x : Outcome α} {y : Outcome β}
    {f : α → Outcome γ} {g : β → Outcome γ} (h : Rel R x y) (hf : ∀ a b, R a b → f a = g b) :
    x.bind f = y.bind g := by
  rcases h.cases with ⟨a, b, rfl, rfl, hab⟩ | ⟨e, rfl, rfl⟩ | ⟨w, rfl, rfl⟩
  · exact hf a b hab
  · rfl
  · rfl

end Outcome

namespace Stale

/-- `stepE` of two steps with equal results and related new objects -/
theorem stepE_rel {σ τ α : Type} {R : σ → τ → Prop} {x : Outcome α × σ} {y : Outcome α × τ}
    (h1 : x.1 = y.1) (h2 : R x.2 y.2) :
    Outcome.Rel (fun p q => p.1 = q.1 ∧ R p.2 q.2) (stepE x) (stepE y) := by
  obtain ⟨o, e⟩ := x
  obtain ⟨o', e'⟩ := y
  simp only at h1 h2
  subst h1
  cases o <;> simp [stepE, Outcome.Rel, h2]

end Stale

open Stale

/-! ## 4. encoders -/

/-- equal bookkeeping; the memories have the same shape and agree on the inserted originals -/
structure EncWork.SameData (w w' : EncWork) : Prop where
  k : w.k = w'.k
  r : w.r = w'.r
  sb : w.sb = w'.sb
  recv : w.recv = w'.recv
  L : w.L = w'.L
  size : w.mem.size = w'.mem.size
  agree : ∀ p, p < w.recv → (rd w.mem p).toArray = (rd w'.mem p).toArray

/-- `SameData` with the dependent type of the memory made uniform -/
theorem EncWork.SameData.elim {w w' : EncWork} (h : EncWork.SameData w w') :
    ∃ (k r sb recv L : Nat) (mem mem' : Array (Vector Sym L)) (hb al hb' al' : Nat),
      w = ⟨k, r, sb, recv, L, mem, hb, al⟩ ∧ w' = ⟨k, r, sb, recv, L, mem', hb', al'⟩ ∧
      mem.size = mem'.size ∧ ∀ p, p < recv → rd mem p = rd mem' p := by
  obtain ⟨k, r, sb, recv, L, mem, hb, al⟩ := w
  obtain ⟨k', r', sb', recv', L', mem', hb', al'⟩ := w'
  obtain ⟨h1, h2, h3, h4, h5, h6, h7⟩ := h
  simp only at h1 h2 h3 h4 h5 h6 h7
  subst h1 h2 h3 h4 h5
  exact ⟨_, _, _, _, _, mem, mem', hb, al, hb', al', rfl, rfl, h6,
    fun p hp => Vector.toArray_inj.1 (h7 p hp)⟩

theorem EncWork.SameData.intro {k r sb recv L : Nat} {mem mem' : Array (Vector Sym L)}
    {hb al hb' al' : Nat} (hs : mem.size = mem'.size) (hag : ∀ p, p < recv → rd mem p = rd mem' p) :
    EncWork.SameData ⟨k, r, sb, recv, L, mem, hb, al⟩ ⟨k, r, sb, recv, L, mem', hb', al'⟩ :=
  ⟨rfl, rfl, rfl, rfl, rfl, hs, fun p hp => by rw [hag p hp]⟩

/-- the part of `EncWork.Inv` the encode step relies on -/
structure EncWork.Ready (rate : Rate) (w : EncWork) : Prop where
  supported : supportsRate rate w.k w.r = true
  size : w.mem.size = encWorkCount rate w.k w.r

theorem EncWork.Inv.ready {rate : Rate} {w : EncWork} (h : EncWork.Inv rate w) :
    EncWork.Ready rate w := ⟨h.supported, h.size⟩

/-- (i) `reset` forgets the memory contents: whatever the stale data and the previous works -/
theorem EncWork.reset_sameData (stale stale' : Stale) (w0 w0' : EncWork) (k r sb wc : Nat) :
    Outcome.Rel EncWork.SameData (w0.reset stale k r sb wc) (w0'.reset stale' k r sb wc) := by
  unfold EncWork.reset
  by_cases h : sb % 2 ≠ 0
  · rw [if_pos h, if_pos h]; exact rfl
  · rw [if_neg h, if_neg h]
    exact ⟨rfl, rfl, rfl, rfl, rfl, by simp, fun p hp => absurd hp (Nat.not_lt_zero p)⟩

/-- (ii) adding the same shard preserves `SameData` (and gives the same error otherwise) -/
theorem EncWork.add_sameData {w w' : EncWork} (h : EncWork.SameData w w') (shard : Array Nat) :
    Outcome.Rel EncWork.SameData (w.add shard) (w'.add shard) := by
  obtain ⟨k, r, sb, recv, L, mem, mem', hb, al, hb', al', rfl, rfl, hs, hag⟩ := h.elim
  unfold EncWork.add
  simp only []
  by_cases h1 : recv = k
  · rw [if_pos h1, if_pos h1]; exact rfl
  · rw [if_neg h1, if_neg h1]
    by_cases h2 : shard.size ≠ sb
    · rw [if_pos h2, if_pos h2]; exact rfl
    · rw [if_neg h2, if_neg h2]
      by_cases h3 : sb / 2 = L
      · rw [dif_pos h3, dif_pos h3, ← hs]
        by_cases h4 : recv < mem.size
        · rw [if_pos h4, if_pos h4]
          refine EncWork.SameData.intro (by simp [hs]) (fun p hp => ?_)
          rw [Stale.rd_setIfInBounds, Stale.rd_setIfInBounds, ← hs]
          by_cases hp' : p = recv ∧ recv < mem.size
          · rw [if_pos hp', if_pos hp']
          · rw [if_neg hp', if_neg hp']; exact hag p (by omega)
        · rw [if_neg h4, if_neg h4]; exact rfl
      · rw [dif_neg h3, dif_neg h3]; exact rfl

theorem EncWork.add_ready {rate : Rate} {w w1 : EncWork} (h : EncWork.Ready rate w)
    {shard : Array Nat} (hw : w.add shard = .ok w1) : EncWork.Ready rate w1 := by
  unfold EncWork.add at hw
  split at hw
  · cases hw
  · split at hw
    · cases hw
    · split at hw
      · split at hw
        · cases hw
          exact ⟨h.supported, by simpa using h.size⟩
        · cases hw
      · cases hw

theorem encodeMem_congr {L : Nat} (rate : Rate) (s : Sched) (k r : Nat)
    (mem mem' : Array (Vector Sym L)) (hsup : supportsRate rate k r = true)
    (hsz : mem.size = encWorkCount rate k r) (hsz' : mem'.size = mem.size)
    (hag : ∀ p, p < k → rd mem p = rd mem' p) :
    encodeMem rate s k r mem = encodeMem rate s k r mem' := by
  cases rate
  · exact encodeHigh_congr s k r mem mem' hsup hsz hsz' hag
  · exact encodeLow_congr s k r mem mem' hsup hsz hsz' hag

theorem EncWork.encode_sameData' {rate : Rate} (s : Sched) {w w' : EncWork}
    (hinv : EncWork.Ready rate w) (h : EncWork.SameData w w') (hr : w.recv = w.k) :
    ({ w with mem := encodeMem rate s w.k w.r w.mem } : EncWork).recoveryList =
      ({ w' with mem := encodeMem rate s w'.k w'.r w'.mem } : EncWork).recoveryList := by
  obtain ⟨k, r, sb, recv, L, mem, mem', hb, al, hb', al', rfl, rfl, hs, hag⟩ := h.elim
  simp only at hr
  subst hr
  have := encodeMem_congr rate s recv r mem mem' hinv.supported hinv.size hs.symm hag
  simp only [this]
  rfl

/-- (iii) with all originals inserted, the exposed recovery shards agree -/
theorem EncWork.encode_sameData {rate : Rate} (s : Sched) {w w' : EncWork}
    (hinv : EncWork.Inv rate w) (h : EncWork.SameData w w') (hr : w.recv = w.k) :
    ({ w with mem := encodeMem rate s w.k w.r w.mem } : EncWork).recoveryList =
      ({ w' with mem := encodeMem rate s w'.k w'.r w'.mem } : EncWork).recoveryList :=
  EncWork.encode_sameData' s hinv.ready h hr

/-! ### encoder objects -/

/-- dedicated flavours always hold their own rate -/
def RateOK (kind : Kind) (rate : Rate) : Prop :=
  (kind = .high → rate = .high) ∧ (kind = .low → rate = .low)

/-- the encoder holds an inner codec whose rate fits its flavour (part of `Encoder.Inv`) -/
def Encoder.Wf (e : Encoder) : Prop := ∃ rate w, e.inner = .some rate w ∧ RateOK e.kind rate

theorem Encoder.Inv.wf {e : Encoder} (h : Encoder.Inv e) : e.Wf := by
  obtain ⟨rate, w, hi, hk, _⟩ := h
  refine ⟨rate, w, hi, ?_, ?_⟩ <;> intro hkind <;> rw [hkind] at hk <;> exact hk

/-- two encoder objects of flavour `kind` and engine `s` with `SameData` work spaces -/
structure Encoder.Same (kind : Kind) (s : Sched) (e e' : Encoder) : Prop where
  hkind : e.kind = kind
  hkind' : e'.kind = kind
  hsched : e.sched = s
  hsched' : e'.sched = s
  inner : ∃ rate w w', e.inner = .some rate w ∧ e'.inner = .some rate w' ∧
    RateOK kind rate ∧ EncWork.SameData w w' ∧ EncWork.Ready rate w

/-- what is known of an encoder after a round: it is well-formed, same flavour and engine -/
def Encoder.After (kind : Kind) (s : Sched) (e : Encoder) : Prop :=
  e.Wf ∧ e.kind = kind ∧ e.sched = s

theorem encResetWork_rel (stale stale' : Stale) (rate : Rate) (w0 w0' : EncWork) (k r sb : Nat) :
    Outcome.Rel (fun w w' => EncWork.SameData w w' ∧ EncWork.Ready rate w)
      (encResetWork stale rate w0 k r sb) (encResetWork stale' rate w0' k r sb) := by
  unfold encResetWork
  cases hv : validateRate rate k r sb with
  | error e => exact rfl
  | ok u =>
    have hsup : supportsRate rate k r = true := by
      unfold validateRate at hv
      cases hs : supportsRate rate k r with
      | true => rfl
      | false => simp [hs] at hv
    simp only []
    unfold EncWork.reset
    by_cases hsb : sb % 2 ≠ 0
    · rw [if_pos hsb, if_pos hsb]; exact rfl
    · rw [if_neg hsb, if_neg hsb]
      exact ⟨⟨rfl, rfl, rfl, rfl, rfl, by simp, fun p hp => absurd hp (Nat.not_lt_zero p)⟩,
        ⟨hsup, by simp⟩⟩

theorem chooseRate_rateOK {kind : Kind} {k r : Nat} {rate : Rate}
    (h : chooseRate kind k r = .ok rate) : RateOK kind rate := by
  cases kind <;> simp only [chooseRate] at h
  · cases h; exact ⟨fun _ => rfl, fun h => (nomatch h)⟩
  · cases h; exact ⟨fun h => (nomatch h), fun _ => rfl⟩
  · exact ⟨fun h => (nomatch h), fun h => (nomatch h)⟩

/-- `new` with any stale data and any recycled work -/
theorem Encoder.new_same (stale stale' : Stale) (kind : Kind) (s : Sched) (k r sb : Nat)
    (work work' : Option EncWork) :
    Outcome.Rel (Encoder.Same kind s) (Encoder.new stale kind s k r sb work)
      (Encoder.new stale' kind s k r sb work') := by
  unfold Encoder.new
  cases hc : chooseRate kind k r with
  | error e => exact rfl
  | ok rate =>
    simp only []
    refine (encResetWork_rel stale stale' rate _ _ k r sb).bind (fun w w' h => ?_)
    exact ⟨rfl, rfl, rfl, rfl, rate, w, w', rfl, rfl, chooseRate_rateOK hc, h.1, h.2⟩

/-- `add` on related encoders: same result, related encoders -/
theorem Encoder.add_same {kind : Kind} {s : Sched} {e e' : Encoder} (h : Encoder.Same kind s e e')
    (shard : Array Nat) :
    (e.add shard).1 = (e'.add shard).1 ∧ Encoder.Same kind s (e.add shard).2 (e'.add shard).2 := by
  obtain ⟨hk, hk', hs, hs', rate, w, w', hi, hi', hok, hsd, hrd⟩ := h
  unfold Encoder.add
  rw [hi, hi']
  simp only []
  rcases (EncWork.add_sameData hsd shard).cases with
    ⟨w1, w1', ha, ha', h1⟩ | ⟨er, ha, ha'⟩ | ⟨why, ha, ha'⟩
  · rw [ha, ha']
    exact ⟨rfl, hk, hk', hs, hs', rate, w1, w1', rfl, rfl, hok, h1, EncWork.add_ready hrd ha⟩
  · rw [ha, ha']
    exact ⟨rfl, hk, hk', hs, hs', rate, w, w', hi, hi', hok, hsd, hrd⟩
  · rw [ha, ha']
    exact ⟨rfl, hk, hk', hs, hs', rate, w, w', hi, hi', hok, hsd, hrd⟩

/-- `encode` on related encoders: same recovery shards (or the same error) -/
theorem Encoder.encode_same {kind : Kind} {s : Sched} {e e' : Encoder}
    (h : Encoder.Same kind s e e') :
    e.encode.1 = e'.encode.1 ∧ Encoder.After kind s e.encode.2 := by
  obtain ⟨hk, hk', hs, hs', rate, w, w', hi, hi', hok, hsd, hrd⟩ := h
  unfold Encoder.encode
  rw [hi, hi']
  simp only []
  have hr' : w'.recv = w'.k ↔ w.recv = w.k := by rw [hsd.recv, hsd.k]
  by_cases hr : w.recv = w.k
  · rw [if_pos hr, if_pos (hr'.2 hr)]
    simp only []
    rw [hs, hs']
    exact ⟨congrArg Outcome.ok (EncWork.encode_sameData' s hrd hsd hr),
      ⟨rate, _, rfl, hk ▸ hok⟩, hk, rfl⟩
  · rw [if_neg hr, if_neg (fun h => hr (hr'.1 h)), hsd.k, hsd.recv]
    exact ⟨rfl, ⟨rate, w, hi, hk ▸ hok⟩, hk, hs⟩

/-- feed a list of shards to an encoder, stopping at the first error -/
def Encoder.addShards (e : Encoder) : List (Array Nat) → Outcome Encoder
  | [] => .ok e
  | s :: ss => (stepE (e.add s)).bind fun p => Encoder.addShards p.2 ss

theorem Encoder.addShards_same {kind : Kind} {s : Sched} {e e' : Encoder}
    (h : Encoder.Same kind s e e') (shards : List (Array Nat)) :
    Outcome.Rel (Encoder.Same kind s) (e.addShards shards) (e'.addShards shards) := by
  induction shards generalizing e e' with
  | nil => exact h
  | cons x xs ih =>
    have := Encoder.add_same h x
    exact (stepE_rel (R := Encoder.Same kind s) this.1 this.2).bind (fun p q hpq => ih hpq.2)

/-- the rest of a round: add the originals, encode, read the recovery shards -/
def Encoder.finish (e : Encoder) (shards : List (Array Nat)) :
    Outcome (List (Array Nat) × Encoder) :=
  (e.addShards shards).bind fun e => stepE e.encode

theorem Encoder.finish_same {kind : Kind} {s : Sched} {e e' : Encoder}
    (h : Encoder.Same kind s e e') (shards : List (Array Nat)) :
    Outcome.Rel (fun p q => p.1 = q.1 ∧ Encoder.After kind s p.2)
      (e.finish shards) (e'.finish shards) := by
  refine (Encoder.addShards_same h shards).bind (fun a b hab => ?_)
  have := Encoder.encode_same hab
  exact (stepE_rel (R := fun x _ => Encoder.After kind s x) this.1 this.2)

/-- one complete round on a new encoder object: `new`, the `add` calls, `encode` -/
def encoderRound (stale : Stale) (kind : Kind) (s : Sched) (k r sb : Nat) (work : Option EncWork)
    (shards : List (Array Nat)) : Outcome (List (Array Nat)) :=
  (Encoder.new stale kind s k r sb work).bind fun e =>
    (e.finish shards).bind fun p => .ok p.1

/-- **Stale-memory independence of an encoder round.**  The recovery shards (or the error) of a
    round do not depend on the left-over contents of the working memory nor on the recycled
    work space handed to `new`. -/
theorem encoder_round_stale_indep' (stale stale' : Stale) (kind : Kind) (s : Sched) (k r sb : Nat)
    (work work' : Option EncWork) (shards : List (Array Nat)) :
    encoderRound stale kind s k r sb work shards = encoderRound stale' kind s k r sb work' shards := by
  apply Outcome.Rel.eq
  refine (Encoder.new_same stale stale' kind s k r sb work work').bind (fun e e' h => ?_)
  exact (Encoder.finish_same h shards).bind (fun p q hpq => hpq.1)

theorem encoder_round_stale_indep (stale stale' : Stale) (kind : Kind) (s : Sched) (k r sb : Nat)
    (work' : Option EncWork) (shards : List (Array Nat)) :
    encoderRound stale kind s k r sb none shards = encoderRound stale' kind s k r sb work' shards :=
  encoder_round_stale_indep' stale stale' kind s k r sb none work' shards

/-! ## 6. history independence of an encoder object -/

/-- the default rule only picks a rate that supports the configuration -/
theorem chooseRate_default_supports {k r : Nat} {rate : Rate}
    (h : chooseRate .default k r = .ok rate) : supportsRate rate k r = true := by
  simp only [chooseRate] at h
  unfold useHighRate at h
  by_cases h1 : k > 65536 ∨ r > 65536
  · rw [if_pos h1] at h; cases h
  · rw [if_neg h1] at h
    simp only [] at h
    by_cases h2 : k = 0 ∨ r = 0 ∨ min (npow2 k) (npow2 r) + max k r > 65536
    · rw [if_pos h2] at h; cases h
    · rw [if_neg h2] at h
      have hk := Stale.npow2_pos k (by omega)
      have hr := Stale.npow2_pos r (by omega)
      by_cases h3 : npow2 k < npow2 r
      · rw [if_pos h3] at h
        cases h
        simp only [supportsRate, supportsLow, Bool.and_eq_true, decide_eq_true_eq]
        omega
      · rw [if_neg h3] at h
        by_cases h4 : npow2 k > npow2 r
        · rw [if_pos h4] at h
          cases h
          simp only [supportsRate, supportsHigh, Bool.and_eq_true, decide_eq_true_eq]
          omega
        · rw [if_neg h4] at h
          by_cases h5 : k ≤ r
          · simp only [h5, decide_true] at h
            cases h
            simp only [supportsRate, supportsHigh, Bool.and_eq_true, decide_eq_true_eq]
            omega
          · simp only [h5, decide_false] at h
            cases h
            simp only [supportsRate, supportsLow, Bool.and_eq_true, decide_eq_true_eq]
            omega

/-- `reset` as an outcome with the new object -/
def Encoder.resetO (stale : Stale) (e : Encoder) (k r sb : Nat) : Outcome Encoder :=
  (stepE (e.reset stale k r sb)).bind fun p => .ok p.2

/-- `reset` of ANY well-formed encoder is related to a brand-new encoder: `reset` forgets
    everything but `heldBlocks` / `allocs` -/
theorem Encoder.reset_new_same (stale stale' : Stale) {e : Encoder} (hwf : e.Wf) (k r sb : Nat) :
    Outcome.Rel (Encoder.Same e.kind e.sched) (e.resetO stale k r sb)
      (Encoder.new stale' e.kind e.sched k r sb none) := by
  obtain ⟨cur, w, hi, hok⟩ := hwf
  obtain ⟨kind, sched, inner⟩ := e
  simp only at hi hok ⊢
  subst hi
  unfold Encoder.resetO Encoder.reset Encoder.new
  simp only []
  cases kind with
  | default =>
    simp only []
    cases hc : chooseRate .default k r with
    | error er => exact rfl
    | ok rate =>
      have hsup := chooseRate_default_supports hc
      simp only []
      by_cases hbad : badShardSize sb = true
      · rw [if_pos hbad]
        simp [encResetWork, validateRate, hsup, hbad, stepE, Outcome.bind, Outcome.Rel]
      · rw [if_neg hbad]
        rcases (encResetWork_rel stale stale' rate w ((none : Option EncWork).getD {}) k r sb).cases with
          ⟨a, b, ha, hb, h1⟩ | ⟨er, ha, hb⟩ | ⟨why, ha, hb⟩
        · rw [ha, hb]
          exact ⟨rfl, rfl, rfl, rfl, rate, a, b, rfl, rfl, chooseRate_rateOK hc, h1.1, h1.2⟩
        · rw [ha, hb]; exact rfl
        · rw [ha, hb]; exact rfl
  | high =>
    have : cur = .high := hok.1 rfl
    subst this
    simp only [chooseRate]
    rcases (encResetWork_rel stale stale' .high w ((none : Option EncWork).getD {}) k r sb).cases with
      ⟨a, b, ha, hb, h1⟩ | ⟨er, ha, hb⟩ | ⟨why, ha, hb⟩
    · rw [ha, hb]
      exact ⟨rfl, rfl, rfl, rfl, .high, a, b, rfl, rfl, hok, h1.1, h1.2⟩
    · rw [ha, hb]; exact rfl
    · rw [ha, hb]; exact rfl
  | low =>
    have : cur = .low := hok.2 rfl
    subst this
    simp only [chooseRate]
    rcases (encResetWork_rel stale stale' .low w ((none : Option EncWork).getD {}) k r sb).cases with
      ⟨a, b, ha, hb, h1⟩ | ⟨er, ha, hb⟩ | ⟨why, ha, hb⟩
    · rw [ha, hb]
      exact ⟨rfl, rfl, rfl, rfl, .low, a, b, rfl, rfl, hok, h1.1, h1.2⟩
    · rw [ha, hb]; exact rfl
    · rw [ha, hb]; exact rfl

/-- a round: the configuration and the originals -/
structure RoundSpec where
  k : Nat
  r : Nat
  sb : Nat
  shards : List (Array Nat)

/-- a round on an existing object: `reset`, the `add` calls, `encode` -/
def Encoder.roundOn (stale : Stale) (e : Encoder) (c : RoundSpec) :
    Outcome (List (Array Nat) × Encoder) :=
  (e.resetO stale c.k c.r c.sb).bind fun e => e.finish c.shards

/-- a round on any well-formed encoder gives what a fresh encoder gives, and leaves a
    well-formed encoder of the same flavour -/
theorem Encoder.round_fresh (stale stale' : Stale) {e : Encoder} (hwf : e.Wf) (c : RoundSpec) :
    Outcome.Rel (fun p out => p.1 = out ∧ Encoder.After e.kind e.sched p.2)
      (e.roundOn stale c) (encoderRound stale' e.kind e.sched c.k c.r c.sb none c.shards) := by
  refine (Encoder.reset_new_same stale stale' hwf c.k c.r c.sb).bind (fun a b hab => ?_)
  rcases (Encoder.finish_same hab c.shards).cases with
    ⟨p, q, hp, hq, h⟩ | ⟨er, hp, hq⟩ | ⟨w, hp, hq⟩
  · rw [hp, hq]; exact h
  · rw [hp, hq]; exact rfl
  · rw [hp, hq]; exact rfl

/-- successive rounds on ONE object (stopping at the first failing round) -/
def Encoder.runRounds (stale : Stale) : Encoder → List RoundSpec → Outcome (List (List (Array Nat)))
  | _, [] => .ok []
  | e, c :: cs =>
    (e.roundOn stale c).bind fun p =>
      (Encoder.runRounds stale p.2 cs).bind fun outs => .ok (p.1 :: outs)

/-- the same rounds, each on a brand-new object -/
def freshRounds (stale : Stale) (kind : Kind) (s : Sched) :
    List RoundSpec → Outcome (List (List (Array Nat)))
  | [] => .ok []
  | c :: cs =>
    (encoderRound stale kind s c.k c.r c.sb none c.shards).bind fun out =>
      (freshRounds stale kind s cs).bind fun outs => .ok (out :: outs)

/-- **History independence.**  Whatever an encoder object did before (`e` is any well-formed
    encoder, e.g. the state after any number of completed or abandoned rounds), every later round
    returns exactly what a fresh object returns for that round. -/
theorem history_indep (stale stale' : Stale) (e : Encoder) (hwf : e.Wf) (cs : List RoundSpec) :
    e.runRounds stale cs = freshRounds stale' e.kind e.sched cs := by
  induction cs generalizing e with
  | nil => rfl
  | cons c cs ih =>
    unfold Encoder.runRounds freshRounds
    refine (Encoder.round_fresh stale stale' hwf c).bind_eq (fun p out h => ?_)
    obtain ⟨h1, h2, h3, h4⟩ := h
    rw [ih p.2 h2, h1, h3, h4]

/-! ## 5. decoders -/

/-! ### the `received` bitmap -/

namespace Stale

theorem getD_setIfInBounds {α : Type} (a : Array α) (i : Nat) (v d : α) (p : Nat) :
    (a.setIfInBounds i v).getD p d = if p = i ∧ i < a.size then v else a.getD p d := by
  by_cases hp : p = i
  · subst hp
    by_cases hi : p < a.size
    · simp [Array.getD, hi]
    · simp [Array.getD, hi]
  · have : ¬ (p = i ∧ i < a.size) := fun h => hp h.1
    rw [if_neg this]
    by_cases hi : p < a.size
    · simp [Array.getD, hi, Ne.symm hp]
    · simp [Array.getD, hi]

theorem getD_replicate_false (n p : Nat) : (Array.replicate n false).getD p false = false := by
  by_cases h : p < n
  · simp [Array.getD, h]
  · simp [Array.getD, h]

theorem countSet_le (bits : Array Bool) (base n : Nat) : countSet bits base n ≤ n := by
  induction n with
  | zero => exact Nat.le_refl 0
  | succ n ih => unfold countSet; split <;> omega

theorem countSet_congr {bits bits' : Array Bool} {base n : Nat}
    (h : ∀ i, i < n → bits.getD (base + i) false = bits'.getD (base + i) false) :
    countSet bits base n = countSet bits' base n := by
  induction n with
  | zero => rfl
  | succ n ih =>
    unfold countSet
    rw [ih (fun i hi => h i (Nat.lt_succ_of_lt hi)), h n (Nat.lt_succ_self n)]

/-- a full count means every bit of the range is set -/
theorem countSet_full {bits : Array Bool} {base n : Nat} (h : countSet bits base n = n) :
    ∀ i, i < n → bits.getD (base + i) false = true := by
  induction n with
  | zero => intro i hi; omega
  | succ n ih =>
    unfold countSet at h
    have hle := countSet_le bits base n
    intro i hi
    by_cases hb : bits.getD (base + n) false = true
    · rw [if_pos hb] at h
      by_cases hin : i = n
      · subst hin; exact hb
      · exact ih (by omega) i (by omega)
    · rw [if_neg hb] at h; omega

theorem countSet_replicate (m base n : Nat) : countSet (Array.replicate m false) base n = 0 := by
  induction n with
  | zero => rfl
  | succ n ih => unfold countSet; rw [ih, getD_replicate_false]; rfl

theorem countSet_set_out {bits : Array Bool} {base n pos : Nat}
    (h : ∀ i, i < n → base + i ≠ pos) :
    countSet (bits.setIfInBounds pos true) base n = countSet bits base n := by
  apply countSet_congr
  intro i hi
  rw [getD_setIfInBounds, if_neg (fun hh => h i hi hh.1)]

theorem countSet_set_in {bits : Array Bool} {base n i : Nat} (hi : i < n)
    (hsz : base + i < bits.size) (hold : bits.getD (base + i) false = false) :
    countSet (bits.setIfInBounds (base + i) true) base n = countSet bits base n + 1 := by
  induction n with
  | zero => omega
  | succ n ih =>
    unfold countSet
    by_cases hin : i = n
    · subst hin
      rw [countSet_set_out (fun j hj => by omega), getD_setIfInBounds,
        if_pos (And.intro rfl hsz), hold]
      simp
    · have hne : ¬ (base + n = base + i ∧ base + i < bits.size) := by omega
      rw [ih (by omega), getD_setIfInBounds, if_neg hne]
      omega

end Stale

/-! ### work spaces -/

/-- `DecoderWork::insert` (private in the model; `addOriginal_eq` / `addRecovery_eq` tie it in) -/
def DecWork.insertAt (w : DecWork) (pos : Nat) (shard : Array Nat) : Outcome DecWork :=
  if h : w.sb / 2 = w.L then
    if pos < w.mem.size then
      .ok { w with mem := w.mem.setIfInBounds pos (h ▸ layout w.sb shard),
                   received := w.received.setIfInBounds pos true }
    else .panic "shard index out of range"
  else .panic "lane count invariant broken"

theorem DecWork.addOriginal_eq (w : DecWork) (index : Nat) (shard : Array Nat) :
    w.addOriginal index shard =
      if index ≥ w.k then .err (.invalidOriginalIndex w.k index)
      else if w.recvAt (w.obase + index) then .err (.duplicateOriginal index)
      else if shard.size ≠ w.sb then .err (.differentShardSize w.sb shard.size)
      else (w.insertAt (w.obase + index) shard).bind fun w => .ok { w with orecv := w.orecv + 1 } :=
  rfl

theorem DecWork.addRecovery_eq (w : DecWork) (index : Nat) (shard : Array Nat) :
    w.addRecovery index shard =
      if index ≥ w.r then .err (.invalidRecoveryIndex w.r index)
      else if w.recvAt (w.rbase + index) then .err (.duplicateRecovery index)
      else if shard.size ≠ w.sb then .err (.differentShardSize w.sb shard.size)
      else (w.insertAt (w.rbase + index) shard).bind fun w => .ok { w with rrecv := w.rrecv + 1 } :=
  rfl

/-- equal bookkeeping (the bitmaps may differ in length: `reset` never shrinks them — they are
    compared as functions `recvAt`); the memories have the same shape and agree on the received
    positions -/
structure DecWork.SameData (w w' : DecWork) : Prop where
  k : w.k = w'.k
  r : w.r = w'.r
  sb : w.sb = w'.sb
  obase : w.obase = w'.obase
  rbase : w.rbase = w'.rbase
  orecv : w.orecv = w'.orecv
  rrecv : w.rrecv = w'.rrecv
  L : w.L = w'.L
  bits : ∀ p, w.recvAt p = w'.recvAt p
  size : w.mem.size = w'.mem.size
  agree : ∀ p, w.recvAt p = true → (rd w.mem p).toArray = (rd w'.mem p).toArray

theorem DecWork.SameData.elim {w w' : DecWork} (h : DecWork.SameData w w') :
    ∃ (k r sb obase rbase orecv rrecv L : Nat) (rc rc' : Array Bool)
      (mem mem' : Array (Vector Sym L)) (hb al ba hb' al' ba' : Nat),
      w = ⟨k, r, sb, obase, rbase, orecv, rrecv, rc, L, mem, hb, al, ba⟩ ∧
      w' = ⟨k, r, sb, obase, rbase, orecv, rrecv, rc', L, mem', hb', al', ba'⟩ ∧
      (∀ p, rc.getD p false = rc'.getD p false) ∧ mem.size = mem'.size ∧
      ∀ p, rc.getD p false = true → rd mem p = rd mem' p := by
  obtain ⟨k, r, sb, obase, rbase, orecv, rrecv, rc, L, mem, hb, al, ba⟩ := w
  obtain ⟨k', r', sb', obase', rbase', orecv', rrecv', rc', L', mem', hb', al', ba'⟩ := w'
  obtain ⟨h1, h2, h3, h4, h5, h6, h7, h8, h9, h10, h11⟩ := h
  simp only [DecWork.recvAt] at h1 h2 h3 h4 h5 h6 h7 h8 h9 h10 h11
  subst h1 h2 h3 h4 h5 h6 h7 h8
  exact ⟨_, _, _, _, _, _, _, _, rc, rc', mem, mem', hb, al, ba, hb', al', ba', rfl, rfl, h9, h10,
    fun p hp => Vector.toArray_inj.1 (h11 p hp)⟩

theorem DecWork.SameData.intro {k r sb obase rbase orecv rrecv L : Nat} {rc rc' : Array Bool}
    {mem mem' : Array (Vector Sym L)} {hb al ba hb' al' ba' : Nat}
    (hbits : ∀ p, rc.getD p false = rc'.getD p false) (hs : mem.size = mem'.size)
    (hag : ∀ p, rc.getD p false = true → rd mem p = rd mem' p) :
    DecWork.SameData ⟨k, r, sb, obase, rbase, orecv, rrecv, rc, L, mem, hb, al, ba⟩
      ⟨k, r, sb, obase, rbase, orecv, rrecv, rc', L, mem', hb', al', ba'⟩ :=
  ⟨rfl, rfl, rfl, rfl, rfl, rfl, rfl, rfl, hbits, hs, fun p hp => by rw [hag p hp]⟩

/-- the bitmap covers both shard ranges (part of `DecWork.Inv`) -/
def DecWork.Bits (w : DecWork) : Prop := max (w.obase + w.k) (w.rbase + w.r) ≤ w.received.size

/-- the part of `DecWork.Inv` the decode step relies on -/
structure DecWork.Ready (w : DecWork) : Prop where
  bits : w.Bits
  geom : w.rbase + w.r ≤ w.obase ∨ w.obase + w.k ≤ w.rbase
  count : w.orecv = countSet w.received w.obase w.k

theorem DecWork.Inv.ready {rate : Rate} {w : DecWork} (h : DecWork.Inv rate w) : w.Ready := by
  refine ⟨h.bits, ?_, h.orecv⟩
  have hs := h.supported
  rw [h.obase, h.rbase]
  cases rate
  · obtain ⟨_, _, _, hr⟩ := Stale.supportsHigh_bounds hs
    have := Stale.le_npow2 w.r (by omega)
    exact .inl (by simpa using this)
  · obtain ⟨_, _, hk, _⟩ := Stale.supportsLow_bounds hs
    have := Stale.le_npow2 w.k (by omega)
    exact .inr (by simpa using this)

/-- the relation carried through a decoder round -/
def DecWork.Same (w w' : DecWork) : Prop := DecWork.SameData w w' ∧ w.Ready ∧ w'.Bits

/-- (i) `reset` forgets the memory contents and clears the bitmap (whose LENGTH may differ) -/
theorem DecWork.reset_sameData (stale stale' : Stale) (w0 w0' : DecWork)
    (k r sb obase rbase wc : Nat) :
    Outcome.Rel DecWork.SameData (w0.reset stale k r sb obase rbase wc)
      (w0'.reset stale' k r sb obase rbase wc) := by
  unfold DecWork.reset
  by_cases hsb : sb % 2 ≠ 0
  · rw [if_pos hsb, if_pos hsb]; exact rfl
  · rw [if_neg hsb, if_neg hsb]
    refine ⟨rfl, rfl, rfl, rfl, rfl, rfl, rfl, rfl, fun p => ?_, by simp, fun p hp => ?_⟩
    · simp only [DecWork.recvAt, getD_replicate_false]
    · simp only [DecWork.recvAt, getD_replicate_false] at hp; cases hp

/-- (i) `reset_work`: related work spaces, invariant part included -/
theorem decResetWork_rel (stale stale' : Stale) (rate : Rate) (w0 w0' : DecWork) (k r sb : Nat) :
    Outcome.Rel DecWork.Same (decResetWork stale rate w0 k r sb)
      (decResetWork stale' rate w0' k r sb) := by
  unfold decResetWork
  cases hv : validateRate rate k r sb with
  | error e => exact rfl
  | ok u =>
    have hsup : supportsRate rate k r = true := by
      unfold validateRate at hv
      cases hs : supportsRate rate k r with
      | true => rfl
      | false => simp [hs] at hv
    simp only []
    cases rate with
    | high =>
      obtain ⟨_, _, _, hr⟩ := Stale.supportsHigh_bounds hsup
      have hle := Stale.le_npow2 r (by omega)
      simp only []
      unfold DecWork.reset
      by_cases hsb : sb % 2 ≠ 0
      · rw [if_pos hsb, if_pos hsb]; exact rfl
      · rw [if_neg hsb, if_neg hsb]
        refine ⟨⟨rfl, rfl, rfl, rfl, rfl, rfl, rfl, rfl, fun p => ?_, by simp, fun p hp => ?_⟩,
          ⟨?_, .inl (by simpa using hle), ?_⟩, ?_⟩
        · simp only [DecWork.recvAt, getD_replicate_false]
        · simp only [DecWork.recvAt, getD_replicate_false] at hp; cases hp
        · simp only [DecWork.Bits, Array.size_replicate]; omega
        · simp only [countSet_replicate]
        · simp only [DecWork.Bits, Array.size_replicate]; omega
    | low =>
      obtain ⟨_, _, hk, _⟩ := Stale.supportsLow_bounds hsup
      have hle := Stale.le_npow2 k (by omega)
      simp only []
      unfold DecWork.reset
      by_cases hsb : sb % 2 ≠ 0
      · rw [if_pos hsb, if_pos hsb]; exact rfl
      · rw [if_neg hsb, if_neg hsb]
        refine ⟨⟨rfl, rfl, rfl, rfl, rfl, rfl, rfl, rfl, fun p => ?_, by simp, fun p hp => ?_⟩,
          ⟨?_, .inr (by simpa using hle), ?_⟩, ?_⟩
        · simp only [DecWork.recvAt, getD_replicate_false]
        · simp only [DecWork.recvAt, getD_replicate_false] at hp; cases hp
        · simp only [DecWork.Bits, Array.size_replicate]; omega
        · simp only [countSet_replicate]
        · simp only [DecWork.Bits, Array.size_replicate]; omega

/-- inserting the same shard at the same (covered) position preserves `SameData` -/
theorem DecWork.insertAt_sameData {w w' : DecWork} (h : DecWork.SameData w w') (pos : Nat)
    (shard : Array Nat) (hp : pos < w.received.size) (hp' : pos < w'.received.size) :
    Outcome.Rel DecWork.SameData (w.insertAt pos shard) (w'.insertAt pos shard) := by
  obtain ⟨k, r, sb, obase, rbase, orecv, rrecv, L, rc, rc', mem, mem', hb, al, ba, hb', al', ba',
    rfl, rfl, hbits, hs, hag⟩ := h.elim
  simp only at hp hp'
  unfold DecWork.insertAt
  simp only []
  by_cases h3 : sb / 2 = L
  · rw [dif_pos h3, dif_pos h3, ← hs]
    by_cases h4 : pos < mem.size
    · rw [if_pos h4, if_pos h4]
      refine DecWork.SameData.intro (fun p => ?_) (by simp [hs]) (fun p hpt => ?_)
      · rw [getD_setIfInBounds, getD_setIfInBounds, hbits p]
        by_cases hpp : p = pos
        · subst hpp; simp [hp, hp']
        · simp [hpp]
      · rw [Stale.rd_setIfInBounds, Stale.rd_setIfInBounds, ← hs]
        by_cases hpp : p = pos ∧ pos < mem.size
        · rw [if_pos hpp, if_pos hpp]
        · rw [if_neg hpp, if_neg hpp]
          apply hag
          rw [getD_setIfInBounds] at hpt
          have : ¬ (p = pos ∧ pos < rc.size) := fun hh => hpp ⟨hh.1, h4⟩
          rwa [if_neg this] at hpt
    · rw [if_neg h4, if_neg h4]; exact rfl
  · rw [dif_neg h3, dif_neg h3]; exact rfl

/-- what a successful `insert` changes -/
theorem DecWork.insertAt_ok {w a : DecWork} {pos : Nat} {shard : Array Nat}
    (h : w.insertAt pos shard = .ok a) :
    a.received = w.received.setIfInBounds pos true ∧ a.k = w.k ∧ a.r = w.r ∧
      a.obase = w.obase ∧ a.rbase = w.rbase ∧ a.orecv = w.orecv := by
  unfold DecWork.insertAt at h
  split at h
  · split at h
    · cases h; exact ⟨rfl, rfl, rfl, rfl, rfl, rfl⟩
    · cases h
  · cases h

theorem DecWork.SameData.bump_orecv {a b : DecWork} (h : DecWork.SameData a b) :
    DecWork.SameData { a with orecv := a.orecv + 1 } { b with orecv := b.orecv + 1 } :=
  ⟨h.k, h.r, h.sb, h.obase, h.rbase, by simp [h.orecv], h.rrecv, h.L, h.bits, h.size, h.agree⟩

theorem DecWork.SameData.bump_rrecv {a b : DecWork} (h : DecWork.SameData a b) :
    DecWork.SameData { a with rrecv := a.rrecv + 1 } { b with rrecv := b.rrecv + 1 } :=
  ⟨h.k, h.r, h.sb, h.obase, h.rbase, h.orecv, by simp [h.rrecv], h.L, h.bits, h.size, h.agree⟩

/-- (ii) adding the same original shard -/
theorem DecWork.addOriginal_same {w w' : DecWork} (h : DecWork.Same w w') (index : Nat)
    (shard : Array Nat) :
    Outcome.Rel DecWork.Same (w.addOriginal index shard) (w'.addOriginal index shard) := by
  obtain ⟨hsd, hrd, hb'⟩ := h
  rw [DecWork.addOriginal_eq, DecWork.addOriginal_eq, ← hsd.k, ← hsd.obase, ← hsd.sb,
    ← hsd.bits (w.obase + index)]
  by_cases h1 : index ≥ w.k
  · rw [if_pos h1, if_pos h1]; exact rfl
  · rw [if_neg h1, if_neg h1]
    cases h2 : w.recvAt (w.obase + index) with
    | true => exact rfl
    | false =>
      simp only [Bool.false_eq_true, if_false]
      by_cases h3 : shard.size ≠ w.sb
      · rw [if_pos h3, if_pos h3]; exact rfl
      · rw [if_neg h3, if_neg h3]
        have hb := hrd.bits
        have hb2' := hb'
        unfold DecWork.Bits at hb hb2'
        rw [← hsd.obase, ← hsd.k, ← hsd.rbase, ← hsd.r] at hb2'
        have hp : w.obase + index < w.received.size := by omega
        have hp' : w.obase + index < w'.received.size := by omega
        rcases (DecWork.insertAt_sameData hsd (w.obase + index) shard hp hp').cases with
          ⟨a, b, ha, hb2, hab⟩ | ⟨er, ha, hb2⟩ | ⟨why, ha, hb2⟩
        · rw [ha, hb2]
          obtain ⟨e1, e2, e3, e4, e5, e6⟩ := DecWork.insertAt_ok ha
          obtain ⟨f1, f2, f3, f4, f5, _⟩ := DecWork.insertAt_ok hb2
          refine ⟨hab.bump_orecv, ⟨?_, ?_, ?_⟩, ?_⟩
          · simp only [DecWork.Bits, e1, e2, e3, e4, e5, Array.size_setIfInBounds]; exact hb
          · simp only [e2, e3, e4, e5]; exact hrd.geom
          · simp only [e1, e2, e4, e6]
            rw [countSet_set_in (by omega) hp h2, hrd.count]
          · simp only [DecWork.Bits, f1, f2, f3, f4, f5, Array.size_setIfInBounds]; exact hb'
        · rw [ha, hb2]; exact rfl
        · rw [ha, hb2]; exact rfl

/-- (ii) adding the same recovery shard -/
theorem DecWork.addRecovery_same {w w' : DecWork} (h : DecWork.Same w w') (index : Nat)
    (shard : Array Nat) :
    Outcome.Rel DecWork.Same (w.addRecovery index shard) (w'.addRecovery index shard) := by
  obtain ⟨hsd, hrd, hb'⟩ := h
  rw [DecWork.addRecovery_eq, DecWork.addRecovery_eq, ← hsd.r, ← hsd.rbase, ← hsd.sb,
    ← hsd.bits (w.rbase + index)]
  by_cases h1 : index ≥ w.r
  · rw [if_pos h1, if_pos h1]; exact rfl
  · rw [if_neg h1, if_neg h1]
    cases h2 : w.recvAt (w.rbase + index) with
    | true => exact rfl
    | false =>
      simp only [Bool.false_eq_true, if_false]
      by_cases h3 : shard.size ≠ w.sb
      · rw [if_pos h3, if_pos h3]; exact rfl
      · rw [if_neg h3, if_neg h3]
        have hb := hrd.bits
        have hg := hrd.geom
        have hb2' := hb'
        unfold DecWork.Bits at hb hb2'
        rw [← hsd.obase, ← hsd.k, ← hsd.rbase, ← hsd.r] at hb2'
        have hp : w.rbase + index < w.received.size := by omega
        have hp' : w.rbase + index < w'.received.size := by omega
        rcases (DecWork.insertAt_sameData hsd (w.rbase + index) shard hp hp').cases with
          ⟨a, b, ha, hb2, hab⟩ | ⟨er, ha, hb2⟩ | ⟨why, ha, hb2⟩
        · rw [ha, hb2]
          obtain ⟨e1, e2, e3, e4, e5, e6⟩ := DecWork.insertAt_ok ha
          obtain ⟨f1, f2, f3, f4, f5, _⟩ := DecWork.insertAt_ok hb2
          refine ⟨hab.bump_rrecv, ⟨?_, ?_, ?_⟩, ?_⟩
          · simp only [DecWork.Bits, e1, e2, e3, e4, e5, Array.size_setIfInBounds]; exact hb
          · simp only [e2, e3, e4, e5]; exact hg
          · simp only [e1, e2, e4, e6]
            rw [countSet_set_out (fun i hi => by omega), hrd.count]
          · simp only [DecWork.Bits, f1, f2, f3, f4, f5, Array.size_setIfInBounds]; exact hb'
        · rw [ha, hb2]; exact rfl
        · rw [ha, hb2]; exact rfl

/-! ### the decode step -/

namespace Stale

theorem filterMap_congr' {α β : Type} {f g : α → Option β} {l : List α}
    (h : ∀ x, x ∈ l → f x = g x) : l.filterMap f = l.filterMap g := by
  induction l with
  | nil => rfl
  | cons a l ih =>
    rw [List.filterMap_cons, List.filterMap_cons, h a (List.mem_cons_self ..),
      ih (fun x hx => h x (List.mem_cons_of_mem _ hx))]

theorem unlayout_congr {L L' : Nat} (sb : Nat) (v : Vector Sym L) (v' : Vector Sym L')
    (h : v.toArray = v'.toArray) : unlayout sb v = unlayout sb v' := by
  unfold unlayout
  simp only [h]

end Stale

/-- the restored list only looks at the memory on missing original positions -/
theorem DecWork.restoredList_congr {w w' : DecWork} (hk : w.k = w'.k) (hsb : w.sb = w'.sb)
    (hob : w.obase = w'.obase) (hbits : ∀ p, w.recvAt p = w'.recvAt p)
    (hag : ∀ i, i < w.k → w.recvAt (w.obase + i) = false →
      (rd w.mem (w.obase + i)).toArray = (rd w'.mem (w.obase + i)).toArray) :
    w.restoredList = w'.restoredList := by
  unfold DecWork.restoredList
  rw [← hk]
  apply filterMap_congr'
  intro i _
  unfold DecWork.restoredOriginal
  rw [← hk, ← hob, ← hsb, ← hbits]
  by_cases hc : i < w.k ∧ w.recvAt (w.obase + i) = false
  · rw [if_pos hc, if_pos hc]
    have : unlayout w.sb (w.mem.getD (w.obase + i) (Vector.replicate w.L 0#16)) =
        unlayout w.sb (w'.mem.getD (w.obase + i) (Vector.replicate w'.L 0#16)) :=
      unlayout_congr _ _ _ (hag i hc.1 hc.2)
    rw [this]
  · rw [if_neg hc, if_neg hc]

theorem decodeMem_congr {L : Nat} (rate : Rate) (s : Sched) (lw : Array Nat) (k r : Nat)
    (recv : Nat → Bool) (mem mem' : Array (Vector Sym L)) (hsz : mem'.size = mem.size)
    (hag : ∀ p, recv p = true → rd mem p = rd mem' p) :
    decodeMem rate s lw k r recv mem = decodeMem rate s lw k r recv mem' := by
  cases rate
  · exact decodeHigh_congr s lw k r recv mem mem' hsz (fun p hp _ => hag p hp)
  · exact decodeLow_congr s lw k r recv mem mem' hsz (fun p hp _ => hag p hp)

/-- (iii) the restored originals after the transform agree -/
theorem DecWork.decode_sameData (rate : Rate) (s : Sched) (lw : Array Nat) {w w' : DecWork}
    (h : DecWork.SameData w w') :
    ({ w with mem := decodeMem rate s lw w.k w.r w.recvAt w.mem } : DecWork).restoredList =
      ({ w' with mem := decodeMem rate s lw w'.k w'.r w'.recvAt w'.mem } : DecWork).restoredList := by
  obtain ⟨k, r, sb, obase, rbase, orecv, rrecv, L, rc, rc', mem, mem', hb, al, ba, hb', al', ba',
    rfl, rfl, hbits, hs, hag⟩ := h.elim
  have hf : DecWork.recvAt ⟨k, r, sb, obase, rbase, orecv, rrecv, rc, L, mem, hb, al, ba⟩ =
      DecWork.recvAt ⟨k, r, sb, obase, rbase, orecv, rrecv, rc', L, mem', hb', al', ba'⟩ :=
    funext hbits
  apply DecWork.restoredList_congr
  · rfl
  · rfl
  · rfl
  · exact fun p => hbits p
  · intro i _ _
    simp only []
    rw [← hf]
    exact congrArg (fun m => (rd m (obase + i)).toArray)
      (decodeMem_congr rate s lw k r _ mem mem' hs.symm (fun p hp => hag p hp))

/-- all originals received: nothing is restored, the memory is not looked at -/
theorem DecWork.restoredList_full {w w' : DecWork} (h : DecWork.Same w w') (hfull : w.orecv = w.k) :
    w.restoredList = w'.restoredList := by
  obtain ⟨hsd, hrd, _⟩ := h
  apply DecWork.restoredList_congr hsd.k hsd.sb hsd.obase hsd.bits
  intro i hi hr
  have := countSet_full (hrd.count.symm.trans hfull) i hi
  unfold DecWork.recvAt at hr
  rw [this] at hr
  cases hr

/-! ### decoder objects -/

structure Decoder.Same (kind : Kind) (s : Sched) (d d' : Decoder) : Prop where
  hkind : d.kind = kind
  hkind' : d'.kind = kind
  hsched : d.sched = s
  hsched' : d'.sched = s
  inner : ∃ rate w w', d.inner = .some rate w ∧ d'.inner = .some rate w' ∧ DecWork.Same w w'

theorem Decoder.new_same (stale stale' : Stale) (kind : Kind) (s : Sched) (k r sb : Nat)
    (work work' : Option DecWork) :
    Outcome.Rel (Decoder.Same kind s) (Decoder.new stale kind s k r sb work)
      (Decoder.new stale' kind s k r sb work') := by
  unfold Decoder.new
  cases hc : chooseRate kind k r with
  | error e => exact rfl
  | ok rate =>
    simp only []
    refine (decResetWork_rel stale stale' rate _ _ k r sb).bind (fun w w' h => ?_)
    exact ⟨rfl, rfl, rfl, rfl, rate, w, w', rfl, rfl, h⟩

theorem Decoder.addOriginal_same {kind : Kind} {s : Sched} {d d' : Decoder}
    (h : Decoder.Same kind s d d') (index : Nat) (shard : Array Nat) :
    (d.addOriginal index shard).1 = (d'.addOriginal index shard).1 ∧
      Decoder.Same kind s (d.addOriginal index shard).2 (d'.addOriginal index shard).2 := by
  obtain ⟨hk, hk', hs, hs', rate, w, w', hi, hi', hw⟩ := h
  unfold Decoder.addOriginal
  rw [hi, hi']
  simp only []
  rcases (DecWork.addOriginal_same hw index shard).cases with
    ⟨w1, w1', ha, ha', h1⟩ | ⟨er, ha, ha'⟩ | ⟨why, ha, ha'⟩
  · rw [ha, ha']; exact ⟨rfl, hk, hk', hs, hs', rate, w1, w1', rfl, rfl, h1⟩
  · rw [ha, ha']; exact ⟨rfl, hk, hk', hs, hs', rate, w, w', hi, hi', hw⟩
  · rw [ha, ha']; exact ⟨rfl, hk, hk', hs, hs', rate, w, w', hi, hi', hw⟩

theorem Decoder.addRecovery_same {kind : Kind} {s : Sched} {d d' : Decoder}
    (h : Decoder.Same kind s d d') (index : Nat) (shard : Array Nat) :
    (d.addRecovery index shard).1 = (d'.addRecovery index shard).1 ∧
      Decoder.Same kind s (d.addRecovery index shard).2 (d'.addRecovery index shard).2 := by
  obtain ⟨hk, hk', hs, hs', rate, w, w', hi, hi', hw⟩ := h
  unfold Decoder.addRecovery
  rw [hi, hi']
  simp only []
  rcases (DecWork.addRecovery_same hw index shard).cases with
    ⟨w1, w1', ha, ha', h1⟩ | ⟨er, ha, ha'⟩ | ⟨why, ha, ha'⟩
  · rw [ha, ha']; exact ⟨rfl, hk, hk', hs, hs', rate, w1, w1', rfl, rfl, h1⟩
  · rw [ha, ha']; exact ⟨rfl, hk, hk', hs, hs', rate, w, w', hi, hi', hw⟩
  · rw [ha, ha']; exact ⟨rfl, hk, hk', hs, hs', rate, w, w', hi, hi', hw⟩

/-- `decode` on related decoders: same restored originals (or the same error) -/
theorem Decoder.decode_same (lw : Array Nat) {kind : Kind} {s : Sched} {d d' : Decoder}
    (h : Decoder.Same kind s d d') : (d.decode lw).1 = (d'.decode lw).1 := by
  obtain ⟨hk, hk', hs, hs', rate, w, w', hi, hi', hw⟩ := h
  have hsd := hw.1
  unfold Decoder.decode
  rw [hi, hi']
  simp only []
  have e1 : w'.orecv + w'.rrecv < w'.k ↔ w.orecv + w.rrecv < w.k := by
    rw [hsd.orecv, hsd.rrecv, hsd.k]
  have e2 : w'.orecv = w'.k ↔ w.orecv = w.k := by rw [hsd.orecv, hsd.k]
  by_cases h1 : w.orecv + w.rrecv < w.k
  · rw [if_pos h1, if_pos (e1.2 h1), hsd.orecv, hsd.rrecv, hsd.k]
  · rw [if_neg h1, if_neg (fun h => h1 (e1.1 h))]
    by_cases h2 : w.orecv = w.k
    · rw [if_pos h2, if_pos (e2.2 h2)]
      exact congrArg Outcome.ok (DecWork.restoredList_full hw h2)
    · rw [if_neg h2, if_neg (fun h => h2 (e2.1 h))]
      simp only []
      rw [hs, hs']
      exact congrArg Outcome.ok (DecWork.decode_sameData rate s lw hsd)

/-- one `add_original_shard` / `add_recovery_shard` call -/
inductive DecAdd where
  | original (index : Nat) (shard : Array Nat)
  | recovery (index : Nat) (shard : Array Nat)

def Decoder.addCall (d : Decoder) : DecAdd → Outcome Unit × Decoder
  | .original i s => d.addOriginal i s
  | .recovery i s => d.addRecovery i s

/-- feed a list of add calls (in any order) to a decoder, stopping at the first error -/
def Decoder.addCalls (d : Decoder) : List DecAdd → Outcome Decoder
  | [] => .ok d
  | a :: as => (stepE (d.addCall a)).bind fun p => Decoder.addCalls p.2 as

theorem Decoder.addCalls_same {kind : Kind} {s : Sched} {d d' : Decoder}
    (h : Decoder.Same kind s d d') (adds : List DecAdd) :
    Outcome.Rel (Decoder.Same kind s) (d.addCalls adds) (d'.addCalls adds) := by
  induction adds generalizing d d' with
  | nil => exact h
  | cons x xs ih =>
    have : (d.addCall x).1 = (d'.addCall x).1 ∧ Decoder.Same kind s (d.addCall x).2 (d'.addCall x).2 := by
      cases x with
      | original i sh => exact Decoder.addOriginal_same h i sh
      | recovery i sh => exact Decoder.addRecovery_same h i sh
    exact (stepE_rel (R := Decoder.Same kind s) this.1 this.2).bind (fun p q hpq => ih hpq.2)

/-- one complete round on a new decoder object: `new`, the add calls, `decode` -/
def decoderRound (stale : Stale) (lw : Array Nat) (kind : Kind) (s : Sched) (k r sb : Nat)
    (work : Option DecWork) (adds : List DecAdd) : Outcome (List (Nat × Array Nat)) :=
  (Decoder.new stale kind s k r sb work).bind fun d =>
    (d.addCalls adds).bind fun d => (stepE (d.decode lw)).bind fun p => .ok p.1

/-- **Stale-memory independence of a decoder round.**  The restored originals (or the error) do
    not depend on the left-over contents of the working memory, nor on the recycled work space
    (including the length of its bitmap) handed to `new`. -/
theorem decoder_round_stale_indep' (stale stale' : Stale) (lw : Array Nat) (kind : Kind) (s : Sched)
    (k r sb : Nat) (work work' : Option DecWork) (adds : List DecAdd) :
    decoderRound stale lw kind s k r sb work adds = decoderRound stale' lw kind s k r sb work' adds := by
  apply Outcome.Rel.eq
  refine (Decoder.new_same stale stale' kind s k r sb work work').bind (fun d d' h => ?_)
  refine (Decoder.addCalls_same h adds).bind (fun a b hab => ?_)
  have := Decoder.decode_same lw hab
  exact (stepE_rel (R := fun _ _ => True) this trivial).bind (fun p q hpq => hpq.1)

theorem decoder_round_stale_indep (stale stale' : Stale) (lw : Array Nat) (kind : Kind) (s : Sched)
    (k r sb : Nat) (work' : Option DecWork) (adds : List DecAdd) :
    decoderRound stale lw kind s k r sb none adds = decoderRound stale' lw kind s k r sb work' adds :=
  decoder_round_stale_indep' stale stale' lw kind s k r sb none work' adds

/-- two decoder work spaces that satisfy the invariant and have the same data are related -/
theorem DecWork.Same.of_inv {rate rate' : Rate} {w w' : DecWork} (h : DecWork.SameData w w')
    (hi : DecWork.Inv rate w) (hi' : DecWork.Inv rate' w') : DecWork.Same w w' :=
  ⟨h, hi.ready, hi'.bits⟩

/-- (iii) for decoders, in terms of `DecWork.Inv`: what `decode` exposes agrees -/
theorem DecWork.decode_same_of_inv {rate : Rate} (s : Sched) (lw : Array Nat) {w w' : DecWork}
    (hi : DecWork.Inv rate w) (h : DecWork.SameData w w') :
    (if w.orecv = w.k then w.restoredList
      else ({ w with mem := decodeMem rate s lw w.k w.r w.recvAt w.mem } : DecWork).restoredList) =
    (if w'.orecv = w'.k then w'.restoredList
      else ({ w' with mem := decodeMem rate s lw w'.k w'.r w'.recvAt w'.mem } : DecWork).restoredList) := by
  have e2 : w'.orecv = w'.k ↔ w.orecv = w.k := by rw [h.orecv, h.k]
  by_cases h2 : w.orecv = w.k
  · rw [if_pos h2, if_pos (e2.2 h2)]
    apply DecWork.restoredList_congr h.k h.sb h.obase h.bits
    intro i hi' hr
    have := countSet_full (hi.orecv.symm.trans h2) i hi'
    unfold DecWork.recvAt at hr
    rw [this] at hr
    cases hr
  · rw [if_neg h2, if_neg (fun hh => h2 (e2.1 hh))]
    exact DecWork.decode_sameData rate s lw h

/-! ## the one-shot functions -/

theorem oneShotEncode_addAll (e : Encoder) (shards : List (Array Nat)) :
    oneShotEncode.addAll e shards = e.addShards shards := by
  induction shards generalizing e with
  | nil => rfl
  | cons x xs ih =>
    unfold oneShotEncode.addAll Encoder.addShards
    exact congrArg _ (funext fun p => ih p.2)

/-- `reed_solomon_simd::encode` does not depend on the contents of the fresh allocation -/
theorem oneShotEncode_stale_indep (stale stale' : Stale) (k r : Nat) (original : List (Array Nat)) :
    oneShotEncode stale k r original = oneShotEncode stale' k r original := by
  unfold oneShotEncode
  split
  · rfl
  · cases original with
    | nil => rfl
    | cons first rest =>
      have := encoder_round_stale_indep' stale stale' .default .twoLayer k r first.size none none
        (first :: rest)
      simp only [encoderRound, Encoder.finish] at this
      simp only [oneShotEncode_addAll]
      refine Eq.trans ?_ (Eq.trans this ?_)
      · cases Encoder.new stale .default .twoLayer k r first.size none with
        | ok e => simp only [Outcome.bind]; cases e.addShards _ <;> rfl
        | err e => rfl
        | panic w => rfl
      · cases Encoder.new stale' .default .twoLayer k r first.size none with
        | ok e => simp only [Outcome.bind]; cases e.addShards _ <;> rfl
        | err e => rfl
        | panic w => rfl

theorem addAllOriginal_eq_addCalls (d : Decoder) (l : List (Nat × Array Nat)) :
    addAllOriginal d l = d.addCalls (l.map fun p => .original p.1 p.2) := by
  induction l generalizing d with
  | nil => rfl
  | cons x xs ih =>
    obtain ⟨i, sh⟩ := x
    unfold addAllOriginal
    simp only [List.map_cons, Decoder.addCalls, Decoder.addCall]
    exact congrArg _ (funext fun p => ih p.2)

theorem addAllRecovery_eq_addCalls (d : Decoder) (l : List (Nat × Array Nat)) :
    addAllRecovery d l = d.addCalls (l.map fun p => .recovery p.1 p.2) := by
  induction l generalizing d with
  | nil => rfl
  | cons x xs ih =>
    obtain ⟨i, sh⟩ := x
    unfold addAllRecovery
    simp only [List.map_cons, Decoder.addCalls, Decoder.addCall]
    exact congrArg _ (funext fun p => ih p.2)

theorem Decoder.addCalls_append (d : Decoder) (l l' : List DecAdd) :
    d.addCalls (l ++ l') = (d.addCalls l).bind fun d => d.addCalls l' := by
  induction l generalizing d with
  | nil => rfl
  | cons x xs ih =>
    simp only [List.cons_append, Decoder.addCalls]
    cases h : stepE (d.addCall x) with
    | ok p => exact ih p.2
    | err e => rfl
    | panic w => rfl

/-- `reed_solomon_simd::decode` does not depend on the contents of the fresh allocation -/
theorem oneShotDecode_stale_indep (stale stale' : Stale) (lw : Array Nat) (k r : Nat)
    (original recovery : List (Nat × Array Nat)) :
    oneShotDecode stale lw k r original recovery = oneShotDecode stale' lw k r original recovery := by
  unfold oneShotDecode
  split
  · rfl
  · cases recovery with
    | cons first rest =>
      have := decoder_round_stale_indep' stale stale' lw .default .twoLayer k r first.2.size none none
        ((original.map fun p => .original p.1 p.2) ++
          ((first :: rest).map fun p => .recovery p.1 p.2))
      simp only [decoderRound, Decoder.addCalls_append] at this
      simp only [addAllOriginal_eq_addCalls, addAllRecovery_eq_addCalls]
      refine Eq.trans ?_ (Eq.trans this ?_)
      · cases Decoder.new stale .default .twoLayer k r first.2.size none with
        | ok d => simp only [Outcome.bind]; cases d.addCalls _ <;> rfl
        | err e => rfl
        | panic w => rfl
      · cases Decoder.new stale' .default .twoLayer k r first.2.size none with
        | ok d => simp only [Outcome.bind]; cases d.addCalls _ <;> rfl
        | err e => rfl
        | panic w => rfl
    | nil =>
      cases original with
      | nil => rfl
      | cons first rest =>
        have := decoder_round_stale_indep' stale stale' lw .default .twoLayer k r first.2.size none
          none ((first :: rest).map fun p => .original p.1 p.2)
        simp only [decoderRound] at this
        simp only [addAllOriginal_eq_addCalls]
        exact this

end RS

#print axioms RS.EncWork.reset_sameData
#print axioms RS.EncWork.add_sameData
#print axioms RS.EncWork.encode_sameData
#print axioms RS.encoder_round_stale_indep
#print axioms RS.history_indep
#print axioms RS.DecWork.reset_sameData
#print axioms RS.decResetWork_rel
#print axioms RS.DecWork.addOriginal_same
#print axioms RS.DecWork.addRecovery_same
#print axioms RS.DecWork.decode_sameData
#print axioms RS.decoder_round_stale_indep
#print axioms RS.DecWork.decode_same_of_inv
#print axioms RS.oneShotEncode_stale_indep
#print axioms RS.oneShotDecode_stale_indep
