/-
  The index arithmetic of the flat working memory AS TRANSLATED FROM TODAY'S SOURCE (Gen/SrcShards.lean,
  regenerated from src/engine/shards.rs on every run) against the hand-written flat-memory model
  (Model/Flat.lean), on which the refinement chain flat bytes → block vectors → lanes is proved
  (Proofs/FlatSpec.lean, FlatEngineSpec.lean):

  every accessor of the source hands out exactly the block ranges the model reads and writes, and panics
  (`none`) exactly where the model does — for every header, every argument, and a backing vector of fewer than
  2^64 blocks.
-/
import RSVerif.Gen.SrcShards
import RSVerif.Model.Flat

namespace RS.SrcS
open RS RS.RustS

/-- the header of a model memory, its data the whole backing vector -/
def hdr (f : Flat) : ShardsS := { shard_count := f.count, shard_len_64 := f.len64, data := ⟨0, f.data.size⟩ }

/-- the blocks a view denotes -/
def _root_.RS.RustS.View.get (v : View) (d : Array Block) : Array Block := d.extract v.off (v.off + v.len)

/-! ### helper lemmas -/

private theorem bind_ite {α β} (c : Prop) [Decidable c] (a : α) (k : α → Option β) :
    (if c then some a else none).bind k = if c then k a else none := by
  split <;> rfl

private theorem bind_ite_none {α β} (c : Prop) [Decidable c] (x : Option α) (k : α → Option β) :
    (if c then x else none).bind k = if c then x.bind k else none := by
  split <;> rfl

private theorem ite_ite_none {α} (c d : Prop) [Decidable c] [Decidable d] (x : Option α) :
    (if c then (if d then x else none) else none) = if c ∧ d then x else none := by
  by_cases hc : c <;> by_cases hd : d <;> simp [hc, hd]

private theorem map_guard_eq {α β} {C C' : Prop} [Decidable C] [Decidable C'] {x : α} {y : β} {g : α → β}
    (h : C ↔ C') (hv : C → g x = y) :
    (if C then some x else none).map g = if C' then some y else none := by
  by_cases hc : C
  · rw [if_pos hc, if_pos (h.1 hc), Option.map_some, hv hc]
  · rw [if_neg hc, if_neg (fun h' => hc (h.2 h'))]; rfl

private theorem guard_eq_some {α} {C : Prop} [Decidable C] {x y : α}
    (h : (if C then some x else none) = some y) : C ∧ x = y := by
  by_cases hc : C
  · rw [if_pos hc] at h; exact ⟨hc, Option.some.inj h⟩
  · rw [if_neg hc] at h; cases h

private theorem extract_congr {α} (d : Array α) {a b a' b' : Nat} (h1 : a = a') (h2 : b = b') :
    d.extract a b = d.extract a' b' := by subst h1; subst h2; rfl

private theorem hdr_len (f : Flat) : (hdr f).shard_len_64 = f.len64 := by cases f; rfl
private theorem hdr_count (f : Flat) : (hdr f).shard_count = f.count := by cases f; rfl
private theorem hdr_data (f : Flat) : (hdr f).data = ⟨0, f.data.size⟩ := by cases f; rfl

private theorem vecResize_size (d : Array Block) (m : Nat) : (vecResize d m).size = m := by
  unfold vecResize
  split
  · simp only [Array.size_extract]; omega
  · simp only [Array.size_append, Array.size_replicate]; omega

/-- `dist2_mut`: same panics, same blocks read; the two views start at `pos * len` and `(pos + dist) * len` (where
    `Flat.putDist2` writes) and have `len` blocks each -/
theorem src_dist2_mut (f : Flat) (hs : f.data.size < 18446744073709551616) (pos dist : Nat) :
    (ShardsRefMut_dist2_mut (hdr f) pos dist).map (fun v => (v.1.get f.data, v.2.get f.data)) = f.dist2 pos dist ∧
    (∀ a b, ShardsRefMut_dist2_mut (hdr f) pos dist = some (a, b) →
      a = ⟨pos * f.len64, f.len64⟩ ∧ b = ⟨pos * f.len64 + dist * f.len64, f.len64⟩) := by
  simp only [ShardsRefMut_dist2_mut, Flat.dist2]
  simp only [View.from, View.splitAt, View.upTo, sliceFrom, splitAtMut, sliceTo, View.get]
  simp only [bind_ite]
  simp only [hdr_len, hdr_data]
  simp only [Array.size_extract, Array.extract_extract, Nat.zero_add, ite_ite_none]
  constructor
  · apply map_guard_eq
    · omega
    · intro h
      dsimp only
      refine Prod.ext ?_ ?_ <;> apply extract_congr <;> omega
  · intro a b h
    obtain ⟨-, hx⟩ := guard_eq_some h
    cases hx
    exact ⟨rfl, rfl⟩

/-- `dist4_mut`: same panics, same blocks; views at `pos`, `pos + dist`, `pos + 2 dist`, `pos + 3 dist` (× `len`) -/
theorem src_dist4_mut (f : Flat) (hs : f.data.size < 18446744073709551616) (pos dist : Nat) :
    (ShardsRefMut_dist4_mut (hdr f) pos dist).map
        (fun v => (v.1.get f.data, v.2.1.get f.data, v.2.2.1.get f.data, v.2.2.2.get f.data)) = f.dist4 pos dist ∧
    (∀ a b c d, ShardsRefMut_dist4_mut (hdr f) pos dist = some (a, b, c, d) →
      a = ⟨pos * f.len64, f.len64⟩ ∧ b = ⟨pos * f.len64 + dist * f.len64, f.len64⟩ ∧
      c = ⟨pos * f.len64 + dist * f.len64 * 2, f.len64⟩ ∧
      d = ⟨pos * f.len64 + dist * f.len64 * 2 + dist * f.len64, f.len64⟩) := by
  simp only [ShardsRefMut_dist4_mut, Flat.dist4]
  simp only [View.from, View.splitAt, View.upTo, sliceFrom, splitAtMut, sliceTo, View.get]
  simp only [bind_ite]
  simp only [hdr_len, hdr_data]
  simp only [Array.size_extract, Array.extract_extract, Nat.zero_add, ite_ite_none]
  constructor
  · apply map_guard_eq
    · omega
    · intro h
      dsimp only
      refine Prod.ext ?_ (Prod.ext ?_ (Prod.ext ?_ ?_)) <;> apply extract_congr <;> omega
  · intro a b c d h
    obtain ⟨-, hx⟩ := guard_eq_some h
    cases hx
    exact ⟨rfl, rfl, rfl, rfl⟩

/-- `flat2_mut`: same panics, same blocks; the views start at `x * len` and `y * len` (where `Flat.putFlat2` writes)
    and have `count * len` blocks each -/
theorem src_flat2_mut (f : Flat) (hs : f.data.size < 18446744073709551616) (x y count : Nat) :
    (ShardsRefMut_flat2_mut (hdr f) x y count).map (fun v => (v.1.get f.data, v.2.get f.data)) = f.flat2 x y count ∧
    (∀ a b, ShardsRefMut_flat2_mut (hdr f) x y count = some (a, b) →
      a = ⟨x * f.len64, count * f.len64⟩ ∧ b = ⟨y * f.len64, count * f.len64⟩) := by
  simp only [ShardsRefMut_flat2_mut, Flat.flat2]
  simp only [View.range, View.splitAt, View.upTo, sliceRange, splitAtMut, sliceTo, View.get]
  simp only [bind_ite]
  simp only [hdr_len, hdr_data]
  by_cases hxy : x * f.len64 < y * f.len64
  · simp only [if_pos hxy]
    simp only [Array.size_extract, Array.extract_extract, Nat.zero_add, ite_ite_none]
    constructor
    · apply map_guard_eq
      · omega
      · intro h
        dsimp only
        refine Prod.ext ?_ ?_ <;> apply extract_congr <;> omega
    · intro a b h
      obtain ⟨hc, hx⟩ := guard_eq_some h
      cases hx
      refine ⟨?_, ?_⟩ <;> congr 1 <;> omega
  · simp only [if_neg hxy]
    simp only [Array.size_extract, Array.extract_extract, Nat.zero_add, ite_ite_none]
    constructor
    · apply map_guard_eq
      · omega
      · intro h
        dsimp only
        refine Prod.ext ?_ ?_ <;> apply extract_congr <;> omega
    · intro a b h
      obtain ⟨hc, hx⟩ := guard_eq_some h
      cases hx
      refine ⟨?_, ?_⟩ <;> congr 1 <;> omega

/-- `Index` / `IndexMut` of both structs: the shard `index` of the model, at `index * len` (where `Flat.setShard`
    writes). `index = usize::MAX` is excluded (`hi`) because `index + 1` overflows there (debug build: panic; the
    `Nat` arithmetic of the model does not see it: with `len = 0` the model would return the empty shard). -/
theorem src_index (f : Flat) (hs : f.data.size < 18446744073709551616) (i : Nat)
    (hi : i + 1 < 18446744073709551616) :
    (ShardsRefMut_index (hdr f) i).map (fun v => v.get f.data) = f.shard i ∧
    ShardsRefMut_index_mut (hdr f) i = ShardsRefMut_index (hdr f) i ∧
    Shards_index (hdr f) i = ShardsRefMut_index (hdr f) i ∧
    Shards_index_mut (hdr f) i = ShardsRefMut_index (hdr f) i ∧
    (∀ v, ShardsRefMut_index (hdr f) i = some v → v = ⟨i * f.len64, f.len64⟩) := by
  refine ⟨?_, rfl, rfl, rfl, ?_⟩
  · simp only [ShardsRefMut_index, Flat.shard]
    simp only [View.range, sliceRange, View.get]
    simp only [bind_ite]
    simp only [hdr_len, hdr_data]
    simp only [Nat.zero_add, ite_ite_none, Nat.add_mul, Nat.one_mul]
    apply map_guard_eq
    · omega
    · intro h
      dsimp only
      apply extract_congr <;> omega
  · intro v
    simp only [ShardsRefMut_index]
    simp only [View.range]
    simp only [bind_ite]
    simp only [hdr_len, hdr_data]
    simp only [Nat.zero_add, ite_ite_none, Nat.add_mul, Nat.one_mul]
    intro h
    obtain ⟨hc, hx⟩ := guard_eq_some h
    cases hx
    congr 1 <;> omega

/-- `ShardsRefMut::new` on a whole vector: the model's `Flat.new` -/
theorem src_new (count len64 : Nat) (data : Array Block) (hs : data.size < 18446744073709551616) :
    (ShardsRefMut_new count len64 ⟨0, data.size⟩).map
        (fun s => (⟨s.shard_count, s.shard_len_64, s.data.get data⟩ : Flat)) = Flat.new count len64 data ∧
    (∀ s, ShardsRefMut_new count len64 ⟨0, data.size⟩ = some s →
      s = ⟨count, len64, ⟨0, count * len64⟩⟩) := by
  simp only [ShardsRefMut_new, Flat.new]
  simp only [View.upTo, sliceTo, View.get]
  simp only [bind_ite]
  simp only [ite_ite_none, ge_iff_le]
  constructor
  · apply map_guard_eq
    · omega
    · intro h
      simp only [Nat.zero_add]
  · intro s h
    obtain ⟨hc, hx⟩ := guard_eq_some h
    cases hx
    rfl

/-- `split_at_mut`: the two halves of the model -/
theorem src_split_at_mut (f : Flat) (hs : f.data.size < 18446744073709551616) (mid : Nat) :
    (ShardsRefMut_split_at_mut (hdr f) mid).map
        (fun p => ((⟨p.1.shard_count, p.1.shard_len_64, p.1.data.get f.data⟩ : Flat),
                   (⟨p.2.shard_count, p.2.shard_len_64, p.2.data.get f.data⟩ : Flat))) = f.splitAt mid ∧
    (∀ l r, ShardsRefMut_split_at_mut (hdr f) mid = some (l, r) →
      l = ⟨mid, f.len64, ⟨0, mid * f.len64⟩⟩ ∧
      r = ⟨f.count - mid, f.len64, ⟨mid * f.len64, (f.count - mid) * f.len64⟩⟩) := by
  simp only [ShardsRefMut_split_at_mut, Flat.splitAt, ShardsRefMut_new, Flat.new]
  simp only [View.splitAt, View.upTo, splitAtMut, sliceTo, View.get]
  simp only [bind_ite_none, Option.bind_some]
  simp only [hdr_len, hdr_data, hdr_count]
  simp only [Array.size_extract, Array.extract_extract, Nat.zero_add, ite_ite_none, ge_iff_le]
  constructor
  · apply map_guard_eq
    · omega
    · intro h
      dsimp only
      refine Prod.ext ?_ ?_ <;> dsimp only <;> congr 1 <;> apply extract_congr <;> omega
  · intro l r h
    obtain ⟨hc, hx⟩ := guard_eq_some h
    cases hx
    exact ⟨rfl, rfl⟩

/-- `zero(start..end)` and `zero(start..)`: the filled range of the model -/
theorem src_zero (f : Flat) (hs : f.data.size < 18446744073709551616) (start end_ : Nat) :
    ((ShardsRefMut_zero (hdr f) ⟨.included start, .excluded end_⟩).map
        (fun v => ({ f with data := fillRange f.data v.off (v.off + v.len) } : Flat)) = f.zero start end_) ∧
    ((ShardsRefMut_zero (hdr f) ⟨.included start, .unbounded⟩).map
        (fun v => ({ f with data := fillRange f.data v.off (v.off + v.len) } : Flat)) = f.zeroFrom start) := by
  simp only [ShardsRefMut_zero, Flat.zero, Flat.zeroFrom, Bound.cases]
  simp only [View.range]
  simp only [bind_ite]
  simp only [hdr_len, hdr_data, hdr_count]
  simp only [Nat.zero_add, ite_ite_none]
  constructor
  · apply map_guard_eq
    · omega
    · intro h
      dsimp only
      congr 2
      omega
  · apply map_guard_eq
    · omega
    · intro h
      dsimp only
      congr 2
      omega

/-- `copy_within`: the memmove of the model -/
theorem src_copy_within (f : Flat) (hs : f.data.size < 18446744073709551616) (src dest count : Nat) :
    (ShardsRefMut_copy_within (hdr f) src dest count).map
        (fun p => ({ f with data := moveRange f.data p.1.off p.2 p.1.len } : Flat)) = f.copyWithin src dest count := by
  simp only [ShardsRefMut_copy_within, Flat.copyWithin]
  simp only [View.copyWithin]
  simp only [bind_ite]
  simp only [hdr_len, hdr_data]
  simp only [Nat.zero_add, ite_ite_none, Nat.add_sub_cancel_left]
  apply map_guard_eq
  · omega
  · intro h
    rfl

/-- `Shards::new`, `resize`, `as_ref_mut` -/
theorem src_shards_new_resize (f : Flat) (count len64 : Nat) (hs : count * len64 < 18446744073709551616) :
    Shards_new = hdr Flat.empty ∧
    Shards_resize (hdr f) count len64 = some (hdr (f.resize count len64), count * len64) ∧
    (f.resize count len64).data.size = count * len64 ∧
    Shards_as_ref_mut (hdr (f.resize count len64)) = some (hdr (f.resize count len64)) := by
  have hsz : (f.resize count len64).data.size = count * len64 := vecResize_size _ _
  refine ⟨rfl, ?_, hsz, ?_⟩
  · simp only [Shards_resize, Option.bind_some, bind_ite, if_pos hs, hdr, vecResize_size, Flat.resize]
  · simp only [Shards_as_ref_mut, ShardsRefMut_new, View.upTo]
    simp only [bind_ite]
    simp only [hdr, vecResize_size, Flat.resize, if_pos hs, ge_iff_le, Nat.le_refl, if_true]

end RS.SrcS
