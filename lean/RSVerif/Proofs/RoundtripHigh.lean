/-
  C01, high rate, one symbol lane: `decodeHigh` restores every missing original
  (`RT.decodeHigh_sym`), given the locator hypothesis `LocSpec`.
-/
import RSVerif.Proofs.RoundtripAux

namespace RS
open Polynomial GF16 Finset ShardAlg
namespace RT

/-! ### the erasure indicator -/

theorem getD_erasuresHigh (k r : Nat) (recv : Nat → Bool) {u : Nat} (hu : u < 65536) :
    (erasuresHigh k r recv).getD u 0 =
      if u < r then (if recv u = true then 0 else 1)
      else if u < npow2 r then 1
      else if u < npow2 r + k then (if recv u = true then 0 else 1) else 0 := by
  unfold erasuresHigh
  simp only [Array.getD_eq_getD_getElem?, Array.getElem?_ofFn, hu, dite_true, Option.getD_some]

theorem mem_marked_high (k r : Nat) (recv : Nat → Bool) (u : Nat) :
    u ∈ marked (erasuresHigh k r recv) ↔ u < 65536 ∧
      ((u < r ∧ recv u = false) ∨ (r ≤ u ∧ u < npow2 r) ∨
        (npow2 r ≤ u ∧ u < npow2 r + k ∧ recv u = false)) := by
  unfold marked
  rw [mem_filter, mem_range]
  apply and_congr_right
  intro hu
  rw [getD_erasuresHigh k r recv hu]
  generalize npow2 r = m at *
  by_cases h1 : u < r
  · cases hrv : recv u <;> simp [h1]
  · by_cases h2 : u < m
    · simp [h1, h2]
      omega
    · by_cases h3 : u < m + k
      · cases hrv : recv u <;> simp [h1, h2, h3]
        omega
      · simp [h1, h2, h3]

theorem card_marked_high (k r : Nat) (recv : Nat → Bool) (hrm : r ≤ npow2 r)
    (hEnough : ((List.range k).filter (fun i => !recv (npow2 r + i))).length
      ≤ ((List.range r).filter (fun j => recv j)).length) :
    (marked (erasuresHigh k r recv)).card ≤ npow2 r := by
  rw [length_filter_range, length_filter_range] at hEnough
  have hsub : marked (erasuresHigh k r recv) ⊆
      ((range r).filter (fun j => recv j = false) ∪ Ico r (npow2 r)) ∪
        ((range k).filter (fun i => (!recv (npow2 r + i)) = true)).image (fun i => npow2 r + i) := by
    intro u hu
    rw [mem_marked_high k r recv] at hu
    rw [mem_union, mem_union, mem_filter, mem_range, mem_Ico, mem_image]
    rcases hu with ⟨_, h | h | h⟩
    · exact Or.inl (Or.inl h)
    · exact Or.inl (Or.inr h)
    · refine Or.inr ⟨u - npow2 r, ?_, by omega⟩
      rw [mem_filter, mem_range, show npow2 r + (u - npow2 r) = u by omega, h.2.2]
      exact ⟨by omega, rfl⟩
  have h1 := card_le_card hsub
  have h2 := card_union_le ((range r).filter (fun j => recv j = false) ∪ Ico r (npow2 r))
    (((range k).filter (fun i => (!recv (npow2 r + i)) = true)).image (fun i => npow2 r + i))
  have h3 := card_union_le ((range r).filter (fun j => recv j = false)) (Ico r (npow2 r))
  have h4 := card_image_le (s := (range k).filter (fun i => (!recv (npow2 r + i)) = true))
    (f := fun i => npow2 r + i)
  have h5 := card_filter_false recv r
  rw [Nat.card_Ico] at h3
  omega

/-! ### the theorem -/

/-- **C01, high rate, one lane.** -/
theorem decodeHigh_sym (s : Sched) (lw : Array Nat) (k r : Nat) (hsup : supportsHigh k r = true)
    (recv : Nat → Bool) (d : Nat → Sym) (mem : Array Sym)
    (hsz : mem.size = highDecWorkCount k r)
    (hO : ∀ i, i < k → recv (npow2 r + i) = true → rd mem (npow2 r + i) = d i)
    (hR : ∀ j, j < r → recv j = true →
      rd mem j = xsum k (fun i => gmul (cauchyHigh k r j i) (d i)))
    (hEnough : ((List.range k).filter (fun i => !recv (npow2 r + i))).length
      ≤ ((List.range r).filter (fun j => recv j)).length)
    (hLoc : LocSpec (erasuresHigh k r recv)
      (evalPolyWith lw (erasuresHigh k r recv) (npow2 r + k)))
    {i : Nat} (hi : i < k) (hri : recv (npow2 r + i) = false) :
    rd (decodeHigh s lw k r recv mem) (npow2 r + i) = d i := by
  obtain ⟨e, N, heN, hN, hm, hn, hre, hmk⟩ := high_work_geometry hsup
  obtain ⟨F, hFdeg, hFo, hFz, hFr⟩ := codeword_high hsup d
  have h65 := two_pow_le_65536 hN
  have hrm : r ≤ npow2 r := by rw [hm]; exact hre
  have hmn : npow2 r + k ≤ highDecWorkCount k r := by rw [hm, hn]; exact hmk
  have hn65 : highDecWorkCount k r ≤ 65536 := by rw [hn]; exact h65
  -- the erased set
  have hE : ∀ u ∈ marked (erasuresHigh k r recv), u < highDecWorkCount k r := by
    intro u hu
    rw [mem_marked_high k r recv] at hu
    omega
  have hcard := card_marked_high k r recv hrm hEnough
  have hdeg : (F * locPoly (marked (erasuresHigh k r recv))).degree
      < ((highDecWorkCount k r : Nat) : WithBot Nat) := by
    refine lt_of_lt_of_le (degree_mul_locPoly_lt _ hFdeg) ?_
    exact_mod_cast (show highDecWorkCount k r - npow2 r
      + (marked (erasuresHigh k r recv)).card ≤ highDecWorkCount k r by omega)
  -- unfold the decoder
  have hv : (decodePrepare (fun p => decide (p < r) || (decide (npow2 r ≤ p) &&
      decide (p < npow2 r + k))) recv
      (evalPolyWith lw (erasuresHigh k r recv) (npow2 r + k)) mem).size
        = highDecWorkCount k r := by
    simp [decodePrepare, hsz]
  obtain ⟨_, hs2, _⟩ := decode_core_sizes hN hn s _ hv (npow2 r + k) (npow2 r + k)
  have hunf : decodeHigh s lw k r recv mem =
      decodeReveal (npow2 r) (npow2 r + k) recv
        (evalPolyWith lw (erasuresHigh k r recv) (npow2 r + k))
        (fft s (formalDerivative (ifft s (decodePrepare (fun p => decide (p < r) ||
          (decide (npow2 r ≤ p) && decide (p < npow2 r + k))) recv
          (evalPolyWith lw (erasuresHigh k r recv) (npow2 r + k)) mem) 0
          (highDecWorkCount k r) (npow2 r + k) 0)) 0 (highDecWorkCount k r) (npow2 r + k) 0) := by
    unfold decodeHigh
    simp only []
    rw [hv, hs2]
  have hdata : ∀ p, (decide (p < r) || (decide (npow2 r ≤ p) && decide (p < npow2 r + k))) = true
      ↔ p < r ∨ (npow2 r ≤ p ∧ p < npow2 r + k) := by
    intro p; simp
  have hwE : npow2 r + i ∈ marked (erasuresHigh k r recv) := by
    rw [mem_marked_high k r recv]
    exact ⟨by omega, Or.inr (Or.inr ⟨by omega, by omega, hri⟩)⟩
  rw [hunf]
  have hmain := decode_generic hN hn s F 1 one_ne_zero (marked (erasuresHigh k r recv)) hE hdeg
    (fun p => decide (p < r) || (decide (npow2 r ≤ p) && decide (p < npow2 r + k))) recv
    (evalPolyWith lw (erasuresHigh k r recv) (npow2 r + k)) mem hsz hmn
    (fun p hp => by rw [hdata] at hp; omega)
    (fun p hpn hd hr => by
      rw [hdata] at hd
      have hpE : p ∉ marked (erasuresHigh k r recv) := by
        intro hpE
        rw [mem_marked_high k r recv] at hpE
        rw [hr] at hpE
        simp at hpE
        omega
      refine ⟨?_, ?_⟩
      · rcases hd with h | ⟨h1, h2⟩
        · rw [hR p h hr, hFr p (by omega)]
        · obtain ⟨i', rfl⟩ : ∃ i', p = npow2 r + i' := ⟨p - npow2 r, by omega⟩
          rw [hO i' (by omega) hr, hFo i' (by omega)]
      · have h := (hLoc p (by omega)).2
        rw [erase_eq_of_notMem hpE] at h
        rw [h, one_mul])
    (fun p hpn hc => by
      rw [hdata] at hc
      by_cases hpo : p < npow2 r + k
      · left
        rw [mem_marked_high k r recv]
        refine ⟨by omega, ?_⟩
        cases hrv : recv p
        · have h3 : p < r ∨ (r ≤ p ∧ p < npow2 r) ∨ (npow2 r ≤ p ∧ p < npow2 r + k) := by omega
          rcases h3 with h | h | h
          · exact Or.inl ⟨h, rfl⟩
          · exact Or.inr (Or.inl h)
          · exact Or.inr (Or.inr ⟨h.1, h.2, rfl⟩)
        · rw [hrv] at hc
          simp at hc
          exact Or.inr (Or.inl (by omega))
      · right
        exact hFz p (by omega) hpn)
    hwE (by omega) (npow2 r) (npow2 r + k) (by omega) (by omega) hri
    (hLoc _ (by omega)).1 (by rw [one_mul]; exact (hLoc _ (by omega)).2)
  rw [hmain, hFo i hi]

end RT
end RS

#print axioms RS.RT.decodeHigh_sym
