/-
  The thin API layers AS TRANSLATED FROM TODAY'S SOURCE (Gen/SrcGlue.lean, regenerated from src/reed_solomon.rs,
  src/rate.rs, src/rate/rate_{high,low,default}.rs on every run): every wrapper method hands ALL its parameters, IN
  ORDER, to the method of the same name of the one object it wraps (or, for the default-rate codecs, of whichever
  dedicated codec is installed), and the constructors build exactly the documented object.  These are decidable
  properties of the 42 translated bodies, checked by the kernel.
-/
import RSVerif.Gen.SrcGlue

namespace RS.SrcG
open RS.RustG

/-- `g` is parameter number `i` -/
def isP (i : Nat) (g : G) : Bool :=
  match g with
  | .p j => j == i
  | _ => false

/-- the arguments are exactly the parameters `0 … n-1`, in order -/
def argsInOrder (n : Nat) (args : List G) : Bool :=
  args.length == n && (args.zipIdx.all fun x => isP x.2 x.1)

def isSelfField (f : String) (g : G) : Bool :=
  match g with
  | .field .self_ f' => f' == f
  | _ => false

def isL0 (g : G) : Bool :=
  match g with
  | .l 0 => true
  | _ => false

/-- `recv.m(p0, …, p(n-1))` -/
def isMethodDeleg (recv : G → Bool) (m : String) (n : Nat) (g : G) : Bool :=
  match g with
  | .method r m' args => recv r && m' == m && argsInOrder n args
  | _ => false

/-- `Path::m(p0, …, p(n-1))` -/
def isCallDeleg (path : String) (n : Nat) (g : G) : Bool :=
  match g with
  | .call (.path p) args => p == path && argsInOrder n args
  | _ => false

/-- `match self.0 { Inner::High(x) => x.m(p…), Inner::Low(x) => x.m(p…), Inner::None => unreachable!() }` -/
def isInnerDeleg (inner : String) (m : String) (n : Nat) (g : G) : Bool :=
  match g with
  | .match_ (.field .self_ "0") [(v1, true, b1), (v2, true, b2), (v3, false, .unreachable)] =>
    v1 == inner ++ "::High" && v2 == inner ++ "::Low" && v3 == inner ++ "::None" &&
    isMethodDeleg isL0 m n b1 && isMethodDeleg isL0 m n b2
  | _ => false

/-- `let mut work = work.unwrap_or_default(); Self::reset_work(p0, p1, p2, &mut work)?; Ok(Self { engine, work })` -/
def isRateNew (g : G) : Bool :=
  match g with
  | .seq [.bind (.method (.p 4) "unwrap_or_default" []),
          .eff (.try_ (.call (.path "Self::reset_work") [.p 0, .p 1, .p 2, .l 0]))]
      (.ok (.selfStruct [("engine", .p 3), ("work", .l 0)])) => true
  | _ => false

/-- `Self::reset_work(p0, p1, p2, &mut self.work)` -/
def isRateReset (g : G) : Bool :=
  match g with
  | .call (.path "Self::reset_work") [.p 0, .p 1, .p 2, .field .self_ "work"] => true
  | _ => false

/-- `(self.engine, self.work)` -/
def isParts (g : G) : Bool :=
  match g with
  | .tuple [.field .self_ "engine", .field .self_ "work"] => true
  | _ => false

/-- `Ok(Self(DefaultRateXxx::new(p0, p1, p2, DefaultEngine::new(), None)?))` -/
def isRsNew (codec : String) (g : G) : Bool :=
  match g with
  | .ok (.selfTuple (.try_ (.call (.path c) [.p 0, .p 1, .p 2, .call (.path "DefaultEngine::new") [], .none_]))) =>
    c == codec ++ "::new"
  | _ => false

def lookup (name : String) : Option (Nat × G) := (glue.find? (·.1 == name)).map (·.2)

/-- the body of `name` has `n` parameters and satisfies `chk` -/
def holds (name : String) (n : Nat) (chk : G → Bool) : Bool :=
  match lookup name with
  | some (k, g) => k == n && chk g
  | none => false

/-- `ReedSolomonEncoder` / `ReedSolomonDecoder` are the default-rate codecs with `DefaultEngine`: every method
    forwards all its parameters in order to the same method of `self.0`; `new` builds the default-rate codec on a
    fresh `DefaultEngine` with no recycled work; `supports` is `DefaultRate::supports` -/
theorem rs_wrappers_delegate :
    holds "ReedSolomonEncoder::add_original_shard" 1 (isMethodDeleg (isSelfField "0") "add_original_shard" 1) = true ∧
    holds "ReedSolomonEncoder::encode" 0 (isMethodDeleg (isSelfField "0") "encode" 0) = true ∧
    holds "ReedSolomonEncoder::reset" 3 (isMethodDeleg (isSelfField "0") "reset" 3) = true ∧
    holds "ReedSolomonEncoder::new" 3 (isRsNew "DefaultRateEncoder") = true ∧
    holds "ReedSolomonEncoder::supports" 2 (isCallDeleg "DefaultRate::supports" 2) = true ∧
    holds "ReedSolomonDecoder::add_original_shard" 2 (isMethodDeleg (isSelfField "0") "add_original_shard" 2) = true ∧
    holds "ReedSolomonDecoder::add_recovery_shard" 2 (isMethodDeleg (isSelfField "0") "add_recovery_shard" 2) = true ∧
    holds "ReedSolomonDecoder::decode" 0 (isMethodDeleg (isSelfField "0") "decode" 0) = true ∧
    holds "ReedSolomonDecoder::reset" 3 (isMethodDeleg (isSelfField "0") "reset" 3) = true ∧
    holds "ReedSolomonDecoder::new" 3 (isRsNew "DefaultRateDecoder") = true ∧
    holds "ReedSolomonDecoder::supports" 2 (isCallDeleg "DefaultRate::supports" 2) = true := by
  decide

/-- the provided methods of the traits forward everything in order -/
theorem trait_defaults_delegate :
    holds "Rate::encoder" 5 (isCallDeleg "Self::RateEncoder::new" 5) = true ∧
    holds "Rate::decoder" 5 (isCallDeleg "Self::RateDecoder::new" 5) = true ∧
    holds "RateEncoder::supports" 2 (isCallDeleg "Self::Rate::supports" 2) = true ∧
    holds "RateEncoder::validate" 3 (isCallDeleg "Self::Rate::validate" 3) = true ∧
    holds "RateDecoder::supports" 2 (isCallDeleg "Self::Rate::supports" 2) = true ∧
    holds "RateDecoder::validate" 3 (isCallDeleg "Self::Rate::validate" 3) = true := by
  decide

/-- the dedicated codecs: adds go to the work object, `new` = default work + `reset_work` + `{ engine, work }`,
    `reset` = `reset_work` on the own work, `into_parts` = `(engine, work)` -/
theorem dedicated_codecs_delegate :
    (∀ c ∈ ["HighRateEncoder", "LowRateEncoder"],
      holds (c ++ "::add_original_shard") 1 (isMethodDeleg (isSelfField "work") "add_original_shard" 1) = true ∧
      holds (c ++ "::new") 5 isRateNew = true ∧ holds (c ++ "::reset") 3 isRateReset = true ∧
      holds (c ++ "::into_parts") 0 isParts = true) ∧
    (∀ c ∈ ["HighRateDecoder", "LowRateDecoder"],
      holds (c ++ "::add_original_shard") 2 (isMethodDeleg (isSelfField "work") "add_original_shard" 2) = true ∧
      holds (c ++ "::add_recovery_shard") 2 (isMethodDeleg (isSelfField "work") "add_recovery_shard" 2) = true ∧
      holds (c ++ "::new") 5 isRateNew = true ∧ holds (c ++ "::reset") 3 isRateReset = true ∧
      holds (c ++ "::into_parts") 0 isParts = true) := by
  decide

/-- the default-rate codecs forward to whichever dedicated codec is installed -/
theorem default_codecs_delegate :
    holds "DefaultRateEncoder::add_original_shard" 1 (isInnerDeleg "InnerEncoder" "add_original_shard" 1) = true ∧
    holds "DefaultRateEncoder::encode" 0 (isInnerDeleg "InnerEncoder" "encode" 0) = true ∧
    holds "DefaultRateEncoder::into_parts" 0 (isInnerDeleg "InnerEncoder" "into_parts" 0) = true ∧
    holds "DefaultRateDecoder::add_original_shard" 2 (isInnerDeleg "InnerDecoder" "add_original_shard" 2) = true ∧
    holds "DefaultRateDecoder::add_recovery_shard" 2 (isInnerDeleg "InnerDecoder" "add_recovery_shard" 2) = true ∧
    holds "DefaultRateDecoder::decode" 0 (isInnerDeleg "InnerDecoder" "decode" 0) = true ∧
    holds "DefaultRateDecoder::into_parts" 0 (isInnerDeleg "InnerDecoder" "into_parts" 0) = true := by
  decide

def isSelf (g : G) : Bool :=
  match g with
  | .self_ => true
  | _ => false

/-- the public primitives of the three SIMD engines enter their `#[target_feature]` function with all arguments in
    order, which (after the hook's trace call) runs the safe body / the generic `utils::eval_poly` with all arguments
    in order; `NoSimd` runs the same safe bodies directly, and the provided `Engine::eval_poly` (used by `Naive` and
    `NoSimd`) is `utils::eval_poly` -/
theorem engine_entry_points_delegate :
    (∀ e ∈ ["ssse3", "avx2", "neon"], ∀ E ∈ [if e = "ssse3" then "Ssse3" else if e = "avx2" then "Avx2" else "Neon"],
      holds (E ++ "::fft") 5 (isMethodDeleg isSelf ("fft_private_" ++ e) 5) = true ∧
      holds (E ++ "::ifft") 5 (isMethodDeleg isSelf ("ifft_private_" ++ e) 5) = true ∧
      holds (E ++ "::mul") 2 (isMethodDeleg isSelf ("mul_" ++ e) 2) = true ∧
      holds (E ++ "::eval_poly") 2 (isCallDeleg ("Self::eval_poly_" ++ e) 2) = true ∧
      holds (E ++ "::fft_private_" ++ e) 5 (isMethodDeleg isSelf "fft_private" 5) = true ∧
      holds (E ++ "::ifft_private_" ++ e) 5 (isMethodDeleg isSelf "ifft_private" 5) = true ∧
      holds (E ++ "::eval_poly_" ++ e) 2 (isCallDeleg "utils::eval_poly" 2) = true) ∧
    holds "NoSimd::fft" 5 (isMethodDeleg isSelf "fft_private" 5) = true ∧
    holds "NoSimd::ifft" 5 (isMethodDeleg isSelf "ifft_private" 5) = true ∧
    holds "Engine::eval_poly" 2 (isCallDeleg "utils::eval_poly" 2) = true := by
  decide

/-- every codec belongs to the rate of its own family and every rate builds the codecs of its own family: the provided
    trait methods (`RateEncoder::supports` = `Self::Rate::supports`, …) therefore resolve inside the family -/
def assocOk (a : String × String × String × String) : Bool :=
  let fam (s : String) : String :=
    if s = "HighRate" || s = "HighRateEncoder" || s = "HighRateDecoder" then "High"
    else if s = "LowRate" || s = "LowRateEncoder" || s = "LowRateDecoder" then "Low"
    else if s = "DefaultRate" || s = "DefaultRateEncoder" || s = "DefaultRateDecoder" then "Default" else "?"
  fam a.1 != "?" && fam a.1 == fam a.2.2.2 &&
  ((a.2.1 == "Rate" && a.2.2.1 == "RateEncoder" && a.2.2.2 == fam a.1 ++ "RateEncoder") ||
   (a.2.1 == "Rate" && a.2.2.1 == "RateDecoder" && a.2.2.2 == fam a.1 ++ "RateDecoder") ||
   (a.2.1 == "RateEncoder" && a.2.2.1 == "Rate" && a.2.2.2 == fam a.1 ++ "Rate" && a.1 == fam a.1 ++ "RateEncoder") ||
   (a.2.1 == "RateDecoder" && a.2.2.1 == "Rate" && a.2.2.2 == fam a.1 ++ "Rate" && a.1 == fam a.1 ++ "RateDecoder"))

theorem assoc_types_stay_in_family : assocTypes.length = 12 ∧ assocTypes.all assocOk = true := by
  decide

end RS.SrcG
