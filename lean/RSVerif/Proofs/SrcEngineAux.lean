/-
  General lemmas for Proofs/SrcEngineSpec.lean: the loop combinators of the translated transform loop
  nests (`whileSt`, `forRangeE` of Model/RustEngine.lean) in "elimination" form, the interpreter
  (`runE`, Model/EngineInterp.lean) over accumulated operations (`Ext`), the single shard operations as
  butterflies of Model/EngineSeq.lean, and the arithmetic of the loop counters.
-/
import RSVerif.Model.EngineInterp
import RSVerif.Model.EngineSeq
import RSVerif.Proofs.Laws

namespace RS
namespace SrcEng

open RS.RustE RS.SrcE ShardAlg

variable {V : Type} [ShardAlg V]

/-! ### running accumulated operations -/

/-- `o'` is `o` followed by operations whose effect on the memory is `F` -/
def Ext (o o' : Array EOp) (F : Array V → Array V) : Prop :=
  ∀ a : Array V, runE o' a = F (runE o a)

theorem runE_empty (a : Array V) : runE #[] a = a := rfl

theorem runE_push (ops : Array EOp) (e : EOp) (a : Array V) :
    runE (ops.push e) a = stepEOp (runE ops a) e := by
  unfold runE; rw [Array.foldl_push]

theorem Ext.refl (o : Array EOp) : Ext (V := V) o o (fun a => a) := fun _ => rfl

theorem Ext.push {o o' : Array EOp} {F : Array V → Array V} (h : Ext o o' F) (e : EOp) :
    Ext o (o'.push e) (fun a => stepEOp (F a) e) := by
  intro a; rw [runE_push, h a]

theorem Ext.trans {o o' o'' : Array EOp} {F G : Array V → Array V} (h : Ext o o' F)
    (h' : Ext o' o'' G) : Ext o o'' (fun a => G (F a)) := by
  intro a; rw [h' a, h a]

theorem Ext.congr {o o' : Array EOp} {F G : Array V → Array V} (h : Ext o o' F)
    (hFG : ∀ a, F a = G a) : Ext o o' G := by
  intro a; rw [h a, hFG]

theorem Ext.run {o' : Array EOp} {F : Array V → Array V} (h : Ext #[] o' F) (a : Array V) :
    runE o' a = F a := h a

/-! ### the loop combinators -/

/-- a `while` loop over the state sequence `s 0, s 1, …, s n` (CPS form: `hw` names the loop so that
    condition and body are found by unification) -/
theorem whileSt_elim {σ : Type} {cond : σ → Option Bool}
    {body : σ → Array EOp → Option (σ × Array EOp)} {x0 : σ} {ops : Array EOp} {fuel : Nat}
    {w : Option (σ × Array EOp)} {Goal : Prop}
    (hw : whileSt fuel cond body x0 ops = w)
    (s : Nat → σ) (F : Nat → Array V → Array V) (n : Nat)
    (h0 : s 0 = x0) (hn : n < fuel)
    (hc : ∀ j, j < n → cond (s j) = some true) (hl : cond (s n) = some false)
    (hb : ∀ j, j < n → ∀ o, ∃ o', body (s j) o = some (s (j + 1), o') ∧ Ext o o' (F j))
    (k : ∀ o', w = some (s n, o') →
      Ext ops o' (fun x => (List.range n).foldl (fun x j => F j x) x) → Goal) : Goal := by
  suffices h : ∃ o', whileSt fuel cond body x0 ops = some (s n, o') ∧
      Ext ops o' (fun x => (List.range n).foldl (fun x j => F j x) x) by
    obtain ⟨o', h1, h2⟩ := h
    exact k o' (hw ▸ h1) h2
  subst h0
  clear hw k
  induction n generalizing s F fuel ops with
  | zero =>
    obtain ⟨f, rfl⟩ : ∃ f, fuel = f + 1 := ⟨fuel - 1, by omega⟩
    refine ⟨ops, ?_, Ext.refl _⟩
    rw [whileSt, hl]
  | succ n ih =>
    obtain ⟨f, rfl⟩ : ∃ f, fuel = f + 1 := ⟨fuel - 1, by omega⟩
    obtain ⟨o1, hb1, he1⟩ := hb 0 (by omega) ops
    obtain ⟨o2, hw2, he2⟩ := ih (s := fun j => s (j + 1)) (F := fun j => F (j + 1)) (ops := o1)
      (fuel := f) (by omega) (fun j hj => hc (j + 1) (by omega)) hl
      (fun j hj o => hb (j + 1) (by omega) o)
    refine ⟨o2, ?_, ?_⟩
    · rw [whileSt, hc 0 (by omega)]
      simp only [hb1]
      exact hw2
    · intro a
      rw [he2 a, he1 a, List.range_succ_eq_map]
      dsimp only
      rw [List.foldl_cons, List.foldl_map]

/-- a `for` loop all of whose iterations succeed -/
theorem forRangeE_elim {f : Nat → Array EOp → Option (Array EOp)} {a b : Nat} {ops : Array EOp}
    {w : Option (Array EOp)} {Goal : Prop}
    (hw : forRangeE a b f ops = w) (F : Nat → Array V → Array V) (m : Nat) (hm : b - a = m)
    (hf : ∀ j, j < m → ∀ o, ∃ o', f (a + j) o = some o' ∧ Ext o o' (F j))
    (k : ∀ o', w = some o' →
      Ext ops o' (fun x => (List.range m).foldl (fun x j => F j x) x) → Goal) : Goal := by
  suffices h : ∃ o', forRangeE a b f ops = some o' ∧
      Ext ops o' (fun x => (List.range m).foldl (fun x j => F j x) x) by
    obtain ⟨o', h1, h2⟩ := h
    exact k o' (hw ▸ h1) h2
  clear hw k
  unfold forRangeE
  rw [hm]
  clear hm
  induction m with
  | zero => exact ⟨ops, rfl, Ext.refl _⟩
  | succ m ih =>
    obtain ⟨o1, h1, he1⟩ := ih (fun j hj => hf j (by omega))
    obtain ⟨o2, h2, he2⟩ := hf m (by omega) o1
    refine ⟨o2, ?_, ?_⟩
    · rw [List.range'_1_concat, List.foldlM_append, h1]
      simpa using h2
    · intro x
      rw [he2 x, he1 x, List.range_succ]
      dsimp only
      rw [List.foldl_append]
      rfl

theorem blockStarts_lt' {trunc D q : Nat} (hD : 0 < D) :
    q < (trunc + D - 1) / D ↔ q * D < trunc := by
  rw [Nat.lt_iff_add_one_le, Nat.le_div_iff_mul_le hD, Nat.add_mul, Nat.one_mul]
  omega

/-- the block loop `r = 0; while r < truncated_size { …; r += step }` -/
theorem rloop_elim {body : Nat → Array EOp → Option (Nat × Array EOp)} {trunc : Nat}
    {ops : Array EOp} {w : Option (Nat × Array EOp)} {Goal : Prop}
    (hw : whileSt 70000 (fun r => if r < trunc then some true else some false) body 0 ops = w)
    (step : Nat) (G : Nat → Array V → Array V) (hstep : 0 < step) (ht : trunc ≤ 65536)
    (hb : ∀ r, r < trunc → ∀ o, ∃ o', body r o = some (r + step, o') ∧ Ext o o' (G r))
    (k : ∀ r' o', w = some (r', o') →
      Ext ops o' (fun x => (blockStarts trunc step).foldl (fun x r => G r x) x) → Goal) : Goal := by
  have hcnt : (trunc + step - 1) / step ≤ trunc := by
    rcases Nat.eq_zero_or_pos trunc with h | h
    · subst h
      have : (0 + step - 1) / step = 0 := Nat.div_eq_of_lt (by omega)
      omega
    · apply Nat.le_of_lt_succ
      rw [Nat.div_lt_iff_lt_mul hstep]
      calc trunc + step - 1 < trunc + step := by omega
        _ = (trunc + 1) + (step - 1) := by omega
        _ ≤ (trunc + 1) + (trunc + 1 - 1) * (step - 1) + (step - 1) := by omega
        _ = (trunc + 1) * step := by
          obtain ⟨s', rfl⟩ : ∃ s', step = s' + 1 := ⟨step - 1, by omega⟩
          simp only [Nat.add_sub_cancel, Nat.mul_add, Nat.mul_one, Nat.add_mul, Nat.one_mul]
          omega
  refine whileSt_elim hw (s := fun j => j * step) (F := fun j => G (j * step))
    (n := (trunc + step - 1) / step) (by simp) (by omega) ?_ ?_ ?_ ?_
  · intro j hj
    have := (blockStarts_lt' (trunc := trunc) hstep).1 hj
    simp only [if_pos this]
  · have : ¬ ((trunc + step - 1) / step) * step < trunc := by
      rw [← blockStarts_lt' hstep]; omega
    simp only [if_neg this]
  · intro j hj o
    have := (blockStarts_lt' (trunc := trunc) hstep).1 hj
    obtain ⟨o', h1, h2⟩ := hb (j * step) this o
    exact ⟨o', by rw [h1, Nat.succ_mul], h2⟩
  · intro o' h1 h2
    refine k _ o' h1 ?_
    intro x
    rw [h2 x]
    unfold blockStarts
    dsimp only
    rw [List.foldl_map]

/-! ### single operations as butterflies -/

theorem setIfInBounds_rd_self (a : Array V) (x : Nat) : a.setIfInBounds x (rd a x) = a := by
  apply Array.ext
  · simp
  · intro i h1 h2
    rw [Array.getElem_setIfInBounds]
    split
    · next h => subst h; simp [rd, Array.getD, h2]
    · rfl

theorem skewZero_eq {i : Nat} (h : skewZero i = true) : skewElem i = 0#16 := by
  simpa [skewZero] using h

theorem fftBfly_zero [LawfulShardAlg V] (a : Array V) (x y : Nat) :
    fftBfly 0#16 a x y = a.setIfInBounds y (add (rd a y) (rd a x)) := by
  unfold fftBfly
  simp only [LawfulShardAlg.zero_smul, LawfulShardAlg.add_zero, setIfInBounds_rd_self]

theorem ifftBfly_zero [LawfulShardAlg V] (a : Array V) (x y : Nat) :
    ifftBfly 0#16 a x y = a.setIfInBounds y (add (rd a y) (rd a x)) := by
  unfold ifftBfly
  simp only [LawfulShardAlg.zero_smul, LawfulShardAlg.add_zero, setIfInBounds_rd_self]

theorem step_xor (a : Array V) (d s : Nat) :
    stepEOp a (.xor d s) = a.setIfInBounds d (add (rd a d) (rd a s)) := rfl

theorem step_fftPartial (a : Array V) (x y i : Nat) :
    stepEOp a (.fftPartial x y i) = fftBfly (skewElem i) a x y := rfl

theorem step_ifftPartial (a : Array V) (x y i : Nat) :
    stepEOp a (.ifftPartial x y i) = ifftBfly (skewElem i) a x y := rfl

theorem step_mulAdd_xor (a : Array V) (x y i : Nat) :
    stepEOp (stepEOp a (.mulAdd x y i)) (.xor y x) = fftBfly (skewElem i) a x y := rfl

theorem step_xor_mulAdd (a : Array V) (x y i : Nat) :
    stepEOp (stepEOp a (.xor y x)) (.mulAdd x y i) = ifftBfly (skewElem i) a x y := rfl

theorem step_xorWithin (a : Array V) (x y n : Nat) :
    stepEOp a (.xorWithin x y n) = xorWithin a x y n := rfl

/-- `if log_m == GF_MODULUS { xor(b, a) } else { fft_butterfly_partial(a, b, log_m) }` -/
theorem fftPartial_or_xor [LawfulShardAlg V] (i x y : Nat) (o : Array EOp) :
    ∃ o', (if skewZero i = true then some (o.push (.xor y x))
            else some (o.push (.fftPartial x y i))) = some o' ∧
      Ext (V := V) o o' (fun a => fftBfly (skewElem i) a x y) := by
  by_cases h : skewZero i = true
  · refine ⟨_, if_pos h, ?_⟩
    intro a
    show _ = fftBfly (skewElem i) (runE o a) x y
    rw [runE_push, step_xor, skewZero_eq h, fftBfly_zero]
  · exact ⟨_, if_neg h, fun a => by rw [runE_push, step_fftPartial]⟩

/-- `if log_m != GF_MODULUS { mul_add(a, b, log_m) } xor(b, a)` (Naive fft) -/
theorem mulAdd_xor_or_xor [LawfulShardAlg V] (i x y : Nat) (o : Array EOp) :
    ∃ o', (if skewZero i = true then some (o.push (.xor y x))
            else some ((o.push (.mulAdd x y i)).push (.xor y x))) = some o' ∧
      Ext (V := V) o o' (fun a => fftBfly (skewElem i) a x y) := by
  by_cases h : skewZero i = true
  · refine ⟨_, if_pos h, ?_⟩
    intro a
    show _ = fftBfly (skewElem i) (runE o a) x y
    rw [runE_push, step_xor, skewZero_eq h, fftBfly_zero]
  · exact ⟨_, if_neg h, fun a => by rw [runE_push, runE_push, step_mulAdd_xor]⟩

/-- `xor(b, a); if log_m != GF_MODULUS { mul_add(a, b, log_m) }` (Naive ifft) -/
theorem xor_then_mulAdd [LawfulShardAlg V] (i x y : Nat) (o : Array EOp) :
    ∃ o', (if skewZero i = true then some (o.push (.xor y x))
            else some ((o.push (.xor y x)).push (.mulAdd x y i))) = some o' ∧
      Ext (V := V) o o' (fun a => ifftBfly (skewElem i) a x y) := by
  by_cases h : skewZero i = true
  · refine ⟨_, if_pos h, ?_⟩
    intro a
    show _ = ifftBfly (skewElem i) (runE o a) x y
    rw [runE_push, step_xor, skewZero_eq h, ifftBfly_zero]
  · exact ⟨_, if_neg h, fun a => by rw [runE_push, runE_push, step_xor_mulAdd]⟩

/-- `if log_m == GF_MODULUS { xor(b, a) } else { ifft_butterfly_partial(a, b, log_m) }` -/
theorem ifftPartial_or_xor [LawfulShardAlg V] (i x y : Nat) (o : Array EOp) :
    ∃ o', (if skewZero i = true then some (o.push (.xor y x))
            else some (o.push (.ifftPartial x y i))) = some o' ∧
      Ext (V := V) o o' (fun a => ifftBfly (skewElem i) a x y) := by
  by_cases h : skewZero i = true
  · refine ⟨_, if_pos h, ?_⟩
    intro a
    show _ = ifftBfly (skewElem i) (runE o a) x y
    rw [runE_push, step_xor, skewZero_eq h, ifftBfly_zero]
  · exact ⟨_, if_neg h, fun a => by rw [runE_push, step_ifftPartial]⟩

/-- the same with the loop counter carried along (last layer of `fft_private`) -/
theorem fftPartial_or_xor_pair [LawfulShardAlg V] (i x y r' : Nat) (o : Array EOp) :
    ∃ o', (if skewZero i = true then some (r', o.push (.xor y x))
            else some (r', o.push (.fftPartial x y i))) = some (r', o') ∧
      Ext (V := V) o o' (fun a => fftBfly (skewElem i) a x y) := by
  by_cases h : skewZero i = true
  · refine ⟨_, if_pos h, ?_⟩
    intro a
    show _ = fftBfly (skewElem i) (runE o a) x y
    rw [runE_push, step_xor, skewZero_eq h, fftBfly_zero]
  · exact ⟨_, if_neg h, fun a => by rw [runE_push, step_fftPartial]⟩

theorem fftBfly_of_zero [LawfulShardAlg V] {i : Nat} (h : skewZero i = true) (a : Array V)
    (x y : Nat) : fftBfly (skewElem i) a x y = a.setIfInBounds y (add (rd a y) (rd a x)) := by
  rw [skewZero_eq h, fftBfly_zero]

theorem ifftBfly_of_zero [LawfulShardAlg V] {i : Nat} (h : skewZero i = true) (a : Array V)
    (x y : Nat) : ifftBfly (skewElem i) a x y = a.setIfInBounds y (add (rd a y) (rd a x)) := by
  rw [skewZero_eq h, ifftBfly_zero]

/-- `xor_within(data, pos + dist, pos, dist)` is the layer of xor-only butterflies -/
theorem xorWithin_bflyRun [LawfulShardAlg V] {i : Nat} (h : skewZero i = true) (a : Array V)
    (pos d : Nat) : xorWithin a (pos + d) pos d = bflyRun (ifftBfly (skewElem i)) a pos 0 d := by
  unfold xorWithin bflyRun
  congr 1
  funext a j
  rw [ifftBfly_of_zero h, Nat.add_zero, Nat.add_right_comm]

/-! ### arithmetic of the counters -/

theorem npow2Aux_pow (f k n : Nat) (hk : k ≤ n) (hf : n - k ≤ f) :
    npow2Aux f (2 ^ k) (2 ^ n) = 2 ^ n := by
  induction f generalizing k with
  | zero =>
    have : k = n := by omega
    subst this; rfl
  | succ f ih =>
    unfold npow2Aux
    by_cases h : 2 ^ n ≤ 2 ^ k
    · rw [if_pos h]
      have := Nat.pow_le_pow_right (n := 2) (by omega) hk
      omega
    · rw [if_neg h, ← Nat.pow_succ']
      have hkn : k ≠ n := fun e => h (e ▸ Nat.le_refl _)
      exact ih (k + 1) (by omega) (by omega)

theorem npow2_pow (n : Nat) (hn : n ≤ 16) : npow2 (2 ^ n) = 2 ^ n := by
  have : n = 0 ∨ n = 1 ∨ n = 2 ∨ n = 3 ∨ n = 4 ∨ n = 5 ∨ n = 6 ∨ n = 7 ∨ n = 8 ∨ n = 9 ∨ n = 10
      ∨ n = 11 ∨ n = 12 ∨ n = 13 ∨ n = 14 ∨ n = 15 ∨ n = 16 := by omega
  rcases this with h | h | h | h | h | h | h | h | h | h | h | h | h | h | h | h | h <;>
    subst h <;> decide

theorem pow_le_65536 {n : Nat} (hn : n ≤ 16) : 2 ^ n ≤ 65536 :=
  Nat.pow_le_pow_right (n := 2) (by omega) hn

/-- the halving counter of `Naive::fft` -/
theorem halving (n j : Nat) (hj : j < n) :
    2 ^ n / 2 ^ (j + 1) = 2 ^ (n - 1 - j) ∧ 0 < 2 ^ (n - 1 - j) ∧ 2 * 2 ^ (n - 1 - j) ≤ 2 ^ n := by
  refine ⟨?_, Nat.two_pow_pos _, ?_⟩
  · rw [Nat.pow_div (by omega) (by omega)]
    congr 1; omega
  · rw [← Nat.pow_succ']
    exact Nat.pow_le_pow_right (by omega) (by omega)

theorem fold_rev_pow {α : Type} (G : Nat → α → α) (n : Nat) (a : α) :
    (List.range n).foldl (fun a j => G (2 ^ (n - 1 - j)) a) a
      = ((List.range n).reverse.map (2 ^ ·)).foldl (fun a d => G d a) a := by
  have : (List.range n).reverse = (List.range n).map (fun j => n - 1 - j) := by
    rw [List.range_eq_range', List.reverse_range']
    simp [List.range_eq_range']
  rw [this, List.map_map, List.foldl_map]
  rfl

theorem four_pow (k : Nat) : 4 ^ k = 2 ^ (2 * k) := by
  rw [Nat.pow_mul]

/-- the counters `dist` (first fact), `dist4` (second fact) of `fft_private` in pass `j`
    (the translated loop state is `(dist4, dist)`, the order of declaration) -/
theorem quarter (n j : Nat) (hj : j < n / 2) :
    2 ^ n / 4 ^ (j + 1) = 2 ^ (n - 2 - 2 * j) ∧ 2 ^ n / 4 ^ j = 4 * 2 ^ (n - 2 - 2 * j) ∧
      0 < 2 ^ (n - 2 - 2 * j) ∧ 4 * 2 ^ (n - 2 - 2 * j) ≤ 2 ^ n := by
  have e4 : 4 * 2 ^ (n - 2 - 2 * j) = 2 ^ (n - 2 * j) := by
    rw [show (4 : Nat) = 2 ^ 2 from rfl, ← Nat.pow_add]
    congr 1; omega
  refine ⟨?_, ?_, Nat.two_pow_pos _, ?_⟩
  · rw [four_pow, Nat.pow_div (by omega) (by omega)]
    congr 1; omega
  · rw [four_pow, Nat.pow_div (by omega) (by omega), e4]
  · rw [e4]; exact Nat.pow_le_pow_right (by omega) (by omega)

theorem quarter_next (n j : Nat) : 2 ^ n / 4 ^ (j + 1 + 1) = 2 ^ n / 4 ^ (j + 1) / 4 := by
  rw [Nat.div_div_eq_div_mul, ← Nat.pow_succ]

/-- … and after the last pass -/
theorem quarter_end (n : Nat) :
    2 ^ n / 4 ^ (n / 2 + 1) = 0 ∧ 2 ^ n / 4 ^ (n / 2) = if n % 2 = 1 then 2 else 1 := by
  constructor
  · rw [four_pow]
    exact Nat.div_eq_of_lt (Nat.pow_lt_pow_right (by omega) (by omega))
  · rw [four_pow, Nat.pow_div (by omega) (by omega)]
    split
    · rw [show n - 2 * (n / 2) = 1 by omega]
    · rw [show n - 2 * (n / 2) = 0 by omega]

/-- the counters `(dist, dist4)` of `ifft_private` -/
theorem four_pow_facts (n j : Nat) (hj : j < n / 2) :
    4 ^ j = 2 ^ (2 * j) ∧ 4 ^ (j + 1) = 4 * 2 ^ (2 * j) ∧ 0 < 2 ^ (2 * j) ∧
      4 * 2 ^ (2 * j) ≤ 2 ^ n := by
  have e4 : 4 * 2 ^ (2 * j) = 2 ^ (2 * j + 2) := by
    rw [Nat.pow_add]; omega
  refine ⟨four_pow j, ?_, Nat.two_pow_pos _, ?_⟩
  · rw [four_pow, e4]; rfl
  · rw [e4]; exact Nat.pow_le_pow_right (by omega) (by omega)

theorem four_pow_end (n : Nat) :
    ¬ 4 ^ (n / 2 + 1) ≤ 2 ^ n ∧ (4 ^ (n / 2) < 2 ^ n ↔ n % 2 = 1) ∧
      (n % 2 = 1 → 4 ^ (n / 2) = 2 ^ (n - 1)) := by
  refine ⟨?_, ?_, ?_⟩
  · rw [four_pow, Nat.not_le]
    exact Nat.pow_lt_pow_right (by omega) (by omega)
  · rw [four_pow, Nat.pow_lt_pow_iff_right (by omega)]
    omega
  · intro h
    rw [four_pow]
    congr 1; omega

end SrcEng
end RS
