/- Composition of the three source-level results about the butterflies on the flat working memory:
   `dist2_mut` read from the source (`SrcShardsSpec.src_dist2_mut`) + the translated `NoSimd` partial butterflies on the
   blocks (`SrcKernelBlocks.src_kernels_are_block_ops`) = the model's `Flat.fftBfly` / `Flat.ifftBfly`, panics included. -/
import RSVerif.Proofs.SrcKernelBlocks
import RSVerif.Proofs.SrcShardsSpec
import RSVerif.Proofs.FlatSpec

namespace RS.SrcK
open RS RS.Flat RS.SrcS RS.RustS

theorem dist2_sizes (f : Flat) (pos dist : Nat) (a b : Array Block) (h : f.dist2 pos dist = some (a, b)) :
    a.size = b.size := by
  rw [dist2_raw] at h
  split at h
  · rename_i hc
    cases h
    simp only [Array.size_extract]
    omega
  · cases h

/-- the source's `dist2_mut` followed by the source's partial fft butterfly, written back through the two views,
    is `Flat.fftBfly (g^m)` — `None` (a panic of the slicing) exactly when the model panics -/
theorem src_fft_butterfly_on_flat (m : Nat) (f : Flat) (hs : f.data.size < 18446744073709551616) (pos dist : Nat) :
    ((ShardsRefMut_dist2_mut (hdr f) pos dist).map fun v =>
        let r := NoSimd_fft_butterfly_partial (lut16 (fun s => gmul (gexp m) s))
                   (v.1.get f.data).toList (v.2.get f.data).toList
        f.putDist2 pos dist r.1.toArray r.2.toArray) = f.fftBfly (gexp m) pos dist := by
  have h1 := (src_dist2_mut f hs pos dist).1
  unfold Flat.fftBfly
  rw [← h1]
  cases hv : ShardsRefMut_dist2_mut (hdr f) pos dist with
  | none => rfl
  | some v =>
    rw [hv] at h1
    simp only [Option.map_some, Option.bind_some]
    have hsz := dist2_sizes f pos dist _ _ h1.symm
    obtain ⟨-, -, ⟨e1, e2⟩, -⟩ := src_kernels_are_block_ops m _ _ hsz
    rw [e1, e2]

/-- the same for the inverse butterfly -/
theorem src_ifft_butterfly_on_flat (m : Nat) (f : Flat) (hs : f.data.size < 18446744073709551616) (pos dist : Nat) :
    ((ShardsRefMut_dist2_mut (hdr f) pos dist).map fun v =>
        let r := NoSimd_ifft_butterfly_partial (lut16 (fun s => gmul (gexp m) s))
                   (v.1.get f.data).toList (v.2.get f.data).toList
        f.putDist2 pos dist r.1.toArray r.2.toArray) = f.ifftBfly (gexp m) pos dist := by
  have h1 := (src_dist2_mut f hs pos dist).1
  unfold Flat.ifftBfly
  rw [← h1]
  cases hv : ShardsRefMut_dist2_mut (hdr f) pos dist with
  | none => rfl
  | some v =>
    rw [hv] at h1
    simp only [Option.map_some, Option.bind_some]
    have hsz := dist2_sizes f pos dist _ _ h1.symm
    obtain ⟨-, -, -, e1, e2⟩ := src_kernels_are_block_ops m _ _ hsz
    rw [e1, e2]

end RS.SrcK

#print axioms RS.SrcK.src_fft_butterfly_on_flat
#print axioms RS.SrcK.src_ifft_butterfly_on_flat
