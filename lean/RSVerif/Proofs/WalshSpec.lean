/-
  Semantics of the Walsh–Hadamard transform `fwht` and of `eval_poly` over `ZMod 65535`.
-/
import RSVerif.Proofs.WalshSpecAux

open Finset

namespace RS

/-! ### one radix-4 pass of the array code = two radix-2 levels -/

/-- the radix-4 butterfly in `ZMod 65535` -/
def bflyZ (v0 v1 v2 v3 : Z) (k : ℕ) : Z :=
  if k = 0 then (v0 + v1) + (v2 + v3)
  else if k = 1 then (v0 - v1) + (v2 - v3)
  else if k = 2 then (v0 + v1) - (v2 + v3)
  else (v0 - v1) - (v2 - v3)

theorem bfly4_cast (v0 v1 v2 v3 k : ℕ) (b0 : v0 < 65536) (b1 : v1 < 65536) (b2 : v2 < 65536)
    (b3 : v3 < 65536) : bfly4 v0 v1 v2 v3 k < 65536 ∧
      ((bfly4 v0 v1 v2 v3 k : ℕ) : Z) = bflyZ v0 v1 v2 v3 k := by
  unfold bfly4 bflyZ
  split
  · refine ⟨addMod_lt _ _ (addMod_lt _ _ b0 b1) (addMod_lt _ _ b2 b3), ?_⟩
    rw [if_pos rfl, addMod_cast _ _ (addMod_lt _ _ b0 b1) (addMod_lt _ _ b2 b3),
      addMod_cast _ _ b0 b1, addMod_cast _ _ b2 b3]
  · refine ⟨addMod_lt _ _ (subMod_lt _ _ b0 b1) (subMod_lt _ _ b2 b3), ?_⟩
    rw [if_neg (by decide), if_pos rfl,
      addMod_cast _ _ (subMod_lt _ _ b0 b1) (subMod_lt _ _ b2 b3),
      subMod_cast _ _ b0 b1, subMod_cast _ _ b2 b3]
  · refine ⟨subMod_lt _ _ (addMod_lt _ _ b0 b1) (addMod_lt _ _ b2 b3), ?_⟩
    rw [if_neg (by decide), if_neg (by decide), if_pos rfl,
      subMod_cast _ _ (addMod_lt _ _ b0 b1) (addMod_lt _ _ b2 b3),
      addMod_cast _ _ b0 b1, addMod_cast _ _ b2 b3]
  · rename_i h0 h1 h2
    refine ⟨subMod_lt _ _ (subMod_lt _ _ b0 b1) (subMod_lt _ _ b2 b3), ?_⟩
    rw [if_neg h0, if_neg h1, if_neg h2,
      subMod_cast _ _ (subMod_lt _ _ b0 b1) (subMod_lt _ _ b2 b3),
      subMod_cast _ _ b0 b1, subMod_cast _ _ b2 b3]

/-- the array read in `ZMod 65535` -/
def toZ (a : Array ℕ) (x : ℕ) : Z := ((a.getD x 0 : ℕ) : Z)

theorem fwhtAt_cast (d t : ℕ) (a : Array ℕ) (hb : ∀ i, a.getD i 0 < 65536) (hd : 0 < d) (p : ℕ)
    (hp : p / (4 * d) * (4 * d) < t) :
    fwhtAt d t a p < 65536 ∧ ((fwhtAt d t a p : ℕ) : Z) = lvl (2 * d) (lvl d (toZ a)) p := by
  unfold fwhtAt
  rw [if_pos hp]
  have hD : 0 < 4 * d := by omega
  generalize hq : p / (4 * d) = q
  have hgp : q * (4 * d) ≤ p := hq ▸ Nat.div_mul_le_self _ _
  have ho : p - q * (4 * d) = p % (4 * d) := by
    have := Nat.div_add_mod' p (4 * d); rw [hq] at this; omega
  have holt : p - q * (4 * d) < 4 * d := ho ▸ Nat.mod_lt _ hD
  generalize hk : (p - q * (4 * d)) / d = k
  generalize hr : (p - q * (4 * d)) % d = r
  have hrlt : r < d := hr ▸ Nat.mod_lt _ hd
  have hkr : p - q * (4 * d) = k * d + r := by rw [← hk, ← hr]; exact (Nat.div_add_mod' _ _).symm
  have hk4 : k < 4 := by rw [← hk]; exact (Nat.div_lt_iff_lt_mul hd).2 holt
  have hp' : p = q * (4 * d) + k * d + r := by omega
  have hpd : p / d = q * 4 + k := by
    have e : p = r + (q * 4 + k) * d := by rw [hp']; ring
    rw [e, Nat.add_mul_div_right r _ hd, Nat.div_eq_of_lt hrlt, Nat.zero_add]
  have h1 : p / d % 2 = k % 2 := by omega
  have h2 : p / (2 * d) % 2 = k / 2 := by
    rw [Nat.mul_comm 2 d, ← Nat.div_div_eq_div_mul, hpd]; omega
  have b0 := hb (q * (4 * d) + r)
  have b1 := hb (q * (4 * d) + r + d)
  have b2 := hb (q * (4 * d) + r + 2 * d)
  have b3 := hb (q * (4 * d) + r + 3 * d)
  obtain ⟨hlt, hc⟩ := bfly4_cast _ _ _ _ k b0 b1 b2 b3
  refine ⟨hlt, ?_⟩
  rw [hc]
  unfold bflyZ toZ
  have hk' : k = 0 ∨ k = 1 ∨ k = 2 ∨ k = 3 := by omega
  rcases hk' with rfl | rfl | rfl | rfl
  · have e0 : q * (4 * d) + r = p := by omega
    have e1 : q * (4 * d) + r + d = p + d := by omega
    have e2 : q * (4 * d) + r + 2 * d = p + 2 * d := by omega
    have e3 : q * (4 * d) + r + 3 * d = p + 2 * d + d := by omega
    rw [lvl2_00 _ d p hd h1 h2]
    rw [e3, e2, e1, e0, if_pos rfl]
  · have e0 : q * (4 * d) + r = p - d := by omega
    have e1 : q * (4 * d) + r + d = p := by omega
    have e2 : q * (4 * d) + r + 2 * d = p + 2 * d - d := by omega
    have e3 : q * (4 * d) + r + 3 * d = p + 2 * d := by omega
    rw [lvl2_10 _ d p hd h1 h2]
    rw [e3, e2, e1, e0, if_neg (by decide), if_pos rfl]
  · have e0 : q * (4 * d) + r = p - 2 * d := by omega
    have e1 : q * (4 * d) + r + d = p - 2 * d + d := by omega
    have e2 : q * (4 * d) + r + 2 * d = p := by omega
    have e3 : q * (4 * d) + r + 3 * d = p + d := by omega
    rw [lvl2_01 _ d p h1 h2]
    rw [e3, e2, e1, e0, if_neg (by decide), if_neg (by decide), if_pos rfl]
  · have e0 : q * (4 * d) + r = p - 2 * d - d := by omega
    have e1 : q * (4 * d) + r + d = p - 2 * d := by omega
    have e2 : q * (4 * d) + r + 2 * d = p - d := by omega
    have e3 : q * (4 * d) + r + 3 * d = p := by omega
    rw [lvl2_11 _ d p h1 h2]
    rw [e3, e2, e1, e0, if_neg (by decide), if_neg (by decide), if_neg (by decide)]

/-! ### one pass on arrays -/

/-- all entries (and the default) are `u16` values -/
def Bounded (a : Array ℕ) : Prop := ∀ i, a.getD i 0 < 65536

theorem getD_of_ge (a : Array ℕ) (i : ℕ) (h : a.size ≤ i) : a.getD i 0 = 0 := by
  simp [Array.getD, Nat.not_lt.2 h]

theorem bounded_of (a : Array ℕ) (n : ℕ) (hs : a.size = n) (h : ∀ i, i < n → a.getD i 0 < 65536) :
    Bounded a := by
  intro i
  by_cases hi : i < n
  · exact h i hi
  · rw [getD_of_ge a i (by omega)]; decide

theorem toZ_of_ge (a : Array ℕ) (i : ℕ) (h : a.size ≤ i) : toZ a i = 0 := by
  unfold toZ; rw [getD_of_ge a i h, Nat.cast_zero]

theorem part_eq_zero_of_ge (b n : ℕ) (f : ℕ → Z) (p : ℕ) (hf : ∀ p, n ≤ p → f p = 0)
    (hdvd : 2 ^ b ∣ n) (hp : n ≤ p) : part b f p = 0 := by
  unfold part
  refine Finset.sum_eq_zero fun x _ => ?_
  obtain ⟨m, rfl⟩ := hdvd
  have h1 : m ≤ p / 2 ^ b := by
    rw [Nat.le_div_iff_mul_le (Nat.two_pow_pos b), Nat.mul_comm]; exact hp
  have h2 : 2 ^ b * m ≤ p / 2 ^ b * 2 ^ b + x := by
    rw [Nat.mul_comm]
    exact Nat.le_trans (Nat.mul_le_mul_right _ h1) (Nat.le_add_right _ _)
  rw [hf _ h2, mul_zero]

theorem fwhtLayer_part (b d : ℕ) (hd : d = 2 ^ b) (hb : b + 2 ≤ 16) (a : Array ℕ) (f : ℕ → Z)
    (hs : a.size = 65536) (hbd : Bounded a) (hf : ∀ p, 65536 ≤ p → f p = 0)
    (h : toZ a = part b f) :
    (fwhtLayer d 65536 a).size = 65536 ∧ Bounded (fwhtLayer d 65536 a) ∧
      toZ (fwhtLayer d 65536 a) = part (b + 2) f := by
  have hdpos : 0 < d := hd ▸ Nat.two_pow_pos b
  have hgrp : ∀ p, p < 65536 → p / (4 * d) * (4 * d) < 65536 := fun p hp =>
    Nat.lt_of_le_of_lt (Nat.div_mul_le_self _ _) hp
  refine ⟨by rw [fwhtLayer_size, hs], ?_, ?_⟩
  · intro p
    rw [fwhtLayer_getD, hs]
    by_cases hp : p < 65536
    · rw [if_pos hp]; exact (fwhtAt_cast d 65536 a hbd hdpos p (hgrp p hp)).1
    · rw [if_neg hp]; decide
  · funext p
    by_cases hp : p < 65536
    · have e1 : part (b + 1) f = lvl (2 ^ b) (part b f) :=
        funext fun q => part_succ b (by omega) f q
      have e2 : part (b + 1 + 1) f p = lvl (2 ^ (b + 1)) (part (b + 1) f) p :=
        part_succ (b + 1) (by omega) f p
      show _ = part (b + 1 + 1) f p
      rw [e2, e1, pow_succ', ← hd, ← h]
      unfold toZ
      rw [fwhtLayer_getD, hs, if_pos hp]
      exact (fwhtAt_cast d 65536 a hbd hdpos p (hgrp p hp)).2
    · have hp' : 65536 ≤ p := Nat.le_of_not_lt hp
      rw [toZ_of_ge _ _ (by rw [fwhtLayer_size, hs]; exact hp')]
      have hdvd : 2 ^ (b + 2) ∣ 65536 := by
        have : (65536 : ℕ) = 2 ^ 16 := by norm_num
        rw [this]; exact pow_dvd_pow 2 hb
      exact (part_eq_zero_of_ge (b + 2) 65536 f p hf hdvd hp').symm

/-! ### item 1: `fwht` computes the Walsh–Hadamard transform over `ZMod 65535` -/

/-- the Walsh–Hadamard transform of the first 65536 values of `f` -/
def wht (f : ℕ → Z) (y : ℕ) : Z := ∑ x ∈ range 65536, wsign x y * f x

theorem wht_congr (f g : ℕ → Z) (h : ∀ x, x < 65536 → f x = g x) (y : ℕ) : wht f y = wht g y :=
  Finset.sum_congr rfl fun x hx => by rw [h x (Finset.mem_range.1 hx)]

theorem fwht_toZ (a : Array ℕ) (hs : a.size = 65536) (hbd : Bounded a) :
    (fwht a 65536).size = 65536 ∧ Bounded (fwht a 65536) ∧
      ∀ y, y < 65536 → toZ (fwht a 65536) y = wht (toZ a) y := by
  have hf : ∀ p, 65536 ≤ p → toZ a p = 0 := fun p hp => toZ_of_ge a p (by rw [hs]; exact hp)
  have h0 : toZ a = part 0 (toZ a) := (part_zero _).symm
  unfold fwht
  simp only [List.foldl]
  obtain ⟨s1, b1, h1⟩ := fwhtLayer_part 0 1 (by norm_num) (by omega) a _ hs hbd hf h0
  obtain ⟨s2, b2, h2⟩ := fwhtLayer_part 2 4 (by norm_num) (by omega) _ _ s1 b1 hf h1
  obtain ⟨s3, b3, h3⟩ := fwhtLayer_part 4 16 (by norm_num) (by omega) _ _ s2 b2 hf h2
  obtain ⟨s4, b4, h4⟩ := fwhtLayer_part 6 64 (by norm_num) (by omega) _ _ s3 b3 hf h3
  obtain ⟨s5, b5, h5⟩ := fwhtLayer_part 8 256 (by norm_num) (by omega) _ _ s4 b4 hf h4
  obtain ⟨s6, b6, h6⟩ := fwhtLayer_part 10 1024 (by norm_num) (by omega) _ _ s5 b5 hf h5
  obtain ⟨s7, b7, h7⟩ := fwhtLayer_part 12 4096 (by norm_num) (by omega) _ _ s6 b6 hf h6
  obtain ⟨s8, b8, h8⟩ := fwhtLayer_part 14 16384 (by norm_num) (by omega) _ _ s7 b7 hf h7
  refine ⟨s8, b8, fun y hy => ?_⟩
  rw [h8]
  unfold part wht
  have e : (2 : ℕ) ^ (14 + 2) = 65536 := by norm_num
  rw [e, Nat.div_eq_of_lt hy]
  refine Finset.sum_congr rfl fun x _ => ?_
  rw [Nat.zero_mul, Nat.zero_add]

/-- **Item 1.** `fwht a 65536` is the Walsh–Hadamard transform of `a` over `ZMod 65535`. -/
theorem fwht_spec (a : Array ℕ) (hs : a.size = 65536) (hlt : ∀ i, i < 65536 → a.getD i 0 < 65536) :
    (fwht a 65536).size = 65536 ∧ (∀ i, (fwht a 65536).getD i 0 < 65536) ∧
      ∀ y, y < 65536 → (((fwht a 65536).getD y 0 : ℕ) : ZMod 65535) =
        ∑ x ∈ Finset.range 65536, wsign x y * ((a.getD x 0 : ℕ) : ZMod 65535) :=
  fwht_toZ a hs (bounded_of a 65536 hs hlt)

/-! ### item 3: the XOR-convolution theorem -/

theorem xor_xor_self (x j : ℕ) : (x ^^^ j) ^^^ j = x := by
  rw [Nat.xor_assoc, Nat.xor_self, Nat.xor_zero]

theorem eq_of_xor_eq_zero (x z : ℕ) (h : x ^^^ z = 0) : x = z := by
  have h' := xor_xor_self x z
  rw [h, Nat.zero_xor] at h'
  exact h'.symm

theorem xor_lt (x j : ℕ) (hx : x < 65536) (hj : j < 65536) : x ^^^ j < 65536 := by
  have e : (65536 : ℕ) = 2 ^ 16 := by norm_num
  rw [e] at hx hj ⊢
  exact Nat.xor_lt_two_pow hx hj

/-- `x ↦ x xor j` permutes `[0, 65536)` -/
theorem sum_xor_reindex (g : ℕ → Z) (j : ℕ) (hj : j < 65536) :
    ∑ x ∈ range 65536, g (x ^^^ j) = ∑ x ∈ range 65536, g x := by
  refine Finset.sum_nbij' (fun x => x ^^^ j) (fun x => x ^^^ j) ?_ ?_ ?_ ?_ ?_
  · intro x hx; exact Finset.mem_range.2 (xor_lt x j (Finset.mem_range.1 hx) hj)
  · intro x hx; exact Finset.mem_range.2 (xor_lt x j (Finset.mem_range.1 hx) hj)
  · intro x _; exact xor_xor_self x j
  · intro x _; exact xor_xor_self x j
  · intro x _; rfl

/-- XOR-convolution of the first 65536 values -/
def xconv (u v : ℕ → Z) (x : ℕ) : Z := ∑ j ∈ range 65536, u j * v (x ^^^ j)

/-- **Item 3.** the Walsh–Hadamard transform turns XOR-convolution into the pointwise product -/
theorem wht_xconv (u v : ℕ → Z) (y : ℕ) : wht (xconv u v) y = wht u y * wht v y := by
  unfold wht xconv
  have h1 : ∀ x ∈ range 65536, wsign x y * ∑ j ∈ range 65536, u j * v (x ^^^ j) =
      ∑ j ∈ range 65536, wsign x y * (u j * v (x ^^^ j)) := fun x _ => Finset.mul_sum _ _ _
  rw [Finset.sum_congr rfl h1, Finset.sum_comm]
  have h2 : ∀ j ∈ range 65536, ∑ x ∈ range 65536, wsign x y * (u j * v (x ^^^ j)) =
      (wsign j y * u j) * ∑ x ∈ range 65536, wsign x y * v x := by
    intro j hj
    have h3 : ∀ x ∈ range 65536, wsign x y * (u j * v (x ^^^ j)) =
        (fun x' => wsign (x' ^^^ j) y * (u j * v x')) (x ^^^ j) := by
      intro x _
      show _ = wsign ((x ^^^ j) ^^^ j) y * (u j * v (x ^^^ j))
      rw [xor_xor_self]
    rw [Finset.sum_congr rfl h3,
      sum_xor_reindex (fun x' => wsign (x' ^^^ j) y * (u j * v x')) j (Finset.mem_range.1 hj),
      Finset.mul_sum]
    refine Finset.sum_congr rfl fun x _ => ?_
    show wsign (x ^^^ j) y * (u j * v x) = _
    rw [wsign_xor_left]; ring
  rw [Finset.sum_congr rfl h2, ← Finset.sum_mul]

/-! ### item 2: orthogonality and involution -/

theorem wsign_two_pow_right (i : ℕ) (hi : i < 16) (x : ℕ) :
    wsign x (2 ^ i) = if x.testBit i then -1 else 1 := by
  rw [wsign_comm, wsign_two_pow i hi]

/-- the sum of a character -/
theorem sum_wsign (w : ℕ) (hw : w < 65536) :
    ∑ y ∈ range 65536, wsign y w = if w = 0 then ((65536 : ℕ) : Z) else 0 := by
  by_cases h0 : w = 0
  · subst h0
    rw [if_pos rfl, Finset.sum_congr rfl (fun y _ => wsign_zero_right y), Finset.sum_const,
      Finset.card_range, nsmul_eq_mul, mul_one]
  · rw [if_neg h0]
    obtain ⟨i, hi⟩ := Nat.exists_testBit_of_ne_zero h0
    have hi16 : i < 16 := by
      by_contra hge
      have hlt : w < 2 ^ i := Nat.lt_of_lt_of_le hw (by
        have e : (65536 : ℕ) = 2 ^ 16 := by norm_num
        rw [e]; exact Nat.pow_le_pow_right (by decide) (Nat.le_of_not_lt hge))
      rw [Nat.testBit_lt_two_pow hlt] at hi
      exact Bool.false_ne_true hi
    have hpow : 2 ^ i < 65536 := by
      have e : (65536 : ℕ) = 2 ^ 16 := by norm_num
      rw [e]; exact Nat.pow_lt_pow_right (by decide) hi16
    refine Finset.sum_involution (fun y _ => y ^^^ 2 ^ i) ?_ ?_ ?_ ?_
    · intro y _
      show wsign y w + wsign (y ^^^ 2 ^ i) w = 0
      rw [wsign_xor_left, wsign_two_pow i hi16, hi, if_pos rfl]; ring
    · intro y _ _ heq
      have h1 : (y ^^^ 2 ^ i).testBit i = y.testBit i := by rw [heq]
      rw [Nat.testBit_xor, Nat.testBit_two_pow_self] at h1
      cases hb : y.testBit i <;> rw [hb] at h1 <;> simp at h1
    · intro y hy
      exact Finset.mem_range.2 (xor_lt y _ (Finset.mem_range.1 hy) hpow)
    · intro y _
      exact xor_xor_self y _

/-- orthogonality of the Walsh functions -/
theorem wsign_orthogonal (x z : ℕ) (hx : x < 65536) (hz : z < 65536) :
    ∑ y ∈ range 65536, wsign x y * wsign y z = if x = z then ((65536 : ℕ) : Z) else 0 := by
  have h1 : ∀ y ∈ range 65536, wsign x y * wsign y z = wsign y (x ^^^ z) := fun y _ => by
    rw [wsign_xor_right, wsign_comm x y]
  rw [Finset.sum_congr rfl h1, sum_wsign _ (xor_lt x z hx hz)]
  by_cases hxz : x = z
  · subst hxz; rw [Nat.xor_self, if_pos rfl, if_pos rfl]
  · rw [if_neg hxz, if_neg (fun h => hxz (eq_of_xor_eq_zero x z h))]

/-- `H (H f) = 65536 • f` -/
theorem wht_wht' (f : ℕ → Z) (z : ℕ) (hz : z < 65536) :
    wht (wht f) z = ((65536 : ℕ) : Z) * f z := by
  unfold wht
  have h1 : ∀ y ∈ range 65536, wsign y z * ∑ x ∈ range 65536, wsign x y * f x =
      ∑ x ∈ range 65536, wsign y z * (wsign x y * f x) := fun y _ => Finset.mul_sum _ _ _
  rw [Finset.sum_congr rfl h1, Finset.sum_comm]
  have h2 : ∀ x ∈ range 65536, ∑ y ∈ range 65536, wsign y z * (wsign x y * f x) =
      (if x = z then ((65536 : ℕ) : Z) else 0) * f x := by
    intro x hx
    rw [← wsign_orthogonal x z (Finset.mem_range.1 hx) hz, Finset.sum_mul]
    refine Finset.sum_congr rfl fun y _ => ?_
    ring
  rw [Finset.sum_congr rfl h2]
  simp only [ite_mul, zero_mul]
  rw [Finset.sum_ite_eq' (range 65536) z, if_pos (Finset.mem_range.2 hz)]

/-- **Item 2.** the Walsh–Hadamard transform over `ZMod 65535` is an involution
    (`65536 ≡ 1`). -/
theorem wht_wht (f : ℕ → Z) (z : ℕ) (hz : z < 65536) : wht (wht f) z = f z := by
  rw [wht_wht' f z hz, Z_65536, one_mul]

/-- item 2 on arrays: applying `fwht` twice gives back the input modulo 65535 -/
theorem fwht_fwht (a : Array ℕ) (hs : a.size = 65536) (hlt : ∀ i, i < 65536 → a.getD i 0 < 65536)
    (y : ℕ) (hy : y < 65536) :
    (((fwht (fwht a 65536) 65536).getD y 0 : ℕ) : ZMod 65535) = ((a.getD y 0 : ℕ) : ZMod 65535) := by
  obtain ⟨s1, b1, h1⟩ := fwht_toZ a hs (bounded_of a 65536 hs hlt)
  obtain ⟨_, _, h2⟩ := fwht_toZ _ s1 b1
  show toZ (fwht (fwht a 65536) 65536) y = toZ a y
  rw [h2 y hy, wht_congr _ _ h1 y, wht_wht _ y hy]

/-! ### item 5: `eval_poly` -/

/-- the pointwise product step of `eval_poly` -/
def mulArr (e1 lw : Array ℕ) : Array ℕ :=
  Array.ofFn (n := e1.size) fun p =>
    addMod (e1.getD p.val 0 * lw.getD p.val 0 % 65536) (e1.getD p.val 0 * lw.getD p.val 0 / 65536)

theorem evalPolyWith_eq (lw er : Array ℕ) (t : ℕ) :
    evalPolyWith lw er t = fwht (mulArr (fwht er t) lw) 65536 := rfl

theorem mulArr_size (e1 lw : Array ℕ) : (mulArr e1 lw).size = e1.size := by
  unfold mulArr; exact Array.size_ofFn

theorem mulArr_getD (e1 lw : Array ℕ) (p : ℕ) (hp : p < e1.size) :
    (mulArr e1 lw).getD p 0 =
      addMod (e1.getD p 0 * lw.getD p 0 % 65536) (e1.getD p 0 * lw.getD p 0 / 65536) := by
  have hp' : p < (mulArr e1 lw).size := by rw [mulArr_size]; exact hp
  have h1 : (mulArr e1 lw).getD p 0 = (mulArr e1 lw)[p] := by simp [Array.getD, hp']
  rw [h1]
  show (Array.ofFn (n := e1.size) _)[p]'(by rw [Array.size_ofFn]; exact hp) = _
  rw [Array.getElem_ofFn]

theorem mulArr_spec (e1 lw : Array ℕ) (n : ℕ) (hs : e1.size = n) (h1 : Bounded e1) (h2 : Bounded lw) :
    Bounded (mulArr e1 lw) ∧ ∀ p, p < n → toZ (mulArr e1 lw) p = toZ e1 p * toZ lw p := by
  constructor
  · intro p
    by_cases hp : p < e1.size
    · rw [mulArr_getD e1 lw p hp]; exact (mulStep_spec _ _ (h1 p) (h2 p)).1
    · rw [getD_of_ge _ _ (by rw [mulArr_size]; omega)]; decide
  · intro p hp
    unfold toZ
    rw [mulArr_getD e1 lw p (by omega)]
    exact (mulStep_spec _ _ (h1 p) (h2 p)).2

theorem evalPoly_toZ (er lg : Array ℕ) (hse : er.size = 65536) (hsl : lg.size = 65536)
    (hbe : Bounded er) (hbl : Bounded lg) :
    (evalPolyWith (fwht lg 65536) er 65536).size = 65536 ∧
    Bounded (evalPolyWith (fwht lg 65536) er 65536) ∧
      ∀ x, x < 65536 →
        toZ (evalPolyWith (fwht lg 65536) er 65536) x = xconv (toZ er) (toZ lg) x := by
  obtain ⟨sE, bE, hE⟩ := fwht_toZ er hse hbe
  obtain ⟨_, bL, hL⟩ := fwht_toZ lg hsl hbl
  obtain ⟨bM, hM⟩ := mulArr_spec (fwht er 65536) (fwht lg 65536) 65536 sE bE bL
  have sM : (mulArr (fwht er 65536) (fwht lg 65536)).size = 65536 := by rw [mulArr_size, sE]
  obtain ⟨sR, bR, hR⟩ := fwht_toZ _ sM bM
  rw [evalPolyWith_eq]
  refine ⟨sR, bR, fun x hx => ?_⟩
  rw [hR x hx]
  have hc : ∀ p, p < 65536 → toZ (mulArr (fwht er 65536) (fwht lg 65536)) p =
      wht (xconv (toZ er) (toZ lg)) p := by
    intro p hp
    rw [hM p hp, hE p hp, hL p hp, wht_xconv]
  rw [wht_congr _ _ hc x, wht_wht _ x hx]

/-- **Item 5.** With `LOG_WALSH = fwht lg`, `eval_poly(erasures)` computes at every point `x`
    the XOR-convolution `Σ_j erasures[j] * lg[x xor j]` in `ZMod 65535`. -/
theorem evalPoly_spec (erasures lg : Array ℕ) (hse : erasures.size = 65536)
    (hsl : lg.size = 65536) (hbe : ∀ i, i < 65536 → erasures.getD i 0 < 65536)
    (hbl : ∀ i, i < 65536 → lg.getD i 0 < 65536) :
    (evalPolyWith (fwht lg 65536) erasures 65536).size = 65536 ∧
    (∀ i, (evalPolyWith (fwht lg 65536) erasures 65536).getD i 0 < 65536) ∧
      ∀ x, x < 65536 →
        (((evalPolyWith (fwht lg 65536) erasures 65536).getD x 0 : ℕ) : ZMod 65535) =
          ∑ j ∈ Finset.range 65536,
            ((erasures.getD j 0 : ℕ) : ZMod 65535) * ((lg.getD (x ^^^ j) 0 : ℕ) : ZMod 65535) :=
  evalPoly_toZ erasures lg hse hsl (bounded_of _ _ hse hbe) (bounded_of _ _ hsl hbl)

/-- the same for any truncation that covers all non-zero entries of `erasures` -/
theorem evalPoly_spec_trunc (erasures lg : Array ℕ) (trunc : ℕ) (hse : erasures.size = 65536)
    (hsl : lg.size = 65536) (hbe : ∀ i, i < 65536 → erasures.getD i 0 < 65536)
    (hbl : ∀ i, i < 65536 → lg.getD i 0 < 65536)
    (hz : ∀ i, trunc ≤ i → i < 65536 → erasures.getD i 0 = 0) :
    (evalPolyWith (fwht lg 65536) erasures trunc).size = 65536 ∧
    (∀ i, (evalPolyWith (fwht lg 65536) erasures trunc).getD i 0 < 65536) ∧
      ∀ x, x < 65536 →
        (((evalPolyWith (fwht lg 65536) erasures trunc).getD x 0 : ℕ) : ZMod 65535) =
          ∑ j ∈ Finset.range 65536,
            ((erasures.getD j 0 : ℕ) : ZMod 65535) * ((lg.getD (x ^^^ j) 0 : ℕ) : ZMod 65535) := by
  rw [evalPoly_trunc_indep _ erasures trunc hse hz]
  exact evalPoly_spec erasures lg hse hsl hbe hbl

/-- for a 0/1 erasure indicator: the value at `x` is `Σ_{j marked} lg[x xor j]` modulo 65535 -/
theorem evalPoly_spec_indicator (erasures lg : Array ℕ) (trunc : ℕ) (hse : erasures.size = 65536)
    (hsl : lg.size = 65536) (hbe : ∀ i, i < 65536 → erasures.getD i 0 = 0 ∨ erasures.getD i 0 = 1)
    (hbl : ∀ i, i < 65536 → lg.getD i 0 < 65536)
    (hz : ∀ i, trunc ≤ i → i < 65536 → erasures.getD i 0 = 0) (x : ℕ) (hx : x < 65536) :
    (((evalPolyWith (fwht lg 65536) erasures trunc).getD x 0 : ℕ) : ZMod 65535) =
      ∑ j ∈ (Finset.range 65536).filter (fun j => erasures.getD j 0 = 1),
        ((lg.getD (x ^^^ j) 0 : ℕ) : ZMod 65535) := by
  have hbe' : ∀ i, i < 65536 → erasures.getD i 0 < 65536 := fun i hi => by
    rcases hbe i hi with h | h <;> rw [h] <;> decide
  rw [(evalPoly_spec_trunc erasures lg trunc hse hsl hbe' hbl hz).2.2 x hx, Finset.sum_filter]
  refine Finset.sum_congr rfl fun j hj => ?_
  rcases hbe j (Finset.mem_range.1 hj) with h | h
  · rw [h, if_neg (by decide), Nat.cast_zero, zero_mul]
  · rw [h, if_pos rfl, Nat.cast_one, one_mul]

/-- the Walsh sign is `(-1)^popcount (x &&& y)` (low 16 bits) -/
theorem wsign_eq_pow (x y : ℕ) :
    wsign x y = (-1) ^ ((Finset.range 16).filter (fun i => (x &&& y).testBit i)).card := by
  unfold wsign wbit
  rw [Finset.prod_ite, Finset.prod_const, Finset.prod_const_one, mul_one]
  congr 2
  ext i
  simp [Nat.testBit_and]

end RS

#print axioms RS.mulStep_spec
#print axioms RS.fwht_spec
#print axioms RS.wht_xconv
#print axioms RS.wsign_orthogonal
#print axioms RS.wht_wht
#print axioms RS.fwht_fwht
#print axioms RS.evalPoly_spec
#print axioms RS.evalPoly_spec_trunc
#print axioms RS.evalPoly_spec_indicator
#print axioms RS.wsign_eq_pow
