/-
  Semantics of the Walsh–Hadamard transform `fwht` and of `eval_poly` over `ZMod 65535`.
-/
import RSVerif.Proofs.Walsh
import Mathlib.Data.ZMod.Basic
import Mathlib.Algebra.BigOperators.Ring.Finset
import Mathlib.Algebra.BigOperators.Intervals
import Mathlib.Tactic.Ring
import Mathlib.Tactic.LinearCombination

open Finset

namespace RS

/-- the ring of discrete logarithms -/
abbrev Z := ZMod 65535

/-! ### `add_mod` / `sub_mod` in `ZMod 65535` -/

theorem Z_65536 : ((65536 : ℕ) : Z) = 1 := by
  have h : ((65535 : ℕ) : Z) = 0 := ZMod.natCast_self 65535
  have e : (65536 : ℕ) = 65535 + 1 := rfl
  rw [e, Nat.cast_add, h, zero_add, Nat.cast_one]

theorem addMod_lt (x y : ℕ) (hx : x < 65536) (hy : y < 65536) : addMod x y < 65536 :=
  (addMod_spec x y hx hy).1

theorem subMod_lt (x y : ℕ) (hx : x < 65536) (hy : y < 65536) : subMod x y < 65536 :=
  (subMod_spec x y hx hy).1

theorem addMod_cast (x y : ℕ) (hx : x < 65536) (hy : y < 65536) :
    ((addMod x y : ℕ) : Z) = (x : Z) + (y : Z) := by
  have h := (addMod_spec x y hx hy).2
  rw [← Nat.cast_add]
  exact (ZMod.natCast_eq_natCast_iff' _ _ 65535).2 h

theorem subMod_cast (x y : ℕ) (hx : x < 65536) (hy : y < 65536) :
    ((subMod x y : ℕ) : Z) = (x : Z) - (y : Z) := by
  have h := (subMod_spec x y hx hy).2
  have h' : ((subMod x y + y : ℕ) : Z) = (x : Z) :=
    (ZMod.natCast_eq_natCast_iff' _ _ 65535).2 h
  rw [Nat.cast_add] at h'
  rw [← h']; ring

/-- item 4: the product step of `eval_poly` is multiplication in `ZMod 65535`. -/
theorem mulStep_spec (e f : ℕ) (he : e < 65536) (hf : f < 65536) :
    addMod (e * f % 65536) (e * f / 65536) < 65536 ∧
      ((addMod (e * f % 65536) (e * f / 65536) : ℕ) : Z) = (e : Z) * (f : Z) := by
  have h1 : e * f % 65536 < 65536 := Nat.mod_lt _ (by decide)
  have h2 : e * f / 65536 < 65536 := by
    rw [Nat.div_lt_iff_lt_mul (by decide)]
    exact Nat.mul_lt_mul'' he hf
  refine ⟨addMod_lt _ _ h1 h2, ?_⟩
  rw [addMod_cast _ _ h1 h2]
  have h3 : e * f = e * f % 65536 + 65536 * (e * f / 65536) := (Nat.mod_add_div _ _).symm
  have h4 : ((e * f : ℕ) : Z) = ((e * f % 65536 : ℕ) : Z) + ((65536 : ℕ) : Z) * ((e * f / 65536 : ℕ) : Z) := by
    rw [← Nat.cast_mul, ← Nat.cast_add, ← h3]
  rw [Z_65536, one_mul, Nat.cast_mul] at h4
  exact h4.symm

/-! ### the Walsh sign `(-1)^popcount (x &&& y)` on 16-bit numbers -/

/-- contribution of one bit position -/
def wbit (u v : Bool) : Z := if u && v then -1 else 1

/-- `wsign x y = (-1)^popcount (x &&& y)` (over the low 16 bits) -/
def wsign (x y : ℕ) : Z := ∏ i ∈ range 16, wbit (x.testBit i) (y.testBit i)

theorem wbit_xor_left (u v w : Bool) : wbit (u ^^ v) w = wbit u w * wbit v w := by
  cases u <;> cases v <;> cases w <;> simp [wbit]

theorem wbit_comm (u v : Bool) : wbit u v = wbit v u := by
  cases u <;> cases v <;> simp [wbit]

theorem wbit_false_left (v : Bool) : wbit false v = 1 := by simp [wbit]

theorem wbit_false_right (v : Bool) : wbit v false = 1 := by simp [wbit]

theorem wbit_mul_self (u v : Bool) : wbit u v * wbit u v = 1 := by
  cases u <;> cases v <;> simp [wbit]

theorem wsign_comm (x y : ℕ) : wsign x y = wsign y x :=
  Finset.prod_congr rfl fun _ _ => wbit_comm _ _

theorem wsign_xor_left (x j y : ℕ) : wsign (x ^^^ j) y = wsign x y * wsign j y := by
  unfold wsign
  rw [← Finset.prod_mul_distrib]
  exact Finset.prod_congr rfl fun i _ => by rw [Nat.testBit_xor, wbit_xor_left]

theorem wsign_xor_right (x y j : ℕ) : wsign x (y ^^^ j) = wsign x y * wsign x j := by
  rw [wsign_comm, wsign_xor_left, wsign_comm y, wsign_comm j]

theorem wsign_zero_left (y : ℕ) : wsign 0 y = 1 :=
  Finset.prod_eq_one fun i _ => by rw [Nat.zero_testBit, wbit_false_left]

theorem wsign_zero_right (x : ℕ) : wsign x 0 = 1 := by rw [wsign_comm, wsign_zero_left]

theorem wsign_mul_self (x y : ℕ) : wsign x y * wsign x y = 1 := by
  unfold wsign
  rw [← Finset.prod_mul_distrib]
  exact Finset.prod_eq_one fun i _ => wbit_mul_self _ _

theorem wsign_two_pow (i : ℕ) (hi : i < 16) (y : ℕ) :
    wsign (2 ^ i) y = if y.testBit i then -1 else 1 := by
  unfold wsign
  rw [Finset.prod_eq_single i]
  · rw [Nat.testBit_two_pow_self]; cases y.testBit i <;> simp [wbit]
  · intro k _ hk
    rw [Nat.testBit_two_pow_of_ne (Ne.symm hk), wbit_false_left]
  · intro h; exact absurd (Finset.mem_range.2 hi) h

/-- for `x < 2^b` the sign only depends on the low `b` bits of the other argument -/
theorem wsign_mod (x p b : ℕ) (hx : x < 2 ^ b) : wsign x (p % 2 ^ b) = wsign x p := by
  refine Finset.prod_congr rfl fun i _ => ?_
  by_cases hib : i < b
  · rw [Nat.testBit_mod_two_pow]; simp [hib]
  · have hxi : x.testBit i = false :=
      Nat.testBit_lt_two_pow (Nat.lt_of_lt_of_le hx (Nat.pow_le_pow_right (by decide) (Nat.le_of_not_lt hib)))
    rw [hxi, wbit_false_left, wbit_false_left]

theorem wsign_of_mod_eq (x p q b : ℕ) (hx : x < 2 ^ b) (h : p % 2 ^ b = q % 2 ^ b) :
    wsign x p = wsign x q := by
  rw [← wsign_mod x p b hx, ← wsign_mod x q b hx, h]

/-- `2^b + x = 2^b xor x` for `x < 2^b` -/
theorem two_pow_add_eq_xor (b x : ℕ) (hx : x < 2 ^ b) : 2 ^ b + x = 2 ^ b ^^^ x := by
  have h := Nat.two_pow_add_eq_or_of_lt hx 1
  rw [Nat.mul_one] at h
  rw [h]
  apply Nat.eq_of_testBit_eq
  intro i
  rw [Nat.testBit_or, Nat.testBit_xor]
  by_cases hib : b = i
  · subst hib
    rw [Nat.testBit_lt_two_pow hx]; simp
  · rw [Nat.testBit_two_pow_of_ne hib]; simp

theorem wsign_two_pow_add (b x p : ℕ) (hb : b < 16) (hx : x < 2 ^ b) :
    wsign (2 ^ b + x) p = (if p.testBit b then -1 else 1) * wsign x p := by
  rw [two_pow_add_eq_xor b x hx, wsign_xor_left, wsign_two_pow b hb]

/-! ### radix-2 levels and partial transforms (on functions `ℕ → Z`) -/

/-- one radix-2 butterfly level at distance `d = 2^b` -/
def lvl (d : ℕ) (f : ℕ → Z) (p : ℕ) : Z :=
  if p / d % 2 = 0 then f p + f (p + d) else f (p - d) - f p

/-- the transform of every aligned block of size `2^b` -/
def part (b : ℕ) (f : ℕ → Z) (p : ℕ) : Z :=
  ∑ x ∈ range (2 ^ b), wsign x p * f (p / 2 ^ b * 2 ^ b + x)

theorem part_zero (f : ℕ → Z) : part 0 f = f := by
  funext p
  simp [part, wsign_zero_left]

theorem part_succ (b : ℕ) (hb : b < 16) (f : ℕ → Z) (p : ℕ) :
    part (b + 1) f p = lvl (2 ^ b) (part b f) p := by
  have hd : 0 < 2 ^ b := Nat.two_pow_pos b
  have htb : p.testBit b = decide (p / 2 ^ b % 2 = 1) := Nat.testBit_eq_decide_div_mod_eq
  unfold lvl
  show ∑ x ∈ range (2 ^ (b + 1)), wsign x p * f (p / 2 ^ (b + 1) * 2 ^ (b + 1) + x) = _
  rw [pow_succ, mul_two, Finset.sum_range_add, ← mul_two, ← Nat.div_div_eq_div_mul]
  generalize hm : p / 2 ^ b = m at htb
  have hB : m / 2 * (2 ^ b * 2) = m / 2 * 2 * 2 ^ b := by ring
  rw [hB]
  have hsecond : ∀ x ∈ range (2 ^ b), wsign (2 ^ b + x) p * f (m / 2 * 2 * 2 ^ b + (2 ^ b + x)) =
      (if p.testBit b then -1 else 1) * (wsign x p * f ((m / 2 * 2 + 1) * 2 ^ b + x)) := by
    intro x hx
    rw [wsign_two_pow_add b x p hb (Finset.mem_range.1 hx)]
    have : m / 2 * 2 * 2 ^ b + (2 ^ b + x) = (m / 2 * 2 + 1) * 2 ^ b + x := by ring
    rw [this]; ring
  rw [Finset.sum_congr rfl hsecond, ← Finset.mul_sum]
  by_cases hpar : m % 2 = 0
  · rw [if_pos hpar]
    have h2 : m / 2 * 2 = m := by omega
    have ht : p.testBit b = false := by rw [htb]; simp [hpar]
    rw [h2, ht]
    simp only [Bool.false_eq_true, if_false, one_mul]
    unfold part
    rw [hm, Nat.add_div_right p hd, hm]
    have hw : ∀ x ∈ range (2 ^ b), wsign x (p + 2 ^ b) * f ((m + 1) * 2 ^ b + x) =
        wsign x p * f ((m + 1) * 2 ^ b + x) := by
      intro x hx
      rw [wsign_of_mod_eq x (p + 2 ^ b) p b (Finset.mem_range.1 hx) (Nat.add_mod_right p (2 ^ b))]
    rw [Finset.sum_congr rfl hw]
  · rw [if_neg hpar]
    have h2 : m / 2 * 2 + 1 = m := by omega
    have ht : p.testBit b = true := by rw [htb]; simp; omega
    have hge : 2 ^ b ≤ p := by
      have : 1 ≤ p / 2 ^ b := by omega
      exact (Nat.le_div_iff_mul_le hd).1 this |>.trans' (by omega)
    rw [h2, ht]
    simp only [if_true]
    unfold part
    have hsub : (p - 2 ^ b) / 2 ^ b = m / 2 * 2 := by
      have := Nat.sub_mul_div p (2 ^ b) 1
      rw [Nat.mul_one] at this
      rw [this, hm]; omega
    rw [hm, hsub]
    have hw : ∀ x ∈ range (2 ^ b), wsign x (p - 2 ^ b) * f (m / 2 * 2 * 2 ^ b + x) =
        wsign x p * f (m / 2 * 2 * 2 ^ b + x) := by
      intro x hx
      rw [wsign_of_mod_eq x (p - 2 ^ b) p b (Finset.mem_range.1 hx) (Nat.mod_eq_sub_mod hge).symm]
    rw [Finset.sum_congr rfl hw]
    ring

/-! ### two radix-2 levels, expanded -/

theorem lvl2_00 (f : ℕ → Z) (d p : ℕ) (hd : 0 < d) (h1 : p / d % 2 = 0) (h2 : p / (2 * d) % 2 = 0) :
    lvl (2 * d) (lvl d f) p = (f p + f (p + d)) + (f (p + 2 * d) + f (p + 2 * d + d)) := by
  have h3 : (p + 2 * d) / d % 2 = 0 := by rw [Nat.add_mul_div_right p 2 hd]; omega
  unfold lvl
  rw [if_pos h2, if_pos h1, if_pos h3]

theorem lvl2_10 (f : ℕ → Z) (d p : ℕ) (hd : 0 < d) (h1 : p / d % 2 = 1) (h2 : p / (2 * d) % 2 = 0) :
    lvl (2 * d) (lvl d f) p = (f (p - d) - f p) + (f (p + 2 * d - d) - f (p + 2 * d)) := by
  have h3 : ¬ (p + 2 * d) / d % 2 = 0 := by rw [Nat.add_mul_div_right p 2 hd]; omega
  have h1' : ¬ p / d % 2 = 0 := by omega
  unfold lvl
  rw [if_pos h2, if_neg h1', if_neg h3]

theorem lvl2_01 (f : ℕ → Z) (d p : ℕ) (h1 : p / d % 2 = 0) (h2 : p / (2 * d) % 2 = 1) :
    lvl (2 * d) (lvl d f) p = (f (p - 2 * d) + f (p - 2 * d + d)) - (f p + f (p + d)) := by
  have h4 : p / (2 * d) = p / d / 2 := by rw [Nat.mul_comm 2 d, Nat.div_div_eq_div_mul]
  rw [h4] at h2
  have h3 : (p - 2 * d) / d % 2 = 0 := by
    have := Nat.sub_mul_div p d 2
    rw [Nat.mul_comm d 2] at this
    rw [this]; omega
  have h2' : ¬ p / (2 * d) % 2 = 0 := by rw [h4]; omega
  unfold lvl
  rw [if_neg h2', if_pos h1, if_pos h3]

theorem lvl2_11 (f : ℕ → Z) (d p : ℕ) (h1 : p / d % 2 = 1) (h2 : p / (2 * d) % 2 = 1) :
    lvl (2 * d) (lvl d f) p = (f (p - 2 * d - d) - f (p - 2 * d)) - (f (p - d) - f p) := by
  have h4 : p / (2 * d) = p / d / 2 := by rw [Nat.mul_comm 2 d, Nat.div_div_eq_div_mul]
  rw [h4] at h2
  have h3 : ¬ (p - 2 * d) / d % 2 = 0 := by
    have := Nat.sub_mul_div p d 2
    rw [Nat.mul_comm d 2] at this
    rw [this]; omega
  have h2' : ¬ p / (2 * d) % 2 = 0 := by rw [h4]; omega
  have h1' : ¬ p / d % 2 = 0 := by omega
  unfold lvl
  rw [if_neg h2', if_neg h1', if_neg h3]

/-! ### one radix-4 pass of the array code = two radix-2 levels -/

theorem bfly4_cast0 (v0 v1 v2 v3 : ℕ) (b0 : v0 < 65536) (b1 : v1 < 65536) (b2 : v2 < 65536)
    (b3 : v3 < 65536) : bfly4 v0 v1 v2 v3 0 < 65536 ∧
      ((bfly4 v0 v1 v2 v3 0 : ℕ) : Z) = ((v0 : Z) + v1) + ((v2 : Z) + v3) := by
  show addMod (addMod v0 v1) (addMod v2 v3) < 65536 ∧
    ((addMod (addMod v0 v1) (addMod v2 v3) : ℕ) : Z) = _
  refine ⟨addMod_lt _ _ (addMod_lt _ _ b0 b1) (addMod_lt _ _ b2 b3), ?_⟩
  rw [addMod_cast _ _ (addMod_lt _ _ b0 b1) (addMod_lt _ _ b2 b3), addMod_cast _ _ b0 b1,
    addMod_cast _ _ b2 b3]

theorem bfly4_cast1 (v0 v1 v2 v3 : ℕ) (b0 : v0 < 65536) (b1 : v1 < 65536) (b2 : v2 < 65536)
    (b3 : v3 < 65536) : bfly4 v0 v1 v2 v3 1 < 65536 ∧
      ((bfly4 v0 v1 v2 v3 1 : ℕ) : Z) = ((v0 : Z) - v1) + ((v2 : Z) - v3) := by
  show addMod (subMod v0 v1) (subMod v2 v3) < 65536 ∧
    ((addMod (subMod v0 v1) (subMod v2 v3) : ℕ) : Z) = _
  refine ⟨addMod_lt _ _ (subMod_lt _ _ b0 b1) (subMod_lt _ _ b2 b3), ?_⟩
  rw [addMod_cast _ _ (subMod_lt _ _ b0 b1) (subMod_lt _ _ b2 b3), subMod_cast _ _ b0 b1,
    subMod_cast _ _ b2 b3]

theorem bfly4_cast2 (v0 v1 v2 v3 : ℕ) (b0 : v0 < 65536) (b1 : v1 < 65536) (b2 : v2 < 65536)
    (b3 : v3 < 65536) : bfly4 v0 v1 v2 v3 2 < 65536 ∧
      ((bfly4 v0 v1 v2 v3 2 : ℕ) : Z) = ((v0 : Z) + v1) - ((v2 : Z) + v3) := by
  show subMod (addMod v0 v1) (addMod v2 v3) < 65536 ∧
    ((subMod (addMod v0 v1) (addMod v2 v3) : ℕ) : Z) = _
  refine ⟨subMod_lt _ _ (addMod_lt _ _ b0 b1) (addMod_lt _ _ b2 b3), ?_⟩
  rw [subMod_cast _ _ (addMod_lt _ _ b0 b1) (addMod_lt _ _ b2 b3), addMod_cast _ _ b0 b1,
    addMod_cast _ _ b2 b3]

theorem bfly4_cast3 (v0 v1 v2 v3 : ℕ) (b0 : v0 < 65536) (b1 : v1 < 65536) (b2 : v2 < 65536)
    (b3 : v3 < 65536) : bfly4 v0 v1 v2 v3 3 < 65536 ∧
      ((bfly4 v0 v1 v2 v3 3 : ℕ) : Z) = ((v0 : Z) - v1) - ((v2 : Z) - v3) := by
  show subMod (subMod v0 v1) (subMod v2 v3) < 65536 ∧
    ((subMod (subMod v0 v1) (subMod v2 v3) : ℕ) : Z) = _
  refine ⟨subMod_lt _ _ (subMod_lt _ _ b0 b1) (subMod_lt _ _ b2 b3), ?_⟩
  rw [subMod_cast _ _ (subMod_lt _ _ b0 b1) (subMod_lt _ _ b2 b3), subMod_cast _ _ b0 b1,
    subMod_cast _ _ b2 b3]

/-- the array read in `ZMod 65535` -/
def toZ (a : Array ℕ) (x : ℕ) : Z := ((a.getD x 0 : ℕ) : Z)

theorem fwhtAt_cast (d t : ℕ) (a : Array ℕ) (hb : ∀ i, a.getD i 0 < 65536) (hd : 0 < d) (p : ℕ)
    (hp : p / (4 * d) * (4 * d) < t) :
    fwhtAt d t a p < 65536 ∧ ((fwhtAt d t a p : ℕ) : Z) = lvl (2 * d) (lvl d (toZ a)) p := by
  unfold fwhtAt
  rw [if_pos hp]
  have hD : 0 < 4 * d := by omega
  generalize hq : p / (4 * d) = q
  have hgp : q * (4 * d) ≤ p := hq ▸ Nat.div_mul_le_self _ _
  have ho : p - q * (4 * d) = p % (4 * d) := by
    have := Nat.div_add_mod' p (4 * d); rw [hq] at this; omega
  have holt : p - q * (4 * d) < 4 * d := ho ▸ Nat.mod_lt _ hD
  generalize hk : (p - q * (4 * d)) / d = k
  generalize hr : (p - q * (4 * d)) % d = r
  have hrlt : r < d := hr ▸ Nat.mod_lt _ hd
  have hkr : p - q * (4 * d) = k * d + r := by rw [← hk, ← hr]; exact (Nat.div_add_mod' _ _).symm
  have hk4 : k < 4 := by rw [← hk]; exact (Nat.div_lt_iff_lt_mul hd).2 holt
  have hp' : p = q * (4 * d) + k * d + r := by omega
  have hpd : p / d = q * 4 + k := by
    have e : p = r + (q * 4 + k) * d := by rw [hp']; ring
    rw [e, Nat.add_mul_div_right r _ hd, Nat.div_eq_of_lt hrlt, Nat.zero_add]
  have h1 : p / d % 2 = k % 2 := by omega
  have h2 : p / (2 * d) % 2 = k / 2 := by
    rw [Nat.mul_comm 2 d, ← Nat.div_div_eq_div_mul, hpd]; omega
  have b0 := hb (q * (4 * d) + r)
  have b1 := hb (q * (4 * d) + r + d)
  have b2 := hb (q * (4 * d) + r + 2 * d)
  have b3 := hb (q * (4 * d) + r + 3 * d)
  have hk' : k = 0 ∨ k = 1 ∨ k = 2 ∨ k = 3 := by omega
  rcases hk' with rfl | rfl | rfl | rfl
  · have e0 : q * (4 * d) + r = p := by omega
    have e1 : q * (4 * d) + r + d = p + d := by omega
    have e2 : q * (4 * d) + r + 2 * d = p + 2 * d := by omega
    have e3 : q * (4 * d) + r + 3 * d = p + 2 * d + d := by omega
    rw [lvl2_00 _ d p hd h1 h2]
    unfold toZ
    rw [← e3, ← e2, ← e1, ← e0]
    exact bfly4_cast0 _ _ _ _ b0 b1 b2 b3
  · have e0 : q * (4 * d) + r = p - d := by omega
    have e1 : q * (4 * d) + r + d = p := by omega
    have e2 : q * (4 * d) + r + 2 * d = p + 2 * d - d := by omega
    have e3 : q * (4 * d) + r + 3 * d = p + 2 * d := by omega
    rw [lvl2_10 _ d p hd h1 h2]
    unfold toZ
    rw [← e3, ← e2, ← e0, ← e1]
    exact bfly4_cast1 _ _ _ _ b0 b1 b2 b3
  · have e0 : q * (4 * d) + r = p - 2 * d := by omega
    have e1 : q * (4 * d) + r + d = p - 2 * d + d := by omega
    have e2 : q * (4 * d) + r + 2 * d = p := by omega
    have e3 : q * (4 * d) + r + 3 * d = p + d := by omega
    rw [lvl2_01 _ d p h1 h2]
    unfold toZ
    rw [← e3, ← e1, ← e0, ← e2]
    exact bfly4_cast2 _ _ _ _ b0 b1 b2 b3
  · have e0 : q * (4 * d) + r = p - 2 * d - d := by omega
    have e1 : q * (4 * d) + r + d = p - 2 * d := by omega
    have e2 : q * (4 * d) + r + 2 * d = p - d := by omega
    have e3 : q * (4 * d) + r + 3 * d = p := by omega
    rw [lvl2_11 _ d p h1 h2]
    unfold toZ
    rw [← e0, ← e1, ← e2, ← e3]
    exact bfly4_cast3 _ _ _ _ b0 b1 b2 b3

end RS
