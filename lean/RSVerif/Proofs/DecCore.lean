/-
  The generic DECODER CORE of the Lin–Han–Chung erasure decoder on one symbol lane.

  1. `lchPoly_ifft_eq`  : interpolation uniqueness in the LCH basis – the full naive ifft of the
       values of a polynomial `G`, `deg G < n = 2^N`, at the points `pt 0 … pt (n-1)` yields the
       LCH coefficients of `G`.
  2. `decode_core`      : `fft (formalDerivative (ifft v))` at an erased position `w` equals
       `F(pt w) · Π_{u ∈ E \ {w}} (pt w - pt u)`, where `v` holds the values of `F · e`,
       `e = Π_{u ∈ E} (X - pt u)` the error locator.  `decode_core_sizes`: all sizes are `n`.
  4. `ifft_trunc_naive`, `fft_trunc_naive`, `decode_core_trunc` : the same for an arbitrary
       schedule and truncation `oend ≤ n`, given a zero tail of `v` from `oend` on.
  3. `decode_core_sym`, `decode_core_trunc_sym` : the raw-symbol corollaries (division by the
       locator-derivative value `locw`).
-/
import RSVerif.Proofs.LchDeriv
import RSVerif.Proofs.FftEval
import RSVerif.Proofs.CauchyEncAux

namespace RS
open Polynomial GF16 Finset ShardAlg

/-! ### 0. full naive transforms at `pos = 0`, `delta = 0`, in terms of `lchPoly` -/

/-- the full naive fft (window = whole array, no skew offset) evaluates `lchPoly` at `pt i` -/
theorem mk_rd_fft_naive {N : Nat} (hN : N ≤ 16) (c : Array Sym) (hc : c.size = 2 ^ N)
    {i : Nat} (hi : i < 2 ^ N) :
    (⟨rd (fft .naive c 0 (2 ^ N) (2 ^ N) 0) i⟩ : GF16)
      = eval (pt i) (lchPoly (2 ^ N) (fun t => rd c t)) := by
  have h := fft_eval' c 0 N 0 hN (Nat.dvd_zero _) (by omega) i hi
  simp only [Nat.zero_add] at h
  rw [h, ← CE.lchF_eq_lchSum, mk_lchF, mk_ofNat]
  simp only [Nat.zero_add]

/-- the full naive ifft interpolates: `lchPoly` of its output takes the value `v i` at `pt i` -/
theorem eval_lchPoly_ifft_naive {N : Nat} (hN : N ≤ 16) (v : Array Sym) (hv : v.size = 2 ^ N)
    {i : Nat} (hi : i < 2 ^ N) :
    eval (pt i) (lchPoly (2 ^ N) (fun t => rd (ifft .naive v 0 (2 ^ N) (2 ^ N) 0) t))
      = ⟨rd v i⟩ := by
  have h := ifft_eval v 0 N 0 hN (Nat.dvd_zero _)
    (by have := two_pow_le_65536 hN; omega) (by omega) i hi
  simp only [Nat.zero_add] at h
  rw [← h, ← CE.lchF_eq_lchSum, mk_lchF, mk_ofNat]
  simp only [Nat.zero_add]

/-! ### 1. interpolation uniqueness in the LCH basis -/

/-- **Interpolation uniqueness.**  If `v` holds the values of `G` (`deg G < n = 2^N`) at the
    points `pt 0, …, pt (n-1)`, the full naive ifft of `v` is the LCH coefficient array of `G`. -/
theorem lchPoly_ifft_eq {N n : Nat} (hN : N ≤ 16) (hn : n = 2 ^ N) (G : GF16[X])
    (hG : G.degree < (n : WithBot Nat)) (v : Array Sym) (hv : v.size = n)
    (hval : ∀ p, p < n → (⟨rd v p⟩ : GF16) = eval (pt p) G) :
    lchPoly n (fun t => rd (ifft .naive v 0 n n 0) t) = G := by
  subst hn
  have h65 := two_pow_le_65536 hN
  have hinj : Set.InjOn pt (↑(range (2 ^ N)) : Set Nat) := by
    intro a ha b hb h
    have ha' : a < 2 ^ N := by simpa using ha
    have hb' : b < 2 ^ N := by simpa using hb
    exact pt_injOn (by omega) (by omega) h
  apply eq_of_degrees_lt_of_eval_index_eq (range (2 ^ N)) hinj
  · rw [card_range]; exact degree_lchPoly_lt h65 _
  · rw [card_range]; exact hG
  · intro i hi
    rw [mem_range] at hi
    rw [eval_lchPoly_ifft_naive hN v hv hi, hval i hi]

/-! ### 2. the decoder core -/

/-- all intermediate arrays of the decoder core have size `n` (any schedule / truncation) -/
theorem decode_core_sizes {N n : Nat} (hN : N ≤ 16) (hn : n = 2 ^ N) (s : Sched)
    (v : Array Sym) (hv : v.size = n) (t t' : Nat) :
    (ifft s v 0 n t 0).size = n ∧
    (formalDerivative (ifft s v 0 n t 0)).size = n ∧
    (fft s (formalDerivative (ifft s v 0 n t 0)) 0 n t' 0).size = n := by
  have h1 : (ifft s v 0 n t 0).size = n := by rw [ifft_size, hv]
  have h2 : (formalDerivative (ifft s v 0 n t 0)).size = n := by
    rw [FD.formalDerivative_size (n := N) (by omega) _ (by rw [h1, hn]), h1]
  exact ⟨h1, h2, by rw [fft_size, h2]⟩

/-- **Decoder core.**  `v` holds the values of `F · e` at `pt 0 … pt (n-1)`, where
    `e = Π_{u ∈ E} (X - pt u)` is the error locator and `deg (F · e) < n = 2^N`.  Then
    `fft ∘ formalDerivative ∘ ifft` leaves at every erased position `w ∈ E` the value
    `F(pt w) · e'(pt w) = F(pt w) · Π_{u ∈ E \ {w}} (pt w - pt u)`. -/
theorem decode_core {N n : Nat} (hN : N ≤ 16) (hn : n = 2 ^ N) (F : GF16[X]) (E : Finset Nat)
    (hE : ∀ u ∈ E, u < n)
    (hdeg : (F * ∏ u ∈ E, (X - C (pt u))).degree < (n : WithBot Nat))
    (v : Array Sym) (hv : v.size = n)
    (hval : ∀ p, p < n → (⟨rd v p⟩ : GF16) = eval (pt p) (F * ∏ u ∈ E, (X - C (pt u))))
    {w : Nat} (hw : w ∈ E) :
    (⟨rd (fft .naive (formalDerivative (ifft .naive v 0 n n 0)) 0 n n 0) w⟩ : GF16)
      = eval (pt w) F * ∏ u ∈ E.erase w, (pt w - pt u) := by
  have hG := lchPoly_ifft_eq hN hn _ hdeg v hv hval
  obtain ⟨hs1, hs2, _⟩ := decode_core_sizes hN hn .naive v hv n n
  subst hn
  have hwn : w < 2 ^ N := hE w hw
  rw [mk_rd_fft_naive hN _ hs2 hwn, ← mk_ofNat, ← mk_lchF,
    lchF_formalDerivative hN _ hs1, hG, mk_ofNat]
  exact eval_mul_locator_add_derivative E pt F hw

/-! ### 4. schedule / truncation transfer -/

/-- with a zero tail from `oend` on, the truncated ifft of any schedule is the full naive one -/
theorem ifft_trunc_naive {N n : Nat} (hn : n = 2 ^ N) (s : Sched) (v : Array Sym)
    (hv : v.size = n) {oend : Nat} (ho : oend ≤ n)
    (hz : ∀ p, oend ≤ p → p < n → rd v p = 0#16) :
    ifft s v 0 n oend 0 = ifft .naive v 0 n n 0 := by
  apply ifft_trunc s .naive v 0 n N oend 0 hn ho (by omega)
  intro i h1 h2
  rw [Nat.zero_add]
  exact hz i h1 h2

/-- the truncated fft of any schedule agrees with the full naive one on the first `oend`
    outputs -/
theorem fft_trunc_naive {N n : Nat} (hn : n = 2 ^ N) (s : Sched) (c : Array Sym)
    (hc : c.size = n) {oend : Nat} (ho : oend ≤ n) {p : Nat} (hp : p < oend) :
    rd (fft s c 0 n oend 0) p = rd (fft .naive c 0 n n 0) p := by
  have h := fft_trunc s .naive c 0 n N oend 0 hn ho (by omega) hp
  simpa only [Nat.zero_add] using h

/-- **Decoder core, any schedule, truncated transforms** (`trunc = oend ≤ n`), for `v` with a
    zero tail from `oend` on, at erased positions `w < oend`. -/
theorem decode_core_trunc {N n : Nat} (hN : N ≤ 16) (hn : n = 2 ^ N) (s : Sched) (F : GF16[X])
    (E : Finset Nat) (hE : ∀ u ∈ E, u < n)
    (hdeg : (F * ∏ u ∈ E, (X - C (pt u))).degree < (n : WithBot Nat))
    (v : Array Sym) (hv : v.size = n) {oend : Nat} (ho : oend ≤ n)
    (hz : ∀ p, oend ≤ p → p < n → rd v p = 0#16)
    (hval : ∀ p, p < n → (⟨rd v p⟩ : GF16) = eval (pt p) (F * ∏ u ∈ E, (X - C (pt u))))
    {w : Nat} (hw : w ∈ E) (hwo : w < oend) :
    (⟨rd (fft s (formalDerivative (ifft s v 0 n oend 0)) 0 n oend 0) w⟩ : GF16)
      = eval (pt w) F * ∏ u ∈ E.erase w, (pt w - pt u) := by
  rw [ifft_trunc_naive hn s v hv ho hz,
    fft_trunc_naive hn s _ (decode_core_sizes hN hn .naive v hv n n).2.1 ho hwo]
  exact decode_core hN hn F E hE hdeg v hv hval hw

/-! ### 3. raw-symbol corollaries -/

/-- dividing a raw symbol `⟨y⟩ = f · ⟨locw⟩` by `locw ≠ 0` -/
theorem gmul_ginv_of_mk_eq {y locw : Sym} {f : GF16} (hl : locw ≠ 0)
    (h : (⟨y⟩ : GF16) = f * ⟨locw⟩) : gmul y (ginv locw) = f.val := by
  have h2 : (⟨locw⟩ : GF16) * ⟨ginv locw⟩ = 1 :=
    GF16.ext (gmul_ginv locw hl)
  have h1 : (⟨gmul y (ginv locw)⟩ : GF16) = f := by
    rw [mk_mul, h, mul_assoc, h2, mul_one]
  exact congrArg GF16.val h1

/-- **Decoder core on raw symbols**: dividing the output at `w ∈ E` by the value `locw` of the
    locator derivative recovers `F(pt w)`. -/
theorem decode_core_sym {N n : Nat} (hN : N ≤ 16) (hn : n = 2 ^ N) (F : GF16[X]) (E : Finset Nat)
    (hE : ∀ u ∈ E, u < n)
    (hdeg : (F * ∏ u ∈ E, (X - C (pt u))).degree < (n : WithBot Nat))
    (v : Array Sym) (hv : v.size = n)
    (hval : ∀ p, p < n → (⟨rd v p⟩ : GF16) = eval (pt p) (F * ∏ u ∈ E, (X - C (pt u))))
    {w : Nat} (hw : w ∈ E) (locw : Sym)
    (hloc : (⟨locw⟩ : GF16) = ∏ u ∈ E.erase w, (pt w - pt u)) (hl : locw ≠ 0) :
    gmul (rd (fft .naive (formalDerivative (ifft .naive v 0 n n 0)) 0 n n 0) w) (ginv locw)
      = (eval (pt w) F).val := by
  apply gmul_ginv_of_mk_eq hl
  rw [hloc]
  exact decode_core hN hn F E hE hdeg v hv hval hw

/-- the same for any schedule and truncated transforms -/
theorem decode_core_trunc_sym {N n : Nat} (hN : N ≤ 16) (hn : n = 2 ^ N) (s : Sched)
    (F : GF16[X]) (E : Finset Nat) (hE : ∀ u ∈ E, u < n)
    (hdeg : (F * ∏ u ∈ E, (X - C (pt u))).degree < (n : WithBot Nat))
    (v : Array Sym) (hv : v.size = n) {oend : Nat} (ho : oend ≤ n)
    (hz : ∀ p, oend ≤ p → p < n → rd v p = 0#16)
    (hval : ∀ p, p < n → (⟨rd v p⟩ : GF16) = eval (pt p) (F * ∏ u ∈ E, (X - C (pt u))))
    {w : Nat} (hw : w ∈ E) (hwo : w < oend) (locw : Sym)
    (hloc : (⟨locw⟩ : GF16) = ∏ u ∈ E.erase w, (pt w - pt u)) (hl : locw ≠ 0) :
    gmul (rd (fft s (formalDerivative (ifft s v 0 n oend 0)) 0 n oend 0) w) (ginv locw)
      = (eval (pt w) F).val := by
  apply gmul_ginv_of_mk_eq hl
  rw [hloc]
  exact decode_core_trunc hN hn s F E hE hdeg v hv ho hz hval hw hwo

end RS

#print axioms RS.lchPoly_ifft_eq
#print axioms RS.decode_core_sizes
#print axioms RS.decode_core
#print axioms RS.ifft_trunc_naive
#print axioms RS.fft_trunc_naive
#print axioms RS.decode_core_trunc
#print axioms RS.decode_core_sym
#print axioms RS.decode_core_trunc_sym
