/-
  Proofs about the lazy-initialisation transition system of `RSVerif/Model/Lazy.lean`:
  invariant, no re-entrancy, progress (deadlock freedom), termination measure, final state,
  instantiation for the crate's five tables, and a checkable acyclicity criterion.
-/
import RSVerif.Model.Lazy

namespace RS

/-! ### list helpers -/

theorem getD_set_eq {α} (l : List α) (i : Nat) (v d : α) (h : i < l.length) :
    (l.set i v).getD i d = v := by
  simp [List.getD_eq_getElem?_getD, h]

theorem getD_set_ne {α} (l : List α) (i j : Nat) (v d : α) (h : i ≠ j) :
    (l.set i v).getD j d = l.getD j d := by
  simp [List.getD_eq_getElem?_getD, h]

theorem getD_lt_of_ne {α} (l : List α) (i : Nat) (d : α) (h : l.getD i d ≠ d) : i < l.length := by
  apply Classical.byContradiction
  intro hn
  apply h
  simp [List.getD_eq_getElem?_getD, List.getElem?_eq_none (Nat.le_of_not_lt hn)]

theorem getElem?_set_cases {α} {l : List α} {t t' : Nat} {v x : α}
    (h : (l.set t v)[t']? = some x) : (t' = t ∧ x = v) ∨ (t' ≠ t ∧ l[t']? = some x) := by
  rw [List.getElem?_set] at h
  by_cases e : t = t'
  · subst e
    simp at h
    exact Or.inl ⟨rfl, h.2.symm⟩
  · simp [e] at h
    exact Or.inr ⟨fun e' => e e'.symm, h⟩

theorem getElem?_set_self' {α} {l : List α} {t : Nat} {v x : α} (h : l[t]? = some x) :
    (l.set t v)[t]? = some v := by
  have : t < l.length := by
    apply Classical.byContradiction; intro hn
    simp [List.getElem?_eq_none (Nat.le_of_not_lt hn)] at h
  simp [this]

/-! ### cells -/

theorem getD_set_done (l : List CellState) (c c' : Nat) (h : l.getD c' .done = .done) :
    (l.set c .done).getD c' .done = .done := by
  by_cases e : c = c'
  · subst e
    by_cases hl : c < l.length
    · exact getD_set_eq _ _ _ _ hl
    · rw [List.set_eq_of_length_le (Nat.le_of_not_lt hl)]; exact h
  · rw [getD_set_ne _ _ _ _ _ e]; exact h

theorem cell_lt_of_ne_done {s : LazySys} {c : Nat} (h : s.cell c ≠ .done) : c < s.cells.length :=
  getD_lt_of_ne _ _ _ h

/-! ### the step relation, in five cases -/

/-- relational presentation of `LazySys.step` -/
inductive LazySys.Step (deps : Nat → List Nat) (s : LazySys) (t : Nat) : LazySys → Prop
  | skipWant (c : Nat) (w : List Nat) :
      s.threads[t]? = some ⟨[], c :: w⟩ → s.cell c = .done →
      Step deps s t ⟨s.cells, s.threads.set t ⟨[], w⟩⟩
  | skipTodo (c fc : Nat) (tl : List Nat) (rest : List Frame) (wants : List Nat) :
      s.threads[t]? = some ⟨⟨fc, c :: tl⟩ :: rest, wants⟩ → s.cell c = .done →
      Step deps s t ⟨s.cells, s.threads.set t ⟨⟨fc, tl⟩ :: rest, wants⟩⟩
  | push (c : Nat) (th : Thread) :
      s.threads[t]? = some th → th.nextForce = some c → s.cell c = .uninit →
      Step deps s t ⟨s.cells.set c (.running t),
                     s.threads.set t ⟨⟨c, deps c⟩ :: th.stack, th.wants⟩⟩
  | popLast (fc : Nat) (wants : List Nat) :
      s.threads[t]? = some ⟨[⟨fc, []⟩], wants⟩ →
      Step deps s t ⟨s.cells.set fc .done, s.threads.set t ⟨[], wants.tail⟩⟩
  | popInner (fc : Nat) (g : Frame) (rest : List Frame) (wants : List Nat) :
      s.threads[t]? = some ⟨⟨fc, []⟩ :: g :: rest, wants⟩ →
      Step deps s t ⟨s.cells.set fc .done,
                     s.threads.set t ⟨⟨g.cell, g.todo.tail⟩ :: rest, wants⟩⟩

theorem LazySys.step_Step {deps : Nat → List Nat} {s s' : LazySys} {t : Nat}
    (h : s.step deps t = some s') : LazySys.Step deps s t s' := by
  unfold LazySys.step at h
  split at h
  · cases h
  · rename_i th hth
    split at h
    · rename_i c hc
      split at h
      · rename_i hcell
        cases h
        obtain ⟨stack, wants⟩ := th
        cases stack with
        | nil =>
          cases wants with
          | nil => simp [Thread.nextForce] at hc
          | cons c' w =>
            simp [Thread.nextForce] at hc
            subst hc
            exact .skipWant _ _ hth hcell
        | cons f rest =>
          obtain ⟨fc, todo⟩ := f
          cases todo with
          | nil => simp [Thread.nextForce] at hc
          | cons c' tl =>
            simp [Thread.nextForce] at hc
            subst hc
            exact .skipTodo _ _ _ _ _ hth hcell
      · rename_i hcell
        cases h
        exact .push _ _ hth hc hcell
      · cases h
    · rename_i hc
      split at h
      · rename_i f rest hst
        cases h
        obtain ⟨stack, wants⟩ := th
        simp at hst
        subst hst
        obtain ⟨fc, todo⟩ := f
        cases todo with
        | cons _ _ => simp [Thread.nextForce] at hc
        | nil =>
          cases rest with
          | nil => exact .popLast _ _ hth
          | cons g rest' => exact .popInner _ _ _ _ hth
      · cases h

theorem LazySys.Step.cells_length {deps : Nat → List Nat} {s s' : LazySys} {t : Nat}
    (h : LazySys.Step deps s t s') : s'.cells.length = s.cells.length := by
  cases h <;> simp

theorem LazySys.Step.threads_length {deps : Nat → List Nat} {s s' : LazySys} {t : Nat}
    (h : LazySys.Step deps s t s') : s'.threads.length = s.threads.length := by
  cases h <;> simp

/-- (c) `done` cells stay `done` (no invariant needed) -/
theorem LazySys.Step.done_stable {deps : Nat → List Nat} {s s' : LazySys} {t : Nat}
    (h : LazySys.Step deps s t s') {c : Nat} (hc : s.cell c = .done) : s'.cell c = .done := by
  cases h with
  | skipWant => exact hc
  | skipTodo => exact hc
  | push c' th hth hn hu =>
    have : c' ≠ c := by intro e; subst e; rw [hc] at hu; cases hu
    show (s.cells.set c' _).getD c _ = _
    rw [getD_set_ne _ _ _ _ _ this]; exact hc
  | popLast fc wants hth =>
    show (s.cells.set fc _).getD c _ = _
    exact getD_set_done _ _ _ hc
  | popInner fc g rest wants hth =>
    show (s.cells.set fc _).getD c _ = _
    exact getD_set_done _ _ _ hc

theorem LazySys.step_done_stable {deps : Nat → List Nat} {s s' : LazySys} {t : Nat}
    (h : s.step deps t = some s') {c : Nat} (hc : s.cell c = .done) : s'.cell c = .done :=
  (LazySys.step_Step h).done_stable hc

/-! ### the invariant -/

/-- every frame was pushed by forcing the head of the enclosing todo list (or of `wants`) -/
def Linked (wants : List Nat) : List Frame → Prop
  | [] => True
  | f :: rest => Thread.nextForce ⟨rest, wants⟩ = some f.cell ∧ Linked wants rest

structure LazySys.Inv (deps : Nat → List Nat) (rank : Nat → Nat) (s : LazySys) : Prop where
  /-- (a, →) a cell `running t` has a frame on thread `t`'s stack -/
  running_has_frame : ∀ c t, s.cell c = .running t →
    ∃ th, s.threads[t]? = some th ∧ c ∈ th.stack.map Frame.cell
  /-- (a, ←) the cell of every frame of thread `t` is `running t` -/
  frame_running : ∀ (t : Nat) (th : Thread), s.threads[t]? = some th →
    ∀ c ∈ th.stack.map Frame.cell, s.cell c = .running t
  /-- (b) ranks strictly increase from the innermost frame outwards -/
  stack_ranked : ∀ (t : Nat) (th : Thread), s.threads[t]? = some th →
    th.stack.Pairwise (fun f g => rank f.cell < rank g.cell)
  /-- (b) what a frame still has to force are dependencies of its cell -/
  todo_deps : ∀ (t : Nat) (th : Thread), s.threads[t]? = some th → ∀ f ∈ th.stack, ∀ u ∈ f.todo, u ∈ deps f.cell
  linked : ∀ (t : Nat) (th : Thread), s.threads[t]? = some th → Linked th.wants th.stack
  /-- a published (in-range) cell has all its dependencies published -/
  done_deps : ∀ c, c < s.cells.length → s.cell c = .done → ∀ u ∈ deps c, s.cell u = .done
  /-- a running initialiser has forced every dependency it no longer has on its todo list -/
  frame_deps : ∀ (t : Nat) (th : Thread), s.threads[t]? = some th →
    ∀ f ∈ th.stack, ∀ u ∈ deps f.cell, u ∈ f.todo ∨ s.cell u = .done

theorem LazySys.Inv.running_iff {deps : Nat → List Nat} {rank : Nat → Nat} {s : LazySys} (hinv : s.Inv deps rank) {t : Nat}
    {th : Thread} (hth : s.threads[t]? = some th) (c : Nat) :
    s.cell c = .running t ↔ c ∈ th.stack.map Frame.cell := by
  constructor
  · intro h
    obtain ⟨th', hth', hc⟩ := hinv.running_has_frame c t h
    rw [hth] at hth'; cases hth'; exact hc
  · exact hinv.frame_running t th hth c

/-- (a) exactly one frame: the cells along a stack are pairwise distinct -/
theorem LazySys.Inv.stack_nodup {deps : Nat → List Nat} {rank : Nat → Nat} {s : LazySys} (hinv : s.Inv deps rank) {t : Nat}
    {th : Thread} (hth : s.threads[t]? = some th) : (th.stack.map Frame.cell).Nodup := by
  have := hinv.stack_ranked t th hth
  rw [List.Nodup, List.pairwise_map]
  exact this.imp (fun {a b} hab e => by rw [e] at hab; exact Nat.lt_irrefl _ hab)

/-- (a) no other thread has a frame for a cell that is `running t` -/
theorem LazySys.Inv.frame_unique {deps : Nat → List Nat} {rank : Nat → Nat} {s : LazySys} (hinv : s.Inv deps rank) {t t' c : Nat}
    {th' : Thread} (hc : s.cell c = .running t) (hth' : s.threads[t']? = some th')
    (hmem : c ∈ th'.stack.map Frame.cell) : t' = t := by
  have := hinv.frame_running t' th' hth' c hmem
  rw [hc] at this; cases this; rfl

theorem LazySys.Inv.update {deps : Nat → List Nat} {rank : Nat → Nat} {s : LazySys} (hinv : s.Inv deps rank) {t : Nat}
    {th th' : Thread} {cells' : List CellState} (hth : s.threads[t]? = some th)
    (hlen : cells'.length = s.cells.length)
    (hrun_other : ∀ c t', t' ≠ t → (cells'.getD c .done = .running t' ↔ s.cell c = .running t'))
    (hrun_self : ∀ c, cells'.getD c .done = .running t ↔ c ∈ th'.stack.map Frame.cell)
    (hdone_mono : ∀ c, s.cell c = .done → cells'.getD c .done = .done)
    (hdone_new : ∀ c, cells'.getD c .done = .done → s.cell c ≠ .done →
      ∀ u ∈ deps c, s.cell u = .done)
    (hranked : th'.stack.Pairwise (fun f g => rank f.cell < rank g.cell))
    (htodo : ∀ f ∈ th'.stack, ∀ u ∈ f.todo, u ∈ deps f.cell)
    (hlinked : Linked th'.wants th'.stack)
    (hfdeps : ∀ f ∈ th'.stack, ∀ u ∈ deps f.cell, u ∈ f.todo ∨ cells'.getD u .done = .done) :
    LazySys.Inv deps rank ⟨cells', s.threads.set t th'⟩ := by
  have hself : (s.threads.set t th')[t]? = some th' := getElem?_set_self' hth
  have hother : ∀ t', t' ≠ t → (s.threads.set t th')[t']? = s.threads[t']? := by
    intro t' h; rw [List.getElem?_set, if_neg (fun e => h (Eq.symm e))]
  constructor
  · intro c t' hc
    by_cases e : t' = t
    · subst e
      exact ⟨th', hself, (hrun_self c).1 hc⟩
    · obtain ⟨th'', h1, h2⟩ := hinv.running_has_frame c t' ((hrun_other c t' e).1 hc)
      exact ⟨th'', by show (s.threads.set t th')[t']? = _; rw [hother t' e]; exact h1, h2⟩
  · intro t' th'' h c hc
    rcases getElem?_set_cases h with ⟨e1, e2⟩ | ⟨e1, e2⟩
    · subst e1; subst e2; exact (hrun_self c).2 hc
    · exact (hrun_other c t' e1).2 (hinv.frame_running t' th'' e2 c hc)
  · intro t' th'' h
    rcases getElem?_set_cases h with ⟨e1, e2⟩ | ⟨e1, e2⟩
    · subst e2; exact hranked
    · exact hinv.stack_ranked t' th'' e2
  · intro t' th'' h
    rcases getElem?_set_cases h with ⟨e1, e2⟩ | ⟨e1, e2⟩
    · subst e2; exact htodo
    · exact hinv.todo_deps t' th'' e2
  · intro t' th'' h
    rcases getElem?_set_cases h with ⟨e1, e2⟩ | ⟨e1, e2⟩
    · subst e2; exact hlinked
    · exact hinv.linked t' th'' e2
  · intro c hc hd u hu
    have hc' : c < s.cells.length := by rw [← hlen]; exact hc
    by_cases hold : s.cell c = .done
    · exact hdone_mono u (hinv.done_deps c hc' hold u hu)
    · exact hdone_mono u (hdone_new c hd hold u hu)
  · intro t' th'' h f hf u hu
    rcases getElem?_set_cases h with ⟨e1, e2⟩ | ⟨e1, e2⟩
    · subst e2; exact hfdeps f hf u hu
    · rcases hinv.frame_deps t' th'' e2 f hf u hu with h1 | h1
      · exact Or.inl h1
      · exact Or.inr (hdone_mono u h1)

theorem nextForce_mem_todo {f : Frame} {rest : List Frame} {wants : List Nat} {c : Nat}
    (h : Thread.nextForce ⟨f :: rest, wants⟩ = some c) : c ∈ f.todo := by
  simp only [Thread.nextForce] at h
  exact List.mem_of_mem_head? (by rw [h]; rfl)

theorem mem_of_mem_tail' {α} {a : α} {l : List α} (h : a ∈ l.tail) : a ∈ l := by
  cases l with
  | nil => cases h
  | cons x xs => exact List.mem_cons_of_mem _ h

/-- the invariant is preserved by every enabled step of every thread -/
theorem LazySys.Inv.Step {deps : Nat → List Nat} {rank : Nat → Nat}
    (hr : ∀ c u, u ∈ deps c → rank u < rank c) {s s' : LazySys} {t : Nat}
    (hinv : s.Inv deps rank) (h : LazySys.Step deps s t s') : s'.Inv deps rank := by
  cases h with
  | skipWant c w hth hc =>
    refine hinv.update hth rfl (fun _ _ _ => Iff.rfl) ?_ (fun _ h => h) (fun _ h h' => absurd h h')
      List.Pairwise.nil (fun _ hf => nomatch hf) trivial (fun _ hf => nomatch hf)
    intro c'
    exact hinv.running_iff hth c'
  | skipTodo c fc tl rest wants hth hc =>
    have hl := hinv.linked _ _ hth
    refine hinv.update hth rfl (fun _ _ _ => Iff.rfl) ?_ (fun _ h => h) (fun _ h h' => absurd h h')
      ?_ ?_ ?_ ?_
    · intro c'
      exact hinv.running_iff hth c'
    · have := hinv.stack_ranked _ _ hth
      simp only [List.pairwise_cons] at this ⊢
      exact this
    · intro f hf u hu
      rcases List.mem_cons.1 hf with e | hf'
      · subst e
        exact hinv.todo_deps _ _ hth ⟨fc, c :: tl⟩ List.mem_cons_self u (List.mem_cons_of_mem _ hu)
      · exact hinv.todo_deps _ _ hth f (List.mem_cons_of_mem _ hf') u hu
    · exact hl
    · intro f hf u hu
      rcases List.mem_cons.1 hf with e | hf'
      · subst e
        rcases hinv.frame_deps _ _ hth ⟨fc, c :: tl⟩ List.mem_cons_self u hu with h1 | h1
        · rcases List.mem_cons.1 h1 with e | h2
          · subst e; exact Or.inr hc
          · exact Or.inl h2
        · exact Or.inr h1
      · exact hinv.frame_deps _ _ hth f (List.mem_cons_of_mem _ hf') u hu
  | push c th hth hn hu =>
    have hclt : c < s.cells.length := cell_lt_of_ne_done (by rw [hu]; intro h; cases h)
    have hne : ∀ c', s.cell c' = .done → c ≠ c' := by
      intro c' h e; subst e; rw [hu] at h; cases h
    refine hinv.update hth (by simp) ?_ ?_ ?_ ?_ ?_ ?_ ?_ ?_
    · intro c' t' ht'
      by_cases e : c = c'
      · subst e
        rw [getD_set_eq _ _ _ _ hclt, hu]
        constructor
        · intro h; cases h; exact absurd rfl ht'
        · intro h; cases h
      · rw [getD_set_ne _ _ _ _ _ e]; exact Iff.rfl
    · intro c'
      by_cases e : c = c'
      · subst e
        rw [getD_set_eq _ _ _ _ hclt]
        simp
      · rw [getD_set_ne _ _ _ _ _ e]
        have := hinv.running_iff hth c'
        simp only [LazySys.cell] at this
        rw [this]
        have e' : c' ≠ _ := fun h => e (Eq.symm h)
        simp [e']
    · intro c' h
      rw [getD_set_ne _ _ _ _ _ (hne c' h)]; exact h
    · intro c' h h'
      by_cases e : c = c'
      · subst e
        rw [getD_set_eq _ _ _ _ hclt] at h; cases h
      · rw [getD_set_ne _ _ _ _ _ e] at h; exact absurd h h'
    · have hold := hinv.stack_ranked _ _ hth
      refine List.Pairwise.cons ?_ hold
      intro g hg
      obtain ⟨stack, wants⟩ := th
      cases stack with
      | nil => cases hg
      | cons f rest =>
        have h1 : rank c < rank f.cell :=
          hr _ _ (hinv.todo_deps _ _ hth f List.mem_cons_self c (nextForce_mem_todo hn))
        rcases List.mem_cons.1 hg with e | hg'
        · subst e; exact h1
        · exact Nat.lt_trans h1 ((List.pairwise_cons.1 hold).1 g hg')
    · intro f hf u hu'
      rcases List.mem_cons.1 hf with e | hf'
      · subst e; exact hu'
      · exact hinv.todo_deps _ _ hth f hf' u hu'
    · exact ⟨hn, hinv.linked _ _ hth⟩
    · intro f hf u hu'
      rcases List.mem_cons.1 hf with e | hf'
      · subst e; exact Or.inl hu'
      · rcases hinv.frame_deps _ _ hth f hf' u hu' with h1 | h1
        · exact Or.inl h1
        · refine Or.inr ?_
          rw [getD_set_ne _ _ _ _ _ (hne u h1)]; exact h1
  | popLast fc wants hth =>
    have hrun : s.cell fc = .running t := hinv.frame_running _ _ hth fc (by simp)
    have hclt : fc < s.cells.length := cell_lt_of_ne_done (by rw [hrun]; intro h; cases h)
    refine hinv.update hth (by simp) ?_ ?_ (fun c' h => getD_set_done _ _ _ h) ?_
      List.Pairwise.nil (fun _ hf => nomatch hf) trivial (fun _ hf => nomatch hf)
    · intro c' t' ht'
      by_cases e : fc = c'
      · subst e
        rw [getD_set_eq _ _ _ _ hclt, hrun]
        constructor
        · intro h; cases h
        · intro h; cases h; exact absurd rfl ht'
      · rw [getD_set_ne _ _ _ _ _ e]; exact Iff.rfl
    · intro c'
      by_cases e : fc = c'
      · subst e
        rw [getD_set_eq _ _ _ _ hclt]
        simp
      · rw [getD_set_ne _ _ _ _ _ e]
        have := hinv.running_iff hth c'
        simp only [LazySys.cell] at this
        rw [this]
        have e' : c' ≠ _ := fun h => e (Eq.symm h)
        simp [e']
    · intro c' h h' u hu
      by_cases e : fc = c'
      · subst e
        rcases hinv.frame_deps _ _ hth ⟨fc, []⟩ List.mem_cons_self u hu with h1 | h1
        · cases h1
        · exact h1
      · rw [getD_set_ne _ _ _ _ _ e] at h; exact absurd h h'
  | popInner fc g rest wants hth =>
    have hrun : s.cell fc = .running t := hinv.frame_running _ _ hth fc (by simp)
    have hclt : fc < s.cells.length := cell_lt_of_ne_done (by rw [hrun]; intro h; cases h)
    have hrk := hinv.stack_ranked _ _ hth
    have hl := hinv.linked _ _ hth
    have hfc_notin : fc ∉ g.cell :: rest.map Frame.cell := by
      intro hmem
      have h1 := (List.pairwise_cons.1 hrk).1
      rcases List.mem_cons.1 hmem with e | hm
      · have := h1 g List.mem_cons_self
        rw [← e] at this; exact Nat.lt_irrefl _ this
      · obtain ⟨f', hf', e⟩ := List.mem_map.1 hm
        have := h1 f' (List.mem_cons_of_mem _ hf')
        rw [e] at this; exact Nat.lt_irrefl _ this
    have hghead : g.todo.head? = some fc := hl.1
    refine hinv.update hth (by simp) ?_ ?_ (fun c' h => getD_set_done _ _ _ h) ?_ ?_ ?_ ?_ ?_
    · intro c' t' ht'
      by_cases e : fc = c'
      · subst e
        rw [getD_set_eq _ _ _ _ hclt, hrun]
        constructor
        · intro h; cases h
        · intro h; cases h; exact absurd rfl ht'
      · rw [getD_set_ne _ _ _ _ _ e]; exact Iff.rfl
    · intro c'
      by_cases e : fc = c'
      · subst e
        rw [getD_set_eq _ _ _ _ hclt]
        constructor
        · intro h; cases h
        · intro h; exact absurd h hfc_notin
      · rw [getD_set_ne _ _ _ _ _ e]
        have := hinv.running_iff hth c'
        simp only [LazySys.cell] at this
        rw [this]
        have e' : c' ≠ _ := fun h => e (Eq.symm h)
        simp [e']
    · intro c' h h' u hu
      by_cases e : fc = c'
      · subst e
        rcases hinv.frame_deps _ _ hth ⟨fc, []⟩ List.mem_cons_self u hu with h1 | h1
        · cases h1
        · exact h1
      · rw [getD_set_ne _ _ _ _ _ e] at h; exact absurd h h'
    · have := (List.pairwise_cons.1 hrk).2
      simp only [List.pairwise_cons] at this ⊢
      exact this
    · intro f hf u hu
      rcases List.mem_cons.1 hf with e | hf'
      · subst e
        exact hinv.todo_deps _ _ hth g (by simp) u (mem_of_mem_tail' hu)
      · exact hinv.todo_deps _ _ hth f (by simp [hf']) u hu
    · exact hl.2
    · intro f hf u hu
      rcases List.mem_cons.1 hf with e | hf'
      · subst e
        rcases hinv.frame_deps _ _ hth g (by simp) u hu with h1 | h1
        · obtain ⟨gc, gtodo⟩ := g
          cases gtodo with
          | nil => cases h1
          | cons x tl =>
            simp at hghead
            subst hghead
            rcases List.mem_cons.1 h1 with e | h2
            · subst e
              exact Or.inr (getD_set_eq _ _ _ _ hclt)
            · exact Or.inl h2
        · exact Or.inr (getD_set_done _ _ _ h1)
      · rcases hinv.frame_deps _ _ hth f (by simp [hf']) u hu with h1 | h1
        · exact Or.inl h1
        · exact Or.inr (getD_set_done _ _ _ h1)

theorem LazySys.Inv.step {deps : Nat → List Nat} {rank : Nat → Nat}
    (hr : ∀ c u, u ∈ deps c → rank u < rank c) {s s' : LazySys} {t : Nat}
    (hinv : s.Inv deps rank) (h : s.step deps t = some s') : s'.Inv deps rank :=
  hinv.Step hr (LazySys.step_Step h)

/-! ### initial state, runs -/

theorem LazySys.init_thread {nCells : Nat} {wants : List (List Nat)} {t : Nat} {th : Thread}
    (h : (LazySys.init nCells wants).threads[t]? = some th) :
    ∃ w, wants[t]? = some w ∧ th = ⟨[], w⟩ := by
  simp only [LazySys.init, List.getElem?_map, Option.map_eq_some_iff] at h
  obtain ⟨w, h1, h2⟩ := h
  exact ⟨w, h1, h2.symm⟩

theorem LazySys.init_cell (nCells : Nat) (wants : List (List Nat)) (c : Nat) :
    (LazySys.init nCells wants).cell c = if c < nCells then .uninit else .done := by
  simp only [LazySys.init, LazySys.cell, List.getD_eq_getElem?_getD, List.getElem?_replicate]
  split <;> rfl

theorem LazySys.init_inv (deps : Nat → List Nat) (rank : Nat → Nat) (nCells : Nat)
    (wants : List (List Nat)) : (LazySys.init nCells wants).Inv deps rank := by
  constructor
  · intro c t h
    rw [LazySys.init_cell] at h
    split at h <;> cases h
  · intro t th h c hc
    obtain ⟨w, _, e⟩ := LazySys.init_thread h
    subst e; cases hc
  · intro t th h
    obtain ⟨w, _, e⟩ := LazySys.init_thread h
    subst e; exact List.Pairwise.nil
  · intro t th h f hf
    obtain ⟨w, _, e⟩ := LazySys.init_thread h
    subst e; cases hf
  · intro t th h
    obtain ⟨w, _, e⟩ := LazySys.init_thread h
    subst e; trivial
  · intro c hc h
    rw [LazySys.init_cell] at h
    have : c < nCells := by simpa [LazySys.init] using hc
    rw [if_pos this] at h; cases h
  · intro t th h f hf
    obtain ⟨w, _, e⟩ := LazySys.init_thread h
    subst e; cases hf

theorem LazySys.run_inv {deps : Nat → List Nat} {rank : Nat → Nat}
    (hr : ∀ c u, u ∈ deps c → rank u < rank c) (sched : List Nat) :
    ∀ {s : LazySys}, s.Inv deps rank → (s.run deps sched).Inv deps rank := by
  induction sched with
  | nil => intro s h; exact h
  | cons t ts ih =>
    intro s h
    simp only [LazySys.run]
    cases hs : s.step deps t with
    | none => exact ih h
    | some s' => exact ih (h.step hr hs)

/-- item 1: the invariant holds in every state reachable from an initial state -/
theorem LazySys.reachable_inv {deps : Nat → List Nat} {rank : Nat → Nat}
    (hr : ∀ c u, u ∈ deps c → rank u < rank c) (nCells : Nat) (wants : List (List Nat))
    (sched : List Nat) : ((LazySys.init nCells wants).run deps sched).Inv deps rank :=
  LazySys.run_inv hr sched (LazySys.init_inv deps rank nCells wants)

/-! ### item 2: no re-entrancy -/

theorem LazySys.no_reentrancy {deps : Nat → List Nat} {rank : Nat → Nat}
    (hr : ∀ c u, u ∈ deps c → rank u < rank c) {s : LazySys} (hinv : s.Inv deps rank)
    {t : Nat} {th : Thread} {c : Nat} (hth : s.threads[t]? = some th)
    (hn : th.nextForce = some c) : s.cell c ≠ .running t := by
  intro hc
  have hmem := (hinv.running_iff hth c).1 hc
  obtain ⟨stack, wants⟩ := th
  cases stack with
  | nil => cases hmem
  | cons f rest =>
    have h1 : rank c < rank f.cell :=
      hr _ _ (hinv.todo_deps _ _ hth f List.mem_cons_self c (nextForce_mem_todo hn))
    have hrk := hinv.stack_ranked _ _ hth
    rcases List.mem_cons.1 hmem with e | hm
    · rw [e] at h1; exact Nat.lt_irrefl _ h1
    · obtain ⟨f', hf', e⟩ := List.mem_map.1 hm
      have := (List.pairwise_cons.1 hrk).1 f' hf'
      rw [e] at this
      exact Nat.lt_irrefl _ (Nat.lt_trans h1 this)

/-! ### item 3: progress -/

/-- the innermost frame of a stack has the least rank -/
theorem LazySys.Inv.innermost_le {deps : Nat → List Nat} {rank : Nat → Nat} {s : LazySys}
    (hinv : s.Inv deps rank) {t : Nat} {f : Frame} {rest : List Frame} {wants : List Nat}
    (hth : s.threads[t]? = some ⟨f :: rest, wants⟩) {c : Nat}
    (hc : c ∈ (f :: rest).map Frame.cell) : rank f.cell ≤ rank c := by
  have hrk := hinv.stack_ranked _ _ hth
  rcases List.mem_cons.1 hc with e | hm
  · rw [e]; exact Nat.le_refl _
  · obtain ⟨f', hf', e⟩ := List.mem_map.1 hm
    have := (List.pairwise_cons.1 hrk).1 f' hf'
    rw [e] at this
    exact Nat.le_of_lt this

theorem LazySys.step_of_nextForce_none {deps : Nat → List Nat} {s : LazySys} {t : Nat}
    {th : Thread} (hth : s.threads[t]? = some th) (hn : th.nextForce = none)
    (hst : th.stack ≠ []) : ∃ s', s.step deps t = some s' := by
  obtain ⟨stack, wants⟩ := th
  cases stack with
  | nil => exact absurd rfl hst
  | cons f rest =>
    simp only [LazySys.step, hth, hn]
    exact ⟨_, rfl⟩

/-- a thread that wants to force a cell can move, or someone else can -/
theorem LazySys.Inv.progress_aux {deps : Nat → List Nat} {rank : Nat → Nat}
    (hr : ∀ c u, u ∈ deps c → rank u < rank c) {s : LazySys} (hinv : s.Inv deps rank) :
    ∀ (n : Nat) (t : Nat) (th : Thread) (c : Nat), rank c = n → s.threads[t]? = some th →
      th.nextForce = some c → ∃ t' s', s.step deps t' = some s' := by
  intro n
  induction n using Nat.strongRecOn with
  | _ n ih =>
    intro t th c hn hth hnf
    cases hc : s.cell c with
    | done =>
      refine ⟨t, ?_⟩
      simp only [LazySys.step, hth, hnf, hc]
      exact ⟨_, rfl⟩
    | uninit =>
      refine ⟨t, ?_⟩
      simp only [LazySys.step, hth, hnf, hc]
      exact ⟨_, rfl⟩
    | running t1 =>
      obtain ⟨th1, hth1, hmem⟩ := hinv.running_has_frame c t1 hc
      cases hnf1 : th1.nextForce with
      | none =>
        have hst : th1.stack ≠ [] := by
          intro e; rw [e] at hmem; cases hmem
        obtain ⟨s', hs'⟩ := LazySys.step_of_nextForce_none (deps := deps) hth1 hnf1 hst
        exact ⟨t1, s', hs'⟩
      | some c1 =>
        obtain ⟨stack1, wants1⟩ := th1
        cases stack1 with
        | nil => cases hmem
        | cons f rest =>
          have h1 : rank c1 < rank f.cell :=
            hr _ _ (hinv.todo_deps _ _ hth1 f List.mem_cons_self c1 (nextForce_mem_todo hnf1))
          have h2 : rank f.cell ≤ rank c := hinv.innermost_le hth1 hmem
          exact ih (rank c1) (by rw [← hn]; exact Nat.lt_of_lt_of_le h1 h2) t1 _ c1 rfl hth1 hnf1

theorem LazySys.progress {deps : Nat → List Nat} {rank : Nat → Nat}
    (hr : ∀ c u, u ∈ deps c → rank u < rank c) {s : LazySys} (hinv : s.Inv deps rank)
    (hnf : s.allFinished = false) : ∃ t s', s.step deps t = some s' := by
  have : ∃ th ∈ s.threads, th.finished = false := by
    simp only [LazySys.allFinished] at hnf
    have := List.all_eq_false.1 hnf
    obtain ⟨th, h1, h2⟩ := this
    exact ⟨th, h1, by simpa using h2⟩
  obtain ⟨th, hmem, hfin⟩ := this
  obtain ⟨t, ht, hget⟩ := List.getElem_of_mem hmem
  have hth : s.threads[t]? = some th := by rw [List.getElem?_eq_getElem ht, hget]
  cases hnf' : th.nextForce with
  | some c => exact hinv.progress_aux hr (rank c) t th c rfl hth hnf'
  | none =>
    have hst : th.stack ≠ [] := by
      intro e
      obtain ⟨stack, wants⟩ := th
      simp only at e
      subst e
      cases wants with
      | nil => simp [Thread.finished] at hfin
      | cons w ws => simp [Thread.nextForce] at hnf'
    obtain ⟨s', hs'⟩ := LazySys.step_of_nextForce_none (deps := deps) hth hnf' hst
    exact ⟨t, s', hs'⟩

/-- deadlock freedom under every schedule -/
theorem LazySys.deadlock_free {deps : Nat → List Nat} {rank : Nat → Nat}
    (hr : ∀ c u, u ∈ deps c → rank u < rank c) (nCells : Nat) (wants : List (List Nat))
    (sched : List Nat) :
    ((LazySys.init nCells wants).run deps sched).allFinished = true ∨
      ∃ t s', ((LazySys.init nCells wants).run deps sched).step deps t = some s' := by
  cases h : ((LazySys.init nCells wants).run deps sched).allFinished with
  | true => exact Or.inl rfl
  | false => exact Or.inr (LazySys.progress hr (LazySys.reachable_inv hr nCells wants sched) h)

/-! ### item 6 (first part): the crate's tables, and a checkable acyclicity criterion -/

/-- cells `0 = EXP_LOG, 1 = LOG_WALSH, 2 = MUL16, 3 = MUL128, 4 = SKEW`;
    the initialisers of the last four force `EXP_LOG` -/
def tablesDeps (c : Nat) : List Nat := if c = 0 then [] else if c ≤ 4 then [0] else []

def tablesRank (c : Nat) : Nat := if c = 0 then 0 else 1

theorem tables_rank_ok : ∀ c u, u ∈ tablesDeps c → tablesRank u < tablesRank c := by
  intro c u h
  unfold tablesDeps at h
  split at h
  · cases h
  · rename_i hc
    split at h
    · have : u = 0 := by simpa using h
      subst this
      simp [tablesRank, hc]
    · cases h

theorem tables_closed : ∀ c, c < 5 → ∀ u ∈ tablesDeps c, u < 5 := by
  intro c _ u h
  unfold tablesDeps at h
  split at h
  · cases h
  · split at h
    · have : u = 0 := by simpa using h
      subst this; decide
    · cases h

/-- dependency function of a dependency table given as data -/
def depsOfTable (tbl : List (List Nat)) : Nat → List Nat := fun c => tbl.getD c []

/-- checkable criterion: every listed dependency is a cell of the table and has smaller rank -/
def rankOk (tbl : List (List Nat)) (rk : List Nat) : Bool :=
  (List.range tbl.length).all fun c =>
    (tbl.getD c []).all fun u => decide (u < tbl.length) && decide (rk.getD u 0 < rk.getD c 0)

theorem rankOk_spec {tbl : List (List Nat)} {rk : List Nat} (h : rankOk tbl rk = true)
    {c u : Nat} (hu : u ∈ depsOfTable tbl c) : u < tbl.length ∧ rk.getD u 0 < rk.getD c 0 := by
  have hc : c < tbl.length := by
    apply Classical.byContradiction
    intro hn
    simp [depsOfTable, List.getD_eq_getElem?_getD,
      List.getElem?_eq_none (Nat.le_of_not_lt hn)] at hu
  have h1 := List.all_eq_true.1 h c (List.mem_range.2 hc)
  have h2 := List.all_eq_true.1 h1 u hu
  simpa using h2

theorem rankOk_sound {tbl : List (List Nat)} {rk : List Nat} (h : rankOk tbl rk = true) :
    ∀ c u, u ∈ depsOfTable tbl c → rk.getD u 0 < rk.getD c 0 :=
  fun _ _ hu => (rankOk_spec h hu).2

theorem rankOk_closed {tbl : List (List Nat)} {rk : List Nat} (h : rankOk tbl rk = true) :
    ∀ c, c < tbl.length → ∀ u ∈ depsOfTable tbl c, u < tbl.length :=
  fun _ _ _ hu => (rankOk_spec h hu).1

/-- the crate's dependency table as data; it agrees with `tablesDeps` -/
def tablesTable : List (List Nat) := [[], [0], [0], [0], [0]]

theorem tablesTable_rankOk : rankOk tablesTable [0, 1, 1, 1, 1] = true := by decide

theorem depsOfTable_tablesTable : depsOfTable tablesTable = tablesDeps := by
  funext c
  match c with
  | 0 | 1 | 2 | 3 | 4 => rfl
  | c + 5 =>
    simp [depsOfTable, tablesTable, tablesDeps]

/-- 3 threads wanting `[SKEW, MUL16]`, `[LOG_WALSH]`, `[MUL128, EXP_LOG]` under an interleaved
    schedule: everything finishes and all five tables are initialised -/
def exampleSchedule : List Nat :=
  [0, 1, 2, 2, 1, 0, 0, 0, 1, 2, 1, 1, 2, 0, 2, 0, 1, 2, 0, 0, 2, 2, 1, 0, 1, 2, 0, 1, 2, 0]

example :
    let s := (LazySys.init 5 [[4, 2], [1], [3, 0]]).run tablesDeps exampleSchedule
    s.allFinished = true ∧ s.cells = [.done, .done, .done, .done, .done] := by
  decide

/-! ### item 5: the final state -/

/-- history invariant: whatever thread `t` initially wanted is still on its `wants` list or is
    `done` -/
def LazySys.Served (wants0 : List (List Nat)) (s : LazySys) : Prop :=
  ∀ (t : Nat) (w : List Nat), wants0[t]? = some w →
    ∃ th, s.threads[t]? = some th ∧ ∀ c ∈ w, c ∈ th.wants ∨ s.cell c = .done

theorem LazySys.init_served (nCells : Nat) (wants : List (List Nat)) :
    (LazySys.init nCells wants).Served wants := by
  intro t w h
  refine ⟨⟨[], w⟩, ?_, fun c hc => Or.inl hc⟩
  simp [LazySys.init, List.getElem?_map, h]

theorem LazySys.Served.Step {deps : Nat → List Nat} {rank : Nat → Nat} {wants0 : List (List Nat)}
    {s s' : LazySys} {t : Nat} (hinv : s.Inv deps rank) (hsv : s.Served wants0)
    (h : LazySys.Step deps s t s') : s'.Served wants0 := by
  intro t' w hw
  obtain ⟨th, hth, hall⟩ := hsv t' w hw
  have hstable : ∀ c, s.cell c = .done → s'.cell c = .done := fun c hc => h.done_stable hc
  -- threads other than `t`, and `t` itself when its `wants` are unchanged
  have keep : ∀ {cells' : List CellState} {th' : Thread}, s' = ⟨cells', s.threads.set t th'⟩ →
      (t' = t → ∀ c ∈ th.wants, c ∈ th'.wants ∨ s'.cell c = .done) →
      ∃ th'', s'.threads[t']? = some th'' ∧ ∀ c ∈ w, c ∈ th''.wants ∨ s'.cell c = .done := by
    intro cells' th' e hw'
    by_cases ht : t' = t
    · subst ht
      refine ⟨th', by rw [e]; exact getElem?_set_self' hth, ?_⟩
      intro c hc
      rcases hall c hc with h1 | h1
      · exact hw' rfl c h1
      · exact Or.inr (hstable c h1)
    · refine ⟨th, ?_, ?_⟩
      · rw [e]
        show (s.threads.set t th')[t']? = _
        rw [List.getElem?_set, if_neg (fun e' => ht (Eq.symm e'))]; exact hth
      · intro c hc
        rcases hall c hc with h1 | h1
        · exact Or.inl h1
        · exact Or.inr (hstable c h1)
  cases h with
  | skipWant c w' hth0 hc =>
    refine keep rfl ?_
    intro e c' hc'
    subst e
    rw [hth0] at hth; cases hth
    rcases List.mem_cons.1 hc' with e | h2
    · subst e; exact Or.inr hc
    · exact Or.inl h2
  | skipTodo c fc tl rest wants hth0 hc =>
    refine keep rfl ?_
    intro e c' hc'
    subst e
    rw [hth0] at hth; cases hth
    exact Or.inl hc'
  | push c th0 hth0 hn hu =>
    refine keep rfl ?_
    intro e c' hc'
    subst e
    rw [hth0] at hth; cases hth
    exact Or.inl hc'
  | popLast fc wants hth0 =>
    refine keep rfl ?_
    intro e c' hc'
    subst e
    rw [hth0] at hth; cases hth
    have hrun : s.cell fc = .running t' := hinv.frame_running _ _ hth0 fc (by simp)
    have hclt : fc < s.cells.length := cell_lt_of_ne_done (by rw [hrun]; intro h; cases h)
    have hl := hinv.linked _ _ hth0
    have hhead : wants.head? = some fc := hl.1
    cases wants with
    | nil => cases hc'
    | cons x tl =>
      simp at hhead
      subst hhead
      rcases List.mem_cons.1 hc' with e | h2
      · subst e
        exact Or.inr (getD_set_eq _ _ _ _ hclt)
      · exact Or.inl h2
  | popInner fc g rest wants hth0 =>
    refine keep rfl ?_
    intro e c' hc'
    subst e
    rw [hth0] at hth; cases hth
    exact Or.inl hc'

theorem LazySys.run_served {deps : Nat → List Nat} {rank : Nat → Nat}
    (hr : ∀ c u, u ∈ deps c → rank u < rank c) {wants0 : List (List Nat)} (sched : List Nat) :
    ∀ {s : LazySys}, s.Inv deps rank → s.Served wants0 →
      (s.run deps sched).Served wants0 := by
  induction sched with
  | nil => intro s _ h; exact h
  | cons t ts ih =>
    intro s hinv h
    simp only [LazySys.run]
    cases hs : s.step deps t with
    | none => exact ih hinv h
    | some s' => exact ih (hinv.step hr hs) (h.Step hinv (LazySys.step_Step hs))

theorem LazySys.run_cells_length {deps : Nat → List Nat} (sched : List Nat) :
    ∀ (s : LazySys), (s.run deps sched).cells.length = s.cells.length := by
  induction sched with
  | nil => intro s; rfl
  | cons t ts ih =>
    intro s
    simp only [LazySys.run]
    cases hs : s.step deps t with
    | none => exact ih s
    | some s' => exact (ih s').trans (LazySys.step_Step hs).cells_length

theorem LazySys.run_threads_length {deps : Nat → List Nat} (sched : List Nat) :
    ∀ (s : LazySys), (s.run deps sched).threads.length = s.threads.length := by
  induction sched with
  | nil => intro s; rfl
  | cons t ts ih =>
    intro s
    simp only [LazySys.run]
    cases hs : s.step deps t with
    | none => exact ih s
    | some s' => exact (ih s').trans (LazySys.step_Step hs).threads_length

/-- reflexive-transitive closure of "is a dependency of" -/
inductive DepStar (deps : Nat → List Nat) : Nat → Nat → Prop
  | refl (c : Nat) : DepStar deps c c
  | step {c u v : Nat} : u ∈ deps c → DepStar deps u v → DepStar deps c v

theorem LazySys.allFinished_thread {s : LazySys} (h : s.allFinished = true) {t : Nat}
    {th : Thread} (hth : s.threads[t]? = some th) : th = ⟨[], []⟩ := by
  have hmem : th ∈ s.threads := List.mem_of_getElem? hth
  have := List.all_eq_true.1 h th hmem
  obtain ⟨stack, wants⟩ := th
  simp [Thread.finished] at this
  rw [this.1, this.2]

/-- in an all-finished state satisfying the invariant no cell is `running` -/
theorem LazySys.Inv.no_running_of_finished {deps : Nat → List Nat} {rank : Nat → Nat}
    {s : LazySys} (hinv : s.Inv deps rank) (hfin : s.allFinished = true) (c t : Nat) :
    s.cell c ≠ .running t := by
  intro hc
  obtain ⟨th, hth, hmem⟩ := hinv.running_has_frame c t hc
  have := LazySys.allFinished_thread hfin hth
  subst this
  cases hmem

/-- in-range `done` cells have all their transitive dependencies `done` -/
theorem LazySys.Inv.done_closure {deps : Nat → List Nat} {rank : Nat → Nat} {s : LazySys}
    (hinv : s.Inv deps rank)
    (hclosed : ∀ c, c < s.cells.length → ∀ u ∈ deps c, u < s.cells.length)
    {c u : Nat} (hcu : DepStar deps c u) :
    c < s.cells.length → s.cell c = .done → u < s.cells.length ∧ s.cell u = .done := by
  induction hcu with
  | refl c => exact fun h1 h2 => ⟨h1, h2⟩
  | step hmem _ ih =>
    intro h1 h2
    exact ih (hclosed _ h1 _ hmem) (hinv.done_deps _ h1 h2 _ hmem)

/-- item 5: in any reachable all-finished state no cell is `running`, and every cell some thread
    wanted, together with all its transitive dependencies, is `done` -/
theorem LazySys.final_state {deps : Nat → List Nat} {rank : Nat → Nat}
    (hr : ∀ c u, u ∈ deps c → rank u < rank c) {nCells : Nat} {wants : List (List Nat)}
    (hclosed : ∀ c, c < nCells → ∀ u ∈ deps c, u < nCells)
    (hwants : ∀ w ∈ wants, ∀ c ∈ w, c < nCells) (sched : List Nat)
    (hfin : ((LazySys.init nCells wants).run deps sched).allFinished = true) :
    (∀ c t, ((LazySys.init nCells wants).run deps sched).cell c ≠ .running t) ∧
    (∀ w ∈ wants, ∀ c ∈ w, ∀ u, DepStar deps c u →
      ((LazySys.init nCells wants).run deps sched).cell u = .done) := by
  have hinv := LazySys.reachable_inv hr nCells wants sched
  have hsv := LazySys.run_served hr sched (LazySys.init_inv deps rank nCells wants)
    (LazySys.init_served nCells wants)
  have hlen : ((LazySys.init nCells wants).run deps sched).cells.length = nCells := by
    rw [LazySys.run_cells_length]; simp [LazySys.init]
  refine ⟨hinv.no_running_of_finished hfin, ?_⟩
  intro w hw c hc u hcu
  obtain ⟨t, ht, hget⟩ := List.getElem_of_mem hw
  have hwt : wants[t]? = some w := by rw [List.getElem?_eq_getElem ht, hget]
  obtain ⟨th, hth, hall⟩ := hsv t w hwt
  have := LazySys.allFinished_thread hfin hth
  subst this
  have hdone : ((LazySys.init nCells wants).run deps sched).cell c = .done := by
    rcases hall c hc with h1 | h1
    · cases h1
    · exact h1
  exact (hinv.done_closure (by rw [hlen]; exact hclosed) hcu
    (by rw [hlen]; exact hwants w hw c hc) hdone).2

/-! ### item 4: termination measure -/

def cellWeight (deps : Nat → List Nat) (c : Nat) : CellState → Nat
  | .uninit => (deps c).length + 2
  | .running _ => 1
  | .done => 0

/-- total weight of the cells `off, off+1, …` -/
def cellsMeasure (deps : Nat → List Nat) : Nat → List CellState → Nat
  | _, [] => 0
  | off, x :: xs => cellWeight deps off x + cellsMeasure deps (off + 1) xs

def stackSize : List Frame → Nat
  | [] => 0
  | f :: rest => f.todo.length + stackSize rest

def Thread.size (th : Thread) : Nat := th.wants.length + stackSize th.stack

def threadsMeasure : List Thread → Nat
  | [] => 0
  | th :: ths => th.size + threadsMeasure ths

/-- every enabled step strictly decreases this -/
def LazySys.measure (deps : Nat → List Nat) (s : LazySys) : Nat :=
  cellsMeasure deps 0 s.cells + threadsMeasure s.threads

theorem cellsMeasure_set (deps : Nat → List Nat) (v : CellState) :
    ∀ (l : List CellState) (off i : Nat) (h : i < l.length),
      cellsMeasure deps off (l.set i v) + cellWeight deps (off + i) l[i] =
        cellsMeasure deps off l + cellWeight deps (off + i) v := by
  intro l
  induction l with
  | nil => intro off i h; cases h
  | cons x xs ih =>
    intro off i h
    cases i with
    | zero => simp [cellsMeasure]; omega
    | succ i =>
      have := ih (off + 1) i (Nat.lt_of_succ_lt_succ h)
      simp only [List.set_cons_succ, cellsMeasure, List.getElem_cons_succ]
      have e : off + (i + 1) = off + 1 + i := by omega
      rw [e]
      omega

theorem threadsMeasure_set (th th' : Thread) :
    ∀ (l : List Thread) (t : Nat), l[t]? = some th →
      threadsMeasure (l.set t th') + th.size = threadsMeasure l + th'.size := by
  intro l
  induction l with
  | nil => intro t h; cases h
  | cons x xs ih =>
    intro t h
    cases t with
    | zero =>
      simp at h; subst h
      simp [threadsMeasure]; omega
    | succ t =>
      simp at h
      have := ih t h
      simp only [List.set_cons_succ, threadsMeasure]
      omega

theorem cell_eq_getElem {s : LazySys} {c : Nat} (h : c < s.cells.length) :
    s.cell c = s.cells[c] := by
  simp [LazySys.cell, List.getD_eq_getElem?_getD, h]

theorem LazySys.Step.measure_lt {deps : Nat → List Nat} {rank : Nat → Nat} {s s' : LazySys}
    {t : Nat} (hinv : s.Inv deps rank) (h : LazySys.Step deps s t s') :
    s'.measure deps < s.measure deps := by
  cases h with
  | skipWant c w hth hc =>
    have := threadsMeasure_set ⟨[], c :: w⟩ ⟨[], w⟩ _ _ hth
    simp only [LazySys.measure, Thread.size, stackSize, List.length_cons] at this ⊢
    omega
  | skipTodo c fc tl rest wants hth hc =>
    have := threadsMeasure_set _ ⟨⟨fc, tl⟩ :: rest, wants⟩ _ _ hth
    simp only [LazySys.measure, Thread.size, stackSize, List.length_cons] at this ⊢
    omega
  | push c th hth hn hu =>
    have hclt : c < s.cells.length := cell_lt_of_ne_done (by rw [hu]; intro h; cases h)
    have h1 := threadsMeasure_set th ⟨⟨c, deps c⟩ :: th.stack, th.wants⟩ _ _ hth
    have h2 := cellsMeasure_set deps (.running t) s.cells 0 c hclt
    rw [← cell_eq_getElem hclt, hu] at h2
    simp only [LazySys.measure, Thread.size, stackSize, cellWeight, Nat.zero_add] at h1 h2 ⊢
    omega
  | popLast fc wants hth =>
    have hrun : s.cell fc = .running t := hinv.frame_running _ _ hth fc (by simp)
    have hclt : fc < s.cells.length := cell_lt_of_ne_done (by rw [hrun]; intro h; cases h)
    have h1 := threadsMeasure_set _ ⟨[], wants.tail⟩ _ _ hth
    have h2 := cellsMeasure_set deps .done s.cells 0 fc hclt
    rw [← cell_eq_getElem hclt, hrun] at h2
    have h3 : wants.tail.length ≤ wants.length := by simp
    simp only [LazySys.measure, Thread.size, stackSize, cellWeight, Nat.zero_add,
      List.length_nil] at h1 h2 ⊢
    omega
  | popInner fc g rest wants hth =>
    have hrun : s.cell fc = .running t := hinv.frame_running _ _ hth fc (by simp)
    have hclt : fc < s.cells.length := cell_lt_of_ne_done (by rw [hrun]; intro h; cases h)
    have h1 := threadsMeasure_set _ ⟨⟨g.cell, g.todo.tail⟩ :: rest, wants⟩ _ _ hth
    have h2 := cellsMeasure_set deps .done s.cells 0 fc hclt
    rw [← cell_eq_getElem hclt, hrun] at h2
    have h3 : g.todo.tail.length ≤ g.todo.length := by simp
    simp only [LazySys.measure, Thread.size, stackSize, cellWeight, Nat.zero_add,
      List.length_nil] at h1 h2 ⊢
    omega

/-- item 4: every enabled step strictly decreases the measure -/
theorem LazySys.measure_decreases {deps : Nat → List Nat} {rank : Nat → Nat} {s s' : LazySys}
    {t : Nat} (hinv : s.Inv deps rank) (h : s.step deps t = some s') :
    s'.measure deps < s.measure deps :=
  (LazySys.step_Step h).measure_lt hinv

/-- number of enabled (= not skipped) steps when running a schedule -/
def LazySys.runCount (deps : Nat → List Nat) (s : LazySys) : List Nat → Nat
  | [] => 0
  | t :: ts =>
    match s.step deps t with
    | some s' => LazySys.runCount deps s' ts + 1
    | none => LazySys.runCount deps s ts

/-- under any schedule at most `measure s` steps are actually taken -/
theorem LazySys.runCount_le {deps : Nat → List Nat} {rank : Nat → Nat}
    (hr : ∀ c u, u ∈ deps c → rank u < rank c) (sched : List Nat) :
    ∀ {s : LazySys}, s.Inv deps rank →
      (s.run deps sched).measure deps + s.runCount deps sched ≤ s.measure deps := by
  induction sched with
  | nil => intro s _; exact Nat.le_refl _
  | cons t ts ih =>
    intro s hinv
    simp only [LazySys.run, LazySys.runCount]
    cases hs : s.step deps t with
    | none => exact ih hinv
    | some s' =>
      have h1 := ih (hinv.step hr hs)
      have h2 := LazySys.measure_decreases hinv hs
      simp only [Option.getD_some]
      omega

/-- a schedule all of whose steps are enabled (an actual execution) -/
def LazySys.AllEnabled (deps : Nat → List Nat) : LazySys → List Nat → Prop
  | _, [] => True
  | s, t :: ts => ∃ s', s.step deps t = some s' ∧ LazySys.AllEnabled deps s' ts

/-- every execution is finite: it has at most `measure s` steps -/
theorem LazySys.execution_length_le {deps : Nat → List Nat} {rank : Nat → Nat}
    (hr : ∀ c u, u ∈ deps c → rank u < rank c) (sched : List Nat) :
    ∀ {s : LazySys}, s.Inv deps rank → s.AllEnabled deps sched →
      (s.run deps sched).measure deps + sched.length ≤ s.measure deps := by
  induction sched with
  | nil => intro s _ _; exact Nat.le_refl _
  | cons t ts ih =>
    intro s hinv hen
    obtain ⟨s', hs, hen'⟩ := hen
    have h1 := ih (hinv.step hr hs) hen'
    have h2 := LazySys.measure_decreases hinv hs
    simp only [LazySys.run, hs, Option.getD_some, List.length_cons]
    omega

/-- a maximal execution (no thread enabled at its end) ends in `allFinished` -/
theorem LazySys.maximal_execution_finished {deps : Nat → List Nat} {rank : Nat → Nat}
    (hr : ∀ c u, u ∈ deps c → rank u < rank c) {s : LazySys} (hinv : s.Inv deps rank)
    (sched : List Nat) (hmax : ∀ t, (s.run deps sched).step deps t = none) :
    (s.run deps sched).allFinished = true := by
  cases h : (s.run deps sched).allFinished with
  | true => rfl
  | false =>
    obtain ⟨t, s', hs'⟩ := LazySys.progress hr (LazySys.run_inv hr sched hinv) h
    rw [hmax t] at hs'; cases hs'

theorem LazySys.run_append {deps : Nat → List Nat} (a b : List Nat) :
    ∀ (s : LazySys), s.run deps (a ++ b) = (s.run deps a).run deps b := by
  induction a with
  | nil => intro s; rfl
  | cons t ts ih => intro s; simp only [List.cons_append, LazySys.run]; exact ih _

theorem LazySys.AllEnabled.append {deps : Nat → List Nat} (a b : List Nat) :
    ∀ {s : LazySys}, s.AllEnabled deps a → (s.run deps a).AllEnabled deps b →
      s.AllEnabled deps (a ++ b) := by
  induction a with
  | nil => intro s _ h; exact h
  | cons t ts ih =>
    intro s ha hb
    obtain ⟨s', hs, ha'⟩ := ha
    simp only [LazySys.run, hs, Option.getD_some] at hb
    exact ⟨s', hs, ih ha' hb⟩

/-- from any state satisfying the invariant some execution of at most `measure s` steps reaches
    `allFinished` -/
theorem LazySys.Inv.terminates {deps : Nat → List Nat} {rank : Nat → Nat}
    (hr : ∀ c u, u ∈ deps c → rank u < rank c) :
    ∀ (n : Nat) {s : LazySys}, s.measure deps = n → s.Inv deps rank →
      ∃ sched, s.AllEnabled deps sched ∧ sched.length ≤ n ∧
        (s.run deps sched).allFinished = true := by
  intro n
  induction n using Nat.strongRecOn with
  | _ n ih =>
    intro s hn hinv
    cases hfin : s.allFinished with
    | true => exact ⟨[], trivial, Nat.zero_le _, hfin⟩
    | false =>
      obtain ⟨t, s', hs'⟩ := LazySys.progress hr hinv hfin
      have hlt := LazySys.measure_decreases hinv hs'
      obtain ⟨sched, h1, h2, h3⟩ := ih (s'.measure deps) (by omega) rfl (hinv.step hr hs')
      refine ⟨t :: sched, ⟨s', hs', h1⟩, ?_, ?_⟩
      · simp only [List.length_cons]; omega
      · simp only [LazySys.run, hs', Option.getD_some]; exact h3

/-- item 4: from the initial state some schedule reaches `allFinished` -/
theorem LazySys.terminates {deps : Nat → List Nat} {rank : Nat → Nat}
    (hr : ∀ c u, u ∈ deps c → rank u < rank c) (nCells : Nat) (wants : List (List Nat)) :
    ∃ sched, sched.length ≤ (LazySys.init nCells wants).measure deps ∧
      ((LazySys.init nCells wants).run deps sched).allFinished = true := by
  obtain ⟨sched, _, h2, h3⟩ :=
    LazySys.Inv.terminates hr _ rfl (LazySys.init_inv deps rank nCells wants)
  exact ⟨sched, h2, h3⟩

/-- item 4, strong form: every execution prefix (under any schedule of enabled steps) is bounded
    by the measure and can be extended to an execution that ends in `allFinished`; so no execution
    can get stuck or run forever -/
theorem LazySys.every_execution_extends {deps : Nat → List Nat} {rank : Nat → Nat}
    (hr : ∀ c u, u ∈ deps c → rank u < rank c) (nCells : Nat) (wants : List (List Nat))
    (sched : List Nat) (hen : (LazySys.init nCells wants).AllEnabled deps sched) :
    sched.length ≤ (LazySys.init nCells wants).measure deps ∧
    ∃ ext, (LazySys.init nCells wants).AllEnabled deps (sched ++ ext) ∧
      (sched ++ ext).length ≤ (LazySys.init nCells wants).measure deps ∧
      ((LazySys.init nCells wants).run deps (sched ++ ext)).allFinished = true := by
  have hinv0 := LazySys.init_inv deps rank nCells wants
  have hb := LazySys.execution_length_le hr sched hinv0 hen
  refine ⟨by omega, ?_⟩
  obtain ⟨ext, h1, h2, h3⟩ := LazySys.Inv.terminates hr _ rfl (LazySys.run_inv hr sched hinv0)
  refine ⟨ext, LazySys.AllEnabled.append _ _ hen h1, ?_, ?_⟩
  · simp only [List.length_append]; omega
  · rw [LazySys.run_append]; exact h3

/-! ### item 6 (second part): items 2–5 for a table given as data, and for the crate's tables -/

section Table
variable {tbl : List (List Nat)} {rk : List Nat}

theorem table_inv (h : rankOk tbl rk = true) (wants : List (List Nat)) (sched : List Nat) :
    ((LazySys.init tbl.length wants).run (depsOfTable tbl) sched).Inv (depsOfTable tbl)
      (fun c => rk.getD c 0) :=
  LazySys.reachable_inv (rankOk_sound h) _ wants sched

theorem table_no_reentrancy (h : rankOk tbl rk = true) (wants : List (List Nat))
    (sched : List Nat) {t : Nat} {th : Thread} {c : Nat}
    (hth : ((LazySys.init tbl.length wants).run (depsOfTable tbl) sched).threads[t]? = some th)
    (hn : th.nextForce = some c) :
    ((LazySys.init tbl.length wants).run (depsOfTable tbl) sched).cell c ≠ .running t :=
  LazySys.no_reentrancy (rankOk_sound h) (table_inv h wants sched) hth hn

theorem table_deadlock_free (h : rankOk tbl rk = true) (wants : List (List Nat))
    (sched : List Nat) :
    ((LazySys.init tbl.length wants).run (depsOfTable tbl) sched).allFinished = true ∨
      ∃ t s', ((LazySys.init tbl.length wants).run (depsOfTable tbl) sched).step
        (depsOfTable tbl) t = some s' :=
  LazySys.deadlock_free (rank := fun c => rk.getD c 0) (rankOk_sound h) _ wants sched

theorem table_terminates (h : rankOk tbl rk = true) (wants : List (List Nat)) :
    ∃ sched, sched.length ≤ (LazySys.init tbl.length wants).measure (depsOfTable tbl) ∧
      ((LazySys.init tbl.length wants).run (depsOfTable tbl) sched).allFinished = true :=
  LazySys.terminates (rank := fun c => rk.getD c 0) (rankOk_sound h) _ wants

theorem table_every_execution_extends (h : rankOk tbl rk = true) (wants : List (List Nat))
    (sched : List Nat)
    (hen : (LazySys.init tbl.length wants).AllEnabled (depsOfTable tbl) sched) :
    sched.length ≤ (LazySys.init tbl.length wants).measure (depsOfTable tbl) ∧
    ∃ ext, (LazySys.init tbl.length wants).AllEnabled (depsOfTable tbl) (sched ++ ext) ∧
      (sched ++ ext).length ≤ (LazySys.init tbl.length wants).measure (depsOfTable tbl) ∧
      ((LazySys.init tbl.length wants).run (depsOfTable tbl) (sched ++ ext)).allFinished = true :=
  LazySys.every_execution_extends (rank := fun c => rk.getD c 0) (rankOk_sound h) _ wants sched hen

theorem table_final_state (h : rankOk tbl rk = true) (wants : List (List Nat))
    (hwants : ∀ w ∈ wants, ∀ c ∈ w, c < tbl.length) (sched : List Nat)
    (hfin : ((LazySys.init tbl.length wants).run (depsOfTable tbl) sched).allFinished = true) :
    (∀ c t, ((LazySys.init tbl.length wants).run (depsOfTable tbl) sched).cell c ≠ .running t) ∧
    (∀ w ∈ wants, ∀ c ∈ w, ∀ u, DepStar (depsOfTable tbl) c u →
      ((LazySys.init tbl.length wants).run (depsOfTable tbl) sched).cell u = .done) :=
  LazySys.final_state (rank := fun c => rk.getD c 0) (rankOk_sound h) (rankOk_closed h) hwants
    sched hfin

end Table

/-- items 1–2 for the crate's tables: any number of threads, any wants, any schedule -/
theorem tables_no_reentrancy (wants : List (List Nat)) (sched : List Nat) {t : Nat} {th : Thread}
    {c : Nat} (hth : ((LazySys.init 5 wants).run tablesDeps sched).threads[t]? = some th)
    (hn : th.nextForce = some c) :
    ((LazySys.init 5 wants).run tablesDeps sched).cell c ≠ .running t :=
  LazySys.no_reentrancy tables_rank_ok (LazySys.reachable_inv tables_rank_ok 5 wants sched) hth hn

/-- item 3 for the crate's tables -/
theorem tables_deadlock_free (wants : List (List Nat)) (sched : List Nat) :
    ((LazySys.init 5 wants).run tablesDeps sched).allFinished = true ∨
      ∃ t s', ((LazySys.init 5 wants).run tablesDeps sched).step tablesDeps t = some s' :=
  LazySys.deadlock_free tables_rank_ok 5 wants sched

/-- item 4 for the crate's tables -/
theorem tables_terminates (wants : List (List Nat)) :
    ∃ sched, sched.length ≤ (LazySys.init 5 wants).measure tablesDeps ∧
      ((LazySys.init 5 wants).run tablesDeps sched).allFinished = true :=
  LazySys.terminates tables_rank_ok 5 wants

theorem tables_every_execution_extends (wants : List (List Nat)) (sched : List Nat)
    (hen : (LazySys.init 5 wants).AllEnabled tablesDeps sched) :
    sched.length ≤ (LazySys.init 5 wants).measure tablesDeps ∧
    ∃ ext, (LazySys.init 5 wants).AllEnabled tablesDeps (sched ++ ext) ∧
      (sched ++ ext).length ≤ (LazySys.init 5 wants).measure tablesDeps ∧
      ((LazySys.init 5 wants).run tablesDeps (sched ++ ext)).allFinished = true :=
  LazySys.every_execution_extends tables_rank_ok 5 wants sched hen

/-- item 5 for the crate's tables: in a reachable all-finished state nothing is `running`, every
    wanted table is initialised, and so is `EXP_LOG` as soon as anything was wanted -/
theorem tables_final_state (wants : List (List Nat)) (hwants : ∀ w ∈ wants, ∀ c ∈ w, c < 5)
    (sched : List Nat)
    (hfin : ((LazySys.init 5 wants).run tablesDeps sched).allFinished = true) :
    (∀ c t, ((LazySys.init 5 wants).run tablesDeps sched).cell c ≠ .running t) ∧
    (∀ w ∈ wants, ∀ c ∈ w, ((LazySys.init 5 wants).run tablesDeps sched).cell c = .done ∧
      ((LazySys.init 5 wants).run tablesDeps sched).cell 0 = .done) := by
  obtain ⟨h1, h2⟩ := LazySys.final_state tables_rank_ok tables_closed hwants sched hfin
  refine ⟨h1, ?_⟩
  intro w hw c hc
  refine ⟨h2 w hw c hc c (.refl c), ?_⟩
  by_cases e : c = 0
  · subst e; exact h2 w hw 0 hc 0 (.refl 0)
  · have hmem : 0 ∈ tablesDeps c := by
      have := hwants w hw c hc
      simp [tablesDeps, e]; omega
    exact h2 w hw c hc 0 (.step hmem (.refl 0))

#print axioms LazySys.Inv.step
#print axioms LazySys.reachable_inv
#print axioms LazySys.step_done_stable
#print axioms LazySys.Inv.stack_nodup
#print axioms LazySys.Inv.frame_unique
#print axioms LazySys.no_reentrancy
#print axioms LazySys.progress
#print axioms LazySys.deadlock_free
#print axioms LazySys.measure_decreases
#print axioms LazySys.runCount_le
#print axioms LazySys.execution_length_le
#print axioms LazySys.maximal_execution_finished
#print axioms LazySys.terminates
#print axioms LazySys.every_execution_extends
#print axioms LazySys.final_state
#print axioms rankOk_sound
#print axioms rankOk_closed
#print axioms tablesTable_rankOk
#print axioms tables_rank_ok
#print axioms tables_no_reentrancy
#print axioms tables_deadlock_free
#print axioms tables_terminates
#print axioms tables_every_execution_extends
#print axioms tables_final_state
#print axioms table_final_state
#print axioms table_every_execution_extends

end RS
