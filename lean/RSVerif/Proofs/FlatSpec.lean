/-
  The flat working memory of src/engine/shards.rs (Model/Flat.lean) refines the position-level arrays
  of Model/Engine.lean.

  Part A  block memory `BVec n` is a shard algebra whose lanes are a `ShardHom` onto the lane model
          (`ShardHom.blockLanes`), hence the whole codec on block memory, read lane-wise, is the lane
          model (`encodeHigh_blocks`, `encodeLow_blocks`, `decodeHigh_blocks`, `decodeLow_blocks`).
  Part B  the accessors of `Shards` / `ShardsRefMut` with their index arithmetic: exact panic
          conditions (`*_some_iff`), the views they return (`*_eq`), and the effect of writing through
          the views on the abstraction with frame (`*_abs`, `*_refines`, `butterfly_refines`).
  Core Lean only.
-/
import RSVerif.Model.Flat
import RSVerif.Model.EngineSeq
import RSVerif.Proofs.BlocksSpec
import RSVerif.Proofs.Hom

namespace RS

/-! ## Part A -/

theorem bvec_getD {n : Nat} (x : BVec n) (q : Nat) (h : q < n) (d : Block) :
    x.toArray.getD q d = x[q] := by
  have : q < x.toArray.size := by rw [Vector.size_toArray]; exact h
  rw [Array.getD_eq_getD_getElem?, Array.getElem?_eq_getElem this]
  rfl

/-- xor of the shard algebra on block memory is `utils::xor` (`bXor`) -/
theorem bvec_add_toArray {n : Nat} (x y : BVec n) :
    (ShardAlg.add x y).toArray = bXor x.toArray y.toArray := by
  apply Array.ext
  · simp [bXor]
  · intro i h1 h2
    have hi : i < n := by simpa using h1
    simp only [ShardAlg.add, bXor, Array.getElem_ofFn, Vector.getElem_toArray,
      Vector.getElem_zipWith, bvec_getD x i hi, bvec_getD y i hi, blockXor]

/-- scalar multiplication of the shard algebra on block memory is the engines' `mul` (`bMul`) -/
theorem bvec_smul_toArray {n : Nat} (c : Sym) (x : BVec n) :
    (ShardAlg.smul c x).toArray = bMul (gmul c) x.toArray := by
  apply Array.ext
  · simp [bMul]
  · intro i h1 h2
    have hi : i < n := by simpa using h1
    simp only [ShardAlg.smul, bMul, Array.getElem_ofFn, Vector.getElem_toArray,
      Vector.getElem_map, bvec_getD x i hi, blockMul]

theorem bvec_zero_toArray (n : Nat) :
    (ShardAlg.zero : BVec n).toArray = Array.replicate n zeroBlock := by
  simp [ShardAlg.zero]

theorem bLane_zero (n l : Nat) : bLane (Array.replicate n zeroBlock) l = 0#16 := by
  have hb : (Array.replicate n zeroBlock).getD (l / 32) (Vector.replicate 64 0#8)
      = Vector.replicate 64 0#8 := by
    rw [Array.getD_eq_getD_getElem?]
    by_cases h : l / 32 < n
    · simp [h, zeroBlock]
    · simp [h]
  rw [bLane_eq]
  simp only [hb, Vector.getElem_replicate]
  rfl

theorem bvecLanes_getElem (n : Nat) (x : BVec n) (l : Nat) (h : l < 32 * n) :
    (bvecLanes n x)[l] = bLane x.toArray l := by
  simp [bvecLanes]

/-- the lanes of block memory: a homomorphism of shard algebras -/
def ShardHom.blockLanes (n : Nat) : ShardHom (BVec n) (Vector Sym (32 * n)) where
  f := bvecLanes n
  map_zero := by
    apply Vector.ext
    intro l hl
    rw [bvecLanes_getElem, bvec_zero_toArray, bLane_zero]
    simp [ShardAlg.zero]
  map_add a b := by
    apply Vector.ext
    intro l hl
    rw [bvecLanes_getElem, bvec_add_toArray, bLane_bXor _ _ _ (by simpa using hl)]
    simp [ShardAlg.add, bvecLanes_getElem]
  map_smul c a := by
    apply Vector.ext
    intro l hl
    rw [bvecLanes_getElem, bvec_smul_toArray, bLane_bMul _ _ _ (by simpa using hl)]
    simp [ShardAlg.smul, bvecLanes_getElem]


/-! ## Part B -/

/-! ### index arithmetic -/

theorem fl_succ_mul (i n : Nat) : (i + 1) * n = i * n + n := Nat.succ_mul i n

theorem fl_idx_lt {i c j n : Nat} (hi : i < c) (hj : j < n) : i * n + j < c * n := by
  have h1 : (i + 1) * n ≤ c * n := Nat.mul_le_mul_right n hi
  rw [fl_succ_mul] at h1
  omega

theorem fl_le_iff {k n : Nat} (hk : k < n) (a p : Nat) : a * n ≤ p * n + k ↔ a ≤ p := by
  constructor
  · intro h
    have h2 : a * n < (p + 1) * n := by rw [fl_succ_mul]; omega
    have := Nat.lt_of_mul_lt_mul_right h2
    omega
  · intro h
    have := Nat.mul_le_mul_right n h
    omega

theorem fl_lt_iff {k n : Nat} (hk : k < n) (p b : Nat) : p * n + k < b * n ↔ p < b := by
  constructor
  · intro h
    have h2 : p * n < b * n := by omega
    exact Nat.lt_of_mul_lt_mul_right h2
  · intro h
    exact fl_idx_lt h hk

theorem fl_idx_div {n : Nat} (i j : Nat) (hj : j < n) : (i * n + j) / n = i := by
  rw [Nat.mul_comm, Nat.mul_add_div (by omega), Nat.div_eq_of_lt hj, Nat.add_zero]

theorem fl_idx_mod {n : Nat} (i j : Nat) (hj : j < n) : (i * n + j) % n = j := by
  rw [Nat.mul_comm, Nat.mul_add_mod, Nat.mod_eq_of_lt hj]

/-- block `p * n + k` (with `k < n`) lies in shard `q` iff `p = q` -/
theorem fl_in_shard {k n : Nat} (hk : k < n) (p q : Nat) :
    (q * n ≤ p * n + k ∧ p * n + k < q * n + n) ↔ p = q := by
  rw [← fl_succ_mul, fl_le_iff hk, fl_lt_iff hk]
  omega

/-- block `p * n + k` lies in the shard range `a .. a + c` iff `a ≤ p < a + c` -/
theorem fl_in_range {k n : Nat} (hk : k < n) (p a c : Nat) :
    (a * n ≤ p * n + k ∧ p * n + k < a * n + c * n) ↔ (a ≤ p ∧ p < a + c) := by
  rw [← Nat.add_mul, fl_le_iff hk, fl_lt_iff hk]

/-! ### block-level reads -/

theorem arr_getD_lt {α : Type} (d : Array α) (j : Nat) (h : j < d.size) (z : α) : d.getD j z = d[j] := by
  rw [Array.getD_eq_getD_getElem?, Array.getElem?_eq_getElem h]; rfl

theorem arr_getD_ge {α : Type} (d : Array α) (j : Nat) (h : ¬ j < d.size) (z : α) : d.getD j z = z := by
  rw [Array.getD_eq_getD_getElem?, Array.getElem?_eq_none (by omega)]; rfl

theorem extract_getD (d : Array Block) (a b k : Nat) (z : Block) :
    (d.extract a b).getD k z = if k < min b d.size - a then d.getD (a + k) z else z := by
  by_cases h : k < min b d.size - a
  · have h1 : k < (d.extract a b).size := by rw [Array.size_extract]; exact h
    have h2 : a + k < d.size := by omega
    rw [if_pos h, arr_getD_lt _ _ h1, arr_getD_lt _ _ h2, Array.getElem_extract]
  · rw [if_neg h, arr_getD_ge]
    rw [Array.size_extract]; exact h

theorem writeAt_size (d : Array Block) (off : Nat) (s : Array Block) : (writeAt d off s).size = d.size := by
  unfold writeAt; exact Array.size_ofFn

theorem writeAt_getD (d : Array Block) (off : Nat) (s : Array Block) (j : Nat) :
    (writeAt d off s).getD j zeroBlock =
      if off ≤ j ∧ j < off + s.size ∧ j < d.size then s.getD (j - off) zeroBlock
      else d.getD j zeroBlock := by
  by_cases hj : j < d.size
  · have h1 : j < (writeAt d off s).size := by rw [writeAt_size]; exact hj
    rw [arr_getD_lt _ _ h1]
    simp only [writeAt, Array.getElem_ofFn]
    by_cases hc : off ≤ j ∧ j < off + s.size
    · rw [if_pos hc, if_pos ⟨hc.1, hc.2, hj⟩]
    · rw [if_neg hc, if_neg (fun h => hc ⟨h.1, h.2.1⟩), arr_getD_lt _ _ hj]; rfl
  · rw [arr_getD_ge _ _ (by rw [writeAt_size]; exact hj), if_neg (fun h => hj h.2.2), arr_getD_ge _ _ hj]

theorem fillRange_size (d : Array Block) (s e : Nat) : (fillRange d s e).size = d.size := by
  unfold fillRange; exact Array.size_ofFn

theorem fillRange_getD (d : Array Block) (s e j : Nat) :
    (fillRange d s e).getD j zeroBlock =
      if s ≤ j ∧ j < e then zeroBlock else d.getD j zeroBlock := by
  by_cases hj : j < d.size
  · have h1 : j < (fillRange d s e).size := by rw [fillRange_size]; exact hj
    rw [arr_getD_lt _ _ h1]
    simp only [fillRange, Array.getElem_ofFn]
    by_cases hc : s ≤ j ∧ j < e
    · rw [if_pos hc, if_pos hc]
    · rw [if_neg hc, if_neg hc, arr_getD_lt _ _ hj]; rfl
  · rw [arr_getD_ge _ _ (by rw [fillRange_size]; exact hj), arr_getD_ge _ _ hj]
    split <;> rfl

theorem moveRange_size (d : Array Block) (s t c : Nat) : (moveRange d s t c).size = d.size := by
  unfold moveRange; exact Array.size_ofFn

theorem moveRange_getD (d : Array Block) (s t c j : Nat) :
    (moveRange d s t c).getD j zeroBlock =
      if t ≤ j ∧ j < t + c ∧ j < d.size then d.getD (s + (j - t)) zeroBlock
      else d.getD j zeroBlock := by
  by_cases hj : j < d.size
  · have h1 : j < (moveRange d s t c).size := by rw [moveRange_size]; exact hj
    rw [arr_getD_lt _ _ h1]
    simp only [moveRange, Array.getElem_ofFn]
    by_cases hc : t ≤ j ∧ j < t + c
    · rw [if_pos hc, if_pos ⟨hc.1, hc.2, hj⟩]
    · rw [if_neg hc, if_neg (fun h => hc ⟨h.1, h.2.1⟩), arr_getD_lt _ _ hj]; rfl
  · rw [arr_getD_ge _ _ (by rw [moveRange_size]; exact hj), if_neg (fun h => hj h.2.2), arr_getD_ge _ _ hj]

theorem vecResize_size (d : Array Block) (m : Nat) : (vecResize d m).size = m := by
  unfold vecResize
  split
  · rw [Array.size_extract]; omega
  · rw [Array.size_append, Array.size_replicate]; omega

/-- `Vec::resize`: block `j` of the new vector is the old block `j` if there was one (stale), else zero -/
theorem vecResize_getD (d : Array Block) (m j : Nat) :
    (vecResize d m).getD j zeroBlock = if j < m then d.getD j zeroBlock else zeroBlock := by
  unfold vecResize
  split
  · rename_i h
    rw [extract_getD]
    by_cases hj : j < m
    · rw [if_pos (by omega), if_pos hj, Nat.zero_add]
    · rw [if_neg (by omega), if_neg hj]
  · rename_i h
    rw [Array.getD_eq_getD_getElem?, Array.getElem?_append]
    by_cases hj : j < d.size
    · rw [if_pos hj, if_pos (by omega), Array.getD_eq_getD_getElem?]
    · rw [if_neg hj, arr_getD_ge _ _ hj]
      by_cases hm : j < m
      · rw [if_pos hm, Array.getElem?_eq_getElem (by rw [Array.size_replicate]; omega),
          Array.getElem_replicate]; rfl
      · rw [if_neg hm, Array.getElem?_eq_none (by rw [Array.size_replicate]; omega)]; rfl


/-! ### slice primitives -/

theorem sliceFrom_some {s : Array Block} {a : Nat} (h : a ≤ s.size) :
    sliceFrom s a = some (s.extract a s.size) := by unfold sliceFrom; rw [if_pos h]

theorem sliceFrom_none {s : Array Block} {a : Nat} (h : ¬ a ≤ s.size) :
    sliceFrom s a = none := by unfold sliceFrom; rw [if_neg h]

theorem sliceTo_some {s : Array Block} {b : Nat} (h : b ≤ s.size) :
    sliceTo s b = some (s.extract 0 b) := by unfold sliceTo; rw [if_pos h]

theorem sliceTo_none {s : Array Block} {b : Nat} (h : ¬ b ≤ s.size) :
    sliceTo s b = none := by unfold sliceTo; rw [if_neg h]

theorem sliceRange_some {s : Array Block} {a b : Nat} (h : a ≤ b ∧ b ≤ s.size) :
    sliceRange s a b = some (s.extract a b) := by unfold sliceRange; rw [if_pos h]

theorem sliceRange_none {s : Array Block} {a b : Nat} (h : ¬ (a ≤ b ∧ b ≤ s.size)) :
    sliceRange s a b = none := by unfold sliceRange; rw [if_neg h]

theorem splitAtMut_some {s : Array Block} {m : Nat} (h : m ≤ s.size) :
    splitAtMut s m = some (s.extract 0 m, s.extract m s.size) := by
  unfold splitAtMut; rw [if_pos h]

theorem splitAtMut_none {s : Array Block} {m : Nat} (h : ¬ m ≤ s.size) :
    splitAtMut s m = none := by unfold splitAtMut; rw [if_neg h]

/-- two nested slices are one slice of the underlying array -/
theorem extract_extract_of_le (d : Array Block) {a b c e : Nat} (h : a + e ≤ b) :
    (d.extract a b).extract c e = d.extract (a + c) (a + e) := by
  rw [Array.extract_extract, Nat.min_eq_left h]

namespace Flat

/-! ### the abstraction -/

theorem abs_size (f : Flat) : f.abs.size = f.count := by unfold abs; exact Array.size_ofFn

theorem absAt_size (n : Nat) (f : Flat) : (f.absAt n).size = f.count := by
  unfold absAt; exact Array.size_ofFn

theorem absV_size (f : Flat) : f.absV.size = f.count := absAt_size _ f

theorem abs_getElem (f : Flat) (i : Nat) (h : i < f.abs.size) :
    f.abs[i] = f.data.extract (i * f.len64) ((i + 1) * f.len64) := by
  simp only [abs, Array.getElem_ofFn]

theorem abs_getElem' (f : Flat) (i : Nat) (h : i < f.abs.size) :
    f.abs[i] = f.data.extract (i * f.len64) (i * f.len64 + f.len64) := by
  rw [abs_getElem, fl_succ_mul]

theorem absAt_getElem (n : Nat) (f : Flat) (i : Nat) (h : i < (f.absAt n).size) :
    (f.absAt n)[i] = Vector.ofFn fun k : Fin n => f.data.getD (i * n + k.val) zeroBlock := by
  simp only [absAt, Array.getElem_ofFn]

theorem absAt_getElem_getElem (n : Nat) (f : Flat) (i k : Nat) (h : i < (f.absAt n).size)
    (hk : k < n) : ((f.absAt n)[i])[k] = f.data.getD (i * n + k) zeroBlock := by
  rw [absAt_getElem, Vector.getElem_ofFn]

/-- two flat memories with the same `count` have the same abstraction iff they agree blockwise -/
theorem absAt_ext (n : Nat) (f : Flat) (A : Array (BVec n)) (hs : A.size = f.count)
    (h : ∀ p (hp : p < A.size) k (hk : k < n), f.data.getD (p * n + k) zeroBlock = (A[p])[k]) :
    f.absAt n = A := by
  apply Array.ext
  · rw [absAt_size, hs]
  · intro p h1 h2
    apply Vector.ext
    intro k hk
    rw [absAt_getElem_getElem _ _ _ _ h1 hk, h p h2 k hk]

theorem absAt_eq_ofFn (n : Nat) (f : Flat) (G : Nat → BVec n)
    (h : ∀ p, p < f.count → ∀ k (hk : k < n), f.data.getD (p * n + k) zeroBlock = (G p)[k]) :
    f.absAt n = Array.ofFn (n := f.count) fun p => G p.val := by
  apply Array.ext
  · rw [absAt_size, Array.size_ofFn]
  · intro p h1 h2
    have hpc : p < f.count := by rw [absAt_size] at h1; exact h1
    rw [Array.getElem_ofFn]
    apply Vector.ext
    intro k hk
    rw [absAt_getElem_getElem _ _ _ _ h1 hk, h p hpc k hk]

theorem shard_extract_size (f : Flat) (hwf : f.WF) (i : Nat) (hi : i < f.count) :
    (f.data.extract (i * f.len64) ((i + 1) * f.len64)).size = f.len64 := by
  have h1 : (i + 1) * f.len64 ≤ f.count * f.len64 := Nat.mul_le_mul_right _ hi
  rw [Array.size_extract, hwf, Nat.min_eq_left h1, fl_succ_mul]
  omega

/-- under the invariant, `abs` is `absV` with the vectors forgotten -/
theorem abs_eq_map (f : Flat) (hwf : f.WF) : f.abs = f.absV.map Vector.toArray := by
  apply Array.ext
  · rw [abs_size, Array.size_map, absV_size]
  · intro i h1 h2
    have hi : i < f.count := by rw [abs_size] at h1; exact h1
    rw [abs_getElem, Array.getElem_map]
    unfold absV
    rw [absAt_getElem, Vector.toArray_ofFn]
    apply Array.ext
    · rw [shard_extract_size f hwf i hi, Array.size_ofFn]
    · intro k k1 k2
      have hk : k < f.len64 := by rw [shard_extract_size f hwf i hi] at k1; exact k1
      have hlt : i * f.len64 + k < f.data.size := by rw [hwf]; exact fl_idx_lt hi hk
      rw [Array.getElem_extract, Array.getElem_ofFn, arr_getD_lt _ _ hlt]

theorem abs_eq_map_absAt (f : Flat) (n : Nat) (hn : f.len64 = n) (hwf : f.WF) :
    f.abs = (f.absAt n).map Vector.toArray := by
  subst hn
  exact abs_eq_map f hwf

theorem toBVec_toArray {n : Nat} (x : BVec n) : toBVec n x.toArray = x := by
  apply Vector.ext
  intro k hk
  rw [toBVec, Vector.getElem_ofFn, bvec_getD x k hk]

theorem toArray_toBVec {n : Nat} (s : Array Block) (hs : s.size = n) : (toBVec n s).toArray = s := by
  apply Array.ext
  · rw [Vector.size_toArray, hs]
  · intro k k1 k2
    rw [Vector.getElem_toArray]
    unfold toBVec
    rw [Vector.getElem_ofFn, arr_getD_lt _ _ k2]

theorem absV_getElem_toArray (f : Flat) (hwf : f.WF) (i : Nat) (hi : i < f.count) :
    (f.absV[i]'(by rw [absV_size]; exact hi)).toArray
      = f.abs[i]'(by rw [abs_size]; exact hi) := by
  simp only [abs_eq_map f hwf, Array.getElem_map]

/-! ### `Index<usize>` -/

/-- exact panic condition of `shards[i]` -/
theorem shard_some_iff_raw (f : Flat) (i : Nat) :
    f.shard i ≠ none ↔ (i + 1) * f.len64 ≤ f.data.size := by
  unfold shard
  have h0 : i * f.len64 ≤ (i + 1) * f.len64 := Nat.mul_le_mul_right _ (Nat.le_succ i)
  by_cases h : (i + 1) * f.len64 ≤ f.data.size
  · rw [sliceRange_some ⟨h0, h⟩]; simp [h]
  · rw [sliceRange_none (fun c => h c.2)]; simp [h]

theorem shard_some_iff (f : Flat) (hwf : f.WF) (hn : 0 < f.len64) (i : Nat) :
    f.shard i ≠ none ↔ i < f.count := by
  rw [shard_some_iff_raw, hwf, Nat.mul_le_mul_right_iff hn]
  omega

theorem shard_eq (f : Flat) (hwf : f.WF) (i : Nat) (hi : i < f.count) :
    f.shard i = some (f.abs[i]'(by rw [abs_size]; exact hi)) := by
  have h0 : i * f.len64 ≤ (i + 1) * f.len64 := Nat.mul_le_mul_right _ (Nat.le_succ i)
  have h1 : (i + 1) * f.len64 ≤ f.data.size := by rw [hwf]; exact Nat.mul_le_mul_right _ hi
  unfold shard
  rw [sliceRange_some ⟨h0, h1⟩, abs_getElem]

/-- with `shard_len_64 = 0` no index ever panics -/
theorem shard_len0 (f : Flat) (hwf : f.WF) (hn : f.len64 = 0) (i : Nat) : f.shard i = some #[] := by
  have hs : f.data.size = 0 := by rw [hwf, hn, Nat.mul_zero]
  unfold shard
  rw [hn, Nat.mul_zero, Nat.mul_zero, sliceRange_some ⟨Nat.le_refl _, Nat.zero_le _⟩]
  simp

end Flat

/-! ### slicing a slice: every view is `data.extract x y` of the flat array -/

theorem extract_size_of_le (d : Array Block) {x y : Nat} (hy : y ≤ d.size) :
    (d.extract x y).size = y - x := by
  rw [Array.size_extract, Nat.min_eq_left hy]

theorem sliceTo_extract (d : Array Block) {x y : Nat} (hxy : x ≤ y) (hy : y ≤ d.size) (b : Nat) :
    sliceTo (d.extract x y) b = if b ≤ y - x then some (d.extract x (x + b)) else none := by
  unfold sliceTo
  rw [extract_size_of_le d hy]
  by_cases h : b ≤ y - x
  · rw [if_pos h, if_pos h, extract_extract_of_le d (by omega), Nat.add_zero]
  · rw [if_neg h, if_neg h]

theorem sliceRange_extract (d : Array Block) {x y : Nat} (hxy : x ≤ y) (hy : y ≤ d.size) (a b : Nat) :
    sliceRange (d.extract x y) a b
      = if a ≤ b ∧ b ≤ y - x then some (d.extract (x + a) (x + b)) else none := by
  unfold sliceRange
  rw [extract_size_of_le d hy]
  by_cases h : a ≤ b ∧ b ≤ y - x
  · rw [if_pos h, if_pos h, extract_extract_of_le d (by omega)]
  · rw [if_neg h, if_neg h]

theorem splitAtMut_extract (d : Array Block) {x y : Nat} (hxy : x ≤ y) (hy : y ≤ d.size) (m : Nat) :
    splitAtMut (d.extract x y) m
      = if m ≤ y - x then some (d.extract x (x + m), d.extract (x + m) y) else none := by
  unfold splitAtMut
  rw [extract_size_of_le d hy]
  by_cases h : m ≤ y - x
  · rw [if_pos h, if_pos h, extract_extract_of_le d (by omega), Nat.add_zero,
      extract_extract_of_le d (by omega)]
    have e : x + (y - x) = y := by omega
    rw [e]
  · rw [if_neg h, if_neg h]

namespace Flat

/-! ### `dist2_mut` -/

/-- `dist2_mut` as one case distinction: the four bound checks it performs, in order
    (`data[pos..]`, `split_at_mut(dist)`, `a[..len64]`, `b[..len64]`), and the two views -/
theorem dist2_raw (f : Flat) (pos dist : Nat) :
    f.dist2 pos dist =
      if pos * f.len64 ≤ f.data.size ∧ dist * f.len64 ≤ f.data.size - pos * f.len64 ∧
          f.len64 ≤ dist * f.len64 ∧ f.len64 ≤ f.data.size - pos * f.len64 - dist * f.len64 then
        some (f.data.extract (pos * f.len64) (pos * f.len64 + f.len64),
              f.data.extract (pos * f.len64 + dist * f.len64) (pos * f.len64 + dist * f.len64 + f.len64))
      else none := by
  unfold dist2
  simp only []
  by_cases h1 : pos * f.len64 ≤ f.data.size
  case neg => rw [sliceFrom_none h1, if_neg (fun c => h1 c.1)]; rfl
  rw [sliceFrom_some h1, Option.bind_some, splitAtMut_extract _ h1 (Nat.le_refl _)]
  by_cases h2 : dist * f.len64 ≤ f.data.size - pos * f.len64
  case neg => rw [if_neg h2, if_neg (fun c => h2 c.2.1)]; rfl
  rw [if_pos h2, Option.bind_some]
  simp only []
  rw [sliceTo_extract _ (by omega) (by omega)]
  by_cases h3 : f.len64 ≤ dist * f.len64
  case neg => rw [if_neg (by omega), if_neg (fun c => h3 c.2.2.1)]; rfl
  rw [if_pos (by omega), Option.bind_some, sliceTo_extract _ (by omega) (Nat.le_refl _)]
  by_cases h4 : f.len64 ≤ f.data.size - pos * f.len64 - dist * f.len64
  case neg => rw [if_neg (by omega), if_neg (fun c => h4 c.2.2.2)]; rfl
  rw [if_pos (by omega), Option.bind_some, if_pos ⟨h1, h2, h3, h4⟩]

/-- the bound checks of `dist2_mut` in terms of shard positions -/
theorem dist2_cond (f : Flat) (hwf : f.WF) (hn : 0 < f.len64) (pos dist : Nat) :
    (pos * f.len64 ≤ f.data.size ∧ dist * f.len64 ≤ f.data.size - pos * f.len64 ∧
      f.len64 ≤ dist * f.len64 ∧ f.len64 ≤ f.data.size - pos * f.len64 - dist * f.len64)
    ↔ (0 < dist ∧ pos + dist < f.count) := by
  rw [hwf]
  constructor
  · intro ⟨h1, h2, h3, h4⟩
    have hd : 0 < dist := by
      apply Nat.pos_of_ne_zero
      intro h0
      rw [h0, Nat.zero_mul] at h3
      omega
    have h5 : (pos + dist + 1) * f.len64 ≤ f.count * f.len64 := by
      rw [Nat.add_mul, Nat.add_mul, Nat.one_mul]; omega
    have := Nat.le_of_mul_le_mul_right h5 hn
    exact ⟨hd, by omega⟩
  · intro ⟨hd, hp⟩
    have h5 : (pos + dist + 1) * f.len64 ≤ f.count * f.len64 := Nat.mul_le_mul_right _ hp
    rw [Nat.add_mul, Nat.add_mul, Nat.one_mul] at h5
    have h3 : 1 * f.len64 ≤ dist * f.len64 := Nat.mul_le_mul_right _ hd
    rw [Nat.one_mul] at h3
    exact ⟨by omega, by omega, h3, by omega⟩

/-- `dist2_mut(pos, dist)` does not panic iff `dist ≠ 0` and `pos + dist` is a shard position -/
theorem dist2_some_iff (f : Flat) (hwf : f.WF) (hn : 0 < f.len64) (pos dist : Nat) :
    f.dist2 pos dist ≠ none ↔ (0 < dist ∧ pos + dist < f.count) := by
  rw [dist2_raw, ← dist2_cond f hwf hn]
  split <;> simp_all

/-- the two views of `dist2_mut(pos, dist)` are the shards at positions `pos` and `pos + dist` -/
theorem dist2_eq (f : Flat) (hwf : f.WF) (hn : 0 < f.len64) (pos dist : Nat)
    (hd : 0 < dist) (hp : pos + dist < f.count) :
    f.dist2 pos dist =
      some (f.abs[pos]'(by rw [abs_size]; omega), f.abs[pos + dist]'(by rw [abs_size]; exact hp)) := by
  rw [dist2_raw, if_pos ((dist2_cond f hwf hn pos dist).2 ⟨hd, hp⟩), abs_getElem', abs_getElem',
    Nat.add_mul]

/-- with `shard_len_64 = 0` `dist2_mut` never panics (both views are empty) -/
theorem dist2_len0 (f : Flat) (hwf : f.WF) (hn : f.len64 = 0) (pos dist : Nat) :
    f.dist2 pos dist = some (#[], #[]) := by
  have hs : f.data.size = 0 := by rw [hwf, hn, Nat.mul_zero]
  rw [dist2_raw, hn, hs]
  simp

end Flat

namespace Flat

/-! ### `dist4_mut` -/

/-- `dist4_mut` as one case distinction: its bound checks in order (`data[pos..]`,
    `split_at_mut(dist * 2)`, `cd.split_at_mut(dist)`, `a/b/c[..len64]`, `d[..len64]`;
    `ab.split_at_mut(dist)` cannot fail) and the four views -/
theorem dist4_raw (f : Flat) (pos dist : Nat) :
    f.dist4 pos dist =
      if pos * f.len64 ≤ f.data.size ∧ dist * f.len64 * 2 ≤ f.data.size - pos * f.len64 ∧
          dist * f.len64 ≤ f.data.size - pos * f.len64 - dist * f.len64 * 2 ∧
          f.len64 ≤ dist * f.len64 ∧
          f.len64 ≤ f.data.size - pos * f.len64 - dist * f.len64 * 2 - dist * f.len64 then
        some (f.data.extract (pos * f.len64) (pos * f.len64 + f.len64),
              f.data.extract (pos * f.len64 + dist * f.len64) (pos * f.len64 + dist * f.len64 + f.len64),
              f.data.extract (pos * f.len64 + dist * f.len64 * 2)
                (pos * f.len64 + dist * f.len64 * 2 + f.len64),
              f.data.extract (pos * f.len64 + dist * f.len64 * 2 + dist * f.len64)
                (pos * f.len64 + dist * f.len64 * 2 + dist * f.len64 + f.len64))
      else none := by
  unfold dist4
  simp only []
  by_cases h1 : pos * f.len64 ≤ f.data.size
  case neg => rw [sliceFrom_none h1, if_neg (fun c => h1 c.1)]; rfl
  rw [sliceFrom_some h1, Option.bind_some, splitAtMut_extract _ h1 (Nat.le_refl _)]
  by_cases h2 : dist * f.len64 * 2 ≤ f.data.size - pos * f.len64
  case neg => rw [if_neg h2, if_neg (fun c => h2 c.2.1)]; rfl
  rw [if_pos h2, Option.bind_some]
  simp only []
  rw [splitAtMut_extract _ (by omega) (by omega), if_pos (by omega), Option.bind_some]
  simp only []
  rw [splitAtMut_extract _ (by omega) (Nat.le_refl _)]
  by_cases h3 : dist * f.len64 ≤ f.data.size - pos * f.len64 - dist * f.len64 * 2
  case neg => rw [if_neg (by omega), if_neg (fun c => h3 c.2.2.1)]; rfl
  rw [if_pos (by omega), Option.bind_some]
  simp only []
  rw [sliceTo_extract _ (by omega) (by omega)]
  by_cases h4 : f.len64 ≤ dist * f.len64
  case neg => rw [if_neg (by omega), if_neg (fun c => h4 c.2.2.2.1)]; rfl
  rw [if_pos (by omega), Option.bind_some, sliceTo_extract _ (by omega) (by omega),
    if_pos (by omega), Option.bind_some, sliceTo_extract _ (by omega) (by omega),
    if_pos (by omega), Option.bind_some, sliceTo_extract _ (by omega) (Nat.le_refl _)]
  by_cases h5 : f.len64 ≤ f.data.size - pos * f.len64 - dist * f.len64 * 2 - dist * f.len64
  case neg => rw [if_neg (by omega), if_neg (fun c => h5 c.2.2.2.2)]; rfl
  rw [if_pos (by omega), Option.bind_some, if_pos ⟨h1, h2, h3, h4, h5⟩]

/-- the bound checks of `dist4_mut` in terms of shard positions -/
theorem dist4_cond (f : Flat) (hwf : f.WF) (hn : 0 < f.len64) (pos dist : Nat) :
    (pos * f.len64 ≤ f.data.size ∧ dist * f.len64 * 2 ≤ f.data.size - pos * f.len64 ∧
      dist * f.len64 ≤ f.data.size - pos * f.len64 - dist * f.len64 * 2 ∧
      f.len64 ≤ dist * f.len64 ∧
      f.len64 ≤ f.data.size - pos * f.len64 - dist * f.len64 * 2 - dist * f.len64)
    ↔ (0 < dist ∧ pos + 3 * dist < f.count) := by
  rw [hwf]
  have e : (pos + 3 * dist + 1) * f.len64
      = pos * f.len64 + dist * f.len64 * 2 + dist * f.len64 + f.len64 := by
    rw [Nat.add_mul, Nat.add_mul, Nat.one_mul, Nat.mul_assoc]; omega
  constructor
  · intro ⟨h1, h2, h3, h4, h5⟩
    have hd : 0 < dist := by
      apply Nat.pos_of_ne_zero
      intro h0
      rw [h0, Nat.zero_mul] at h4
      omega
    have h6 : (pos + 3 * dist + 1) * f.len64 ≤ f.count * f.len64 := by rw [e]; omega
    have := Nat.le_of_mul_le_mul_right h6 hn
    exact ⟨hd, by omega⟩
  · intro ⟨hd, hp⟩
    have h6 : (pos + 3 * dist + 1) * f.len64 ≤ f.count * f.len64 := Nat.mul_le_mul_right _ hp
    rw [e] at h6
    have h4 : 1 * f.len64 ≤ dist * f.len64 := Nat.mul_le_mul_right _ hd
    rw [Nat.one_mul] at h4
    exact ⟨by omega, by omega, by omega, h4, by omega⟩

/-- `dist4_mut(pos, dist)` does not panic iff `dist ≠ 0` and `pos + 3 dist` is a shard position -/
theorem dist4_some_iff (f : Flat) (hwf : f.WF) (hn : 0 < f.len64) (pos dist : Nat) :
    f.dist4 pos dist ≠ none ↔ (0 < dist ∧ pos + 3 * dist < f.count) := by
  rw [dist4_raw, ← dist4_cond f hwf hn]
  split <;> simp_all

/-- the four views of `dist4_mut(pos, dist)` are the shards at `pos`, `pos + dist`, `pos + 2 dist`,
    `pos + 3 dist` -/
theorem dist4_eq (f : Flat) (hwf : f.WF) (hn : 0 < f.len64) (pos dist : Nat)
    (hd : 0 < dist) (hp : pos + 3 * dist < f.count) :
    f.dist4 pos dist =
      some (f.abs[pos]'(by rw [abs_size]; omega), f.abs[pos + dist]'(by rw [abs_size]; omega),
            f.abs[pos + 2 * dist]'(by rw [abs_size]; omega),
            f.abs[pos + 3 * dist]'(by rw [abs_size]; exact hp)) := by
  have e2 : (pos + 2 * dist) * f.len64 = pos * f.len64 + dist * f.len64 * 2 := by
    rw [Nat.add_mul, Nat.mul_assoc]; omega
  have e3 : (pos + 3 * dist) * f.len64 = pos * f.len64 + dist * f.len64 * 2 + dist * f.len64 := by
    rw [Nat.add_mul, Nat.mul_assoc]; omega
  rw [dist4_raw, if_pos ((dist4_cond f hwf hn pos dist).2 ⟨hd, hp⟩), abs_getElem', abs_getElem',
    abs_getElem', abs_getElem', Nat.add_mul pos dist, e2, e3]

end Flat

/-! ### reads of the position-level array -/

theorem fl_rd_lt {V : Type} [ShardAlg V] (a : Array V) (p : Nat) (h : p < a.size) : rd a p = a[p] := by
  unfold rd; exact arr_getD_lt a p h _

theorem fl_rd_ge {V : Type} [ShardAlg V] (a : Array V) (p : Nat) (h : ¬ p < a.size) :
    rd a p = ShardAlg.zero := by
  unfold rd; exact arr_getD_ge a p h _

theorem fl_rd_setIfInBounds {V : Type} [ShardAlg V] (a : Array V) (i p : Nat) (v : V) :
    rd (a.setIfInBounds i v) p = if i = p ∧ p < a.size then v else rd a p := by
  by_cases hp : p < a.size
  · rw [fl_rd_lt _ _ (by rw [Array.size_setIfInBounds]; exact hp), Array.getElem_setIfInBounds hp]
    by_cases hi : i = p
    · rw [if_pos hi, if_pos ⟨hi, hp⟩]
    · rw [if_neg hi, if_neg (fun c => hi c.1), fl_rd_lt _ _ hp]
  · rw [fl_rd_ge _ _ (by rw [Array.size_setIfInBounds]; exact hp), if_neg (fun c => hp c.2),
      fl_rd_ge _ _ hp]

theorem fl_zeroRange_size {V : Type} [ShardAlg V] (a : Array V) (lo hi : Nat) :
    (zeroRange a lo hi).size = a.size := by
  unfold zeroRange; exact Array.size_ofFn

theorem fl_zeroRange_getElem {V : Type} [ShardAlg V] (a : Array V) (lo hi p : Nat)
    (h : p < (zeroRange a lo hi).size) :
    (zeroRange a lo hi)[p] = if lo ≤ p ∧ p < hi then ShardAlg.zero else rd a p := by
  simp only [zeroRange, Array.getElem_ofFn]

theorem bvec_zero_getElem (n k : Nat) (hk : k < n) : (ShardAlg.zero : BVec n)[k] = zeroBlock := by
  simp [ShardAlg.zero]

namespace Flat

theorem absAt_rd (n : Nat) (f : Flat) (hwf : f.data.size = f.count * n) (p k : Nat) (hk : k < n) :
    (rd (f.absAt n) p)[k] = f.data.getD (p * n + k) zeroBlock := by
  by_cases hp : p < f.count
  · rw [fl_rd_lt _ _ (by rw [absAt_size]; exact hp), absAt_getElem_getElem _ _ _ _ _ hk]
  · rw [fl_rd_ge _ _ (by rw [absAt_size]; exact hp), bvec_zero_getElem _ _ hk, arr_getD_ge]
    rw [hwf]
    intro hlt
    have := (fl_lt_iff hk p f.count).1 hlt
    exact hp this

/-! ### writing through a view: `IndexMut`, `dist2_mut`, `dist4_mut` -/

/-- writing `len64` blocks at block offset `q * len64` replaces shard `q` and nothing else -/
theorem absAt_writeAt (n c m : Nat) (d : Array Block) (hwf : d.size = c * n) (q : Nat)
    (s : Array Block) (hs : s.size = n) :
    absAt n ⟨c, m, writeAt d (q * n) s⟩ = (absAt n ⟨c, m, d⟩).setIfInBounds q (toBVec n s) := by
  apply absAt_ext
  · rw [Array.size_setIfInBounds, absAt_size]
  · intro p hp k hk
    have hpc : p < c := by rw [Array.size_setIfInBounds, absAt_size] at hp; exact hp
    have hps : p < (absAt n ⟨c, m, d⟩).size := by rw [absAt_size]; exact hpc
    have hlt : p * n + k < d.size := by rw [hwf]; exact fl_idx_lt hpc hk
    show (writeAt d (q * n) s).getD (p * n + k) zeroBlock = _
    rw [writeAt_getD, hs, Array.getElem_setIfInBounds hps]
    by_cases hq : p = q
    · subst hq
      rw [if_pos ⟨by omega, by omega, hlt⟩, if_pos rfl]
      unfold toBVec
      rw [Vector.getElem_ofFn]
      have e : p * n + k - p * n = k := by omega
      rw [e]
    · have hnot : ¬ (q * n ≤ p * n + k ∧ p * n + k < q * n + n) :=
        fun c => hq ((fl_in_shard hk p q).1 c)
      rw [if_neg (fun c => hnot ⟨c.1, c.2.1⟩), if_neg (fun c => hq c.symm),
        absAt_getElem_getElem _ _ _ _ hps hk]

theorem setShard_wf (f : Flat) (hwf : f.WF) (i : Nat) (s : Array Block) : (f.setShard i s).WF := by
  unfold WF setShard
  simp only [writeAt_size]
  exact hwf

/-- writing a shard through `IndexMut` replaces position `i` and nothing else -/
theorem setShard_absV (f : Flat) (hwf : f.WF) (i : Nat) (s : Array Block) (hs : s.size = f.len64) :
    (f.setShard i s).absAt f.len64 = f.absV.setIfInBounds i (toBVec f.len64 s) :=
  absAt_writeAt f.len64 f.count f.len64 f.data hwf i s hs

theorem setShard_abs (f : Flat) (hwf : f.WF) (i : Nat) (s : Array Block) (hs : s.size = f.len64) :
    (f.setShard i s).abs = f.abs.setIfInBounds i s := by
  rw [abs_eq_map_absAt (f.setShard i s) f.len64 rfl (setShard_wf f hwf i s), abs_eq_map f hwf]
  rw [setShard_absV f hwf i s hs, Array.map_setIfInBounds, toArray_toBVec s hs]

theorem putDist2_wf (f : Flat) (hwf : f.WF) (pos dist : Nat) (a b : Array Block) :
    (f.putDist2 pos dist a b).WF := by
  unfold WF putDist2
  simp only [writeAt_size]
  exact hwf

/-- writing through the views of `dist2_mut(pos, dist)` replaces positions `pos` and `pos + dist`
    and nothing else -/
theorem putDist2_absV (f : Flat) (hwf : f.WF) (pos dist : Nat) (a b : Array Block)
    (ha : a.size = f.len64) (hb : b.size = f.len64) :
    (f.putDist2 pos dist a b).absAt f.len64 =
      (f.absV.setIfInBounds pos (toBVec f.len64 a)).setIfInBounds (pos + dist) (toBVec f.len64 b) := by
  have h1 := absAt_writeAt f.len64 f.count f.len64 f.data hwf pos a ha
  have h2 := absAt_writeAt f.len64 f.count f.len64 (writeAt f.data (pos * f.len64) a)
    (by rw [writeAt_size]; exact hwf) (pos + dist) b hb
  rw [h1, Nat.add_mul] at h2
  exact h2

theorem putDist2_abs (f : Flat) (hwf : f.WF) (pos dist : Nat) (a b : Array Block)
    (ha : a.size = f.len64) (hb : b.size = f.len64) :
    (f.putDist2 pos dist a b).abs = (f.abs.setIfInBounds pos a).setIfInBounds (pos + dist) b := by
  rw [abs_eq_map_absAt (f.putDist2 pos dist a b) f.len64 rfl (putDist2_wf f hwf pos dist a b), abs_eq_map f hwf]
  rw [putDist2_absV f hwf pos dist a b ha hb, Array.map_setIfInBounds, Array.map_setIfInBounds,
    toArray_toBVec a ha, toArray_toBVec b hb]

theorem putDist4_wf (f : Flat) (hwf : f.WF) (pos dist : Nat) (a b c d : Array Block) :
    (f.putDist4 pos dist a b c d).WF := by
  unfold WF putDist4
  simp only [writeAt_size]
  exact hwf

/-- writing through the views of `dist4_mut(pos, dist)` replaces the four positions and nothing else -/
theorem putDist4_absV (f : Flat) (hwf : f.WF) (pos dist : Nat) (a b c d : Array Block)
    (ha : a.size = f.len64) (hb : b.size = f.len64) (hc : c.size = f.len64) (hd : d.size = f.len64) :
    (f.putDist4 pos dist a b c d).absAt f.len64 =
      (((f.absV.setIfInBounds pos (toBVec f.len64 a)).setIfInBounds (pos + dist) (toBVec f.len64 b)
        ).setIfInBounds (pos + 2 * dist) (toBVec f.len64 c)).setIfInBounds (pos + 3 * dist)
          (toBVec f.len64 d) := by
  have e2 : (pos + 2 * dist) * f.len64 = pos * f.len64 + dist * f.len64 * 2 := by
    rw [Nat.add_mul, Nat.mul_assoc]; omega
  have e3 : (pos + 3 * dist) * f.len64 = pos * f.len64 + dist * f.len64 * 2 + dist * f.len64 := by
    rw [Nat.add_mul, Nat.mul_assoc]; omega
  have h1 := absAt_writeAt f.len64 f.count f.len64 f.data hwf pos a ha
  have h2 := absAt_writeAt f.len64 f.count f.len64 (writeAt f.data (pos * f.len64) a)
    (by rw [writeAt_size]; exact hwf) (pos + dist) b hb
  have h3 := absAt_writeAt f.len64 f.count f.len64
    (writeAt (writeAt f.data (pos * f.len64) a) ((pos + dist) * f.len64) b)
    (by rw [writeAt_size, writeAt_size]; exact hwf) (pos + 2 * dist) c hc
  have h4 := absAt_writeAt f.len64 f.count f.len64
    (writeAt (writeAt (writeAt f.data (pos * f.len64) a) ((pos + dist) * f.len64) b)
      ((pos + 2 * dist) * f.len64) c)
    (by rw [writeAt_size, writeAt_size, writeAt_size]; exact hwf) (pos + 3 * dist) d hd
  rw [h3, h2, h1, e3, e2, Nat.add_mul] at h4
  exact h4

theorem putDist4_abs (f : Flat) (hwf : f.WF) (pos dist : Nat) (a b c d : Array Block)
    (ha : a.size = f.len64) (hb : b.size = f.len64) (hc : c.size = f.len64) (hd : d.size = f.len64) :
    (f.putDist4 pos dist a b c d).abs =
      (((f.abs.setIfInBounds pos a).setIfInBounds (pos + dist) b).setIfInBounds (pos + 2 * dist) c
        ).setIfInBounds (pos + 3 * dist) d := by
  rw [abs_eq_map_absAt (f.putDist4 pos dist a b c d) f.len64 rfl (putDist4_wf f hwf pos dist a b c d), abs_eq_map f hwf]
  rw [putDist4_absV f hwf pos dist a b c d ha hb hc hd, Array.map_setIfInBounds,
    Array.map_setIfInBounds, Array.map_setIfInBounds, Array.map_setIfInBounds,
    toArray_toBVec a ha, toArray_toBVec b hb, toArray_toBVec c hc, toArray_toBVec d hd]

end Flat

namespace Flat

/-! ### `zero` -/

theorem zero_raw (f : Flat) (a b : Nat) :
    f.zero a b =
      if a * f.len64 ≤ b * f.len64 ∧ b * f.len64 ≤ f.data.size then
        some ⟨f.count, f.len64, fillRange f.data (a * f.len64) (b * f.len64)⟩
      else none := rfl

/-- `zero(a..)` is `zero(a..shard_count)` -/
theorem zeroFrom_eq (f : Flat) (a : Nat) : f.zeroFrom a = f.zero a f.count := rfl

/-- `zero(a..b)` does not panic iff `a ≤ b ≤ shard_count` (for `shard_len_64 > 0`) -/
theorem zero_some_iff (f : Flat) (hwf : f.WF) (hn : 0 < f.len64) (a b : Nat) :
    f.zero a b ≠ none ↔ (a ≤ b ∧ b ≤ f.count) := by
  rw [zero_raw, hwf]
  have e : (a * f.len64 ≤ b * f.len64 ∧ b * f.len64 ≤ f.count * f.len64) ↔ (a ≤ b ∧ b ≤ f.count) := by
    rw [Nat.mul_le_mul_right_iff hn, Nat.mul_le_mul_right_iff hn]
  by_cases h : a ≤ b ∧ b ≤ f.count
  · rw [if_pos (e.2 h)]; simp [h]
  · rw [if_neg (fun c => h (e.1 c))]; simp [h]

/-- with `shard_len_64 = 0` `zero` never panics -/
theorem zero_len0 (f : Flat) (hwf : f.WF) (hn : f.len64 = 0) (a b : Nat) : f.zero a b ≠ none := by
  have hs : f.data.size = 0 := by rw [hwf, hn, Nat.mul_zero]
  rw [zero_raw, hn, hs]
  simp

/-- filling blocks `a * n .. b * n` zeroes exactly the shards `a .. b` -/
theorem absAt_fillRange (n c m : Nat) (d : Array Block) (a b : Nat) :
    absAt n ⟨c, m, fillRange d (a * n) (b * n)⟩ = zeroRange (absAt n ⟨c, m, d⟩) a b := by
  apply absAt_ext
  · rw [fl_zeroRange_size, absAt_size]
  · intro p hp k hk
    have hps : p < (absAt n ⟨c, m, d⟩).size := by
      rw [← fl_zeroRange_size _ a b]; exact hp
    show (fillRange d (a * n) (b * n)).getD (p * n + k) zeroBlock = _
    rw [fillRange_getD, fl_zeroRange_getElem]
    have e : (a * n ≤ p * n + k ∧ p * n + k < b * n) ↔ (a ≤ p ∧ p < b) := by
      rw [fl_le_iff hk, fl_lt_iff hk]
    by_cases hc : a ≤ p ∧ p < b
    · rw [if_pos (e.2 hc), if_pos hc, bvec_zero_getElem _ _ hk]
    · rw [if_neg (fun c => hc (e.1 c)), if_neg hc, fl_rd_lt _ _ hps,
        absAt_getElem_getElem _ _ _ _ hps hk]

/-- everything `zero(a..b)` does when it returns -/
theorem zero_spec (f f' : Flat) (a b : Nat) (h : f.zero a b = some f') :
    f'.count = f.count ∧ f'.len64 = f.len64 ∧ (f.WF → f'.WF) ∧
      f'.absAt f.len64 = zeroRange f.absV a b := by
  rw [zero_raw] at h
  split at h
  · injection h with h
    subst h
    refine ⟨rfl, rfl, ?_, absAt_fillRange _ _ _ _ _ _⟩
    intro hwf
    unfold WF
    simp only [fillRange_size]
    exact hwf
  · cases h

/-- `zero(a..b)` refines `zeroRange` of Model/Engine.lean -/
theorem zero_refines (f : Flat) (hwf : f.WF) (a b : Nat) (hab : a ≤ b) (hb : b ≤ f.count) :
    ∃ f', f.zero a b = some f' ∧ f'.count = f.count ∧ f'.len64 = f.len64 ∧ f'.WF ∧
      f'.absAt f.len64 = zeroRange f.absV a b := by
  have hc : a * f.len64 ≤ b * f.len64 ∧ b * f.len64 ≤ f.data.size := by
    rw [hwf]; exact ⟨Nat.mul_le_mul_right _ hab, Nat.mul_le_mul_right _ hb⟩
  have he : f.zero a b = some ⟨f.count, f.len64, fillRange f.data (a * f.len64) (b * f.len64)⟩ := by
    rw [zero_raw, if_pos hc]
  obtain ⟨h1, h2, h3, h4⟩ := zero_spec f _ a b he
  exact ⟨_, he, h1, h2, h3 hwf, h4⟩

/-- `zero(a..b)` on the shards: positions `a .. b` become all-zero shards, all others are unchanged -/
theorem zero_abs (f : Flat) (hwf : f.WF) (a b : Nat) (hab : a ≤ b) (hb : b ≤ f.count) :
    (f.zero a b).map abs =
      some (Array.ofFn (n := f.count) fun p =>
        if a ≤ p.val ∧ p.val < b then Array.replicate f.len64 zeroBlock else f.abs.getD p.val #[]) := by
  obtain ⟨f', he, h1, h2, h3, h4⟩ := zero_refines f hwf a b hab hb
  rw [he, Option.map_some, abs_eq_map_absAt f' f.len64 h2 h3, h4]
  congr 1
  apply Array.ext
  · rw [Array.size_map, Array.size_ofFn, fl_zeroRange_size, absV_size]
  · intro p hp1 hp2
    have hpc : p < f.count := by rw [Array.size_ofFn] at hp2; exact hp2
    rw [Array.getElem_map, fl_zeroRange_getElem, Array.getElem_ofFn]
    simp only []
    by_cases hc : a ≤ p ∧ p < b
    · rw [if_pos hc, if_pos hc, bvec_zero_toArray]
    · rw [if_neg hc, if_neg hc, fl_rd_lt _ _ (by rw [absV_size]; exact hpc),
        arr_getD_lt _ _ (by rw [abs_size]; exact hpc), absV_getElem_toArray f hwf p hpc]

/-! ### `copy_within` -/

theorem copyWithin_raw (f : Flat) (src dest cnt : Nat) :
    f.copyWithin src dest cnt =
      if src * f.len64 + cnt * f.len64 ≤ f.data.size ∧ dest * f.len64 + cnt * f.len64 ≤ f.data.size then
        some ⟨f.count, f.len64, moveRange f.data (src * f.len64) (dest * f.len64) (cnt * f.len64)⟩
      else none := rfl

/-- `copy_within(src, dest, count)` does not panic iff both ranges lie inside the shards -/
theorem copyWithin_some_iff (f : Flat) (hwf : f.WF) (hn : 0 < f.len64) (src dest cnt : Nat) :
    f.copyWithin src dest cnt ≠ none ↔ (src + cnt ≤ f.count ∧ dest + cnt ≤ f.count) := by
  rw [copyWithin_raw, hwf]
  have e : (src * f.len64 + cnt * f.len64 ≤ f.count * f.len64 ∧
      dest * f.len64 + cnt * f.len64 ≤ f.count * f.len64) ↔
      (src + cnt ≤ f.count ∧ dest + cnt ≤ f.count) := by
    rw [← Nat.add_mul, ← Nat.add_mul, Nat.mul_le_mul_right_iff hn, Nat.mul_le_mul_right_iff hn]
  by_cases h : src + cnt ≤ f.count ∧ dest + cnt ≤ f.count
  · rw [if_pos (e.2 h)]; simp [h]
  · rw [if_neg (fun c => h (e.1 c))]; simp [h]

/-- moving blocks `src * n .. (src + cnt) * n` to `dest * n` moves the shards `src .. src + cnt` to
    `dest ..`, every source shard being read from the OLD memory (memmove) -/
theorem absAt_moveRange (n c m : Nat) (d : Array Block) (hwf : d.size = c * n) (src dest cnt : Nat) :
    absAt n ⟨c, m, moveRange d (src * n) (dest * n) (cnt * n)⟩ =
      Array.ofFn (n := c) fun p =>
        if dest ≤ p.val ∧ p.val < dest + cnt then rd (absAt n ⟨c, m, d⟩) (src + (p.val - dest))
        else rd (absAt n ⟨c, m, d⟩) p.val := by
  apply absAt_eq_ofFn n ⟨c, m, moveRange d (src * n) (dest * n) (cnt * n)⟩
    (fun p => if dest ≤ p ∧ p < dest + cnt then rd (absAt n ⟨c, m, d⟩) (src + (p - dest))
      else rd (absAt n ⟨c, m, d⟩) p)
  · intro p hpc k hk
    have hpc : p < c := hpc
    have hlt : p * n + k < d.size := by rw [hwf]; exact fl_idx_lt hpc hk
    show (moveRange d (src * n) (dest * n) (cnt * n)).getD (p * n + k) zeroBlock = _
    rw [moveRange_getD]
    by_cases hc : dest ≤ p ∧ p < dest + cnt
    · have hc' := (fl_in_range hk p dest cnt).2 hc
      rw [if_pos ⟨hc'.1, hc'.2, hlt⟩, if_pos hc, absAt_rd n ⟨c, m, d⟩ hwf _ _ hk]
      have e : src * n + (p * n + k - dest * n) = (src + (p - dest)) * n + k := by
        have h1 : dest * n ≤ p * n := Nat.mul_le_mul_right n hc.1
        rw [Nat.add_mul, Nat.sub_mul]
        omega
      rw [e]
    · have hc' : ¬ (dest * n ≤ p * n + k ∧ p * n + k < dest * n + cnt * n) :=
        fun h => hc ((fl_in_range hk p dest cnt).1 h)
      rw [if_neg (fun h => hc' ⟨h.1, h.2.1⟩), if_neg hc, absAt_rd n ⟨c, m, d⟩ hwf _ _ hk]

/-- everything `copy_within(src, dest, cnt)` does when it returns: memmove on shard positions,
    overlapping ranges allowed -/
theorem copyWithin_spec (f f' : Flat) (hwf : f.WF) (src dest cnt : Nat)
    (h : f.copyWithin src dest cnt = some f') :
    f'.count = f.count ∧ f'.len64 = f.len64 ∧ f'.WF ∧
      f'.absAt f.len64 = Array.ofFn (n := f.count) fun p =>
        if dest ≤ p.val ∧ p.val < dest + cnt then rd f.absV (src + (p.val - dest))
        else rd f.absV p.val := by
  rw [copyWithin_raw] at h
  split at h
  · injection h with h
    subst h
    refine ⟨rfl, rfl, ?_, absAt_moveRange _ _ _ _ hwf _ _ _⟩
    unfold WF
    simp only [moveRange_size]
    exact hwf
  · cases h

theorem copyWithin_absV (f : Flat) (hwf : f.WF) (src dest cnt : Nat)
    (h1 : src + cnt ≤ f.count) (h2 : dest + cnt ≤ f.count) :
    ∃ f', f.copyWithin src dest cnt = some f' ∧ f'.count = f.count ∧ f'.len64 = f.len64 ∧ f'.WF ∧
      f'.absAt f.len64 = Array.ofFn (n := f.count) fun p =>
        if dest ≤ p.val ∧ p.val < dest + cnt then rd f.absV (src + (p.val - dest))
        else rd f.absV p.val := by
  have hc : src * f.len64 + cnt * f.len64 ≤ f.data.size ∧
      dest * f.len64 + cnt * f.len64 ≤ f.data.size := by
    rw [hwf, ← Nat.add_mul, ← Nat.add_mul]
    exact ⟨Nat.mul_le_mul_right _ h1, Nat.mul_le_mul_right _ h2⟩
  have he : f.copyWithin src dest cnt = some ⟨f.count, f.len64,
      moveRange f.data (src * f.len64) (dest * f.len64) (cnt * f.len64)⟩ := by
    rw [copyWithin_raw, if_pos hc]
  obtain ⟨a1, a2, a3, a4⟩ := copyWithin_spec f _ hwf src dest cnt he
  exact ⟨_, he, a1, a2, a3, a4⟩

/-- `copy_within` on the shards: position `p` in `dest .. dest + cnt` receives the OLD shard
    `src + (p - dest)`, all other positions are unchanged -/
theorem copyWithin_abs (f : Flat) (hwf : f.WF) (src dest cnt : Nat)
    (h1 : src + cnt ≤ f.count) (h2 : dest + cnt ≤ f.count) :
    (f.copyWithin src dest cnt).map abs =
      some (Array.ofFn (n := f.count) fun p =>
        if dest ≤ p.val ∧ p.val < dest + cnt then f.abs.getD (src + (p.val - dest)) #[]
        else f.abs.getD p.val #[]) := by
  obtain ⟨f', he, a1, a2, a3, a4⟩ := copyWithin_absV f hwf src dest cnt h1 h2
  rw [he, Option.map_some, abs_eq_map_absAt f' f.len64 a2 a3, a4]
  congr 1
  apply Array.ext
  · rw [Array.size_map, Array.size_ofFn, Array.size_ofFn]
  · intro p hp1 hp2
    have hpc : p < f.count := by rw [Array.size_ofFn] at hp2; exact hp2
    simp only [Array.getElem_map, Array.getElem_ofFn]
    by_cases hc : dest ≤ p ∧ p < dest + cnt
    · have hq : src + (p - dest) < f.count := by omega
      rw [if_pos hc, if_pos hc, fl_rd_lt _ _ (by rw [absV_size]; exact hq),
        arr_getD_lt _ _ (by rw [abs_size]; exact hq), absV_getElem_toArray f hwf _ hq]
    · rw [if_neg hc, if_neg hc, fl_rd_lt _ _ (by rw [absV_size]; exact hpc),
        arr_getD_lt _ _ (by rw [abs_size]; exact hpc), absV_getElem_toArray f hwf p hpc]

end Flat

/-! ### the position-level `copyWithin` / `xorWithin` of Model/Engine.lean, pointwise -/

section ops
variable {V : Type} [ShardAlg V]

/-- the sequential forward copy of Model/Engine.lean is a memmove whenever `dest ≤ src` or the
    ranges are disjoint -/
theorem fl_copyWithin_prefix (a : Array V) (src dest count : Nat)
    (hd : dest ≤ src ∨ src + count ≤ dest) :
    ∀ j, j ≤ count →
      ((List.range j).foldl
          (fun a i => a.setIfInBounds (dest + i) (rd a (src + i))) a).size = a.size ∧
      ∀ p, p < a.size → rd ((List.range j).foldl
          (fun a i => a.setIfInBounds (dest + i) (rd a (src + i))) a) p =
        if dest ≤ p ∧ p < dest + j then rd a (src + (p - dest)) else rd a p := by
  intro j
  induction j with
  | zero =>
    intro _
    refine ⟨rfl, fun p _ => ?_⟩
    rw [if_neg (by omega)]; rfl
  | succ j ih =>
    intro hj
    obtain ⟨hs, hr⟩ := ih (by omega)
    rw [List.range_succ, List.foldl_append]
    simp only [List.foldl_cons, List.foldl_nil]
    refine ⟨by rw [Array.size_setIfInBounds, hs], fun p hpa => ?_⟩
    rw [fl_rd_setIfInBounds, hs]
    by_cases hp : p = dest + j
    · subst hp
      rw [if_pos ⟨rfl, hpa⟩, if_pos (by omega)]
      have e : src + (dest + j - dest) = src + j := by omega
      rw [e]
      by_cases hy : src + j < a.size
      · rw [hr (src + j) hy, if_neg (by omega)]
      · rw [fl_rd_ge _ _ (by rw [hs]; exact hy), fl_rd_ge a _ hy]
    · rw [if_neg (fun h => hp h.1.symm), hr p hpa]
      by_cases hw : dest ≤ p ∧ p < dest + j
      · rw [if_pos hw, if_pos (by omega)]
      · rw [if_neg hw, if_neg (by omega)]

theorem fl_copyWithin_size (a : Array V) (src dest count : Nat)
    (hd : dest ≤ src ∨ src + count ≤ dest) : (RS.copyWithin a src dest count).size = a.size :=
  (fl_copyWithin_prefix a src dest count hd count (Nat.le_refl _)).1

theorem fl_rd_copyWithin (a : Array V) (src dest count : Nat)
    (hd : dest ≤ src ∨ src + count ≤ dest) {p : Nat} (hp : p < a.size) :
    rd (RS.copyWithin a src dest count) p =
      if dest ≤ p ∧ p < dest + count then rd a (src + (p - dest)) else rd a p :=
  (fl_copyWithin_prefix a src dest count hd count (Nat.le_refl _)).2 p hp

theorem fl_xorWithin_prefix (a : Array V) (x y count : Nat)
    (hd : x + count ≤ y ∨ y + count ≤ x) :
    ∀ j, j ≤ count →
      ((List.range j).foldl
          (fun a i => a.setIfInBounds (x + i) (ShardAlg.add (rd a (x + i)) (rd a (y + i)))) a).size
        = a.size ∧
      ∀ p, p < a.size → rd ((List.range j).foldl
          (fun a i => a.setIfInBounds (x + i) (ShardAlg.add (rd a (x + i)) (rd a (y + i)))) a) p =
        if x ≤ p ∧ p < x + j then ShardAlg.add (rd a p) (rd a (y + (p - x))) else rd a p := by
  intro j
  induction j with
  | zero =>
    intro _
    refine ⟨rfl, fun p _ => ?_⟩
    rw [if_neg (by omega)]; rfl
  | succ j ih =>
    intro hj
    obtain ⟨hs, hr⟩ := ih (by omega)
    rw [List.range_succ, List.foldl_append]
    simp only [List.foldl_cons, List.foldl_nil]
    refine ⟨by rw [Array.size_setIfInBounds, hs], fun p hpa => ?_⟩
    rw [fl_rd_setIfInBounds, hs]
    by_cases hp : p = x + j
    · subst hp
      rw [if_pos ⟨rfl, hpa⟩, if_pos (by omega), hr (x + j) hpa, if_neg (by omega)]
      have e : y + (x + j - x) = y + j := by omega
      rw [e]
      by_cases hy : y + j < a.size
      · rw [hr (y + j) hy, if_neg (by omega)]
      · have h1 := fl_rd_ge ((List.range j).foldl
            (fun a i => a.setIfInBounds (x + i) (ShardAlg.add (rd a (x + i)) (rd a (y + i)))) a)
            (y + j) (by rw [hs]; exact hy)
        rw [h1, fl_rd_ge a _ hy]
    · rw [if_neg (fun h => hp h.1.symm), hr p hpa]
      by_cases hw : x ≤ p ∧ p < x + j
      · rw [if_pos hw, if_pos (by omega)]
      · rw [if_neg hw, if_neg (by omega)]

theorem fl_xorWithin_size (a : Array V) (x y count : Nat)
    (hd : x + count ≤ y ∨ y + count ≤ x) : (RS.xorWithin a x y count).size = a.size :=
  (fl_xorWithin_prefix a x y count hd count (Nat.le_refl _)).1

theorem fl_rd_xorWithin (a : Array V) (x y count : Nat)
    (hd : x + count ≤ y ∨ y + count ≤ x) {p : Nat} (hp : p < a.size) :
    rd (RS.xorWithin a x y count) p =
      if x ≤ p ∧ p < x + count then ShardAlg.add (rd a p) (rd a (y + (p - x))) else rd a p :=
  (fl_xorWithin_prefix a x y count hd count (Nat.le_refl _)).2 p hp

end ops

namespace Flat

/-- `copy_within(src, dest, cnt)` refines `copyWithin` of Model/Engine.lean (a forward copy) whenever
    `dest ≤ src` or the ranges are disjoint; the only caller (rate_low.rs) has `src = 0`,
    `dest = chunk_start ≥ chunk_size = cnt` -/
theorem copyWithin_refines (f : Flat) (hwf : f.WF) (src dest cnt : Nat)
    (h1 : src + cnt ≤ f.count) (h2 : dest + cnt ≤ f.count) (hd : dest ≤ src ∨ src + cnt ≤ dest) :
    ∃ f', f.copyWithin src dest cnt = some f' ∧ f'.count = f.count ∧ f'.len64 = f.len64 ∧ f'.WF ∧
      f'.absAt f.len64 = RS.copyWithin f.absV src dest cnt := by
  obtain ⟨f', he, a1, a2, a3, a4⟩ := copyWithin_absV f hwf src dest cnt h1 h2
  refine ⟨f', he, a1, a2, a3, ?_⟩
  rw [a4]
  apply Array.ext
  · rw [Array.size_ofFn, fl_copyWithin_size _ _ _ _ hd, absV_size]
  · intro p hp1 hp2
    have hpc : p < f.absV.size := by rw [Array.size_ofFn] at hp1; rw [absV_size]; exact hp1
    rw [← fl_rd_lt _ _ hp2, fl_rd_copyWithin _ _ _ _ hd hpc]
    simp only [Array.getElem_ofFn]

end Flat

namespace Flat

/-! ### `flat2_mut` and `xor_within` -/

/-- `flat2_mut` as one case distinction: in the branch `x < y` the checks are `split_at_mut(y)`,
    `head[x..x + count]`, `tail[..count]`; otherwise `split_at_mut(x)`, `tail[..count]`,
    `head[y..y + count]`.  Overlapping ranges always fail one of them. -/
theorem flat2_raw (f : Flat) (x y cnt : Nat) :
    f.flat2 x y cnt =
      if (x * f.len64 < y * f.len64 ∧ x * f.len64 + cnt * f.len64 ≤ y * f.len64 ∧
            y * f.len64 + cnt * f.len64 ≤ f.data.size) ∨
          (¬ x * f.len64 < y * f.len64 ∧ y * f.len64 + cnt * f.len64 ≤ x * f.len64 ∧
            x * f.len64 + cnt * f.len64 ≤ f.data.size) then
        some (f.data.extract (x * f.len64) (x * f.len64 + cnt * f.len64),
              f.data.extract (y * f.len64) (y * f.len64 + cnt * f.len64))
      else none := by
  unfold flat2
  simp only []
  by_cases hxy : x * f.len64 < y * f.len64
  · rw [if_pos hxy]
    by_cases h1 : y * f.len64 ≤ f.data.size
    case neg => rw [splitAtMut_none h1, if_neg (by omega)]; rfl
    rw [splitAtMut_some h1, Option.bind_some]
    simp only []
    rw [sliceRange_extract _ (Nat.zero_le _) h1]
    by_cases h2 : x * f.len64 + cnt * f.len64 ≤ y * f.len64
    case neg => rw [if_neg (by omega), if_neg (by omega)]; rfl
    rw [if_pos (by omega), Option.bind_some, sliceTo_extract _ h1 (Nat.le_refl _)]
    by_cases h3 : cnt * f.len64 ≤ f.data.size - y * f.len64
    case neg => rw [if_neg h3, if_neg (by omega)]; rfl
    rw [if_pos h3, Option.bind_some, if_pos (by omega), Nat.zero_add, Nat.zero_add]
  · rw [if_neg hxy]
    by_cases h1 : x * f.len64 ≤ f.data.size
    case neg => rw [splitAtMut_none h1, if_neg (by omega)]; rfl
    rw [splitAtMut_some h1, Option.bind_some]
    simp only []
    rw [sliceTo_extract _ h1 (Nat.le_refl _)]
    by_cases h3 : cnt * f.len64 ≤ f.data.size - x * f.len64
    case neg => rw [if_neg h3, if_neg (by omega)]; rfl
    rw [if_pos h3, Option.bind_some, sliceRange_extract _ (Nat.zero_le _) h1]
    by_cases h2 : y * f.len64 + cnt * f.len64 ≤ x * f.len64
    case neg => rw [if_neg (by omega), if_neg (by omega)]; rfl
    rw [if_pos (by omega), Option.bind_some, if_pos (by omega), Nat.zero_add, Nat.zero_add]

/-- the bound checks of `flat2_mut` in terms of shard positions -/
theorem flat2_cond (f : Flat) (hwf : f.WF) (hn : 0 < f.len64) (x y cnt : Nat) :
    ((x * f.len64 < y * f.len64 ∧ x * f.len64 + cnt * f.len64 ≤ y * f.len64 ∧
        y * f.len64 + cnt * f.len64 ≤ f.data.size) ∨
      (¬ x * f.len64 < y * f.len64 ∧ y * f.len64 + cnt * f.len64 ≤ x * f.len64 ∧
        x * f.len64 + cnt * f.len64 ≤ f.data.size))
    ↔ ((x + cnt ≤ y ∧ y + cnt ≤ f.count) ∨ (y + cnt ≤ x ∧ x + cnt ≤ f.count)) := by
  have e1 : x * f.len64 < y * f.len64 ↔ x < y := Nat.mul_lt_mul_right hn
  have e2 : x * f.len64 + cnt * f.len64 ≤ y * f.len64 ↔ x + cnt ≤ y := by
    rw [← Nat.add_mul, Nat.mul_le_mul_right_iff hn]
  have e3 : y * f.len64 + cnt * f.len64 ≤ f.count * f.len64 ↔ y + cnt ≤ f.count := by
    rw [← Nat.add_mul, Nat.mul_le_mul_right_iff hn]
  have e4 : y * f.len64 + cnt * f.len64 ≤ x * f.len64 ↔ y + cnt ≤ x := by
    rw [← Nat.add_mul, Nat.mul_le_mul_right_iff hn]
  have e5 : x * f.len64 + cnt * f.len64 ≤ f.count * f.len64 ↔ x + cnt ≤ f.count := by
    rw [← Nat.add_mul, Nat.mul_le_mul_right_iff hn]
  rw [hwf, e1, e2, e3, e4, e5]
  omega

/-- `flat2_mut(x, y, count)` does not panic iff the two shard ranges are disjoint (or empty) and
    inside the shards; in particular overlapping non-empty ranges PANIC (they are never aliased) -/
theorem flat2_some_iff (f : Flat) (hwf : f.WF) (hn : 0 < f.len64) (x y cnt : Nat) :
    f.flat2 x y cnt ≠ none ↔
      ((x + cnt ≤ y ∧ y + cnt ≤ f.count) ∨ (y + cnt ≤ x ∧ x + cnt ≤ f.count)) := by
  rw [flat2_raw, ← flat2_cond f hwf hn]
  split <;> simp_all

/-- overlapping non-empty ranges make `flat2_mut` panic -/
theorem flat2_overlap_none (f : Flat) (hwf : f.WF) (hn : 0 < f.len64) (x y cnt : Nat)
    (h1 : x < y + cnt) (h2 : y < x + cnt) : f.flat2 x y cnt = none := by
  by_cases h : f.flat2 x y cnt = none
  · exact h
  · exact absurd ((flat2_some_iff f hwf hn x y cnt).1 h) (by omega)

/-- the raw bound checks follow from the position-level conditions for any `shard_len_64` -/
theorem flat2_cond_of (f : Flat) (hwf : f.WF) (x y cnt : Nat)
    (hx : x + cnt ≤ f.count) (hy : y + cnt ≤ f.count) (hd : x + cnt ≤ y ∨ y + cnt ≤ x) :
    (x * f.len64 < y * f.len64 ∧ x * f.len64 + cnt * f.len64 ≤ y * f.len64 ∧
        y * f.len64 + cnt * f.len64 ≤ f.data.size) ∨
      (¬ x * f.len64 < y * f.len64 ∧ y * f.len64 + cnt * f.len64 ≤ x * f.len64 ∧
        x * f.len64 + cnt * f.len64 ≤ f.data.size) := by
  have a1 : x * f.len64 + cnt * f.len64 ≤ f.data.size := by
    rw [hwf, ← Nat.add_mul]; exact Nat.mul_le_mul_right _ hx
  have a2 : y * f.len64 + cnt * f.len64 ≤ f.data.size := by
    rw [hwf, ← Nat.add_mul]; exact Nat.mul_le_mul_right _ hy
  cases hd with
  | inl h =>
    have a3 : x * f.len64 + cnt * f.len64 ≤ y * f.len64 := by
      rw [← Nat.add_mul]; exact Nat.mul_le_mul_right _ h
    omega
  | inr h =>
    have a3 : y * f.len64 + cnt * f.len64 ≤ x * f.len64 := by
      rw [← Nat.add_mul]; exact Nat.mul_le_mul_right _ h
    omega

/-- the two views of `flat2_mut(x, y, count)` are the block ranges of the shard ranges
    `x .. x + count` and `y .. y + count` (see `flat2_view_getD`) -/
theorem flat2_eq (f : Flat) (hwf : f.WF) (x y cnt : Nat)
    (hx : x + cnt ≤ f.count) (hy : y + cnt ≤ f.count) (hd : x + cnt ≤ y ∨ y + cnt ≤ x) :
    f.flat2 x y cnt =
      some (f.data.extract (x * f.len64) (x * f.len64 + cnt * f.len64),
            f.data.extract (y * f.len64) (y * f.len64 + cnt * f.len64)) := by
  rw [flat2_raw, if_pos (flat2_cond_of f hwf x y cnt hx hy hd)]

/-- block `k` of the `i`-th shard of the view of the shard range `x .. x + cnt` is block `k` of
    shard `x + i` -/
theorem flat2_view_getD (f : Flat) (hwf : f.WF) (x cnt : Nat) (hx : x + cnt ≤ f.count)
    (i k : Nat) (hi : i < cnt) (hk : k < f.len64) :
    (f.data.extract (x * f.len64) (x * f.len64 + cnt * f.len64)).getD (i * f.len64 + k) zeroBlock
      = (rd f.absV (x + i))[k] := by
  have a1 : x * f.len64 + cnt * f.len64 ≤ f.data.size := by
    rw [hwf, ← Nat.add_mul]; exact Nat.mul_le_mul_right _ hx
  have a2 : i * f.len64 + k < cnt * f.len64 := fl_idx_lt hi hk
  rw [extract_getD, if_pos (by omega)]
  unfold absV
  rw [absAt_rd _ f hwf _ _ hk, Nat.add_mul, Nat.add_assoc]

theorem bXor_size (x y : BShard) : (bXor x y).size = x.size := by
  unfold bXor; exact Array.size_ofFn

theorem bXor_getD (x y : BShard) (i : Nat) (h : i < x.size) :
    (bXor x y).getD i zeroBlock = blockXor (x.getD i zeroBlock) (y.getD i zeroBlock) := by
  unfold bXor
  rw [ofFn_getD _ _ h]
  rfl

theorem bMul_size (g : Sym → Sym) (x : BShard) : (bMul g x).size = x.size := by
  unfold bMul; exact Array.size_ofFn

/-- the flat memory after `xor_within`, block by block -/
theorem xor_data_getD (d : Array Block) (X Y C j : Nat) (hX : X + C ≤ d.size) (hY : Y + C ≤ d.size)
    (hd : X + C ≤ Y ∨ Y + C ≤ X) :
    (writeAt (writeAt d X (bXor (d.extract X (X + C)) (d.extract Y (Y + C)))) Y
        (d.extract Y (Y + C))).getD j zeroBlock
      = if X ≤ j ∧ j < X + C then blockXor (d.getD j zeroBlock) (d.getD (Y + (j - X)) zeroBlock)
        else d.getD j zeroBlock := by
  have sX : (d.extract X (X + C)).size = C := by rw [extract_size_of_le d hX]; omega
  have sY : (d.extract Y (Y + C)).size = C := by rw [extract_size_of_le d hY]; omega
  rw [writeAt_getD, sY, writeAt_size]
  by_cases hy : Y ≤ j ∧ j < Y + C
  · rw [if_pos ⟨hy.1, hy.2, by omega⟩, if_neg (by omega), extract_getD, if_pos (by omega)]
    have e : Y + (j - Y) = j := by omega
    rw [e]
  · rw [if_neg (fun c => hy ⟨c.1, c.2.1⟩), writeAt_getD, bXor_size, sX]
    by_cases hx : X ≤ j ∧ j < X + C
    · rw [if_pos ⟨hx.1, hx.2, by omega⟩, if_pos hx, bXor_getD _ _ _ (by rw [sX]; omega),
        extract_getD, if_pos (by omega), extract_getD, if_pos (by omega)]
      have e : X + (j - X) = j := by omega
      rw [e]
    · rw [if_neg (fun c => hx ⟨c.1, c.2.1⟩), if_neg hx]

theorem bvec_add_getElem {n : Nat} (a b : BVec n) (k : Nat) (hk : k < n) :
    (ShardAlg.add a b)[k] = blockXor a[k] b[k] := by
  simp [ShardAlg.add]

/-- `utils::xor_within(data, x, y, count)` on the flat memory refines `xorWithin` of
    Model/Engine.lean, for disjoint ranges inside the shards (otherwise `flat2_mut` panics) -/
theorem xorWithin_refines (f : Flat) (hwf : f.WF) (x y cnt : Nat)
    (hx : x + cnt ≤ f.count) (hy : y + cnt ≤ f.count) (hd : x + cnt ≤ y ∨ y + cnt ≤ x) :
    ∃ f', f.xorWithin x y cnt = some f' ∧ f'.count = f.count ∧ f'.len64 = f.len64 ∧ f'.WF ∧
      f'.absAt f.len64 = RS.xorWithin f.absV x y cnt := by
  have a1 : x * f.len64 + cnt * f.len64 ≤ f.data.size := by
    rw [hwf, ← Nat.add_mul]; exact Nat.mul_le_mul_right _ hx
  have a2 : y * f.len64 + cnt * f.len64 ≤ f.data.size := by
    rw [hwf, ← Nat.add_mul]; exact Nat.mul_le_mul_right _ hy
  have a3 : x * f.len64 + cnt * f.len64 ≤ y * f.len64 ∨ y * f.len64 + cnt * f.len64 ≤ x * f.len64 := by
    cases hd with
    | inl h => left; rw [← Nat.add_mul]; exact Nat.mul_le_mul_right _ h
    | inr h => right; rw [← Nat.add_mul]; exact Nat.mul_le_mul_right _ h
  refine ⟨f.putFlat2 x y
      (bXor (f.data.extract (x * f.len64) (x * f.len64 + cnt * f.len64))
        (f.data.extract (y * f.len64) (y * f.len64 + cnt * f.len64)))
      (f.data.extract (y * f.len64) (y * f.len64 + cnt * f.len64)),
    by unfold xorWithin; rw [flat2_eq f hwf x y cnt hx hy hd, Option.bind_some],
    rfl, rfl, ?_, ?_⟩
  · unfold WF putFlat2
    simp only [writeAt_size]
    exact hwf
  · apply absAt_ext
    · rw [fl_xorWithin_size _ _ _ _ hd, absV_size]; rfl
    · intro p hp k hk
      have hpa : p < f.absV.size := by rw [fl_xorWithin_size _ _ _ _ hd] at hp; exact hp
      have hpc : p < f.count := by rw [absV_size] at hpa; exact hpa
      rw [← fl_rd_lt _ _ hp, fl_rd_xorWithin _ _ _ _ hd hpa]
      show (writeAt (writeAt f.data (x * f.len64) _) (y * f.len64) _).getD (p * f.len64 + k) zeroBlock = _
      rw [xor_data_getD f.data _ _ _ _ a1 a2 a3]
      by_cases hc : x ≤ p ∧ p < x + cnt
      · rw [if_pos ((fl_in_range hk p x cnt).2 hc), if_pos hc, bvec_add_getElem _ _ _ hk]
        unfold absV
        rw [absAt_rd _ f hwf _ _ hk, absAt_rd _ f hwf _ _ hk]
        have e : y * f.len64 + (p * f.len64 + k - x * f.len64) = (y + (p - x)) * f.len64 + k := by
          have h1 : x * f.len64 ≤ p * f.len64 := Nat.mul_le_mul_right _ hc.1
          rw [Nat.add_mul, Nat.sub_mul]
          omega
        rw [e]
      · rw [if_neg (fun h => hc ((fl_in_range hk p x cnt).1 h)), if_neg hc]
        unfold absV
        rw [absAt_rd _ f hwf _ _ hk]

end Flat

namespace Flat

/-! ### `ShardsRefMut::new` and `split_at_mut` -/

theorem new_some (c n : Nat) (d : Array Block) (h : c * n ≤ d.size) :
    Flat.new c n d = some ⟨c, n, d.extract 0 (c * n)⟩ := by
  unfold Flat.new
  rw [if_pos h, sliceTo_some h, Option.bind_some]

theorem new_none (c n : Nat) (d : Array Block) (h : ¬ c * n ≤ d.size) : Flat.new c n d = none := by
  unfold Flat.new
  rw [if_neg h]

/-- under the invariant, `as_ref_mut` (`ShardsRefMut::new` on the whole vector) is the identity -/
theorem new_self (f : Flat) (hwf : f.WF) : Flat.new f.count f.len64 f.data = some f := by
  rw [new_some _ _ _ (by rw [hwf]; exact Nat.le_refl _), ← hwf, Array.extract_size]

/-- `split_at_mut(mid)` returns the shards `0 .. mid` and `mid ..` -/
theorem splitAt_eq (f : Flat) (hwf : f.WF) (mid : Nat) (hm : mid ≤ f.count) :
    f.splitAt mid =
      some (⟨mid, f.len64, f.data.extract 0 (mid * f.len64)⟩,
            ⟨f.count - mid, f.len64, f.data.extract (mid * f.len64) (f.count * f.len64)⟩) := by
  have h1 : mid * f.len64 ≤ f.data.size := by rw [hwf]; exact Nat.mul_le_mul_right _ hm
  have h2 : mid * f.len64 + (f.count - mid) * f.len64 = f.count * f.len64 := by
    rw [← Nat.add_mul]; congr 1; omega
  unfold splitAt
  rw [splitAtMut_some h1, Option.bind_some]
  simp only []
  rw [new_some _ _ _ (by rw [extract_size_of_le _ h1]; omega), Option.bind_some, if_pos hm,
    new_some _ _ _ (by rw [extract_size_of_le _ (Nat.le_refl _), hwf]; omega), Option.bind_some,
    extract_extract_of_le _ (by omega), extract_extract_of_le _ (by rw [hwf]; omega),
    Nat.add_zero, Nat.add_zero, Nat.zero_add, h2]

/-- `split_at_mut(mid)` does not panic iff `mid ≤ shard_count` (for `shard_len_64 > 0`; with
    `shard_len_64 = 0` and `mid > shard_count` the subtraction `shard_count - mid` underflows) -/
theorem splitAt_some_iff (f : Flat) (hwf : f.WF) (hn : 0 < f.len64) (mid : Nat) :
    f.splitAt mid ≠ none ↔ mid ≤ f.count := by
  constructor
  · intro h
    apply Classical.byContradiction
    intro hm
    apply h
    have h1 : ¬ mid * f.len64 ≤ f.data.size := by
      rw [hwf, Nat.mul_le_mul_right_iff hn]; exact hm
    unfold splitAt
    rw [splitAtMut_none h1]
    rfl
  · intro hm
    rw [splitAt_eq f hwf mid hm]
    simp

/-- both halves satisfy the invariant, and their shards are the shards `0 .. mid` and `mid ..` -/
theorem splitAt_abs (f : Flat) (hwf : f.WF) (mid : Nat) (hm : mid ≤ f.count) :
    ∃ l r, f.splitAt mid = some (l, r) ∧ l.WF ∧ r.WF ∧ l.len64 = f.len64 ∧ r.len64 = f.len64 ∧
      l.count = mid ∧ r.count = f.count - mid ∧
      l.abs = f.abs.extract 0 mid ∧ r.abs = f.abs.extract mid f.count := by
  have h1 : mid * f.len64 ≤ f.data.size := by rw [hwf]; exact Nat.mul_le_mul_right _ hm
  have h2 : mid * f.len64 + (f.count - mid) * f.len64 = f.count * f.len64 := by
    rw [← Nat.add_mul]; congr 1; omega
  refine ⟨_, _, splitAt_eq f hwf mid hm, ?_, ?_, rfl, rfl, rfl, rfl, ?_, ?_⟩
  · unfold WF
    simp only []
    rw [extract_size_of_le _ h1]; omega
  · unfold WF
    simp only []
    rw [extract_size_of_le _ (by rw [hwf]; exact Nat.le_refl _)]; omega
  · apply Array.ext
    · rw [abs_size, Array.size_extract, abs_size]
      show mid = min mid f.count - 0
      omega
    · intro i i1 i2
      have hi : i < mid := by rw [abs_size] at i1; exact i1
      have h3 : (i + 1) * f.len64 ≤ mid * f.len64 := Nat.mul_le_mul_right _ hi
      rw [abs_getElem, Array.getElem_extract, abs_getElem]
      simp only []
      rw [extract_extract_of_le _ (by omega)]
      simp only [Nat.zero_add]
  · apply Array.ext
    · rw [abs_size, Array.size_extract, abs_size]
      show f.count - mid = min f.count f.count - mid
      omega
    · intro i i1 i2
      have hi : i < f.count - mid := by rw [abs_size] at i1; exact i1
      have h3 : (mid + (i + 1)) * f.len64 ≤ f.count * f.len64 := Nat.mul_le_mul_right _ (by omega)
      rw [Nat.add_mul] at h3
      have e1 : (mid + i) * f.len64 = mid * f.len64 + i * f.len64 := Nat.add_mul _ _ _
      have e2 : (mid + i + 1) * f.len64 = mid * f.len64 + (i + 1) * f.len64 := by
        rw [Nat.add_assoc, Nat.add_mul]
      rw [abs_getElem, Array.getElem_extract, abs_getElem]
      simp only []
      rw [extract_extract_of_le _ h3, e1, e2]

/-! ### `Shards::resize`: where stale bytes come from -/

theorem resize_wf (f : Flat) (c n : Nat) : (f.resize c n).WF := vecResize_size _ _

/-- `Vec::resize` keeps the old block `j` wherever there was one (whatever shard it belonged to
    under the old `shard_len_64`); only blocks beyond the old length are zeroed -/
theorem resize_data_getD (f : Flat) (c n j : Nat) :
    (f.resize c n).data.getD j zeroBlock =
      if j < c * n then f.data.getD j zeroBlock else zeroBlock :=
  vecResize_getD _ _ _

/-- block `k` of shard `p` after `resize(c, n)` is the OLD block `p * n + k` of the flat vector if it
    existed (stale), and zero otherwise -/
theorem resize_abs_prefix (f : Flat) (c n p k : Nat) (hp : p < c) (hk : k < n) :
    (rd ((f.resize c n).absAt n) p)[k] =
      if p * n + k < f.data.size then f.data.getD (p * n + k) zeroBlock else zeroBlock := by
  rw [absAt_rd n _ (resize_wf f c n) _ _ hk, resize_data_getD, if_pos (fl_idx_lt hp hk)]
  by_cases h : p * n + k < f.data.size
  · rw [if_pos h]
  · rw [if_neg h, arr_getD_ge _ _ h]

/-- resizing with the same `shard_len_64`: every old shard that is kept is kept verbatim, new shards
    are zero -/
theorem resize_same_len (f : Flat) (hwf : f.WF) (c : Nat) :
    (f.resize c f.len64).absAt f.len64 = Array.ofFn (n := c) fun p => rd f.absV p.val := by
  apply absAt_eq_ofFn f.len64 (f.resize c f.len64) (fun p => rd f.absV p)
  intro p hp k hk
  have hp : p < c := hp
  rw [resize_data_getD, if_pos (fl_idx_lt hp hk)]
  unfold absV
  rw [absAt_rd _ f hwf _ _ hk]

/-! ### the butterfly step -/

/-- the views of `dist2_mut(pos, dist)` are positions `pos` and `pos + dist` of the
    position-level array -/
theorem dist2_views (f : Flat) (hwf : f.WF) (hn : 0 < f.len64) (pos dist : Nat)
    (hd : 0 < dist) (hp : pos + dist < f.count) :
    f.dist2 pos dist = some ((rd f.absV pos).toArray, (rd f.absV (pos + dist)).toArray) := by
  rw [dist2_eq f hwf hn pos dist hd hp, fl_rd_lt _ _ (by rw [absV_size]; omega),
    fl_rd_lt _ _ (by rw [absV_size]; exact hp), absV_getElem_toArray f hwf pos (by omega),
    absV_getElem_toArray f hwf (pos + dist) hp]

/-- The step every engine butterfly performs: take the views of `dist2_mut(pos, dist)`, compute new
    contents `g` of the two shards, write them back.  Through the abstraction this updates positions
    `pos` and `pos + dist` of the position-level array with `g` and leaves ALL other positions
    unchanged. -/
theorem butterfly_refines (f : Flat) (hwf : f.WF) (hn : 0 < f.len64) (pos dist : Nat)
    (hd : 0 < dist) (hp : pos + dist < f.count)
    (g : BVec f.len64 × BVec f.len64 → BVec f.len64 × BVec f.len64) :
    ∃ a b : Array Block, f.dist2 pos dist = some (a, b) ∧
      toBVec f.len64 a = rd f.absV pos ∧ toBVec f.len64 b = rd f.absV (pos + dist) ∧
      (f.putDist2 pos dist (g (toBVec f.len64 a, toBVec f.len64 b)).1.toArray
          (g (toBVec f.len64 a, toBVec f.len64 b)).2.toArray).WF ∧
      (f.putDist2 pos dist (g (toBVec f.len64 a, toBVec f.len64 b)).1.toArray
          (g (toBVec f.len64 a, toBVec f.len64 b)).2.toArray).absAt f.len64
        = (f.absV.setIfInBounds pos (g (rd f.absV pos, rd f.absV (pos + dist))).1).setIfInBounds
            (pos + dist) (g (rd f.absV pos, rd f.absV (pos + dist))).2 := by
  refine ⟨_, _, dist2_views f hwf hn pos dist hd hp, toBVec_toArray _, toBVec_toArray _,
    putDist2_wf _ hwf _ _ _ _, ?_⟩
  rw [putDist2_absV f hwf pos dist _ _ (Vector.size_toArray _) (Vector.size_toArray _),
    toBVec_toArray, toBVec_toArray, toBVec_toArray, toBVec_toArray]

/-- position-level `fftBfly` of Model/EngineSeq.lean at two distinct in-range positions -/
theorem fl_fftBfly_eq {V : Type} [ShardAlg V] (c : Sym) (A : Array V) (x y : Nat) (hxy : x ≠ y)
    (hx : x < A.size) :
    RS.fftBfly c A x y =
      (A.setIfInBounds x (ShardAlg.add (rd A x) (ShardAlg.smul c (rd A y)))).setIfInBounds y
        (ShardAlg.add (rd A y) (ShardAlg.add (rd A x) (ShardAlg.smul c (rd A y)))) := by
  unfold RS.fftBfly
  simp only []
  rw [fl_rd_setIfInBounds, fl_rd_setIfInBounds, if_neg (fun h => hxy h.1), if_pos ⟨rfl, hx⟩]

theorem fl_ifftBfly_eq {V : Type} [ShardAlg V] (c : Sym) (A : Array V) (x y : Nat) (hxy : x ≠ y)
    (hy : y < A.size) :
    RS.ifftBfly c A x y =
      (A.setIfInBounds y (ShardAlg.add (rd A y) (rd A x))).setIfInBounds x
        (ShardAlg.add (rd A x) (ShardAlg.smul c (ShardAlg.add (rd A y) (rd A x)))) := by
  unfold RS.ifftBfly
  simp only []
  rw [fl_rd_setIfInBounds, fl_rd_setIfInBounds, if_neg (fun h => hxy h.1.symm), if_pos ⟨rfl, hy⟩]

/-- the fft butterfly on the flat memory (`dist2_mut`, `mul_add(a, b, log_m)`, `xor(b, a)` on the
    64-byte blocks) is `fftBfly` of Model/EngineSeq.lean on the position-level array of block
    shards -/
theorem fftBfly_refines (c : Sym) (f : Flat) (hwf : f.WF) (hn : 0 < f.len64) (pos dist : Nat)
    (hd : 0 < dist) (hp : pos + dist < f.count) :
    ∃ f', f.fftBfly c pos dist = some f' ∧ f'.count = f.count ∧ f'.len64 = f.len64 ∧ f'.WF ∧
      f'.absAt f.len64 = RS.fftBfly c f.absV pos (pos + dist) := by
  have hx : pos < f.absV.size := by rw [absV_size]; omega
  refine ⟨f.putDist2 pos dist
      (ShardAlg.add (rd f.absV pos) (ShardAlg.smul c (rd f.absV (pos + dist)))).toArray
      (ShardAlg.add (rd f.absV (pos + dist))
        (ShardAlg.add (rd f.absV pos) (ShardAlg.smul c (rd f.absV (pos + dist))))).toArray,
    ?_, rfl, rfl, putDist2_wf _ hwf _ _ _ _, ?_⟩
  · unfold Flat.fftBfly
    rw [dist2_views f hwf hn pos dist hd hp, Option.bind_some]
    simp only []
    rw [← bvec_smul_toArray, ← bvec_add_toArray, ← bvec_add_toArray]
  · rw [putDist2_absV f hwf pos dist _ _ (Vector.size_toArray _) (Vector.size_toArray _),
      toBVec_toArray, toBVec_toArray, fl_fftBfly_eq c f.absV pos (pos + dist) (by omega) hx]

/-- the ifft butterfly on the flat memory (`xor(b, a)`, `mul_add(a, b, log_m)`) is `ifftBfly` of
    Model/EngineSeq.lean -/
theorem ifftBfly_refines (c : Sym) (f : Flat) (hwf : f.WF) (hn : 0 < f.len64) (pos dist : Nat)
    (hd : 0 < dist) (hp : pos + dist < f.count) :
    ∃ f', f.ifftBfly c pos dist = some f' ∧ f'.count = f.count ∧ f'.len64 = f.len64 ∧ f'.WF ∧
      f'.absAt f.len64 = RS.ifftBfly c f.absV pos (pos + dist) := by
  have hy : pos + dist < f.absV.size := by rw [absV_size]; exact hp
  refine ⟨f.putDist2 pos dist
      (ShardAlg.add (rd f.absV pos)
        (ShardAlg.smul c (ShardAlg.add (rd f.absV (pos + dist)) (rd f.absV pos)))).toArray
      (ShardAlg.add (rd f.absV (pos + dist)) (rd f.absV pos)).toArray,
    ?_, rfl, rfl, putDist2_wf _ hwf _ _ _ _, ?_⟩
  · unfold Flat.ifftBfly
    rw [dist2_views f hwf hn pos dist hd hp, Option.bind_some]
    simp only []
    rw [← bvec_add_toArray, ← bvec_smul_toArray, ← bvec_add_toArray]
  · rw [putDist2_absV f hwf pos dist _ _ (Vector.size_toArray _) (Vector.size_toArray _),
      toBVec_toArray, toBVec_toArray, fl_ifftBfly_eq c f.absV pos (pos + dist) (by omega) hy]
    exact Array.setIfInBounds_comm _ _ (by omega)

end Flat

namespace Flat

/-- the views of `dist4_mut(pos, dist)` are positions `pos`, `pos + dist`, `pos + 2 dist`,
    `pos + 3 dist` of the position-level array -/
theorem dist4_views (f : Flat) (hwf : f.WF) (hn : 0 < f.len64) (pos dist : Nat)
    (hd : 0 < dist) (hp : pos + 3 * dist < f.count) :
    f.dist4 pos dist =
      some ((rd f.absV pos).toArray, (rd f.absV (pos + dist)).toArray,
            (rd f.absV (pos + 2 * dist)).toArray, (rd f.absV (pos + 3 * dist)).toArray) := by
  rw [dist4_eq f hwf hn pos dist hd hp, fl_rd_lt _ _ (by rw [absV_size]; omega),
    fl_rd_lt _ _ (by rw [absV_size]; omega), fl_rd_lt _ _ (by rw [absV_size]; omega),
    fl_rd_lt _ _ (by rw [absV_size]; exact hp), absV_getElem_toArray f hwf pos (by omega),
    absV_getElem_toArray f hwf (pos + dist) (by omega),
    absV_getElem_toArray f hwf (pos + 2 * dist) (by omega),
    absV_getElem_toArray f hwf (pos + 3 * dist) hp]

/-- the two-layer butterfly step: take the views of `dist4_mut(pos, dist)`, compute new contents of
    the four shards, write them back: exactly the four positions change -/
theorem butterfly4_refines (f : Flat) (hwf : f.WF) (hn : 0 < f.len64) (pos dist : Nat)
    (hd : 0 < dist) (hp : pos + 3 * dist < f.count) (a b c d : BVec f.len64) :
    f.dist4 pos dist =
      some ((rd f.absV pos).toArray, (rd f.absV (pos + dist)).toArray,
            (rd f.absV (pos + 2 * dist)).toArray, (rd f.absV (pos + 3 * dist)).toArray) ∧
    (f.putDist4 pos dist a.toArray b.toArray c.toArray d.toArray).WF ∧
    (f.putDist4 pos dist a.toArray b.toArray c.toArray d.toArray).absAt f.len64 =
      (((f.absV.setIfInBounds pos a).setIfInBounds (pos + dist) b).setIfInBounds (pos + 2 * dist) c
        ).setIfInBounds (pos + 3 * dist) d := by
  refine ⟨dist4_views f hwf hn pos dist hd hp, putDist4_wf _ hwf _ _ _ _ _ _, ?_⟩
  rw [putDist4_absV f hwf pos dist _ _ _ _ (Vector.size_toArray _) (Vector.size_toArray _)
    (Vector.size_toArray _) (Vector.size_toArray _),
    toBVec_toArray, toBVec_toArray, toBVec_toArray, toBVec_toArray]

end Flat

/-! ## Part A, corollaries: the codec on block memory, read lane-wise, is the lane model -/

theorem encodeHigh_blocks (n : Nat) (s : Sched) (k r : Nat) (mem : Array (BVec n)) :
    (encodeHigh s k r mem).map (bvecLanes n) = encodeHigh s k r (mem.map (bvecLanes n)) :=
  (encodeHigh_map (ShardHom.blockLanes n) s k r mem).symm

theorem encodeLow_blocks (n : Nat) (s : Sched) (k r : Nat) (mem : Array (BVec n)) :
    (encodeLow s k r mem).map (bvecLanes n) = encodeLow s k r (mem.map (bvecLanes n)) :=
  (encodeLow_map (ShardHom.blockLanes n) s k r mem).symm

theorem decodeHigh_blocks (n : Nat) (s : Sched) (lw : Array Nat) (k r : Nat) (recv : Nat → Bool)
    (mem : Array (BVec n)) :
    (decodeHigh s lw k r recv mem).map (bvecLanes n)
      = decodeHigh s lw k r recv (mem.map (bvecLanes n)) :=
  (decodeHigh_map (ShardHom.blockLanes n) s lw k r recv mem).symm

theorem decodeLow_blocks (n : Nat) (s : Sched) (lw : Array Nat) (k r : Nat) (recv : Nat → Bool)
    (mem : Array (BVec n)) :
    (decodeLow s lw k r recv mem).map (bvecLanes n)
      = decodeLow s lw k r recv (mem.map (bvecLanes n)) :=
  (decodeLow_map (ShardHom.blockLanes n) s lw k r recv mem).symm

/-- down to single symbols: symbol `l` of every shard of the encoder's block memory is the symbol
    model run on symbol `l` of every input shard -/
theorem encodeHigh_block_sym (n : Nat) (l : Fin (32 * n)) (s : Sched) (k r : Nat)
    (mem : Array (BVec n)) :
    (encodeHigh s k r mem).map (fun x => bLane x.toArray l.val)
      = encodeHigh s k r (mem.map (fun x => bLane x.toArray l.val)) := by
  have h := encodeHigh_lane l s k r (mem.map (bvecLanes n))
  rw [← encodeHigh_blocks, Array.map_map, Array.map_map] at h
  have e : ((fun v : Vector Sym (32 * n) => v[l]) ∘ bvecLanes n)
      = fun x => bLane x.toArray l.val := by
    funext x
    exact bvecLanes_getElem n x l.val l.isLt
  rw [e] at h
  exact h

theorem decodeHigh_block_sym (n : Nat) (l : Fin (32 * n)) (s : Sched) (lw : Array Nat) (k r : Nat)
    (recv : Nat → Bool) (mem : Array (BVec n)) :
    (decodeHigh s lw k r recv mem).map (fun x => bLane x.toArray l.val)
      = decodeHigh s lw k r recv (mem.map (fun x => bLane x.toArray l.val)) := by
  have h := decodeHigh_lane l s lw k r recv (mem.map (bvecLanes n))
  rw [← decodeHigh_blocks, Array.map_map, Array.map_map] at h
  have e : ((fun v : Vector Sym (32 * n) => v[l]) ∘ bvecLanes n)
      = fun x => bLane x.toArray l.val := by
    funext x
    exact bvecLanes_getElem n x l.val l.isLt
  rw [e] at h
  exact h

end RS

#print axioms RS.ShardHom.blockLanes
#print axioms RS.encodeHigh_blocks
#print axioms RS.encodeLow_blocks
#print axioms RS.decodeHigh_blocks
#print axioms RS.decodeLow_blocks
#print axioms RS.encodeHigh_block_sym
#print axioms RS.decodeHigh_block_sym
#print axioms RS.Flat.abs_eq_map
#print axioms RS.Flat.shard_some_iff
#print axioms RS.Flat.shard_eq
#print axioms RS.Flat.dist2_raw
#print axioms RS.Flat.dist2_some_iff
#print axioms RS.Flat.dist2_eq
#print axioms RS.Flat.dist4_raw
#print axioms RS.Flat.dist4_some_iff
#print axioms RS.Flat.dist4_eq
#print axioms RS.Flat.setShard_abs
#print axioms RS.Flat.putDist2_abs
#print axioms RS.Flat.putDist2_absV
#print axioms RS.Flat.putDist4_abs
#print axioms RS.Flat.putDist4_absV
#print axioms RS.Flat.zero_some_iff
#print axioms RS.Flat.zero_spec
#print axioms RS.Flat.zero_refines
#print axioms RS.Flat.zero_abs
#print axioms RS.Flat.copyWithin_some_iff
#print axioms RS.Flat.copyWithin_spec
#print axioms RS.Flat.copyWithin_abs
#print axioms RS.Flat.copyWithin_refines
#print axioms RS.Flat.flat2_raw
#print axioms RS.Flat.flat2_some_iff
#print axioms RS.Flat.flat2_overlap_none
#print axioms RS.Flat.flat2_eq
#print axioms RS.Flat.flat2_view_getD
#print axioms RS.Flat.xorWithin_refines
#print axioms RS.Flat.splitAt_some_iff
#print axioms RS.Flat.splitAt_eq
#print axioms RS.Flat.splitAt_abs
#print axioms RS.Flat.resize_wf
#print axioms RS.Flat.resize_data_getD
#print axioms RS.Flat.resize_abs_prefix
#print axioms RS.Flat.resize_same_len
#print axioms RS.Flat.butterfly_refines
#print axioms RS.Flat.butterfly4_refines
#print axioms RS.Flat.fftBfly_refines
#print axioms RS.Flat.ifftBfly_refines
