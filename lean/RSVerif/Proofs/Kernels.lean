/-
  The multiply kernels of `Model/Kernels.lean` compute the field product.

  * `mulNibble_eq`, `mulShuffle_eq` : for every XOR-additive `mulf`, the nibble-table kernel
    (NoSimd) and the byte-shuffle kernel (Ssse3 / Avx2 / Neon) return `mulf x` for all `x`.
  * `mul_kernels_agree` : hence both equal `gmul (gexp m) x` for all `m`, `x` (all 2^32 pairs,
    by additivity of `gmul`, no enumeration).
  * `mulExpLog_spec` : `tables::mul` (Naive) equals `gmul x (exp m)` under the table contract.
  Core Lean only.
-/
import RSVerif.Proofs.FieldLaws
import RSVerif.Model.Kernels

namespace RS

/-! ### a symbol is the xor of its four nibbles -/

/-- bit `i` of `n` is found in exactly one of the four (shifted) nibbles of `n` -/
theorem nibble_testBit (n i : Nat) :
    ((n % 2^8 % 2^4 * 2 ^ 0).testBit i ^^
     (n % 2^8 / 2^4 * 2 ^ 4).testBit i ^^
     (n / 2^8 % 2^4 * 2 ^ 8).testBit i ^^
     (n / 2^8 / 2^4 * 2 ^ 12).testBit i) = n.testBit i := by
  simp only [Nat.testBit_mul_two_pow, Nat.testBit_div_two_pow, Nat.testBit_mod_two_pow]
  have e0 : i - 0 = i := rfl
  by_cases h4 : 4 ≤ i
  · have e4 : i - 4 + 4 = i := by omega
    by_cases h8 : 8 ≤ i
    · have e8 : i - 8 + 8 = i := by omega
      by_cases h12 : 12 ≤ i
      · have e12 : i - 12 + 4 + 8 = i := by omega
        have a1 : ¬ i < 4 := by omega
        have a2 : ¬ i < 8 := by omega
        have a3 : ¬ i - 8 < 4 := by omega
        simp [e0, e4, e8, e12, h4, h8, h12, a1, a2, a3]
      · have a1 : ¬ i < 4 := by omega
        have a2 : ¬ i < 8 := by omega
        have a3 : i - 8 < 4 := by omega
        simp [e0, e4, e8, h4, h8, h12, a1, a2, a3]
    · have a1 : ¬ i < 4 := by omega
      have a2 : i < 8 := by omega
      have a3 : ¬ 12 ≤ i := by omega
      simp [e0, e4, h4, h8, a1, a2, a3]
  · have a1 : i < 4 := by omega
    have a2 : i < 8 := by omega
    have a3 : ¬ 12 ≤ i := by omega
    have a4 : ¬ 8 ≤ i := by omega
    simp [e0, h4, a1, a2, a3, a4]

/-- `x = n0 ⊕ (n1 << 4) ⊕ (n2 << 8) ⊕ (n3 << 12)` with the nibbles taken as the kernels take
    them (`lo = x % 256`, `hi = x / 256`, `lo & 15`, `lo >> 4`, `hi & 15`, `hi >> 4`). -/
theorem nibble_decomp (x : Sym) :
    BitVec.ofNat 16 (x.toNat % 256 % 16 * 2 ^ (4 * 0)) ^^^
    BitVec.ofNat 16 (x.toNat % 256 / 16 * 2 ^ (4 * 1)) ^^^
    BitVec.ofNat 16 (x.toNat / 256 % 16 * 2 ^ (4 * 2)) ^^^
    BitVec.ofNat 16 (x.toNat / 256 / 16 * 2 ^ (4 * 3)) = x := by
  apply BitVec.eq_of_getLsbD_eq
  intro i hi
  simp only [BitVec.getLsbD_xor, BitVec.getLsbD_ofNat, hi, decide_true, Bool.true_and]
  exact nibble_testBit x.toNat i

/-- the same, in the form quoted in the task: the four parts are `lo%16`, `(lo/16)*16`,
    `(hi%16)*256`, `(hi/16)*4096`. -/
theorem nibble_decomp' (x : Sym) :
    BitVec.ofNat 16 (x.toNat % 256 % 16) ^^^
    BitVec.ofNat 16 (x.toNat % 256 / 16 * 16) ^^^
    BitVec.ofNat 16 (x.toNat / 256 % 16 * 256) ^^^
    BitVec.ofNat 16 (x.toNat / 256 / 16 * 4096) = x := by
  have h := nibble_decomp x
  simpa using h

/-! ### masks -/

theorem and_xor_right (a b m : Sym) : (a ^^^ b) &&& m = (a &&& m) ^^^ (b &&& m) := by
  apply BitVec.eq_of_getLsbD_eq
  intro i _
  simp only [BitVec.getLsbD_and, BitVec.getLsbD_xor, Bool.and_xor_distrib_right]

theorem loByte_xor (a b : Sym) : loByte (a ^^^ b) = loByte a ^^^ loByte b := and_xor_right a b _
theorem hiByte_xor (a b : Sym) : hiByte (a ^^^ b) = hiByte a ^^^ hiByte b := and_xor_right a b _

/-- recombining the low and the high byte -/
theorem loByte_or_hiByte (a : Sym) : loByte a ||| hiByte a = a := by
  unfold loByte hiByte
  rw [← BitVec.and_or_distrib_left]
  have : (0x00FF#16 ||| 0xFF00#16 : Sym) = BitVec.allOnes 16 := by decide
  rw [this, BitVec.and_allOnes]

/-! ### the table kernels -/

/-- NoSimd kernel (`Mul16`, four 16-entry nibble tables) = the map the tables were filled from,
    for every XOR-additive map. -/
theorem mulNibble_eq (mulf : Sym → Sym) (hadd : ∀ a b, mulf (a ^^^ b) = mulf a ^^^ mulf b)
    (x : Sym) : mulNibble mulf x = mulf x := by
  show mulf (BitVec.ofNat 16 (x.toNat % 256 % 16 * 2 ^ (4 * 0))) ^^^
       mulf (BitVec.ofNat 16 (x.toNat % 256 / 16 * 2 ^ (4 * 1))) ^^^
       mulf (BitVec.ofNat 16 (x.toNat / 256 % 16 * 2 ^ (4 * 2))) ^^^
       mulf (BitVec.ofNat 16 (x.toNat / 256 / 16 * 2 ^ (4 * 3))) = mulf x
  rw [← hadd, ← hadd, ← hadd, nibble_decomp]

/-- SIMD byte-shuffle kernel (`Mul128`, low / high product bytes looked up separately)
    = the map the tables were filled from, for every XOR-additive map. -/
theorem mulShuffle_eq (mulf : Sym → Sym) (hadd : ∀ a b, mulf (a ^^^ b) = mulf a ^^^ mulf b)
    (x : Sym) : mulShuffle mulf x = mulf x := by
  have h := mulNibble_eq mulf hadd x
  unfold mulNibble at h
  unfold mulShuffle
  simp only [← loByte_xor, ← hiByte_xor] at h ⊢
  rw [loByte_or_hiByte]
  exact h

/-- an XOR-additive map sends 0 to 0 (so the tables' entry 0 is 0) -/
theorem additive_map_zero (mulf : Sym → Sym) (hadd : ∀ a b, mulf (a ^^^ b) = mulf a ^^^ mulf b) :
    mulf 0#16 = 0#16 :=
  IsLin.map_zero (f := mulf) hadd

/-- the two table kernels agree with each other for every additive map -/
theorem mulNibble_eq_mulShuffle (mulf : Sym → Sym)
    (hadd : ∀ a b, mulf (a ^^^ b) = mulf a ^^^ mulf b) (x : Sym) :
    mulNibble mulf x = mulShuffle mulf x := by
  rw [mulNibble_eq mulf hadd, mulShuffle_eq mulf hadd]

/-- All engines multiply alike: for every `log_m` and every symbol, the NoSimd and the SIMD
    kernel built from `y ↦ g^m ⊗ y` return `g^m ⊗ x` (all 2^32 pairs, no enumeration). -/
theorem mul_kernels_agree (m : Nat) (x : Sym) :
    mulNibble (fun y => gmul (gexp m) y) x = gmul (gexp m) x ∧
    mulShuffle (fun y => gmul (gexp m) y) x = gmul (gexp m) x :=
  ⟨mulNibble_eq (fun y => gmul (gexp m) y) (fun a b => gmul_xor_right (gexp m) a b) x,
   mulShuffle_eq (fun y => gmul (gexp m) y) (fun a b => gmul_xor_right (gexp m) a b) x⟩

/-- the same against `Engine::mul` of the model (`mulLog` on a single symbol) -/
theorem mul_kernels_eq_mulLog (m : Nat) (x : Sym) :
    mulNibble (fun y => mulLog y m) x = mulLog x m ∧
    mulShuffle (fun y => mulLog y m) x = mulLog x m :=
  mul_kernels_agree m x

/-! ### the exp/log kernel -/

/-- `tables::mul(x, log_m)` (Naive) is the field product `x ⊗ exp[log_m]`, for any pair of
    tables satisfying the table contract. -/
theorem mulExpLog_spec (exp : Nat → Sym) (log : Sym → Nat)
    (hc : (∀ x, x ≠ 0 → exp (log x) = x) ∧
          (∀ a b, a ≤ 65535 → b ≤ 65535 → exp (addMod a b) = gmul (exp a) (exp b)) ∧
          (∀ x, log x ≤ 65535))
    (x : Sym) (m : Nat) (hm : m ≤ 65535) :
    mulExpLog exp log x m = gmul x (exp m) := by
  obtain ⟨hel, hadd, hlog⟩ := hc
  unfold mulExpLog
  by_cases hx : x = 0#16
  · rw [if_pos hx, hx]
    exact (gmul_zero_left (exp m)).symm
  · rw [if_neg hx, hadd _ _ (hlog x) hm, hel x hx]

/-- with `exp = gexp`: the Naive kernel agrees with the table kernels
    (`gmul` is commutative). -/
theorem mulExpLog_gexp (log : Sym → Nat)
    (hc : (∀ x, x ≠ 0 → gexp (log x) = x) ∧
          (∀ a b, a ≤ 65535 → b ≤ 65535 → gexp (addMod a b) = gmul (gexp a) (gexp b)) ∧
          (∀ x, log x ≤ 65535))
    (x : Sym) (m : Nat) (hm : m ≤ 65535) :
    mulExpLog gexp log x m = mulNibble (fun y => gmul (gexp m) y) x ∧
    mulExpLog gexp log x m = mulShuffle (fun y => gmul (gexp m) y) x := by
  have h := mulExpLog_spec gexp log hc x m hm
  have k := mul_kernels_agree m x
  rw [gmul_comm] at h
  exact ⟨h.trans k.1.symm, h.trans k.2.symm⟩

end RS

#print axioms RS.mulNibble_eq
#print axioms RS.mulShuffle_eq
#print axioms RS.mul_kernels_agree
#print axioms RS.mulExpLog_spec
#print axioms RS.mulExpLog_gexp
