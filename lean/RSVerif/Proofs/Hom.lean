/-
  The homomorphism theorem: every engine and codec operation commutes with mapping a
  `ShardHom` over the work memory.  Consequences: linearity of the encoders (additivity and
  scalar multiplication) and lane-wise independence.
-/
import RSVerif.Model.Codec
import RSVerif.Proofs.Laws

namespace RS
open ShardAlg

section Hom

variable {V W : Type} [ShardAlg V] [ShardAlg W]

/-! ### generic fold lemma -/

/-- folding a step that commutes with `F` commutes with `F` -/
theorem foldl_comm {α β γ : Type} (F : β → γ) (g : β → α → β) (g' : γ → α → γ)
    (hg : ∀ b x, g' (F b) x = F (g b x)) (l : List α) (b : β) :
    l.foldl g' (F b) = F (l.foldl g b) := by
  induction l generalizing b with
  | nil => rfl
  | cons x xs ih => simp only [List.foldl_cons, hg, ih]

/-! ### engine primitives -/

theorem rd_map (h : ShardHom V W) (a : Array V) (i : Nat) :
    rd (a.map h.f) i = h.f (rd a i) := by
  unfold rd
  by_cases hi : i < a.size
  · simp [Array.getD, hi]
  · simp [Array.getD, hi, h.map_zero]

theorem setIfInBounds_map (h : ShardHom V W) (a : Array V) (i : Nat) (v : V) :
    (a.map h.f).setIfInBounds i (h.f v) = (a.setIfInBounds i v).map h.f := by
  simp [Array.map_setIfInBounds]

theorem fftLayer_map (h : ShardHom V W) (delta : Nat) (proc : Nat → Bool) (d pos size : Nat)
    (a : Array V) :
    fftLayer delta proc d pos size (a.map h.f) = (fftLayer delta proc d pos size a).map h.f := by
  apply Array.ext
  · simp [fftLayer]
  · intro p hp1 hp2
    simp only [fftLayer, Array.getElem_ofFn, Array.getElem_map, rd_map]
    split
    · split
      · split
        · rw [h.map_add, h.map_smul]
        · rw [h.map_add, h.map_add, h.map_smul]
      · rfl
    · rfl

theorem ifftLayer_map (h : ShardHom V W) (delta : Nat) (proc : Nat → Bool) (d pos size : Nat)
    (a : Array V) :
    ifftLayer delta proc d pos size (a.map h.f) = (ifftLayer delta proc d pos size a).map h.f := by
  apply Array.ext
  · simp [ifftLayer]
  · intro p hp1 hp2
    simp only [ifftLayer, Array.getElem_ofFn, Array.getElem_map, rd_map]
    split
    · split
      · split
        · rw [h.map_add, h.map_smul, h.map_add]
        · rw [h.map_add]
      · rfl
    · rfl

theorem runFftPlan_map (h : ShardHom V W) (delta pos size : Nat) (plan : List Layer)
    (a : Array V) :
    runFftPlan delta pos size plan (a.map h.f) = (runFftPlan delta pos size plan a).map h.f := by
  unfold runFftPlan
  exact foldl_comm (fun a : Array V => a.map h.f) _ _
    (fun b l => fftLayer_map h delta l.2 l.1 pos size b) plan a

theorem runIfftPlan_map (h : ShardHom V W) (delta pos size : Nat) (plan : List Layer)
    (a : Array V) :
    runIfftPlan delta pos size plan (a.map h.f) = (runIfftPlan delta pos size plan a).map h.f := by
  unfold runIfftPlan
  exact foldl_comm (fun a : Array V => a.map h.f) _ _
    (fun b l => ifftLayer_map h delta l.2 l.1 pos size b) plan a

theorem fft_map (h : ShardHom V W) (s : Sched) (a : Array V) (pos size trunc delta : Nat) :
    fft s (a.map h.f) pos size trunc delta = (fft s a pos size trunc delta).map h.f := by
  unfold fft
  exact runFftPlan_map h _ _ _ _ a

theorem ifft_map (h : ShardHom V W) (s : Sched) (a : Array V) (pos size trunc delta : Nat) :
    ifft s (a.map h.f) pos size trunc delta = (ifft s a pos size trunc delta).map h.f := by
  unfold ifft
  exact runIfftPlan_map h _ _ _ _ a

theorem zeroRange_map (h : ShardHom V W) (a : Array V) (lo hi : Nat) :
    zeroRange (a.map h.f) lo hi = (zeroRange a lo hi).map h.f := by
  apply Array.ext
  · simp [zeroRange]
  · intro p hp1 hp2
    simp only [zeroRange, Array.getElem_ofFn, Array.getElem_map, rd_map]
    split
    · rw [h.map_zero]
    · rfl

theorem xorWithin_map (h : ShardHom V W) (a : Array V) (x y count : Nat) :
    xorWithin (a.map h.f) x y count = (xorWithin a x y count).map h.f := by
  unfold xorWithin
  refine foldl_comm (fun a : Array V => a.map h.f) _ _ ?_ _ a
  intro b i
  simp only [rd_map, ← h.map_add, setIfInBounds_map]

theorem copyWithin_map (h : ShardHom V W) (a : Array V) (src dest count : Nat) :
    copyWithin (a.map h.f) src dest count = (copyWithin a src dest count).map h.f := by
  unfold copyWithin
  refine foldl_comm (fun a : Array V => a.map h.f) _ _ ?_ _ a
  intro b i
  simp only [rd_map, setIfInBounds_map]

theorem formalDerivative_map (h : ShardHom V W) (a : Array V) :
    formalDerivative (a.map h.f) = (formalDerivative a).map h.f := by
  unfold formalDerivative
  rw [Array.size_map]
  refine foldl_comm (fun a : Array V => a.map h.f) _ _ ?_ _ a
  intro b k
  exact xorWithin_map h b _ _ _

theorem mulLog_map (h : ShardHom V W) (v : V) (m : Nat) :
    mulLog (h.f v) m = h.f (mulLog v m) := by
  unfold mulLog
  rw [h.map_smul]

/-! ### codec -/

theorem highFullChunk_map (h : ShardHom V W) (s : Sched) (chunk : Nat) (a : Array V) (c : Nat) :
    highFullChunk s chunk (a.map h.f) c = (highFullChunk s chunk a c).map h.f := by
  simp only [highFullChunk, ifft_map, xorWithin_map]

theorem encodeHigh_map (h : ShardHom V W) (s : Sched) (k r : Nat) (mem : Array V) :
    encodeHigh s k r (mem.map h.f) = (encodeHigh s k r mem).map h.f := by
  have hfold : ∀ (n : Nat) (a : Array V),
      (List.range n).foldl (fun a i => highFullChunk s (npow2 r) a (i + 1)) (a.map h.f)
        = ((List.range n).foldl (fun a i => highFullChunk s (npow2 r) a (i + 1)) a).map h.f := by
    intro n a
    exact foldl_comm (fun a : Array V => a.map h.f) _ _
      (fun b i => highFullChunk_map h s (npow2 r) b (i + 1)) _ a
  simp only [encodeHigh, zeroRange_map, ifft_map, hfold, Array.size_map, xorWithin_map]
  split
  · split
    · simp only [fft_map]
    · simp only [fft_map]
  · simp only [fft_map]

theorem encodeLow_map (h : ShardHom V W) (s : Sched) (k r : Nat) (mem : Array V) :
    encodeLow s k r (mem.map h.f) = (encodeLow s k r mem).map h.f := by
  have hcopy : ∀ (n : Nat) (a : Array V),
      (List.range n).foldl (fun a i => copyWithin a 0 ((i + 1) * npow2 k) (npow2 k)) (a.map h.f)
        = ((List.range n).foldl
            (fun a i => copyWithin a 0 ((i + 1) * npow2 k) (npow2 k)) a).map h.f := by
    intro n a
    exact foldl_comm (fun a : Array V => a.map h.f) _ _
      (fun b i => copyWithin_map h b _ _ _) _ a
  have hfft : ∀ (n : Nat) (a : Array V),
      (List.range n).foldl
          (fun a c => fft s a (c * npow2 k) (npow2 k) (npow2 k) (c * npow2 k + npow2 k))
          (a.map h.f)
        = ((List.range n).foldl
            (fun a c => fft s a (c * npow2 k) (npow2 k) (npow2 k) (c * npow2 k + npow2 k))
            a).map h.f := by
    intro n a
    exact foldl_comm (fun a : Array V => a.map h.f) _ _
      (fun b c => fft_map h s b _ _ _ _) _ a
  simp only [encodeLow, zeroRange_map, ifft_map, hcopy, hfft]
  split
  · simp only [fft_map]
  · rfl

theorem decodePrepare_map (h : ShardHom V W) (isData recv : Nat → Bool) (loc : Array Nat)
    (a : Array V) :
    decodePrepare isData recv loc (a.map h.f) = (decodePrepare isData recv loc a).map h.f := by
  apply Array.ext
  · simp [decodePrepare]
  · intro p hp1 hp2
    simp only [decodePrepare, Array.getElem_ofFn, Array.getElem_map, rd_map, mulLog_map]
    split
    · rfl
    · rw [h.map_zero]

theorem decodeReveal_map (h : ShardHom V W) (lo hi : Nat) (recv : Nat → Bool) (loc : Array Nat)
    (a : Array V) :
    decodeReveal lo hi recv loc (a.map h.f) = (decodeReveal lo hi recv loc a).map h.f := by
  apply Array.ext
  · simp [decodeReveal]
  · intro p hp1 hp2
    simp only [decodeReveal, Array.getElem_ofFn, Array.getElem_map, rd_map, mulLog_map]
    split
    · rfl
    · rfl

theorem decodeHigh_map (h : ShardHom V W) (s : Sched) (lw : Array Nat) (k r : Nat)
    (recv : Nat → Bool) (mem : Array V) :
    decodeHigh s lw k r recv (mem.map h.f) = (decodeHigh s lw k r recv mem).map h.f := by
  simp only [decodeHigh, decodePrepare_map, Array.size_map, ifft_map, formalDerivative_map,
    fft_map, decodeReveal_map]

theorem decodeLow_map (h : ShardHom V W) (s : Sched) (lw : Array Nat) (k r : Nat)
    (recv : Nat → Bool) (mem : Array V) :
    decodeLow s lw k r recv (mem.map h.f) = (decodeLow s lw k r recv mem).map h.f := by
  simp only [decodeLow, decodePrepare_map, Array.size_map, ifft_map, formalDerivative_map,
    fft_map, decodeReveal_map]

end Hom

/-! ### the homomorphisms -/

/-- projection to one lane -/
def ShardHom.lane (L : Nat) (l : Fin L) : ShardHom (Vector Sym L) Sym where
  f v := v[l]
  map_zero := by simp [ShardAlg.zero]
  map_add a b := by simp [ShardAlg.add]
  map_smul c a := by simp [ShardAlg.smul]

/-- componentwise product algebra -/
instance instShardAlgProd {V W : Type} [ShardAlg V] [ShardAlg W] : ShardAlg (V × W) where
  zero := (zero, zero)
  add p q := (add p.1 q.1, add p.2 q.2)
  smul c p := (smul c p.1, smul c p.2)

def ShardHom.fst {V W : Type} [ShardAlg V] [ShardAlg W] : ShardHom (V × W) V where
  f p := p.1
  map_zero := rfl
  map_add _ _ := rfl
  map_smul _ _ := rfl

def ShardHom.snd {V W : Type} [ShardAlg V] [ShardAlg W] : ShardHom (V × W) W where
  f p := p.2
  map_zero := rfl
  map_add _ _ := rfl
  map_smul _ _ := rfl

section Lawful

variable {V : Type} [ShardAlg V] [LawfulShardAlg V]

/-- `(x, y) ↦ x ⊕ y` -/
def ShardHom.addHom : ShardHom (V × V) V where
  f p := add p.1 p.2
  map_zero := by
    show add (zero : V) zero = zero
    exact LawfulShardAlg.add_zero _
  map_add p q := by
    show add (add p.1 q.1) (add p.2 q.2) = add (add p.1 p.2) (add q.1 q.2)
    rw [LawfulShardAlg.add_assoc, LawfulShardAlg.add_assoc,
      ← LawfulShardAlg.add_assoc q.1, ← LawfulShardAlg.add_assoc p.2,
      LawfulShardAlg.add_comm q.1 p.2]
  map_smul c p := by
    show add (smul c p.1) (smul c p.2) = smul c (add p.1 p.2)
    exact (LawfulShardAlg.smul_add _ _ _).symm

/-- `v ↦ c • v` (needs commutativity of the field multiplication) -/
def ShardHom.scale (hc : ∀ a b : Sym, gmul a b = gmul b a) (c : Sym) : ShardHom V V where
  f v := smul c v
  map_zero := LawfulShardAlg.smul_zero c
  map_add a b := LawfulShardAlg.smul_add c a b
  map_smul d a := by
    rw [LawfulShardAlg.smul_smul, LawfulShardAlg.smul_smul, hc]

end Lawful

/-! ### corollaries -/

theorem zip_map_fst {α β : Type} (a : Array α) (b : Array β) (hs : a.size = b.size) :
    (Array.zip a b).map Prod.fst = a := by
  apply Array.ext
  · simp [hs]
  · intro i h1 h2
    simp

theorem zip_map_snd {α β : Type} (a : Array α) (b : Array β) (hs : a.size = b.size) :
    (Array.zip a b).map Prod.snd = b := by
  apply Array.ext
  · simp [hs]
  · intro i h1 h2
    simp

theorem zipWith_eq_zip_map {α β γ : Type} (f : α → β → γ) (a : Array α) (b : Array β) :
    Array.zipWith f a b = (Array.zip a b).map (fun p => f p.1 p.2) := by
  apply Array.ext
  · simp
  · intro i h1 h2
    simp

theorem zipWith_map_fst_snd {α β γ : Type} (f : α → β → γ) (z : Array (α × β)) :
    Array.zipWith f (z.map Prod.fst) (z.map Prod.snd) = z.map (fun p => f p.1 p.2) := by
  apply Array.ext
  · simp
  · intro i h1 h2
    simp

section Cor

variable {V : Type} [ShardAlg V] [LawfulShardAlg V]

/-- a map-commuting operation on work memories is additive -/
theorem additive_of_map (op : {U : Type} → [ShardAlg U] → Array U → Array U)
    (hop : ∀ {U U' : Type} [ShardAlg U] [ShardAlg U'] (h : ShardHom U U') (m : Array U),
      op (m.map h.f) = (op m).map h.f)
    (a b : Array V) (hs : a.size = b.size) :
    op (Array.zipWith add a b) = Array.zipWith add (op a) (op b) := by
  have h1 := hop (ShardHom.fst (V := V) (W := V)) (Array.zip a b)
  have h2 := hop (ShardHom.snd (V := V) (W := V)) (Array.zip a b)
  have h3 := hop (ShardHom.addHom (V := V)) (Array.zip a b)
  have e1 : (Array.zip a b).map (ShardHom.fst (V := V) (W := V)).f = a := zip_map_fst a b hs
  have e2 : (Array.zip a b).map (ShardHom.snd (V := V) (W := V)).f = b := zip_map_snd a b hs
  have e3 : (Array.zip a b).map (ShardHom.addHom (V := V)).f = Array.zipWith add a b :=
    (zipWith_eq_zip_map add a b).symm
  rw [e1] at h1
  rw [e2] at h2
  rw [e3] at h3
  rw [h1, h2, h3]
  exact (zipWith_map_fst_snd add _).symm

theorem encodeHigh_add (s : Sched) (k r : Nat) (a b : Array V) (hs : a.size = b.size) :
    encodeHigh s k r (Array.zipWith add a b)
      = Array.zipWith add (encodeHigh s k r a) (encodeHigh s k r b) :=
  additive_of_map (fun {U} [ShardAlg U] m => encodeHigh s k r m)
    (fun h m => encodeHigh_map h s k r m) a b hs

theorem encodeLow_add (s : Sched) (k r : Nat) (a b : Array V) (hs : a.size = b.size) :
    encodeLow s k r (Array.zipWith add a b)
      = Array.zipWith add (encodeLow s k r a) (encodeLow s k r b) :=
  additive_of_map (fun {U} [ShardAlg U] m => encodeLow s k r m)
    (fun h m => encodeLow_map h s k r m) a b hs

theorem decodeHigh_add (s : Sched) (lw : Array Nat) (k r : Nat) (recv : Nat → Bool)
    (a b : Array V) (hs : a.size = b.size) :
    decodeHigh s lw k r recv (Array.zipWith add a b)
      = Array.zipWith add (decodeHigh s lw k r recv a) (decodeHigh s lw k r recv b) :=
  additive_of_map (fun {U} [ShardAlg U] m => decodeHigh s lw k r recv m)
    (fun h m => decodeHigh_map h s lw k r recv m) a b hs

theorem decodeLow_add (s : Sched) (lw : Array Nat) (k r : Nat) (recv : Nat → Bool)
    (a b : Array V) (hs : a.size = b.size) :
    decodeLow s lw k r recv (Array.zipWith add a b)
      = Array.zipWith add (decodeLow s lw k r recv a) (decodeLow s lw k r recv b) :=
  additive_of_map (fun {U} [ShardAlg U] m => decodeLow s lw k r recv m)
    (fun h m => decodeLow_map h s lw k r recv m) a b hs

theorem encodeHigh_smul (hc : ∀ a b : Sym, gmul a b = gmul b a) (c : Sym) (s : Sched)
    (k r : Nat) (a : Array V) :
    encodeHigh s k r (a.map (smul c)) = (encodeHigh s k r a).map (smul c) :=
  encodeHigh_map (ShardHom.scale (V := V) hc c) s k r a

theorem encodeLow_smul (hc : ∀ a b : Sym, gmul a b = gmul b a) (c : Sym) (s : Sched)
    (k r : Nat) (a : Array V) :
    encodeLow s k r (a.map (smul c)) = (encodeLow s k r a).map (smul c) :=
  encodeLow_map (ShardHom.scale (V := V) hc c) s k r a

theorem decodeHigh_smul (hc : ∀ a b : Sym, gmul a b = gmul b a) (c : Sym) (s : Sched)
    (lw : Array Nat) (k r : Nat) (recv : Nat → Bool) (a : Array V) :
    decodeHigh s lw k r recv (a.map (smul c)) = (decodeHigh s lw k r recv a).map (smul c) :=
  decodeHigh_map (ShardHom.scale (V := V) hc c) s lw k r recv a

theorem decodeLow_smul (hc : ∀ a b : Sym, gmul a b = gmul b a) (c : Sym) (s : Sched)
    (lw : Array Nat) (k r : Nat) (recv : Nat → Bool) (a : Array V) :
    decodeLow s lw k r recv (a.map (smul c)) = (decodeLow s lw k r recv a).map (smul c) :=
  decodeLow_map (ShardHom.scale (V := V) hc c) s lw k r recv a

end Cor

section Lane

variable {L : Nat}

theorem encodeHigh_lane (l : Fin L) (s : Sched) (k r : Nat) (mem : Array (Vector Sym L)) :
    (encodeHigh s k r mem).map (·[l]) = encodeHigh s k r (mem.map (·[l])) :=
  (encodeHigh_map (ShardHom.lane L l) s k r mem).symm

theorem encodeLow_lane (l : Fin L) (s : Sched) (k r : Nat) (mem : Array (Vector Sym L)) :
    (encodeLow s k r mem).map (·[l]) = encodeLow s k r (mem.map (·[l])) :=
  (encodeLow_map (ShardHom.lane L l) s k r mem).symm

theorem decodeHigh_lane (l : Fin L) (s : Sched) (lw : Array Nat) (k r : Nat)
    (recv : Nat → Bool) (mem : Array (Vector Sym L)) :
    (decodeHigh s lw k r recv mem).map (·[l]) = decodeHigh s lw k r recv (mem.map (·[l])) :=
  (decodeHigh_map (ShardHom.lane L l) s lw k r recv mem).symm

theorem decodeLow_lane (l : Fin L) (s : Sched) (lw : Array Nat) (k r : Nat)
    (recv : Nat → Bool) (mem : Array (Vector Sym L)) :
    (decodeLow s lw k r recv mem).map (·[l]) = decodeLow s lw k r recv (mem.map (·[l])) :=
  (decodeLow_map (ShardHom.lane L l) s lw k r recv mem).symm

end Lane

end RS

#print axioms RS.fft_map
#print axioms RS.ifft_map
#print axioms RS.formalDerivative_map
#print axioms RS.encodeHigh_map
#print axioms RS.encodeLow_map
#print axioms RS.decodeHigh_map
#print axioms RS.decodeLow_map
#print axioms RS.ShardHom.lane
#print axioms RS.ShardHom.addHom
#print axioms RS.ShardHom.scale
#print axioms RS.encodeHigh_add
#print axioms RS.encodeLow_add
#print axioms RS.decodeHigh_add
#print axioms RS.decodeLow_add
#print axioms RS.encodeHigh_smul
#print axioms RS.encodeLow_smul
#print axioms RS.decodeHigh_smul
#print axioms RS.decodeLow_smul
#print axioms RS.encodeHigh_lane
#print axioms RS.encodeLow_lane
#print axioms RS.decodeHigh_lane
#print axioms RS.decodeLow_lane
