/-
  The multiplicative order of `x` in GF(2)[x]/(0x1002D), by one streaming kernel computation:
  the sequence `1, mulX 1, mulX (mulX 1), …` returns to `1` after exactly 65535 steps and
  never before.  (Core Lean only; kept in its own file so that it is compiled once.)
-/
import RSVerif.Model.Field

namespace RS

/-- `orderCheck n s`: walk `n` steps `s ↦ mulX s`; true iff the state equals `1` exactly after
    the last step and never after any earlier step (`n = 0`: false). -/
def orderCheck : Nat → Sym → Bool
  | 0, _ => false
  | n + 1, s =>
    let t := mulX s
    if t = 1#16 then n == 0 else orderCheck n t

/-- `k`-fold application of `mulX` (defined here import-free; it is `mulX^[k]`). -/
def mulXIter : Nat → Sym → Sym
  | 0, s => s
  | k + 1, s => mulXIter k (mulX s)

/-- `x^k` in the polynomial representation -/
def xpow (k : Nat) : Sym := mulXIter k 1#16

theorem mulXIter_succ' (k : Nat) (s : Sym) : mulXIter (k + 1) s = mulX (mulXIter k s) := by
  induction k generalizing s with
  | zero => rfl
  | succ k ih => exact ih (mulX s)

theorem xpow_zero : xpow 0 = 1#16 := rfl
theorem xpow_succ (k : Nat) : xpow (k + 1) = mulX (xpow k) := mulXIter_succ' k _

/-- soundness of the checker -/
theorem orderCheck_sound : ∀ (n : Nat) (s : Sym), orderCheck n s = true →
    mulXIter n s = 1#16 ∧ ∀ k, 0 < k → k < n → mulXIter k s ≠ 1#16
  | 0, _, h => by simp [orderCheck] at h
  | n + 1, s, h => by
    simp only [orderCheck] at h
    by_cases ht : mulX s = 1#16
    · rw [if_pos ht] at h
      have hn : n = 0 := by simpa using h
      subst hn
      refine ⟨ht, ?_⟩
      intro k h0 h1
      omega
    · rw [if_neg ht] at h
      obtain ⟨h1, h2⟩ := orderCheck_sound n (mulX s) h
      refine ⟨h1, ?_⟩
      intro k h0 hk
      match k, h0 with
      | k + 1, _ =>
        show mulXIter k (mulX s) ≠ 1#16
        by_cases hk0 : k = 0
        · subst hk0; exact ht
        · exact h2 k (by omega) (by omega)

set_option maxRecDepth 200000 in
/-- the one kernel computation: 65535 applications of `mulX` -/
theorem orderCheck_x : orderCheck 65535 1#16 = true := by decide +kernel

/-- `x^65535 = 1` -/
theorem xpow_65535 : xpow 65535 = 1#16 := (orderCheck_sound _ _ orderCheck_x).1

/-- `x^k ≠ 1` for `0 < k < 65535` -/
theorem xpow_ne_one (k : Nat) (h0 : 0 < k) (hk : k < 65535) : xpow k ≠ 1#16 :=
  (orderCheck_sound _ _ orderCheck_x).2 k h0 hk

end RS

#print axioms RS.orderCheck_x
#print axioms RS.xpow_65535
#print axioms RS.xpow_ne_one
