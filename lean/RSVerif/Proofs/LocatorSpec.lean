/-
  The erasure locator of the decoders: from the log-domain (`ZMod 65535`) statement of
  `Proofs/WalshSpec.lean` to the field statement
      `g ^ loc[x] = ∏_{u marked, u ≠ x} (pt x - pt u)`.
-/
import RSVerif.Proofs.WalshSpec
import RSVerif.Proofs.TableSpec
import RSVerif.Proofs.Lagrange
import RSVerif.Model.Codec
import Mathlib.Data.ZMod.Basic
import Mathlib.Algebra.BigOperators.Group.Finset.Basic
import Mathlib.Algebra.Order.BigOperators.Group.Finset

namespace RS

open Finset GF16

/-! ### `gexp` of a finite sum of exponents -/

theorem mk_gexp_finset_sum (s : Finset ℕ) (f : ℕ → ℕ) (hb : ∑ j ∈ s, f j < 2 ^ 64) :
    (⟨gexp (∑ j ∈ s, f j)⟩ : GF16) = ∏ j ∈ s, (⟨gexp (f j)⟩ : GF16) := by
  rw [gexp_eq _ hb, ← Finset.prod_pow_eq_pow_sum]
  refine Finset.prod_congr rfl fun j hj => ?_
  have hle : f j ≤ ∑ i ∈ s, f i := Finset.single_le_sum (fun _ _ => Nat.zero_le _) hj
  exact (gexp_eq _ (Nat.lt_of_le_of_lt hle hb)).symm

/-- one factor: `g ^ lg[x xor j] = pt x - pt j` for distinct points -/
theorem mk_gexp_lg_xor (x j : ℕ) (hx : x < 65536) (hj : j < 65536) (hne : j ≠ x) :
    (⟨gexp (lgArr.getD (x ^^^ j) 0)⟩ : GF16) = pt x - pt j := by
  have hv : x ^^^ j < 65536 := xor_lt x j hx hj
  have hv0 : x ^^^ j ≠ 0 := fun h => hne (eq_of_xor_eq_zero x j h).symm
  have ht : (BitVec.ofNat 16 (x ^^^ j)).toNat = x ^^^ j := by
    rw [BitVec.toNat_ofNat]; exact Nat.mod_eq_of_lt hv
  have hb0 : BitVec.ofNat 16 (x ^^^ j) ≠ 0 := by
    intro h
    apply hv0
    rw [← ht, h]; rfl
  have h := gexp_lg _ hb0
  rw [ht] at h
  rw [h, mk_ofNat, ← pt_add, gf_sub_eq_add]

/-- the self term: `g ^ lg[x xor x] = 1` -/
theorem mk_gexp_lg_self (x : ℕ) : (⟨gexp (lgArr.getD (x ^^^ x) 0)⟩ : GF16) = 1 := by
  rw [Nat.xor_self, lgArr_zero, gexp_zero]; rfl

/-! ### 1. the locator in the field -/

/-- **The erasure locator.** For a 0/1 indicator `er` (zero from `trunc` on), the log-domain
    result `loc = eval_poly(er)` satisfies `g ^ loc[x] = ∏_{u marked, u ≠ x} (pt x - pt u)`. -/
theorem locator_of_logs (er : Array ℕ) (trunc : ℕ) (hs : er.size = 65536)
    (h01 : ∀ i, i < 65536 → er.getD i 0 = 0 ∨ er.getD i 0 = 1)
    (hz : ∀ i, trunc ≤ i → i < 65536 → er.getD i 0 = 0) (x : ℕ) (hx : x < 65536) :
    (evalPolyWith (fwht lgArr 65536) er trunc).getD x 0 < 65536 ∧
      (⟨gexp ((evalPolyWith (fwht lgArr 65536) er trunc).getD x 0)⟩ : GF16) =
        ∏ u ∈ ((Finset.range 65536).filter (fun u => er.getD u 0 = 1)).erase x,
          (pt x - pt u) := by
  have hbe : ∀ i, i < 65536 → er.getD i 0 < 65536 := fun i hi => by
    rcases h01 i hi with h | h <;> rw [h] <;> decide
  have hlt : (evalPolyWith (fwht lgArr 65536) er trunc).getD x 0 < 65536 :=
    (evalPoly_spec_trunc er lgArr trunc hs lgArr_size hbe (fun i _ => lgArr_lt' i) hz).2.1 x
  refine ⟨hlt, ?_⟩
  have hcast := evalPoly_spec_indicator er lgArr trunc hs lgArr_size h01
    (fun i _ => lgArr_lt' i) hz x hx
  generalize (evalPolyWith (fwht lgArr 65536) er trunc).getD x 0 = L at hlt hcast ⊢
  generalize hM : (Finset.range 65536).filter (fun u => er.getD u 0 = 1) = M at hcast ⊢
  have hMlt : ∀ j ∈ M, j < 65536 := fun j hj => by
    rw [← hM] at hj; exact Finset.mem_range.1 (Finset.mem_filter.1 hj).1
  rw [← Nat.cast_sum] at hcast
  have hmod : L % 65535 = (∑ j ∈ M, lgArr.getD (x ^^^ j) 0) % 65535 :=
    (ZMod.natCast_eq_natCast_iff' _ _ _).1 hcast
  have hcard : M.card ≤ 65536 := by
    rw [← hM]
    exact Nat.le_trans (Finset.card_filter_le _ _) (by rw [Finset.card_range])
  have hsum : ∑ j ∈ M, lgArr.getD (x ^^^ j) 0 < 2 ^ 64 := by
    have h1 : ∑ j ∈ M, lgArr.getD (x ^^^ j) 0 ≤ M.card • 65535 :=
      Finset.sum_le_card_nsmul M _ 65535 (fun j _ => Nat.le_of_lt (lgArr_lt _))
    rw [smul_eq_mul] at h1
    have h2 : M.card * 65535 ≤ 65536 * 65535 := Nat.mul_le_mul_right _ hcard
    have h3 : 65536 * 65535 < 2 ^ 64 := by norm_num
    omega
  rw [gexp_mod_eq hmod (by omega) hsum, mk_gexp_finset_sum M _ hsum]
  by_cases hxM : x ∈ M
  · rw [← Finset.mul_prod_erase M _ hxM, mk_gexp_lg_self, one_mul]
    refine Finset.prod_congr rfl fun j hj => ?_
    exact mk_gexp_lg_xor x j hx (hMlt j (Finset.mem_of_mem_erase hj)) (Finset.ne_of_mem_erase hj)
  · rw [Finset.erase_eq_of_notMem hxM]
    refine Finset.prod_congr rfl fun j hj => ?_
    exact mk_gexp_lg_xor x j hx (hMlt j hj) (fun h => hxM (h ▸ hj))

/-! ### 2. the erasure indicators of the model's decoders -/

theorem locGetD_ofFn {n : ℕ} (f : Fin n → ℕ) (i : ℕ) (h : i < n) :
    (Array.ofFn f).getD i 0 = f ⟨i, h⟩ := by
  simp [Array.getD, h]

theorem erasuresHigh_size (k r : ℕ) (recv : ℕ → Bool) : (erasuresHigh k r recv).size = 65536 := by
  unfold erasuresHigh; exact Array.size_ofFn

theorem erasuresLow_size (k r : ℕ) (recv : ℕ → Bool) : (erasuresLow k r recv).size = 65536 := by
  unfold erasuresLow; exact Array.size_ofFn

theorem erasuresHigh_getD (k r : ℕ) (recv : ℕ → Bool) (u : ℕ) (hu : u < 65536) :
    (erasuresHigh k r recv).getD u 0 =
      if u < r then (if recv u then 0 else 1)
      else if u < npow2 r then 1
      else if u < npow2 r + k then (if recv u then 0 else 1)
      else 0 := by
  unfold erasuresHigh
  exact locGetD_ofFn _ u hu

theorem erasuresLow_getD (k r : ℕ) (recv : ℕ → Bool) (u : ℕ) (hu : u < 65536) :
    (erasuresLow k r recv).getD u 0 =
      if u < k then (if recv u then 0 else 1)
      else if u < npow2 k then 0
      else if u < npow2 k + r then (if recv u then 0 else 1)
      else 1 := by
  unfold erasuresLow
  exact locGetD_ofFn _ u hu

theorem erasuresHigh_01 (k r : ℕ) (recv : ℕ → Bool) (u : ℕ) (hu : u < 65536) :
    (erasuresHigh k r recv).getD u 0 = 0 ∨ (erasuresHigh k r recv).getD u 0 = 1 := by
  rw [erasuresHigh_getD k r recv u hu]
  split_ifs <;> simp

theorem erasuresLow_01 (k r : ℕ) (recv : ℕ → Bool) (u : ℕ) (hu : u < 65536) :
    (erasuresLow k r recv).getD u 0 = 0 ∨ (erasuresLow k r recv).getD u 0 = 1 := by
  rw [erasuresLow_getD k r recv u hu]
  split_ifs <;> simp

theorem erasuresHigh_zero_of_ge (k r : ℕ) (recv : ℕ → Bool) (u : ℕ) (h : npow2 r + k ≤ u)
    (hu : u < 65536) (hr : r ≤ npow2 r) : (erasuresHigh k r recv).getD u 0 = 0 := by
  rw [erasuresHigh_getD k r recv u hu, if_neg (by omega), if_neg (by omega), if_neg (by omega)]

/-! ### 3. the marked sets -/

theorem ite_recv_eq_one (b : Bool) : (if b = true then 0 else 1) = 1 ↔ b = false := by
  cases b <;> simp

/-- positions marked by the high-rate decoder: missing recovery shards, the padding
    `[r, chunk)`, and missing original shards -/
theorem erasuresHigh_marked (k r : ℕ) (recv : ℕ → Bool) (u : ℕ) (hu : u < 65536) :
    (erasuresHigh k r recv).getD u 0 = 1 ↔
      ((u < r ∧ recv u = false) ∨ (r ≤ u ∧ u < npow2 r) ∨
        (npow2 r ≤ u ∧ u < npow2 r + k ∧ recv u = false)) := by
  rw [erasuresHigh_getD k r recv u hu]
  by_cases h1 : u < r
  · rw [if_pos h1, ite_recv_eq_one]
    constructor
    · intro h; exact Or.inl ⟨h1, h⟩
    · rintro (⟨_, h⟩ | ⟨h, _⟩ | ⟨_, _, h⟩)
      · exact h
      · omega
      · exact h
  · rw [if_neg h1]
    by_cases h2 : u < npow2 r
    · rw [if_pos h2]
      exact ⟨fun _ => Or.inr (Or.inl ⟨Nat.le_of_not_lt h1, h2⟩), fun _ => rfl⟩
    · rw [if_neg h2]
      by_cases h3 : u < npow2 r + k
      · rw [if_pos h3, ite_recv_eq_one]
        constructor
        · intro h; exact Or.inr (Or.inr ⟨Nat.le_of_not_lt h2, h3, h⟩)
        · rintro (⟨h, _⟩ | ⟨_, h⟩ | ⟨_, _, h⟩)
          · omega
          · omega
          · exact h
      · rw [if_neg h3]
        constructor
        · intro h; exact absurd h (by decide)
        · rintro (⟨h, _⟩ | ⟨_, h⟩ | ⟨_, h, _⟩) <;> omega

/-- positions marked by the low-rate decoder: missing original shards, missing recovery
    shards, and everything from `chunk + r` on -/
theorem erasuresLow_marked (k r : ℕ) (recv : ℕ → Bool) (hk : k ≤ npow2 k) (u : ℕ)
    (hu : u < 65536) :
    (erasuresLow k r recv).getD u 0 = 1 ↔
      ((u < k ∧ recv u = false) ∨ (npow2 k ≤ u ∧ u < npow2 k + r ∧ recv u = false) ∨
        (npow2 k + r ≤ u ∧ u < 65536)) := by
  rw [erasuresLow_getD k r recv u hu]
  by_cases h1 : u < k
  · rw [if_pos h1, ite_recv_eq_one]
    constructor
    · intro h; exact Or.inl ⟨h1, h⟩
    · rintro (⟨_, h⟩ | ⟨_, _, h⟩ | ⟨h, _⟩)
      · exact h
      · exact h
      · omega
  · rw [if_neg h1]
    by_cases h2 : u < npow2 k
    · rw [if_pos h2]
      constructor
      · intro h; exact absurd h (by decide)
      · rintro (⟨h, _⟩ | ⟨h, _⟩ | ⟨h, _⟩) <;> omega
    · rw [if_neg h2]
      by_cases h3 : u < npow2 k + r
      · rw [if_pos h3, ite_recv_eq_one]
        constructor
        · intro h; exact Or.inr (Or.inl ⟨Nat.le_of_not_lt h2, h3, h⟩)
        · rintro (⟨h, _⟩ | ⟨_, _, h⟩ | ⟨h, _⟩)
          · omega
          · exact h
          · omega
      · rw [if_neg h3]
        exact ⟨fun _ => Or.inr (Or.inr ⟨Nat.le_of_not_lt h3, hu⟩), fun _ => rfl⟩

theorem mem_markedHigh (k r : ℕ) (recv : ℕ → Bool) (u : ℕ) :
    u ∈ (Finset.range 65536).filter (fun u => (erasuresHigh k r recv).getD u 0 = 1) ↔
      u < 65536 ∧ ((u < r ∧ recv u = false) ∨ (r ≤ u ∧ u < npow2 r) ∨
        (npow2 r ≤ u ∧ u < npow2 r + k ∧ recv u = false)) := by
  rw [Finset.mem_filter, Finset.mem_range]
  constructor
  · rintro ⟨h1, h2⟩; exact ⟨h1, (erasuresHigh_marked k r recv u h1).1 h2⟩
  · rintro ⟨h1, h2⟩; exact ⟨h1, (erasuresHigh_marked k r recv u h1).2 h2⟩

theorem mem_markedLow (k r : ℕ) (recv : ℕ → Bool) (hk : k ≤ npow2 k) (u : ℕ) :
    u ∈ (Finset.range 65536).filter (fun u => (erasuresLow k r recv).getD u 0 = 1) ↔
      u < 65536 ∧ ((u < k ∧ recv u = false) ∨ (npow2 k ≤ u ∧ u < npow2 k + r ∧ recv u = false) ∨
        (npow2 k + r ≤ u ∧ u < 65536)) := by
  rw [Finset.mem_filter, Finset.mem_range]
  constructor
  · rintro ⟨h1, h2⟩; exact ⟨h1, (erasuresLow_marked k r recv hk u h1).1 h2⟩
  · rintro ⟨h1, h2⟩; exact ⟨h1, (erasuresLow_marked k r recv hk u h1).2 h2⟩

/-! ### 2'. the locators of the two decoders -/

/-- the locator computed by `decodeHigh` (with the real `LOG_WALSH` table) -/
theorem locator_high (k r : ℕ) (recv : ℕ → Bool) (hr : r ≤ npow2 r) (x : ℕ) (hx : x < 65536) :
    let loc := evalPolyWith logWalshArr (erasuresHigh k r recv) (npow2 r + k)
    loc.getD x 0 < 65536 ∧ (⟨gexp (loc.getD x 0)⟩ : GF16) =
      ∏ u ∈ ((Finset.range 65536).filter
          (fun u => (erasuresHigh k r recv).getD u 0 = 1)).erase x, (pt x - pt u) := by
  intro loc
  have h := locator_of_logs (erasuresHigh k r recv) (npow2 r + k) (erasuresHigh_size k r recv)
    (erasuresHigh_01 k r recv)
    (fun i hi hi' => erasuresHigh_zero_of_ge k r recv i hi hi' hr) x hx
  rw [← logWalshArr_def] at h
  exact h

/-- the locator computed by `decodeLow` (with the real `LOG_WALSH` table) -/
theorem locator_low (k r : ℕ) (recv : ℕ → Bool) (x : ℕ) (hx : x < 65536) :
    let loc := evalPolyWith logWalshArr (erasuresLow k r recv) 65536
    loc.getD x 0 < 65536 ∧ (⟨gexp (loc.getD x 0)⟩ : GF16) =
      ∏ u ∈ ((Finset.range 65536).filter
          (fun u => (erasuresLow k r recv).getD u 0 = 1)).erase x, (pt x - pt u) := by
  intro loc
  have h := locator_of_logs (erasuresLow k r recv) 65536 (erasuresLow_size k r recv)
    (erasuresLow_01 k r recv) (fun i hi hi' => absurd hi' (Nat.not_lt.2 hi)) x hx
  rw [← logWalshArr_def] at h
  exact h

end RS

#print axioms RS.locator_of_logs
#print axioms RS.locator_high
#print axioms RS.locator_low
#print axioms RS.erasuresHigh_marked
#print axioms RS.erasuresLow_marked
#print axioms RS.mem_markedHigh
#print axioms RS.mem_markedLow
