/-
  C02, low rate: the recovery shards computed by `encodeLow` are the closed-form
  scaled-Cauchy code `cauchyLow`.

    encodeLow_sym          one lane (`Array Sym`)
    encodeLow_eq_cauchy    all lanes, against `Spec.cauchyEncode .low`
-/
import RSVerif.Proofs.CauchyEncAux
import RSVerif.Proofs.Envelope

namespace RS
namespace CE
open ShardAlg

/-! ### the copies -/

/-- after `n` copies of chunk 0, the chunks `0 … n` all hold chunk 0 -/
theorem copies_spec (m : Nat) (a : Array Sym) (n : Nat) (hsz : (n + 1) * m ≤ a.size) :
    ((List.range n).foldl (fun a i => copyWithin a 0 ((i + 1) * m) m) a).size = a.size ∧
    ∀ c u, c ≤ n → u < m →
      rd ((List.range n).foldl (fun a i => copyWithin a 0 ((i + 1) * m) m) a) (c * m + u) = rd a u := by
  induction n with
  | zero =>
    refine ⟨rfl, fun c u hc hu => ?_⟩
    have : c = 0 := by omega
    subst this
    rw [Nat.zero_mul, Nat.zero_add]; rfl
  | succ n ih =>
    have e1 : (n + 1 + 1) * m = (n + 1) * m + m := Nat.succ_mul _ _
    have e2 : (n + 1) * m = n * m + m := Nat.succ_mul _ _
    obtain ⟨hs, hr⟩ := ih (by omega)
    rw [List.range_succ, List.foldl_append]
    simp only [List.foldl_cons, List.foldl_nil]
    have hdis : 0 + m ≤ (n + 1) * m ∨ (n + 1) * m + m ≤ 0 := Or.inl (by omega)
    refine ⟨by rw [copyWithin_size _ _ _ _ hdis, hs], fun c u hc hu => ?_⟩
    have hcm : c * m ≤ (n + 1) * m := Nat.mul_le_mul_right m hc
    rw [rd_copyWithin _ _ _ _ hdis (by rw [hs]; omega)]
    by_cases hcn : c = n + 1
    · subst hcn
      rw [if_pos (by omega)]
      have e3 : (n + 1) * m + u - (n + 1) * m + 0 = 0 * m + u := by omega
      rw [e3]
      exact hr 0 u (by omega) hu
    · have hcm' : c * m ≤ n * m := Nat.mul_le_mul_right m (by omega)
      rw [if_neg (by omega)]
      exact hr c u (by omega) hu

/-! ### the chunk transforms -/

/-- after the fft of the chunks `0 … n-1`: those hold the values at the points
    `(c+1)m + i`, the later chunks still hold the coefficients `b` -/
theorem chunks_spec (s : Sched) (e : Nat) (he : e ≤ 16) (b : Nat → Sym) (a : Array Sym) (T n : Nat)
    (hn : n ≤ T + 1) (hsz : ∀ c, c ≤ T → (c + 1) * 2 ^ e ≤ a.size)
    (ha : ∀ c u, c ≤ T → u < 2 ^ e → rd a (c * 2 ^ e + u) = b u) :
    ((List.range n).foldl
        (fun a c => fft s a (c * 2 ^ e) (2 ^ e) (2 ^ e) (c * 2 ^ e + 2 ^ e)) a).size = a.size ∧
    (∀ c i, c < n → i < 2 ^ e →
      rd ((List.range n).foldl
        (fun a c => fft s a (c * 2 ^ e) (2 ^ e) (2 ^ e) (c * 2 ^ e + 2 ^ e)) a) (c * 2 ^ e + i) =
        lchF (2 ^ e) b (BitVec.ofNat 16 (c * 2 ^ e + 2 ^ e + i))) ∧
    (∀ c u, n ≤ c → c ≤ T → u < 2 ^ e →
      rd ((List.range n).foldl
        (fun a c => fft s a (c * 2 ^ e) (2 ^ e) (2 ^ e) (c * 2 ^ e + 2 ^ e)) a) (c * 2 ^ e + u) = b u) := by
  induction n with
  | zero => exact ⟨rfl, fun c i hc _ => absurd hc (by omega), fun c u _ hc hu => ha c u hc hu⟩
  | succ n ih =>
    obtain ⟨hs, h1, h2⟩ := ih (by omega)
    rw [List.range_succ, List.foldl_append]
    simp only [List.foldl_cons, List.foldl_nil]
    have e2 : (n + 1) * 2 ^ e = n * 2 ^ e + 2 ^ e := Nat.succ_mul _ _
    have hsn := hsz n (by omega)
    refine ⟨by rw [fft_size, hs], fun c i hc hi => ?_, fun c u hc hcT hu => ?_⟩
    · by_cases hcn : c = n
      · subst hcn
        rw [fft_window s _ (c * 2 ^ e) e (2 ^ e) (c * 2 ^ e + 2 ^ e) he
          (Nat.dvd_add (Nat.dvd_mul_left _ _) (Nat.dvd_refl _)) (by rw [hs]; omega)
          (Nat.le_refl _) hi]
        exact lchF_congr _ (fun t ht => h2 c t (Nat.le_refl _) (by omega) ht)
      · have hcm : (c + 1) * 2 ^ e ≤ n * 2 ^ e := Nat.mul_le_mul_right _ (by omega)
        have e3 : (c + 1) * 2 ^ e = c * 2 ^ e + 2 ^ e := Nat.succ_mul _ _
        rw [fft_frame _ _ _ _ _ _ (Or.inl (by omega))]
        exact h1 c i (by omega) hi
    · have hcm : (n + 1) * 2 ^ e ≤ c * 2 ^ e := Nat.mul_le_mul_right _ (by omega)
      rw [fft_frame _ _ _ _ _ _ (Or.inr (by omega))]
      exact h2 c u (by omega) hcT hu

/-! ### one lane -/

/-- `encodeLow` with the chunk size `npow2 k` replaced by `2^e` -/
theorem encodeLow_core (s : Sched) (e k r : Nat) (he : e ≤ 16) (_hk : k ≤ 2 ^ e) (hr : 0 < r)
    (mem : Array Sym)
    (hgeo : ∀ c, c * 2 ^ e < r → (c + 1) * 2 ^ e ≤ mem.size) (j : Nat) (hj : j < r) :
    rd (let chunk := 2 ^ e
        let a := zeroRange mem k chunk
        let a := ifft s a 0 chunk k 0
        let copies := (r + chunk - 1) / chunk - 1
        let a := (List.range copies).foldl (fun a i => copyWithin a 0 ((i + 1) * chunk) chunk) a
        let q := r / chunk
        let a := (List.range q).foldl
          (fun a c => fft s a (c * chunk) chunk chunk (c * chunk + chunk)) a
        let last := r % chunk
        if last > 0 then fft s a (q * chunk) chunk last (q * chunk + chunk) else a) j =
      lchF (2 ^ e) (fun t => rd (ifft s (zeroRange mem k (2 ^ e)) 0 (2 ^ e) k 0) t)
        (BitVec.ofNat 16 (2 ^ e + j)) := by
  have hm : 0 < 2 ^ e := Nat.two_pow_pos e
  -- chunk-count arithmetic
  have hQ : (r + 2 ^ e - 1) / 2 ^ e * 2 ^ e ≤ r + 2 ^ e - 1 := Nat.div_mul_le_self _ _
  have hQ1 : 1 ≤ (r + 2 ^ e - 1) / 2 ^ e := (Nat.le_div_iff_mul_le hm).2 (by omega)
  have hcop : ((r + 2 ^ e - 1) / 2 ^ e - 1) * 2 ^ e < r := by
    rw [Nat.sub_mul, Nat.one_mul]; omega
  have hle : ∀ c, c * 2 ^ e < r → c ≤ (r + 2 ^ e - 1) / 2 ^ e - 1 := by
    intro c hc
    have : c + 1 ≤ (r + 2 ^ e - 1) / 2 ^ e :=
      (Nat.le_div_iff_mul_le hm).2 (by rw [Nat.succ_mul]; omega)
    omega
  have hmono : ∀ c, c ≤ (r + 2 ^ e - 1) / 2 ^ e - 1 → c * 2 ^ e < r := by
    intro c hc
    exact Nat.lt_of_le_of_lt (Nat.mul_le_mul_right _ hc) hcop
  have hq : r / 2 ^ e * 2 ^ e ≤ r := Nat.div_mul_le_self _ _
  have hdm : 2 ^ e * (r / 2 ^ e) + r % 2 ^ e = r := Nat.div_add_mod r (2 ^ e)
  have hcomm : 2 ^ e * (r / 2 ^ e) = r / 2 ^ e * 2 ^ e := Nat.mul_comm _ _
  -- stage names
  simp only []
  generalize ha2 : ifft s (zeroRange mem k (2 ^ e)) 0 (2 ^ e) k 0 = a2
  have hs2 : a2.size = mem.size := by rw [← ha2]; simp
  obtain ⟨hs3, h3⟩ := copies_spec (2 ^ e) a2 ((r + 2 ^ e - 1) / 2 ^ e - 1)
    (by rw [hs2]; exact hgeo _ hcop)
  generalize ha3 : (List.range ((r + 2 ^ e - 1) / 2 ^ e - 1)).foldl
    (fun a i => copyWithin a 0 ((i + 1) * 2 ^ e) (2 ^ e)) a2 = a3 at hs3 h3
  have hqn : r / 2 ^ e ≤ (r + 2 ^ e - 1) / 2 ^ e - 1 + 1 := by
    rcases Nat.eq_zero_or_pos (r / 2 ^ e) with h0 | hpos
    · omega
    · have := hle (r / 2 ^ e - 1) (by
        have : (r / 2 ^ e - 1) * 2 ^ e = r / 2 ^ e * 2 ^ e - 2 ^ e := by
          rw [Nat.sub_mul, Nat.one_mul]
        have hge : 1 * 2 ^ e ≤ r / 2 ^ e * 2 ^ e := Nat.mul_le_mul_right _ hpos
        omega)
      omega
  obtain ⟨hs4, h4a, h4b⟩ := chunks_spec s e he (fun t => rd a2 t) a3
    ((r + 2 ^ e - 1) / 2 ^ e - 1) (r / 2 ^ e) hqn
    (fun c hc => by rw [hs3, hs2]; exact hgeo c (hmono c hc))
    (fun c u hc hu => h3 c u hc hu)
  generalize ha4 : (List.range (r / 2 ^ e)).foldl
    (fun a c => fft s a (c * 2 ^ e) (2 ^ e) (2 ^ e) (c * 2 ^ e + 2 ^ e)) a3 = a4 at hs4 h4a h4b
  -- decompose j
  have hjd : 2 ^ e * (j / 2 ^ e) + j % 2 ^ e = j := Nat.div_add_mod j (2 ^ e)
  have hjc : 2 ^ e * (j / 2 ^ e) = j / 2 ^ e * 2 ^ e := Nat.mul_comm _ _
  have hjm : j % 2 ^ e < 2 ^ e := Nat.mod_lt _ hm
  have hjq : j / 2 ^ e ≤ r / 2 ^ e := Nat.div_le_div_right (by omega)
  have hpt : 2 ^ e + j = j / 2 ^ e * 2 ^ e + 2 ^ e + j % 2 ^ e := by omega
  have hjj : j = j / 2 ^ e * 2 ^ e + j % 2 ^ e := by omega
  by_cases hl : r % 2 ^ e > 0
  · rw [if_pos hl]
    by_cases hc : j / 2 ^ e < r / 2 ^ e
    · have hcm : (j / 2 ^ e + 1) * 2 ^ e ≤ r / 2 ^ e * 2 ^ e := Nat.mul_le_mul_right _ hc
      rw [Nat.succ_mul] at hcm
      rw [fft_frame _ _ _ _ _ _ (Or.inl (by omega)), hpt]
      conv_lhs => rw [hjj]
      exact h4a _ _ hc hjm
    · have hceq : j / 2 ^ e = r / 2 ^ e := by omega
      have hceq' : j / 2 ^ e * 2 ^ e = r / 2 ^ e * 2 ^ e := by rw [hceq]
      have hjl : j % 2 ^ e < r % 2 ^ e := by omega
      have hqT : r / 2 ^ e ≤ (r + 2 ^ e - 1) / 2 ^ e - 1 := hle _ (by omega)
      have hpos : r / 2 ^ e * 2 ^ e + 2 ^ e ≤ a4.size := by
        have := hgeo (r / 2 ^ e) (by omega)
        rw [Nat.succ_mul] at this
        rw [hs4, hs3, hs2]; exact this
      conv_lhs => rw [hjj, hceq]
      rw [fft_window s a4 (r / 2 ^ e * 2 ^ e) e (r % 2 ^ e) (r / 2 ^ e * 2 ^ e + 2 ^ e) he
        (Nat.dvd_add (Nat.dvd_mul_left _ _) (Nat.dvd_refl _)) hpos
        (Nat.le_of_lt (Nat.mod_lt _ hm)) hjl, hpt, hceq]
      exact lchF_congr _ (fun t ht => h4b _ t (Nat.le_refl _) hqT ht)
  · rw [if_neg hl]
    have hc : j / 2 ^ e < r / 2 ^ e := by
      rcases Nat.lt_or_ge (j / 2 ^ e) (r / 2 ^ e) with h | h
      · exact h
      · have h1 : j / 2 ^ e = r / 2 ^ e := by omega
        have h2 : j / 2 ^ e * 2 ^ e = r / 2 ^ e * 2 ^ e := by rw [h1]
        omega
    rw [hpt]
    conv_lhs => rw [hjj]
    exact h4a _ _ hc hjm

/-- **C02, low rate, one lane.** -/
theorem encodeLow_sym (s : Sched) (k r : Nat) (hsup : supportsLow k r = true) (mem : Array Sym)
    (hsz : mem.size = lowEncWorkCount k r) {j : Nat} (hj : j < r) :
    rd (encodeLow s k r mem) j = xsum k (fun i => gmul (cauchyLow k r j i) (rd mem i)) := by
  obtain ⟨hk0, hr0, hk, hr, hs⟩ := supportsLow_eq.mp hsup
  obtain ⟨e, he, hm, hke, _⟩ := npow2_eq_pow (n := k) (by omega)
  have geo := low_geometry hsup
  simp only [] at geo
  obtain ⟨g1, g2, g3, g4, g5, _, _⟩ := geo
  rw [hm] at g1 g3 g5 hs
  have hmem : k ≤ mem.size := by omega
  have hcore := encodeLow_core s e k r he hke hr0 mem
    (fun c hc => by rw [hsz]; exact (g5 c hc).2) j hj
  have henc : rd (encodeLow s k r mem) j =
      lchF (2 ^ e) (fun t => rd (ifft s (zeroRange mem k (2 ^ e)) 0 (2 ^ e) k 0) t)
        (BitVec.ofNat 16 (2 ^ e + j)) := by
    unfold encodeLow
    rw [hm]
    exact hcore
  rw [henc, lch_transfer_low_cauchy (k := k) (r := r) he hm _ (by omega)]
  -- the interpolant takes the (zero-padded) originals at the points `0 … m-1`
  have hval : ∀ u, u < 2 ^ e →
      lchF (2 ^ e) (fun t => rd (ifft s (zeroRange mem k (2 ^ e)) 0 (2 ^ e) k 0) t)
        (BitVec.ofNat 16 u) = if u < k then rd mem u else 0#16 := by
    intro u hu
    have h := ifft_window s (zeroRange mem k (2 ^ e)) 0 e k 0 he (Nat.dvd_zero _) (by omega)
      (by simp; omega) hke
      (fun i h1 h2 => by
        rw [Stale.rd_zeroRange, if_pos (by omega)]; rfl) hu
    simp only [Nat.zero_add] at h
    rw [h, Stale.rd_zeroRange]
    by_cases huk : u < k
    · rw [if_neg (by omega), if_pos huk]
    · rw [if_pos (by omega), if_neg huk]; rfl
  rw [xsum_congr' (h := fun u => gmul (cauchyLow k r j u) (if u < k then rd mem u else 0#16))
    (fun u hu => by rw [hval u hu])]
  rw [xsum_trim hke (fun t h1 _ => by rw [if_neg (by omega)]; exact gmul_zero_right _)]
  exact xsum_congr' (fun t ht => by rw [if_pos ht])

/-! ### all lanes -/

/-- **Theorem B (C02, low rate).**  The first `k` entries of the work memory are the originals
    (everything else is arbitrary stale content); the recovery shards computed by the FFT-based
    encoder are exactly the closed-form scaled-Cauchy code. -/
theorem _root_.RS.encodeLow_eq_cauchy' {L : Nat} (s : Sched) (k r : Nat)
    (hsup : supportsLow k r = true) (mem orig : Array (Vector Sym L))
    (hsz : mem.size = lowEncWorkCount k r)
    (horig : ∀ i, i < k → rd mem i = orig.getD i (Vector.replicate L 0#16)) {j : Nat} (hj : j < r) :
    rd (encodeLow s k r mem) j = (cauchyEncode .low k r orig).getD j (Vector.replicate L 0#16) := by
  apply Vector.ext
  intro l hl
  show (rd (encodeLow s k r mem) j)[(⟨l, hl⟩ : Fin L)] =
    ((cauchyEncode .low k r orig).getD j (Vector.replicate L 0#16))[(⟨l, hl⟩ : Fin L)]
  rw [cauchyEncode_lane_low k r orig hj ⟨l, hl⟩, rd_lane, encodeLow_lane ⟨l, hl⟩,
    encodeLow_sym s k r hsup _ (by rw [Array.size_map]; exact hsz) hj]
  apply xsum_congr'
  intro i hi
  rw [← rd_lane, horig i hi]

theorem _root_.RS.encodeLow_eq_cauchy {L : Nat} (s : Sched) (k r : Nat)
    (hsup : supportsLow k r = true) (mem : Array (Vector Sym L))
    (hsz : mem.size = lowEncWorkCount k r) {j : Nat} (hj : j < r) :
    rd (encodeLow s k r mem) j =
      (cauchyEncode .low k r (mem.extract 0 k)).getD j (Vector.replicate L 0#16) := by
  apply encodeLow_eq_cauchy' s k r hsup mem _ hsz _ hj
  intro i hi
  have hk : k ≤ mem.size := by
    have geo := low_geometry hsup
    simp only [] at geo
    obtain ⟨hk0, hr0, hk, hr, hs⟩ := supportsLow_eq.mp hsup
    have := le_npow2 (n := k) (by omega)
    omega
  have hi' : i < mem.size := by omega
  simp [rd, Array.getD_eq_getD_getElem?, hi, hi']

end CE
end RS

#print axioms RS.CE.encodeLow_sym
#print axioms RS.encodeLow_eq_cauchy'
#print axioms RS.encodeLow_eq_cauchy
