/-
  Algebraic interface used by the proofs: the laws a shard algebra satisfies, and
  homomorphisms between shard algebras.  (Instances for `Sym` and `Vector Sym L` are proved in
  `Proofs/FieldLaws.lean` / `Proofs/Lanes.lean` from the definitions of `Model/Field.lean`.)
-/
import RSVerif.Model.Engine

namespace RS
open ShardAlg

/-- laws of xor and of multiplication by a field element -/
class LawfulShardAlg (V : Type) [ShardAlg V] : Prop where
  add_comm : ∀ a b : V, add a b = add b a
  add_assoc : ∀ a b c : V, add (add a b) c = add a (add b c)
  add_zero : ∀ a : V, add a zero = a
  add_self : ∀ a : V, add a a = zero
  smul_add : ∀ (c : Sym) (a b : V), smul c (add a b) = add (smul c a) (smul c b)
  smul_zero : ∀ c : Sym, smul c (zero : V) = zero
  zero_smul : ∀ a : V, smul (0#16) a = zero
  add_smul : ∀ (c d : Sym) (a : V), smul (c ^^^ d) a = add (smul c a) (smul d a)
  smul_smul : ∀ (c d : Sym) (a : V), smul c (smul d a) = smul (gmul c d) a
  one_smul : ∀ a : V, smul gone a = a

/-- a map between shard algebras that commutes with zero, xor and scalar multiplication -/
structure ShardHom (V W : Type) [ShardAlg V] [ShardAlg W] where
  f : V → W
  map_zero : f zero = zero
  map_add : ∀ a b : V, f (add a b) = add (f a) (f b)
  map_smul : ∀ (c : Sym) (a : V), f (smul c a) = smul c (f a)

end RS
