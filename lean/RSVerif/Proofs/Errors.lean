/-
  C06: the errors returned in reachable states are truthful and complete w.r.t. the
  specification sets of Model/Spec.lean; the one-shot functions never panic and only return
  truthful errors.
-/
import RSVerif.Proofs.InvPres

namespace RS
open InvAux

/-! ## configuration errors (`new`, `reset`) -/

theorem truthfulConfig_eq_nil {kind : Kind} {k r sb : Nat} (h : truthfulConfig kind k r sb = []) :
    supports kind k r = true ∧ badShardSize sb = false := by
  unfold truthfulConfig at h
  cases h1 : supports kind k r <;> cases h2 : badShardSize sb <;> simp [h1, h2] at h ⊢

theorem mem_truthfulConfig_unsupported {kind : Kind} {k r sb : Nat} (h : supports kind k r = false) :
    Err.unsupportedShardCount k r ∈ truthfulConfig kind k r sb := by
  simp [truthfulConfig, h]

theorem mem_truthfulConfig_size {kind : Kind} {k r sb : Nat} (h : badShardSize sb = true) :
    Err.invalidShardSize sb ∈ truthfulConfig kind k r sb := by
  simp [truthfulConfig, h]

theorem Encoder.new_truthful {stale : Stale} {kind : Kind} {sched : Sched} {k r sb : Nat}
    {work : Option EncWork} {er : Err}
    (h : Encoder.new stale kind sched k r sb work = .err er) : er ∈ truthfulConfig kind k r sb := by
  rcases Encoder.new_split stale kind sched k r sb work with
    ⟨h1, h'⟩ | ⟨_, h2, h'⟩ | ⟨_, _, e', h', _⟩ <;> rw [h'] at h <;> cases h
  · exact mem_truthfulConfig_unsupported h1
  · exact mem_truthfulConfig_size h2

theorem Encoder.new_complete {stale : Stale} {kind : Kind} {sched : Sched} {k r sb : Nat}
    {work : Option EncWork} (h : truthfulConfig kind k r sb = []) :
    ∃ e, Encoder.new stale kind sched k r sb work = .ok e := by
  have ⟨g1, g2⟩ := truthfulConfig_eq_nil h
  rcases Encoder.new_split stale kind sched k r sb work with
    ⟨h1, _⟩ | ⟨_, h2, _⟩ | ⟨_, _, e', h', _⟩
  · rw [g1] at h1; cases h1
  · rw [g2] at h2; cases h2
  · exact ⟨e', h'⟩

theorem Encoder.reset_truthful {e : Encoder} (he : e.Inv) {stale : Stale} {k r sb : Nat} {er : Err}
    (h : (e.reset stale k r sb).1 = .err er) : er ∈ truthfulConfig e.kind k r sb := by
  rcases Encoder.reset_split he stale k r sb with
    ⟨h1, h'⟩ | ⟨_, h2, h'⟩ | ⟨_, _, e', h', _⟩ <;> rw [h'] at h <;> cases h
  · exact mem_truthfulConfig_unsupported h1
  · exact mem_truthfulConfig_size h2

theorem Encoder.reset_complete {e : Encoder} (he : e.Inv) {stale : Stale} {k r sb : Nat}
    (h : truthfulConfig e.kind k r sb = []) : (e.reset stale k r sb).1 = .ok () := by
  have ⟨g1, g2⟩ := truthfulConfig_eq_nil h
  rcases Encoder.reset_split he stale k r sb with
    ⟨h1, _⟩ | ⟨_, h2, _⟩ | ⟨_, _, e', h', _⟩
  · rw [g1] at h1; cases h1
  · rw [g2] at h2; cases h2
  · rw [h']

theorem Decoder.new_truthful {stale : Stale} {kind : Kind} {sched : Sched} {k r sb : Nat}
    {work : Option DecWork} {er : Err}
    (h : Decoder.new stale kind sched k r sb work = .err er) : er ∈ truthfulConfig kind k r sb := by
  rcases Decoder.new_split stale kind sched k r sb work with
    ⟨h1, h'⟩ | ⟨_, h2, h'⟩ | ⟨_, _, e', h', _⟩ <;> rw [h'] at h <;> cases h
  · exact mem_truthfulConfig_unsupported h1
  · exact mem_truthfulConfig_size h2

theorem Decoder.new_complete {stale : Stale} {kind : Kind} {sched : Sched} {k r sb : Nat}
    {work : Option DecWork} (h : truthfulConfig kind k r sb = []) :
    ∃ d, Decoder.new stale kind sched k r sb work = .ok d := by
  have ⟨g1, g2⟩ := truthfulConfig_eq_nil h
  rcases Decoder.new_split stale kind sched k r sb work with
    ⟨h1, _⟩ | ⟨_, h2, _⟩ | ⟨_, _, e', h', _⟩
  · rw [g1] at h1; cases h1
  · rw [g2] at h2; cases h2
  · exact ⟨e', h'⟩

theorem Decoder.reset_truthful {d : Decoder} (hd : d.Inv) {stale : Stale} {k r sb : Nat} {er : Err}
    (h : (d.reset stale k r sb).1 = .err er) : er ∈ truthfulConfig d.kind k r sb := by
  rcases Decoder.reset_split hd stale k r sb with
    ⟨h1, h'⟩ | ⟨_, h2, h'⟩ | ⟨_, _, e', h', _⟩ <;> rw [h'] at h <;> cases h
  · exact mem_truthfulConfig_unsupported h1
  · exact mem_truthfulConfig_size h2

theorem Decoder.reset_complete {d : Decoder} (hd : d.Inv) {stale : Stale} {k r sb : Nat}
    (h : truthfulConfig d.kind k r sb = []) : (d.reset stale k r sb).1 = .ok () := by
  have ⟨g1, g2⟩ := truthfulConfig_eq_nil h
  rcases Decoder.reset_split hd stale k r sb with
    ⟨h1, _⟩ | ⟨_, h2, _⟩ | ⟨_, _, e', h', _⟩
  · rw [g1] at h1; cases h1
  · rw [g2] at h2; cases h2
  · rw [h']

/-! ## encoder calls -/

theorem Encoder.add_truthful {e : Encoder} (he : e.Inv) {shard : Array Nat} {er : Err}
    (h : (e.add shard).1 = .err er) : er ∈ truthfulEncAdd e shard := by
  obtain ⟨rate, w, hi, _, hc⟩ := Encoder.add_split he shard
  unfold truthfulEncAdd
  rw [hi]
  rcases hc with ⟨h1, h'⟩ | ⟨h1, h2, h'⟩ | ⟨_, _, e', h', _⟩ <;> rw [h'] at h <;> cases h
  · simp [h1]
  · simp [h1, h2]

theorem Encoder.add_complete {e : Encoder} (he : e.Inv) {shard : Array Nat}
    (h : truthfulEncAdd e shard = []) : (e.add shard).1 = .ok () := by
  obtain ⟨rate, w, hi, _, hc⟩ := Encoder.add_split he shard
  unfold truthfulEncAdd at h
  rw [hi] at h
  rcases hc with ⟨h1, h'⟩ | ⟨h1, h2, h'⟩ | ⟨_, _, e', h', _⟩
  · simp [h1] at h
  · simp [h1, h2] at h
  · rw [h']

theorem Encoder.encode_truthful {e : Encoder} (he : e.Inv) {er : Err}
    (h : e.encode.1 = .err er) : er ∈ truthfulEncode e := by
  obtain ⟨rate, w, hi, _, hc⟩ := Encoder.encode_split he
  unfold truthfulEncode
  rw [hi]
  rcases hc with ⟨h1, h'⟩ | ⟨_, out, e', h', _⟩ <;> rw [h'] at h <;> cases h
  simp [h1]

theorem Encoder.encode_complete {e : Encoder} (he : e.Inv)
    (h : truthfulEncode e = []) : ∃ out, e.encode.1 = .ok out := by
  obtain ⟨rate, w, hi, _, hc⟩ := Encoder.encode_split he
  unfold truthfulEncode at h
  rw [hi] at h
  rcases hc with ⟨h1, h'⟩ | ⟨_, out, e', h', _⟩
  · simp [h1] at h
  · exact ⟨out, by rw [h']⟩

/-! ## decoder calls -/

theorem Decoder.addOriginal_truthful {d : Decoder} (hd : d.Inv) {index : Nat} {shard : Array Nat}
    {er : Err} (h : (d.addOriginal index shard).1 = .err er) :
    er ∈ truthfulDecAddO d index shard := by
  obtain ⟨rate, w, hi, _, hc⟩ := Decoder.addOriginal_split hd index shard
  unfold truthfulDecAddO
  rw [hi]
  rcases hc with ⟨h1, h'⟩ | ⟨h1, h2, h'⟩ | ⟨h1, h2, h3, h'⟩ | ⟨_, _, _, d', h', _⟩ <;>
    rw [h'] at h <;> cases h
  · simp [h1]
  · simp [h1, h2]
  · simp [h1, h2, h3]

theorem Decoder.addOriginal_complete {d : Decoder} (hd : d.Inv) {index : Nat} {shard : Array Nat}
    (h : truthfulDecAddO d index shard = []) : (d.addOriginal index shard).1 = .ok () := by
  obtain ⟨rate, w, hi, _, hc⟩ := Decoder.addOriginal_split hd index shard
  unfold truthfulDecAddO at h
  rw [hi] at h
  rcases hc with ⟨h1, h'⟩ | ⟨h1, h2, h'⟩ | ⟨h1, h2, h3, h'⟩ | ⟨_, _, _, d', h', _⟩
  · simp at h; omega
  · simp [h1, h2] at h
  · simp [h3] at h
  · rw [h']

theorem Decoder.addRecovery_truthful {d : Decoder} (hd : d.Inv) {index : Nat} {shard : Array Nat}
    {er : Err} (h : (d.addRecovery index shard).1 = .err er) :
    er ∈ truthfulDecAddR d index shard := by
  obtain ⟨rate, w, hi, _, hc⟩ := Decoder.addRecovery_split hd index shard
  unfold truthfulDecAddR
  rw [hi]
  rcases hc with ⟨h1, h'⟩ | ⟨h1, h2, h'⟩ | ⟨h1, h2, h3, h'⟩ | ⟨_, _, _, d', h', _⟩ <;>
    rw [h'] at h <;> cases h
  · simp [h1]
  · simp [h1, h2]
  · simp [h1, h2, h3]

theorem Decoder.addRecovery_complete {d : Decoder} (hd : d.Inv) {index : Nat} {shard : Array Nat}
    (h : truthfulDecAddR d index shard = []) : (d.addRecovery index shard).1 = .ok () := by
  obtain ⟨rate, w, hi, _, hc⟩ := Decoder.addRecovery_split hd index shard
  unfold truthfulDecAddR at h
  rw [hi] at h
  rcases hc with ⟨h1, h'⟩ | ⟨h1, h2, h'⟩ | ⟨h1, h2, h3, h'⟩ | ⟨_, _, _, d', h', _⟩
  · simp at h; omega
  · simp [h1, h2] at h
  · simp [h3] at h
  · rw [h']

theorem Decoder.decode_truthful {d : Decoder} (hd : d.Inv) {lw : Array Nat} {er : Err}
    (h : (d.decode lw).1 = .err er) : er ∈ truthfulDecode d := by
  obtain ⟨rate, w, hi, _, hc⟩ := Decoder.decode_split hd lw
  unfold truthfulDecode
  rw [hi]
  rcases hc with ⟨h1, h'⟩ | ⟨_, out, d', h', _⟩ <;> rw [h'] at h <;> cases h
  simp [h1]

theorem Decoder.decode_complete {d : Decoder} (hd : d.Inv) {lw : Array Nat}
    (h : truthfulDecode d = []) : ∃ out, (d.decode lw).1 = .ok out := by
  obtain ⟨rate, w, hi, _, hc⟩ := Decoder.decode_split hd lw
  unfold truthfulDecode at h
  rw [hi] at h
  rcases hc with ⟨h1, h'⟩ | ⟨_, out, d', h', _⟩
  · simp [h1] at h
  · exact ⟨out, by rw [h']⟩


/-! ## one-shot encode -/

/-- configuration and fill state of an encoder object -/
def Encoder.State (e : Encoder) (k sb j : Nat) : Prop :=
  ∃ rate w, e.inner = .some rate w ∧ w.k = k ∧ w.sb = sb ∧ w.recv = j

theorem stepE_mk {σ α : Type} (o : Outcome α) (s : σ) :
    stepE (o, s) = match o with
      | .ok a => .ok (a, s)
      | .err e => .err e
      | .panic w => .panic w := by
  cases o <;> rfl

theorem oneShotEncode.addAll_spec {e : Encoder} (he : e.Inv) {k sb j : Nat}
    (hst : e.State k sb j) (ss : List (Array Nat)) :
    match oneShotEncode.addAll e ss with
    | .ok e' => e'.Inv ∧ e'.State k sb (j + ss.length)
    | .err er => (er = .tooManyOriginal k ∧ j + ss.length > k) ∨
        (∃ s, s ∈ ss ∧ s.size ≠ sb ∧ er = .differentShardSize sb s.size)
    | .panic _ => False := by
  induction ss generalizing e j with
  | nil => exact ⟨he, hst⟩
  | cons s ss ih =>
    obtain ⟨rate, w, hi, hw, hc⟩ := Encoder.add_split he s
    obtain ⟨rate', w0, hi', hk, hsb, hj⟩ := hst
    rw [hi] at hi'
    injection hi' with hr' hw'
    subst hr' hw'
    rw [oneShotEncode.addAll]
    rcases hc with ⟨h1, h'⟩ | ⟨h1, h2, h'⟩ | ⟨h1, h2, e', h', hinv, _, _, w', hi2, hk2, _, hsb2, hrecv2⟩
    · rw [h', stepE_mk]
      simp only [Outcome.bind]
      left
      refine ⟨by rw [hk], ?_⟩
      simp only [List.length_cons]; omega
    · rw [h', stepE_mk]
      simp only [Outcome.bind]
      right
      exact ⟨s, List.mem_cons_self, by rw [← hsb]; exact h2, by rw [hsb]⟩
    · rw [h', stepE_mk]
      simp only [Outcome.bind]
      have hst' : e'.State k sb (j + 1) :=
        ⟨rate, w', hi2, by rw [hk2, hk], by rw [hsb2, hsb], by rw [hrecv2, hj]⟩
      have := ih hinv hst'
      revert this
      cases oneShotEncode.addAll e' ss with
      | ok e'' =>
        intro ⟨g1, g2⟩
        refine ⟨g1, ?_⟩
        simp only [List.length_cons]
        rw [show j + (ss.length + 1) = j + 1 + ss.length by omega]; exact g2
      | err er =>
        intro g
        rcases g with ⟨g1, g2⟩ | ⟨s', g1, g2, g3⟩
        · left; exact ⟨g1, by simp only [List.length_cons]; omega⟩
        · right; exact ⟨s', List.mem_cons_of_mem _ g1, g2, g3⟩
      | panic _ => exact id

theorem supportsDefault_k_pos {k r : Nat} (h : supportsDefault k r = true) : 0 < k := by
  unfold supportsDefault at h
  cases h' : useHighRate k r with
  | error e => rw [h'] at h; cases h
  | ok b =>
    have := useHighRate_ok h'
    cases b
    · exact (supportsLow_iff.1 this).1
    · exact (supportsHigh_iff.1 this).1

/-- the one-shot encoder never panics, and every error it returns is truthful -/
theorem oneShotEncode_spec (stale : Stale) (k r : Nat) (l : List (Array Nat)) :
    match oneShotEncode stale k r l with
    | .ok _ => True
    | .err er => er ∈ truthfulOneShotEncode k r l
    | .panic _ => False := by
  unfold oneShotEncode
  cases hs : supportsDefault k r
  · simp [truthfulOneShotEncode, hs]
  · have hk := supportsDefault_k_pos hs
    simp only [Bool.not_true, Bool.false_eq_true, if_false]
    cases l with
    | nil =>
      simp only [truthfulOneShotEncode, hs, List.length_nil]
      simp [hk]
    | cons first rest =>
      simp only
      rcases Encoder.new_split stale .default .twoLayer k r first.size none with
        ⟨h1, h'⟩ | ⟨_, h2, h'⟩ | ⟨_, _, e, h', hinv, _, _, rate, w, hi, hk', _, hsb, hrecv⟩
      · rw [show supports .default k r = supportsDefault k r from rfl, hs] at h1; cases h1
      · rw [h']
        simp only [Outcome.bind]
        simp [truthfulOneShotEncode, h2]
      · rw [h']
        simp only [Outcome.bind]
        have hst : e.State k first.size 0 := ⟨rate, w, hi, hk', hsb, hrecv⟩
        have := oneShotEncode.addAll_spec hinv hst (first :: rest)
        revert this
        cases oneShotEncode.addAll e (first :: rest) with
        | ok e' =>
          intro ⟨g1, rate', w', hi', hk2, hsb2, hrecv2⟩
          simp only
          obtain ⟨rate'', w'', hi'', _, hc⟩ := Encoder.encode_split g1
          rw [hi'] at hi''
          injection hi'' with hr' hw'
          subst hr' hw'
          rcases hc with ⟨h1, h''⟩ | ⟨_, out, e'', h'', _⟩
          · rw [h'', stepE_mk]
            simp only
            have hle := (‹EncWork.Inv rate' w'›).recv_le
            rw [hk2, hrecv2]
            rw [hk2, hrecv2] at h1 hle
            simp only [Nat.zero_add] at h1 hle ⊢
            have : rest.length + 1 < k := by simp only [List.length_cons] at h1 hle; omega
            simp [truthfulOneShotEncode, this]
          · rw [h'', stepE_mk]
            simp only
        | err er =>
          intro g
          simp only
          rcases g with ⟨g1, g2⟩ | ⟨s', g1, g2, g3⟩
          · subst g1
            have : k < rest.length + 1 := by simp only [List.length_cons] at g2; omega
            simp [truthfulOneShotEncode, this]
          · subst g3
            simp only [truthfulOneShotEncode, List.mem_append, List.mem_map, List.mem_filter]
            right; right
            exact ⟨s', ⟨g1, by simpa using g2⟩, rfl⟩
        | panic _ => exact id

theorem oneShotEncode_truthful {stale : Stale} {k r : Nat} {l : List (Array Nat)} {er : Err}
    (h : oneShotEncode stale k r l = .err er) : er ∈ truthfulOneShotEncode k r l := by
  have := oneShotEncode_spec stale k r l
  rw [h] at this; exact this

theorem oneShotEncode_no_panic {stale : Stale} {k r : Nat} {l : List (Array Nat)} (why : String) :
    oneShotEncode stale k r l ≠ .panic why := by
  intro h
  have := oneShotEncode_spec stale k r l
  rw [h] at this; exact this


/-! ## one-shot decode -/

/-- configuration and fill state of a decoder object -/
def Decoder.State (d : Decoder) (k r sb no nr : Nat) : Prop :=
  ∃ rate w, d.inner = .some rate w ∧ w.k = k ∧ w.r = r ∧ w.sb = sb ∧ w.orecv = no ∧ w.rrecv = nr

/-- every original index already received is in `seen` -/
def Decoder.SeenO (d : Decoder) (seen : List Nat) : Prop :=
  ∀ rate w, d.inner = .some rate w → ∀ j, j < w.k → w.recvAt (w.obase + j) = true → j ∈ seen

/-- every recovery index already received is in `seen` -/
def Decoder.SeenR (d : Decoder) (seen : List Nat) : Prop :=
  ∀ rate w, d.inner = .some rate w → ∀ j, j < w.r → w.recvAt (w.rbase + j) = true → j ∈ seen

theorem countSet_zero {bits : Array Bool} {b m : Nat} (h : countSet bits b m = 0) :
    ∀ j, j < m → bits.getD (b + j) false = false := by
  induction m with
  | zero => intro j hj; omega
  | succ m ih =>
    rw [countSet] at h
    intro j hj
    by_cases hjm : j = m
    · subst hjm
      cases hb : bits.getD (b + j) false
      · rfl
      · rw [hb] at h; simp at h
    · exact ih (by omega) j (by omega)

theorem Decoder.seenO_nil {d : Decoder} (hd : d.Inv) {k r sb nr : Nat}
    (hst : d.State k r sb 0 nr) : d.SeenO [] := by
  intro rate w hi j hj hr
  obtain ⟨rate', w', hi', hka, hw⟩ := hd
  obtain ⟨rate'', w'', hi'', _, _, _, ho, _⟩ := hst
  rw [hi] at hi' hi''
  injection hi' with e1 e2
  injection hi'' with e3 e4
  subst e1 e2 e4
  have := countSet_zero (by rw [← hw.orecv]; exact ho) j hj
  rw [show w.recvAt (w.obase + j) = w.received.getD (w.obase + j) false from rfl, this] at hr
  cases hr

theorem Decoder.seenR_nil {d : Decoder} (hd : d.Inv) {k r sb no : Nat}
    (hst : d.State k r sb no 0) : d.SeenR [] := by
  intro rate w hi j hj hr
  obtain ⟨rate', w', hi', hka, hw⟩ := hd
  obtain ⟨rate'', w'', hi'', _, _, _, _, hrr⟩ := hst
  rw [hi] at hi' hi''
  injection hi' with e1 e2
  injection hi'' with e3 e4
  subst e1 e2 e4
  have := countSet_zero (by rw [← hw.rrecv]; exact hrr) j hj
  rw [show w.recvAt (w.rbase + j) = w.received.getD (w.rbase + j) false from rfl, this] at hr
  cases hr

theorem dupIndexes.go_cons (bound i : Nat) (s : Array Nat) (rest : List (Nat × Array Nat))
    (seen acc : List Nat) :
    dupIndexes.go bound ((i, s) :: rest) seen acc =
      if i < bound ∧ seen.contains i then dupIndexes.go bound rest seen (i :: acc)
      else dupIndexes.go bound rest (i :: seen) acc := by
  rw [dupIndexes.go]

theorem dupIndexes.mem_go_of_mem_acc {bound : Nat} {l : List (Nat × Array Nat)} {seen acc : List Nat}
    {x : Nat} (h : x ∈ acc) : x ∈ dupIndexes.go bound l seen acc := by
  induction l generalizing seen acc with
  | nil => rw [dupIndexes.go]; exact h
  | cons p rest ih =>
    obtain ⟨i, s⟩ := p
    rw [dupIndexes.go_cons]
    split
    · exact ih (List.mem_cons_of_mem _ h)
    · exact ih h

theorem addAllOriginal_spec {d : Decoder} (hd : d.Inv) {k r sb no nr : Nat}
    (hst : d.State k r sb no nr) (ss : List (Nat × Array Nat)) (seen acc : List Nat)
    (hseen : d.SeenO seen) :
    match addAllOriginal d ss with
    | .ok d' => d'.Inv ∧ d'.State k r sb (no + ss.length) nr
    | .err er => (∃ p, p ∈ ss ∧ p.1 ≥ k ∧ er = .invalidOriginalIndex k p.1) ∨
        (∃ i, er = .duplicateOriginal i ∧ i ∈ dupIndexes.go k ss seen acc) ∨
        (∃ p, p ∈ ss ∧ p.2.size ≠ sb ∧ er = .differentShardSize sb p.2.size)
    | .panic _ => False := by
  induction ss generalizing d no seen acc with
  | nil => exact ⟨hd, hst⟩
  | cons p ss ih =>
    obtain ⟨i, s⟩ := p
    obtain ⟨rate, w, hi, hw, hc⟩ := Decoder.addOriginal_split hd i s
    obtain ⟨rate', w0, hi', hk, hr, hsb, hno, hnr⟩ := hst
    rw [hi] at hi'
    injection hi' with e1 e2
    subst e1 e2
    rw [addAllOriginal]
    rcases hc with ⟨h1, h'⟩ | ⟨h1, h2, h'⟩ | ⟨h1, h2, h3, h'⟩ |
      ⟨h1, h2, h3, d', h', hinv, _, _, w', hi2, hk2, hr2, hsb2, ho2, hrr2, hrec2, hob2, hrb2⟩
    · rw [h', stepE_mk]
      simp only [Outcome.bind]
      left
      exact ⟨(i, s), List.mem_cons_self, by rw [← hk]; exact h1, by rw [hk]⟩
    · rw [h', stepE_mk]
      simp only [Outcome.bind]
      right; left
      refine ⟨i, rfl, ?_⟩
      have hmem := hseen rate w hi i h1 h2
      rw [dupIndexes.go_cons, if_pos ⟨by rw [← hk]; exact h1, by simpa using hmem⟩]
      exact dupIndexes.mem_go_of_mem_acc List.mem_cons_self
    · rw [h', stepE_mk]
      simp only [Outcome.bind]
      right; right
      exact ⟨(i, s), List.mem_cons_self, by rw [← hsb]; exact h3, by rw [hsb]⟩
    · rw [h', stepE_mk]
      simp only [Outcome.bind]
      have hst' : d'.State k r sb (no + 1) nr :=
        ⟨rate, w', hi2, by rw [hk2, hk], by rw [hr2, hr], by rw [hsb2, hsb], by rw [ho2, hno],
          by rw [hrr2, hnr]⟩
      -- the received set grows by `i`
      have hgrow : ∀ seen' : List Nat, i ∈ seen' → (∀ x, x ∈ seen → x ∈ seen') → d'.SeenO seen' := by
        intro seen' hi_in hsub rate'' w'' hi'' j hj hrj
        rw [hi2] at hi''
        injection hi'' with e1 e2
        subst e1 e2
        by_cases hji : j = i
        · rw [hji]; exact hi_in
        · apply hsub
          apply hseen rate w hi j (by rw [← hk2]; exact hj)
          rw [show w'.recvAt (w'.obase + j) = w'.received.getD (w'.obase + j) false from rfl,
            hrec2, hob2, getD_set_ne _ (by omega)] at hrj
          exact hrj
      have key : ∃ seen' acc', d'.SeenO seen' ∧
          dupIndexes.go k ((i, s) :: ss) seen acc = dupIndexes.go k ss seen' acc' := by
        rw [dupIndexes.go_cons]
        by_cases hc : i < k ∧ seen.contains i = true
        · rw [if_pos hc]
          exact ⟨seen, i :: acc, hgrow seen (by simpa using hc.2) (fun x hx => hx), rfl⟩
        · rw [if_neg hc]
          exact ⟨i :: seen, acc, hgrow (i :: seen) List.mem_cons_self
            (fun x hx => List.mem_cons_of_mem _ hx), rfl⟩
      obtain ⟨seen', acc', hseen', hgo⟩ := key
      have := ih hinv hst' seen' acc' hseen'
      revert this
      cases addAllOriginal d' ss with
      | ok d'' =>
        intro ⟨g1, g2⟩
        refine ⟨g1, ?_⟩
        simp only [List.length_cons]
        rw [show no + (ss.length + 1) = no + 1 + ss.length by omega]; exact g2
      | err er =>
        intro g
        rcases g with ⟨p, g1, g2⟩ | ⟨i', g1, g2⟩ | ⟨p, g1, g2⟩
        · left; exact ⟨p, List.mem_cons_of_mem _ g1, g2⟩
        · right; left; exact ⟨i', g1, by rw [hgo]; exact g2⟩
        · right; right; exact ⟨p, List.mem_cons_of_mem _ g1, g2⟩
      | panic _ => exact id

theorem addAllRecovery_spec {d : Decoder} (hd : d.Inv) {k r sb no nr : Nat}
    (hst : d.State k r sb no nr) (ss : List (Nat × Array Nat)) (seen acc : List Nat)
    (hseen : d.SeenR seen) :
    match addAllRecovery d ss with
    | .ok d' => d'.Inv ∧ d'.State k r sb no (nr + ss.length)
    | .err er => (∃ p, p ∈ ss ∧ p.1 ≥ r ∧ er = .invalidRecoveryIndex r p.1) ∨
        (∃ i, er = .duplicateRecovery i ∧ i ∈ dupIndexes.go r ss seen acc) ∨
        (∃ p, p ∈ ss ∧ p.2.size ≠ sb ∧ er = .differentShardSize sb p.2.size)
    | .panic _ => False := by
  induction ss generalizing d nr seen acc with
  | nil => exact ⟨hd, hst⟩
  | cons p ss ih =>
    obtain ⟨i, s⟩ := p
    obtain ⟨rate, w, hi, hw, hc⟩ := Decoder.addRecovery_split hd i s
    obtain ⟨rate', w0, hi', hk, hr, hsb, hno, hnr⟩ := hst
    rw [hi] at hi'
    injection hi' with e1 e2
    subst e1 e2
    rw [addAllRecovery]
    rcases hc with ⟨h1, h'⟩ | ⟨h1, h2, h'⟩ | ⟨h1, h2, h3, h'⟩ |
      ⟨h1, h2, h3, d', h', hinv, _, _, w', hi2, hk2, hr2, hsb2, ho2, hrr2, hrec2, hob2, hrb2⟩
    · rw [h', stepE_mk]
      simp only [Outcome.bind]
      left
      exact ⟨(i, s), List.mem_cons_self, by rw [← hr]; exact h1, by rw [hr]⟩
    · rw [h', stepE_mk]
      simp only [Outcome.bind]
      right; left
      refine ⟨i, rfl, ?_⟩
      have hmem := hseen rate w hi i h1 h2
      rw [dupIndexes.go_cons, if_pos ⟨by rw [← hr]; exact h1, by simpa using hmem⟩]
      exact dupIndexes.mem_go_of_mem_acc List.mem_cons_self
    · rw [h', stepE_mk]
      simp only [Outcome.bind]
      right; right
      exact ⟨(i, s), List.mem_cons_self, by rw [← hsb]; exact h3, by rw [hsb]⟩
    · rw [h', stepE_mk]
      simp only [Outcome.bind]
      have hst' : d'.State k r sb no (nr + 1) :=
        ⟨rate, w', hi2, by rw [hk2, hk], by rw [hr2, hr], by rw [hsb2, hsb], by rw [ho2, hno],
          by rw [hrr2, hnr]⟩
      have hgrow : ∀ seen' : List Nat, i ∈ seen' → (∀ x, x ∈ seen → x ∈ seen') → d'.SeenR seen' := by
        intro seen' hi_in hsub rate'' w'' hi'' j hj hrj
        rw [hi2] at hi''
        injection hi'' with e1 e2
        subst e1 e2
        by_cases hji : j = i
        · rw [hji]; exact hi_in
        · apply hsub
          apply hseen rate w hi j (by rw [← hr2]; exact hj)
          rw [show w'.recvAt (w'.rbase + j) = w'.received.getD (w'.rbase + j) false from rfl,
            hrec2, hrb2, getD_set_ne _ (by omega)] at hrj
          exact hrj
      have key : ∃ seen' acc', d'.SeenR seen' ∧
          dupIndexes.go r ((i, s) :: ss) seen acc = dupIndexes.go r ss seen' acc' := by
        rw [dupIndexes.go_cons]
        by_cases hc : i < r ∧ seen.contains i = true
        · rw [if_pos hc]
          exact ⟨seen, i :: acc, hgrow seen (by simpa using hc.2) (fun x hx => hx), rfl⟩
        · rw [if_neg hc]
          exact ⟨i :: seen, acc, hgrow (i :: seen) List.mem_cons_self
            (fun x hx => List.mem_cons_of_mem _ hx), rfl⟩
      obtain ⟨seen', acc', hseen', hgo⟩ := key
      have := ih hinv hst' seen' acc' hseen'
      revert this
      cases addAllRecovery d' ss with
      | ok d'' =>
        intro ⟨g1, g2⟩
        refine ⟨g1, ?_⟩
        simp only [List.length_cons]
        rw [show nr + (ss.length + 1) = nr + 1 + ss.length by omega]; exact g2
      | err er =>
        intro g
        rcases g with ⟨p, g1, g2⟩ | ⟨i', g1, g2⟩ | ⟨p, g1, g2⟩
        · left; exact ⟨p, List.mem_cons_of_mem _ g1, g2⟩
        · right; left; exact ⟨i', g1, by rw [hgo]; exact g2⟩
        · right; right; exact ⟨p, List.mem_cons_of_mem _ g1, g2⟩
      | panic _ => exact id


theorem InvAux.ok_bind {α β : Type} (a : α) (f : α → Outcome β) : (Outcome.ok a).bind f = f a := rfl
theorem InvAux.err_bind {α β : Type} (e : Err) (f : α → Outcome β) :
    (Outcome.err e : Outcome α).bind f = .err e := rfl

/-- the tail of the one-shot decoder after the shards were added: `decode`, read, drop -/
theorem oneShotDecode_finish {d : Decoder} (hd : d.Inv) {k r sb no nr : Nat}
    (hst : d.State k r sb no nr) (lw : Array Nat) :
    match (stepE (d.decode lw)).bind fun p => Outcome.ok p.1 with
    | .ok _ => True
    | .err er => er = .notEnoughShards k no nr ∧ no + nr < k
    | .panic _ => False := by
  obtain ⟨rate, w, hi, _, hc⟩ := Decoder.decode_split hd lw
  obtain ⟨rate', w0, hi', hk, hr, hsb, hno, hnr⟩ := hst
  rw [hi] at hi'
  injection hi' with e1 e2
  subst e1 e2
  rcases hc with ⟨h1, h'⟩ | ⟨_, out, d', h', _⟩
  · rw [h', stepE_mk]
    simp only [Outcome.bind]
    exact ⟨by rw [hk, hno, hnr], by rw [← hk, ← hno, ← hnr]; exact h1⟩
  · rw [h', stepE_mk]
    simp only [Outcome.bind]

/-- the one-shot decoder never panics, and every error it returns is truthful -/
theorem oneShotDecode_spec (stale : Stale) (lw : Array Nat) (k r : Nat)
    (orig rec : List (Nat × Array Nat)) :
    match oneShotDecode stale lw k r orig rec with
    | .ok _ => True
    | .err er => er ∈ truthfulOneShotDecode k r orig rec
    | .panic _ => False := by
  unfold oneShotDecode
  cases hs : supportsDefault k r
  · simp [truthfulOneShotDecode, hs]
  · have hk := supportsDefault_k_pos hs
    simp only [Bool.not_true, Bool.false_eq_true, if_false]
    cases rec with
    | cons first rs =>
      simp only
      rcases Decoder.new_split stale .default .twoLayer k r first.2.size none with
        ⟨h1, h'⟩ | ⟨_, h2, h'⟩ | ⟨_, _, d, h', hinv, _, _, hst⟩
      · rw [show supports .default k r = supportsDefault k r from rfl, hs] at h1; cases h1
      · rw [h']
        simp only [err_bind]
        simp [truthfulOneShotDecode, h2]
      · rw [h']
        simp only [ok_bind]
        have hst : d.State k r first.2.size 0 0 := hst
        have := addAllOriginal_spec hinv hst orig [] [] (Decoder.seenO_nil hinv hst)
        revert this
        cases addAllOriginal d orig with
        | ok d1 =>
          intro ⟨hinv1, hst1⟩
          simp only [ok_bind]
          have := addAllRecovery_spec hinv1 hst1 (first :: rs) [] [] (Decoder.seenR_nil hinv1 hst1)
          revert this
          cases addAllRecovery d1 (first :: rs) with
          | ok d2 =>
            intro ⟨hinv2, hst2⟩
            simp only [ok_bind]
            have := oneShotDecode_finish hinv2 hst2 lw
            revert this
            cases (stepE (d2.decode lw)).bind fun p => Outcome.ok p.1 with
            | ok _ => exact id
            | err er =>
              intro ⟨g1, g2⟩
              simp only
              subst g1
              simp only [Nat.zero_add] at g2 ⊢
              simp only [truthfulOneShotDecode, List.mem_append]
              left; left; left; left; left; left; right
              simp only [List.length_cons] at g2
              simp [g2]
            | panic _ => exact id
          | err er =>
            intro g
            simp only [err_bind]
            rcases g with ⟨p, g1, g2, g3⟩ | ⟨i, g1, g2⟩ | ⟨p, g1, g2, g3⟩
            · subst g3
              simp only [truthfulOneShotDecode, List.mem_append]
              left; left; left; right
              simp only [List.mem_map, List.mem_filter]
              exact ⟨p, ⟨g1, by simpa using g2⟩, rfl⟩
            · subst g1
              simp only [truthfulOneShotDecode, List.mem_append]
              left; right
              simp only [List.mem_map]
              exact ⟨i, g2, rfl⟩
            · subst g3
              simp only [truthfulOneShotDecode, List.mem_append]
              right; right
              simp only [List.mem_map, List.mem_filter, List.mem_append]
              exact ⟨p, ⟨Or.inr g1, by simpa using g2⟩, rfl⟩
          | panic _ => exact id
        | err er =>
          intro g
          simp only [err_bind]
          rcases g with ⟨p, g1, g2, g3⟩ | ⟨i, g1, g2⟩ | ⟨p, g1, g2, g3⟩
          · subst g3
            simp only [truthfulOneShotDecode, List.mem_append]
            left; left; left; left; right
            simp only [List.mem_map, List.mem_filter]
            exact ⟨p, ⟨g1, by simpa using g2⟩, rfl⟩
          · subst g1
            simp only [truthfulOneShotDecode, List.mem_append]
            left; left; right
            simp only [List.mem_map]
            exact ⟨i, g2, rfl⟩
          · subst g3
            simp only [truthfulOneShotDecode, List.mem_append]
            right; right
            simp only [List.mem_map, List.mem_filter, List.mem_append]
            exact ⟨p, ⟨Or.inl g1, by simpa using g2⟩, rfl⟩
        | panic _ => exact id
    | nil =>
      simp only
      cases orig with
      | nil =>
        simp only
        simp [truthfulOneShotDecode, hk]
      | cons first os =>
        simp only
        rcases Decoder.new_split stale .default .twoLayer k r first.2.size none with
          ⟨h1, h'⟩ | ⟨_, h2, h'⟩ | ⟨_, _, d, h', hinv, _, _, hst⟩
        · rw [show supports .default k r = supportsDefault k r from rfl, hs] at h1; cases h1
        · rw [h']
          simp only [err_bind]
          simp [truthfulOneShotDecode, h2]
        · rw [h']
          simp only [ok_bind]
          have hst : d.State k r first.2.size 0 0 := hst
          have := addAllOriginal_spec hinv hst (first :: os) [] [] (Decoder.seenO_nil hinv hst)
          revert this
          cases addAllOriginal d (first :: os) with
          | ok d1 =>
            intro ⟨hinv1, hst1⟩
            simp only [ok_bind]
            have := oneShotDecode_finish hinv1 hst1 lw
            revert this
            cases (stepE (d1.decode lw)).bind fun p => Outcome.ok p.1 with
            | ok _ => exact id
            | err er =>
              intro ⟨g1, g2⟩
              simp only
              subst g1
              simp only [Nat.zero_add, Nat.add_zero] at g2 ⊢
              simp only [truthfulOneShotDecode, List.mem_append]
              left; left; left; left; left; left; right
              simp only [List.length_cons] at g2
              simp [g2]
            | panic _ => exact id
          | err er =>
            intro g
            simp only [err_bind]
            rcases g with ⟨p, g1, g2, g3⟩ | ⟨i, g1, g2⟩ | ⟨p, g1, g2, g3⟩
            · subst g3
              simp only [truthfulOneShotDecode, List.mem_append]
              left; left; left; left; right
              simp only [List.mem_map, List.mem_filter]
              exact ⟨p, ⟨g1, by simpa using g2⟩, rfl⟩
            · subst g1
              simp only [truthfulOneShotDecode, List.mem_append]
              left; left; right
              simp only [List.mem_map]
              exact ⟨i, g2, rfl⟩
            · subst g3
              simp only [truthfulOneShotDecode, List.mem_append]
              right; right
              simp only [List.mem_map, List.mem_filter, List.mem_append]
              exact ⟨p, ⟨Or.inl g1, by simpa using g2⟩, rfl⟩
          | panic _ => exact id

theorem oneShotDecode_truthful {stale : Stale} {lw : Array Nat} {k r : Nat}
    {orig rec : List (Nat × Array Nat)} {er : Err}
    (h : oneShotDecode stale lw k r orig rec = .err er) :
    er ∈ truthfulOneShotDecode k r orig rec := by
  have := oneShotDecode_spec stale lw k r orig rec
  rw [h] at this; exact this

theorem oneShotDecode_no_panic {stale : Stale} {lw : Array Nat} {k r : Nat}
    {orig rec : List (Nat × Array Nat)} (why : String) :
    oneShotDecode stale lw k r orig rec ≠ .panic why := by
  intro h
  have := oneShotDecode_spec stale lw k r orig rec
  rw [h] at this; exact this

end RS

#print axioms RS.Encoder.new_truthful
#print axioms RS.Encoder.new_complete
#print axioms RS.Encoder.reset_truthful
#print axioms RS.Encoder.reset_complete
#print axioms RS.Encoder.add_truthful
#print axioms RS.Encoder.add_complete
#print axioms RS.Encoder.encode_truthful
#print axioms RS.Encoder.encode_complete
#print axioms RS.Decoder.new_truthful
#print axioms RS.Decoder.new_complete
#print axioms RS.Decoder.reset_truthful
#print axioms RS.Decoder.reset_complete
#print axioms RS.Decoder.addOriginal_truthful
#print axioms RS.Decoder.addOriginal_complete
#print axioms RS.Decoder.addRecovery_truthful
#print axioms RS.Decoder.addRecovery_complete
#print axioms RS.Decoder.decode_truthful
#print axioms RS.Decoder.decode_complete
#print axioms RS.oneShotEncode_truthful
#print axioms RS.oneShotEncode_no_panic
#print axioms RS.oneShotDecode_truthful
#print axioms RS.oneShotDecode_no_panic
