/-
  The block memory of `Shards` (Model/Blocks.lean: 64-byte blocks, 32 low bytes then 32 high bytes,
  split tail, stale bytes in the unused part of the final block) refines the lane model
  (`layout` / `unlayout` of Model/State.lean), whatever the stale bytes are.

  * `bLane_bXor`, `bLane_bMul`      : the kernels act lane-wise on (byte i, byte i+32) pairs,
  * `bLane_bInsert`                 : after `insert`, the data lanes hold `layout sb shard`,
  * `bLane_bInsert_stale`           : the other lanes keep their old content,
  * `bSlice_bUndoLast`              : the exposed bytes are `unlayout` of the data lanes only,
  * `bSlice_bUndoLast_bInsert`      : round trip through the real memory layout.
  Core Lean only.
-/
import RSVerif.Proofs.Layout
import RSVerif.Model.Blocks

namespace RS

/-! ### access -/

theorem block_getD (b : Block) (j : Nat) (h : j < 64) : b.toArray.getD j 0#8 = b[j] := by
  have : j < b.toArray.size := by rw [Vector.size_toArray]; exact h
  rw [Array.getD_eq_getD_getElem?, Array.getElem?_eq_getElem this]
  rfl

theorem ofFn_getD {n : Nat} (f : Fin n → Block) (q : Nat) (h : q < n) (d : Block) :
    (Array.ofFn f).getD q d = f ⟨q, h⟩ := by
  have : q < (Array.ofFn f).size := by rw [Array.size_ofFn]; exact h
  rw [Array.getD_eq_getD_getElem?, Array.getElem?_eq_getElem this, Array.getElem_ofFn]
  rfl

/-- the symbol made of a low and a high byte -/
def symOfBytes (l h : Byte) : Sym := BitVec.ofNat 16 (l.toNat + 256 * h.toNat)

theorem symOfBytes_toNat (l h : Byte) : (symOfBytes l h).toNat = l.toNat + 256 * h.toNat := by
  unfold symOfBytes
  rw [BitVec.toNat_ofNat]
  have := l.isLt
  have := h.isLt
  omega

theorem symOfBytes_getLsbD (l h : Byte) (j : Nat) :
    (symOfBytes l h).getLsbD j = if j < 8 then l.getLsbD j else h.getLsbD (j - 8) := by
  unfold symOfBytes
  rw [BitVec.getLsbD_ofNat, Nat.add_comm]
  have := Nat.testBit_two_pow_mul_add h.toNat (b := l.toNat) (i := 8) l.isLt j
  rw [show (2 : Nat) ^ 8 = 256 from rfl] at this
  rw [this]
  by_cases h8 : j < 8
  · have : j < 16 := by omega
    simp [h8, this, BitVec.getLsbD]
  · simp only [h8, if_false]
    by_cases h16 : j < 16
    · simp [h16, BitVec.getLsbD]
    · have : 8 ≤ j - 8 := by omega
      simp only [h16, decide_false, Bool.false_and]
      exact (Nat.testBit_lt_two_pow (Nat.lt_of_lt_of_le h.isLt
        (Nat.pow_le_pow_right (by decide) this))).symm

theorem symOfBytes_xor (l1 l2 h1 h2 : Byte) :
    symOfBytes (l1 ^^^ l2) (h1 ^^^ h2) = symOfBytes l1 h1 ^^^ symOfBytes l2 h2 := by
  apply BitVec.eq_of_getLsbD_eq
  intro j _
  rw [BitVec.getLsbD_xor, symOfBytes_getLsbD, symOfBytes_getLsbD, symOfBytes_getLsbD]
  split <;> rw [BitVec.getLsbD_xor]

theorem symOfBytes_split (t : Sym) :
    symOfBytes (BitVec.ofNat 8 (t.toNat % 256)) (BitVec.ofNat 8 (t.toNat / 256)) = t := by
  apply BitVec.eq_of_toNat_eq
  rw [symOfBytes_toNat]
  simp only [BitVec.toNat_ofNat]
  have := t.isLt
  omega

/-- `bLane` in terms of block `l / 32` and its bytes `l % 32`, `l % 32 + 32` -/
theorem bLane_eq (s : BShard) (l : Nat) :
    bLane s l = symOfBytes ((s.getD (l / 32) (Vector.replicate 64 0#8))[l % 32]'(by omega))
                           ((s.getD (l / 32) (Vector.replicate 64 0#8))[l % 32 + 32]'(by omega)) := by
  unfold bLane symOfBytes
  simp only []
  rw [block_getD _ _ (by omega), block_getD _ _ (by omega)]

/-! ### 6. lane-wise kernels -/

/-- `utils::xor` is lane-wise: lane `l` of the result depends on lane `l` of the inputs only -/
theorem bLane_bXor (x y : BShard) (l : Nat) (hl : l < 32 * x.size) :
    bLane (bXor x y) l = bLane x l ^^^ bLane y l := by
  have hq : l / 32 < x.size := by omega
  rw [bLane_eq, bLane_eq, bLane_eq, ← symOfBytes_xor]
  have hb : (bXor x y).getD (l / 32) (Vector.replicate 64 0#8) =
      Vector.zipWith (· ^^^ ·) (x.getD (l / 32) (Vector.replicate 64 0#8))
        (y.getD (l / 32) (Vector.replicate 64 0#8)) := by
    unfold bXor
    rw [ofFn_getD _ _ hq]
  simp only [hb, Vector.getElem_zipWith]

/-- every multiply kernel is lane-wise: lane `l` of the result is the symbol-level kernel applied
    to lane `l` of the input -/
theorem bLane_bMul (f : Sym → Sym) (x : BShard) (l : Nat) (hl : l < 32 * x.size) :
    bLane (bMul f x) l = f (bLane x l) := by
  have hq : l / 32 < x.size := by omega
  have hb : (bMul f x).getD (l / 32) (Vector.replicate 64 0#8) =
      Vector.ofFn fun j : Fin 64 =>
        let b := x.getD (l / 32) (Vector.replicate 64 0#8)
        let i := j.val % 32
        let s : Sym := BitVec.ofNat 16 ((b.toArray.getD i 0#8).toNat + 256 * (b.toArray.getD (i + 32) 0#8).toNat)
        if j.val < 32 then BitVec.ofNat 8 ((f s).toNat % 256) else BitVec.ofNat 8 ((f s).toNat / 256) := by
    unfold bMul
    rw [ofFn_getD _ _ hq]
  rw [bLane_eq (bMul f x)]
  simp only [hb, Vector.getElem_ofFn]
  have h1 : l % 32 % 32 = l % 32 := by omega
  have h2 : (l % 32 + 32) % 32 = l % 32 := by omega
  have h3 : l % 32 < 32 := by omega
  have h4 : ¬ l % 32 + 32 < 32 := by omega
  simp only [h1, h2, h3, h4, if_true, if_false]
  rw [symOfBytes_split]
  rfl

/-! ### 4. `insert` -/

theorem bInsert_size (old : BShard) (shard : Array Nat) : (bInsert old shard).size = old.size := by
  unfold bInsert; exact Array.size_ofFn

theorem ofNat8_toNat (n : Nat) : (BitVec.ofNat 8 n).toNat = n % 256 := by
  rw [BitVec.toNat_ofNat]

theorem bInsert_getD (old : BShard) (shard : Array Nat) (q : Nat) (hq : q < old.size) (d : Block) :
    (bInsert old shard).getD q d =
      if q < shard.size / 64 then
        Vector.ofFn fun j : Fin 64 => BitVec.ofNat 8 (shard.getD (64 * q + j.val) 0)
      else if q = shard.size / 64 ∧ shard.size % 64 > 0 then
        Vector.ofFn fun j : Fin 64 =>
          if j.val < shard.size % 64 / 2 then BitVec.ofNat 8 (shard.getD (64 * (shard.size / 64) + j.val) 0)
          else if 32 ≤ j.val ∧ j.val < 32 + shard.size % 64 / 2 then
            BitVec.ofNat 8 (shard.getD (64 * (shard.size / 64) + shard.size % 64 / 2 + (j.val - 32)) 0)
          else (old.getD q (Vector.replicate 64 0#8))[j]
      else old.getD q (Vector.replicate 64 0#8) := by
  unfold bInsert
  rw [ofFn_getD _ _ hq]

/-- after `Shards::insert`, the data lanes hold the symbols of the documented layout -/
theorem bLane_bInsert (sb : Nat) (hsb : sb % 2 = 0) (old : BShard) (hold : old.size = (sb + 63) / 64)
    (shard : Array Nat) (hs : shard.size = sb) (l : Nat) (hl : l < sb / 2) :
    bLane (bInsert old shard) l = (layout sb shard)[l] := by
  subst hs
  have hq : l / 32 < old.size := by omega
  rw [layout_getElem _ _ _ hl, bLane_eq, bInsert_getD _ _ _ hq]
  apply BitVec.eq_of_toNat_eq
  rw [symOfBytes_toNat, BitVec.toNat_ofNat]
  by_cases hw : l / 32 < shard.size / 64
  · simp only [if_pos hw, Vector.getElem_ofFn, ofNat8_toNat]
    have e1 : 64 * (l / 32) + l % 32 = loIdx l := rfl
    have e2 : 64 * (l / 32) + (l % 32 + 32) = hiIdx shard.size l := by
      unfold hiIdx; rw [if_pos hw]; omega
    rw [e1, e2]
    omega
  · have hw2 : l / 32 = shard.size / 64 ∧ shard.size % 64 > 0 := by omega
    simp only [if_neg hw, if_pos hw2, Vector.getElem_ofFn]
    have c1 : l % 32 < shard.size % 64 / 2 := by omega
    have c2 : ¬ l % 32 + 32 < shard.size % 64 / 2 := by omega
    have c3 : 32 ≤ l % 32 + 32 ∧ l % 32 + 32 < 32 + shard.size % 64 / 2 := by omega
    simp only [if_pos c1, if_neg c2, if_pos c3, ofNat8_toNat]
    have e1 : 64 * (shard.size / 64) + l % 32 = loIdx l := by unfold loIdx; omega
    have e2 : 64 * (shard.size / 64) + shard.size % 64 / 2 + (l % 32 + 32 - 32) = hiIdx shard.size l := by
      unfold hiIdx; rw [if_neg hw]; omega
    rw [e1, e2]
    omega

/-- the lanes beyond the data (only in the final partial block) keep their stale content -/
theorem bLane_bInsert_stale (sb : Nat) (hsb : sb % 2 = 0) (old : BShard)
    (shard : Array Nat) (hs : shard.size = sb) (l : Nat) (hl : sb / 2 ≤ l) (hl2 : l < 32 * old.size) :
    bLane (bInsert old shard) l = bLane old l := by
  subst hs
  have hq : l / 32 < old.size := by omega
  rw [bLane_eq, bLane_eq, bInsert_getD _ _ _ hq]
  have hw : ¬ l / 32 < shard.size / 64 := by omega
  by_cases hw2 : l / 32 = shard.size / 64 ∧ shard.size % 64 > 0
  · simp only [if_neg hw, if_pos hw2, Vector.getElem_ofFn]
    have c1 : ¬ l % 32 < shard.size % 64 / 2 := by omega
    have c2 : ¬ l % 32 + 32 < shard.size % 64 / 2 := by omega
    have c3 : ¬ (32 ≤ l % 32 ∧ l % 32 < 32 + shard.size % 64 / 2) := by omega
    have c4 : ¬ (32 ≤ l % 32 + 32 ∧ l % 32 + 32 < 32 + shard.size % 64 / 2) := by omega
    simp only [if_neg c1, if_neg c2, if_neg c3, if_neg c4, Fin.getElem_fin]
  · simp only [if_neg hw, if_neg hw2]

/-! ### 5. `undo_last_chunk_encoding` and the exposed slice -/

theorem bLane_lo (s : BShard) (q o : Nat) (ho : o < 32) :
    (bLane s (32 * q + o)).toNat % 256 = ((s.getD q (Vector.replicate 64 0#8))[o]'(by omega)).toNat := by
  have e1 : (32 * q + o) / 32 = q := by omega
  have e2 : (32 * q + o) % 32 = o := by omega
  rw [bLane_eq, symOfBytes_toNat]
  simp only [e1, e2]
  have := ((s.getD q (Vector.replicate 64 0#8))[o]'(by omega)).isLt
  omega

theorem bLane_hi (s : BShard) (q o : Nat) (ho : o < 32) :
    (bLane s (32 * q + o)).toNat / 256 = ((s.getD q (Vector.replicate 64 0#8))[o + 32]'(by omega)).toNat := by
  have e1 : (32 * q + o) / 32 = q := by omega
  have e2 : (32 * q + o) % 32 = o := by omega
  rw [bLane_eq, symOfBytes_toNat]
  simp only [e1, e2]
  have := ((s.getD q (Vector.replicate 64 0#8))[o]'(by omega)).isLt
  have := ((s.getD q (Vector.replicate 64 0#8))[o + 32]'(by omega)).isLt
  omega

theorem bUndoLast_size (s : BShard) (sb : Nat) : (bUndoLast s sb).size = s.size := by
  unfold bUndoLast
  simp only []
  split
  · rfl
  · exact Array.size_ofFn

theorem bUndoLast_getD (s : BShard) (sb q : Nat) (hq : q < s.size) :
    (bUndoLast s sb).getD q (Vector.replicate 64 0#8) =
      if sb % 64 ≠ 0 ∧ q = sb / 64 then
        Vector.ofFn fun j : Fin 64 =>
          if sb % 64 / 2 ≤ j.val ∧ j.val < sb % 64 / 2 + sb % 64 / 2 then
            (s.getD q (Vector.replicate 64 0#8)).toArray.getD (32 + (j.val - sb % 64 / 2)) 0#8
          else (s.getD q (Vector.replicate 64 0#8))[j]
      else s.getD q (Vector.replicate 64 0#8) := by
  unfold bUndoLast
  simp only []
  by_cases ht : sb % 64 = 0
  · rw [if_pos ht, if_neg (by omega)]
  · rw [if_neg ht, ofFn_getD _ _ hq]
    by_cases hw : q = sb / 64
    · rw [if_pos hw, if_pos ⟨ht, hw⟩]
    · rw [if_neg hw, if_neg (by omega)]

theorem bSlice_size (s : BShard) (sb : Nat) : (bSlice s sb).size = sb := by
  unfold bSlice; exact Array.size_ofFn

theorem bSlice_getElem (s : BShard) (sb i : Nat) (h : i < (bSlice s sb).size) :
    (bSlice s sb)[i] =
      ((s.getD (i / 64) (Vector.replicate 64 0#8))[i % 64]'(by omega)).toNat := by
  simp only [bSlice, Array.getElem_ofFn]
  rw [block_getD _ _ (by omega)]

/-- byte `i` of the slice exposed after `undo_last_chunk_encoding`, in terms of the lanes of the
    shard memory before it: the low or high byte of lane `byteLane sb i`, a data lane -/
theorem bSlice_bUndoLast_getElem (sb : Nat) (hsb : sb % 2 = 0) (s : BShard)
    (hsz : s.size = (sb + 63) / 64) (i : Nat) (hi : i < sb) (h : i < (bSlice (bUndoLast s sb) sb).size) :
    (bSlice (bUndoLast s sb) sb)[i] =
      if (byteLane sb i).2 then (bLane s (byteLane sb i).1).toNat / 256
      else (bLane s (byteLane sb i).1).toNat % 256 := by
  have hq : i / 64 < s.size := by omega
  rw [bSlice_getElem, bUndoLast_getD _ _ _ hq, byteLane_eq]
  by_cases hw : i / 64 < sb / 64
  · have hn : ¬ (sb % 64 ≠ 0 ∧ i / 64 = sb / 64) := by omega
    simp only [if_neg hn, if_pos hw]
    by_cases ho : i % 64 < 32
    · simp only [if_pos ho, Bool.false_eq_true, if_false]
      rw [bLane_lo _ _ _ ho]
    · simp only [if_neg ho, if_true]
      rw [bLane_hi _ _ _ (by omega)]
      have e : i % 64 - 32 + 32 = i % 64 := by omega
      simp only [e]
  · have hp : sb % 64 ≠ 0 ∧ i / 64 = sb / 64 := by omega
    simp only [if_pos hp, if_neg hw, Vector.getElem_ofFn]
    by_cases ho : i % 64 < sb % 64 / 2
    · have c : ¬ (sb % 64 / 2 ≤ i % 64 ∧ i % 64 < sb % 64 / 2 + sb % 64 / 2) := by omega
      simp only [if_pos ho, if_neg c, Bool.false_eq_true, if_false, Fin.getElem_fin]
      rw [bLane_lo _ _ _ (by omega)]
    · have c : sb % 64 / 2 ≤ i % 64 ∧ i % 64 < sb % 64 / 2 + sb % 64 / 2 := by omega
      simp only [if_neg ho, if_pos c, if_true]
      rw [bLane_hi _ _ _ (by omega), block_getD _ _ (by omega)]
      have e : 32 + (i % 64 - sb % 64 / 2) = i % 64 - sb % 64 / 2 + 32 := by omega
      simp only [e]

/-- The bytes exposed by `undo_last_chunk_encoding` + `as_flattened()[..shard_bytes]` are `unlayout`
    of the data lanes: they never depend on the stale lanes of the final block. -/
theorem bSlice_bUndoLast (sb : Nat) (hsb : sb % 2 = 0) (s : BShard) (hsz : s.size = (sb + 63) / 64)
    (v : Vector Sym (sb / 2)) (hv : ∀ l (h : l < sb / 2), bLane s l = v[l]) :
    bSlice (bUndoLast s sb) sb = unlayout sb v := by
  apply Array.ext
  · rw [bSlice_size, unlayout_size]
  · intro i h1 h2
    have hi : i < sb := by rw [bSlice_size] at h1; exact h1
    have hl := byteLane_lt hsb hi
    rw [bSlice_bUndoLast_getElem sb hsb s hsz i hi, unlayout_getElem, vec_getD _ _ hl, hv _ hl]

/-- two shard memories with the same data lanes expose the same bytes (any stale content) -/
theorem bSlice_bUndoLast_congr (sb : Nat) (hsb : sb % 2 = 0) (s s' : BShard)
    (hsz : s.size = (sb + 63) / 64) (hsz' : s'.size = (sb + 63) / 64)
    (h : ∀ l, l < sb / 2 → bLane s l = bLane s' l) :
    bSlice (bUndoLast s sb) sb = bSlice (bUndoLast s' sb) sb := by
  rw [bSlice_bUndoLast sb hsb s hsz (Vector.ofFn fun l => bLane s' l.val)
        (fun l hl => by rw [Vector.getElem_ofFn]; exact h l hl),
      bSlice_bUndoLast sb hsb s' hsz' (Vector.ofFn fun l => bLane s' l.val)
        (fun l hl => by rw [Vector.getElem_ofFn])]

/-- Round trip through the real memory layout: `insert`, `undo_last_chunk_encoding`, slice gives the
    shard back, whatever the previous (stale) content of the blocks was. -/
theorem bSlice_bUndoLast_bInsert (sb : Nat) (hsb : sb % 2 = 0) (old : BShard)
    (hold : old.size = (sb + 63) / 64) (shard : Array Nat) (hs : shard.size = sb)
    (hbyte : ∀ i, i < sb → shard.getD i 0 < 256) :
    bSlice (bUndoLast (bInsert old shard) sb) sb = shard := by
  rw [bSlice_bUndoLast sb hsb (bInsert old shard) (by rw [bInsert_size, hold]) (layout sb shard)
        (fun l hl => bLane_bInsert sb hsb old hold shard hs l hl)]
  exact unlayout_layout hsb hs hbyte

end RS

#print axioms RS.bLane_bXor
#print axioms RS.bLane_bMul
#print axioms RS.bLane_bInsert
#print axioms RS.bLane_bInsert_stale
#print axioms RS.bSlice_bUndoLast
#print axioms RS.bSlice_bUndoLast_congr
#print axioms RS.bSlice_bUndoLast_bInsert
