/-
  Shape of the decoder's answer (bookkeeping level): exposed indexes, sizes, totality.
-/
import RSVerif.Model.State

namespace RS

theorem restoredList_indices_aux (w : DecWork) (l : List Nat) (hl : ∀ i ∈ l, i < w.k) :
    (l.filterMap fun i => (w.restoredOriginal i).map fun s => (i, s)).map (·.1)
      = l.filter fun i => !(w.recvAt (w.obase + i)) := by
  induction l with
  | nil => simp
  | cons i is ih =>
    have hk : i < w.k := hl i (by simp)
    have ih' := ih (fun j hj => hl j (by simp [hj]))
    simp only [List.filterMap_cons, List.filter_cons]
    by_cases h : w.recvAt (w.obase + i) = true
    · have hn : w.restoredOriginal i = none := by
        unfold DecWork.restoredOriginal; simp [h]
      simp [hn, h, ih']
    · have hf : w.recvAt (w.obase + i) = false := by simpa using h
      have hs : ∃ s, w.restoredOriginal i = some s := by
        unfold DecWork.restoredOriginal; simp [hk, hf]
      obtain ⟨s, hs⟩ := hs
      simp [hs, hf, ih']

/-- The result object exposes exactly the in-range originals that were not given, ascending. -/
theorem restoredList_indices (w : DecWork) :
    w.restoredList.map (·.1) = (List.range w.k).filter fun i => !(w.recvAt (w.obase + i)) := by
  unfold DecWork.restoredList
  exact restoredList_indices_aux w _ (fun i hi => List.mem_range.mp hi)

/-- every exposed shard has exactly `shard_bytes` bytes -/
theorem restoredOriginal_size (w : DecWork) (i : Nat) (s : Array Nat)
    (h : w.restoredOriginal i = some s) : s.size = w.sb := by
  unfold DecWork.restoredOriginal at h
  split at h
  · simp only [Option.some.injEq] at h
    subst h
    simp [unlayout]
  · simp at h

/-- With at least `k` shards added the decoder answers `ok`: no error and no panic. -/
theorem decode_ok_of_enough (lw : Array Nat) (d : Decoder) (rate : Rate) (w : DecWork)
    (hin : d.inner = .some rate w) (henough : w.k ≤ w.orecv + w.rrecv) :
    ∃ out d', d.decode lw = (.ok out, d') := by
  unfold Decoder.decode
  rw [hin]
  simp only
  have : ¬ (w.orecv + w.rrecv < w.k) := by omega
  simp only [this, if_false]
  split <;> exact ⟨_, _, rfl⟩

end RS
