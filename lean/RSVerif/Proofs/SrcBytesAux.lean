/-
  Closed forms of the translated `Shards::insert` / `Shards::undo_last_chunk_encoding` (Gen/SrcBytes.lean) on the header
  of a well-formed model memory: the lists of byte copies they return. Used by Proofs/SrcBytesSpec.lean.
-/
import RSVerif.Gen.SrcBytes
import RSVerif.Model.Flat
import RSVerif.Proofs.SrcShardsSpec

set_option linter.unusedSimpArgs false

namespace RS.SrcS
open RS RS.RustS RS.RustB

theorem bind_ite' {α β} (c : Prop) [Decidable c] (a : α) (k : α → Option β) :
    (if c then some a else none).bind k = if c then k a else none := by
  split <;> rfl

theorem hdr_len' (f : Flat) : (hdr f).shard_len_64 = f.len64 := by cases f; rfl
theorem hdr_data' (f : Flat) : (hdr f).data = ⟨0, f.data.size⟩ := by cases f; rfl

theorem View.upTo_mk (o l b : Nat) : View.upTo ⟨o, l⟩ b = if b ≤ l then some ⟨o, b⟩ else none := rfl
theorem BView.ofBlocks_mk (o l : Nat) : BView.ofBlocks ⟨o, l⟩ = ⟨64 * o, 64 * l⟩ := rfl
theorem BView.block_mk (o l i : Nat) : BView.block ⟨o, l⟩ i = if i < l then some ⟨64 * (o + i), 64⟩ else none := rfl
theorem BView.upTo_mk (o l b : Nat) : BView.upTo ⟨o, l⟩ b = if b ≤ l then some ⟨o, b⟩ else none := rfl
theorem BView.splitAt_mk (o l m : Nat) :
    BView.splitAt ⟨o, l⟩ m = if m ≤ l then some (⟨o, m⟩, ⟨o + m, l - m⟩) else none := rfl
theorem BView.copyFromSlice_mk (o l o' l' : Nat) :
    BView.copyFromSlice ⟨o, l⟩ ⟨o', l'⟩ = if l = l' then some (o, o', l) else none := rfl
theorem BView.copyWithin_mk (o l a b d : Nat) :
    BView.copyWithin ⟨o, l⟩ a b d = if a ≤ b ∧ b ≤ l ∧ d + (b - a) ≤ l then some (o + d, o + a, b - a) else none := rfl

theorem index_mut_some (f : Flat) (hwf : f.WF) (hs : f.data.size < 18446744073709551616) (i : Nat)
    (hi : i < f.count) (hidx : i + 1 < 18446744073709551616) :
    Shards_index_mut (hdr f) i = some ⟨i * f.len64, f.len64⟩ := by
  have h1 : (i + 1) * f.len64 ≤ f.count * f.len64 := Nat.mul_le_mul_right _ hi
  have h2 : (i + 1) * f.len64 = i * f.len64 + f.len64 := by rw [Nat.add_mul, Nat.one_mul]
  unfold Flat.WF at hwf
  simp only [Shards_index_mut, View.range]
  simp only [hdr_len', hdr_data']
  simp (disch := omega) only [if_pos, bind_ite', Option.bind_some]
  congr 2 <;> omega

theorem insert_closed (f : Flat) (hwf : f.WF) (hs : f.data.size < 18446744073709551616) (i : Nat)
    (hi : i < f.count) (hidx : i + 1 < 18446744073709551616) (n : Nat) (hn : n ≤ 64 * f.len64) :
    Shards_insert (hdr f) i n =
      some ((64 * (i * f.len64), 0, 64 * (n / 64)) ::
        if n % 64 > 0 then
          [(64 * (i * f.len64 + n / 64), 64 * (n / 64), n % 64 / 2),
           (64 * (i * f.len64 + n / 64) + 32, 64 * (n / 64) + n % 64 / 2, n % 64 - n % 64 / 2)]
        else []) := by
  unfold Shards_insert
  rw [index_mut_some f hwf hs i hi hidx]
  simp only [BView.splitAt_mk, View.upTo_mk, BView.copyFromSlice_mk, BView.ofBlocks_mk, BView.block_mk, BView.upTo_mk,
    Option.bind_some, bind_ite']
  have e : 64 * (n / 64) = n - n % 64 := by omega
  by_cases ht : n % 64 > 0
  · simp only [if_pos ht]
    simp (disch := omega) only [if_pos, bind_ite', Option.bind_some]
    simp only [if_true, Option.bind_some, List.nil_append, List.cons_append, Nat.zero_add]
    rw [← e, show n - 64 * (n / 64) = n % 64 by omega]
  · simp only [if_neg ht]
    simp (disch := omega) only [if_pos, bind_ite', Option.bind_some]
    rfl


theorem insert_none (f : Flat) (hwf : f.WF) (hs : f.data.size < 18446744073709551616) (i : Nat)
    (hi : i < f.count) (hidx : i + 1 < 18446744073709551616) (n : Nat) (hn : 64 * f.len64 < n) :
    Shards_insert (hdr f) i n = none := by
  unfold Shards_insert
  rw [index_mut_some f hwf hs i hi hidx]
  simp only [BView.splitAt_mk, View.upTo_mk, BView.copyFromSlice_mk, BView.ofBlocks_mk, BView.block_mk, BView.upTo_mk,
    Option.bind_some, bind_ite']
  by_cases hw : n / 64 ≤ f.len64
  · have ht : n % 64 > 0 := by omega
    have hb : ¬ n / 64 < f.len64 := by omega
    simp only [if_pos ht, if_neg hb]
    simp (disch := omega) only [if_pos, bind_ite', Option.bind_some, Option.bind_none]
  · simp only [if_neg hw]
    simp (disch := omega) only [if_pos, bind_ite', Option.bind_some, Option.bind_none]

/-- the move `undo_last_chunk_encoding` performs in shard `idx` -/
def undoMove (L sb idx : Nat) : Copy :=
  (64 * (idx * L + sb / 64) + sb % 64 / 2, 64 * (idx * L + sb / 64) + 32, sb % 64 / 2)

/-- the body of the loop of `undo_last_chunk_encoding` -/
def undoStep (self : ShardsS) (w t : Nat) (acc0 : List Copy) (idx_6 : Nat) : Option (List Copy) :=
  (Shards_index_mut self idx_6).bind fun v_8 =>
  (BView.block v_8 w).bind fun b_7 =>
  (if 2 ≠ 0 then some (t / 2) else none).bind fun n_10 =>
  (if 32 + n_10 < 18446744073709551616 then some (32 + n_10) else none).bind fun n_11 =>
  (if 2 ≠ 0 then some (t / 2) else none).bind fun n_12 =>
  (BView.copyWithin b_7 32 n_11 n_12).bind fun c =>
  (some (acc0 ++ [c])).bind fun acc_9 =>
  some acc_9

theorem undo_unfold (self : ShardsS) (sb a b : Nat) :
    Shards_undo_last_chunk_encoding self sb (a, b) =
      if sb % 64 = 0 then some [] else
        ((List.range' a (b - a)).foldlM (undoStep self (sb / 64) (sb % 64)) []).bind some := rfl

theorem undo_step (f : Flat) (hwf : f.WF) (hs : f.data.size < 18446744073709551616) (sb : Nat)
    (hsb : sb ≤ 64 * f.len64) (ht : sb % 64 ≠ 0) (idx : Nat) (hi : idx < f.count) (acc : List Copy) :
    undoStep (hdr f) (sb / 64) (sb % 64) acc idx = some (acc ++ [undoMove f.len64 sb idx]) := by
  have hL : 0 < f.len64 := by omega
  have hc : f.count ≤ f.count * f.len64 := Nat.le_mul_of_pos_right _ hL
  have hidx : idx + 1 < 18446744073709551616 := by unfold Flat.WF at hwf; omega
  unfold undoStep
  rw [index_mut_some f hwf hs idx hi hidx]
  simp only [BView.block_mk, BView.copyWithin_mk, Option.bind_some, bind_ite']
  simp (disch := omega) only [if_pos, bind_ite', Option.bind_some]
  simp only [undoMove]
  congr 5
  omega

theorem undo_fold (f : Flat) (hwf : f.WF) (hs : f.data.size < 18446744073709551616) (sb : Nat)
    (hsb : sb ≤ 64 * f.len64) (ht : sb % 64 ≠ 0) (l : List Nat) (hl : ∀ idx, idx ∈ l → idx < f.count)
    (acc : List Copy) :
    l.foldlM (undoStep (hdr f) (sb / 64) (sb % 64)) acc = some (acc ++ l.map (undoMove f.len64 sb)) := by
  induction l generalizing acc with
  | nil => simp
  | cons idx l ih =>
    rw [List.foldlM_cons, undo_step f hwf hs sb hsb ht idx (hl idx (List.mem_cons_self))]
    show (some _).bind _ = _
    rw [Option.bind_some, ih (fun k hk => hl k (List.mem_cons_of_mem _ hk))]
    simp only [List.map_cons, List.append_assoc, List.singleton_append]

theorem undo_closed (f : Flat) (hwf : f.WF) (hs : f.data.size < 18446744073709551616) (sb a b : Nat)
    (hb : b ≤ f.count) (hsb : sb ≤ 64 * f.len64) :
    Shards_undo_last_chunk_encoding (hdr f) sb (a, b) =
      some (if sb % 64 = 0 then [] else (List.range' a (b - a)).map (undoMove f.len64 sb)) := by
  rw [undo_unfold]
  by_cases ht : sb % 64 = 0
  · simp only [ht, if_true]
  · simp only [ht, if_false]
    rw [undo_fold f hwf hs sb hsb ht]
    · rfl
    · intro idx hidx
      rw [List.mem_range'_1] at hidx
      omega
end RS.SrcS
