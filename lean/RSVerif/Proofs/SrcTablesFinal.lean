/-
  Glue between the translated table initialisers (Proofs/SrcTablesSpec.lean, Proofs/SrcUtilsSpec.lean) and the
  characterised tables (Proofs/TableInitSpec.lean): the constructed tables have 65536 16-bit entries, so the
  hypotheses of the translation theorems hold for them.
-/
import RSVerif.Proofs.TableInitSpec
import RSVerif.Proofs.SrcUtilsSpec
import RSVerif.Proofs.SrcTablesSpec
import RSVerif.Proofs.SrcMulSpec
import RSVerif.Model.Simd

namespace RS

/-- reading past the end of an array gives the default -/
theorem getD_ge_size (a : Array Nat) (i : Nat) (h : a.size ≤ i) : a.getD i 0 = 0 := by
  simp [Array.getD, show ¬ i < a.size by omega]

/-- clearing entry 0 keeps all entries 16-bit -/
theorem set0_u16 (a : Array Nat) (h : ∀ j, a.getD j 0 < 65536) : ∀ j, (a.setIfInBounds 0 0).getD j 0 < 65536 := by
  intro j
  by_cases hj : j < a.size
  · by_cases h0 : j = 0
    · subst h0
      have : (a.setIfInBounds 0 0).getD 0 0 = 0 := by
        simp [Array.getD, Array.size_setIfInBounds, hj]
      omega
    · have : (a.setIfInBounds 0 0).getD j 0 = a.getD j 0 := by
        simp [Array.getD, Array.size_setIfInBounds, hj, Ne.symm h0]
      rw [this]; exact h j
  · have : (a.setIfInBounds 0 0).getD j 0 = 0 :=
      getD_ge_size _ j (by rw [Array.size_setIfInBounds]; omega)
    omega

/-- the entries of the constructed `exp` / `log` tables are 16-bit values -/
theorem initExpLog_u16 : (∀ i, initExpLog.1.getD i 0 < 65536) ∧ (∀ i, initExpLog.2.getD i 0 < 65536) := by
  constructor
  · intro i
    by_cases hi : i < 65536
    · rw [initExpLog_exp i hi]; exact (gexp i).isLt
    · have := getD_ge_size initExpLog.1 i (by rw [initExpLog_exp_size]; omega)
      omega
  · intro i
    by_cases hi : i < 65536
    · by_cases h0 : i = 0
      · subst h0; rw [initExpLog_log_zero]; omega
      · rw [initExpLog_log_eq]; have := (logArr_getD_lt hi h0).1; omega
    · have := getD_ge_size initExpLog.2 i (by rw [initExpLog_log_size]; omega)
      omega

/-- `LOG_WALSH` has 65536 16-bit entries -/
theorem logWalshArr_u16 : logWalshArr.size = 65536 ∧ ∀ i, logWalshArr.getD i 0 < 65536 := by
  have hl : lgArr = initExpLog.2.setIfInBounds 0 0 := by rw [initExpLog_log_eq]; rfl
  constructor
  · rw [logWalshArr_def, RS.SrcU.UAux.fwht_size, hl, Array.size_setIfInBounds]; exact initExpLog_log_size
  · rw [logWalshArr_def, hl]
    exact RS.SrcU.UAux.fwht_u16 _ 65536 (set0_u16 _ initExpLog_u16.2)

/-- the 16 bytes of row `k` of entry `logm` of a flattened `lo` / `hi` table, as the SIMD kernels load them -/
def rowOfTable (t : Array Nat) (logm k : Nat) : V128 :=
  Vector.ofFn fun (x : Fin 16) => BitVec.ofNat 8 (t.getD ((logm * 4 + k) * 16 + x.val) 0)

/-- the translated `initialize_mul16` / `initialize_mul128` on the constructed `exp` / `log` tables: every entry is the
    nibble product of the model, so the rows the SIMD kernels load are `lutLo` / `lutHi` of the multiplier
    `g^logm` — the parameter `Proofs/SrcKernelSpec.lean` assumes -/
theorem src_mul_tables :
    (∃ t, RS.SrcU.U_initialize_mul16 initExpLog.1 initExpLog.2 = some t ∧
      ∀ logm k i, logm ≤ 65535 → k < 4 → i < 16 →
        t.getD ((logm * 4 + k) * 16 + i) 0 = (lut16 (fun y => gmul (gexp logm) y) k i).toNat) ∧
    (∃ lo hi, RS.SrcU.U_initialize_mul128 initExpLog.1 initExpLog.2 = some (lo, hi) ∧
      ∀ logm k, logm ≤ 65535 → k < 4 →
        rowOfTable lo logm k = lutLo (fun y => gmul (gexp logm) y) k ∧
        rowOfTable hi logm k = lutHi (fun y => gmul (gexp logm) y) k) := by
  have hu := initExpLog_u16
  constructor
  · obtain ⟨t, h1, _, h3⟩ := RS.SrcU.src_initialize_mul16 _ _ initExpLog_exp_size initExpLog_log_size hu.1 hu.2
    refine ⟨t, h1, fun logm k i hm hk hi => ?_⟩
    rw [h3 logm k i (by omega) hk hi, initMul16Entry_initExpLog logm k i hm hk hi]
  · have h := RS.SrcU.src_initialize_mul128 _ _ initExpLog_exp_size initExpLog_log_size hu.1 hu.2
    obtain ⟨lo, hi, h1, _, _, h4⟩ := h
    refine ⟨lo, hi, h1, fun logm k hm hk => ⟨?_, ?_⟩⟩
    · apply Vector.ext
      intro x hx
      have := (h4 logm k x (by omega) hk hx).1
      simp only [rowOfTable, lutLo, Vector.getElem_ofFn]
      rw [this, initMul16Entry_initExpLog logm k x hm hk hx]
    · apply Vector.ext
      intro x hx
      have := (h4 logm k x (by omega) hk hx).2
      simp only [rowOfTable, lutHi, Vector.getElem_ofFn]
      rw [this, initMul16Entry_initExpLog logm k x hm hk hx]

end RS
