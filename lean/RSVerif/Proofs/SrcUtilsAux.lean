/-
  Lemmas for Proofs/SrcUtilsSpec.lean: the translated integer code of Gen/SrcUtils.lean against the model.
  `fwht_4` in range overwrites one orbit with its butterfly; a sequential pass keeps the invariant `Inv`
  (orbits with base below the cursor hold the model layer's values, all others the original ones), hence equals
  `fwhtLayer`; the `while` loop makes the eight passes for any fuel ≥ 9; `zipUpdM`; the `formal_derivative` loop.
-/
import RSVerif.Gen.SrcUtils
import RSVerif.Model.Engine
import RSVerif.Model.TableInit
import RSVerif.Proofs.Walsh

namespace RS.SrcU.UAux
open RS RS.RustU RS.SrcU

theorem aux_add_mod (x y : Nat) (hx : x < 65536) (hy : y < 65536) : U_add_mod x y = some (addMod x y) := by
  unfold U_add_mod addMod
  have h1 : x + y < 4294967296 := by omega
  have h2 : x + y + (x + y) / 65536 < 4294967296 := by omega
  simp [h1, h2]

theorem aux_sub_mod (x y : Nat) : U_sub_mod x y = some (subMod x y) := by
  unfold U_sub_mod subMod
  simp

theorem aux_fwht_2 (a b : Nat) (ha : a < 65536) (hb : b < 65536) : U_fwht_2 a b = some (addMod a b, subMod a b) := by
  unfold U_fwht_2
  rw [aux_add_mod a b ha hb, aux_sub_mod a b]
  rfl

theorem getElem?_getD (a : Array Nat) (i : Nat) (h : i < a.size) : a[i]? = some (a.getD i 0) := by
  simp [Array.getD, h]

theorem getD_set! (a : Array Nat) (i v p : Nat) (hi : i < a.size) :
    (a.set! i v).getD p 0 = if p = i then v else a.getD p 0 := by
  simp only [Array.set!_eq_setIfInBounds, Array.getD_eq_getD_getElem?, Array.getElem?_setIfInBounds]
  by_cases h : p = i
  · subst h; simp [hi]
  · have h' : ¬ i = p := fun e => h e.symm
    simp [h, h']

theorem size_set! (a : Array Nat) (i v : Nat) : (a.set! i v).size = a.size := by
  simp

/-- the distances of the eight passes -/
def dists : List Nat := [1, 4, 16, 64, 256, 1024, 4096, 16384]

def G (d p : Nat) : Nat := p / (4 * d) * (4 * d)
def B (d p : Nat) : Nat := G d p + (p - G d p) % d
def K (d p : Nat) : Nat := (p - G d p) / d

theorem fwhtAt_eq (d t : Nat) (a : Array Nat) (p : Nat) :
    fwhtAt d t a p = if G d p < t then
      bfly4 (a.getD (B d p) 0) (a.getD (B d p + d) 0) (a.getD (B d p + 2 * d) 0) (a.getD (B d p + 3 * d) 0) (K d p)
      else a.getD p 0 := rfl

theorem orbit (d r o k : Nat) (hd : d ∈ dists) (hr : r % (4 * d) = 0) (hro : r ≤ o) (hod : o < r + d)
    (hk : k < 4) : G d (o + d * k) = r ∧ B d (o + d * k) = o ∧ K d (o + d * k) = k := by
  unfold B K G
  simp only [dists, List.mem_cons, List.mem_nil_iff, or_false] at hd
  rcases hd with h | h | h | h | h | h | h | h <;> subst h <;> omega

theorem orbit_conv (d r o p : Nat) (hd : d ∈ dists) (hr : r % (4 * d) = 0) (hro : r ≤ o) (hod : o < r + d)
    (hB : B d p = o) : p = o ∨ p = o + d ∨ p = o + d * 2 ∨ p = o + d * 3 := by
  unfold B G at hB
  simp only [dists, List.mem_cons, List.mem_nil_iff, or_false] at hd
  rcases hd with h | h | h | h | h | h | h | h <;> subst h <;> omega

theorem group_fits (d r : Nat) (hd : d ∈ dists) (hr : r % (4 * d) = 0) (hr2 : r < 65536) : r + 4 * d ≤ 65536 := by
  simp only [dists, List.mem_cons, List.mem_nil_iff, or_false] at hd
  rcases hd with h | h | h | h | h | h | h | h <;> subst h <;> omega

theorem group_end (d r p : Nat) (hd : d ∈ dists) (hr : r % (4 * d) = 0) :
    (B d p < r + d ↔ B d p < r + 4 * d) ∧ (¬ B d p < r → r ≤ G d p) ∧ (r + 4 * d) % (4 * d) = 0 := by
  unfold B G
  simp only [dists, List.mem_cons, List.mem_nil_iff, or_false] at hd
  rcases hd with h | h | h | h | h | h | h | h <;> subst h <;> omega

theorem addMod_lt (x y : Nat) (hx : x < 65536) (hy : y < 65536) : addMod x y < 65536 := (addMod_spec x y hx hy).1
theorem subMod_lt (x y : Nat) (hx : x < 65536) (hy : y < 65536) : subMod x y < 65536 := (subMod_spec x y hx hy).1

theorem bfly4_lt (v0 v1 v2 v3 k : Nat) (h0 : v0 < 65536) (h1 : v1 < 65536) (h2 : v2 < 65536) (h3 : v3 < 65536) :
    bfly4 v0 v1 v2 v3 k < 65536 := by
  unfold bfly4
  split
  · exact addMod_lt _ _ (addMod_lt _ _ h0 h1) (addMod_lt _ _ h2 h3)
  · exact addMod_lt _ _ (subMod_lt _ _ h0 h1) (subMod_lt _ _ h2 h3)
  · exact subMod_lt _ _ (addMod_lt _ _ h0 h1) (addMod_lt _ _ h2 h3)
  · exact subMod_lt _ _ (subMod_lt _ _ h0 h1) (subMod_lt _ _ h2 h3)

theorem bfly4_0 (v0 v1 v2 v3 : Nat) : bfly4 v0 v1 v2 v3 0 = addMod (addMod v0 v1) (addMod v2 v3) := by
  unfold bfly4; split <;> first | omega | (exfalso; simp at *)
theorem bfly4_1 (v0 v1 v2 v3 : Nat) : bfly4 v0 v1 v2 v3 1 = addMod (subMod v0 v1) (subMod v2 v3) := by
  unfold bfly4; split <;> first | omega | (exfalso; simp at *)
theorem bfly4_2 (v0 v1 v2 v3 : Nat) : bfly4 v0 v1 v2 v3 2 = subMod (addMod v0 v1) (addMod v2 v3) := by
  unfold bfly4; split <;> first | omega | (exfalso; simp at *)
theorem bfly4_3 (v0 v1 v2 v3 : Nat) : bfly4 v0 v1 v2 v3 3 = subMod (subMod v0 v1) (subMod v2 v3) := by
  unfold bfly4; split <;> first | omega | (exfalso; simp at *)

/-- `fwht_4` in range: the four (distinct, `0 < d`) positions of the orbit are overwritten with the butterfly of
their values. Stated pointwise, and proved without reference to the order of the four stores. -/
theorem aux_fwht_4 (st : Array Nat) (o d : Nat) (hs : st.size = 65536) (hd : 0 < d) (h : o + d * 3 < 65536)
    (h0 : st.getD o 0 < 65536) (h1 : st.getD (o + d) 0 < 65536) (h2 : st.getD (o + d * 2) 0 < 65536)
    (h3 : st.getD (o + d * 3) 0 < 65536) :
    ∃ st', U_fwht_4 st o d = some st' ∧ st'.size = st.size ∧ ∀ p, st'.getD p 0 =
      if p = o then bfly4 (st.getD o 0) (st.getD (o + d) 0) (st.getD (o + d * 2) 0) (st.getD (o + d * 3) 0) 0
      else if p = o + d then
        bfly4 (st.getD o 0) (st.getD (o + d) 0) (st.getD (o + d * 2) 0) (st.getD (o + d * 3) 0) 1
      else if p = o + d * 2 then
        bfly4 (st.getD o 0) (st.getD (o + d) 0) (st.getD (o + d * 2) 0) (st.getD (o + d * 3) 0) 2
      else if p = o + d * 3 then
        bfly4 (st.getD o 0) (st.getD (o + d) 0) (st.getD (o + d * 2) 0) (st.getD (o + d * 3) 0) 3
      else st.getD p 0 := by
  unfold U_fwht_4
  have e0 : o < 65536 := by omega
  have e1 : o + d < 65536 := by omega
  have e2 : d * 2 < 65536 := by omega
  have e3 : o + d * 2 < 65536 := by omega
  have e4 : d * 3 < 65536 := by omega
  simp only [if_pos e1, if_pos e2, if_pos e3, if_pos e4, if_pos h, Option.bind_some]
  rw [getElem?_getD st o (by omega), getElem?_getD st (o + d) (by omega),
    getElem?_getD st (o + d * 2) (by omega), getElem?_getD st (o + d * 3) (by omega)]
  simp only [Option.bind_some]
  rw [aux_fwht_2 _ _ h0 h1, Option.bind_some, aux_fwht_2 _ _ h2 h3, Option.bind_some,
    aux_fwht_2 (addMod (st.getD o 0) (st.getD (o + d) 0)) (addMod (st.getD (o + d * 2) 0) (st.getD (o + d * 3) 0))
      (addMod_lt _ _ h0 h1) (addMod_lt _ _ h2 h3), Option.bind_some,
    aux_fwht_2 (subMod (st.getD o 0) (st.getD (o + d) 0)) (subMod (st.getD (o + d * 2) 0) (st.getD (o + d * 3) 0))
      (subMod_lt _ _ h0 h1) (subMod_lt _ _ h2 h3), Option.bind_some]
  -- the four stores, in whatever order: every bound check holds (sizes are unchanged by `set!`)
  have g0 : o < st.size := by omega
  have g1 : o + d < st.size := by omega
  have g2 : o + d * 2 < st.size := by omega
  have g3 : o + d * 3 < st.size := by omega
  simp only [size_set!, if_pos g0, if_pos g1, if_pos g2, if_pos g3, Option.bind_some]
  refine ⟨_, rfl, ?_, ?_⟩
  · simp only [size_set!]
  · intro p
    -- decide which (if any) of the four distinct positions `p` is, then evaluate both `if` chains
    by_cases c0 : p = o
    · have c1 : ¬ p = o + d := by omega
      have c2 : ¬ p = o + d * 2 := by omega
      have c3 : ¬ p = o + d * 3 := by omega
      simp only [getD_set!, size_set!, g0, g1, g2, g3, bfly4_0, bfly4_1, bfly4_2, bfly4_3,
        if_pos c0, if_neg c1, if_neg c2, if_neg c3]
    · by_cases c1 : p = o + d
      · have c2 : ¬ p = o + d * 2 := by omega
        have c3 : ¬ p = o + d * 3 := by omega
        simp only [getD_set!, size_set!, g0, g1, g2, g3, bfly4_0, bfly4_1, bfly4_2, bfly4_3,
          if_neg c0, if_pos c1, if_neg c2, if_neg c3]
      · by_cases c2 : p = o + d * 2
        · have c3 : ¬ p = o + d * 3 := by omega
          simp only [getD_set!, size_set!, g0, g1, g2, g3, bfly4_0, bfly4_1, bfly4_2, bfly4_3,
            if_neg c0, if_neg c1, if_pos c2, if_neg c3]
        · by_cases c3 : p = o + d * 3
          · simp only [getD_set!, size_set!, g0, g1, g2, g3, bfly4_0, bfly4_1, bfly4_2, bfly4_3,
              if_neg c0, if_neg c1, if_neg c2, if_pos c3]
          · simp only [getD_set!, size_set!, g0, g1, g2, g3, bfly4_0, bfly4_1, bfly4_2, bfly4_3,
              if_neg c0, if_neg c1, if_neg c2, if_neg c3]

/-- state of the sequential pass when all orbits with base `< o` are done -/
def Inv (d m : Nat) (data : Array Nat) (o : Nat) (st : Array Nat) : Prop :=
  st.size = 65536 ∧ ∀ p, p < 65536 → st.getD p 0 = if B d p < o then fwhtAt d m data p else data.getD p 0

theorem inv_step (d m : Nat) (data st : Array Nat) (r o : Nat) (hd : d ∈ dists)
    (hU : ∀ i, data.getD i 0 < 65536) (hr : r % (4 * d) = 0) (hrm : r < m) (hm : m ≤ 65536)
    (hro : r ≤ o) (hod : o < r + d) (hinv : Inv d m data o st) :
    ∃ st', U_fwht_4 st (o % 65536) (d % 65536) = some st' ∧ Inv d m data (o + 1) st' := by
  obtain ⟨hs, hv⟩ := hinv
  have hfit := group_fits d r hd hr (by omega)
  have hd16 : d < 65536 := by
    simp only [dists, List.mem_cons, List.mem_nil_iff, or_false] at hd
    omega
  have o0 := orbit d r o 0 hd hr hro hod (by omega)
  have o1 := orbit d r o 1 hd hr hro hod (by omega)
  have o2 := orbit d r o 2 hd hr hro hod (by omega)
  have o3 := orbit d r o 3 hd hr hro hod (by omega)
  simp only [Nat.mul_zero, Nat.add_zero, Nat.mul_one] at o0 o1
  have r0 : st.getD o 0 = data.getD o 0 := by
    rw [hv o (by omega), o0.2.1, if_neg (by omega)]
  have r1 : st.getD (o + d) 0 = data.getD (o + d) 0 := by
    rw [hv (o + d) (by omega), o1.2.1, if_neg (by omega)]
  have r2 : st.getD (o + d * 2) 0 = data.getD (o + d * 2) 0 := by
    rw [hv (o + d * 2) (by omega), o2.2.1, if_neg (by omega)]
  have r3 : st.getD (o + d * 3) 0 = data.getD (o + d * 3) 0 := by
    rw [hv (o + d * 3) (by omega), o3.2.1, if_neg (by omega)]
  have eo : o % 65536 = o := Nat.mod_eq_of_lt (by omega)
  have ed : d % 65536 = d := Nat.mod_eq_of_lt hd16
  have hd0 : 0 < d := by
    simp only [dists, List.mem_cons, List.mem_nil_iff, or_false] at hd
    omega
  obtain ⟨st', est, hsz, hval⟩ := aux_fwht_4 st o d hs hd0 (by omega) (by rw [r0]; exact hU _)
    (by rw [r1]; exact hU _) (by rw [r2]; exact hU _) (by rw [r3]; exact hU _)
  rw [eo, ed]
  refine ⟨st', est, hsz.trans hs, ?_⟩
  intro p hp
  rw [hval p, r0, r1, r2, r3]
  have e2 : o + 2 * d = o + d * 2 := by omega
  have e3 : o + 3 * d = o + d * 3 := by omega
  by_cases h0 : p = o
  · rw [if_pos h0, h0, o0.2.1, if_pos (by omega), fwhtAt_eq, o0.1, if_pos hrm, o0.2.1, o0.2.2, e2, e3]
  · rw [if_neg h0]
    by_cases h1 : p = o + d
    · rw [if_pos h1, h1, o1.2.1, if_pos (by omega), fwhtAt_eq, o1.1, if_pos hrm, o1.2.1, o1.2.2, e2, e3]
    · rw [if_neg h1]
      by_cases h2 : p = o + d * 2
      · rw [if_pos h2, h2, o2.2.1, if_pos (by omega), fwhtAt_eq, o2.1, if_pos hrm, o2.2.1, o2.2.2, e2, e3]
      · rw [if_neg h2]
        by_cases h3 : p = o + d * 3
        · rw [if_pos h3, h3, o3.2.1, if_pos (by omega), fwhtAt_eq, o3.1, if_pos hrm, o3.2.1, o3.2.2, e2, e3]
        · rw [if_neg h3, hv p hp]
          have hB : B d p ≠ o := fun e => by
            rcases orbit_conv d r o p hd hr hro hod e with h | h | h | h <;> omega
          by_cases hlt : B d p < o
          · rw [if_pos hlt, if_pos (by omega)]
          · rw [if_neg hlt, if_neg (by omega)]

def innerF (d : Nat) : Nat → Array Nat → Option (Array Nat) := fun offset st =>
  (U_fwht_4 st (offset % 65536) (d % 65536)).bind fun r => some r

def outerF (d : Nat) : Nat → Array Nat → Option (Array Nat) := fun r st =>
  (if r + d < 18446744073709551616 then some (r + d) else none).bind fun n =>
    (forStep r n 1 (innerF d) st).bind fun st' => some st'

theorem inner_loop (d m : Nat) (data : Array Nat) (r : Nat) (hd : d ∈ dists)
    (hU : ∀ i, data.getD i 0 < 65536) (hr : r % (4 * d) = 0) (hrm : r < m) (hm : m ≤ 65536) :
    ∀ (cnt o : Nat) (st : Array Nat), r ≤ o → o + cnt = r + d → Inv d m data o st →
      ∃ st', forStepAux 1 (innerF d) cnt o st = some st' ∧ Inv d m data (r + d) st' := by
  intro cnt
  induction cnt with
  | zero =>
    intro o st _ h2 hinv
    have : o = r + d := by omega
    subst this
    exact ⟨st, rfl, hinv⟩
  | succ cnt ih =>
    intro o st h1 h2 hinv
    obtain ⟨st1, e1, inv1⟩ := inv_step d m data st r o hd hU hr hrm hm h1 (by omega) hinv
    obtain ⟨st2, e2, inv2⟩ := ih (o + 1) st1 (by omega) (by omega) inv1
    refine ⟨st2, ?_, inv2⟩
    show ((innerF d) o st).bind (forStepAux 1 (innerF d) cnt (o + 1)) = some st2
    unfold innerF
    rw [e1]
    exact e2

theorem outer_step (d m : Nat) (data : Array Nat) (r : Nat) (st : Array Nat) (hd : d ∈ dists)
    (hU : ∀ i, data.getD i 0 < 65536) (hr : r % (4 * d) = 0) (hrm : r < m) (hm : m ≤ 65536)
    (hinv : Inv d m data r st) :
    ∃ st', outerF d r st = some st' ∧ Inv d m data (r + 4 * d) st' := by
  have hd16 : d < 65536 := by
    simp only [dists, List.mem_cons, List.mem_nil_iff, or_false] at hd
    omega
  obtain ⟨st1, e1, inv1⟩ := inner_loop d m data r hd hU hr hrm hm d r st (Nat.le_refl _) rfl hinv
  refine ⟨st1, ?_, ?_⟩
  · unfold outerF
    rw [if_pos (by omega), Option.bind_some]
    unfold forStep
    rw [if_neg (by omega)]
    have : (r + d - r + 1 - 1) / 1 = d := by rw [Nat.div_one]; omega
    rw [this, e1]
    rfl
  · refine ⟨inv1.1, fun p hp => ?_⟩
    rw [inv1.2 p hp]
    have := (group_end d r p hd hr).1
    by_cases h : B d p < r + d
    · rw [if_pos h, if_pos (this.mp h)]
    · rw [if_neg h, if_neg (fun h' => h (this.mpr h'))]

theorem outer_loop (d m : Nat) (data : Array Nat) (e : Nat) (hd : d ∈ dists)
    (hU : ∀ i, data.getD i 0 < 65536) (hm : m ≤ 65536) (he : e < m + 4 * d) :
    ∀ (cnt r : Nat) (st : Array Nat), r % (4 * d) = 0 → r + (4 * d) * cnt = e → Inv d m data r st →
      ∃ st', forStepAux (4 * d) (outerF d) cnt r st = some st' ∧ Inv d m data e st' := by
  intro cnt
  induction cnt with
  | zero =>
    intro r st _ h2 hinv
    have : r = e := by simpa using h2
    subst this
    exact ⟨st, rfl, hinv⟩
  | succ cnt ih =>
    intro r st hr h2 hinv
    rw [Nat.mul_succ] at h2
    obtain ⟨st1, e1, inv1⟩ := outer_step d m data r st hd hU hr (by omega) hm hinv
    obtain ⟨st2, e2, inv2⟩ := ih (r + 4 * d) st1 (group_end d r 0 hd hr).2.2 (by omega) inv1
    refine ⟨st2, ?_, inv2⟩
    show ((outerF d) r st).bind (forStepAux (4 * d) (outerF d) cnt (r + 4 * d)) = some st2
    rw [e1]
    exact e2

/-- one whole sequential pass is the pointwise layer of the model -/
theorem pass_eq (d m : Nat) (data : Array Nat) (hd : d ∈ dists) (hs : data.size = 65536)
    (hU : ∀ i, data.getD i 0 < 65536) (hm : m ≤ 65536) :
    forStep 0 m (4 * d) (outerF d) data = some (fwhtLayer d m data) := by
  have hd0 : 0 < d := by
    simp only [dists, List.mem_cons, List.mem_nil_iff, or_false] at hd
    omega
  unfold forStep
  rw [if_neg (by omega)]
  have h1 : (4 * d) * ((m - 0 + 4 * d - 1) / (4 * d)) ≤ m - 0 + 4 * d - 1 := Nat.mul_div_le _ _
  have h2 : m - 0 + 4 * d - 1 < (4 * d) * ((m - 0 + 4 * d - 1) / (4 * d)) + 4 * d :=
    Nat.lt_mul_div_succ _ (by omega)
  have inv0 : Inv d m data 0 data := ⟨hs, fun p _ => by rw [if_neg (by omega)]⟩
  obtain ⟨st, e1, inv1⟩ := outer_loop d m data ((4 * d) * ((m - 0 + 4 * d - 1) / (4 * d))) hd hU hm (by omega)
    ((m - 0 + 4 * d - 1) / (4 * d)) 0 data (Nat.zero_mod _) (by omega) inv0
  rw [e1]
  congr 1
  apply Array.ext
  · rw [fwhtLayer_size, inv1.1, hs]
  · intro p hp1 hp2
    rw [fwhtLayer_getElem]
    have hp : p < 65536 := by rw [inv1.1] at hp1; exact hp1
    have := inv1.2 p hp
    rw [Array.getD_eq_getD_getElem?, Array.getElem?_eq_getElem hp1, Option.getD_some] at this
    rw [this]
    split
    · rfl
    · rename_i hB
      have hG := (group_end d _ p hd (Nat.mul_mod_right (4 * d) _)).2.1 hB
      rw [fwhtAt_eq, if_neg (by omega)]

theorem layer_u16 (d m : Nat) (data : Array Nat) (hU : ∀ i, data.getD i 0 < 65536) :
    ∀ i, (fwhtLayer d m data).getD i 0 < 65536 := by
  intro i
  rw [fwhtLayer_getD]
  by_cases h : i < data.size
  · rw [if_pos h, fwhtAt_eq]
    by_cases h' : G d i < m
    · rw [if_pos h']
      exact bfly4_lt _ _ _ _ _ (hU _) (hU _) (hU _) (hU _)
    · rw [if_neg h']
      exact hU _
  · rw [if_neg h]
    omega

theorem whileSt_succ {σ : Type} (n : Nat) (c : σ → Bool) (b : σ → Option σ) (s : σ) :
    whileSt (n + 1) c b s = if c s then (b s).bind (whileSt n c b) else some s := rfl

theorem whileSt_mono {σ : Type} (c : σ → Bool) (b : σ → Option σ) :
    ∀ (k : Nat) (s r : σ), whileSt k c b s = some r → ∀ n, k ≤ n → whileSt n c b s = some r := by
  intro k
  induction k with
  | zero => intro s r h; simp [whileSt] at h
  | succ k ih =>
    intro s r h n hn
    obtain ⟨n', rfl⟩ : ∃ n', n = n' + 1 := ⟨n - 1, by omega⟩
    rw [whileSt_succ] at h ⊢
    by_cases hc : c s = true
    · rw [if_pos hc] at h ⊢
      cases hb : b s with
      | none => rw [hb] at h; simp at h
      | some s' =>
        rw [hb] at h
        rw [Option.bind_some] at h ⊢
        exact ih s' r h n' (by omega)
    · rw [if_neg hc] at h ⊢
      exact h

/-- loop condition of `fwht` -/
def cF : Array Nat × Nat × Nat → Bool := fun st => decide (st.2.2 ≤ 65536)

/-- loop body of `fwht` -/
def bF (m : Nat) : Array Nat × Nat × Nat → Option (Array Nat × Nat × Nat) := fun st =>
  (forStep 0 m st.2.2 (outerF st.2.1) st.1).bind fun st' =>
    (if 2 < 64 then some ((st.2.2 * 2 ^ 2) % 18446744073709551616) else none).bind fun n =>
      some (st', st.2.2, n)

theorem iter (n d d4 d16 m : Nat) (data : Array Nat) (hd : d ∈ dists) (h4 : d4 = 4 * d) (h16 : d16 = 4 * d4)
    (hs : data.size = 65536) (hU : ∀ i, data.getD i 0 < 65536) (hm : m ≤ 65536) :
    whileSt (n + 1) cF (bF m) (data, d, d4) = whileSt n cF (bF m) (fwhtLayer d m data, d4, d16) := by
  have hd16 : d ≤ 16384 := by
    simp only [dists, List.mem_cons, List.mem_nil_iff, or_false] at hd
    omega
  rw [whileSt_succ]
  have hc : cF (data, d, d4) = true := by
    unfold cF
    simp only [decide_eq_true_eq]
    omega
  rw [if_pos hc]
  have hb : bF m (data, d, d4) = some (fwhtLayer d m data, d4, d16) := by
    unfold bF
    simp only
    subst h4
    rw [pass_eq d m data hd hs hU hm, Option.bind_some, if_pos (by decide), Option.bind_some]
    have : (4 * d * 2 ^ 2) % 18446744073709551616 = d16 := by
      simp only [Nat.reducePow]
      omega
    rw [this]
  rw [hb, Option.bind_some]

theorem fwht_loop9 (m : Nat) (data : Array Nat) (hs : data.size = 65536) (hU : ∀ i, data.getD i 0 < 65536)
    (hm : m ≤ 65536) : whileSt 9 cF (bF m) (data, 1, 4) = some (fwht data m, 65536, 262144) := by
  unfold fwht
  simp only [List.foldl]
  have s1 := (fwhtLayer_size 1 m data).trans hs
  have u1 := layer_u16 1 m data hU
  have s2 := (fwhtLayer_size 4 m _).trans s1
  have u2 := layer_u16 4 m _ u1
  have s3 := (fwhtLayer_size 16 m _).trans s2
  have u3 := layer_u16 16 m _ u2
  have s4 := (fwhtLayer_size 64 m _).trans s3
  have u4 := layer_u16 64 m _ u3
  have s5 := (fwhtLayer_size 256 m _).trans s4
  have u5 := layer_u16 256 m _ u4
  have s6 := (fwhtLayer_size 1024 m _).trans s5
  have u6 := layer_u16 1024 m _ u5
  have s7 := (fwhtLayer_size 4096 m _).trans s6
  have u7 := layer_u16 4096 m _ u6
  rw [iter 8 1 4 16 m data (by simp [dists]) rfl rfl hs hU hm,
    iter 7 4 16 64 m _ (by simp [dists]) rfl rfl s1 u1 hm,
    iter 6 16 64 256 m _ (by simp [dists]) rfl rfl s2 u2 hm,
    iter 5 64 256 1024 m _ (by simp [dists]) rfl rfl s3 u3 hm,
    iter 4 256 1024 4096 m _ (by simp [dists]) rfl rfl s4 u4 hm,
    iter 3 1024 4096 16384 m _ (by simp [dists]) rfl rfl s5 u5 hm,
    iter 2 4096 16384 65536 m _ (by simp [dists]) rfl rfl s6 u6 hm,
    iter 1 16384 65536 262144 m _ (by simp [dists]) rfl rfl s7 u7 hm]
  rw [whileSt_succ, if_neg (by unfold cF; simp)]

/-- the `while` loop of `fwht`, for any sufficient fuel -/
theorem fwht_of_loop (fuel m : Nat) (data : Array Nat) (hf : 9 ≤ fuel) (hs : data.size = 65536)
    (hU : ∀ i, data.getD i 0 < 65536) (hm : m ≤ 65536) :
    ((whileSt fuel cF (bF m) (data, 1, 4)).bind fun st => some st.1) = some (fwht data m) := by
  rw [whileSt_mono cF (bF m) 9 _ _ (fwht_loop9 m data hs hU hm) fuel hf, Option.bind_some]

theorem aux_fwht (data : Array Nat) (hs : data.size = 65536) (hd : ∀ i, data.getD i 0 < 65536) (m : Nat)
    (hm : m ≤ 65536) : U_fwht data m = some (fwht data m) := by
  unfold U_fwht
  exact fwht_of_loop _ m data (by decide) hs hd hm

theorem fwht_size (data : Array Nat) (m : Nat) : (fwht data m).size = data.size := by
  unfold fwht
  simp only [List.foldl, fwhtLayer_size]

theorem fwht_u16 (data : Array Nat) (m : Nat) (hU : ∀ i, data.getD i 0 < 65536) :
    ∀ i, (fwht data m).getD i 0 < 65536 := by
  unfold fwht
  simp only [List.foldl]
  exact layer_u16 _ _ _ (layer_u16 _ _ _ (layer_u16 _ _ _ (layer_u16 _ _ _ (layer_u16 _ _ _
    (layer_u16 _ _ _ (layer_u16 _ _ _ (layer_u16 _ _ _ hU)))))))

/-! ### `eval_poly` -/


theorem zipUpdM_aux (f : Nat → Nat → Option Nat) (g : Nat → Nat → Nat) (a b : Array Nat)
    (hf : ∀ i, i < a.size → f (a.getD i 0) (b.getD i 0) = some (g (a.getD i 0) (b.getD i 0))) :
    ∀ k, k ≤ a.size → ∃ acc, (List.range k).foldlM
        (fun (acc : Array Nat) i => (f (a.getD i 0) (b.getD i 0)).map (acc.set! i)) a = some acc ∧
      acc.size = a.size ∧
      ∀ p, acc.getD p 0 = if p < k then g (a.getD p 0) (b.getD p 0) else a.getD p 0 := by
  intro k
  induction k with
  | zero =>
    intro _
    exact ⟨a, rfl, rfl, fun p => by rw [if_neg (by omega)]⟩
  | succ k ih =>
    intro hk
    obtain ⟨acc, e, hsz, hv⟩ := ih (by omega)
    refine ⟨acc.set! k (g (a.getD k 0) (b.getD k 0)), ?_, ?_, ?_⟩
    · rw [List.range_succ, List.foldlM_append, e]
      simp only [List.foldlM_cons, List.foldlM_nil, hf k (by omega)]
      rfl
    · rw [size_set!, hsz]
    · intro p
      rw [getD_set! _ _ _ _ (by omega), hv p]
      by_cases h : p = k
      · subst h
        rw [if_pos rfl, if_pos (by omega)]
      · rw [if_neg h]
        by_cases h2 : p < k
        · rw [if_pos h2, if_pos (by omega)]
        · rw [if_neg h2, if_neg (by omega)]

theorem zipUpdM_eq (f : Nat → Nat → Option Nat) (g : Nat → Nat → Nat) (a b : Array Nat) (hsz : a.size = b.size)
    (hf : ∀ i, i < a.size → f (a.getD i 0) (b.getD i 0) = some (g (a.getD i 0) (b.getD i 0))) :
    zipUpdM f a b = some (Array.ofFn (n := a.size) fun i => g (a.getD i.val 0) (b.getD i.val 0)) := by
  unfold zipUpdM
  rw [← hsz, Nat.min_self]
  obtain ⟨acc, e, hs, hv⟩ := zipUpdM_aux f g a b hf a.size (Nat.le_refl _)
  rw [e]
  congr 1
  apply Array.ext
  · rw [hs, Array.size_ofFn]
  · intro p h1 h2
    have := hv p
    rw [Array.getD_eq_getD_getElem?, Array.getElem?_eq_getElem h1, Option.getD_some, if_pos (by omega)] at this
    rw [this, Array.getElem_ofFn]

theorem aux_eval_poly (lw er : Array Nat) (hl : lw.size = 65536) (he : er.size = 65536)
    (hlw : ∀ i, lw.getD i 0 < 65536) (her : ∀ i, er.getD i 0 < 65536) (t : Nat) (ht : t ≤ 65536) :
    U_eval_poly lw er t = some (evalPolyWith lw er t) := by
  unfold U_eval_poly evalPolyWith
  rw [aux_fwht er he her t ht, Option.bind_some]
  dsimp only
  have s1 : (fwht er t).size = 65536 := (fwht_size er t).trans he
  have u1 := fwht_u16 er t her
  rw [zipUpdM_eq _ (fun x y => addMod (x * y % 65536) (x * y / 65536)) (fwht er t) lw (s1.trans hl.symm) ?_,
    Option.bind_some]
  · have s2 : (Array.ofFn (n := (fwht er t).size) fun i =>
        addMod ((fwht er t).getD i.val 0 * lw.getD i.val 0 % 65536)
          ((fwht er t).getD i.val 0 * lw.getD i.val 0 / 65536)).size = 65536 := by
      rw [Array.size_ofFn, s1]
    rw [aux_fwht _ s2 ?_ 65536 (Nat.le_refl _), Option.bind_some]
    intro i
    rw [Array.getD_eq_getD_getElem?]
    by_cases h : i < (fwht er t).size
    · rw [Array.getElem?_eq_getElem (by rw [Array.size_ofFn]; exact h), Option.getD_some, Array.getElem_ofFn]
      dsimp only
      have hp : (fwht er t).getD i 0 * lw.getD i 0 < 65536 * 65536 := Nat.mul_lt_mul'' (u1 i) (hlw i)
      exact addMod_lt _ _ (Nat.mod_lt _ (by decide)) (by omega)
    · rw [Array.getElem?_eq_none (by rw [Array.size_ofFn]; omega)]
      exact (by decide : (0 : Nat) < 65536)
  · intro i _
    have hp : (fwht er t).getD i 0 * lw.getD i 0 < 65536 * 65536 := Nat.mul_lt_mul'' (u1 i) (hlw i)
    rw [if_pos (by omega), Option.bind_some]
    have e : (fwht er t).getD i 0 * lw.getD i 0 / 2 ^ 16 % 65536 = (fwht er t).getD i 0 * lw.getD i 0 / 65536 := by
      simp only [Nat.reducePow]
      omega
    rw [e, aux_add_mod _ _ (Nat.mod_lt _ (by decide)) (by omega), Option.bind_some]

/-! ### `formal_derivative` -/


theorem tzAux_dvd : ∀ (f n : Nat), 0 < n → 2 ^ tzAux f n ∣ n := by
  intro f
  induction f with
  | zero => intro n _; exact ⟨n, by simp [tzAux]⟩
  | succ f ih =>
    intro n hn
    unfold tzAux
    by_cases h : n % 2 = 1
    · rw [if_pos h]; exact ⟨n, by simp⟩
    · rw [if_neg h]
      obtain ⟨q, hq⟩ := ih (n / 2) (by omega)
      refine ⟨q, ?_⟩
      rw [Nat.add_comm 1, Nat.pow_succ, Nat.mul_assoc, Nat.mul_left_comm, ← hq]
      omega

theorem tz_pow_le (i : Nat) (hi : 0 < i) : 2 ^ tz i ≤ i := by
  unfold tz
  rw [if_neg (by omega)]
  exact Nat.le_of_dvd hi (tzAux_dvd 64 i hi)

theorem tz_lt (i : Nat) (hi : 0 < i) (h2 : i ≤ 65536) : tz i < 64 := by
  have h := tz_pow_le i hi
  by_cases hc : tz i < 64
  · exact hc
  · have : 2 ^ 64 ≤ 2 ^ tz i := Nat.pow_le_pow_right (by decide) (by omega)
    have e : (2 : Nat) ^ 64 = 18446744073709551616 := by decide
    omega

/-- the `xor_within` call of iteration `j` -/
def fdCall (j : Nat) : Nat × Nat × Nat := (j - 2 ^ tz j, j, 2 ^ tz j)

def fdF : Nat → List (Nat × Nat × Nat) → Option (List (Nat × Nat × Nat)) := fun i acc =>
  (if tz i < 64 then some ((1 * 2 ^ tz i) % 18446744073709551616) else none).bind fun width =>
    (if width ≤ i then some (i - width) else none).bind fun x =>
      some (acc ++ [(x, i, width)])

theorem fdF_eq (i : Nat) (acc : List (Nat × Nat × Nat)) (hi : 0 < i) (h2 : i ≤ 65536) :
    fdF i acc = some (acc ++ [fdCall i]) := by
  unfold fdF fdCall
  have h := tz_pow_le i hi
  have e : (1 * 2 ^ tz i) % 18446744073709551616 = 2 ^ tz i := by
    rw [Nat.one_mul]
    exact Nat.mod_eq_of_lt (by omega)
  rw [if_pos (tz_lt i hi h2), Option.bind_some, e, if_pos h, Option.bind_some]

theorem fd_loop : ∀ (cnt i : Nat) (acc : List (Nat × Nat × Nat)), 0 < i → i + cnt ≤ 65536 →
    forStepAux 1 fdF cnt i acc = some (acc ++ (List.range cnt).map (fun k => fdCall (i + k))) := by
  intro cnt
  induction cnt with
  | zero => intro i acc _ _; simp [forStepAux]
  | succ cnt ih =>
    intro i acc hi h2
    show (fdF i acc).bind (forStepAux 1 fdF cnt (i + 1)) = _
    rw [fdF_eq i acc hi (by omega), Option.bind_some, ih (i + 1) _ (by omega) (by omega),
      List.range_succ_eq_map, List.map_cons, List.map_map, List.append_assoc]
    congr 2
    simp only [List.singleton_append, Nat.add_zero, List.cons.injEq, true_and]
    apply List.map_congr_left
    intro k _
    simp only [Function.comp, Nat.succ_eq_add_one]
    congr 1
    omega

theorem aux_formal_derivative {V : Type} [ShardAlg V] (a : Array V) (hs : a.size ≤ 65536) :
    ∃ calls, U_formal_derivative a.size = some calls ∧
      calls.foldl (fun (b : Array V) (c : Nat × Nat × Nat) => xorWithin b c.1 c.2.1 c.2.2) a = formalDerivative a := by
  refine ⟨(List.range (a.size - 1)).map (fun k => fdCall (1 + k)), ?_, ?_⟩
  · show forStep 1 a.size 1 fdF [] = _
    unfold forStep
    rw [if_neg (by omega)]
    have : (a.size - 1 + 1 - 1) / 1 = a.size - 1 := by rw [Nat.div_one]; omega
    rw [this, fd_loop (a.size - 1) 1 [] (by omega) (by omega), List.nil_append]
  · rw [List.foldl_map]
    unfold formalDerivative
    congr 1
    funext b k
    simp only [fdCall, Nat.add_comm 1 k]

/-! ### `tables::mul` -/

theorem aux_mul (exp log : Array Nat) (hE : exp.size = 65536) (hL : log.size = 65536)
    (hl : ∀ i, log.getD i 0 < 65536) (x logm : Nat) (hx : x < 65536) (hm : logm < 65536) :
    U_mul x logm exp log = some (tmul exp log x logm) := by
  unfold U_mul tmul
  by_cases h0 : x = 0
  · rw [if_pos h0, if_pos h0]
  · rw [if_neg h0, if_neg h0, getElem?_getD log x (by omega), Option.bind_some, aux_add_mod _ _ (hl x) hm,
      Option.bind_some, getElem?_getD exp _ (by have := addMod_lt (log.getD x 0) logm (hl x) hm; omega),
      Option.bind_some]

end RS.SrcU.UAux
