/-
  The sequential loop nests of Model/EngineSeq.lean (engine_naive.rs `fft`/`ifft`, engine_nosimd.rs
  `fft_private`/`ifft_private`, transliterated statement by statement, in-place) compute exactly the
  pointwise layer model of Model/Engine.lean, on which every other theorem is stated.

  1. one butterfly                         `rd_fftBfly_eq`, `rd_ifftBfly_eq`, `fftBfly_size`, `ifftBfly_size`
  2. one Naive layer                       `naiveFftLayerSeq_eq`, `naiveIfftLayerSeq_eq`
  3. Naive transforms                      `naiveFftSeq_eq`, `naiveIfftSeq_eq`
  4. two-layer passes and transforms       `twoFftPassSeq_eq`, `twoIfftPassSeq_eq`, `lastFftLayer_eq`,
                                           `lastIfftLayer_eq`, `twoFftSeq_eq`, `twoIfftSeq_eq`

  Method: everything is moved to functions `Nat → V` (`rd`).  A step is `LocalOn S` if it reads and
  writes only positions in `S`; a fold of steps that are local on pairwise disjoint sets gives, on
  each set, the result of that one step applied to the *initial* function (`foldl_range_local`).
  Butterflies of one layer (resp. four-point butterflies of one pass) are local on disjoint pairs
  (resp. quadruples), and the pointwise layers are described block by block (`fftPt_block`, …).
-/
import RSVerif.Model.EngineSeq
import RSVerif.Proofs.Sched
import RSVerif.Proofs.FormalDeriv

namespace RS
namespace SeqEq
open ShardAlg

/-! ### local steps -/

section loc
variable {V : Type}

/-- `s` reads and writes only positions in `S` -/
def LocalOn (S : Nat → Prop) (s : (Nat → V) → Nat → V) : Prop :=
  (∀ f p, ¬ S p → s f p = f p) ∧
  (∀ f g, (∀ p, S p → f p = g p) → ∀ p, S p → s f p = s g p)

theorem LocalOn.mono {S S' : Nat → Prop} {s : (Nat → V) → Nat → V}
    (h : ∀ p, S p → S' p) (hs : LocalOn S s) : LocalOn S' s := by
  refine ⟨fun f p hp => hs.1 f p (fun h' => hp (h p h')), fun f g hfg p _ => ?_⟩
  by_cases hp : S p
  · exact hs.2 f g (fun p' hp' => hfg p' (h p' hp')) p hp
  · rw [hs.1 f p hp, hs.1 g p hp]; exact hfg p ‹_›

theorem LocalOn.comp {S : Nat → Prop} {s t : (Nat → V) → Nat → V}
    (hs : LocalOn S s) (ht : LocalOn S t) : LocalOn S (fun f => t (s f)) := by
  refine ⟨fun f p hp => ?_, fun f g hfg p hp => ?_⟩
  · show t (s f) p = f p
    rw [ht.1 _ p hp, hs.1 f p hp]
  · exact ht.2 (s f) (s g) (fun p' hp' => hs.2 f g hfg p' hp') p hp

theorem foldl_range_local (step : Nat → (Nat → V) → Nat → V) (S : Nat → Nat → Prop)
    (n : Nat) (hl : ∀ k, k < n → LocalOn (S k) (step k))
    (hd : ∀ j k, j < n → k < n → j ≠ k → ∀ p, S j p → ¬ S k p) (f : Nat → V) :
    (∀ k, k < n → ∀ p, S k p →
      (List.range n).foldl (fun f k => step k f) f p = step k f p) ∧
    (∀ p, (∀ k, k < n → ¬ S k p) → (List.range n).foldl (fun f k => step k f) f p = f p) := by
  induction n with
  | zero => exact ⟨fun k hk => absurd hk (Nat.not_lt_zero k), fun p _ => rfl⟩
  | succ n ih =>
    obtain ⟨iha, ihb⟩ := ih (fun k hk => hl k (by omega))
      (fun j k hj hk => hd j k (by omega) (by omega))
    simp only [List.range_succ, List.foldl_append, List.foldl_cons, List.foldl_nil]
    constructor
    · intro k hk p hp
      by_cases hkn : k = n
      · subst hkn
        refine (hl k (by omega)).2 _ f (fun p' hp' => ihb p' (fun j hj hj' => ?_)) p hp
        exact hd j k (by omega) (by omega) (by omega) p' hj' hp'
      · have hpn : ¬ S n p := hd k n (by omega) (by omega) hkn p hp
        rw [(hl n (by omega)).1 _ p hpn]
        exact iha k (by omega) p hp
    · intro p hp
      rw [(hl n (by omega)).1 _ p (hp n (by omega))]
      exact ihb p (fun k hk => hp k (by omega))

theorem foldl_range_localOn (step : Nat → (Nat → V) → Nat → V) (S : Nat → Nat → Prop)
    (n : Nat) (hl : ∀ k, k < n → LocalOn (S k) (step k))
    (hd : ∀ j k, j < n → k < n → j ≠ k → ∀ p, S j p → ¬ S k p) :
    LocalOn (fun p => ∃ k, k < n ∧ S k p)
      (fun f => (List.range n).foldl (fun f k => step k f) f) := by
  refine ⟨fun f p hp => ?_, fun f g hfg p hp => ?_⟩
  · exact (foldl_range_local step S n hl hd f).2 p (fun k hk h => hp ⟨k, hk, h⟩)
  · obtain ⟨k, hk, hkp⟩ := hp
    show (List.range n).foldl (fun f k => step k f) f p = (List.range n).foldl (fun f k => step k f) g p
    rw [(foldl_range_local step S n hl hd f).1 k hk p hkp,
      (foldl_range_local step S n hl hd g).1 k hk p hkp]
    exact (hl k hk).2 f g (fun p' hp' => hfg p' ⟨k, hk, hp'⟩) p hkp

end loc

/-! ### block arithmetic -/

theorem blk_of {D r u : Nat} (hr : D ∣ r) (hu : u < D) :
    (r + u) / D * D = r ∧ (r + u) % D = u := by
  obtain ⟨k, rfl⟩ := hr
  have := divmod_of_eq (D := D) (q := k) (m := u) (i := D * k + u) rfl hu
  rw [this.1, this.2, Nat.mul_comm]
  exact ⟨rfl, rfl⟩

theorem block_fits {D r size : Nat} (hr : D ∣ r) (hs : D ∣ size) (h : r < size) :
    r + D ≤ size := by
  obtain ⟨a, rfl⟩ := hr
  obtain ⟨b, rfl⟩ := hs
  have hD : 0 < D := by
    rcases Nat.eq_zero_or_pos D with h0 | h0
    · subst h0; simp at h
    · exact h0
  have hab : a < b := Nat.lt_of_mul_lt_mul_left h
  have : D * (a + 1) ≤ D * b := Nat.mul_le_mul_left D hab
  rw [Nat.mul_add, Nat.mul_one] at this
  exact this

theorem blockStarts_lt {trunc D q : Nat} (hD : 0 < D) :
    q < (trunc + D - 1) / D ↔ q * D < trunc := by
  rw [Nat.lt_iff_add_one_le, Nat.le_div_iff_mul_le hD, Nat.add_mul, Nat.one_mul]
  omega

/-- every window index lies in an aligned block -/
theorem cover {D size t : Nat} (hD : 0 < D) (hs : D ∣ size) (ht : t < size) :
    ∃ r u, D ∣ r ∧ r + D ≤ size ∧ u < D ∧ t = r + u := by
  refine ⟨t / D * D, t % D, Nat.dvd_mul_left _ _, ?_, Nat.mod_lt _ hD, (Nat.div_add_mod' t D).symm⟩
  apply block_fits (Nat.dvd_mul_left _ _) hs
  exact Nat.lt_of_le_of_lt (Nat.div_mul_le_self t D) ht

section blocks
variable {V : Type}

theorem blocks_spec (G : Nat → (Nat → V) → Nat → V) (D pos trunc : Nat) (hD : 0 < D)
    (hl : ∀ r, D ∣ r → r < trunc → LocalOn (fun p => pos + r ≤ p ∧ p < pos + r + D) (G r))
    (f : Nat → V) :
    (∀ r, D ∣ r → r < trunc → ∀ p, pos + r ≤ p → p < pos + r + D →
      (blockStarts trunc D).foldl (fun f r => G r f) f p = G r f p) ∧
    (∀ p, (∀ r, D ∣ r → r < trunc → ¬ (pos + r ≤ p ∧ p < pos + r + D)) →
      (blockStarts trunc D).foldl (fun f r => G r f) f p = f p) := by
  unfold blockStarts
  rw [List.foldl_map]
  have key := foldl_range_local (fun q => G (q * D))
    (fun q p => pos + q * D ≤ p ∧ p < pos + q * D + D) ((trunc + D - 1) / D)
    (fun q hq => hl (q * D) (Nat.dvd_mul_left _ _) ((blockStarts_lt hD).1 hq))
    (by
      intro j k _ _ hjk p hj hk
      rcases Nat.lt_or_gt_of_ne hjk with h | h
      · have := Nat.mul_le_mul_right D (Nat.succ_le_of_lt h)
        rw [Nat.succ_mul] at this
        omega
      · have := Nat.mul_le_mul_right D (Nat.succ_le_of_lt h)
        rw [Nat.succ_mul] at this
        omega) f
  constructor
  · intro r hr hrt p h1 h2
    obtain ⟨q, rfl⟩ := hr
    rw [Nat.mul_comm] at hrt h1 h2 ⊢
    exact key.1 q ((blockStarts_lt hD).2 hrt) p ⟨h1, h2⟩
  · intro p hp
    exact key.2 p (fun q hq => hp (q * D) (Nat.dvd_mul_left _ _) ((blockStarts_lt hD).1 hq))

end blocks


variable {V : Type} [ShardAlg V]

/-! ### 1. one butterfly -/

/-- the fft butterfly on functions -/
def fbF (c : Sym) (f : Nat → V) (x y : Nat) : Nat → V := fun p =>
  if p = x then add (f x) (smul c (f y))
  else if p = y then add (f y) (add (f x) (smul c (f y)))
  else f p

/-- the ifft butterfly on functions -/
def ibF (c : Sym) (f : Nat → V) (x y : Nat) : Nat → V := fun p =>
  if p = x then add (f x) (smul c (add (f y) (f x)))
  else if p = y then add (f y) (f x)
  else f p

@[simp] theorem _root_.RS.fftBfly_size (c : Sym) (a : Array V) (x y : Nat) :
    (fftBfly c a x y).size = a.size := by
  simp [fftBfly]

@[simp] theorem _root_.RS.ifftBfly_size (c : Sym) (a : Array V) (x y : Nat) :
    (ifftBfly c a x y).size = a.size := by
  simp [ifftBfly]

theorem rd_fftBfly (c : Sym) (a : Array V) {x y : Nat} (hxy : x ≠ y) (hx : x < a.size)
    (hy : y < a.size) : rd (fftBfly c a x y) = fbF c (rd a) x y := by
  funext p
  simp only [fftBfly, fbF, FD.rd_setIfInBounds, Array.size_setIfInBounds]
  by_cases h1 : p = x
  · subst h1; simp [hxy, hx, hy]
  · by_cases h2 : p = y
    · subst h2; simp [hxy.symm, hx, hy]
    · simp [h1, h2]

theorem rd_ifftBfly (c : Sym) (a : Array V) {x y : Nat} (hxy : x ≠ y) (hx : x < a.size)
    (hy : y < a.size) : rd (ifftBfly c a x y) = ibF c (rd a) x y := by
  funext p
  simp only [ifftBfly, ibF, FD.rd_setIfInBounds, Array.size_setIfInBounds]
  by_cases h1 : p = x
  · subst h1; simp [hxy, hx, hy]
  · by_cases h2 : p = y
    · subst h2; simp [hxy.symm, hx, hy]
    · simp [h1, h2]

theorem fbF_local (c : Sym) (x y : Nat) :
    LocalOn (fun p => p = x ∨ p = y) (fun f : Nat → V => fbF c f x y) := by
  refine ⟨fun f p hp => ?_, fun f g hfg p hp => ?_⟩
  · have h1 : ¬ p = x := fun h => hp (Or.inl h)
    have h2 : ¬ p = y := fun h => hp (Or.inr h)
    simp [fbF, h1, h2]
  · have hx := hfg x (Or.inl rfl)
    have hy := hfg y (Or.inr rfl)
    rcases hp with rfl | rfl <;> simp only [fbF, hx, hy]

theorem ibF_local (c : Sym) (x y : Nat) :
    LocalOn (fun p => p = x ∨ p = y) (fun f : Nat → V => ibF c f x y) := by
  refine ⟨fun f p hp => ?_, fun f g hfg p hp => ?_⟩
  · have h1 : ¬ p = x := fun h => hp (Or.inl h)
    have h2 : ¬ p = y := fun h => hp (Or.inr h)
    simp [ibF, h1, h2]
  · have hx := hfg x (Or.inl rfl)
    have hy := hfg y (Or.inr rfl)
    rcases hp with rfl | rfl <;> simp only [ibF, hx, hy]

/-! ### transfer of folds from arrays to functions -/

theorem foldl_transfer {κ : Type} (L : List κ) (sa : κ → Array V → Array V)
    (sf : κ → (Nat → V) → Nat → V) (N : Nat)
    (h : ∀ k, k ∈ L → ∀ a : Array V, a.size = N → (sa k a).size = N ∧ rd (sa k a) = sf k (rd a))
    (a : Array V) (ha : a.size = N) :
    (L.foldl (fun a k => sa k a) a).size = N ∧
      rd (L.foldl (fun a k => sa k a) a) = L.foldl (fun f k => sf k f) (rd a) := by
  induction L generalizing a with
  | nil => exact ⟨ha, rfl⟩
  | cons k L ih =>
    simp only [List.foldl_cons]
    obtain ⟨h1, h2⟩ := h k (List.mem_cons_self ..) a ha
    rw [← h2]
    exact ih (fun k' hk' => h k' (List.mem_cons_of_mem _ hk')) (sa k a) h1

/-! ### a run of butterflies inside one block -/

/-- `bflyRun` on functions -/
def runF (bF : (Nat → V) → Nat → Nat → Nat → V) (f : Nat → V) (pos r dist : Nat) : Nat → V :=
  (List.range dist).foldl (fun f i => bF f (pos + r + i) (pos + r + i + dist)) f

theorem bflyRun_transfer (bf : Array V → Nat → Nat → Array V)
    (bF : (Nat → V) → Nat → Nat → Nat → V)
    (hbf : ∀ (a : Array V) x y, x ≠ y → x < a.size → y < a.size →
      (bf a x y).size = a.size ∧ rd (bf a x y) = bF (rd a) x y)
    (a : Array V) (pos r dist : Nat) (h : pos + r + 2 * dist ≤ a.size) :
    (bflyRun bf a pos r dist).size = a.size ∧
      rd (bflyRun bf a pos r dist) = runF bF (rd a) pos r dist := by
  unfold bflyRun runF
  apply foldl_transfer (List.range dist)
    (fun i a => bf a (pos + r + i) (pos + r + i + dist))
    (fun i f => bF f (pos + r + i) (pos + r + i + dist)) a.size _ a rfl
  intro i hi b hb
  have hi' : i < dist := List.mem_range.1 hi
  have := hbf b (pos + r + i) (pos + r + i + dist) (by omega) (by omega) (by omega)
  rw [hb] at this
  exact this

omit [ShardAlg V] in
theorem runF_spec (bF : (Nat → V) → Nat → Nat → Nat → V)
    (hb : ∀ x y, LocalOn (fun p => p = x ∨ p = y) (fun f => bF f x y))
    (f : Nat → V) (pos r dist : Nat) :
    (∀ i, i < dist → ∀ p, (p = pos + r + i ∨ p = pos + r + i + dist) →
      runF bF f pos r dist p = bF f (pos + r + i) (pos + r + i + dist) p) ∧
    LocalOn (fun p => pos + r ≤ p ∧ p < pos + r + 2 * dist) (fun f => runF bF f pos r dist) := by
  have hd : ∀ j k, j < dist → k < dist → j ≠ k → ∀ p,
      (p = pos + r + j ∨ p = pos + r + j + dist) → ¬ (p = pos + r + k ∨ p = pos + r + k + dist) := by
    intro j k hj hk hjk p h1 h2
    omega
  constructor
  · exact (foldl_range_local (fun i f => bF f (pos + r + i) (pos + r + i + dist))
      (fun i p => p = pos + r + i ∨ p = pos + r + i + dist) dist (fun i _ => hb _ _) hd f).1
  · refine LocalOn.mono ?_ (foldl_range_localOn
      (fun i f => bF f (pos + r + i) (pos + r + i + dist))
      (fun i p => p = pos + r + i ∨ p = pos + r + i + dist) dist (fun i _ => hb _ _) hd)
    rintro p ⟨k, hk, h⟩
    omega


omit [ShardAlg V] in
/-- a fold over the blocks below `trunc` equals `T` if `T` is described block by block -/
theorem blocks_eq (G : Nat → (Nat → V) → Nat → V) (D pos trunc size : Nat) (hD : 0 < D)
    (hdvd : D ∣ size) (ht : trunc ≤ size)
    (hl : ∀ r, D ∣ r → r < trunc → LocalOn (fun p => pos + r ≤ p ∧ p < pos + r + D) (G r))
    (f T : Nat → V)
    (hout : ∀ p, ¬ (pos ≤ p ∧ p < pos + size) → T p = f p)
    (hproc : ∀ r, D ∣ r → r < trunc → ∀ u, u < D → T (pos + r + u) = G r f (pos + r + u))
    (hskip : ∀ r, D ∣ r → r + D ≤ size → ¬ r < trunc → ∀ u, u < D →
      T (pos + r + u) = f (pos + r + u)) :
    (blockStarts trunc D).foldl (fun f r => G r f) f = T := by
  obtain ⟨ha, hb⟩ := blocks_spec G D pos trunc hD hl f
  funext p
  rcases window_cases pos size p with h | ⟨t, hts, rfl⟩
  · rw [hout p h]
    apply hb
    intro r hr hrt hin
    have := block_fits hr hdvd (by omega : r < size)
    omega
  · obtain ⟨r, u, hr, hrs, hu, rfl⟩ := cover hD hdvd hts
    rw [← Nat.add_assoc]
    by_cases hrt : r < trunc
    · rw [ha r hr hrt _ (by omega) (by omega), hproc r hr hrt u hu]
    · rw [hskip r hr hrs hrt u hu]
      apply hb
      intro r' hr' hrt' hin
      have := block_fits hr' hr (by omega : r' < r)
      omega

/-! ### the pointwise layers, block by block -/

section ptblock
variable {delta : Nat} {proc : Nat → Bool} {d pos size : Nat} {f : Nat → V}

theorem fftPt_block (hd : 0 < d) {r i : Nat} (hr : 2 * d ∣ r) (hrs : r + 2 * d ≤ size)
    (hi : i < d) (hp : proc r = true) (p : Nat) (h : p = pos + r + i ∨ p = pos + r + i + d) :
    fftPt delta proc d pos size f p =
      fbF (skewElem (r + d + delta - 1)) f (pos + r + i) (pos + r + i + d) p := by
  rcases h with rfl | rfl
  · have e := blk_of hr (u := i) (by omega)
    rw [Nat.add_assoc pos r i,
      fftPt_lo (i := r + i) (by omega) (by rw [e.1]; exact hp) (by rw [e.2]; exact hi), e.1]
    simp [fbF, Nat.add_assoc]
  · have e := blk_of hr (u := i + d) (by omega)
    have e1 : pos + r + i + d = pos + (r + (i + d)) := by omega
    have e2 : pos + (r + (i + d) - d) = pos + r + i := by omega
    have e3 : d ≠ 0 := by omega
    rw [e1, fftPt_hi (i := r + (i + d)) (by omega) (by rw [e.1]; exact hp)
      (by rw [e.2]; omega) (by omega), e.1, e2, ← e1]
    simp [fbF, e3]

theorem ifftPt_block (hd : 0 < d) {r i : Nat} (hr : 2 * d ∣ r) (hrs : r + 2 * d ≤ size)
    (hi : i < d) (hp : proc r = true) (p : Nat) (h : p = pos + r + i ∨ p = pos + r + i + d) :
    ifftPt delta proc d pos size f p =
      ibF (skewElem (r + d + delta - 1)) f (pos + r + i) (pos + r + i + d) p := by
  rcases h with rfl | rfl
  · have e := blk_of hr (u := i) (by omega)
    rw [Nat.add_assoc pos r i,
      ifftPt_lo (i := r + i) (by omega) (by rw [e.1]; exact hp) (by rw [e.2]; exact hi), e.1]
    simp [ibF, Nat.add_assoc]
  · have e := blk_of hr (u := i + d) (by omega)
    have e1 : pos + r + i + d = pos + (r + (i + d)) := by omega
    have e2 : pos + (r + (i + d) - d) = pos + r + i := by omega
    have e3 : d ≠ 0 := by omega
    rw [e1, ifftPt_hi (i := r + (i + d)) (by omega) (by rw [e.1]; exact hp)
      (by rw [e.2]; omega) (by omega), e2, ← e1]
    simp [ibF, e3]

theorem fftPt_block_skip {r u : Nat} (hr : 2 * d ∣ r) (hrs : r + 2 * d ≤ size)
    (hu : u < 2 * d) (hp : proc r = false) :
    fftPt delta proc d pos size f (pos + r + u) = f (pos + r + u) := by
  have e := blk_of hr hu
  rw [Nat.add_assoc pos r u, fftPt_skip (by omega) (by rw [e.1]; exact hp)]

theorem ifftPt_block_skip {r u : Nat} (hr : 2 * d ∣ r) (hrs : r + 2 * d ≤ size)
    (hu : u < 2 * d) (hp : proc r = false) :
    ifftPt delta proc d pos size f (pos + r + u) = f (pos + r + u) := by
  have e := blk_of hr hu
  rw [Nat.add_assoc pos r u, ifftPt_skip (by omega) (by rw [e.1]; exact hp)]

end ptblock

/-! ### 2. one Naive layer -/

omit [ShardAlg V] in
/-- a Naive layer on functions, generic in the butterfly -/
theorem naiveLayerF_eq (bF : Sym → (Nat → V) → Nat → Nat → Nat → V)
    (hb : ∀ c x y, LocalOn (fun p => p = x ∨ p = y) (fun f => bF c f x y))
    (pt : (Nat → Bool) → (Nat → V) → Nat → V) (delta trunc pos d size : Nat)
    (hout : ∀ proc f p, ¬ (pos ≤ p ∧ p < pos + size) → pt proc f p = f p)
    (hblock : ∀ proc f r i, 2 * d ∣ r → r + 2 * d ≤ size → i < d → proc r = true →
      ∀ p, (p = pos + r + i ∨ p = pos + r + i + d) →
        pt proc f p = bF (skewElem (r + d + delta - 1)) f (pos + r + i) (pos + r + i + d) p)
    (hskip : ∀ proc f r u, 2 * d ∣ r → r + 2 * d ≤ size → u < 2 * d → proc r = false →
      pt proc f (pos + r + u) = f (pos + r + u))
    (hd : 0 < d) (hdvd : 2 * d ∣ size) (ht : trunc ≤ size) (f : Nat → V) :
    (blockStarts trunc (2 * d)).foldl
      (fun f r => runF (bF (skewElem (r + d + delta - 1))) f pos r d) f =
      pt (fun r => decide (r < trunc)) f := by
  apply blocks_eq (fun r f => runF (bF (skewElem (r + d + delta - 1))) f pos r d) (2 * d) pos trunc
    size (by omega) hdvd ht (fun r _ _ => (runF_spec _ (hb _) f pos r d).2)
  · exact hout _ f
  · intro r hr hrt u hu
    have hrs := block_fits hr hdvd (by omega : r < size)
    by_cases hud : u < d
    · rw [(runF_spec _ (hb _) f pos r d).1 u hud _ (Or.inl rfl)]
      exact hblock _ f r u hr hrs hud (by simpa using hrt) _ (Or.inl rfl)
    · have e : pos + r + u = pos + r + (u - d) + d := by omega
      rw [e, (runF_spec _ (hb _) f pos r d).1 (u - d) (by omega) _ (Or.inr rfl)]
      exact hblock _ f r (u - d) hr hrs (by omega) (by simpa using hrt) _ (Or.inr rfl)
  · intro r hr hrs hrt u hu
    exact hskip _ f r u hr hrs hu (by simpa using hrt)


theorem mem_blockStarts {trunc D r : Nat} (hD : 0 < D) (h : r ∈ blockStarts trunc D) :
    D ∣ r ∧ r < trunc := by
  unfold blockStarts at h
  obtain ⟨q, hq, rfl⟩ := List.mem_map.1 h
  exact ⟨Nat.dvd_mul_left _ _, (blockStarts_lt hD).1 (List.mem_range.1 hq)⟩

theorem naiveLayer_transfer (bf : Sym → Array V → Nat → Nat → Array V)
    (bF : Sym → (Nat → V) → Nat → Nat → Nat → V)
    (hbf : ∀ c (a : Array V) x y, x ≠ y → x < a.size → y < a.size →
      (bf c a x y).size = a.size ∧ rd (bf c a x y) = bF c (rd a) x y)
    (delta trunc pos d size : Nat) (hd : 0 < d) (hdvd : 2 * d ∣ size) (ht : trunc ≤ size)
    (a : Array V) (h : pos + size ≤ a.size) :
    ((blockStarts trunc (2 * d)).foldl
        (fun a r => bflyRun (bf (skewElem (r + d + delta - 1))) a pos r d) a).size = a.size ∧
      rd ((blockStarts trunc (2 * d)).foldl
        (fun a r => bflyRun (bf (skewElem (r + d + delta - 1))) a pos r d) a) =
      (blockStarts trunc (2 * d)).foldl
        (fun f r => runF (bF (skewElem (r + d + delta - 1))) f pos r d) (rd a) := by
  apply foldl_transfer (blockStarts trunc (2 * d))
    (fun r a => bflyRun (bf (skewElem (r + d + delta - 1))) a pos r d)
    (fun r f => runF (bF (skewElem (r + d + delta - 1))) f pos r d) a.size _ a rfl
  intro r hr b hb
  obtain ⟨h1, h2⟩ := mem_blockStarts (by omega) hr
  have hrs := block_fits h1 hdvd (by omega : r < size)
  have := bflyRun_transfer (bf (skewElem (r + d + delta - 1))) (bF (skewElem (r + d + delta - 1)))
    (hbf _) b pos r d (by omega)
  rw [hb] at this
  exact this

theorem fftBfly_transfer (c : Sym) (a : Array V) (x y : Nat) (hxy : x ≠ y) (hx : x < a.size)
    (hy : y < a.size) : (fftBfly c a x y).size = a.size ∧ rd (fftBfly c a x y) = fbF c (rd a) x y :=
  ⟨fftBfly_size c a x y, rd_fftBfly c a hxy hx hy⟩

theorem ifftBfly_transfer (c : Sym) (a : Array V) (x y : Nat) (hxy : x ≠ y) (hx : x < a.size)
    (hy : y < a.size) :
    (ifftBfly c a x y).size = a.size ∧ rd (ifftBfly c a x y) = ibF c (rd a) x y :=
  ⟨ifftBfly_size c a x y, rd_ifftBfly c a hxy hx hy⟩

/-- **2 (fft).** The sequential Naive fft layer is the pointwise layer. -/
theorem _root_.RS.naiveFftLayerSeq_eq (delta trunc pos d size : Nat) (a : Array V) (hd : 0 < d)
    (hdvd : 2 * d ∣ size) (ht : trunc ≤ size) (h : pos + size ≤ a.size) :
    naiveFftLayerSeq delta trunc pos d a =
      fftLayer delta (fun r => decide (r < trunc)) d pos size a := by
  obtain ⟨h1, h2⟩ := naiveLayer_transfer fftBfly fbF fftBfly_transfer delta trunc pos d size hd hdvd
    ht a h
  apply ext_rd
  · rw [fftLayer_size]; exact h1
  · rw [rd_fftLayer _ _ _ _ _ _ h]
    unfold naiveFftLayerSeq
    rw [h2]
    exact naiveLayerF_eq fbF fbF_local (fun proc f => fftPt delta proc d pos size f) delta trunc
      pos d size (fun _ _ _ hp => fftPt_out hp)
      (fun _ _ _ _ hr hrs hi hp p hpp => fftPt_block hd hr hrs hi hp p hpp)
      (fun _ _ _ _ hr hrs hu hp => fftPt_block_skip hr hrs hu hp) hd hdvd ht (rd a)

/-- **2 (ifft).** The sequential Naive ifft layer is the pointwise layer. -/
theorem _root_.RS.naiveIfftLayerSeq_eq (delta trunc pos d size : Nat) (a : Array V) (hd : 0 < d)
    (hdvd : 2 * d ∣ size) (ht : trunc ≤ size) (h : pos + size ≤ a.size) :
    naiveIfftLayerSeq delta trunc pos d a =
      ifftLayer delta (fun r => decide (r < trunc)) d pos size a := by
  obtain ⟨h1, h2⟩ := naiveLayer_transfer ifftBfly ibF ifftBfly_transfer delta trunc pos d size hd
    hdvd ht a h
  apply ext_rd
  · rw [ifftLayer_size]; exact h1
  · rw [rd_ifftLayer _ _ _ _ _ _ h]
    unfold naiveIfftLayerSeq
    rw [h2]
    exact naiveLayerF_eq ibF ibF_local (fun proc f => ifftPt delta proc d pos size f) delta trunc
      pos d size (fun _ _ _ hp => ifftPt_out hp)
      (fun _ _ _ _ hr hrs hi hp p hpp => ifftPt_block hd hr hrs hi hp p hpp)
      (fun _ _ _ _ hr hrs hu hp => ifftPt_block_skip hr hrs hu hp) hd hdvd ht (rd a)

/-! ### 3. the Naive transforms -/

theorem two_mul_pow_dvd {l n : Nat} (h : l < n) : 2 * 2 ^ l ∣ 2 ^ n :=
  two_pow_dvd_of_eq (l := l) (m := n - l - 1) (by congr 1; omega)

theorem naiveFftSeq_aux (pos N trunc delta : Nat) (ht : trunc ≤ 2 ^ N) :
    ∀ m, m ≤ N → ∀ a : Array V, pos + 2 ^ N ≤ a.size →
      ((List.range m).reverse.map (2 ^ ·)).foldl (fun a d => naiveFftLayerSeq delta trunc pos d a) a =
        runFftPlan delta pos (2 ^ N) (naiveFftPlan trunc m) a := by
  intro m
  induction m with
  | zero => intro _ a _; rfl
  | succ m ih =>
    intro hm a ha
    simp only [List.range_succ, List.reverse_append, List.reverse_cons, List.reverse_nil,
      List.nil_append, List.cons_append, List.map_cons, List.foldl_cons, naiveFftPlan, runFftPlan]
    rw [naiveFftLayerSeq_eq delta trunc pos (2 ^ m) (2 ^ N) a (Nat.two_pow_pos m)
      (two_mul_pow_dvd (by omega)) ht ha]
    exact ih (by omega) _ (by simpa using ha)

/-- **3 (fft).** `Naive::fft` as a loop nest is `fft .naive`. -/
theorem _root_.RS.naiveFftSeq_eq (a : Array V) (pos n trunc delta : Nat) (ht : trunc ≤ 2 ^ n)
    (h : pos + 2 ^ n ≤ a.size) :
    naiveFftSeq a pos n trunc delta = fft .naive a pos (2 ^ n) trunc delta := by
  unfold naiveFftSeq fft fftPlan
  rw [Nat.log2_two_pow]
  exact naiveFftSeq_aux pos n trunc delta ht n (Nat.le_refl _) a h

theorem naiveIfftSeq_aux (pos N trunc delta : Nat) (ht : trunc ≤ 2 ^ N) :
    ∀ m, m ≤ N → ∀ a : Array V, pos + 2 ^ N ≤ a.size →
      ((List.range m).map (2 ^ ·)).foldl (fun a d => naiveIfftLayerSeq delta trunc pos d a) a =
        runIfftPlan delta pos (2 ^ N) (naiveIfftPlan trunc 0 m) a := by
  intro m
  induction m with
  | zero => intro _ a _; rfl
  | succ m ih =>
    intro hm a ha
    rw [naiveIfftPlan_snoc]
    simp only [List.range_succ, List.map_append, List.map_cons, List.map_nil, List.foldl_append,
      List.foldl_cons, List.foldl_nil, runIfftPlan, Nat.zero_add]
    rw [ih (by omega) a ha]
    exact naiveIfftLayerSeq_eq delta trunc pos (2 ^ m) (2 ^ N) _ (Nat.two_pow_pos m)
      (two_mul_pow_dvd (by omega)) ht (by simpa using ha)

/-- **3 (ifft).** `Naive::ifft` as a loop nest is `ifft .naive`. -/
theorem _root_.RS.naiveIfftSeq_eq (a : Array V) (pos n trunc delta : Nat) (ht : trunc ≤ 2 ^ n)
    (h : pos + 2 ^ n ≤ a.size) :
    naiveIfftSeq a pos n trunc delta = ifft .naive a pos (2 ^ n) trunc delta := by
  unfold naiveIfftSeq ifft ifftPlan
  rw [Nat.log2_two_pow]
  exact naiveIfftSeq_aux pos n trunc delta ht n (Nat.le_refl _) a h


/-! ### 4. the two-layer schedule -/

/-- `fft_butterfly_two_layers` on functions -/
def fftTwoF (c01 c23 c02 : Sym) (f : Nat → V) (p dist : Nat) : Nat → V :=
  fbF c23 (fbF c01 (fbF c02 (fbF c02 f p (p + 2 * dist)) (p + dist) (p + 3 * dist)) p (p + dist))
    (p + 2 * dist) (p + 3 * dist)

/-- `ifft_butterfly_two_layers` on functions -/
def ifftTwoF (c01 c23 c02 : Sym) (f : Nat → V) (p dist : Nat) : Nat → V :=
  ibF c02 (ibF c02 (ibF c23 (ibF c01 f p (p + dist)) (p + 2 * dist) (p + 3 * dist))
    p (p + 2 * dist)) (p + dist) (p + 3 * dist)

theorem fftTwoLayers_transfer (c01 c23 c02 : Sym) (a : Array V) (p dist : Nat) (hd : 0 < dist)
    (h : p + 3 * dist < a.size) :
    (fftTwoLayers c01 c23 c02 a p dist).size = a.size ∧
      rd (fftTwoLayers c01 c23 c02 a p dist) = fftTwoF c01 c23 c02 (rd a) p dist := by
  unfold fftTwoLayers fftTwoF
  refine ⟨by simp, ?_⟩
  rw [rd_fftBfly _ _ (by omega) (by simp; omega) (by simp; omega),
    rd_fftBfly _ _ (by omega) (by simp; omega) (by simp; omega),
    rd_fftBfly _ _ (by omega) (by simp; omega) (by simp; omega),
    rd_fftBfly _ _ (by omega) (by omega) (by omega)]

theorem ifftTwoLayers_transfer (c01 c23 c02 : Sym) (a : Array V) (p dist : Nat) (hd : 0 < dist)
    (h : p + 3 * dist < a.size) :
    (ifftTwoLayers c01 c23 c02 a p dist).size = a.size ∧
      rd (ifftTwoLayers c01 c23 c02 a p dist) = ifftTwoF c01 c23 c02 (rd a) p dist := by
  unfold ifftTwoLayers ifftTwoF
  refine ⟨by simp, ?_⟩
  rw [rd_ifftBfly _ _ (by omega) (by simp; omega) (by simp; omega),
    rd_ifftBfly _ _ (by omega) (by simp; omega) (by simp; omega),
    rd_ifftBfly _ _ (by omega) (by simp; omega) (by simp; omega),
    rd_ifftBfly _ _ (by omega) (by omega) (by omega)]

theorem fftTwoF_local (c01 c23 c02 : Sym) (x dist : Nat) :
    LocalOn (fun p => p = x ∨ p = x + dist ∨ p = x + 2 * dist ∨ p = x + 3 * dist)
      (fun f : Nat → V => fftTwoF c01 c23 c02 f x dist) := by
  have h1 := (fbF_local (V := V) c02 x (x + 2 * dist)).mono
    (S' := fun p => p = x ∨ p = x + dist ∨ p = x + 2 * dist ∨ p = x + 3 * dist)
    (fun p h => by omega)
  have h2 := (fbF_local (V := V) c02 (x + dist) (x + 3 * dist)).mono
    (S' := fun p => p = x ∨ p = x + dist ∨ p = x + 2 * dist ∨ p = x + 3 * dist)
    (fun p h => by omega)
  have h3 := (fbF_local (V := V) c01 x (x + dist)).mono
    (S' := fun p => p = x ∨ p = x + dist ∨ p = x + 2 * dist ∨ p = x + 3 * dist)
    (fun p h => by omega)
  have h4 := (fbF_local (V := V) c23 (x + 2 * dist) (x + 3 * dist)).mono
    (S' := fun p => p = x ∨ p = x + dist ∨ p = x + 2 * dist ∨ p = x + 3 * dist)
    (fun p h => by omega)
  exact ((h1.comp h2).comp h3).comp h4

theorem ifftTwoF_local (c01 c23 c02 : Sym) (x dist : Nat) :
    LocalOn (fun p => p = x ∨ p = x + dist ∨ p = x + 2 * dist ∨ p = x + 3 * dist)
      (fun f : Nat → V => ifftTwoF c01 c23 c02 f x dist) := by
  have h1 := (ibF_local (V := V) c01 x (x + dist)).mono
    (S' := fun p => p = x ∨ p = x + dist ∨ p = x + 2 * dist ∨ p = x + 3 * dist)
    (fun p h => by omega)
  have h2 := (ibF_local (V := V) c23 (x + 2 * dist) (x + 3 * dist)).mono
    (S' := fun p => p = x ∨ p = x + dist ∨ p = x + 2 * dist ∨ p = x + 3 * dist)
    (fun p h => by omega)
  have h3 := (ibF_local (V := V) c02 x (x + 2 * dist)).mono
    (S' := fun p => p = x ∨ p = x + dist ∨ p = x + 2 * dist ∨ p = x + 3 * dist)
    (fun p h => by omega)
  have h4 := (ibF_local (V := V) c02 (x + dist) (x + 3 * dist)).mono
    (S' := fun p => p = x ∨ p = x + dist ∨ p = x + 2 * dist ∨ p = x + 3 * dist)
    (fun p h => by omega)
  exact ((h1.comp h2).comp h3).comp h4


/-- the `for i in r..r+dist` loop of four-point butterflies inside one group, on functions -/
def quadRunF (tF : (Nat → V) → Nat → Nat → Nat → V) (f : Nat → V) (pos r dist : Nat) : Nat → V :=
  (List.range dist).foldl (fun f i => tF f (pos + r + i) dist) f

omit [ShardAlg V] in
theorem quadRunF_spec (tF : (Nat → V) → Nat → Nat → Nat → V) (dist : Nat)
    (hb : ∀ x, LocalOn (fun p => p = x ∨ p = x + dist ∨ p = x + 2 * dist ∨ p = x + 3 * dist)
      (fun f => tF f x dist))
    (f : Nat → V) (pos r : Nat) :
    (∀ i, i < dist → ∀ p, (p = pos + r + i ∨ p = pos + r + i + dist ∨ p = pos + r + i + 2 * dist ∨
        p = pos + r + i + 3 * dist) →
      quadRunF tF f pos r dist p = tF f (pos + r + i) dist p) ∧
    LocalOn (fun p => pos + r ≤ p ∧ p < pos + r + 4 * dist) (fun f => quadRunF tF f pos r dist) := by
  have hd : ∀ j k, j < dist → k < dist → j ≠ k → ∀ p,
      (p = pos + r + j ∨ p = pos + r + j + dist ∨ p = pos + r + j + 2 * dist ∨
        p = pos + r + j + 3 * dist) →
      ¬ (p = pos + r + k ∨ p = pos + r + k + dist ∨ p = pos + r + k + 2 * dist ∨
        p = pos + r + k + 3 * dist) := by
    intro j k hj hk hjk p h1 h2
    omega
  constructor
  · exact (foldl_range_local (fun i f => tF f (pos + r + i) dist)
      (fun i p => p = pos + r + i ∨ p = pos + r + i + dist ∨ p = pos + r + i + 2 * dist ∨
        p = pos + r + i + 3 * dist) dist (fun i _ => hb _) hd f).1
  · refine LocalOn.mono ?_ (foldl_range_localOn (fun i f => tF f (pos + r + i) dist)
      (fun i p => p = pos + r + i ∨ p = pos + r + i + dist ∨ p = pos + r + i + 2 * dist ∨
        p = pos + r + i + 3 * dist) dist (fun i _ => hb _) hd)
    rintro p ⟨k, hk, h⟩
    omega

omit [ShardAlg V] in
/-- a two-layer pass on functions, generic in the four-point butterfly -/
theorem twoPassF_eq (tF : Sym → Sym → Sym → (Nat → V) → Nat → Nat → Nat → V)
    (delta trunc pos dist size : Nat)
    (hb : ∀ c01 c23 c02 x,
      LocalOn (fun p => p = x ∨ p = x + dist ∨ p = x + 2 * dist ∨ p = x + 3 * dist)
        (fun f => tF c01 c23 c02 f x dist))
    (T : (Nat → V) → Nat → V)
    (hout : ∀ f p, ¬ (pos ≤ p ∧ p < pos + size) → T f p = f p)
    (hquad : ∀ f r i, 4 * dist ∣ r → r + 4 * dist ≤ size → i < dist → r < trunc →
      ∀ p, (p = pos + r + i ∨ p = pos + r + i + dist ∨ p = pos + r + i + 2 * dist ∨
          p = pos + r + i + 3 * dist) →
        T f p = tF (skewElem (r + dist + delta - 1)) (skewElem (r + dist + delta - 1 + 2 * dist))
          (skewElem (r + dist + delta - 1 + dist)) f (pos + r + i) dist p)
    (hskip : ∀ f r u, 4 * dist ∣ r → r + 4 * dist ≤ size → u < 4 * dist → ¬ r < trunc →
      T f (pos + r + u) = f (pos + r + u))
    (hd : 0 < dist) (hdvd : 4 * dist ∣ size) (ht : trunc ≤ size) (f : Nat → V) :
    (blockStarts trunc (4 * dist)).foldl
      (fun f r => quadRunF (tF (skewElem (r + dist + delta - 1))
        (skewElem (r + dist + delta - 1 + 2 * dist)) (skewElem (r + dist + delta - 1 + dist)))
        f pos r dist) f = T f := by
  apply blocks_eq (fun r f => quadRunF (tF (skewElem (r + dist + delta - 1))
        (skewElem (r + dist + delta - 1 + 2 * dist)) (skewElem (r + dist + delta - 1 + dist)))
        f pos r dist) (4 * dist) pos trunc
    size (by omega) hdvd ht (fun r _ _ => (quadRunF_spec _ dist (hb _ _ _) f pos r).2)
  · exact hout f
  · intro r hr hrt u hu
    have hrs := block_fits hr hdvd (by omega : r < size)
    have hu4 : u < dist ∨ (dist ≤ u ∧ u < 2 * dist) ∨ (2 * dist ≤ u ∧ u < 3 * dist) ∨
      3 * dist ≤ u := by omega
    rcases hu4 with h | h | h | h
    · have hp : pos + r + u = pos + r + u ∨ pos + r + u = pos + r + u + dist ∨
        pos + r + u = pos + r + u + 2 * dist ∨ pos + r + u = pos + r + u + 3 * dist := Or.inl rfl
      rw [(quadRunF_spec _ dist (hb _ _ _) f pos r).1 u h _ hp]
      exact hquad f r u hr hrs h hrt _ hp
    · have hp : pos + r + u = pos + r + (u - dist) ∨ pos + r + u = pos + r + (u - dist) + dist ∨
        pos + r + u = pos + r + (u - dist) + 2 * dist ∨
        pos + r + u = pos + r + (u - dist) + 3 * dist := by omega
      rw [(quadRunF_spec _ dist (hb _ _ _) f pos r).1 (u - dist) (by omega) _ hp]
      exact hquad f r (u - dist) hr hrs (by omega) hrt _ hp
    · have hp : pos + r + u = pos + r + (u - 2 * dist) ∨
        pos + r + u = pos + r + (u - 2 * dist) + dist ∨
        pos + r + u = pos + r + (u - 2 * dist) + 2 * dist ∨
        pos + r + u = pos + r + (u - 2 * dist) + 3 * dist := by omega
      rw [(quadRunF_spec _ dist (hb _ _ _) f pos r).1 (u - 2 * dist) (by omega) _ hp]
      exact hquad f r (u - 2 * dist) hr hrs (by omega) hrt _ hp
    · have hp : pos + r + u = pos + r + (u - 3 * dist) ∨
        pos + r + u = pos + r + (u - 3 * dist) + dist ∨
        pos + r + u = pos + r + (u - 3 * dist) + 2 * dist ∨
        pos + r + u = pos + r + (u - 3 * dist) + 3 * dist := by omega
      rw [(quadRunF_spec _ dist (hb _ _ _) f pos r).1 (u - 3 * dist) (by omega) _ hp]
      exact hquad f r (u - 3 * dist) hr hrs (by omega) hrt _ hp
  · intro r hr hrs hrt u hu
    exact hskip f r u hr hrs hu hrt

theorem twoPass_transfer (tl : Sym → Sym → Sym → Array V → Nat → Nat → Array V)
    (tF : Sym → Sym → Sym → (Nat → V) → Nat → Nat → Nat → V)
    (htl : ∀ c01 c23 c02 (a : Array V) p dist, 0 < dist → p + 3 * dist < a.size →
      (tl c01 c23 c02 a p dist).size = a.size ∧
        rd (tl c01 c23 c02 a p dist) = tF c01 c23 c02 (rd a) p dist)
    (delta trunc pos dist size : Nat) (hd : 0 < dist) (hdvd : 4 * dist ∣ size) (ht : trunc ≤ size)
    (a : Array V) (h : pos + size ≤ a.size) :
    ((blockStarts trunc (4 * dist)).foldl
        (fun a r => (List.range dist).foldl
          (fun a i => tl (skewElem (r + dist + delta - 1))
            (skewElem (r + dist + delta - 1 + 2 * dist)) (skewElem (r + dist + delta - 1 + dist))
            a (pos + r + i) dist) a) a).size = a.size ∧
      rd ((blockStarts trunc (4 * dist)).foldl
        (fun a r => (List.range dist).foldl
          (fun a i => tl (skewElem (r + dist + delta - 1))
            (skewElem (r + dist + delta - 1 + 2 * dist)) (skewElem (r + dist + delta - 1 + dist))
            a (pos + r + i) dist) a) a) =
      (blockStarts trunc (4 * dist)).foldl
        (fun f r => quadRunF (tF (skewElem (r + dist + delta - 1))
          (skewElem (r + dist + delta - 1 + 2 * dist)) (skewElem (r + dist + delta - 1 + dist)))
          f pos r dist) (rd a) := by
  apply foldl_transfer (blockStarts trunc (4 * dist))
    (fun r a => (List.range dist).foldl
          (fun a i => tl (skewElem (r + dist + delta - 1))
            (skewElem (r + dist + delta - 1 + 2 * dist)) (skewElem (r + dist + delta - 1 + dist))
            a (pos + r + i) dist) a)
    (fun r f => quadRunF (tF (skewElem (r + dist + delta - 1))
          (skewElem (r + dist + delta - 1 + 2 * dist)) (skewElem (r + dist + delta - 1 + dist)))
          f pos r dist) a.size _ a rfl
  intro r hr b hb
  obtain ⟨h1, h2⟩ := mem_blockStarts (by omega) hr
  have hrs := block_fits h1 hdvd (by omega : r < size)
  unfold quadRunF
  apply foldl_transfer (List.range dist)
    (fun i a => tl (skewElem (r + dist + delta - 1))
            (skewElem (r + dist + delta - 1 + 2 * dist)) (skewElem (r + dist + delta - 1 + dist))
            a (pos + r + i) dist)
    (fun i f => tF (skewElem (r + dist + delta - 1))
            (skewElem (r + dist + delta - 1 + 2 * dist)) (skewElem (r + dist + delta - 1 + dist))
            f (pos + r + i) dist) a.size _ b hb
  intro i hi b' hb'
  have hi' : i < dist := List.mem_range.1 hi
  have := htl (skewElem (r + dist + delta - 1))
            (skewElem (r + dist + delta - 1 + 2 * dist)) (skewElem (r + dist + delta - 1 + dist))
            b' (pos + r + i) dist hd (by omega)
  rw [hb'] at this
  exact this

/-! the four-point butterflies against two pointwise layers -/

theorem quad_fft_alg (c01 c23 c02 : Sym) (f g : Nat → V) (x0 x1 x2 x3 : Nat)
    (h01 : x0 ≠ x1) (h02 : x0 ≠ x2) (h03 : x0 ≠ x3) (h12 : x1 ≠ x2) (h13 : x1 ≠ x3) (h23 : x2 ≠ x3)
    (g0 : g x0 = fbF c02 f x0 x2 x0) (g1 : g x1 = fbF c02 f x1 x3 x1)
    (g2 : g x2 = fbF c02 f x0 x2 x2) (g3 : g x3 = fbF c02 f x1 x3 x3) :
    fbF c01 g x0 x1 x0 = fbF c23 (fbF c01 (fbF c02 (fbF c02 f x0 x2) x1 x3) x0 x1) x2 x3 x0 ∧
    fbF c01 g x0 x1 x1 = fbF c23 (fbF c01 (fbF c02 (fbF c02 f x0 x2) x1 x3) x0 x1) x2 x3 x1 ∧
    fbF c23 g x2 x3 x2 = fbF c23 (fbF c01 (fbF c02 (fbF c02 f x0 x2) x1 x3) x0 x1) x2 x3 x2 ∧
    fbF c23 g x2 x3 x3 = fbF c23 (fbF c01 (fbF c02 (fbF c02 f x0 x2) x1 x3) x0 x1) x2 x3 x3 := by
  have h10 := h01.symm; have h20 := h02.symm; have h30 := h03.symm
  have h21 := h12.symm; have h31 := h13.symm; have h32 := h23.symm
  simp only [fbF] at g0 g1 g2 g3 ⊢
  simp [*] at g0 g1 g2 g3 ⊢

theorem quad_ifft_alg (c01 c23 c02 : Sym) (f g : Nat → V) (x0 x1 x2 x3 : Nat)
    (h01 : x0 ≠ x1) (h02 : x0 ≠ x2) (h03 : x0 ≠ x3) (h12 : x1 ≠ x2) (h13 : x1 ≠ x3) (h23 : x2 ≠ x3)
    (g0 : g x0 = ibF c01 f x0 x1 x0) (g1 : g x1 = ibF c01 f x0 x1 x1)
    (g2 : g x2 = ibF c23 f x2 x3 x2) (g3 : g x3 = ibF c23 f x2 x3 x3) :
    ibF c02 g x0 x2 x0 = ibF c02 (ibF c02 (ibF c23 (ibF c01 f x0 x1) x2 x3) x0 x2) x1 x3 x0 ∧
    ibF c02 g x1 x3 x1 = ibF c02 (ibF c02 (ibF c23 (ibF c01 f x0 x1) x2 x3) x0 x2) x1 x3 x1 ∧
    ibF c02 g x0 x2 x2 = ibF c02 (ibF c02 (ibF c23 (ibF c01 f x0 x1) x2 x3) x0 x2) x1 x3 x2 ∧
    ibF c02 g x1 x3 x3 = ibF c02 (ibF c02 (ibF c23 (ibF c01 f x0 x1) x2 x3) x0 x2) x1 x3 x3 := by
  have h10 := h01.symm; have h20 := h02.symm; have h30 := h03.symm
  have h21 := h12.symm; have h31 := h13.symm; have h32 := h23.symm
  simp only [ibF] at g0 g1 g2 g3 ⊢
  simp [*] at g0 g1 g2 g3 ⊢


theorem group_facts {dist r : Nat} (hd : 0 < dist) (hr : 4 * dist ∣ r) :
    2 * (2 * dist) ∣ r ∧ 2 * dist ∣ r ∧ 2 * dist ∣ r + 2 * dist ∧
      r / (4 * dist) * (4 * dist) = r ∧ (r + 2 * dist) / (4 * dist) * (4 * dist) = r := by
  have h4 : 4 * dist = 2 * (2 * dist) := by omega
  have hr4 : 2 * (2 * dist) ∣ r := h4 ▸ hr
  have hr2 : 2 * dist ∣ r := Nat.dvd_trans (Nat.dvd_mul_left _ _) hr4
  refine ⟨hr4, hr2, Nat.dvd_add hr2 (Nat.dvd_refl _), ?_, (blk_of hr (u := 2 * dist) (by omega)).1⟩
  have := (blk_of hr (u := 0) (by omega)).1
  rwa [Nat.add_zero] at this

theorem fftPt2_quad {delta trunc dist pos size : Nat} {f : Nat → V} (hd : 0 < dist) {r i : Nat}
    (hr : 4 * dist ∣ r) (hrs : r + 4 * dist ≤ size) (hi : i < dist) (hrt : r < trunc) (p : Nat)
    (hp : p = pos + r + i ∨ p = pos + r + i + dist ∨ p = pos + r + i + 2 * dist ∨
      p = pos + r + i + 3 * dist) :
    fftPt delta (fun r => decide (r / (4 * dist) * (4 * dist) < trunc)) dist pos size
      (fftPt delta (fun r => decide (r < trunc)) (2 * dist) pos size f) p =
    fftTwoF (skewElem (r + dist + delta - 1)) (skewElem (r + dist + delta - 1 + 2 * dist))
      (skewElem (r + dist + delta - 1 + dist)) f (pos + r + i) dist p := by
  obtain ⟨hr4, hr2, hr2', e0, e2⟩ := group_facts hd hr
  have ec02 : r + 2 * dist + delta - 1 = r + dist + delta - 1 + dist := by omega
  have ec23 : r + 2 * dist + dist + delta - 1 = r + dist + delta - 1 + 2 * dist := by omega
  generalize hg : fftPt delta (fun r => decide (r < trunc)) (2 * dist) pos size f = g
  have G : ∀ i', i' < 2 * dist → ∀ p, (p = pos + r + i' ∨ p = pos + r + i' + 2 * dist) →
      g p = fbF (skewElem (r + dist + delta - 1 + dist)) f (pos + r + i') (pos + r + i' + 2 * dist) p := by
    intro i' hi' p hp
    rw [← hg, ← ec02]
    exact fftPt_block (by omega) hr4 (by omega) hi' (by simpa using hrt) p hp
  have T01 := fun p hp => fftPt_block (delta := delta) (pos := pos) (size := size) (f := g)
    (proc := fun r => decide (r / (4 * dist) * (4 * dist) < trunc)) hd hr2 (by omega) hi
    (by simpa [e0] using hrt) p hp
  have T23 := fun p hp => fftPt_block (delta := delta) (pos := pos) (size := size) (f := g)
    (proc := fun r => decide (r / (4 * dist) * (4 * dist) < trunc)) hd hr2' (by omega) hi
    (by simpa [e2] using hrt) p hp
  rw [ec23] at T23
  generalize hx : pos + r + i = x at *
  have g0 := G i (by omega) x (Or.inl (by omega))
  have g1 := G (i + dist) (by omega) (x + dist) (Or.inl (by omega))
  have g2 := G i (by omega) (x + 2 * dist) (Or.inr (by omega))
  have g3 := G (i + dist) (by omega) (x + 3 * dist) (Or.inr (by omega))
  have ex0 : pos + r + i = x := by omega
  have ex1 : pos + r + (i + dist) = x + dist := by omega
  have ex3 : x + dist + 2 * dist = x + 3 * dist := by omega
  have ey2 : pos + (r + 2 * dist) + i = x + 2 * dist := by omega
  have ey3 : x + 2 * dist + dist = x + 3 * dist := by omega
  rw [ex0] at g0 g2
  rw [ex1, ex3] at g1 g3
  have A := quad_fft_alg (skewElem (r + dist + delta - 1))
    (skewElem (r + dist + delta - 1 + 2 * dist)) (skewElem (r + dist + delta - 1 + dist)) f g
    x (x + dist) (x + 2 * dist) (x + 3 * dist) (by omega) (by omega) (by omega) (by omega)
    (by omega) (by omega) g0 g1 g2 g3
  unfold fftTwoF
  rcases hp with rfl | rfl | rfl | rfl
  · rw [T01 _ (Or.inl rfl)]; exact A.1
  · rw [T01 _ (Or.inr rfl)]; exact A.2.1
  · rw [T23 _ (Or.inl ey2.symm), ey2, ey3]; exact A.2.2.1
  · rw [T23 _ (Or.inr (by omega)), ey2, ey3]; exact A.2.2.2


theorem ifftPt2_quad {delta trunc dist pos size : Nat} {f : Nat → V} (hd : 0 < dist) {r i : Nat}
    (hr : 4 * dist ∣ r) (hrs : r + 4 * dist ≤ size) (hi : i < dist) (hrt : r < trunc) (p : Nat)
    (hp : p = pos + r + i ∨ p = pos + r + i + dist ∨ p = pos + r + i + 2 * dist ∨
      p = pos + r + i + 3 * dist) :
    ifftPt delta (fun r => decide (r < trunc)) (2 * dist) pos size
      (ifftPt delta (fun r => decide (r / (4 * dist) * (4 * dist) < trunc)) dist pos size f) p =
    ifftTwoF (skewElem (r + dist + delta - 1)) (skewElem (r + dist + delta - 1 + 2 * dist))
      (skewElem (r + dist + delta - 1 + dist)) f (pos + r + i) dist p := by
  obtain ⟨hr4, hr2, hr2', e0, e2⟩ := group_facts hd hr
  have ec02 : r + 2 * dist + delta - 1 = r + dist + delta - 1 + dist := by omega
  have ec23 : r + 2 * dist + dist + delta - 1 = r + dist + delta - 1 + 2 * dist := by omega
  have G01 := fun p hp => ifftPt_block (delta := delta) (pos := pos) (size := size) (f := f)
    (proc := fun r => decide (r / (4 * dist) * (4 * dist) < trunc)) hd hr2 (by omega) hi
    (by simpa [e0] using hrt) p hp
  have G23 := fun p hp => ifftPt_block (delta := delta) (pos := pos) (size := size) (f := f)
    (proc := fun r => decide (r / (4 * dist) * (4 * dist) < trunc)) hd hr2' (by omega) hi
    (by simpa [e2] using hrt) p hp
  rw [ec23] at G23
  generalize hg : ifftPt delta (fun r => decide (r / (4 * dist) * (4 * dist) < trunc)) dist pos
    size f = g at G01 G23 ⊢
  have T : ∀ i', i' < 2 * dist → ∀ p, (p = pos + r + i' ∨ p = pos + r + i' + 2 * dist) →
      ifftPt delta (fun r => decide (r < trunc)) (2 * dist) pos size g p =
        ibF (skewElem (r + dist + delta - 1 + dist)) g (pos + r + i') (pos + r + i' + 2 * dist) p := by
    intro i' hi' p hp
    rw [← ec02]
    exact ifftPt_block (by omega) hr4 (by omega) hi' (by simpa using hrt) p hp
  generalize hx : pos + r + i = x at *
  have ex0 : pos + r + i = x := by omega
  have ex1 : pos + r + (i + dist) = x + dist := by omega
  have ex3 : x + dist + 2 * dist = x + 3 * dist := by omega
  have ey2 : pos + (r + 2 * dist) + i = x + 2 * dist := by omega
  have ey3 : x + 2 * dist + dist = x + 3 * dist := by omega
  have g0 := G01 x (Or.inl rfl)
  have g1 := G01 (x + dist) (Or.inr rfl)
  have g2 := G23 (x + 2 * dist) (Or.inl ey2.symm)
  have g3 := G23 (x + 3 * dist) (Or.inr (by omega))
  rw [ey2, ey3] at g2 g3
  have A := quad_ifft_alg (skewElem (r + dist + delta - 1))
    (skewElem (r + dist + delta - 1 + 2 * dist)) (skewElem (r + dist + delta - 1 + dist)) f g
    x (x + dist) (x + 2 * dist) (x + 3 * dist) (by omega) (by omega) (by omega) (by omega)
    (by omega) (by omega) g0 g1 g2 g3
  have T0 := T i (by omega)
  have T1 := T (i + dist) (by omega)
  rw [ex0] at T0
  rw [ex1, ex3] at T1
  unfold ifftTwoF
  rcases hp with rfl | rfl | rfl | rfl
  · rw [T0 _ (Or.inl rfl)]; exact A.1
  · rw [T1 _ (Or.inl rfl)]; exact A.2.1
  · rw [T0 _ (Or.inr rfl)]; exact A.2.2.1
  · rw [T1 _ (Or.inr rfl)]; exact A.2.2.2

theorem fftPt2_skip {delta trunc dist pos size : Nat} {f : Nat → V} (hd : 0 < dist) {r u : Nat}
    (hr : 4 * dist ∣ r) (hrs : r + 4 * dist ≤ size) (hu : u < 4 * dist) (hrt : ¬ r < trunc) :
    fftPt delta (fun r => decide (r / (4 * dist) * (4 * dist) < trunc)) dist pos size
      (fftPt delta (fun r => decide (r < trunc)) (2 * dist) pos size f) (pos + r + u) =
    f (pos + r + u) := by
  obtain ⟨hr4, hr2, hr2', e0, e2⟩ := group_facts hd hr
  have inner : fftPt delta (fun r => decide (r < trunc)) (2 * dist) pos size f (pos + r + u) =
      f (pos + r + u) :=
    fftPt_block_skip hr4 (by omega) (by omega) (by simpa using hrt)
  by_cases h : u < 2 * dist
  · rw [fftPt_block_skip hr2 (by omega) h (by simpa [e0] using hrt), inner]
  · have e : pos + r + u = pos + (r + 2 * dist) + (u - 2 * dist) := by omega
    rw [e, fftPt_block_skip hr2' (by omega) (by omega) (by simpa [e2] using hrt), ← e, inner]

theorem ifftPt2_skip {delta trunc dist pos size : Nat} {f : Nat → V} (hd : 0 < dist) {r u : Nat}
    (hr : 4 * dist ∣ r) (hrs : r + 4 * dist ≤ size) (hu : u < 4 * dist) (hrt : ¬ r < trunc) :
    ifftPt delta (fun r => decide (r < trunc)) (2 * dist) pos size
      (ifftPt delta (fun r => decide (r / (4 * dist) * (4 * dist) < trunc)) dist pos size f)
      (pos + r + u) = f (pos + r + u) := by
  obtain ⟨hr4, hr2, hr2', e0, e2⟩ := group_facts hd hr
  rw [ifftPt_block_skip hr4 (by omega) (by omega) (by simpa using hrt)]
  by_cases h : u < 2 * dist
  · rw [ifftPt_block_skip hr2 (by omega) h (by simpa [e0] using hrt)]
  · have e : pos + r + u = pos + (r + 2 * dist) + (u - 2 * dist) := by omega
    rw [e, ifftPt_block_skip hr2' (by omega) (by omega) (by simpa [e2] using hrt)]

/-- **4 (fft pass).** One pass of `fft_private` is the pair of pointwise layers of `twoFftPlan`. -/
theorem _root_.RS.twoFftPassSeq_eq (delta trunc pos dist size : Nat) (a : Array V) (hd : 0 < dist)
    (hdvd : 4 * dist ∣ size) (ht : trunc ≤ size) (h : pos + size ≤ a.size) :
    twoFftPassSeq delta trunc pos dist a =
      fftLayer delta (fun r => decide (r / (4 * dist) * (4 * dist) < trunc)) dist pos size
        (fftLayer delta (fun r => decide (r < trunc)) (2 * dist) pos size a) := by
  obtain ⟨h1, h2⟩ := twoPass_transfer fftTwoLayers fftTwoF fftTwoLayers_transfer delta trunc pos
    dist size hd hdvd ht a h
  apply ext_rd
  · rw [fftLayer_size, fftLayer_size]; exact h1
  · rw [rd_fftLayer _ _ _ _ _ _ (by simpa using h), rd_fftLayer _ _ _ _ _ _ h]
    show rd ((blockStarts trunc (4 * dist)).foldl
        (fun a r => (List.range dist).foldl
          (fun a i => fftTwoLayers (skewElem (r + dist + delta - 1))
            (skewElem (r + dist + delta - 1 + 2 * dist)) (skewElem (r + dist + delta - 1 + dist))
            a (pos + r + i) dist) a) a) = _
    rw [h2]
    exact twoPassF_eq fftTwoF delta trunc pos dist size (fun _ _ _ _ => fftTwoF_local ..)
      (fun f => fftPt delta (fun r => decide (r / (4 * dist) * (4 * dist) < trunc)) dist pos size
        (fftPt delta (fun r => decide (r < trunc)) (2 * dist) pos size f))
      (fun f p hp => by rw [fftPt_out hp, fftPt_out hp])
      (fun f r i hr hrs hi hrt p hp => fftPt2_quad hd hr hrs hi hrt p hp)
      (fun f r u hr hrs hu hrt => fftPt2_skip hd hr hrs hu hrt) hd hdvd ht (rd a)

/-- **4 (ifft pass).** One pass of `ifft_private` is the pair of pointwise layers of `twoIfftPlan`. -/
theorem _root_.RS.twoIfftPassSeq_eq (delta trunc pos dist size : Nat) (a : Array V) (hd : 0 < dist)
    (hdvd : 4 * dist ∣ size) (ht : trunc ≤ size) (h : pos + size ≤ a.size) :
    twoIfftPassSeq delta trunc pos dist a =
      ifftLayer delta (fun r => decide (r < trunc)) (2 * dist) pos size
        (ifftLayer delta (fun r => decide (r / (4 * dist) * (4 * dist) < trunc)) dist pos size a) := by
  obtain ⟨h1, h2⟩ := twoPass_transfer ifftTwoLayers ifftTwoF ifftTwoLayers_transfer delta trunc pos
    dist size hd hdvd ht a h
  apply ext_rd
  · rw [ifftLayer_size, ifftLayer_size]; exact h1
  · rw [rd_ifftLayer _ _ _ _ _ _ (by simpa using h), rd_ifftLayer _ _ _ _ _ _ h]
    show rd ((blockStarts trunc (4 * dist)).foldl
        (fun a r => (List.range dist).foldl
          (fun a i => ifftTwoLayers (skewElem (r + dist + delta - 1))
            (skewElem (r + dist + delta - 1 + 2 * dist)) (skewElem (r + dist + delta - 1 + dist))
            a (pos + r + i) dist) a) a) = _
    rw [h2]
    exact twoPassF_eq ifftTwoF delta trunc pos dist size (fun _ _ _ _ => ifftTwoF_local ..)
      (fun f => ifftPt delta (fun r => decide (r < trunc)) (2 * dist) pos size
        (ifftPt delta (fun r => decide (r / (4 * dist) * (4 * dist) < trunc)) dist pos size f))
      (fun f p hp => by rw [ifftPt_out hp, ifftPt_out hp])
      (fun f r i hr hrs hi hrt p hp => ifftPt2_quad hd hr hrs hi hrt p hp)
      (fun f r u hr hrs hu hrt => ifftPt2_skip hd hr hrs hu hrt) hd hdvd ht (rd a)


/-! the unpaired last layers -/

/-- the final distance-1 loop of `fft_private` is the Naive layer at distance 1 -/
theorem _root_.RS.lastFftLayer_eq (delta trunc pos : Nat) (a : Array V) :
    (blockStarts trunc 2).foldl
      (fun a r => fftBfly (skewElem (r + delta)) a (pos + r) (pos + r + 1)) a =
      naiveFftLayerSeq delta trunc pos 1 a := by
  unfold naiveFftLayerSeq
  have e : (fun (a : Array V) r => bflyRun (fftBfly (skewElem (r + 1 + delta - 1))) a pos r 1) =
      (fun a r => fftBfly (skewElem (r + delta)) a (pos + r) (pos + r + 1)) := by
    funext a r
    have : r + 1 + delta - 1 = r + delta := by omega
    simp [bflyRun, List.range_succ, this]
  rw [e]

theorem ifftPt_congr {delta : Nat} {proc proc' : Nat → Bool} {d pos size : Nat} {f : Nat → V}
    (h : ∀ i, i < size → proc (i / (2 * d) * (2 * d)) = proc' (i / (2 * d) * (2 * d))) :
    ifftPt delta proc d pos size f = ifftPt delta proc' d pos size f := by
  funext p
  rcases window_cases pos size p with hw | ⟨i, hi, rfl⟩
  · rw [ifftPt_out hw, ifftPt_out hw]
  · have hw : pos ≤ pos + i ∧ pos + i < pos + size := by omega
    simp only [ifftPt, hw, Nat.add_sub_cancel_left, h i hi]

/-- the final unconditional loop of `ifft_private` (distance `size/2`) is the pointwise layer that
    processes its single block -/
theorem _root_.RS.lastIfftLayer_eq (delta pos dist : Nat) (a : Array V) (hd : 0 < dist)
    (h : pos + 2 * dist ≤ a.size) :
    bflyRun (ifftBfly (skewElem (dist + delta - 1))) a pos 0 dist =
      ifftLayer delta (fun _ => true) dist pos (2 * dist) a := by
  have e1 : bflyRun (ifftBfly (skewElem (dist + delta - 1))) a pos 0 dist =
      naiveIfftLayerSeq delta 1 pos dist a := by
    have : (1 + 2 * dist - 1) / (2 * dist) = 1 := by
      rw [Nat.add_sub_cancel_left]; exact Nat.div_self (by omega)
    unfold naiveIfftLayerSeq blockStarts
    rw [this]
    simp [List.range_succ]
  rw [e1, naiveIfftLayerSeq_eq delta 1 pos dist (2 * dist) a hd (Nat.dvd_refl _) (by omega) h]
  apply ext_rd (by simp)
  rw [rd_ifftLayer _ _ _ _ _ _ h, rd_ifftLayer _ _ _ _ _ _ h]
  apply ifftPt_congr
  intro i hi
  have := (blk_of (D := 2 * dist) (r := 0) (u := i) (Nat.dvd_zero _) hi).1
  rw [Nat.zero_add] at this
  simp [this]

/-! the whole two-layer transforms -/

theorem two_pow_facts (m : Nat) : 2 ^ (m + 1) = 2 * 2 ^ m ∧ 2 ^ (m + 2) = 4 * 2 ^ m := by
  constructor
  · rw [Nat.pow_succ, Nat.mul_comm]
  · rw [Nat.pow_add]; omega

theorem four_mul_pow_dvd {l n : Nat} (h : l + 2 ≤ n) : 4 * 2 ^ l ∣ 2 ^ n := by
  rw [← (two_pow_facts l).2]
  exact Nat.pow_dvd_pow 2 h

theorem twoFftSeq_aux (pos N trunc delta : Nat) (ht : trunc ≤ 2 ^ N) :
    ∀ m, m ≤ N → ∀ a : Array V, pos + 2 ^ N ≤ a.size →
      twoFftSeq a pos m trunc delta = runFftPlan delta pos (2 ^ N) (twoFftPlan trunc m) a
  | 0, _, a, _ => by simp [twoFftSeq, twoFftPlan, runFftPlan]
  | 1, hm, a, ha => by
    have e : twoFftSeq a pos 1 trunc delta = naiveFftLayerSeq delta trunc pos 1 a := by
      rw [← lastFftLayer_eq]; simp [twoFftSeq]
    rw [e, naiveFftLayerSeq_eq delta trunc pos 1 (2 ^ N) a (by omega)
      (two_mul_pow_dvd (l := 0) (by omega)) ht ha]
    rfl
  | m + 2, hm, a, ha => by
    have ih := twoFftSeq_aux pos N trunc delta ht m (by omega)
    have e : twoFftSeq a pos (m + 2) trunc delta =
        twoFftSeq (twoFftPassSeq delta trunc pos (2 ^ m) a) pos m trunc delta := by
      have e1 : (m + 2) / 2 = m / 2 + 1 := by omega
      have e2 : (m + 2) % 2 = m % 2 := by omega
      simp only [twoFftSeq, e1, e2, List.range_succ_eq_map, List.map_cons, List.map_map,
        List.foldl_cons]
      have e3 : ((fun j => 2 ^ (m + 2 - 2 - 2 * j)) ∘ Nat.succ) = fun j => 2 ^ (m - 2 - 2 * j) := by
        funext j
        show 2 ^ (m + 2 - 2 - 2 * (j + 1)) = 2 ^ (m - 2 - 2 * j)
        congr 1; omega
      rw [e3]
      rfl
    rw [e, twoFftPassSeq_eq delta trunc pos (2 ^ m) (2 ^ N) a (Nat.two_pow_pos m)
      (four_mul_pow_dvd hm) ht ha, ih _ (by simpa using ha)]
    simp only [twoFftPlan, runFftPlan, List.foldl_cons, (two_pow_facts m).1, (two_pow_facts m).2]


/-- `ifft_private` started at level `lvl` with `m` levels to go (`twoIfftSeq` is `lvl = 0`) -/
def twoIfftSeqG (a : Array V) (pos lvl m trunc delta : Nat) : Array V :=
  let a := ((List.range (m / 2)).map fun j => 2 ^ (lvl + 2 * j)).foldl
    (fun a d => twoIfftPassSeq delta trunc pos d a) a
  if m % 2 = 1 then
    bflyRun (ifftBfly (skewElem (2 ^ (lvl + m - 1) + delta - 1))) a pos 0 (2 ^ (lvl + m - 1))
  else a

theorem twoIfftSeq_eq_G (a : Array V) (pos n trunc delta : Nat) :
    twoIfftSeq a pos n trunc delta = twoIfftSeqG a pos 0 n trunc delta := by
  simp [twoIfftSeq, twoIfftSeqG]

theorem twoIfftSeqG_aux (pos N trunc delta : Nat) (ht : trunc ≤ 2 ^ N) :
    ∀ m lvl, lvl + m = N → ∀ a : Array V, pos + 2 ^ N ≤ a.size →
      twoIfftSeqG a pos lvl m trunc delta =
        runIfftPlan delta pos (2 ^ N) (twoIfftPlan trunc lvl m) a
  | 0, lvl, _, a, _ => by simp [twoIfftSeqG, twoIfftPlan, runIfftPlan]
  | 1, lvl, hN, a, ha => by
    have hs : 2 ^ N = 2 * 2 ^ lvl := by rw [← hN]; exact (two_pow_facts lvl).1
    have e : twoIfftSeqG a pos lvl 1 trunc delta =
        bflyRun (ifftBfly (skewElem (2 ^ lvl + delta - 1))) a pos 0 (2 ^ lvl) := by
      simp [twoIfftSeqG]
    rw [e, lastIfftLayer_eq delta pos (2 ^ lvl) a (Nat.two_pow_pos lvl) (by omega), hs]
    rfl
  | m + 2, lvl, hN, a, ha => by
    have ih := twoIfftSeqG_aux pos N trunc delta ht m (lvl + 2) (by omega)
    have e : twoIfftSeqG a pos lvl (m + 2) trunc delta =
        twoIfftSeqG (twoIfftPassSeq delta trunc pos (2 ^ lvl) a) pos (lvl + 2) m trunc delta := by
      have e1 : (m + 2) / 2 = m / 2 + 1 := by omega
      have e2 : (m + 2) % 2 = m % 2 := by omega
      have e4 : lvl + (m + 2) - 1 = lvl + 2 + m - 1 := by omega
      simp only [twoIfftSeqG, e1, e2, e4, List.range_succ_eq_map, List.map_cons, List.map_map,
        List.foldl_cons]
      have e3 : ((fun j => 2 ^ (lvl + 2 * j)) ∘ Nat.succ) = fun j => 2 ^ (lvl + 2 + 2 * j) := by
        funext j
        show 2 ^ (lvl + 2 * (j + 1)) = 2 ^ (lvl + 2 + 2 * j)
        congr 1; omega
      rw [e3]
      rfl
    rw [e, twoIfftPassSeq_eq delta trunc pos (2 ^ lvl) (2 ^ N) a (Nat.two_pow_pos lvl)
      (four_mul_pow_dvd (by omega)) ht ha, ih _ (by simpa using ha)]
    simp only [twoIfftPlan, runIfftPlan, List.foldl_cons, (two_pow_facts lvl).1,
      (two_pow_facts lvl).2]

end SeqEq

open SeqEq

variable {V : Type} [ShardAlg V]

/-! ## main theorems -/

/-- **1.** one fft butterfly: `x' = x ⊕ c·y`, `y' = y ⊕ x'`, everything else unchanged -/
theorem rd_fftBfly_eq (c : Sym) (a : Array V) {x y : Nat} (hxy : x ≠ y) (hx : x < a.size)
    (hy : y < a.size) (p : Nat) :
    rd (fftBfly c a x y) p =
      if p = x then ShardAlg.add (rd a x) (ShardAlg.smul c (rd a y))
      else if p = y then
        ShardAlg.add (rd a y) (ShardAlg.add (rd a x) (ShardAlg.smul c (rd a y)))
      else rd a p := by
  rw [rd_fftBfly c a hxy hx hy]; rfl

/-- **1.** one ifft butterfly: `y' = y ⊕ x`, `x' = x ⊕ c·y'`, everything else unchanged -/
theorem rd_ifftBfly_eq (c : Sym) (a : Array V) {x y : Nat} (hxy : x ≠ y) (hx : x < a.size)
    (hy : y < a.size) (p : Nat) :
    rd (ifftBfly c a x y) p =
      if p = x then
        ShardAlg.add (rd a x) (ShardAlg.smul c (ShardAlg.add (rd a y) (rd a x)))
      else if p = y then ShardAlg.add (rd a y) (rd a x)
      else rd a p := by
  rw [rd_ifftBfly c a hxy hx hy]; rfl

/-- **4 (fft).** `fft_private` as a loop nest is `fft .twoLayer`. -/
theorem twoFftSeq_eq (a : Array V) (pos n trunc delta : Nat) (ht : trunc ≤ 2 ^ n)
    (h : pos + 2 ^ n ≤ a.size) :
    twoFftSeq a pos n trunc delta = fft .twoLayer a pos (2 ^ n) trunc delta := by
  unfold fft fftPlan
  rw [Nat.log2_two_pow]
  exact twoFftSeq_aux pos n trunc delta ht n (Nat.le_refl _) a h

/-- **4 (ifft).** `ifft_private` as a loop nest is `ifft .twoLayer`. -/
theorem twoIfftSeq_eq (a : Array V) (pos n trunc delta : Nat) (ht : trunc ≤ 2 ^ n)
    (h : pos + 2 ^ n ≤ a.size) :
    twoIfftSeq a pos n trunc delta = ifft .twoLayer a pos (2 ^ n) trunc delta := by
  unfold ifft ifftPlan
  rw [Nat.log2_two_pow, twoIfftSeq_eq_G]
  exact twoIfftSeqG_aux pos n trunc delta ht n 0 (by omega) a h

end RS

#print axioms RS.fftBfly_size
#print axioms RS.ifftBfly_size
#print axioms RS.rd_fftBfly_eq
#print axioms RS.rd_ifftBfly_eq
#print axioms RS.naiveFftLayerSeq_eq
#print axioms RS.naiveIfftLayerSeq_eq
#print axioms RS.naiveFftSeq_eq
#print axioms RS.naiveIfftSeq_eq
#print axioms RS.twoFftPassSeq_eq
#print axioms RS.twoIfftPassSeq_eq
#print axioms RS.lastFftLayer_eq
#print axioms RS.lastIfftLayer_eq
#print axioms RS.twoFftSeq_eq
#print axioms RS.twoIfftSeq_eq
