/-
  Development behind Proofs/SrcTablesSpec.lean: loop lemmas (`forStep` / `whileSt` with an invariant, in the
  `Ret o v Q` form "o returns v without panicking and Q v holds"), model-side fold lemmas, and the three main
  results `exp_log_src`, `skew_src`, `cantor_basis_eq`.
  NOTE for maintenance: closed 65536-entry arrays (`Array.replicate 65536 0`, …) are `generalize`d to variables
  before any rewriting, and `bind_some'` (not the `rfl`-lemma `Option.bind_some`) is used on the long bind chains —
  otherwise the kernel tries to decide definitional equalities by evaluating the loops (infeasible / exponential).
-/
import RSVerif.Gen.SrcUtils
import RSVerif.Model.Engine
import RSVerif.Model.TableInit
import RSVerif.Proofs.Walsh
import RSVerif.Proofs.TableInitSpec

namespace RS.SrcT
open RS RS.RustU RS.SrcU

def U16 (a : Array Nat) : Prop := ∀ i, a.getD i 0 < 65536

theorem getElem?_getD (a : Array Nat) (i : Nat) (h : i < a.size) : a[i]? = some (a.getD i 0) := by
  simp [Array.getD, h]

theorem U16_set {a : Array Nat} (h : U16 a) (k v : Nat) (hv : v < 65536) : U16 (a.setIfInBounds k v) := by
  intro i
  rw [getD_setIfInBounds]
  split
  · exact hv
  · exact h i

theorem U16_replicate (n : Nat) : U16 (Array.replicate n 0) := by
  intro i; rw [getD_replicate_zero]; omega

theorem xor_lt {x y : Nat} (hx : x < 65536) (hy : y < 65536) : x ^^^ y < 65536 :=
  Nat.xor_lt_two_pow (n := 16) hx hy

theorem forStepAux_one {σ : Type} (P : Nat → σ → Prop) (hi : Nat) (f : Nat → σ → Option σ) (g : Nat → σ → σ)
    (hstep : ∀ i s, i < hi → P i s → f i s = some (g i s) ∧ P (i + 1) (g i s)) :
    ∀ cnt i s, i + cnt ≤ hi → P i s →
      forStepAux 1 f cnt i s = some ((List.range' i cnt).foldl (fun s i => g i s) s) ∧
      P (i + cnt) ((List.range' i cnt).foldl (fun s i => g i s) s)
  | 0, i, s, _, hP => ⟨rfl, hP⟩
  | cnt + 1, i, s, hle, hP => by
    obtain ⟨h1, h2⟩ := hstep i s (by omega) hP
    obtain ⟨h3, h4⟩ := forStepAux_one P hi f g hstep cnt (i + 1) (g i s) (by omega) h2
    constructor
    · simp only [forStepAux, h1, Option.bind_some, h3, List.range'_succ, List.foldl_cons]
    · simp only [List.range'_succ, List.foldl_cons]
      have : i + (cnt + 1) = i + 1 + cnt := by omega
      rw [this]; exact h4

/-- `for i in lo..hi` whose body never panics under the invariant `P`: the result is the fold of the pure body `g`,
    and the invariant holds at the end. `range'` form. -/
theorem forStep_one' {σ : Type} (P : Nat → σ → Prop) (g : Nat → σ → σ) {lo hi : Nat} {f : Nat → σ → Option σ}
    {s : σ} (hlo : lo ≤ hi) (hP : P lo s)
    (hstep : ∀ i s, lo ≤ i → i < hi → P i s → f i s = some (g i s) ∧ P (i + 1) (g i s)) :
    forStep lo hi 1 f s = some ((List.range' lo (hi - lo)).foldl (fun s i => g i s) s) ∧
    P hi ((List.range' lo (hi - lo)).foldl (fun s i => g i s) s) := by
  have := forStepAux_one (fun i s => lo ≤ i ∧ P i s) hi f g
    (fun i s h1 h2 => ⟨(hstep i s h2.1 h1 h2.2).1, by omega, (hstep i s h2.1 h1 h2.2).2⟩)
    (hi - lo) lo s (by omega) ⟨Nat.le_refl _, hP⟩
  have e : lo + (hi - lo) = hi := by omega
  rw [e] at this
  refine ⟨?_, this.2.2⟩
  unfold forStep
  simp only [Nat.one_ne_zero, if_false, Nat.add_sub_cancel, Nat.div_one]
  exact this.1

theorem range'_fold {σ : Type} (g : Nat → σ → σ) (lo n : Nat) (s : σ) :
    (List.range' lo n).foldl (fun s i => g i s) s = (List.range n).foldl (fun s d => g (lo + d) s) s := by
  rw [List.range'_eq_map_range, List.foldl_map]

/-- `Option.bind_some` as a NON-definitional rewrite rule: `simp` must produce an explicit proof term, otherwise the
    kernel compares `(some a).bind k` with `k a` by unfolding, which is exponential on long bind chains -/
theorem bind_some' {α β : Type} (a : α) (f : α → Option β) : (some a).bind f = f a :=
  Eq.trans (Option.bind_some a f) rfl

/-- `o` returns `v` (no panic) and `Q v` holds -/
def Ret {σ : Type} (o : Option σ) (v : σ) (Q : σ → Prop) : Prop := o = some v ∧ Q v

theorem Ret.eq {σ : Type} {o : Option σ} {v : σ} {Q : σ → Prop} (h : Ret o v Q) : o = some v := h.1

theorem Ret.some {σ : Type} {v' v : σ} {Q : σ → Prop} (h : v' = v) (hQ : Q v) : Ret (Option.some v') v Q :=
  ⟨by rw [h], hQ⟩

theorem Ret.forStep' {σ τ : Type} (P : Nat → σ → Prop) (g : Nat → σ → σ) {lo hi : Nat} {f : Nat → σ → Option σ}
    {s : σ} {k : σ → Option τ} {v : τ} {Q : τ → Prop} (hlo : lo ≤ hi) (hP : P lo s)
    (hstep : ∀ i s, lo ≤ i → i < hi → P i s → Ret (f i s) (g i s) (P (i + 1)))
    (hk : P hi ((List.range' lo (hi - lo)).foldl (fun s i => g i s) s) →
      Ret (k ((List.range' lo (hi - lo)).foldl (fun s i => g i s) s)) v Q) :
    Ret ((forStep lo hi 1 f s).bind k) v Q := by
  obtain ⟨h1, h2⟩ := forStep_one' P g hlo hP hstep
  rw [h1, Option.bind_some]; exact hk h2

/-- `for i in lo..hi`, the fold written over `List.range (hi - lo)` with `i = lo + d` -/
theorem Ret.forStepLo {σ τ : Type} (P : Nat → σ → Prop) (g : Nat → σ → σ) {lo hi : Nat} {f : Nat → σ → Option σ}
    {s : σ} {k : σ → Option τ} {v : τ} {Q : τ → Prop} (hlo : lo ≤ hi) (hP : P lo s)
    (hstep : ∀ i s, lo ≤ i → i < hi → P i s → Ret (f i s) (g i s) (P (i + 1)))
    (hk : P hi ((List.range (hi - lo)).foldl (fun s d => g (lo + d) s) s) →
      Ret (k ((List.range (hi - lo)).foldl (fun s d => g (lo + d) s) s)) v Q) :
    Ret ((forStep lo hi 1 f s).bind k) v Q := by
  refine Ret.forStep' P g hlo hP hstep ?_
  rw [range'_fold]; exact hk

/-- `for i in 0..hi` -/
theorem Ret.forStep0 {σ τ : Type} (P : Nat → σ → Prop) (g : Nat → σ → σ) {hi : Nat} {f : Nat → σ → Option σ}
    {s : σ} {k : σ → Option τ} {v : τ} {Q : τ → Prop} (hP : P 0 s)
    (hstep : ∀ i s, i < hi → P i s → Ret (f i s) (g i s) (P (i + 1)))
    (hk : P hi ((List.range hi).foldl (fun s i => g i s) s) →
      Ret (k ((List.range hi).foldl (fun s i => g i s) s)) v Q) :
    Ret ((forStep 0 hi 1 f s).bind k) v Q := by
  refine Ret.forStepLo P g (Nat.zero_le _) hP (fun i s _ => hstep i s) ?_
  simp only [Nat.zero_add, Nat.sub_zero]; exact hk

/-! ### folds of the model -/

def lfsrG (i : Nat) (s : Array Nat × Nat) : Array Nat × Nat := (s.1.setIfInBounds s.2 i, lfsrStep s.2)

theorem lfsr_fold : ∀ (n i st : Nat) (a : Array Nat),
    ((List.range' i n).foldl (fun s i => lfsrG i s) (a, st)).1 = lfsrFill n i st a
  | 0, _, _, _ => rfl
  | n + 1, i, st, a => by
    rw [List.range'_succ, List.foldl_cons, lfsrFill]
    exact lfsr_fold n (i + 1) _ _

theorem lfsrStep_lt {s : Nat} (hs : s < 65536) : lfsrStep s < 65536 := by
  rw [lfsrStep_eq hs]; exact (mulX _).isLt

def cantorIn (i : Nat) (j : Nat) (a : Array Nat) : Array Nat :=
  a.setIfInBounds (j + 2 ^ i) (Nat.xor (a.getD j 0) (cantorBasis.getD i 0#16).toNat)

def cantorG (i : Nat) (a : Array Nat) : Array Nat :=
  (List.range (2 ^ i)).foldl (fun a j => cantorIn i j a) a

theorem cantor_fold : ∀ (n i : Nat) (a : Array Nat),
    (List.range' i n).foldl (fun s i => cantorG i s) a = cantorFill n i a
  | 0, _, _ => rfl
  | n + 1, i, a => by
    rw [List.range'_succ, List.foldl_cons, cantorFill]
    exact cantor_fold n (i + 1) _

/-- in-place `a[i] = h(a[i])` for `i in 0..n` is the pointwise map -/
theorem inplace_map (h : Nat → Nat) (a : Array Nat) : ∀ k, k ≤ a.size →
    ((List.range k).foldl (fun l i => l.setIfInBounds i (h (l.getD i 0))) a).size = a.size ∧
    ∀ j, ((List.range k).foldl (fun l i => l.setIfInBounds i (h (l.getD i 0))) a).getD j 0 =
      if j < k then h (a.getD j 0) else a.getD j 0 := by
  intro k
  induction k with
  | zero => intro _; exact ⟨rfl, fun j => by simp⟩
  | succ k ih =>
    intro hk
    obtain ⟨h1, h2⟩ := ih (by omega)
    rw [List.range_succ, List.foldl_append, List.foldl_cons, List.foldl_nil]
    refine ⟨by rw [Array.size_setIfInBounds, h1], fun j => ?_⟩
    rw [getD_setIfInBounds, h1, h2 k, h2 j]
    by_cases hj : k = j
    · subst hj; simp; omega
    · have : ¬ (k = j ∧ j < a.size) := fun h => hj h.1
      rw [if_neg this]
      by_cases hj2 : j < k
      · rw [if_pos hj2, if_pos (by omega)]
      · rw [if_neg hj2, if_neg (by omega)]

theorem inplace_map_eq (h : Nat → Nat) (a : Array Nat) (n : Nat) (hn : a.size = n) :
    (List.range n).foldl (fun l i => l.setIfInBounds i (h (l.getD i 0))) a =
      Array.ofFn (n := n) fun i => h (a.getD i.val 0) := by
  obtain ⟨h1, h2⟩ := inplace_map h a n (by omega)
  apply Array.ext
  · rw [h1, hn, Array.size_ofFn]
  · intro i hi1 hi2
    have := h2 i
    rw [h1] at hi1
    rw [if_pos (by omega)] at this
    simp only [Array.size_ofFn] at hi2
    rw [Array.getElem_ofFn]
    rw [← this, getD_eq_getElem']

/-! ### `initialize_exp_log` -/

theorem cantor_basis_eq : CANTOR_BASIS = (cantorBasis.map (·.toNat)).toArray := by decide

theorem cantor_basis_get (i : Nat) (hi : i < 16) :
    CANTOR_BASIS[i]? = some ((cantorBasis.getD i 0#16).toNat) := by
  have : ∀ i : Fin 16, CANTOR_BASIS[i.val]? = some ((cantorBasis.getD i.val 0#16).toNat) := by decide
  exact this ⟨i, hi⟩

theorem cantor_basis_lt (i : Nat) : (cantorBasis.getD i 0#16).toNat < 65536 := (cantorBasis.getD i 0#16).isLt

theorem replicate_set_zero (n k : Nat) : (Array.replicate n 0).setIfInBounds k 0 = Array.replicate n 0 := by
  apply Array.ext
  · simp
  · intro i h1 h2
    rw [Array.getElem_setIfInBounds]
    split
    · simp
    · rfl

theorem U16_ofFn {n : Nat} (f : Fin n → Nat) (h : ∀ i, f i < 65536) : U16 (Array.ofFn f) := by
  intro i
  by_cases hi : i < n
  · rw [getD_ofFn f i hi]; exact h _
  · simp [Array.getD, hi]

theorem exp_log_src : U_initialize_exp_log = some initExpLog := by
  rw [initExpLog_eq]
  unfold U_initialize_exp_log
  have hA1 : (Array.replicate 65536 0 : Array Nat).size = 65536 := Array.size_replicate ..
  have hA2 : U16 (Array.replicate 65536 0) := U16_replicate _
  have hA3 : (Array.replicate 65536 0 : Array Nat).setIfInBounds 0 0 = Array.replicate 65536 0 :=
    replicate_set_zero _ _
  generalize (Array.replicate 65536 0 : Array Nat) = A at hA1 hA2 hA3 ⊢
  generalize hR : (exp2Of (lfsrFill 65535 0 1 A) (cantorFill 16 0 A), log1Of (lfsrFill 65535 0 1 A) (cantorFill 16 0 A)) = R
  apply Ret.eq (Q := fun _ => True)
  -- LFSR loop
  refine Ret.forStep' (fun _ s => s.1.size = 65536 ∧ s.2 < 65536 ∧ U16 s.1) lfsrG (by omega)
    ⟨hA1, by omega, hA2⟩ ?_ ?_
  · rintro i ⟨e, st⟩ _ hi ⟨h1, h2, h3⟩
    simp only at h1 h2 h3
    refine ⟨?_, by simp [lfsrG, h1], lfsrStep_lt h2, U16_set h3 _ _ (by omega)⟩
    have e1 : st * 2 ^ 1 % 18446744073709551616 = st * 2 := by omega
    simp only [h1, h2, if_true, Option.bind_some, e1, Array.set!_eq_setIfInBounds, lfsrG, lfsrStep,
      (by decide : (1 : Nat) < 64)]
    by_cases hc : st * 2 ≥ 65536
    · simp only [hc, if_true, Option.bind_some]; rfl
    · simp only [hc, if_false, Option.bind_some]
  generalize hF : (List.range' 0 (65535 - 0)).foldl (fun s i => lfsrG i s) (A, 1) = F
  have hF1 : F.1 = lfsrFill 65535 0 1 A := by rw [← hF]; exact lfsr_fold _ _ _ _
  generalize lfsrFill 65535 0 1 A = E at hF1 hR
  clear hF
  obtain ⟨E', st'⟩ := F
  simp only at hF1
  subst hF1
  rintro ⟨hE1, -, hE2⟩
  simp only at hE1 hE2
  simp only [hE1, hA1, (by decide : 0 < 65536), if_true, bind_some', Array.set!_eq_setIfInBounds]
  -- Cantor loop
  rw [hA3]
  refine Ret.forStep' (fun _ a => a.size = 65536 ∧ U16 a) cantorG (by omega)
    ⟨hA1, hA2⟩ ?_ ?_
  · intro i a _ hi ⟨h1, h2⟩
    have hp : 2 ^ i ≤ 2 ^ 15 := Nat.pow_le_pow_right (by omega) (by omega)
    have hw : 1 * 2 ^ i % 18446744073709551616 = 2 ^ i := by omega
    have hi64 : i < 64 := by omega
    simp only [hi64, if_true, bind_some', hw]
    refine Ret.forStep0 (fun _ a => a.size = 65536 ∧ U16 a) (cantorIn i) ⟨h1, h2⟩ ?_ ?_
    · intro j b hj ⟨h3, h4⟩
      have h5 : j + 2 ^ i < 18446744073709551616 := by omega
      have h6 : j + 2 ^ i < 65536 := by omega
      simp only [h5, if_true, bind_some', getElem?_getD b j (by omega), cantor_basis_get i hi, h3, h6]
      exact Ret.some rfl ⟨by rw [cantorIn, Array.size_setIfInBounds, h3],
        U16_set h4 _ _ (xor_lt (h4 _) (cantor_basis_lt _))⟩
    · intro h
      exact Ret.some rfl h
  rw [cantor_fold]
  generalize cantorFill (16 - 0) 0 A = L at hR ⊢
  rintro ⟨hL1, hL2⟩
  have hX1 : (E'.setIfInBounds 0 65535).size = 65536 := by rw [Array.size_setIfInBounds, hE1]
  have hX2 : U16 (E'.setIfInBounds 0 65535) := U16_set hE2 _ _ (by omega)
  rw [show exp2Of E' L = (exp1Of E' L).setIfInBounds 65535 ((exp1Of E' L).getD 0 0) from rfl,
    show exp1Of E' L = (List.range 65536).foldl (fun e i => e.setIfInBounds ((log1Of E' L).getD i 0) i)
      (E'.setIfInBounds 0 65535) from rfl] at hR
  have hL1' : log1Of E' L = Array.ofFn (n := 65536) fun i => (E'.setIfInBounds 0 65535).getD (L.getD i.val 0) 0 := rfl
  generalize E'.setIfInBounds 0 65535 = X at hX1 hX2 hR hL1' ⊢
  -- log[i] = exp[log[i]]
  refine Ret.forStep0 (fun i l => l.size = 65536 ∧ ∀ j, i ≤ j → l.getD j 0 < 65536)
    (fun i l => l.setIfInBounds i (X.getD (l.getD i 0) 0)) ⟨hL1, fun j _ => hL2 j⟩ ?_ ?_
  · intro i l hi ⟨h1, h2⟩
    simp only [getElem?_getD l i (by omega), bind_some', getElem?_getD X _ (by rw [hX1]; exact h2 i (Nat.le_refl _)),
      h1, hi, if_true]
    refine Ret.some rfl ⟨by rw [Array.size_setIfInBounds, h1], fun j hj => ?_⟩
    rw [getD_setIfInBounds, if_neg (by omega)]
    exact h2 j (by omega)
  rw [inplace_map_eq (fun v => X.getD v 0) L 65536 hL1, ← hL1']
  have hM1 : (log1Of E' L).size = 65536 := by rw [hL1', Array.size_ofFn]
  have hM2 : U16 (log1Of E' L) := by rw [hL1']; exact U16_ofFn _ (fun i => hX2 _)
  generalize log1Of E' L = M at hM1 hM2 hR ⊢
  intro _
  -- exp[log[i]] = i
  refine Ret.forStep0 (fun _ e => e.size = 65536) (fun i e => e.setIfInBounds (M.getD i 0) i) hX1 ?_ ?_
  · intro i e hi h1
    simp only [getElem?_getD M i (by omega), bind_some', h1, hM2 i, if_true, Nat.mod_eq_of_lt hi]
    exact Ret.some rfl (by rw [Array.size_setIfInBounds, h1])
  generalize (List.range 65536).foldl (fun e i => e.setIfInBounds (M.getD i 0) i) X = Y at hR ⊢
  intro hY
  simp only [getElem?_getD Y 0 (by omega), bind_some', hY, (by decide : 65535 < 65536), if_true]
  exact Ret.some hR trivial

/-! ### `add_mod`, `mul`, the `while` loop of `initialize_skew` -/

theorem add_mod_src {x y : Nat} (hx : x < 65536) (hy : y < 65536) : U_add_mod x y = some (addMod x y) := by
  unfold U_add_mod addMod
  have h1 : x + y < 4294967296 := by omega
  have h2 : x + y + (x + y) / 65536 < 4294967296 := by omega
  simp only [(by decide : 2 ^ 16 = 65536), h1, h2, if_true, Option.bind_some]

theorem tmul_lt {exp log : Array Nat} (he : U16 exp) (x m : Nat) : tmul exp log x m < 65536 := by
  unfold tmul
  split
  · omega
  · exact he _

theorem mul_src {exp log : Array Nat} (hE : exp.size = 65536) (hL : log.size = 65536) (hl : U16 log)
    {x m : Nat} (hx : x < 65536) (hm : m < 65536) : U_mul x m exp log = some (tmul exp log x m) := by
  unfold U_mul tmul
  by_cases h0 : x = 0
  · simp only [h0, if_true]
  · simp only [h0, if_false, getElem?_getD log x (by omega), Option.bind_some, add_mod_src (hl x) hm,
      getElem?_getD exp _ (by rw [hE]; exact (addMod_spec _ _ (hl x) hm).1)]

/-- the `while j < s { skew[j + s] = skew[j] ^ temp[i]; j += step }` loop of the source against `skewInner` -/
theorem whileSt_skewInner {step s t : Nat} (Inv : Nat → Array Nat → Prop)
    {c : Array Nat × Nat → Bool} {b : Array Nat × Nat → Option (Array Nat × Nat)}
    (hstep : 0 < step) (hc : ∀ st, c st = decide (st.2 < s))
    (hb : ∀ j a, Inv j a → j < s → Ret (b (a, j))
      (a.setIfInBounds (j + s) (Nat.xor (a.getD j 0) t), j + step) (fun st => Inv st.2 st.1)) :
    ∀ (n F F' j : Nat) (a : Array Nat), s ≤ j + n * step → n < F → n ≤ F' → Inv j a →
      ∃ j', whileSt F c b (a, j) = some (skewInner step s t F' j a, j') ∧ Inv j' (skewInner step s t F' j a)
  | 0, F, F', j, a, hn, hF, _, hI => by
    have hj : ¬ j < s := by omega
    refine ⟨j, ?_, ?_⟩
    · cases F with
      | zero => omega
      | succ F => simp only [whileSt, hc, hj, decide_false, Bool.false_eq_true, if_false]
                  cases F' <;> simp [skewInner, hj]
    · cases F' <;> simp [skewInner, hj, hI]
  | n + 1, F, F', j, a, hn, hF, hF', hI => by
    cases F with
    | zero => omega
    | succ F =>
    cases F' with
    | zero => omega
    | succ F' =>
    by_cases hj : j < s
    · obtain ⟨e1, e2⟩ := hb j a hI hj
      obtain ⟨j', e3, e4⟩ := whileSt_skewInner Inv hstep hc hb n F F' (j + step) _
        (by rw [Nat.add_mul] at hn; omega) (by omega) (by omega) e2
      refine ⟨j', ?_, ?_⟩
      · simp only [whileSt, hc, hj, decide_true, if_true, e1, Option.bind_some, e3, skewInner]
      · simp only [skewInner, hj, if_true]; exact e4
    · refine ⟨j, ?_, ?_⟩
      · simp only [whileSt, hc, hj, decide_false, Bool.false_eq_true, if_false, skewInner]
      · simp only [skewInner, hj, if_false]; exact hI

theorem Ret.whileSkew {τ : Type} {step s t : Nat} (Inv : Nat → Array Nat → Prop) {F F' : Nat}
    {c : Array Nat × Nat → Bool} {b : Array Nat × Nat → Option (Array Nat × Nat)} {j : Nat} {a : Array Nat}
    {k : Array Nat × Nat → Option τ} {v : τ} {Q : τ → Prop}
    (hstep : 0 < step) (hF : s < F) (hF' : s ≤ F') (hc : ∀ st, c st = decide (st.2 < s)) (hI : Inv j a)
    (hb : ∀ j a, Inv j a → j < s → Ret (b (a, j))
      (a.setIfInBounds (j + s) (Nat.xor (a.getD j 0) t), j + step) (fun st => Inv st.2 st.1))
    (hk : ∀ j', Inv j' (skewInner step s t F' j a) → Ret (k (skewInner step s t F' j a, j')) v Q) :
    Ret ((whileSt F c b (a, j)).bind k) v Q := by
  obtain ⟨j', e1, e2⟩ := whileSt_skewInner Inv hstep hc hb s F F' j a
    (by have := Nat.le_mul_of_pos_right s hstep; omega) hF hF' hI
  rw [e1, Option.bind_some]; exact hk j' e2

/-! ### `initialize_skew` -/

def skewG (m : Nat) (tp : Array Nat) (i : Nat) (a : Array Nat) : Array Nat :=
  skewInner (2 ^ (m + 1)) (2 ^ (i + 1)) (tp.getD i 0) 65536 (2 ^ m - 1) a

theorem skewLevel_fold (m : Nat) (tp sk : Array Nat) :
    (List.range (15 - m)).foldl (fun s d => skewG m tp (m + d) s) (sk.setIfInBounds (2 ^ m - 1) 0) =
      skewLevel m tp sk := rfl

def tempG (e l : Array Nat) (tmNew : Nat) (i : Nat) (t : Array Nat) : Array Nat :=
  t.setIfInBounds i (tmul e l (t.getD i 0) (addMod (l.getD (Nat.xor (t.getD i 0) 1) 0) tmNew))

def tmNewOf (e l : Array Nat) (m : Nat) (tp : Array Nat) : Nat :=
  65535 - l.getD (tmul e l (tp.getD m 0) (l.getD (Nat.xor (tp.getD m 0) 1) 0)) 0

theorem tempNext_fold (e l : Array Nat) (m : Nat) (tp : Array Nat) :
    (List.range (15 - (m + 1))).foldl (fun s d => tempG e l (tmNewOf e l m tp) (m + 1 + d) s)
      (tp.setIfInBounds m (tmNewOf e l m tp)) = tempNext e l m tp := by
  rw [show 15 - (m + 1) = 14 - m by omega]; rfl

theorem U16_lt_le {a : Array Nat} (h : U16 a) (i : Nat) : a.getD i 0 ≤ 65535 := by have := h i; omega

theorem getElem?_lt {a : Array Nat} (hs : a.size = 65536) {i : Nat} (hi : i < 65536) :
    a[i]? = some (a.getD i 0) := getElem?_getD a i (by omega)

theorem skew_src (exp log : Array Nat) (hE : exp.size = 65536) (hL : log.size = 65536)
    (he : U16 exp) (hl : U16 log) :
    U_initialize_skew exp log = some (initSkew exp log) := by
  unfold U_initialize_skew initSkew
  have hS1 : (Array.replicate 65535 0 : Array Nat).size = 65535 := Array.size_replicate ..
  have hS2 : U16 (Array.replicate 65535 0) := U16_replicate _
  generalize (Array.replicate 65535 0 : Array Nat) = S at hS1 hS2 ⊢
  apply Ret.eq (Q := fun _ => True)
  -- temp[i - 1] = 1 << i
  refine Ret.forStepLo (fun _ t => t.size = 15) (fun i t => t.setIfInBounds (i - 1) (2 ^ i)) (by omega)
    (Array.size_replicate ..) ?_ ?_
  · intro i t h1 hi ht
    have hp : 2 ^ i ≤ 2 ^ 15 := Nat.pow_le_pow_right (by omega) (by omega)
    have e1 : 1 * 2 ^ i % 65536 = 2 ^ i := by omega
    have c1 : i - 1 < 15 := by omega
    have c2 : i < 16 := hi
    simp only [h1, c2, e1, ht, c1, if_true, bind_some', Array.set!_eq_setIfInBounds]
    exact Ret.some rfl (by rw [Array.size_setIfInBounds, ht])
  have hT : (List.range (16 - 1)).foldl (fun s d => s.setIfInBounds (1 + d - 1) (2 ^ (1 + d))) (Array.replicate 15 0)
      = Array.ofFn (n := 15) fun i => 2 ^ (i.val + 1) := by decide
  rw [hT]
  have hT2 : U16 (Array.ofFn (n := 15) fun i => 2 ^ (i.val + 1)) := U16_ofFn _ (by decide)
  generalize (Array.ofFn (n := 15) fun i => 2 ^ (i.val + 1)) = T at hT2 ⊢
  intro hT1
  simp only []
  -- for m in 0..15
  refine Ret.forStep0 (fun _ st => st.1.size = 65535 ∧ U16 st.1 ∧ st.2.size = 15 ∧ U16 st.2)
    (skewOuterStep exp log) ⟨hS1, hS2, hT1, hT2⟩ ?_ ?_
  · rintro m ⟨sk, tp⟩ hm ⟨h1, h2, h3, h4⟩
    simp only at h1 h2 h3 h4
    rw [skewOuterStep_eq]
    have hp : 2 ^ m ≤ 2 ^ 14 := Nat.pow_le_pow_right (by omega) (by omega)
    have hp1 : 2 ^ (m + 1) = 2 * 2 ^ m := pow_succ2 m
    have e1 : 1 * 2 ^ (m + 1) % 18446744073709551616 = 2 ^ (m + 1) := by omega
    have e2 : 1 * 2 ^ m % 18446744073709551616 = 2 ^ m := by omega
    have e3 : 1 ≤ 2 ^ m := Nat.one_le_two_pow
    have c1 : m + 1 < 18446744073709551616 := by omega
    have c2 : m + 1 < 64 := by omega
    have c3 : m < 64 := by omega
    have c4 : 2 ^ m - 1 < 65535 := by omega
    simp only [c1, c2, c3, e1, e2, e3, h1, c4, if_true, bind_some', Array.set!_eq_setIfInBounds]
    -- for i in m..15 { while j < s { … } }
    refine Ret.forStepLo (fun _ a => a.size = 65535 ∧ U16 a) (skewG m tp) (by omega)
      ⟨by rw [Array.size_setIfInBounds, h1], U16_set h2 _ _ (by omega)⟩ ?_ ?_
    · intro i a hmi hi ⟨h5, h6⟩
      have hq : 2 ^ (i + 1) ≤ 2 ^ 15 := Nat.pow_le_pow_right (by omega) (by omega)
      have hd : 2 ^ (m + 1) ∣ 2 ^ (i + 1) := Nat.pow_dvd_pow 2 (by omega)
      have c5 : i + 1 < 18446744073709551616 := by omega
      have c6 : i + 1 < 64 := by omega
      have e4 : 1 * 2 ^ (i + 1) % 18446744073709551616 = 2 ^ (i + 1) := by omega
      simp only [c5, c6, e4, if_true, bind_some']
      refine Ret.whileSkew (step := 2 ^ (m + 1)) (s := 2 ^ (i + 1)) (t := tp.getD i 0) (F' := 65536)
        (fun j a => a.size = 65535 ∧ U16 a ∧ 2 ^ (m + 1) ∣ j + 1 + 2 ^ m) (by omega) (by omega) (by omega)
        (fun _ => rfl) ⟨h5, h6, by rw [show 2 ^ m - 1 + 1 + 2 ^ m = 2 ^ (m + 1) by omega]⟩ ?_ ?_
      · intro j b ⟨h7, h8, h9⟩ hj
        have h10 : j + 1 + 2 ^ m ≤ 2 ^ (i + 1) := Nat.le_of_lt_add_of_dvd (by omega) h9 hd
        have c7 : j + 2 ^ (i + 1) < 18446744073709551616 := by omega
        have c8 : j + 2 ^ (i + 1) < 65535 := by omega
        have c9 : j + 2 ^ (m + 1) < 18446744073709551616 := by omega
        simp only [c7, c8, c9, h7, if_true, bind_some', getElem?_getD b j (by omega), getElem?_getD tp i (by omega)]
        refine Ret.some rfl ⟨by rw [Array.size_setIfInBounds, h7], U16_set h8 _ _ (xor_lt (h8 _) (h4 _)), ?_⟩
        rw [show j + 2 ^ (m + 1) + 1 + 2 ^ m = (j + 1 + 2 ^ m) + 2 ^ (m + 1) by omega]
        exact Nat.dvd_add h9 (Nat.dvd_refl _)
      · intro j' ⟨h7, h8, _⟩
        exact Ret.some rfl ⟨h7, h8⟩
    rw [skewLevel_fold]
    intro ⟨h5, h6⟩
    -- temp[m] = GF_MODULUS - log[mul(temp[m], log[temp[m] ^ 1])]
    have c10 : tp.getD m 0 ^^^ 1 < 65536 := xor_lt (h4 _) (by omega)
    have c11 : m < 15 := hm
    have c14 : tmul exp log (tp.getD m 0) (log.getD (tp.getD m 0 ^^^ 1) 0) < 65536 := tmul_lt he _ _
    simp only [getElem?_getD tp m (by omega), bind_some', getElem?_lt hL c10,
      mul_src hE hL hl (h4 m) (hl (tp.getD m 0 ^^^ 1)), getElem?_lt hL c14, U16_lt_le hl, h3, c11, if_true]
    rw [show (65535 - log.getD (tmul exp log (tp.getD m 0) (log.getD (tp.getD m 0 ^^^ 1) 0)) 0) =
      tmNewOf exp log m tp from rfl]
    refine Ret.forStepLo (fun _ t => t.size = 15 ∧ U16 t ∧ t.getD m 0 = tmNewOf exp log m tp)
      (tempG exp log (tmNewOf exp log m tp)) (by omega)
      ⟨by rw [Array.size_setIfInBounds, h3], U16_set h4 _ _ (by unfold tmNewOf; omega),
        by rw [getD_setIfInBounds, if_pos ⟨rfl, by omega⟩]⟩ ?_ ?_
    · intro i t hmi hi ⟨h7, h8, h9⟩
      have c12 : t.getD i 0 ^^^ 1 < 65536 := xor_lt (h8 _) (by omega)
      have c13 : tmNewOf exp log m tp < 65536 := by unfold tmNewOf; omega
      simp only [getElem?_getD t i (by omega), getElem?_getD t m (by omega), bind_some', h9,
        getElem?_lt hL c12, add_mod_src (hl (t.getD i 0 ^^^ 1)) c13,
        mul_src hE hL hl (h8 i) (addMod_spec _ _ (hl (t.getD i 0 ^^^ 1)) c13).1, h7, hi, if_true]
      refine Ret.some rfl ⟨by rw [tempG, Array.size_setIfInBounds, h7], U16_set h8 _ _ (tmul_lt he _ _), ?_⟩
      rw [tempG, getD_setIfInBounds, if_neg (by omega)]; exact h9
    rw [tempNext_fold]
    intro ⟨h7, h8, _⟩
    exact Ret.some rfl ⟨h5, h6, h7, h8⟩
  generalize (List.range 15).foldl (fun s i => skewOuterStep exp log i s) (S, T) = Y
  obtain ⟨Y1, Y2⟩ := Y
  simp only []
  rintro ⟨hY1, hY2, -, -⟩
  -- skew[i] = log[skew[i]]
  refine Ret.forStep0 (fun i a => a.size = 65535 ∧ ∀ j, i ≤ j → a.getD j 0 < 65536)
    (fun i a => a.setIfInBounds i (log.getD (a.getD i 0) 0)) ⟨hY1, fun j _ => hY2 j⟩ ?_ ?_
  · intro i a hi ⟨h1, h2⟩
    simp only [getElem?_getD a i (by omega), bind_some', getElem?_lt hL (h2 i (Nat.le_refl _)), h1, hi, if_true,
      Array.set!_eq_setIfInBounds]
    refine Ret.some rfl ⟨by rw [Array.size_setIfInBounds, h1], fun j hj => ?_⟩
    rw [getD_setIfInBounds, if_neg (by omega)]
    exact h2 j (by omega)
  rw [inplace_map_eq (fun v => log.getD v 0) Y1 65535 hY1]
  intro _
  exact Ret.some rfl trivial

end RS.SrcT
