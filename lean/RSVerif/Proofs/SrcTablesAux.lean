/- Loop lemmas and model-side fold lemmas for Proofs/SrcTablesSpec.lean. -/
import RSVerif.Gen.SrcUtils
import RSVerif.Model.Engine
import RSVerif.Model.TableInit
import RSVerif.Proofs.Walsh
import RSVerif.Proofs.TableInitSpec

namespace RS.SrcT
open RS RS.RustU RS.SrcU

def U16 (a : Array Nat) : Prop := ∀ i, a.getD i 0 < 65536

theorem getElem?_getD (a : Array Nat) (i : Nat) (h : i < a.size) : a[i]? = some (a.getD i 0) := by
  simp [Array.getD, h]

theorem U16_set {a : Array Nat} (h : U16 a) (k v : Nat) (hv : v < 65536) : U16 (a.setIfInBounds k v) := by
  intro i
  rw [getD_setIfInBounds]
  split
  · exact hv
  · exact h i

theorem U16_replicate (n : Nat) : U16 (Array.replicate n 0) := by
  intro i; rw [getD_replicate_zero]; omega

theorem xor_lt {x y : Nat} (hx : x < 65536) (hy : y < 65536) : x ^^^ y < 65536 :=
  Nat.xor_lt_two_pow (n := 16) hx hy

theorem forStepAux_one {σ : Type} (P : Nat → σ → Prop) (hi : Nat) (f : Nat → σ → Option σ) (g : Nat → σ → σ)
    (hstep : ∀ i s, i < hi → P i s → f i s = some (g i s) ∧ P (i + 1) (g i s)) :
    ∀ cnt i s, i + cnt ≤ hi → P i s →
      forStepAux 1 f cnt i s = some ((List.range' i cnt).foldl (fun s i => g i s) s) ∧
      P (i + cnt) ((List.range' i cnt).foldl (fun s i => g i s) s)
  | 0, i, s, _, hP => ⟨rfl, hP⟩
  | cnt + 1, i, s, hle, hP => by
    obtain ⟨h1, h2⟩ := hstep i s (by omega) hP
    obtain ⟨h3, h4⟩ := forStepAux_one P hi f g hstep cnt (i + 1) (g i s) (by omega) h2
    constructor
    · simp only [forStepAux, h1, Option.bind_some, h3, List.range'_succ, List.foldl_cons]
    · simp only [List.range'_succ, List.foldl_cons]
      have : i + (cnt + 1) = i + 1 + cnt := by omega
      rw [this]; exact h4

/-- `for i in lo..hi` whose body never panics under the invariant `P`: the result is the fold of the pure body `g`,
    and the invariant holds at the end. `range'` form. -/
theorem forStep_one' {σ : Type} (P : Nat → σ → Prop) (g : Nat → σ → σ) {lo hi : Nat} {f : Nat → σ → Option σ}
    {s : σ} (hlo : lo ≤ hi) (hP : P lo s)
    (hstep : ∀ i s, lo ≤ i → i < hi → P i s → f i s = some (g i s) ∧ P (i + 1) (g i s)) :
    forStep lo hi 1 f s = some ((List.range' lo (hi - lo)).foldl (fun s i => g i s) s) ∧
    P hi ((List.range' lo (hi - lo)).foldl (fun s i => g i s) s) := by
  have := forStepAux_one (fun i s => lo ≤ i ∧ P i s) hi f g
    (fun i s h1 h2 => ⟨(hstep i s h2.1 h1 h2.2).1, by omega, (hstep i s h2.1 h1 h2.2).2⟩)
    (hi - lo) lo s (by omega) ⟨Nat.le_refl _, hP⟩
  have e : lo + (hi - lo) = hi := by omega
  rw [e] at this
  refine ⟨?_, this.2.2⟩
  unfold forStep
  simp only [Nat.one_ne_zero, if_false, Nat.add_sub_cancel, Nat.div_one]
  exact this.1

theorem range'_fold {σ : Type} (g : Nat → σ → σ) (lo n : Nat) (s : σ) :
    (List.range' lo n).foldl (fun s i => g i s) s = (List.range n).foldl (fun s d => g (lo + d) s) s := by
  rw [List.range'_eq_map_range, List.foldl_map]

/-- bind form, continuation gets the fold and the final invariant -/
theorem forStep_bind' {σ τ : Type} (P : Nat → σ → Prop) (g : Nat → σ → σ) {lo hi : Nat} {f : Nat → σ → Option σ}
    {s : σ} {k : σ → Option τ} {R : Option τ} (hlo : lo ≤ hi) (hP : P lo s)
    (hstep : ∀ i s, lo ≤ i → i < hi → P i s → f i s = some (g i s) ∧ P (i + 1) (g i s))
    (hk : P hi ((List.range' lo (hi - lo)).foldl (fun s i => g i s) s) →
      k ((List.range' lo (hi - lo)).foldl (fun s i => g i s) s) = R) :
    (forStep lo hi 1 f s).bind k = R := by
  obtain ⟨h1, h2⟩ := forStep_one' P g hlo hP hstep
  rw [h1, Option.bind_some]; exact hk h2

/-! ### folds of the model -/

def lfsrG (i : Nat) (s : Array Nat × Nat) : Array Nat × Nat := (s.1.setIfInBounds s.2 i, lfsrStep s.2)

theorem lfsr_fold : ∀ (n i st : Nat) (a : Array Nat),
    ((List.range' i n).foldl (fun s i => lfsrG i s) (a, st)).1 = lfsrFill n i st a
  | 0, _, _, _ => rfl
  | n + 1, i, st, a => by
    rw [List.range'_succ, List.foldl_cons, lfsrFill]
    exact lfsr_fold n (i + 1) _ _

theorem lfsrStep_lt {s : Nat} (hs : s < 65536) : lfsrStep s < 65536 := by
  rw [lfsrStep_eq hs]; exact (mulX _).isLt

def cantorIn (i : Nat) (j : Nat) (a : Array Nat) : Array Nat :=
  a.setIfInBounds (j + 2 ^ i) (Nat.xor (a.getD j 0) (cantorBasis.getD i 0#16).toNat)

def cantorG (i : Nat) (a : Array Nat) : Array Nat :=
  (List.range (2 ^ i)).foldl (fun a j => cantorIn i j a) a

theorem cantor_fold : ∀ (n i : Nat) (a : Array Nat),
    (List.range' i n).foldl (fun s i => cantorG i s) a = cantorFill n i a
  | 0, _, _ => rfl
  | n + 1, i, a => by
    rw [List.range'_succ, List.foldl_cons, cantorFill]
    exact cantor_fold n (i + 1) _

/-- in-place `a[i] = h(a[i])` for `i in 0..n` is the pointwise map -/
theorem inplace_map (h : Nat → Nat) (a : Array Nat) : ∀ k, k ≤ a.size →
    ((List.range k).foldl (fun l i => l.setIfInBounds i (h (l.getD i 0))) a).size = a.size ∧
    ∀ j, ((List.range k).foldl (fun l i => l.setIfInBounds i (h (l.getD i 0))) a).getD j 0 =
      if j < k then h (a.getD j 0) else a.getD j 0 := by
  intro k
  induction k with
  | zero => intro _; exact ⟨rfl, fun j => by simp⟩
  | succ k ih =>
    intro hk
    obtain ⟨h1, h2⟩ := ih (by omega)
    rw [List.range_succ, List.foldl_append, List.foldl_cons, List.foldl_nil]
    refine ⟨by rw [Array.size_setIfInBounds, h1], fun j => ?_⟩
    rw [getD_setIfInBounds, h1, h2 k, h2 j]
    by_cases hj : k = j
    · subst hj; simp; omega
    · have : ¬ (k = j ∧ j < a.size) := fun h => hj h.1
      rw [if_neg this]
      by_cases hj2 : j < k
      · rw [if_pos hj2, if_pos (by omega)]
      · rw [if_neg hj2, if_neg (by omega)]

theorem inplace_map_eq (h : Nat → Nat) (a : Array Nat) (n : Nat) (hn : a.size = n) :
    (List.range n).foldl (fun l i => l.setIfInBounds i (h (l.getD i 0))) a =
      Array.ofFn (n := n) fun i => h (a.getD i.val 0) := by
  obtain ⟨h1, h2⟩ := inplace_map h a n (by omega)
  apply Array.ext
  · rw [h1, hn, Array.size_ofFn]
  · intro i hi1 hi2
    have := h2 i
    rw [h1] at hi1
    rw [if_pos (by omega)] at this
    simp only [Array.size_ofFn] at hi2
    rw [Array.getElem_ofFn]
    rw [← this, getD_eq_getElem']

end RS.SrcT
