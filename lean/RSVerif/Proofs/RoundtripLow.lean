/-
  C01, low rate, one symbol lane: `decodeLow` restores every missing original
  (`RT.decodeLow_sym`), given the locator hypothesis `LocSpec`.

  The low-rate decoder marks every position from `rend = npow2 k + r` up to 65535 as erased,
  including the points beyond the work area `[0, n)`.  For every `x < n = 2^N` these contribute
  the same factor `τ = Π_{u ∈ [n, 65536)} pt u` to the locator (`RT.loc_split`).
-/
import RSVerif.Proofs.RoundtripAux

namespace RS
open Polynomial GF16 Finset ShardAlg
namespace RT

/-! ### the erasure indicator -/

theorem getD_erasuresLow (k r : Nat) (recv : Nat → Bool) {u : Nat} (hu : u < 65536) :
    (erasuresLow k r recv).getD u 0 =
      if u < k then (if recv u = true then 0 else 1)
      else if u < npow2 k then 0
      else if u < npow2 k + r then (if recv u = true then 0 else 1) else 1 := by
  unfold erasuresLow
  simp only [Array.getD_eq_getD_getElem?, Array.getElem?_ofFn, hu, dite_true, Option.getD_some]

theorem mem_marked_low (k r : Nat) (recv : Nat → Bool) (hkm : k ≤ npow2 k) (u : Nat) :
    u ∈ marked (erasuresLow k r recv) ↔ u < 65536 ∧
      ((u < k ∧ recv u = false) ∨ (npow2 k ≤ u ∧ u < npow2 k + r ∧ recv u = false) ∨
        npow2 k + r ≤ u) := by
  unfold marked
  rw [mem_filter, mem_range]
  apply and_congr_right
  intro hu
  rw [getD_erasuresLow k r recv hu]
  generalize npow2 k = m at *
  by_cases h1 : u < k
  · cases hrv : recv u
    · simp [h1]
    · simp [h1]
      omega
  · by_cases h2 : u < m
    · simp [h1, h2]
      omega
    · by_cases h3 : u < m + r
      · cases hrv : recv u
        · simp [h1, h2, h3]
          omega
        · simp [h1, h2, h3]
      · simp [h1, h2, h3]
        omega

/-! ### splitting the locator at the end of the work area -/

theorem erase_split {T : Finset Nat} {n x : Nat} (hx : x < n) (hT : ∀ u ∈ T, u < 65536)
    (hfull : ∀ u, n ≤ u → u < 65536 → u ∈ T) :
    T.erase x = (T.filter (· < n)).erase x ∪ Ico n 65536 := by
  ext u
  simp only [mem_erase, mem_union, mem_filter, mem_Ico]
  constructor
  · rintro ⟨h1, h2⟩
    by_cases hu : u < n
    · exact Or.inl ⟨h1, h2, hu⟩
    · exact Or.inr ⟨by omega, hT u h2⟩
  · rintro (⟨h1, h2, _⟩ | ⟨h1, h2⟩)
    · exact ⟨h1, h2⟩
    · exact ⟨by omega, hfull u h1 h2⟩

/-- the marks beyond the work area contribute the constant `τ = Π_{u ∈ [n, 65536)} pt u` -/
theorem loc_split {T : Finset Nat} {N n x : Nat} (hN : N ≤ 16) (hn : n = 2 ^ N) (hx : x < n)
    (hT : ∀ u ∈ T, u < 65536) (hfull : ∀ u, n ≤ u → u < 65536 → u ∈ T) :
    ∏ u ∈ T.erase x, (pt x - pt u) =
      (∏ u ∈ Ico n 65536, pt u) * ∏ u ∈ (T.filter (· < n)).erase x, (pt x - pt u) := by
  rw [erase_split hx hT hfull, prod_union, mul_comm]
  · subst hn
    rw [tail_prod hN hx]
  · rw [disjoint_left]
    intro u hu hu2
    rw [mem_erase, mem_filter] at hu
    rw [mem_Ico] at hu2
    omega

/-! ### counting -/

theorem card_marked_low (k r n : Nat) (recv : Nat → Bool) (hkm : k ≤ npow2 k)
    (hmr : npow2 k + r ≤ n)
    (hEnough : ((List.range k).filter (fun i => !recv i)).length
      ≤ ((List.range r).filter (fun j => recv (npow2 k + j))).length) :
    ((marked (erasuresLow k r recv)).filter (· < n)).card + npow2 k ≤ n := by
  rw [length_filter_range, length_filter_range] at hEnough
  have hsub : (marked (erasuresLow k r recv)).filter (· < n) ⊆
      ((range k).filter (fun i => (!recv i) = true) ∪
        ((range r).filter (fun j => recv (npow2 k + j) = false)).image (fun j => npow2 k + j)) ∪
        Ico (npow2 k + r) n := by
    intro u hu
    rw [mem_filter, mem_marked_low k r recv hkm] at hu
    rw [mem_union, mem_union, mem_filter, mem_range, mem_Ico, mem_image]
    obtain ⟨⟨_, h | h | h⟩, hun⟩ := hu
    · refine Or.inl (Or.inl ⟨h.1, ?_⟩)
      rw [h.2]; rfl
    · refine Or.inl (Or.inr ⟨u - npow2 k, ?_, by omega⟩)
      rw [mem_filter, mem_range, show npow2 k + (u - npow2 k) = u by omega]
      exact ⟨by omega, h.2.2⟩
    · exact Or.inr ⟨h, hun⟩
  have h1 := card_le_card hsub
  have h2 := card_union_le ((range k).filter (fun i => (!recv i) = true) ∪
        ((range r).filter (fun j => recv (npow2 k + j) = false)).image (fun j => npow2 k + j))
        (Ico (npow2 k + r) n)
  have h3 := card_union_le ((range k).filter (fun i => (!recv i) = true))
    (((range r).filter (fun j => recv (npow2 k + j) = false)).image (fun j => npow2 k + j))
  have h4 := card_image_le (s := (range r).filter (fun j => recv (npow2 k + j) = false))
    (f := fun j => npow2 k + j)
  have h5 := card_filter_false (fun j => recv (npow2 k + j)) r
  rw [Nat.card_Ico] at h2
  omega

/-! ### the theorem -/

/-- **C01, low rate, one lane.** -/
theorem decodeLow_sym (s : Sched) (lw : Array Nat) (k r : Nat) (hsup : supportsLow k r = true)
    (recv : Nat → Bool) (d : Nat → Sym) (mem : Array Sym)
    (hsz : mem.size = lowDecWorkCount k r)
    (hO : ∀ i, i < k → recv i = true → rd mem i = d i)
    (hR : ∀ j, j < r → recv (npow2 k + j) = true →
      rd mem (npow2 k + j) = xsum k (fun i => gmul (cauchyLow k r j i) (d i)))
    (hEnough : ((List.range k).filter (fun i => !recv i)).length
      ≤ ((List.range r).filter (fun j => recv (npow2 k + j))).length)
    (hLoc : LocSpec (erasuresLow k r recv) (evalPolyWith lw (erasuresLow k r recv) 65536))
    {i : Nat} (hi : i < k) (hri : recv i = false) :
    rd (decodeLow s lw k r recv mem) i = d i := by
  obtain ⟨e, he, hm, hke, hmr65⟩ := low_work_geometry hsup
  obtain ⟨F, hFdeg, hFo, hFz, hFr⟩ := codeword_low hsup d
  obtain ⟨N, hN, hn, hle, _⟩ := npow2_eq_pow (n := npow2 k + r) (by rw [hm]; exact hmr65)
  have hn' : lowDecWorkCount k r = 2 ^ N := hn
  have h65 := two_pow_le_65536 hN
  have hkm : k ≤ npow2 k := by rw [hm]; exact hke
  have hmn : npow2 k + r ≤ lowDecWorkCount k r := by rw [hn']; exact hle
  have hn65 : lowDecWorkCount k r ≤ 65536 := by rw [hn']; exact h65
  have hm1 : 1 ≤ npow2 k := by rw [hm]; exact Nat.one_le_two_pow
  -- the marks
  have hT : ∀ u ∈ marked (erasuresLow k r recv), u < 65536 := by
    intro u hu
    rw [mem_marked_low k r recv hkm] at hu
    exact hu.1
  have hfull : ∀ u, lowDecWorkCount k r ≤ u → u < 65536 → u ∈ marked (erasuresLow k r recv) := by
    intro u h1 h2
    rw [mem_marked_low k r recv hkm]
    exact ⟨h2, Or.inr (Or.inr (by omega))⟩
  have hE : ∀ u ∈ (marked (erasuresLow k r recv)).filter (· < lowDecWorkCount k r),
      u < lowDecWorkCount k r := by
    intro u hu
    exact (mem_filter.1 hu).2
  have hcard := card_marked_low k r (lowDecWorkCount k r) recv hkm hmn hEnough
  have hdeg : (F * locPoly ((marked (erasuresLow k r recv)).filter
      (· < lowDecWorkCount k r))).degree < ((lowDecWorkCount k r : Nat) : WithBot Nat) := by
    refine lt_of_lt_of_le (degree_mul_locPoly_lt _ hFdeg) ?_
    exact_mod_cast (show npow2 k + ((marked (erasuresLow k r recv)).filter
      (· < lowDecWorkCount k r)).card ≤ lowDecWorkCount k r by omega)
  have hτ : ∏ u ∈ Ico (lowDecWorkCount k r) 65536, pt u ≠ 0 :=
    tail_prod_ne_zero (by omega)
  have hlocE : ∀ x, x < lowDecWorkCount k r →
      (⟨gexp ((evalPolyWith lw (erasuresLow k r recv) 65536).getD x 0)⟩ : GF16) =
        (∏ u ∈ Ico (lowDecWorkCount k r) 65536, pt u) *
          ∏ u ∈ ((marked (erasuresLow k r recv)).filter (· < lowDecWorkCount k r)).erase x,
            (pt x - pt u) := by
    intro x hx
    rw [(hLoc x (by omega)).2, loc_split hN hn' hx hT hfull]
  -- unfold the decoder
  have hv : (decodePrepare (fun p => decide (p < k) || (decide (npow2 k ≤ p) &&
      decide (p < npow2 k + r))) recv
      (evalPolyWith lw (erasuresLow k r recv) 65536) mem).size = lowDecWorkCount k r := by
    simp [decodePrepare, hsz]
  obtain ⟨_, hs2, _⟩ := decode_core_sizes hN hn' s _ hv (npow2 k + r) (npow2 k + r)
  have hunf : decodeLow s lw k r recv mem =
      decodeReveal 0 k recv (evalPolyWith lw (erasuresLow k r recv) 65536)
        (fft s (formalDerivative (ifft s (decodePrepare (fun p => decide (p < k) ||
          (decide (npow2 k ≤ p) && decide (p < npow2 k + r))) recv
          (evalPolyWith lw (erasuresLow k r recv) 65536) mem) 0
          (lowDecWorkCount k r) (npow2 k + r) 0)) 0 (lowDecWorkCount k r) (npow2 k + r) 0) := by
    unfold decodeLow
    simp only []
    rw [hv, hs2]
  have hdata : ∀ p, (decide (p < k) || (decide (npow2 k ≤ p) && decide (p < npow2 k + r))) = true
      ↔ p < k ∨ (npow2 k ≤ p ∧ p < npow2 k + r) := by
    intro p; simp
  have hwE : i ∈ (marked (erasuresLow k r recv)).filter (· < lowDecWorkCount k r) := by
    rw [mem_filter, mem_marked_low k r recv hkm]
    exact ⟨⟨by omega, Or.inl ⟨hi, hri⟩⟩, by omega⟩
  rw [hunf]
  have hmain := decode_generic hN hn' s F (∏ u ∈ Ico (lowDecWorkCount k r) 65536, pt u) hτ
    ((marked (erasuresLow k r recv)).filter (· < lowDecWorkCount k r)) hE hdeg
    (fun p => decide (p < k) || (decide (npow2 k ≤ p) && decide (p < npow2 k + r))) recv
    (evalPolyWith lw (erasuresLow k r recv) 65536) mem hsz hmn
    (fun p hp => by rw [hdata] at hp; omega)
    (fun p hpn hd hr => by
      rw [hdata] at hd
      have hpE : p ∉ (marked (erasuresLow k r recv)).filter (· < lowDecWorkCount k r) := by
        intro hpE
        rw [mem_filter, mem_marked_low k r recv hkm, hr] at hpE
        simp at hpE
        omega
      refine ⟨?_, ?_⟩
      · rcases hd with h | ⟨h1, h2⟩
        · rw [hO p h hr, hFo p h]
        · obtain ⟨j, rfl⟩ : ∃ j, p = npow2 k + j := ⟨p - npow2 k, by omega⟩
          rw [hR j (by omega) hr, hFr j (by omega)]
      · rw [hlocE p hpn, erase_eq_of_notMem hpE])
    (fun p hpn hc => by
      rw [hdata] at hc
      by_cases hpk : k ≤ p ∧ p < npow2 k
      · right
        exact hFz p hpk.1 hpk.2
      · left
        rw [mem_filter, mem_marked_low k r recv hkm]
        refine ⟨⟨by omega, ?_⟩, hpn⟩
        cases hrv : recv p
        · have h3 : p < k ∨ (npow2 k ≤ p ∧ p < npow2 k + r) ∨ npow2 k + r ≤ p := by omega
          rcases h3 with h | h | h
          · exact Or.inl ⟨h, rfl⟩
          · exact Or.inr (Or.inl ⟨h.1, h.2, rfl⟩)
          · exact Or.inr (Or.inr h)
        · rw [hrv] at hc
          simp at hc
          exact Or.inr (Or.inr (by omega)))
    hwE (by omega) 0 k (by omega) hi hri
    (hLoc _ (by omega)).1 (hlocE i (by omega))
  rw [hmain, hFo i hi]

end RT
end RS

#print axioms RS.RT.decodeLow_sym
