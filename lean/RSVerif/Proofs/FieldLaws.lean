/-
  Field laws of GF(2^16) as modelled in `Model/Field.lean`, proved from the definitions
  (core Lean only): `pmul` is a commutative, associative, unital, XOR-bilinear product,
  `phi`/`phiInv` are mutually inverse XOR-linear maps, hence `gmul` inherits all the laws
  and `Sym` is a `LawfulShardAlg`.
-/
import RSVerif.Proofs.Laws

namespace RS
open ShardAlg

/-! ### xor helpers -/

theorem sym_zero_eq : (0#16 : Sym) = 0 := rfl

theorem xor_zero' (a : Sym) : a ^^^ 0#16 = a := BitVec.xor_zero
theorem zero_xor' (a : Sym) : 0#16 ^^^ a = a := BitVec.zero_xor
theorem xor_self' (a : Sym) : a ^^^ a = 0#16 := BitVec.xor_self

/-- `(x ⊕ y) ⊕ (p ⊕ q) = (x ⊕ p) ⊕ (y ⊕ q)` -/
theorem xor_xor_xor_comm (x y p q : Sym) : (x ^^^ y) ^^^ (p ^^^ q) = (x ^^^ p) ^^^ (y ^^^ q) := by
  ac_rfl

theorem xor_right_comm' (x y p : Sym) : x ^^^ (y ^^^ p) = x ^^^ p ^^^ y := by
  ac_rfl

theorem xor_cancel_right (x y p : Sym) : (x ^^^ p) ^^^ (y ^^^ p) = x ^^^ y := by
  rw [xor_xor_xor_comm, xor_self', xor_zero']

/-! ### `mulX` and `pmul` are XOR-linear -/

theorem mulX_zero : mulX 0#16 = 0#16 := by decide

theorem mulX_xor (a b : Sym) : mulX (a ^^^ b) = mulX a ^^^ mulX b := by
  unfold mulX
  rw [BitVec.msb_xor, BitVec.shiftLeft_xor_distrib]
  cases a.msb <;> cases b.msb <;>
    simp only [Bool.xor_false, Bool.xor_true, Bool.not_true, Bool.not_false,
      Bool.false_eq_true, if_true, if_false]
  · ac_rfl
  · ac_rfl
  · rw [xor_cancel_right]

theorem pmulAux_xor_left (a b c : Sym) (n : Nat) :
    pmulAux (a ^^^ b) c n = pmulAux a c n ^^^ pmulAux b c n := by
  induction n with
  | zero => simp [pmulAux]
  | succ n ih =>
    simp only [pmulAux]
    rw [ih, mulX_xor]
    cases c.getLsbD (15 - n)
    · simp
    · simp only [if_true]
      rw [xor_xor_xor_comm]

theorem pmulAux_xor_right (a b c : Sym) (n : Nat) :
    pmulAux a (b ^^^ c) n = pmulAux a b n ^^^ pmulAux a c n := by
  induction n with
  | zero => simp [pmulAux]
  | succ n ih =>
    simp only [pmulAux]
    rw [ih, mulX_xor, BitVec.getLsbD_xor]
    cases b.getLsbD (15 - n) <;> cases c.getLsbD (15 - n) <;>
      simp only [Bool.xor_false, Bool.xor_true, Bool.not_true, Bool.not_false,
        Bool.false_eq_true, if_true, if_false, xor_zero']
    · ac_rfl
    · ac_rfl
    · rw [xor_cancel_right]

theorem pmulAux_zero_left (a : Sym) (n : Nat) : pmulAux 0#16 a n = 0#16 := by
  induction n with
  | zero => rfl
  | succ n ih =>
    simp only [pmulAux]
    rw [ih, mulX_zero]
    cases a.getLsbD (15 - n) <;> simp

theorem pmulAux_zero_right (a : Sym) (n : Nat) : pmulAux a 0#16 n = 0#16 := by
  induction n with
  | zero => rfl
  | succ n ih =>
    simp only [pmulAux]
    rw [ih, mulX_zero]
    simp

theorem pmul_xor_left (a b c : Sym) : pmul (a ^^^ b) c = pmul a c ^^^ pmul b c :=
  pmulAux_xor_left a b c 16

theorem pmul_xor_right (a b c : Sym) : pmul a (b ^^^ c) = pmul a b ^^^ pmul a c :=
  pmulAux_xor_right a b c 16

theorem pmul_zero_left (a : Sym) : pmul 0 a = 0 := pmulAux_zero_left a 16
theorem pmul_zero_right (a : Sym) : pmul a 0 = 0 := pmulAux_zero_right a 16

/-! ### XOR-induction: every symbol is the xor of its bits -/

/-- xor of the bits of `a` below position `n` -/
def bitSum (a : Sym) : Nat → Sym
  | 0 => 0#16
  | n + 1 => bitSum a n ^^^ (if a.getLsbD n then BitVec.twoPow 16 n else 0#16)

theorem getLsbD_bitSum (a : Sym) (n j : Nat) :
    (bitSum a n).getLsbD j = (decide (j < n) && a.getLsbD j) := by
  induction n with
  | zero => simp [bitSum]
  | succ n ih =>
    simp only [bitSum, BitVec.getLsbD_xor, ih]
    by_cases hjn : j = n
    · subst hjn
      cases h : a.getLsbD j
      · simp
      · have : j < 16 := BitVec.lt_of_getLsbD h
        simp [this]
    · have hlt : (j < n + 1) ↔ (j < n) := by omega
      have h1 : ¬ n = j := fun e => hjn e.symm
      cases h : a.getLsbD n <;> simp [hlt, h1]

theorem bitSum_sixteen (a : Sym) : bitSum a 16 = a := by
  apply BitVec.eq_of_getLsbD_eq
  intro i hi
  rw [getLsbD_bitSum]
  simp [hi]

/-- XOR-induction principle on 16-bit symbols. -/
theorem xor_induction {P : Sym → Prop} (h0 : P 0#16)
    (hb : ∀ i : Fin 16, P (BitVec.twoPow 16 i.val))
    (hx : ∀ a b, P a → P b → P (a ^^^ b)) (a : Sym) : P a := by
  have key : ∀ n, n ≤ 16 → P (bitSum a n) := by
    intro n
    induction n with
    | zero => intro _; exact h0
    | succ n ih =>
      intro hn
      simp only [bitSum]
      apply hx _ _ (ih (by omega))
      cases a.getLsbD n
      · exact h0
      · exact hb ⟨n, by omega⟩
  have := key 16 (Nat.le_refl _)
  rwa [bitSum_sixteen] at this

/-- XOR-linear maps on symbols -/
def IsLin (f : Sym → Sym) : Prop := ∀ a b, f (a ^^^ b) = f a ^^^ f b

theorem IsLin.map_zero {f : Sym → Sym} (hf : IsLin f) : f 0#16 = 0#16 := by
  have h := hf 0#16 0#16
  rw [xor_zero'] at h
  have h2 : f 0#16 ^^^ f 0#16 = f 0#16 ^^^ (f 0#16 ^^^ f 0#16) := congrArg (f 0#16 ^^^ ·) h
  rw [xor_self', xor_zero'] at h2
  exact h2.symm

/-- two XOR-linear maps that agree on the 16 unit vectors are equal -/
theorem lin_ext {f g : Sym → Sym} (hf : IsLin f) (hg : IsLin g)
    (hb : ∀ i : Fin 16, f (BitVec.twoPow 16 i.val) = g (BitVec.twoPow 16 i.val)) (a : Sym) :
    f a = g a := by
  refine xor_induction (P := fun a => f a = g a) ?_ hb ?_ a
  · show f 0#16 = g 0#16
    rw [hf.map_zero, hg.map_zero]
  · intro a b ha hb'
    show f (a ^^^ b) = g (a ^^^ b)
    rw [hf, hg, ha, hb']

theorem IsLin.comp {f g : Sym → Sym} (hf : IsLin f) (hg : IsLin g) : IsLin (fun a => f (g a)) := by
  intro a b
  show f (g (a ^^^ b)) = f (g a) ^^^ f (g b)
  rw [hg, hf]

theorem isLin_id : IsLin (fun a => a) := fun _ _ => rfl

theorem isLin_pmul_left (c : Sym) : IsLin (fun a => pmul a c) := fun a b => pmul_xor_left a b c
theorem isLin_pmul_right (c : Sym) : IsLin (fun a => pmul c a) := fun a b => pmul_xor_right c a b

/-! ### commutativity, associativity, unit of `pmul` -/

/-- the `i`-th unit vector -/
abbrev unitVec (i : Fin 16) : Sym := BitVec.twoPow 16 i.val

theorem pmul_comm_basis : ∀ i j : Fin 16, pmul (unitVec i) (unitVec j) = pmul (unitVec j) (unitVec i) := by
  decide +kernel

theorem pmul_comm (a b : Sym) : pmul a b = pmul b a := by
  refine lin_ext (f := fun a => pmul a b) (g := fun a => pmul b a)
    (isLin_pmul_left b) (isLin_pmul_right b) ?_ a
  intro i
  refine lin_ext (f := fun b => pmul (unitVec i) b) (g := fun b => pmul b (unitVec i))
    (isLin_pmul_right _) (isLin_pmul_left _) ?_ b
  intro j
  exact pmul_comm_basis i j

set_option maxRecDepth 100000 in
theorem pmul_assoc_basis :
    ∀ i j k : Fin 16, pmul (pmul (unitVec i) (unitVec j)) (unitVec k) = pmul (unitVec i) (pmul (unitVec j) (unitVec k)) := by
  decide +kernel

theorem pmul_assoc (a b c : Sym) : pmul (pmul a b) c = pmul a (pmul b c) := by
  refine lin_ext (f := fun a => pmul (pmul a b) c) (g := fun a => pmul a (pmul b c))
    (IsLin.comp (isLin_pmul_left c) (isLin_pmul_left b)) (isLin_pmul_left _) ?_ a
  intro i
  refine lin_ext (f := fun b => pmul (pmul (unitVec i) b) c) (g := fun b => pmul (unitVec i) (pmul b c))
    (IsLin.comp (isLin_pmul_left c) (isLin_pmul_right _))
    (IsLin.comp (isLin_pmul_right _) (isLin_pmul_left c)) ?_ b
  intro j
  refine lin_ext (f := fun c => pmul (pmul (unitVec i) (unitVec j)) c) (g := fun c => pmul (unitVec i) (pmul (unitVec j) c))
    (isLin_pmul_right _) (IsLin.comp (isLin_pmul_right _) (isLin_pmul_right _)) ?_ c
  intro k
  exact pmul_assoc_basis i j k

theorem pmul_one_basis : ∀ i : Fin 16, pmul (unitVec i) 1 = unitVec i := by
  decide +kernel

theorem pmul_one (a : Sym) : pmul a 1 = a :=
  lin_ext (f := fun a => pmul a 1) (g := fun a => a) (isLin_pmul_left 1) isLin_id pmul_one_basis a

theorem one_pmul (a : Sym) : pmul 1 a = a := by
  rw [pmul_comm, pmul_one]

/-! ### `phi` / `phiInv` -/

theorem linMap_xor (ks : List Sym) (a b : Sym) (i : Nat) :
    linMap ks (a ^^^ b) i = linMap ks a i ^^^ linMap ks b i := by
  induction ks generalizing i with
  | nil => simp [linMap]
  | cons k ks ih =>
    simp only [linMap]
    rw [ih, BitVec.getLsbD_xor]
    cases a.getLsbD i <;> cases b.getLsbD i <;>
      simp only [Bool.xor_false, Bool.xor_true, Bool.not_true, Bool.not_false,
        Bool.false_eq_true, if_true, if_false, zero_xor']
    · ac_rfl
    · ac_rfl
    · rw [xor_xor_xor_comm, xor_self', zero_xor']

theorem isLin_phi : IsLin phi := fun a b => linMap_xor cantorBasis a b 0
theorem isLin_phiInv : IsLin phiInv := fun a b => linMap_xor cantorInv a b 0

theorem phi_xor (a b : Sym) : phi (a ^^^ b) = phi a ^^^ phi b := isLin_phi a b
theorem phiInv_xor (a b : Sym) : phiInv (a ^^^ b) = phiInv a ^^^ phiInv b := isLin_phiInv a b
theorem phi_zero : phi 0 = 0 := isLin_phi.map_zero
theorem phiInv_zero : phiInv 0 = 0 := isLin_phiInv.map_zero

theorem phiInv_phi_basis : ∀ i : Fin 16, phiInv (phi (unitVec i)) = unitVec i := by decide +kernel
theorem phi_phiInv_basis : ∀ i : Fin 16, phi (phiInv (unitVec i)) = unitVec i := by decide +kernel

theorem phiInv_phi (a : Sym) : phiInv (phi a) = a :=
  lin_ext (f := fun a => phiInv (phi a)) (g := fun a => a)
    (IsLin.comp isLin_phiInv isLin_phi) isLin_id phiInv_phi_basis a

theorem phi_phiInv (a : Sym) : phi (phiInv a) = a :=
  lin_ext (f := fun a => phi (phiInv a)) (g := fun a => a)
    (IsLin.comp isLin_phi isLin_phiInv) isLin_id phi_phiInv_basis a

theorem phi_one : phi 1 = 1 := by decide
theorem phiInv_one : phiInv 1 = 1 := by decide

/-! ### `gmul` -/

theorem gmul_comm (a b : Sym) : gmul a b = gmul b a := by
  unfold gmul; rw [pmul_comm]

theorem gmul_assoc (a b c : Sym) : gmul (gmul a b) c = gmul a (gmul b c) := by
  unfold gmul; rw [phi_phiInv, phi_phiInv, pmul_assoc]

theorem gmul_xor_left (a b c : Sym) : gmul (a ^^^ b) c = gmul a c ^^^ gmul b c := by
  unfold gmul; rw [phi_xor, pmul_xor_left, phiInv_xor]

theorem gmul_xor_right (a b c : Sym) : gmul a (b ^^^ c) = gmul a b ^^^ gmul a c := by
  unfold gmul; rw [phi_xor, pmul_xor_right, phiInv_xor]

theorem gmul_zero_left (a : Sym) : gmul 0 a = 0 := by
  unfold gmul; rw [phi_zero, pmul_zero_left, phiInv_zero]

theorem gmul_zero_right (a : Sym) : gmul a 0 = 0 := by
  unfold gmul; rw [phi_zero, pmul_zero_right, phiInv_zero]

theorem gmul_one_left (a : Sym) : gmul gone a = a := by
  show phiInv (pmul (phi 1) (phi a)) = a
  rw [phi_one, one_pmul, phiInv_phi]

theorem gmul_one_right (a : Sym) : gmul a gone = a := by
  show phiInv (pmul (phi a) (phi 1)) = a
  rw [phi_one, pmul_one, phiInv_phi]

/-! ### `Sym` is a lawful shard algebra -/

instance instLawfulShardAlgSym : LawfulShardAlg Sym where
  add_comm a b := BitVec.xor_comm a b
  add_assoc a b c := BitVec.xor_assoc a b c
  add_zero a := xor_zero' a
  add_self a := xor_self' a
  smul_add c a b := gmul_xor_right c a b
  smul_zero c := gmul_zero_right c
  zero_smul a := gmul_zero_left a
  add_smul c d a := gmul_xor_left c d a
  smul_smul c d a := (gmul_assoc c d a).symm
  one_smul a := gmul_one_left a

end RS

#print axioms RS.gmul_comm
#print axioms RS.gmul_assoc
#print axioms RS.instLawfulShardAlgSym
