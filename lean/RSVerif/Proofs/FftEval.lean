/-
  The FFT of `Model/Engine.lean` evaluates polynomials given in the LCH ("novel") basis
  `X_t(x) = Π_{j ∈ bits t} s_j(x)` of `Model/Spec.lean`:

  1. facts about the subspace polynomials `sPoly j` (additive, `s_j(2^j) = 1`, vanish on
     `{0 … 2^j-1}`, constant on aligned blocks) and the twiddle factors `skewElem`;
  2. `fft_eval`: the full naive fft of size `2^n` at skew offset `delta` maps LCH coefficients to
     the values at the points `delta … delta + 2^n - 1`;
  3. `ifft_eval`: the inverse transform produces the LCH coefficients of the interpolant;
  4. `lchSum_eq_lchEval`: link with `Spec.lchEval`.
-/
import RSVerif.Proofs.GF16
import RSVerif.Proofs.Sched
import Mathlib.Tactic.LinearCombination

namespace RS
open ShardAlg

/-! ## 1. subspace polynomials -/

theorem sPoly_zero (x : Sym) : sPoly 0 x = x := rfl

theorem sPoly_succ (j : Nat) (x : Sym) :
    sPoly (j + 1) x = gmul (sPoly j x) (sPoly j x ^^^ gone) := rfl

/-- `a ↦ a·(a ⊕ 1)` is additive in characteristic 2 -/
theorem artin_add (a b : Sym) :
    gmul (a ^^^ b) ((a ^^^ b) ^^^ gone) = gmul a (a ^^^ gone) ^^^ gmul b (b ^^^ gone) := by
  have h2 : (2 : GF16) = 0 := CharTwo.two_eq_zero
  have key : ((⟨a⟩ : GF16) + ⟨b⟩) * ((⟨a⟩ + ⟨b⟩) + 1) =
      (⟨a⟩ : GF16) * (⟨a⟩ + 1) + ⟨b⟩ * (⟨b⟩ + 1) := by
    linear_combination ((⟨a⟩ : GF16) * ⟨b⟩) * h2
  exact congrArg GF16.val key

theorem sPoly_add (j : Nat) (x y : Sym) : sPoly j (x ^^^ y) = sPoly j x ^^^ sPoly j y := by
  induction j with
  | zero => rfl
  | succ j ih => rw [sPoly_succ, sPoly_succ, sPoly_succ, ih, artin_add]

theorem sPoly_zero_arg (j : Nat) : sPoly j 0#16 = 0#16 := by
  induction j with
  | zero => rfl
  | succ j ih => rw [sPoly_succ, ih]; exact gmul_zero_left _

theorem sPoly_basis_fin : ∀ j : Fin 16, sPoly j.val (BitVec.ofNat 16 (2 ^ j.val)) = gone := by
  decide +kernel

/-- Cantor property: `s_j(2^j) = 1` -/
theorem sPoly_basisF (j : Nat) (hj : j < 16) : sPoly j (BitVec.ofNat 16 (2 ^ j)) = gone :=
  sPoly_basis_fin ⟨j, hj⟩

/-- adding a number below `2^j` to a multiple of `2^j` is a xor -/
theorem add_eq_xor_of_dvdF {j D i : Nat} (hD : 2 ^ j ∣ D) (hi : i < 2 ^ j) : D + i = D ^^^ i := by
  obtain ⟨k, rfl⟩ := hD
  apply Nat.eq_of_testBit_eq
  intro m
  rw [Nat.testBit_xor, Nat.testBit_two_pow_mul_add _ hi, Nat.testBit_two_pow_mul]
  by_cases hm : m < j
  · have : ¬ m ≥ j := by omega
    simp [hm, this]
  · have h1 : m ≥ j := by omega
    have h2 : i < 2 ^ m := Nat.lt_of_lt_of_le hi (Nat.pow_le_pow_right (by decide) h1)
    simp [hm, h1, Nat.testBit_lt_two_pow h2]

theorem ofNat_add_of_dvd {j D i : Nat} (hD : 2 ^ j ∣ D) (hi : i < 2 ^ j) :
    BitVec.ofNat 16 (D + i) = BitVec.ofNat 16 D ^^^ BitVec.ofNat 16 i := by
  rw [add_eq_xor_of_dvdF hD hi, BitVec.ofNat_xor]

/-- `s_j` vanishes on `{0, …, 2^j - 1}` -/
theorem sPoly_vanish (j : Nat) (hj : j ≤ 16) : ∀ v, v < 2 ^ j → sPoly j (BitVec.ofNat 16 v) = 0#16 := by
  induction j with
  | zero =>
    intro v hv
    have : v = 0 := by simpa using hv
    subst this; rfl
  | succ j ih =>
    intro v hv
    rw [sPoly_succ]
    by_cases hlt : v < 2 ^ j
    · rw [ih (by omega) v hlt]; exact gmul_zero_left _
    · have hv' : v - 2 ^ j < 2 ^ j := by rw [Nat.pow_succ] at hv; omega
      have e : v = 2 ^ j + (v - 2 ^ j) := by omega
      rw [e, ofNat_add_of_dvd (Nat.dvd_refl _) hv', sPoly_add, ih (by omega) _ hv',
        sPoly_basisF j (by omega), xor_zero', xor_self']
      exact gmul_zero_right _

/-- `s_j` is constant on aligned blocks of length `2^j` -/
theorem sPoly_block (j : Nat) (hj : j ≤ 16) {D i : Nat} (hD : 2 ^ j ∣ D) (hi : i < 2 ^ j) :
    sPoly j (BitVec.ofNat 16 (D + i)) = sPoly j (BitVec.ofNat 16 D) := by
  rw [ofNat_add_of_dvd hD hi, sPoly_add, sPoly_vanish j hj i hi, xor_zero']

/-- on the upper half of an aligned block of length `2^(j+1)`, `s_j` takes the value `s_j(D) ⊕ 1` -/
theorem sPoly_block_hi (j : Nat) (hj : j < 16) {D i : Nat} (hD : 2 ^ (j + 1) ∣ D) (hi : i < 2 ^ j) :
    sPoly j (BitVec.ofNat 16 (D + 2 ^ j + i)) = sPoly j (BitVec.ofNat 16 D) ^^^ gone := by
  have hD' : 2 ^ j ∣ D := Nat.dvd_trans ⟨2, by rw [Nat.pow_succ]⟩ hD
  have hDd : 2 ^ j ∣ D + 2 ^ j := Nat.dvd_add hD' (Nat.dvd_refl _)
  have h2 : 2 ^ j < 2 ^ (j + 1) := by rw [Nat.pow_succ]; omega
  rw [sPoly_block j (by omega) hDd hi, ofNat_add_of_dvd hD h2, sPoly_add, sPoly_basisF j hj]

/-! ### trailing zeros and the twiddle factors -/

theorem tzAux_two_pow_mul (j : Nat) : ∀ (f m : Nat), j < f → m % 2 = 1 → tzAux f (2 ^ j * m) = j := by
  induction j with
  | zero =>
    intro f m hf hm
    obtain ⟨f, rfl⟩ : ∃ f', f = f' + 1 := ⟨f - 1, by omega⟩
    simp [tzAux, hm]
  | succ j ih =>
    intro f m hf hm
    obtain ⟨f, rfl⟩ : ∃ f', f = f' + 1 := ⟨f - 1, by omega⟩
    have e : 2 ^ (j + 1) * m = 2 * (2 ^ j * m) := by rw [Nat.pow_succ]; ac_rfl
    have h1 : ¬ (2 ^ (j + 1) * m) % 2 = 1 := by rw [e]; omega
    have h2 : 2 ^ (j + 1) * m / 2 = 2 ^ j * m := by rw [e]; omega
    rw [tzAux, if_neg h1, h2, ih f m (by omega) hm, Nat.add_comm]

theorem tz_two_pow_mul {j m : Nat} (hj : j < 64) (hm : m % 2 = 1) : tz (2 ^ j * m) = j := by
  have hpos : 0 < 2 ^ j * m := Nat.mul_pos (Nat.two_pow_pos j) (by omega)
  rw [tz, if_neg (by omega), tzAux_two_pow_mul j 64 m hj hm]

/-- the twiddle factor of the block `r` at distance `2^j` is `s_j(r + delta)` -/
theorem skewElem_aligned {j r delta : Nat} (hj : j < 64) (h : 2 * 2 ^ j ∣ r + delta) :
    skewElem (r + 2 ^ j + delta - 1) = sPoly j (BitVec.ofNat 16 (r + delta)) := by
  obtain ⟨k, hk⟩ := h
  have hpos := Nat.two_pow_pos j
  have e1 : r + 2 ^ j + delta - 1 + 1 = 2 ^ j * (2 * k + 1) := by
    have : r + 2 ^ j + delta - 1 + 1 = (r + delta) + 2 ^ j := by omega
    rw [this, hk, Nat.mul_add, Nat.mul_one]; ac_rfl
  have e2 : 2 ^ j * (2 * k + 1) - 2 ^ j = r + delta := by
    rw [hk, Nat.mul_add, Nat.mul_one, Nat.add_sub_cancel]; ac_rfl
  simp only [skewElem]
  rw [e1, tz_two_pow_mul hj (by omega), e2]

/-! ## 2. the fft evaluates LCH-basis polynomials -/

/-- `Σ_{t < size} a[pos + t] · X_t(x)` -/
def lchSum (a : Array Sym) (pos size : Nat) (x : Sym) : Sym :=
  (List.range size).foldl (fun acc t => acc ^^^ gmul (rd a (pos + t)) (lchBasis t x)) 0#16

/-! ### finite xor-sums -/

/-- xor of `g 0, …, g (n-1)` -/
def xsumF (g : Nat → Sym) : Nat → Sym
  | 0 => 0#16
  | n + 1 => xsumF g n ^^^ g n

theorem foldl_xor_eq_xsumF (g : Nat → Sym) (n : Nat) :
    (List.range n).foldl (fun acc t => acc ^^^ g t) 0#16 = xsumF g n := by
  induction n with
  | zero => rfl
  | succ n ih => rw [List.range_succ, List.foldl_append, ih]; rfl

theorem xsum_congr {g h : Nat → Sym} {n : Nat} (H : ∀ t, t < n → g t = h t) :
    xsumF g n = xsumF h n := by
  induction n with
  | zero => rfl
  | succ n ih =>
    rw [xsumF, xsumF, ih (fun t ht => H t (by omega)), H n (by omega)]

theorem xsum_xor (g h : Nat → Sym) (n : Nat) :
    xsumF (fun t => g t ^^^ h t) n = xsumF g n ^^^ xsumF h n := by
  induction n with
  | zero => exact (xor_zero' _).symm
  | succ n ih => simp only [xsumF]; rw [ih, xor_xor_xor_comm]

theorem xsum_gmul (c : Sym) (g : Nat → Sym) (n : Nat) :
    xsumF (fun t => gmul c (g t)) n = gmul c (xsumF g n) := by
  induction n with
  | zero => exact (gmul_zero_right c).symm
  | succ n ih => simp only [xsumF]; rw [ih, gmul_xor_right]

theorem xsum_split (g : Nat → Sym) (a b : Nat) :
    xsumF g (a + b) = xsumF g a ^^^ xsumF (fun t => g (a + t)) b := by
  induction b with
  | zero => exact (xor_zero' _).symm
  | succ b ih =>
    rw [← Nat.add_assoc]
    simp only [xsumF]
    rw [ih, BitVec.xor_assoc]

/-! ### the LCH basis -/

/-- the product over the bits below `k` -/
def lchB (k t : Nat) (x : Sym) : Sym :=
  (List.range k).foldl (fun acc j => if t.testBit j then gmul acc (sPoly j x) else acc) gone

theorem lchBasis_eq (t : Nat) (x : Sym) : lchBasis t x = lchB 16 t x := rfl

theorem lchB_succ (k t : Nat) (x : Sym) :
    lchB (k + 1) t x = if t.testBit k then gmul (lchB k t x) (sPoly k x) else lchB k t x := by
  unfold lchB
  rw [List.range_succ, List.foldl_append]
  rfl

theorem lchB_zero (k : Nat) (x : Sym) : lchB k 0 x = gone := by
  induction k with
  | zero => rfl
  | succ k ih => rw [lchB_succ, ih]; simp

theorem lchB_add_low {n t : Nat} (x : Sym) :
    ∀ k, k ≤ n → lchB k (2 ^ n + t) x = lchB k t x := by
  intro k
  induction k with
  | zero => intro _; rfl
  | succ k ih =>
    intro hk
    rw [lchB_succ, lchB_succ, ih (by omega), Nat.testBit_two_pow_add_gt (by omega)]

theorem lchB_add_high {n t : Nat} (ht : t < 2 ^ n) (x : Sym) :
    ∀ e, lchB (n + 1 + e) (2 ^ n + t) x = gmul (sPoly n x) (lchB (n + 1 + e) t x) := by
  intro e
  induction e with
  | zero =>
    rw [Nat.add_zero, lchB_succ, lchB_succ, lchB_add_low x n (Nat.le_refl _),
      Nat.testBit_two_pow_add_eq, Nat.testBit_lt_two_pow ht]
    simp only [Bool.not_false, if_true, Bool.false_eq_true, if_false]
    exact gmul_comm _ _
  | succ e ih =>
    have hle : 2 ^ (n + 1) ≤ 2 ^ (n + 1 + e) := Nat.pow_le_pow_right (by decide) (by omega)
    have h1 : 2 ^ n + t < 2 ^ (n + 1 + e) := by rw [Nat.pow_succ] at hle; omega
    have h2 : t < 2 ^ (n + 1 + e) := by omega
    rw [← Nat.add_assoc, lchB_succ, lchB_succ, ih, Nat.testBit_lt_two_pow h1,
      Nat.testBit_lt_two_pow h2]
    simp

/-- splitting off the top bit: `X_{2^n + t} = s_n · X_t` for `t < 2^n` -/
theorem lchBasis_split {n t : Nat} (hn : n < 16) (ht : t < 2 ^ n) (x : Sym) :
    lchBasis (2 ^ n + t) x = gmul (sPoly n x) (lchBasis t x) := by
  have := lchB_add_high ht x (15 - n)
  have e : n + 1 + (15 - n) = 16 := by omega
  rw [e] at this
  exact this

theorem lchBasis_zero (x : Sym) : lchBasis 0 x = gone := lchB_zero 16 x

/-! ### `lchSum` on functions -/

/-- `lchSum` for a function `Nat → Sym` instead of an array -/
def lchSumF (f : Nat → Sym) (pos size : Nat) (x : Sym) : Sym :=
  xsumF (fun t => gmul (f (pos + t)) (lchBasis t x)) size

theorem lchSum_eq (a : Array Sym) (pos size : Nat) (x : Sym) :
    lchSum a pos size x = lchSumF (rd a) pos size x :=
  foldl_xor_eq_xsumF _ _

/-- `lchSum` is linear in the coefficients -/
theorem lchSumF_lin {f u v : Nat → Sym} {p q r size : Nat} (c x : Sym)
    (H : ∀ t, t < size → f (p + t) = u (q + t) ^^^ gmul c (v (r + t))) :
    lchSumF f p size x = lchSumF u q size x ^^^ gmul c (lchSumF v r size x) := by
  unfold lchSumF
  rw [← xsum_gmul, ← xsum_xor]
  apply xsum_congr
  intro t ht
  rw [H t ht, gmul_xor_left, gmul_assoc]

/-- decimation: lower half plus `s_n(x)` times the upper half -/
theorem lchSumF_split {n : Nat} (hn : n < 16) (f : Nat → Sym) (pos : Nat) (x : Sym) :
    lchSumF f pos (2 ^ (n + 1)) x =
      lchSumF f pos (2 ^ n) x ^^^ gmul (sPoly n x) (lchSumF f (pos + 2 ^ n) (2 ^ n) x) := by
  have e : 2 ^ (n + 1) = 2 ^ n + 2 ^ n := by rw [Nat.pow_succ]; omega
  unfold lchSumF
  rw [e, xsum_split, ← xsum_gmul]
  congr 1
  apply xsum_congr
  intro t ht
  rw [lchBasis_split hn ht, ← gmul_assoc, ← gmul_assoc, gmul_comm (sPoly n x), Nat.add_assoc]

/-! ### the butterfly layers restricted to an aligned sub-window -/

section restrict
variable {V : Type} [ShardAlg V]

/-- on an aligned sub-window `[pos + off, pos + off + S)` a fully processed layer acts like the
    layer of the sub-window with skew offset `delta + off` -/
theorem fftPt_restrict {delta off : Nat} {proc proc' : Nat → Bool} {d pos size S : Nat}
    {f g : Nat → V} (hd : 0 < d) (hoff : 2 * d ∣ off) (hS : 2 * d ∣ S) (hsz : off + S ≤ size)
    (hp : ∀ r, r < size → proc r = true) (hp' : ∀ r, r < S → proc' r = true)
    (H : ∀ i, i < S → f (pos + off + i) = g (pos + off + i)) :
    ∀ i, i < S → fftPt delta proc d pos size f (pos + off + i) =
      fftPt (delta + off) proc' d (pos + off) S g (pos + off + i) := by
  intro i hi
  obtain ⟨k, rfl⟩ := hoff
  have h2d : 0 < 2 * d := by omega
  have e1 : (2 * d * k + i) / (2 * d) = k + i / (2 * d) := Nat.mul_add_div h2d k i
  have e2 : (2 * d * k + i) % (2 * d) = i % (2 * d) := Nat.mul_add_mod _ _ _
  have eb : (2 * d * k + i) / (2 * d) * (2 * d) = 2 * d * k + i / (2 * d) * (2 * d) := by
    rw [e1, Nat.add_mul, Nat.mul_comm k]
  have hr' : i / (2 * d) * (2 * d) < S := Nat.lt_of_le_of_lt (blk_le _ _) hi
  have hr : (2 * d * k + i) / (2 * d) * (2 * d) < size := by rw [eb]; omega
  have ea : pos + 2 * d * k + i = pos + (2 * d * k + i) := Nat.add_assoc _ _ _
  have a1 : f (pos + (2 * d * k + i)) = g (pos + 2 * d * k + i) := by rw [← ea]; exact H i hi
  have a3 : 2 * d * k + i / (2 * d) * (2 * d) + d + delta - 1 =
      i / (2 * d) * (2 * d) + d + (delta + 2 * d * k) - 1 := by omega
  by_cases hlo : i % (2 * d) < d
  · have hlt := lo_partner_lt hd hS hi hlo
    have a2 : f (pos + (2 * d * k + i + d)) = g (pos + 2 * d * k + (i + d)) := by
      have := H (i + d) hlt
      have e : pos + (2 * d * k + i + d) = pos + 2 * d * k + (i + d) := by omega
      rw [e]; exact this
    conv_lhs => rw [ea]
    rw [fftPt_lo (i := 2 * d * k + i) (by omega) (hp _ hr) (by rw [e2]; exact hlo),
      fftPt_lo (pos := pos + 2 * d * k) hi (hp' _ hr') hlo, eb, a1, a2, a3]
  · obtain ⟨b1, _, _⟩ := hi_partner hd hlo
    have a2 : f (pos + (2 * d * k + i - d)) = g (pos + 2 * d * k + (i - d)) := by
      have := H (i - d) (by omega)
      have e : pos + (2 * d * k + i - d) = pos + 2 * d * k + (i - d) := by omega
      rw [e]; exact this
    conv_lhs => rw [ea]
    rw [fftPt_hi (i := 2 * d * k + i) (by omega) (hp _ hr) (by rw [e2]; exact hlo) (by omega),
      fftPt_hi (pos := pos + 2 * d * k) hi (hp' _ hr') hlo b1, eb, a1, a2, a3]

/-- the layers at distances `2^(m-1), …, 1` of the full naive plan, restricted to a
    `2^m`-aligned sub-window -/
theorem runFftPt_restrict {delta off pos size S T T' : Nat} (hT : size ≤ T) (hT' : S ≤ T')
    (hsz : off + S ≤ size) :
    ∀ m, 2 ^ m ∣ off → 2 ^ m ∣ S → ∀ f g : Nat → V,
      (∀ i, i < S → f (pos + off + i) = g (pos + off + i)) →
      ∀ i, i < S → runFftPt delta pos size (naiveFftPlan T m) f (pos + off + i) =
        runFftPt (delta + off) (pos + off) S (naiveFftPlan T' m) g (pos + off + i) := by
  intro m
  induction m with
  | zero => intro _ _ f g H; exact H
  | succ m ih =>
    intro ho hS f g H
    have hm : 2 ^ m ∣ 2 ^ (m + 1) := ⟨2, by rw [Nat.pow_succ]⟩
    have e : 2 ^ (m + 1) = 2 * 2 ^ m := by rw [Nat.pow_succ, Nat.mul_comm]
    simp only [runFftPt, naiveFftPlan, List.foldl_cons] at ih ⊢
    apply ih (Nat.dvd_trans hm ho) (Nat.dvd_trans hm hS)
    apply fftPt_restrict (Nat.two_pow_pos m) (e ▸ ho) (e ▸ hS) hsz
    · intro r hr; simp only [decide_eq_true_eq]; omega
    · intro r hr; simp only [decide_eq_true_eq]; omega
    · exact H

end restrict

/-! ### the top layer -/

/-- top layer (distance `2^n`, single block), lower half: `x' = x ⊕ τ·y`, `τ = s_n(delta)` -/
theorem top_lo {n delta pos : Nat} {proc : Nat → Bool} {f : Nat → Sym} (hn : n < 64)
    (hd : 2 ^ (n + 1) ∣ delta) (hp : proc 0 = true) {i : Nat} (hi : i < 2 ^ n) :
    fftPt delta proc (2 ^ n) pos (2 ^ (n + 1)) f (pos + i) =
      f (pos + i) ^^^ gmul (sPoly n (BitVec.ofNat 16 delta)) (f (pos + 2 ^ n + i)) := by
  have e : 2 ^ (n + 1) = 2 * 2 ^ n := by rw [Nat.pow_succ, Nat.mul_comm]
  have hdiv : i / (2 * 2 ^ n) = 0 := Nat.div_eq_of_lt (by omega)
  have hmod : i % (2 * 2 ^ n) = i := Nat.mod_eq_of_lt (by omega)
  have hb : i / (2 * 2 ^ n) * (2 * 2 ^ n) = 0 := by rw [hdiv, Nat.zero_mul]
  rw [fftPt_lo (by omega) (by rw [hb]; exact hp) (by rw [hmod]; exact hi), hb,
    skewElem_aligned hn (by rw [Nat.zero_add, ← e]; exact hd), Nat.zero_add]
  have e2 : pos + (i + 2 ^ n) = pos + 2 ^ n + i := by omega
  rw [e2]
  rfl

/-- top layer, upper half: `y' = x ⊕ (τ ⊕ 1)·y` -/
theorem top_hi {n delta pos : Nat} {proc : Nat → Bool} {f : Nat → Sym} (hn : n < 64)
    (hd : 2 ^ (n + 1) ∣ delta) (hp : proc 0 = true) {i : Nat} (hi : i < 2 ^ n) :
    fftPt delta proc (2 ^ n) pos (2 ^ (n + 1)) f (pos + 2 ^ n + i) =
      f (pos + i) ^^^ gmul (sPoly n (BitVec.ofNat 16 delta) ^^^ gone) (f (pos + 2 ^ n + i)) := by
  have e : 2 ^ (n + 1) = 2 * 2 ^ n := by rw [Nat.pow_succ, Nat.mul_comm]
  have hdiv : (2 ^ n + i) / (2 * 2 ^ n) = 0 := Nat.div_eq_of_lt (by omega)
  have hmod : (2 ^ n + i) % (2 * 2 ^ n) = 2 ^ n + i := Nat.mod_eq_of_lt (by omega)
  have hb : (2 ^ n + i) / (2 * 2 ^ n) * (2 * 2 ^ n) = 0 := by rw [hdiv, Nat.zero_mul]
  have e1 : pos + 2 ^ n + i = pos + (2 ^ n + i) := Nat.add_assoc _ _ _
  rw [e1, fftPt_hi (by omega) (by rw [hb]; exact hp) (by rw [hmod]; omega) (by omega), hb,
    skewElem_aligned hn (by rw [Nat.zero_add, ← e]; exact hd), Nat.zero_add,
    Nat.add_sub_cancel_left]
  show f _ ^^^ (f _ ^^^ gmul _ (f _)) = _
  rw [gmul_xor_left, gmul_one_left]
  ac_rfl

/-! ### the main theorem -/

/-- function-level form: the naive plan for `2^n` points maps LCH coefficients to values -/
theorem runFftPt_eval : ∀ n, n ≤ 16 → ∀ (delta pos : Nat) (f : Nat → Sym), 2 ^ n ∣ delta →
    ∀ i, i < 2 ^ n →
      runFftPt delta pos (2 ^ n) (naiveFftPlan (2 ^ n) n) f (pos + i) =
        lchSumF f pos (2 ^ n) (BitVec.ofNat 16 (delta + i)) := by
  intro n
  induction n with
  | zero =>
    intro _ delta pos f _ i hi
    have : i = 0 := by simpa using hi
    subst this
    show f (pos + 0) = (0#16 ^^^ gmul (f (pos + 0)) (lchBasis 0 _))
    rw [lchBasis_zero, gmul_one_right, zero_xor']
  | succ n ih =>
    intro hn delta pos f hd i hi
    have hdl : 2 ^ n ∣ delta := Nat.dvd_trans ⟨2, by rw [Nat.pow_succ]⟩ hd
    have e : 2 ^ (n + 1) = 2 ^ n + 2 ^ n := by rw [Nat.pow_succ]; omega
    have hp0 : (fun r => decide (r < 2 ^ (n + 1))) 0 = true := by
      simp only [decide_eq_true_eq]; exact Nat.two_pow_pos _
    -- the array after the top layer
    let f1 : Nat → Sym :=
      fftPt delta (fun r => decide (r < 2 ^ (n + 1))) (2 ^ n) pos (2 ^ (n + 1)) f
    have hrun : runFftPt delta pos (2 ^ (n + 1)) (naiveFftPlan (2 ^ (n + 1)) (n + 1)) f =
        runFftPt delta pos (2 ^ (n + 1)) (naiveFftPlan (2 ^ (n + 1)) n) f1 := rfl
    rw [hrun, lchSumF_split (by omega)]
    by_cases hlo : i < 2 ^ n
    · -- lower half: same `delta`
      have h1 := runFftPt_restrict (V := Sym) (delta := delta) (off := 0) (pos := pos)
        (size := 2 ^ (n + 1)) (S := 2 ^ n) (T := 2 ^ (n + 1)) (T' := 2 ^ n)
        (Nat.le_refl _) (Nat.le_refl _) (by omega) n (Nat.dvd_zero _) (Nat.dvd_refl _)
        f1 f1 (fun _ _ => rfl) i hlo
      simp only [Nat.add_zero] at h1
      rw [h1, ih (by omega) delta pos f1 hdl i hlo, sPoly_block n (by omega) hdl hlo]
      exact lchSumF_lin _ _ (fun t ht => top_lo (by omega) hd hp0 ht)
    · -- upper half: an fft at `pos + 2^n` with skew offset `delta + 2^n`
      obtain ⟨i', rfl⟩ : ∃ i', i = 2 ^ n + i' := ⟨i - 2 ^ n, by omega⟩
      have hi' : i' < 2 ^ n := by omega
      have h1 := runFftPt_restrict (V := Sym) (delta := delta) (off := 2 ^ n) (pos := pos)
        (size := 2 ^ (n + 1)) (S := 2 ^ n) (T := 2 ^ (n + 1)) (T' := 2 ^ n)
        (Nat.le_refl _) (Nat.le_refl _) (by omega) n (Nat.dvd_refl _) (Nat.dvd_refl _)
        f1 f1 (fun _ _ => rfl) i' hi'
      rw [← Nat.add_assoc pos, h1,
        ih (by omega) (delta + 2 ^ n) (pos + 2 ^ n) f1 (Nat.dvd_add hdl (Nat.dvd_refl _)) i' hi',
        ← Nat.add_assoc delta, sPoly_block_hi n (by omega) hd hi']
      exact lchSumF_lin _ _ (fun t ht => top_hi (by omega) hd hp0 ht)

/-- The fft evaluates: with LCH coefficients in `a[pos .. pos + 2^n)`, the full naive fft leaves
    at `pos + i` the value of the polynomial at the point `delta + i`.
    (General form: the points are taken modulo `2^16`, so no bound on `delta` is needed.) -/
theorem fft_eval' (a : Array Sym) (pos n delta : Nat) (hn : n ≤ 16) (hd : 2 ^ n ∣ delta)
    (hp : pos + 2 ^ n ≤ a.size) :
    ∀ i, i < 2 ^ n → rd (fft .naive a pos (2 ^ n) (2 ^ n) delta) (pos + i) =
      lchSum a pos (2 ^ n) (BitVec.ofNat 16 (delta + i)) := by
  intro i hi
  rw [fft, rd_runFftPlan _ _ _ _ _ hp, Nat.log2_two_pow, lchSum_eq]
  exact runFftPt_eval n hn delta pos (rd a) hd i hi

theorem fft_eval (a : Array Sym) (pos n delta : Nat) (hn : n ≤ 16) (hd : 2 ^ n ∣ delta)
    (_hb : delta + 2 ^ n ≤ 65536) (hp : pos + 2 ^ n ≤ a.size) :
    ∀ i, i < 2 ^ n → rd (fft .naive a pos (2 ^ n) (2 ^ n) delta) (pos + i) =
      lchSum a pos (2 ^ n) (BitVec.ofNat 16 (delta + i)) :=
  fft_eval' a pos n delta hn hd hp

/-! ## 3. the ifft interpolates -/

/-- the inverse transform produces the LCH coefficients of the polynomial taking the values
    `a[pos + i]` at the points `delta + i` -/
theorem ifft_eval (a : Array Sym) (pos n delta : Nat) (hn : n ≤ 16) (hd : 2 ^ n ∣ delta)
    (_hb : delta + 2 ^ n ≤ 65536) (hp : pos + 2 ^ n ≤ a.size) :
    ∀ i, i < 2 ^ n →
      lchSum (ifft .naive a pos (2 ^ n) (2 ^ n) delta) pos (2 ^ n) (BitVec.ofNat 16 (delta + i)) =
        rd a (pos + i) := by
  intro i hi
  have hp' : pos + 2 ^ n ≤ (ifft .naive a pos (2 ^ n) (2 ^ n) delta).size := by simpa using hp
  rw [← fft_eval' _ pos n delta hn hd hp' i hi, fft_ifft_inverse a pos (2 ^ n) n delta rfl hp]

/-! ## 4. link with `Spec.lchEval` -/

theorem lchSum_eq_lchEval (a : Array Sym) (x : Sym) : lchSum a 0 a.size x = lchEval a x := by
  unfold lchSum lchEval
  simp only [Nat.zero_add]
  rfl

end RS

#print axioms RS.sPoly_add
#print axioms RS.sPoly_basisF
#print axioms RS.sPoly_vanish
#print axioms RS.sPoly_block
#print axioms RS.sPoly_block_hi
#print axioms RS.skewElem_aligned
#print axioms RS.fft_eval'
#print axioms RS.fft_eval
#print axioms RS.ifft_eval
#print axioms RS.lchSum_eq_lchEval
