/-
  The refinement chain from the crate's REAL flat byte memory (`Flat` of Model/Flat.lean = `Shards` /
  `ShardsRefMut` of src/engine/shards.rs, with Rust slice-bound semantics: `none` = panic) up to the
  abstract transform model, for WHOLE transforms and WHOLE encoders / decoders
  (definitions: Model/FlatEngine.lean).

  Every statement has the shape: for a well-formed memory (`f.WF`, `0 < f.len64`) inside the stated
  bounds the operation returns `some f'` (NO PANIC on any slice / split bound), `f'` is well-formed
  with the same geometry, and `f'.absAt f.len64` is the position-level model applied to `f.absV`.

  Part 1   `flatNaiveFft_refines`, `flatNaiveIfft_refines`, `flatTwoFft_refines`,
           `flatTwoIfft_refines` (= the loop nests of Model/EngineSeq.lean), and through
           Proofs/SeqEquiv.lean `flatNaiveFft_fft`, `flatNaiveIfft_ifft`, `flatTwoFft_fft`,
           `flatTwoIfft_ifft` (= `fft s` / `ifft s` of Model/Engine.lean).
           With the view functions the Rust really uses: `Flat.fftTwoLayers4O_eq`,
           `Flat.ifftTwoLayers4O_eq` (one `dist4_mut` = four `dist2_mut` butterflies),
           `Flat.ifftLastSplitO_eq` (`split_at_mut` + `IndexMut` loop = run of `dist2_mut`
           butterflies), `flatTwoFft4_refines`, `flatTwoIfft4_refines`, `flatTwoFft4_eq`,
           `flatTwoIfft4_eq`.
  Part 2   `flatFft_refines`, `flatIfft_refines` (engine selected by `Sched`),
           a. `flatFormalDerivative_refines`,
           b. `flatEncodeHigh_refines`, `flatEncodeLow_refines`,
           c. `flatDecodeHigh_refines`, `flatDecodeLow_refines`.

  Method: `Flat.Rep n c f A` (`f` well-formed, `c` shards of `n` blocks, abstraction `A`); a loop
  whose every step preserves `Rep` along the position-level step does not panic and refines the
  position-level loop (`Flat.foldO_rep`); the steps are the lemmas of Proofs/FlatSpec.lean.
  Core Lean only.
-/
import RSVerif.Model.FlatEngine
import RSVerif.Proofs.FlatSpec
import RSVerif.Proofs.SeqEquiv
import RSVerif.Proofs.Envelope
import RSVerif.Proofs.FieldLaws

namespace RS

open SeqEq

namespace Flat

/-! ## the simulation relation -/

/-- `f` is a well-formed flat memory of `c` shards of `n` blocks each whose position-level
    abstraction is `A` -/
def Rep (n c : Nat) (f : Flat) (A : Array (BVec n)) : Prop :=
  f.WF ∧ f.len64 = n ∧ f.count = c ∧ f.absAt n = A

theorem Rep.size {n c : Nat} {f : Flat} {A : Array (BVec n)} (h : Rep n c f A) : A.size = c := by
  obtain ⟨_, _, h3, h4⟩ := h
  rw [← h4, absAt_size, h3]

theorem rep_self (f : Flat) (hwf : f.WF) : Rep f.len64 f.count f f.absV := ⟨hwf, rfl, rfl, rfl⟩

/-- a step lemma of Proofs/FlatSpec.lean in terms of `Rep` -/
theorem rep_of_refines {f f' : Flat} {B : Array (BVec f.len64)} (h1 : f'.count = f.count)
    (h2 : f'.len64 = f.len64) (h3 : f'.WF) (h4 : f'.absAt f.len64 = B) :
    Rep f.len64 f.count f' B := ⟨h3, h2, h1, h4⟩

/-! ## folds of steps that can panic -/

theorem foldO_nil {α κ : Type} (step : α → κ → Option α) (a : α) : foldO step [] a = some a := rfl

theorem foldO_cons {α κ : Type} (step : α → κ → Option α) (k : κ) (ks : List κ) (a : α) :
    foldO step (k :: ks) a = (step a k).bind (foldO step ks) := rfl

/-- `foldO` is the monadic left fold of `Option` -/
theorem foldO_eq_foldlM {α κ : Type} (step : α → κ → Option α) (L : List κ) (a : α) :
    foldO step L a = L.foldlM step a := by
  induction L generalizing a with
  | nil => rfl
  | cons k ks ih =>
    rw [foldO_cons, List.foldlM_cons]
    cases h : step a k with
    | none => rfl
    | some b => exact ih b

/-- a loop on the flat memory whose every step refines the corresponding position-level step does
    not panic and refines the position-level loop -/
theorem foldO_rep {κ : Type} {n c : Nat} (L : List κ) (sf : Flat → κ → Option Flat)
    (sa : Array (BVec n) → κ → Array (BVec n))
    (h : ∀ k, k ∈ L → ∀ f A, Rep n c f A → ∃ f', sf f k = some f' ∧ Rep n c f' (sa A k))
    (f : Flat) (A : Array (BVec n)) (hr : Rep n c f A) :
    ∃ f', foldO sf L f = some f' ∧ Rep n c f' (L.foldl sa A) := by
  induction L generalizing f A with
  | nil => exact ⟨f, rfl, hr⟩
  | cons k ks ih =>
    obtain ⟨f1, h1, r1⟩ := h k (List.mem_cons_self ..) f A hr
    obtain ⟨f2, h2, r2⟩ := ih (fun k' hk' => h k' (List.mem_cons_of_mem _ hk')) f1 (sa A k) r1
    refine ⟨f2, ?_, r2⟩
    rw [foldO_cons, h1, Option.bind_some, h2]

/-! ## Part 1: whole transforms -/

/-! ### one butterfly -/

theorem fftBfly_rep (c : Sym) {n cnt : Nat} (hn : 0 < n) {f : Flat} {A : Array (BVec n)}
    (hr : Rep n cnt f A) (pos dist : Nat) (hd : 0 < dist) (hp : pos + dist < cnt) :
    ∃ f', f.fftBfly c pos dist = some f' ∧ Rep n cnt f' (RS.fftBfly c A pos (pos + dist)) := by
  obtain ⟨hwf, hl, hc, ha⟩ := hr
  subst hl; subst hc; subst ha
  obtain ⟨f', h1, h2, h3, h4, h5⟩ := fftBfly_refines c f hwf hn pos dist hd hp
  exact ⟨f', h1, rep_of_refines h2 h3 h4 h5⟩

theorem ifftBfly_rep (c : Sym) {n cnt : Nat} (hn : 0 < n) {f : Flat} {A : Array (BVec n)}
    (hr : Rep n cnt f A) (pos dist : Nat) (hd : 0 < dist) (hp : pos + dist < cnt) :
    ∃ f', f.ifftBfly c pos dist = some f' ∧ Rep n cnt f' (RS.ifftBfly c A pos (pos + dist)) := by
  obtain ⟨hwf, hl, hc, ha⟩ := hr
  subst hl; subst hc; subst ha
  obtain ⟨f', h1, h2, h3, h4, h5⟩ := ifftBfly_refines c f hwf hn pos dist hd hp
  exact ⟨f', h1, rep_of_refines h2 h3 h4 h5⟩

/-! ### a run of butterflies inside one block -/

theorem bflyRunO_rep {n cnt : Nat} (bfO : Flat → Nat → Nat → Option Flat)
    (bf : Array (BVec n) → Nat → Nat → Array (BVec n))
    (hb : ∀ f A, Rep n cnt f A → ∀ p d, 0 < d → p + d < cnt →
      ∃ f', bfO f p d = some f' ∧ Rep n cnt f' (bf A p (p + d)))
    {f : Flat} {A : Array (BVec n)} (hr : Rep n cnt f A) (pos r dist : Nat)
    (h : pos + r + 2 * dist ≤ cnt) :
    ∃ f', bflyRunO bfO f pos r dist = some f' ∧ Rep n cnt f' (bflyRun bf A pos r dist) := by
  unfold bflyRunO bflyRun
  apply foldO_rep (List.range dist) (fun f i => bfO f (pos + r + i) dist)
    (fun a i => bf a (pos + r + i) (pos + r + i + dist)) _ f A hr
  intro i hi f A hr
  have hi' : i < dist := List.mem_range.1 hi
  exact hb f A hr _ _ (by omega) (by omega)

/-! ### one Naive layer -/

theorem naiveFftLayerO_rep {n cnt : Nat} (hn : 0 < n) (delta trunc pos d size : Nat) (hd : 0 < d)
    (hdvd : 2 * d ∣ size) (ht : trunc ≤ size) (hs : pos + size ≤ cnt)
    {f : Flat} {A : Array (BVec n)} (hr : Rep n cnt f A) :
    ∃ f', naiveFftLayerO delta trunc pos d f = some f' ∧
      Rep n cnt f' (naiveFftLayerSeq delta trunc pos d A) := by
  unfold naiveFftLayerO naiveFftLayerSeq
  apply foldO_rep (blockStarts trunc (2 * d))
    (fun f r => bflyRunO (fun f p d' => f.fftBfly (skewElem (r + d + delta - 1)) p d') f pos r d)
    (fun a r => bflyRun (RS.fftBfly (skewElem (r + d + delta - 1))) a pos r d) _ f A hr
  intro r hr f A hrep
  obtain ⟨h1, h2⟩ := mem_blockStarts (by omega) hr
  have hrs := block_fits h1 hdvd (by omega : r < size)
  exact bflyRunO_rep _ _ (fun f A hr p d' hd' hp => fftBfly_rep _ hn hr p d' hd' hp) hrep pos r d
    (by omega)

theorem naiveIfftLayerO_rep {n cnt : Nat} (hn : 0 < n) (delta trunc pos d size : Nat) (hd : 0 < d)
    (hdvd : 2 * d ∣ size) (ht : trunc ≤ size) (hs : pos + size ≤ cnt)
    {f : Flat} {A : Array (BVec n)} (hr : Rep n cnt f A) :
    ∃ f', naiveIfftLayerO delta trunc pos d f = some f' ∧
      Rep n cnt f' (naiveIfftLayerSeq delta trunc pos d A) := by
  unfold naiveIfftLayerO naiveIfftLayerSeq
  apply foldO_rep (blockStarts trunc (2 * d))
    (fun f r => bflyRunO (fun f p d' => f.ifftBfly (skewElem (r + d + delta - 1)) p d') f pos r d)
    (fun a r => bflyRun (RS.ifftBfly (skewElem (r + d + delta - 1))) a pos r d) _ f A hr
  intro r hr f A hrep
  obtain ⟨h1, h2⟩ := mem_blockStarts (by omega) hr
  have hrs := block_fits h1 hdvd (by omega : r < size)
  exact bflyRunO_rep _ _ (fun f A hr p d' hd' hp => ifftBfly_rep _ hn hr p d' hd' hp) hrep pos r d
    (by omega)

/-! ### the Naive transforms -/

theorem flatNaiveFft_rep {n cnt : Nat} (hn : 0 < n) (pos N trunc delta : Nat) (ht : trunc ≤ 2 ^ N)
    (hs : pos + 2 ^ N ≤ cnt) {f : Flat} {A : Array (BVec n)} (hr : Rep n cnt f A) :
    ∃ f', flatNaiveFft f pos N trunc delta = some f' ∧
      Rep n cnt f' (naiveFftSeq A pos N trunc delta) := by
  unfold flatNaiveFft naiveFftSeq
  apply foldO_rep ((List.range N).reverse.map (2 ^ ·))
    (fun f d => naiveFftLayerO delta trunc pos d f)
    (fun a d => naiveFftLayerSeq delta trunc pos d a) _ f A hr
  intro d hd f A hrep
  obtain ⟨l, hl, rfl⟩ := List.mem_map.1 hd
  have hl' : l < N := List.mem_range.1 (List.mem_reverse.1 hl)
  exact naiveFftLayerO_rep hn delta trunc pos (2 ^ l) (2 ^ N) (Nat.two_pow_pos l)
    (two_mul_pow_dvd hl') ht hs hrep

theorem flatNaiveIfft_rep {n cnt : Nat} (hn : 0 < n) (pos N trunc delta : Nat) (ht : trunc ≤ 2 ^ N)
    (hs : pos + 2 ^ N ≤ cnt) {f : Flat} {A : Array (BVec n)} (hr : Rep n cnt f A) :
    ∃ f', flatNaiveIfft f pos N trunc delta = some f' ∧
      Rep n cnt f' (naiveIfftSeq A pos N trunc delta) := by
  unfold flatNaiveIfft naiveIfftSeq
  apply foldO_rep ((List.range N).map (2 ^ ·))
    (fun f d => naiveIfftLayerO delta trunc pos d f)
    (fun a d => naiveIfftLayerSeq delta trunc pos d a) _ f A hr
  intro d hd f A hrep
  obtain ⟨l, hl, rfl⟩ := List.mem_map.1 hd
  have hl' : l < N := List.mem_range.1 hl
  exact naiveIfftLayerO_rep hn delta trunc pos (2 ^ l) (2 ^ N) (Nat.two_pow_pos l)
    (two_mul_pow_dvd hl') ht hs hrep

/-! ### the four-point butterflies -/

theorem fftTwoLayersO_rep (c01 c23 c02 : Sym) {n cnt : Nat} (hn : 0 < n) {f : Flat}
    {A : Array (BVec n)} (hr : Rep n cnt f A) (p dist : Nat) (hd : 0 < dist)
    (hp : p + 3 * dist < cnt) :
    ∃ f', fftTwoLayersO c01 c23 c02 f p dist = some f' ∧
      Rep n cnt f' (fftTwoLayers c01 c23 c02 A p dist) := by
  have e1 : p + dist + 2 * dist = p + 3 * dist := by omega
  have e2 : p + 2 * dist + dist = p + 3 * dist := by omega
  obtain ⟨f1, h1, r1⟩ := fftBfly_rep c02 hn hr p (2 * dist) (by omega) (by omega)
  obtain ⟨f2, h2, r2⟩ := fftBfly_rep c02 hn r1 (p + dist) (2 * dist) (by omega) (by omega)
  obtain ⟨f3, h3, r3⟩ := fftBfly_rep c01 hn r2 p dist hd (by omega)
  obtain ⟨f4, h4, r4⟩ := fftBfly_rep c23 hn r3 (p + 2 * dist) dist hd (by omega)
  rw [e1] at r2 r3 r4
  rw [e2] at r4
  refine ⟨f4, ?_, r4⟩
  unfold fftTwoLayersO
  rw [h1, Option.bind_some, h2, Option.bind_some, h3, Option.bind_some, h4]

theorem ifftTwoLayersO_rep (c01 c23 c02 : Sym) {n cnt : Nat} (hn : 0 < n) {f : Flat}
    {A : Array (BVec n)} (hr : Rep n cnt f A) (p dist : Nat) (hd : 0 < dist)
    (hp : p + 3 * dist < cnt) :
    ∃ f', ifftTwoLayersO c01 c23 c02 f p dist = some f' ∧
      Rep n cnt f' (ifftTwoLayers c01 c23 c02 A p dist) := by
  have e1 : p + dist + 2 * dist = p + 3 * dist := by omega
  have e2 : p + 2 * dist + dist = p + 3 * dist := by omega
  obtain ⟨f1, h1, r1⟩ := ifftBfly_rep c01 hn hr p dist hd (by omega)
  obtain ⟨f2, h2, r2⟩ := ifftBfly_rep c23 hn r1 (p + 2 * dist) dist hd (by omega)
  obtain ⟨f3, h3, r3⟩ := ifftBfly_rep c02 hn r2 p (2 * dist) (by omega) (by omega)
  obtain ⟨f4, h4, r4⟩ := ifftBfly_rep c02 hn r3 (p + dist) (2 * dist) (by omega) (by omega)
  rw [e2] at r2 r3 r4
  rw [e1] at r4
  refine ⟨f4, ?_, r4⟩
  unfold ifftTwoLayersO
  rw [h1, Option.bind_some, h2, Option.bind_some, h3, Option.bind_some, h4]

/-! ### two-layer passes, generic in the four-point butterfly -/

/-- what a four-point butterfly on the flat memory has to satisfy -/
def QuadRefines (n cnt : Nat) (tlO : Sym → Sym → Sym → Flat → Nat → Nat → Option Flat)
    (tl : Sym → Sym → Sym → Array (BVec n) → Nat → Nat → Array (BVec n)) : Prop :=
  ∀ c01 c23 c02 f A, Rep n cnt f A → ∀ p dist, 0 < dist → p + 3 * dist < cnt →
    ∃ f', tlO c01 c23 c02 f p dist = some f' ∧ Rep n cnt f' (tl c01 c23 c02 A p dist)

theorem twoPassO_rep {n cnt : Nat} (tlO : Sym → Sym → Sym → Flat → Nat → Nat → Option Flat)
    (tl : Sym → Sym → Sym → Array (BVec n) → Nat → Nat → Array (BVec n))
    (htl : QuadRefines n cnt tlO tl)
    (delta trunc pos dist size : Nat) (hd : 0 < dist)
    (hdvd : 4 * dist ∣ size) (ht : trunc ≤ size) (hs : pos + size ≤ cnt)
    {f : Flat} {A : Array (BVec n)} (hr : Rep n cnt f A) :
    ∃ f', twoPassO tlO delta trunc pos dist f = some f' ∧
      Rep n cnt f' ((blockStarts trunc (4 * dist)).foldl
        (fun a r => (List.range dist).foldl
          (fun a i => tl (skewElem (r + dist + delta - 1))
            (skewElem (r + dist + delta - 1 + 2 * dist)) (skewElem (r + dist + delta - 1 + dist))
            a (pos + r + i) dist) a) A) := by
  unfold twoPassO
  apply foldO_rep (blockStarts trunc (4 * dist)) _ _ _ f A hr
  intro r hr f A hrep
  obtain ⟨h1, h2⟩ := mem_blockStarts (by omega) hr
  have hrs := block_fits h1 hdvd (by omega : r < size)
  apply foldO_rep (List.range dist) _ _ _ f A hrep
  intro i hi f A hrep
  have hi' : i < dist := List.mem_range.1 hi
  exact htl _ _ _ f A hrep (pos + r + i) dist hd (by omega)

theorem twoFftO_rep {n cnt : Nat} (hn : 0 < n)
    (tlO : Sym → Sym → Sym → Flat → Nat → Nat → Option Flat)
    (htl : QuadRefines n cnt tlO fftTwoLayers)
    (pos N trunc delta : Nat) (ht : trunc ≤ 2 ^ N) (hs : pos + 2 ^ N ≤ cnt)
    {f : Flat} {A : Array (BVec n)} (hr : Rep n cnt f A) :
    ∃ f', twoFftO tlO f pos N trunc delta = some f' ∧
      Rep n cnt f' (twoFftSeq A pos N trunc delta) := by
  unfold twoFftO twoFftSeq
  obtain ⟨f1, h1, r1⟩ := foldO_rep ((List.range (N / 2)).map fun j => 2 ^ (N - 2 - 2 * j))
    (fun f d => twoPassO tlO delta trunc pos d f)
    (fun a d => twoFftPassSeq delta trunc pos d a)
    (by
      intro d hd f A hrep
      obtain ⟨j, hj, rfl⟩ := List.mem_map.1 hd
      have hj' : j < N / 2 := List.mem_range.1 hj
      exact twoPassO_rep tlO fftTwoLayers htl delta trunc pos (2 ^ (N - 2 - 2 * j)) (2 ^ N)
        (Nat.two_pow_pos _) (four_mul_pow_dvd (by omega)) ht hs hrep) f A hr
  simp only []
  rw [h1, Option.bind_some]
  by_cases hodd : N % 2 = 1
  · rw [if_pos hodd, if_pos hodd]
    apply foldO_rep (blockStarts trunc 2)
      (fun f r => f.fftBfly (skewElem (r + delta)) (pos + r) 1)
      (fun a r => RS.fftBfly (skewElem (r + delta)) a (pos + r) (pos + r + 1)) _ f1 _ r1
    intro r hr f A hrep
    obtain ⟨h2, h3⟩ := mem_blockStarts (by omega) hr
    have hdvd : 2 ∣ 2 ^ N := by
      have := two_mul_pow_dvd (l := 0) (n := N) (by omega)
      simpa using this
    have hrs := block_fits h2 hdvd (by omega : r < 2 ^ N)
    exact fftBfly_rep _ hn hrep (pos + r) 1 (by omega) (by omega)
  · rw [if_neg hodd, if_neg hodd]
    exact ⟨f1, rfl, r1⟩

theorem ifftLastO_rep {n cnt : Nat} (hn : 0 < n) (delta pos dist : Nat)
    (hs : pos + 2 * dist ≤ cnt) {f : Flat} {A : Array (BVec n)} (hr : Rep n cnt f A) :
    ∃ f', ifftLastO delta pos dist f = some f' ∧
      Rep n cnt f' (bflyRun (RS.ifftBfly (skewElem (dist + delta - 1))) A pos 0 dist) := by
  unfold ifftLastO
  exact bflyRunO_rep _ _ (fun f A hr p d' hd' hp => ifftBfly_rep _ hn hr p d' hd' hp) hr pos 0 dist
    (by omega)

/-- what a final odd layer of `ifft_private` on the flat memory has to satisfy -/
def LastRefines (n cnt : Nat) (last : Nat → Nat → Nat → Flat → Option Flat) : Prop :=
  ∀ delta pos dist f (A : Array (BVec n)), Rep n cnt f A → 0 < dist → pos + 2 * dist ≤ cnt →
    ∃ f', last delta pos dist f = some f' ∧
      Rep n cnt f' (bflyRun (RS.ifftBfly (skewElem (dist + delta - 1))) A pos 0 dist)

theorem twoIfftO_rep {n cnt : Nat}
    (tlO : Sym → Sym → Sym → Flat → Nat → Nat → Option Flat)
    (htl : QuadRefines n cnt tlO ifftTwoLayers)
    (last : Nat → Nat → Nat → Flat → Option Flat) (hlast : LastRefines n cnt last)
    (pos N trunc delta : Nat) (ht : trunc ≤ 2 ^ N) (hs : pos + 2 ^ N ≤ cnt)
    {f : Flat} {A : Array (BVec n)} (hr : Rep n cnt f A) :
    ∃ f', twoIfftO tlO last f pos N trunc delta = some f' ∧
      Rep n cnt f' (twoIfftSeq A pos N trunc delta) := by
  unfold twoIfftO twoIfftSeq
  obtain ⟨f1, h1, r1⟩ := foldO_rep ((List.range (N / 2)).map fun j => 2 ^ (2 * j))
    (fun f d => twoPassO tlO delta trunc pos d f)
    (fun a d => twoIfftPassSeq delta trunc pos d a)
    (by
      intro d hd f A hrep
      obtain ⟨j, hj, rfl⟩ := List.mem_map.1 hd
      have hj' : j < N / 2 := List.mem_range.1 hj
      exact twoPassO_rep tlO ifftTwoLayers htl delta trunc pos (2 ^ (2 * j)) (2 ^ N)
        (Nat.two_pow_pos _) (four_mul_pow_dvd (by omega)) ht hs hrep) f A hr
  simp only []
  rw [h1, Option.bind_some]
  by_cases hodd : N % 2 = 1
  · rw [if_pos hodd, if_pos hodd]
    have e : 2 * 2 ^ (N - 1) = 2 ^ N := by
      have := (two_pow_facts (N - 1)).1
      have e' : N - 1 + 1 = N := by omega
      rw [e'] at this
      exact this.symm
    exact hlast delta pos (2 ^ (N - 1)) f1 _ r1 (Nat.two_pow_pos _) (by omega)
  · rw [if_neg hodd, if_neg hodd]
    exact ⟨f1, rfl, r1⟩

end Flat

/-! ### the main statements of Part 1 -/

open Flat in
/-- unpacking `Rep` for the statement about a concrete memory -/
theorem Flat.of_rep {f f' : Flat} {B : Array (BVec f.len64)} (h : Rep f.len64 f.count f' B) :
    f'.WF ∧ f'.count = f.count ∧ f'.len64 = f.len64 ∧ f'.absAt f.len64 = B :=
  ⟨h.1, h.2.2.1, h.2.1, h.2.2.2⟩

/-- **`Naive::fft` on the real flat memory** never panics inside the window and refines the
    position-level loop nest -/
theorem flatNaiveFft_refines (f : Flat) (hwf : f.WF) (hn : 0 < f.len64) (pos n trunc delta : Nat)
    (ht : trunc ≤ 2 ^ n) (hp : pos + 2 ^ n ≤ f.count) :
    ∃ f', flatNaiveFft f pos n trunc delta = some f' ∧ f'.WF ∧ f'.count = f.count ∧
      f'.len64 = f.len64 ∧ f'.absAt f.len64 = naiveFftSeq f.absV pos n trunc delta := by
  obtain ⟨f', h1, r⟩ := Flat.flatNaiveFft_rep hn pos n trunc delta ht hp (Flat.rep_self f hwf)
  exact ⟨f', h1, Flat.of_rep r⟩

theorem flatNaiveIfft_refines (f : Flat) (hwf : f.WF) (hn : 0 < f.len64) (pos n trunc delta : Nat)
    (ht : trunc ≤ 2 ^ n) (hp : pos + 2 ^ n ≤ f.count) :
    ∃ f', flatNaiveIfft f pos n trunc delta = some f' ∧ f'.WF ∧ f'.count = f.count ∧
      f'.len64 = f.len64 ∧ f'.absAt f.len64 = naiveIfftSeq f.absV pos n trunc delta := by
  obtain ⟨f', h1, r⟩ := Flat.flatNaiveIfft_rep hn pos n trunc delta ht hp (Flat.rep_self f hwf)
  exact ⟨f', h1, Flat.of_rep r⟩

theorem flatTwoFft_refines (f : Flat) (hwf : f.WF) (hn : 0 < f.len64) (pos n trunc delta : Nat)
    (ht : trunc ≤ 2 ^ n) (hp : pos + 2 ^ n ≤ f.count) :
    ∃ f', flatTwoFft f pos n trunc delta = some f' ∧ f'.WF ∧ f'.count = f.count ∧
      f'.len64 = f.len64 ∧ f'.absAt f.len64 = twoFftSeq f.absV pos n trunc delta := by
  obtain ⟨f', h1, r⟩ := Flat.twoFftO_rep hn Flat.fftTwoLayersO
    (fun c01 c23 c02 f A hr p d hd hp => Flat.fftTwoLayersO_rep c01 c23 c02 hn hr p d hd hp)
    pos n trunc delta ht hp (Flat.rep_self f hwf)
  exact ⟨f', h1, Flat.of_rep r⟩

theorem flatTwoIfft_refines (f : Flat) (hwf : f.WF) (hn : 0 < f.len64) (pos n trunc delta : Nat)
    (ht : trunc ≤ 2 ^ n) (hp : pos + 2 ^ n ≤ f.count) :
    ∃ f', flatTwoIfft f pos n trunc delta = some f' ∧ f'.WF ∧ f'.count = f.count ∧
      f'.len64 = f.len64 ∧ f'.absAt f.len64 = twoIfftSeq f.absV pos n trunc delta := by
  obtain ⟨f', h1, r⟩ := Flat.twoIfftO_rep Flat.ifftTwoLayersO
    (fun c01 c23 c02 f A hr p d hd hp => Flat.ifftTwoLayersO_rep c01 c23 c02 hn hr p d hd hp)
    Flat.ifftLastO (fun delta pos dist f A hr _ hs => Flat.ifftLastO_rep hn delta pos dist hs hr)
    pos n trunc delta ht hp (Flat.rep_self f hwf)
  exact ⟨f', h1, Flat.of_rep r⟩

/-! corollaries through Proofs/SeqEquiv.lean: the pointwise model of Model/Engine.lean -/

theorem flatNaiveFft_fft (f : Flat) (hwf : f.WF) (hn : 0 < f.len64) (pos n trunc delta : Nat)
    (ht : trunc ≤ 2 ^ n) (hp : pos + 2 ^ n ≤ f.count) :
    ∃ f', flatNaiveFft f pos n trunc delta = some f' ∧ f'.WF ∧ f'.count = f.count ∧
      f'.len64 = f.len64 ∧ f'.absAt f.len64 = fft .naive f.absV pos (2 ^ n) trunc delta := by
  rw [← naiveFftSeq_eq f.absV pos n trunc delta ht (by rw [Flat.absV_size]; exact hp)]
  exact flatNaiveFft_refines f hwf hn pos n trunc delta ht hp

theorem flatNaiveIfft_ifft (f : Flat) (hwf : f.WF) (hn : 0 < f.len64) (pos n trunc delta : Nat)
    (ht : trunc ≤ 2 ^ n) (hp : pos + 2 ^ n ≤ f.count) :
    ∃ f', flatNaiveIfft f pos n trunc delta = some f' ∧ f'.WF ∧ f'.count = f.count ∧
      f'.len64 = f.len64 ∧ f'.absAt f.len64 = ifft .naive f.absV pos (2 ^ n) trunc delta := by
  rw [← naiveIfftSeq_eq f.absV pos n trunc delta ht (by rw [Flat.absV_size]; exact hp)]
  exact flatNaiveIfft_refines f hwf hn pos n trunc delta ht hp

theorem flatTwoFft_fft (f : Flat) (hwf : f.WF) (hn : 0 < f.len64) (pos n trunc delta : Nat)
    (ht : trunc ≤ 2 ^ n) (hp : pos + 2 ^ n ≤ f.count) :
    ∃ f', flatTwoFft f pos n trunc delta = some f' ∧ f'.WF ∧ f'.count = f.count ∧
      f'.len64 = f.len64 ∧ f'.absAt f.len64 = fft .twoLayer f.absV pos (2 ^ n) trunc delta := by
  rw [← twoFftSeq_eq f.absV pos n trunc delta ht (by rw [Flat.absV_size]; exact hp)]
  exact flatTwoFft_refines f hwf hn pos n trunc delta ht hp

theorem flatTwoIfft_ifft (f : Flat) (hwf : f.WF) (hn : 0 < f.len64) (pos n trunc delta : Nat)
    (ht : trunc ≤ 2 ^ n) (hp : pos + 2 ^ n ≤ f.count) :
    ∃ f', flatTwoIfft f pos n trunc delta = some f' ∧ f'.WF ∧ f'.count = f.count ∧
      f'.len64 = f.len64 ∧ f'.absAt f.len64 = ifft .twoLayer f.absV pos (2 ^ n) trunc delta := by
  rw [← twoIfftSeq_eq f.absV pos n trunc delta ht (by rw [Flat.absV_size]; exact hp)]
  exact flatTwoIfft_refines f hwf hn pos n trunc delta ht hp

end RS

/-! ## helpers shared by the following sections -/

namespace RS
open SeqEq

theorem ext_rd_lt {V : Type} [ShardAlg V] (A B : Array V) (hs : A.size = B.size)
    (h : ∀ p, p < B.size → rd A p = rd B p) : A = B := by
  apply Array.ext hs
  intro p h1 h2
  rw [← fl_rd_lt A p h1, ← fl_rd_lt B p h2]
  exact h p h2

namespace Flat

/-! ### the other accessors in terms of `Rep` -/

theorem xorWithin_rep {n cnt : Nat} {f : Flat} {A : Array (BVec n)} (hr : Rep n cnt f A)
    (x y c : Nat) (hx : x + c ≤ cnt) (hy : y + c ≤ cnt) (hd : x + c ≤ y ∨ y + c ≤ x) :
    ∃ f', f.xorWithin x y c = some f' ∧ Rep n cnt f' (RS.xorWithin A x y c) := by
  obtain ⟨hwf, hl, hc, ha⟩ := hr
  subst hl; subst hc; subst ha
  obtain ⟨f', h1, h2, h3, h4, h5⟩ := xorWithin_refines f hwf x y c hx hy hd
  exact ⟨f', h1, rep_of_refines h2 h3 h4 h5⟩

theorem zero_rep {n cnt : Nat} {f : Flat} {A : Array (BVec n)} (hr : Rep n cnt f A)
    (a b : Nat) (hab : a ≤ b) (hb : b ≤ cnt) :
    ∃ f', f.zero a b = some f' ∧ Rep n cnt f' (zeroRange A a b) := by
  obtain ⟨hwf, hl, hc, ha⟩ := hr
  subst hl; subst hc; subst ha
  obtain ⟨f', h1, h2, h3, h4, h5⟩ := zero_refines f hwf a b hab hb
  exact ⟨f', h1, rep_of_refines h2 h3 h4 h5⟩

/-- `zero(a..)` -/
theorem zeroFrom_rep {n cnt : Nat} {f : Flat} {A : Array (BVec n)} (hr : Rep n cnt f A)
    (a : Nat) (ha : a ≤ cnt) :
    ∃ f', f.zeroFrom a = some f' ∧ Rep n cnt f' (zeroRange A a A.size) := by
  rw [zeroFrom_eq, hr.2.2.1, hr.size]
  exact zero_rep hr a cnt ha (Nat.le_refl _)

theorem copyWithin_rep {n cnt : Nat} {f : Flat} {A : Array (BVec n)} (hr : Rep n cnt f A)
    (src dest c : Nat) (h1 : src + c ≤ cnt) (h2 : dest + c ≤ cnt)
    (hd : dest ≤ src ∨ src + c ≤ dest) :
    ∃ f', f.copyWithin src dest c = some f' ∧ Rep n cnt f' (RS.copyWithin A src dest c) := by
  obtain ⟨hwf, hl, hc, ha⟩ := hr
  subst hl; subst hc; subst ha
  obtain ⟨f', e1, e2, e3, e4, e5⟩ := copyWithin_refines f hwf src dest c h1 h2 hd
  exact ⟨f', e1, rep_of_refines e2 e3 e4 e5⟩

end Flat

end RS

/-! ## Part 1, continued: the view functions the Rust really uses

  `fft_butterfly_two_layers` / `ifft_butterfly_two_layers` take ONE `dist4_mut(pos, dist)` and do the
  four partial butterflies on its four views.  This is the same as the four `dist2_mut` butterflies of
  `fftTwoLayersO` / `ifftTwoLayersO`. -/

namespace RS
open SeqEq ShardAlg

section quad
variable {V : Type} [ShardAlg V]

/-- the four outputs of `fft_butterfly_two_layers` as values -/
def fftQuad (c01 c23 c02 : Sym) (x0 x1 x2 x3 : V) : V × V × V × V :=
  let y0 := add x0 (smul c02 x2)
  let y2 := add x2 y0
  let y1 := add x1 (smul c02 x3)
  let y3 := add x3 y1
  let z0 := add y0 (smul c01 y1)
  let z1 := add y1 z0
  let z2 := add y2 (smul c23 y3)
  let z3 := add y3 z2
  (z0, z1, z2, z3)

/-- the four outputs of `ifft_butterfly_two_layers` as values -/
def ifftQuad (c01 c23 c02 : Sym) (x0 x1 x2 x3 : V) : V × V × V × V :=
  let y1 := add x1 x0
  let y0 := add x0 (smul c01 y1)
  let y3 := add x3 x2
  let y2 := add x2 (smul c23 y3)
  let z2 := add y2 y0
  let z0 := add y0 (smul c02 z2)
  let z3 := add y3 y1
  let z1 := add y1 (smul c02 z3)
  (z0, z1, z2, z3)

theorem fftTwoF_at (c01 c23 c02 : Sym) (f : Nat → V) (x0 x1 x2 x3 q : Nat)
    (h01 : x0 ≠ x1) (h02 : x0 ≠ x2) (h03 : x0 ≠ x3) (h12 : x1 ≠ x2) (h13 : x1 ≠ x3) (h23 : x2 ≠ x3) :
    fbF c23 (fbF c01 (fbF c02 (fbF c02 f x0 x2) x1 x3) x0 x1) x2 x3 q =
      if q = x3 then (fftQuad c01 c23 c02 (f x0) (f x1) (f x2) (f x3)).2.2.2
      else if q = x2 then (fftQuad c01 c23 c02 (f x0) (f x1) (f x2) (f x3)).2.2.1
      else if q = x1 then (fftQuad c01 c23 c02 (f x0) (f x1) (f x2) (f x3)).2.1
      else if q = x0 then (fftQuad c01 c23 c02 (f x0) (f x1) (f x2) (f x3)).1
      else f q := by
  have h10 := h01.symm; have h20 := h02.symm; have h30 := h03.symm
  have h21 := h12.symm; have h31 := h13.symm; have h32 := h23.symm
  simp only [fbF, fftQuad]
  by_cases q3 : q = x3
  · subst q3; simp [*]
  · by_cases q2 : q = x2
    · subst q2; simp [*]
    · by_cases q1 : q = x1
      · subst q1; simp [*]
      · by_cases q0 : q = x0
        · subst q0; simp [*]
        · simp [*]

theorem ifftTwoF_at (c01 c23 c02 : Sym) (f : Nat → V) (x0 x1 x2 x3 q : Nat)
    (h01 : x0 ≠ x1) (h02 : x0 ≠ x2) (h03 : x0 ≠ x3) (h12 : x1 ≠ x2) (h13 : x1 ≠ x3) (h23 : x2 ≠ x3) :
    ibF c02 (ibF c02 (ibF c23 (ibF c01 f x0 x1) x2 x3) x0 x2) x1 x3 q =
      if q = x3 then (ifftQuad c01 c23 c02 (f x0) (f x1) (f x2) (f x3)).2.2.2
      else if q = x2 then (ifftQuad c01 c23 c02 (f x0) (f x1) (f x2) (f x3)).2.2.1
      else if q = x1 then (ifftQuad c01 c23 c02 (f x0) (f x1) (f x2) (f x3)).2.1
      else if q = x0 then (ifftQuad c01 c23 c02 (f x0) (f x1) (f x2) (f x3)).1
      else f q := by
  have h10 := h01.symm; have h20 := h02.symm; have h30 := h03.symm
  have h21 := h12.symm; have h31 := h13.symm; have h32 := h23.symm
  simp only [ibF, ifftQuad]
  by_cases q3 : q = x3
  · subst q3; simp [*]
  · by_cases q2 : q = x2
    · subst q2; simp [*]
    · by_cases q1 : q = x1
      · subst q1; simp [*]
      · by_cases q0 : q = x0
        · subst q0; simp [*]
        · simp [*]

/-- four writes at four in-range positions, read back -/
theorem rd_set4 (A : Array V) (x0 x1 x2 x3 : Nat) (v0 v1 v2 v3 : V) (q : Nat) (hq : q < A.size) :
    rd ((((A.setIfInBounds x0 v0).setIfInBounds x1 v1).setIfInBounds x2 v2).setIfInBounds x3 v3) q =
      if q = x3 then v3 else if q = x2 then v2 else if q = x1 then v1 else if q = x0 then v0
      else rd A q := by
  rw [fl_rd_setIfInBounds, fl_rd_setIfInBounds, fl_rd_setIfInBounds, fl_rd_setIfInBounds]
  simp only [Array.size_setIfInBounds]
  by_cases q3 : q = x3
  · rw [if_pos ⟨q3.symm, hq⟩, if_pos q3]
  · rw [if_neg (fun h => q3 h.1.symm), if_neg q3]
    by_cases q2 : q = x2
    · rw [if_pos ⟨q2.symm, hq⟩, if_pos q2]
    · rw [if_neg (fun h => q2 h.1.symm), if_neg q2]
      by_cases q1 : q = x1
      · rw [if_pos ⟨q1.symm, hq⟩, if_pos q1]
      · rw [if_neg (fun h => q1 h.1.symm), if_neg q1]
        by_cases q0 : q = x0
        · rw [if_pos ⟨q0.symm, hq⟩, if_pos q0]
        · rw [if_neg (fun h => q0 h.1.symm), if_neg q0]

/-- `fftTwoLayers` of Model/EngineSeq.lean writes the four values `fftQuad` -/
theorem fftTwoLayers_sets (c01 c23 c02 : Sym) (A : Array V) (p dist : Nat) (hd : 0 < dist)
    (hp : p + 3 * dist < A.size) :
    fftTwoLayers c01 c23 c02 A p dist =
      (((A.setIfInBounds p
          (fftQuad c01 c23 c02 (rd A p) (rd A (p + dist)) (rd A (p + 2 * dist)) (rd A (p + 3 * dist))).1
        ).setIfInBounds (p + dist)
          (fftQuad c01 c23 c02 (rd A p) (rd A (p + dist)) (rd A (p + 2 * dist)) (rd A (p + 3 * dist))).2.1
        ).setIfInBounds (p + 2 * dist)
          (fftQuad c01 c23 c02 (rd A p) (rd A (p + dist)) (rd A (p + 2 * dist)) (rd A (p + 3 * dist))).2.2.1
        ).setIfInBounds (p + 3 * dist)
          (fftQuad c01 c23 c02 (rd A p) (rd A (p + dist)) (rd A (p + 2 * dist)) (rd A (p + 3 * dist))).2.2.2 := by
  obtain ⟨hs, hrd⟩ := fftTwoLayers_transfer c01 c23 c02 A p dist hd hp
  apply ext_rd_lt
  · rw [hs]; simp only [Array.size_setIfInBounds]
  · intro q hq
    simp only [Array.size_setIfInBounds] at hq
    rw [hrd, rd_set4 _ _ _ _ _ _ _ _ _ _ hq]
    unfold fftTwoF
    exact fftTwoF_at c01 c23 c02 (rd A) p (p + dist) (p + 2 * dist) (p + 3 * dist) q
      (by omega) (by omega) (by omega) (by omega) (by omega) (by omega)

theorem ifftTwoLayers_sets (c01 c23 c02 : Sym) (A : Array V) (p dist : Nat) (hd : 0 < dist)
    (hp : p + 3 * dist < A.size) :
    ifftTwoLayers c01 c23 c02 A p dist =
      (((A.setIfInBounds p
          (ifftQuad c01 c23 c02 (rd A p) (rd A (p + dist)) (rd A (p + 2 * dist)) (rd A (p + 3 * dist))).1
        ).setIfInBounds (p + dist)
          (ifftQuad c01 c23 c02 (rd A p) (rd A (p + dist)) (rd A (p + 2 * dist)) (rd A (p + 3 * dist))).2.1
        ).setIfInBounds (p + 2 * dist)
          (ifftQuad c01 c23 c02 (rd A p) (rd A (p + dist)) (rd A (p + 2 * dist)) (rd A (p + 3 * dist))).2.2.1
        ).setIfInBounds (p + 3 * dist)
          (ifftQuad c01 c23 c02 (rd A p) (rd A (p + dist)) (rd A (p + 2 * dist)) (rd A (p + 3 * dist))).2.2.2 := by
  obtain ⟨hs, hrd⟩ := ifftTwoLayers_transfer c01 c23 c02 A p dist hd hp
  apply ext_rd_lt
  · rw [hs]; simp only [Array.size_setIfInBounds]
  · intro q hq
    simp only [Array.size_setIfInBounds] at hq
    rw [hrd, rd_set4 _ _ _ _ _ _ _ _ _ _ hq]
    unfold ifftTwoF
    exact ifftTwoF_at c01 c23 c02 (rd A) p (p + dist) (p + 2 * dist) (p + 3 * dist) q
      (by omega) (by omega) (by omega) (by omega) (by omega) (by omega)

end quad

namespace Flat

/-- `fft_butterfly_two_layers` through `dist4_mut` refines `fftTwoLayers` -/
theorem fftTwoLayers4O_refines (c01 c23 c02 : Sym) (f : Flat) (hwf : f.WF) (hn : 0 < f.len64)
    (p dist : Nat) (hd : 0 < dist) (hp : p + 3 * dist < f.count) :
    ∃ f', fftTwoLayers4O c01 c23 c02 f p dist = some f' ∧ f'.count = f.count ∧
      f'.len64 = f.len64 ∧ f'.WF ∧ f'.absAt f.len64 = fftTwoLayers c01 c23 c02 f.absV p dist := by
  obtain ⟨Q, hQ⟩ : ∃ Q, Q = fftQuad c01 c23 c02 (rd f.absV p) (rd f.absV (p + dist))
      (rd f.absV (p + 2 * dist)) (rd f.absV (p + 3 * dist)) := ⟨_, rfl⟩
  obtain ⟨hv, hw, ha⟩ := butterfly4_refines f hwf hn p dist hd hp Q.1 Q.2.1 Q.2.2.1 Q.2.2.2
  refine ⟨f.putDist4 p dist Q.1.toArray Q.2.1.toArray Q.2.2.1.toArray Q.2.2.2.toArray, ?_, rfl, rfl,
    hw, ?_⟩
  · unfold fftTwoLayers4O
    rw [hv, Option.bind_some, hQ]
    simp only [fftQuad, ← bvec_smul_toArray, ← bvec_add_toArray]
  · rw [ha, fftTwoLayers_sets c01 c23 c02 f.absV p dist hd (by rw [absV_size]; exact hp), ← hQ]

theorem ifftTwoLayers4O_refines (c01 c23 c02 : Sym) (f : Flat) (hwf : f.WF) (hn : 0 < f.len64)
    (p dist : Nat) (hd : 0 < dist) (hp : p + 3 * dist < f.count) :
    ∃ f', ifftTwoLayers4O c01 c23 c02 f p dist = some f' ∧ f'.count = f.count ∧
      f'.len64 = f.len64 ∧ f'.WF ∧ f'.absAt f.len64 = ifftTwoLayers c01 c23 c02 f.absV p dist := by
  obtain ⟨Q, hQ⟩ : ∃ Q, Q = ifftQuad c01 c23 c02 (rd f.absV p) (rd f.absV (p + dist))
      (rd f.absV (p + 2 * dist)) (rd f.absV (p + 3 * dist)) := ⟨_, rfl⟩
  obtain ⟨hv, hw, ha⟩ := butterfly4_refines f hwf hn p dist hd hp Q.1 Q.2.1 Q.2.2.1 Q.2.2.2
  refine ⟨f.putDist4 p dist Q.1.toArray Q.2.1.toArray Q.2.2.1.toArray Q.2.2.2.toArray, ?_, rfl, rfl,
    hw, ?_⟩
  · unfold ifftTwoLayers4O
    rw [hv, Option.bind_some, hQ]
    simp only [ifftQuad, ← bvec_smul_toArray, ← bvec_add_toArray]
  · rw [ha, ifftTwoLayers_sets c01 c23 c02 f.absV p dist hd (by rw [absV_size]; exact hp), ← hQ]

theorem fftTwoLayers4O_quad {n cnt : Nat} (hn : 0 < n) :
    QuadRefines n cnt fftTwoLayers4O fftTwoLayers := by
  intro c01 c23 c02 f A hr p dist hd hp
  obtain ⟨hwf, hl, hc, ha⟩ := hr
  subst hl; subst hc; subst ha
  obtain ⟨f', h1, h2, h3, h4, h5⟩ := fftTwoLayers4O_refines c01 c23 c02 f hwf hn p dist hd hp
  exact ⟨f', h1, rep_of_refines h2 h3 h4 h5⟩

theorem ifftTwoLayers4O_quad {n cnt : Nat} (hn : 0 < n) :
    QuadRefines n cnt ifftTwoLayers4O ifftTwoLayers := by
  intro c01 c23 c02 f A hr p dist hd hp
  obtain ⟨hwf, hl, hc, ha⟩ := hr
  subst hl; subst hc; subst ha
  obtain ⟨f', h1, h2, h3, h4, h5⟩ := ifftTwoLayers4O_refines c01 c23 c02 f hwf hn p dist hd hp
  exact ⟨f', h1, rep_of_refines h2 h3 h4 h5⟩

/-! the abstraction is injective on well-formed memories -/

theorem rep_inj {n c : Nat} {f g : Flat} {A : Array (BVec n)} (hn : 0 < n) (hf : Rep n c f A)
    (hg : Rep n c g A) : f = g := by
  obtain ⟨fw, fl, fc, fa⟩ := hf
  obtain ⟨gw, gl, gc, ga⟩ := hg
  have fs : f.data.size = f.count * n := by rw [fw, fl]
  have gs : g.data.size = g.count * n := by rw [gw, gl]
  have hfg : f.absAt n = g.absAt n := fa.trans ga.symm
  have hdat : f.data = g.data := by
    apply Array.ext (by rw [fs, gs, fc, gc])
    intro j h1 h2
    have hm : j % n < n := Nat.mod_lt _ hn
    have e : j / n * n + j % n = j := Nat.div_add_mod' j n
    have h3 := absAt_rd n f fs (j / n) (j % n) hm
    have h4 := absAt_rd n g gs (j / n) (j % n) hm
    rw [e] at h3 h4
    rw [arr_getD_lt _ _ h1] at h3
    rw [arr_getD_lt _ _ h2] at h4
    rw [← h3, ← h4, hfg]
  cases f
  cases g
  simp_all

/-- the four-point butterfly through ONE `dist4_mut` is the four `dist2_mut` butterflies -/
theorem fftTwoLayers4O_eq (c01 c23 c02 : Sym) (f : Flat) (hwf : f.WF) (hn : 0 < f.len64)
    (p dist : Nat) (hd : 0 < dist) (hp : p + 3 * dist < f.count) :
    fftTwoLayers4O c01 c23 c02 f p dist = fftTwoLayersO c01 c23 c02 f p dist := by
  obtain ⟨f1, h1, r1⟩ := fftTwoLayers4O_quad hn c01 c23 c02 f _ (rep_self f hwf) p dist hd hp
  obtain ⟨f2, h2, r2⟩ := fftTwoLayersO_rep c01 c23 c02 hn (rep_self f hwf) p dist hd hp
  rw [h1, h2, rep_inj hn r1 r2]

theorem ifftTwoLayers4O_eq (c01 c23 c02 : Sym) (f : Flat) (hwf : f.WF) (hn : 0 < f.len64)
    (p dist : Nat) (hd : 0 < dist) (hp : p + 3 * dist < f.count) :
    ifftTwoLayers4O c01 c23 c02 f p dist = ifftTwoLayersO c01 c23 c02 f p dist := by
  obtain ⟨f1, h1, r1⟩ := ifftTwoLayers4O_quad hn c01 c23 c02 f _ (rep_self f hwf) p dist hd hp
  obtain ⟨f2, h2, r2⟩ := ifftTwoLayersO_rep c01 c23 c02 hn (rep_self f hwf) p dist hd hp
  rw [h1, h2, rep_inj hn r1 r2]

end Flat

/-- **`fft_private` with the Rust's own view function** (`dist4_mut` per radix-4 group): no panic,
    refines `twoFftSeq`, and is the same memory as `flatTwoFft` -/
theorem flatTwoFft4_refines (f : Flat) (hwf : f.WF) (hn : 0 < f.len64) (pos n trunc delta : Nat)
    (ht : trunc ≤ 2 ^ n) (hp : pos + 2 ^ n ≤ f.count) :
    ∃ f', flatTwoFft4 f pos n trunc delta = some f' ∧ f'.WF ∧ f'.count = f.count ∧
      f'.len64 = f.len64 ∧ f'.absAt f.len64 = twoFftSeq f.absV pos n trunc delta := by
  obtain ⟨f', h1, r⟩ := Flat.twoFftO_rep hn Flat.fftTwoLayers4O (Flat.fftTwoLayers4O_quad hn)
    pos n trunc delta ht hp (Flat.rep_self f hwf)
  exact ⟨f', h1, Flat.of_rep r⟩

theorem flatTwoFft4_eq (f : Flat) (hwf : f.WF) (hn : 0 < f.len64) (pos n trunc delta : Nat)
    (ht : trunc ≤ 2 ^ n) (hp : pos + 2 ^ n ≤ f.count) :
    flatTwoFft4 f pos n trunc delta = flatTwoFft f pos n trunc delta := by
  obtain ⟨f1, h1, r1⟩ := Flat.twoFftO_rep hn Flat.fftTwoLayers4O (Flat.fftTwoLayers4O_quad hn)
    pos n trunc delta ht hp (Flat.rep_self f hwf)
  obtain ⟨f2, h2, r2⟩ := Flat.twoFftO_rep hn Flat.fftTwoLayersO
    (fun c01 c23 c02 f A hr p d hd hp => Flat.fftTwoLayersO_rep c01 c23 c02 hn hr p d hd hp)
    pos n trunc delta ht hp (Flat.rep_self f hwf)
  unfold flatTwoFft4 flatTwoFft
  rw [h1, h2, Flat.rep_inj hn r1 r2]

end RS

/-! ## Part 1, continued: the FINAL ODD LAYER of `ifft_private` as written

  `split_at_mut(pos + dist)` + `IndexMut` on the two halves (or `xor_within` when
  `log_m == GF_MODULUS`) is the run of `dist2_mut` butterflies of `twoIfftSeq`. -/

namespace RS
open SeqEq ShardAlg

/-! ### slices of `as ++ bs` -/

theorem arr_ext_getD (a b : Array Block) (hs : a.size = b.size)
    (h : ∀ j, j < a.size → a.getD j zeroBlock = b.getD j zeroBlock) : a = b := by
  apply Array.ext hs
  intro j h1 h2
  have := h j h1
  rw [arr_getD_lt _ _ h1, arr_getD_lt _ _ h2] at this
  exact this

theorem append_getD (as bs : Array Block) (j : Nat) :
    (as ++ bs).getD j zeroBlock =
      if j < as.size then as.getD j zeroBlock else bs.getD (j - as.size) zeroBlock := by
  rw [Array.getD_eq_getD_getElem?, Array.getElem?_append]
  by_cases h : j < as.size
  · rw [if_pos h, if_pos h, Array.getD_eq_getD_getElem?]
  · rw [if_neg h, if_neg h, Array.getD_eq_getD_getElem?]

theorem extract_append_left' (as bs : Array Block) (lo hi : Nat) (h : hi ≤ as.size) :
    (as ++ bs).extract lo hi = as.extract lo hi := by
  apply arr_ext_getD
  · rw [Array.size_extract, Array.size_extract, Array.size_append]; omega
  · intro j hj
    rw [extract_getD, extract_getD, Array.size_append]
    have e : min hi (as.size + bs.size) = min hi as.size := by omega
    rw [e]
    by_cases hk : j < min hi as.size - lo
    · rw [if_pos hk, if_pos hk, append_getD, if_pos (by omega)]
    · rw [if_neg hk, if_neg hk]

theorem extract_append_right' (as bs : Array Block) (lo hi : Nat) :
    (as ++ bs).extract (as.size + lo) (as.size + hi) = bs.extract lo hi := by
  apply arr_ext_getD
  · rw [Array.size_extract, Array.size_extract, Array.size_append]; omega
  · intro j hj
    rw [extract_getD, extract_getD, Array.size_append]
    by_cases hk : j < min hi bs.size - lo
    · rw [if_pos (by omega), if_pos hk, append_getD, if_neg (by omega)]
      have e : as.size + lo + j - as.size = lo + j := by omega
      rw [e]
    · rw [if_neg (by omega), if_neg hk]

theorem extract_append_extract' (d : Array Block) (m : Nat) (hm : m ≤ d.size) :
    d.extract 0 m ++ d.extract m d.size = d := by
  have s1 : (d.extract 0 m).size = m := by rw [Array.size_extract]; omega
  apply arr_ext_getD
  · rw [Array.size_append, Array.size_extract, Array.size_extract]; omega
  · intro j hj
    rw [Array.size_append, Array.size_extract, Array.size_extract] at hj
    rw [append_getD, s1]
    by_cases h : j < m
    · rw [if_pos h, extract_getD, if_pos (by omega), Nat.zero_add]
    · rw [if_neg h, extract_getD, if_pos (by omega)]
      have e : m + (j - m) = j := by omega
      rw [e]

theorem writeAt_append_left (as bs : Array Block) (off : Nat) (s : Array Block)
    (h : off + s.size ≤ as.size) : writeAt (as ++ bs) off s = writeAt as off s ++ bs := by
  apply arr_ext_getD
  · rw [writeAt_size, Array.size_append, Array.size_append, writeAt_size]
  · intro j hj
    rw [writeAt_size, Array.size_append] at hj
    rw [writeAt_getD, append_getD (writeAt as off s) bs, writeAt_size, writeAt_getD, Array.size_append,
      append_getD as bs]
    by_cases hw : off ≤ j ∧ j < off + s.size
    · rw [if_pos ⟨hw.1, hw.2, by omega⟩, if_pos (by omega), if_pos ⟨hw.1, hw.2, by omega⟩]
    · rw [if_neg (fun c => hw ⟨c.1, c.2.1⟩)]
      by_cases hj2 : j < as.size
      · rw [if_pos hj2, if_pos hj2, if_neg (fun c => hw ⟨c.1, c.2.1⟩)]
      · rw [if_neg hj2, if_neg hj2]

theorem writeAt_append_right (as bs : Array Block) (off : Nat) (s : Array Block) :
    writeAt (as ++ bs) (as.size + off) s = as ++ writeAt bs off s := by
  apply arr_ext_getD
  · rw [writeAt_size, Array.size_append, Array.size_append, writeAt_size]
  · intro j hj
    rw [writeAt_size, Array.size_append] at hj
    rw [writeAt_getD, append_getD as (writeAt bs off s), writeAt_getD, Array.size_append,
      append_getD as bs]
    by_cases hj2 : j < as.size
    · rw [if_neg (by omega), if_pos hj2, if_pos hj2]
    · rw [if_neg hj2, if_neg hj2]
      by_cases hw : off ≤ j - as.size ∧ j - as.size < off + s.size
      · rw [if_pos ⟨by omega, by omega, by omega⟩, if_pos ⟨hw.1, hw.2, by omega⟩]
        have e : j - (as.size + off) = j - as.size - off := by omega
        rw [e]
      · rw [if_neg (fun c => hw ⟨by omega, by omega⟩), if_neg (fun c => hw ⟨c.1, c.2.1⟩)]

namespace Flat

/-! ### the two halves of `split_at_mut` and the whole -/

theorem join_wf (a b : Flat) (ha : a.WF) (hb : b.WF) (hl : b.len64 = a.len64) : (join a b).WF := by
  show (a.data ++ b.data).size = (a.count + b.count) * a.len64
  rw [Array.size_append, ha, hb, hl, Nat.add_mul]

theorem join_shard_left (a b : Flat) (i : Nat) (h : (i + 1) * a.len64 ≤ a.data.size) :
    (join a b).shard i = a.shard i := by
  show sliceRange (a.data ++ b.data) (i * a.len64) ((i + 1) * a.len64)
    = sliceRange a.data (i * a.len64) ((i + 1) * a.len64)
  have h0 : i * a.len64 ≤ (i + 1) * a.len64 := Nat.mul_le_mul_right _ (Nat.le_succ i)
  unfold sliceRange
  rw [extract_append_left' _ _ _ _ h, Array.size_append, if_pos ⟨h0, by omega⟩, if_pos ⟨h0, h⟩]

theorem join_shard_right (a b : Flat) (ha : a.WF) (hl : b.len64 = a.len64) (i : Nat) :
    (join a b).shard (a.count + i) = b.shard i := by
  show sliceRange (a.data ++ b.data) ((a.count + i) * a.len64) ((a.count + i + 1) * a.len64)
    = sliceRange b.data (i * b.len64) ((i + 1) * b.len64)
  have e1 : (a.count + i) * a.len64 = a.data.size + i * a.len64 := by rw [ha, Nat.add_mul]
  have e2 : (a.count + i + 1) * a.len64 = a.data.size + (i + 1) * a.len64 := by
    rw [ha, Nat.add_assoc, Nat.add_mul]
  rw [hl, e1, e2]
  unfold sliceRange
  rw [extract_append_right', Array.size_append]
  by_cases h : i * a.len64 ≤ (i + 1) * a.len64 ∧ (i + 1) * a.len64 ≤ b.data.size
  · rw [if_pos h, if_pos ⟨by omega, by omega⟩]
  · rw [if_neg h, if_neg (fun c => h ⟨by omega, by omega⟩)]

theorem join_setShard_left (a b : Flat) (i : Nat) (x : Array Block)
    (h : i * a.len64 + x.size ≤ a.data.size) :
    join (a.setShard i x) b = (join a b).setShard i x := by
  show (⟨a.count + b.count, a.len64, writeAt a.data (i * a.len64) x ++ b.data⟩ : Flat)
    = ⟨a.count + b.count, a.len64, writeAt (a.data ++ b.data) (i * a.len64) x⟩
  rw [writeAt_append_left _ _ _ _ h]

theorem join_setShard_right (a b : Flat) (ha : a.WF) (hl : b.len64 = a.len64) (i : Nat)
    (y : Array Block) : join a (b.setShard i y) = (join a b).setShard (a.count + i) y := by
  show (⟨a.count + b.count, a.len64, a.data ++ writeAt b.data (i * b.len64) y⟩ : Flat)
    = ⟨a.count + b.count, a.len64, writeAt (a.data ++ b.data) ((a.count + i) * a.len64) y⟩
  have e1 : (a.count + i) * a.len64 = a.data.size + i * a.len64 := by rw [ha, Nat.add_mul]
  rw [hl, e1, writeAt_append_right]

theorem splitAt_join (f : Flat) (hwf : f.WF) (mid : Nat) (hm : mid ≤ f.count) :
    ∃ l r, f.splitAt mid = some (l, r) ∧ l.WF ∧ r.WF ∧ l.len64 = f.len64 ∧ r.len64 = f.len64 ∧
      l.count = mid ∧ r.count = f.count - mid ∧ join l r = f := by
  have h1 : mid * f.len64 ≤ f.data.size := by rw [hwf]; exact Nat.mul_le_mul_right _ hm
  have h2 : mid * f.len64 + (f.count - mid) * f.len64 = f.count * f.len64 := by
    rw [← Nat.add_mul]; congr 1; omega
  refine ⟨_, _, splitAt_eq f hwf mid hm, ?_, ?_, rfl, rfl, rfl, rfl, ?_⟩
  · show (f.data.extract 0 (mid * f.len64)).size = mid * f.len64
    rw [extract_size_of_le _ h1]; omega
  · show (f.data.extract (mid * f.len64) (f.count * f.len64)).size = (f.count - mid) * f.len64
    rw [extract_size_of_le _ (by rw [hwf]; exact Nat.le_refl _)]; omega
  · show (⟨mid + (f.count - mid), f.len64,
        f.data.extract 0 (mid * f.len64) ++ f.data.extract (mid * f.len64) (f.count * f.len64)⟩ : Flat)
      = f
    have e : mid + (f.count - mid) = f.count := by omega
    rw [e, ← hwf, extract_append_extract' _ _ h1]

theorem setShard_setShard (g : Flat) (p d : Nat) (x y : Array Block) :
    (g.setShard p x).setShard (p + d) y = g.putDist2 p d x y := by
  show (⟨g.count, g.len64, writeAt (writeAt g.data (p * g.len64) x) ((p + d) * g.len64) y⟩ : Flat)
    = ⟨g.count, g.len64, writeAt (writeAt g.data (p * g.len64) x) (p * g.len64 + d * g.len64) y⟩
  rw [Nat.add_mul]

/-- the ifft butterfly through `dist2_mut` in terms of the two shards taken by `IndexMut` -/
theorem ifftBfly_via_shards (c : Sym) (g : Flat) (hwf : g.WF) (hn : 0 < g.len64) (p d : Nat)
    (hd : 0 < d) (hp : p + d < g.count) (x y : Array Block) (hx : g.shard p = some x)
    (hy : g.shard (p + d) = some y) :
    g.ifftBfly c p d =
      some ((g.setShard p (bXor x (bMul (gmul c) (bXor y x)))).setShard (p + d) (bXor y x)) := by
  rw [shard_eq g hwf p (by omega)] at hx
  rw [shard_eq g hwf (p + d) hp] at hy
  injection hx with hx
  injection hy with hy
  subst hx; subst hy
  unfold Flat.ifftBfly
  rw [dist2_eq g hwf hn p d hd hp, Option.bind_some, setShard_setShard]

theorem shard_size (a : Flat) (hwf : a.WF) (i : Nat) (hi : i < a.count) (x : Array Block)
    (hx : a.shard i = some x) : x.size = a.len64 := by
  rw [shard_eq a hwf i hi] at hx
  injection hx with hx
  subst hx
  rw [abs_getElem]
  exact shard_extract_size a hwf i hi

/-- the loop invariant of the split loop: the two halves are well-formed views whose join is `g` -/
def SplitRel (mid dist : Nat) (ab : Flat × Flat) (g : Flat) : Prop :=
  ab.1.WF ∧ ab.2.WF ∧ ab.2.len64 = ab.1.len64 ∧ 0 < ab.1.len64 ∧ ab.1.count = mid ∧
    dist ≤ ab.2.count ∧ g = join ab.1 ab.2

/-- one iteration of the split loop is one `dist2_mut` ifft butterfly on the whole memory -/
theorem split_step (c : Sym) (pos dist i : Nat) (hi : i < dist) (ab : Flat × Flat) (g : Flat)
    (hR : SplitRel (pos + dist) dist ab g) :
    ∃ ab' g', ((ab.1.shard (pos + i)).bind fun x =>
        (ab.2.shard i).bind fun y =>
          some (ab.1.setShard (pos + i) (bXor x (bMul (gmul c) (bXor y x))),
            ab.2.setShard i (bXor y x))) = some ab' ∧
      g.ifftBfly c (pos + i) dist = some g' ∧ SplitRel (pos + dist) dist ab' g' := by
  obtain ⟨a, b⟩ := ab
  obtain ⟨ha, hb, hl, hn, hc, hd, hg⟩ := hR
  simp only at ha hb hl hn hc hd hg ⊢
  have hia : pos + i < a.count := by omega
  have hib : i < b.count := by omega
  have hgw : g.WF := by rw [hg]; exact join_wf a b ha hb hl
  have hgl : g.len64 = a.len64 := by rw [hg]; rfl
  have hgc : g.count = a.count + b.count := by rw [hg]; rfl
  have hxa := shard_eq a ha (pos + i) hia
  have hyb := shard_eq b hb i hib
  have hle : (pos + i + 1) * a.len64 ≤ a.data.size := by rw [ha]; exact Nat.mul_le_mul_right _ hia
  have hxg : g.shard (pos + i) = some (a.abs[pos + i]'(by rw [abs_size]; exact hia)) := by
    rw [hg, join_shard_left a b (pos + i) hle, hxa]
  have hyg : g.shard (pos + i + dist) = some (b.abs[i]'(by rw [abs_size]; exact hib)) := by
    have e : pos + i + dist = a.count + i := by omega
    rw [e, hg, join_shard_right a b ha hl i, hyb]
  have hxs := shard_size a ha (pos + i) hia _ hxa
  refine ⟨_, _, by rw [hxa, Option.bind_some, hyb, Option.bind_some],
    ifftBfly_via_shards c g hgw (by rw [hgl]; exact hn) (pos + i) dist (by omega)
      (by rw [hgc]; omega) _ _ hxg hyg,
    setShard_wf a ha _ _, setShard_wf b hb _ _, hl, hn, hc, hd, ?_⟩
  show (g.setShard (pos + i) _).setShard (pos + i + dist) _ = join (a.setShard (pos + i) _) (b.setShard i _)
  have hwa : (a.setShard (pos + i) (bXor (a.abs[pos + i]'(by rw [abs_size]; exact hia))
      (bMul (gmul c) (bXor (b.abs[i]'(by rw [abs_size]; exact hib))
        (a.abs[pos + i]'(by rw [abs_size]; exact hia)))))).WF := setShard_wf a ha _ _
  rw [join_setShard_right _ b hwa hl i, join_setShard_left a b (pos + i) _ (by
    rw [bXor_size, hxs]
    have := hle
    rw [fl_succ_mul] at this
    exact this), hg]
  have e : pos + i + dist = a.count + i := by omega
  rw [e]
  rfl

theorem split_loop (c : Sym) (pos dist : Nat) (L : List Nat) (hL : ∀ i, i ∈ L → i < dist)
    (ab : Flat × Flat) (g : Flat) (hR : SplitRel (pos + dist) dist ab g) :
    ∃ ab' g', foldO (fun (ab : Flat × Flat) i =>
        (ab.1.shard (pos + i)).bind fun x =>
        (ab.2.shard i).bind fun y =>
          let y := bXor y x
          let x := bXor x (bMul (gmul c) y)
          some (ab.1.setShard (pos + i) x, ab.2.setShard i y)) L ab = some ab' ∧
      foldO (fun g i => g.ifftBfly c (pos + i) dist) L g = some g' ∧
      SplitRel (pos + dist) dist ab' g' := by
  induction L generalizing ab g with
  | nil => exact ⟨ab, g, rfl, rfl, hR⟩
  | cons i L ih =>
    obtain ⟨ab1, g1, h1, h2, R1⟩ := split_step c pos dist i (hL i (List.mem_cons_self ..)) ab g hR
    obtain ⟨ab2, g2, h3, h4, R2⟩ := ih (fun j hj => hL j (List.mem_cons_of_mem _ hj)) ab1 g1 R1
    refine ⟨ab2, g2, ?_, ?_, R2⟩
    · rw [foldO_cons]
      simp only []
      rw [h1, Option.bind_some, h3]
    · rw [foldO_cons, h2, Option.bind_some, h4]

/-- **the split loop of the FINAL ODD LAYER is the run of `dist2_mut` butterflies** (same memory) -/
theorem ifftLastSplitO_eq (c : Sym) (f : Flat) (hwf : f.WF) (hn : 0 < f.len64) (pos dist : Nat)
    (hs : pos + 2 * dist ≤ f.count) :
    ifftLastSplitO c pos dist f = bflyRunO (fun f p d => f.ifftBfly c p d) f pos 0 dist := by
  obtain ⟨l, r, h1, lw, rw', ll, rl, lc, rc, hj⟩ := splitAt_join f hwf (pos + dist) (by omega)
  obtain ⟨ab', g', h2, h3, R⟩ := split_loop c pos dist (List.range dist)
    (fun i hi => List.mem_range.1 hi) (l, r) f
    ⟨lw, rw', by rw [rl, ll], by rw [ll]; exact hn, lc, by rw [rc]; omega, hj.symm⟩
  unfold ifftLastSplitO bflyRunO
  simp only [Nat.add_zero]
  rw [h1, Option.bind_some, h2, Option.bind_some, h3, R.2.2.2.2.2.2]

end Flat

end RS

namespace RS
open SeqEq ShardAlg

/-- with the twiddle `0` (`log_m == GF_MODULUS`) the run of ifft butterflies is
    `xor_within(data, pos + dist, pos, dist)` -/
theorem xorWithin_eq_ifftRun {V : Type} [ShardAlg V] (h0 : ∀ v : V, smul 0 v = zero)
    (hz : ∀ v : V, add v zero = v) (A : Array V) (pos dist : Nat) (hs : pos + 2 * dist ≤ A.size) :
    RS.xorWithin A (pos + dist) pos dist = bflyRun (RS.ifftBfly 0) A pos 0 dist := by
  obtain ⟨s1, r1⟩ := bflyRun_transfer (RS.ifftBfly 0) (ibF 0) (ifftBfly_transfer 0) A pos 0 dist
    (by omega)
  obtain ⟨sp, lo⟩ := runF_spec (ibF (V := V) 0) (ibF_local 0) (rd A) pos 0 dist
  apply ext_rd_lt
  · rw [fl_xorWithin_size _ _ _ _ (Or.inr (by omega)), s1]
  · intro q hq
    rw [s1] at hq
    rw [fl_rd_xorWithin _ _ _ _ (Or.inr (by omega)) hq, r1]
    by_cases h1 : pos + dist ≤ q ∧ q < pos + dist + dist
    · rw [if_pos h1]
      obtain ⟨i, rfl⟩ : ∃ i, q = pos + 0 + i + dist := ⟨q - pos - dist, by omega⟩
      rw [sp i (by omega) _ (Or.inr rfl)]
      have e2 : pos + (pos + 0 + i + dist - (pos + dist)) = pos + 0 + i := by omega
      unfold ibF
      rw [if_neg (by omega), if_pos rfl, e2]
    · rw [if_neg h1]
      by_cases h2 : pos ≤ q ∧ q < pos + dist
      · obtain ⟨i, rfl⟩ : ∃ i, q = pos + 0 + i := ⟨q - pos, by omega⟩
        rw [sp i (by omega) _ (Or.inl rfl)]
        unfold ibF
        rw [if_pos rfl, h0, hz]
      · exact (lo.1 (rd A) q (by omega)).symm

theorem blockMul_zero (b : Block) : blockMul (gmul 0#16) b = zeroBlock := by
  have h0 : ∀ a : Sym, gmul 0#16 a = 0#16 := gmul_zero_left
  apply Vector.ext
  intro j hj
  simp [blockMul, h0, zeroBlock]

theorem blockXor_zero (b : Block) : blockXor b zeroBlock = b := by
  apply Vector.ext
  intro j hj
  simp [blockXor, zeroBlock]

theorem bvec_zero_smul {n : Nat} (x : BVec n) : smul 0 x = (zero : BVec n) := by
  show smul 0#16 x = (zero : BVec n)
  apply Vector.ext
  intro k hk
  simp [ShardAlg.smul, ShardAlg.zero, blockMul_zero]

theorem bvec_add_zero {n : Nat} (x : BVec n) : add x (zero : BVec n) = x := by
  apply Vector.ext
  intro k hk
  simp [ShardAlg.add, ShardAlg.zero, blockXor_zero]

namespace Flat

/-- the FINAL ODD LAYER as written in the Rust refines the run of butterflies of `twoIfftSeq` -/
theorem ifftLastRustO_last {n cnt : Nat} (hn : 0 < n) : LastRefines n cnt ifftLastRustO := by
  intro delta pos dist f A hr hd hs
  unfold ifftLastRustO
  simp only []
  by_cases hc : skewElem (dist + delta - 1) = 0
  · rw [if_pos hc, hc, ← xorWithin_eq_ifftRun bvec_zero_smul bvec_add_zero A pos dist
      (by rw [hr.size]; exact hs)]
    exact xorWithin_rep hr (pos + dist) pos dist (by omega) (by omega) (Or.inr (by omega))
  · rw [if_neg hc, ifftLastSplitO_eq _ f hr.1 (by rw [hr.2.1]; exact hn) pos dist
      (by rw [hr.2.2.1]; exact hs)]
    exact bflyRunO_rep _ _ (fun f A hr p d' hd' hp => ifftBfly_rep _ hn hr p d' hd' hp) hr pos 0 dist
      (by omega)

end Flat

/-- **`ifft_private` with the Rust's own view functions** (`dist4_mut` per radix-4 group; final odd
    layer through `xor_within` resp. `split_at_mut` + `IndexMut`): no panic, refines `twoIfftSeq` -/
theorem flatTwoIfft4_refines (f : Flat) (hwf : f.WF) (hn : 0 < f.len64) (pos n trunc delta : Nat)
    (ht : trunc ≤ 2 ^ n) (hp : pos + 2 ^ n ≤ f.count) :
    ∃ f', flatTwoIfft4 f pos n trunc delta = some f' ∧ f'.WF ∧ f'.count = f.count ∧
      f'.len64 = f.len64 ∧ f'.absAt f.len64 = twoIfftSeq f.absV pos n trunc delta := by
  obtain ⟨f', h1, r⟩ := Flat.twoIfftO_rep Flat.ifftTwoLayers4O (Flat.ifftTwoLayers4O_quad hn)
    Flat.ifftLastRustO (Flat.ifftLastRustO_last hn) pos n trunc delta ht hp (Flat.rep_self f hwf)
  exact ⟨f', h1, Flat.of_rep r⟩

/-- … and it is the same memory as `flatTwoIfft` (all butterflies through `dist2_mut`) -/
theorem flatTwoIfft4_eq (f : Flat) (hwf : f.WF) (hn : 0 < f.len64) (pos n trunc delta : Nat)
    (ht : trunc ≤ 2 ^ n) (hp : pos + 2 ^ n ≤ f.count) :
    flatTwoIfft4 f pos n trunc delta = flatTwoIfft f pos n trunc delta := by
  obtain ⟨f1, h1, r1⟩ := Flat.twoIfftO_rep Flat.ifftTwoLayers4O (Flat.ifftTwoLayers4O_quad hn)
    Flat.ifftLastRustO (Flat.ifftLastRustO_last hn) pos n trunc delta ht hp (Flat.rep_self f hwf)
  obtain ⟨f2, h2, r2⟩ := Flat.twoIfftO_rep Flat.ifftTwoLayersO
    (fun c01 c23 c02 f A hr p d hd hp => Flat.ifftTwoLayersO_rep c01 c23 c02 hn hr p d hd hp)
    Flat.ifftLastO (fun delta pos dist f A hr _ hs => Flat.ifftLastO_rep hn delta pos dist hs hr)
    pos n trunc delta ht hp (Flat.rep_self f hwf)
  unfold flatTwoIfft4 flatTwoIfft
  rw [h1, h2, Flat.rep_inj hn r1 r2]

end RS

/-! ## Part 2: utilities and whole codecs -/

namespace RS
open SeqEq

namespace Flat

/-! ### `Engine::fft` / `Engine::ifft` of the selected engine -/

theorem flatFft_rep {n cnt : Nat} (hn : 0 < n) (s : Sched) (pos e trunc delta : Nat)
    (ht : trunc ≤ 2 ^ e) (hs : pos + 2 ^ e ≤ cnt) {f : Flat} {A : Array (BVec n)}
    (hr : Rep n cnt f A) :
    ∃ f', flatFft s f pos (2 ^ e) trunc delta = some f' ∧
      Rep n cnt f' (fft s A pos (2 ^ e) trunc delta) := by
  have hA : pos + 2 ^ e ≤ A.size := by rw [hr.size]; exact hs
  cases s with
  | naive =>
    rw [← naiveFftSeq_eq A pos e trunc delta ht hA]
    unfold flatFft
    simp only [Nat.log2_two_pow]
    exact flatNaiveFft_rep hn pos e trunc delta ht hs hr
  | twoLayer =>
    rw [← twoFftSeq_eq A pos e trunc delta ht hA]
    unfold flatFft
    simp only [Nat.log2_two_pow]
    exact twoFftO_rep hn fftTwoLayers4O (fftTwoLayers4O_quad hn) pos e trunc delta ht hs hr

theorem flatIfft_rep {n cnt : Nat} (hn : 0 < n) (s : Sched) (pos e trunc delta : Nat)
    (ht : trunc ≤ 2 ^ e) (hs : pos + 2 ^ e ≤ cnt) {f : Flat} {A : Array (BVec n)}
    (hr : Rep n cnt f A) :
    ∃ f', flatIfft s f pos (2 ^ e) trunc delta = some f' ∧
      Rep n cnt f' (ifft s A pos (2 ^ e) trunc delta) := by
  have hA : pos + 2 ^ e ≤ A.size := by rw [hr.size]; exact hs
  cases s with
  | naive =>
    rw [← naiveIfftSeq_eq A pos e trunc delta ht hA]
    unfold flatIfft
    simp only [Nat.log2_two_pow]
    exact flatNaiveIfft_rep hn pos e trunc delta ht hs hr
  | twoLayer =>
    rw [← twoIfftSeq_eq A pos e trunc delta ht hA]
    unfold flatIfft
    simp only [Nat.log2_two_pow]
    exact twoIfftO_rep ifftTwoLayers4O (ifftTwoLayers4O_quad hn) ifftLastRustO
      (ifftLastRustO_last hn) pos e trunc delta ht hs hr

/-! ### a. `formal_derivative` -/

/-- `i + 2^tz(i) ≤ 2^e` for `0 < i < 2^e`: the reason `flat2_mut(i - width, i, width)` never panics
    in `formal_derivative` on a power-of-two number of shards -/
theorem fd_width_fits {e i : Nat} (he : e ≤ 63) (h0 : 0 < i) (hi : i < 2 ^ e) :
    2 ^ tz i ≤ i ∧ i + 2 ^ tz i ≤ 2 ^ e := by
  have h64 : i < 2 ^ 64 := Nat.lt_of_lt_of_le hi (Nat.pow_le_pow_right (by omega) (by omega))
  have hle := FD.two_pow_tz_le h0 h64
  have hdvd := FD.two_pow_tz_dvd h0 h64
  have hlt : tz i < e := (Nat.pow_lt_pow_iff_right (by omega : 1 < 2)).1 (by omega)
  have hdvd2 : 2 ^ tz i ∣ 2 ^ e := Nat.pow_dvd_pow 2 (by omega)
  exact ⟨hle, block_fits hdvd hdvd2 hi⟩

theorem flatFormalDerivative_rep {n cnt e : Nat} (he : e ≤ 63) (hc : cnt = 2 ^ e)
    {f : Flat} {A : Array (BVec n)} (hr : Rep n cnt f A) :
    ∃ f', flatFormalDerivative f = some f' ∧ Rep n cnt f' (formalDerivative A) := by
  unfold flatFormalDerivative formalDerivative
  rw [hr.2.2.1, hr.size]
  apply foldO_rep (List.range (cnt - 1))
    (fun f k => f.xorWithin (k + 1 - 2 ^ tz (k + 1)) (k + 1) (2 ^ tz (k + 1)))
    (fun a k => RS.xorWithin a (k + 1 - 2 ^ tz (k + 1)) (k + 1) (2 ^ tz (k + 1))) _ f A hr
  intro k hk f A hrep
  have hk' : k < cnt - 1 := List.mem_range.1 hk
  obtain ⟨h1, h2⟩ := fd_width_fits (i := k + 1) he (by omega) (by omega)
  exact xorWithin_rep hrep _ _ _ (by omega) (by omega) (Or.inl (by omega))

end Flat

/-- **`Engine::fft` of either engine family on the real flat memory** (`Naive`; `fft_private` of
    NoSimd / Ssse3 / Avx2 / Neon with `dist4_mut`): no panic, and the pointwise model `fft s` -/
theorem flatFft_refines (s : Sched) (f : Flat) (hwf : f.WF) (hn : 0 < f.len64)
    (pos e trunc delta : Nat) (ht : trunc ≤ 2 ^ e) (hp : pos + 2 ^ e ≤ f.count) :
    ∃ f', flatFft s f pos (2 ^ e) trunc delta = some f' ∧ f'.WF ∧ f'.count = f.count ∧
      f'.len64 = f.len64 ∧ f'.absAt f.len64 = fft s f.absV pos (2 ^ e) trunc delta := by
  obtain ⟨f', h1, r⟩ := Flat.flatFft_rep hn s pos e trunc delta ht hp (Flat.rep_self f hwf)
  exact ⟨f', h1, Flat.of_rep r⟩

/-- **`Engine::ifft` of either engine family on the real flat memory** -/
theorem flatIfft_refines (s : Sched) (f : Flat) (hwf : f.WF) (hn : 0 < f.len64)
    (pos e trunc delta : Nat) (ht : trunc ≤ 2 ^ e) (hp : pos + 2 ^ e ≤ f.count) :
    ∃ f', flatIfft s f pos (2 ^ e) trunc delta = some f' ∧ f'.WF ∧ f'.count = f.count ∧
      f'.len64 = f.len64 ∧ f'.absAt f.len64 = ifft s f.absV pos (2 ^ e) trunc delta := by
  obtain ⟨f', h1, r⟩ := Flat.flatIfft_rep hn s pos e trunc delta ht hp (Flat.rep_self f hwf)
  exact ⟨f', h1, Flat.of_rep r⟩

/-- **`formal_derivative` on the real flat memory** refines `formalDerivative` when the number of
    shards is a power of two (and then never panics) -/
theorem flatFormalDerivative_refines (f : Flat) (hwf : f.WF) (e : Nat) (he : e ≤ 63)
    (hc : f.count = 2 ^ e) :
    ∃ f', flatFormalDerivative f = some f' ∧ f'.WF ∧ f'.count = f.count ∧ f'.len64 = f.len64 ∧
      f'.absAt f.len64 = formalDerivative f.absV := by
  obtain ⟨f', h1, r⟩ := Flat.flatFormalDerivative_rep he hc (Flat.rep_self f hwf)
  exact ⟨f', h1, Flat.of_rep r⟩

end RS

/-! ### b. the encoders -/

namespace RS
open SeqEq

namespace Flat

/-- one FULL CHUNK step of the high-rate encoder -/
theorem flatHighFullChunk_rep {n cnt : Nat} (hn : 0 < n) (s : Sched) (e c : Nat) (hc1 : 1 ≤ c)
    (hfit : (c + 1) * 2 ^ e ≤ cnt) {f : Flat} {A : Array (BVec n)} (hr : Rep n cnt f A) :
    ∃ f', flatHighFullChunk s (2 ^ e) f c = some f' ∧
      Rep n cnt f' (highFullChunk s (2 ^ e) A c) := by
  have h1 : 1 * 2 ^ e ≤ c * 2 ^ e := Nat.mul_le_mul_right _ hc1
  rw [Nat.add_mul] at hfit
  obtain ⟨f1, e1, r1⟩ := flatIfft_rep hn s (c * 2 ^ e) e (2 ^ e) (c * 2 ^ e + 2 ^ e)
    (Nat.le_refl _) (by omega) hr
  obtain ⟨f2, e2, r2⟩ := xorWithin_rep r1 0 (c * 2 ^ e) (2 ^ e) (by omega) (by omega)
    (Or.inl (by omega))
  refine ⟨f2, ?_, r2⟩
  unfold flatHighFullChunk
  simp only []
  rw [e1, Option.bind_some, e2]

/-- FINAL PARTIAL CHUNK of the high-rate encoder -/
theorem flatHighLastChunk_rep {n cnt : Nat} (hn : 0 < n) (s : Sched) (e k : Nat)
    (hq : 1 ≤ k / 2 ^ e) (hk : k ≤ cnt)
    (hfit : 0 < k % 2 ^ e → (k / 2 ^ e + 1) * 2 ^ e ≤ cnt)
    {f : Flat} {A : Array (BVec n)} (hr : Rep n cnt f A) :
    ∃ f', flatHighLastChunk s (2 ^ e) k f = some f' ∧
      Rep n cnt f'
        (if k % 2 ^ e > 0 then
          RS.xorWithin
            (ifft s (zeroRange A (k / 2 ^ e * 2 ^ e + k % 2 ^ e) A.size) (k / 2 ^ e * 2 ^ e) (2 ^ e)
              (k % 2 ^ e) (k / 2 ^ e * 2 ^ e + 2 ^ e))
            0 (k / 2 ^ e * 2 ^ e) (2 ^ e)
        else A) := by
  unfold flatHighLastChunk
  simp only []
  by_cases hl : k % 2 ^ e > 0
  · rw [if_pos hl, if_pos hl]
    have hfit := hfit hl
    rw [Nat.add_mul, Nat.one_mul] at hfit
    have h1 : 1 * 2 ^ e ≤ k / 2 ^ e * 2 ^ e := Nat.mul_le_mul_right _ hq
    have hdm : k / 2 ^ e * 2 ^ e + k % 2 ^ e = k := Nat.div_add_mod' k (2 ^ e)
    have hml : k % 2 ^ e < 2 ^ e := Nat.mod_lt _ (Nat.two_pow_pos e)
    obtain ⟨f1, e1, r1⟩ := zeroFrom_rep hr (k / 2 ^ e * 2 ^ e + k % 2 ^ e) (by omega)
    obtain ⟨f2, e2, r2⟩ := flatIfft_rep hn s (k / 2 ^ e * 2 ^ e) e (k % 2 ^ e)
      (k / 2 ^ e * 2 ^ e + 2 ^ e) (by omega) (by omega) r1
    obtain ⟨f3, e3, r3⟩ := xorWithin_rep r2 0 (k / 2 ^ e * 2 ^ e) (2 ^ e) (by omega) (by omega)
      (Or.inl (by omega))
    refine ⟨f3, ?_, r3⟩
    rw [e1, Option.bind_some, e2, Option.bind_some, e3]
  · rw [if_neg hl, if_neg hl]
    exact ⟨f, rfl, hr⟩

/-- FULL CHUNKS and FINAL PARTIAL CHUNK of the high-rate encoder -/
theorem flatHighOtherChunks_rep {n cnt : Nat} (hn : 0 < n) (s : Sched) (e k : Nat) (hk : k ≤ cnt)
    (hgeo : ∀ j, j * 2 ^ e < k → (j + 1) * 2 ^ e ≤ cnt)
    {f : Flat} {A : Array (BVec n)} (hr : Rep n cnt f A) :
    ∃ f', flatHighOtherChunks s (2 ^ e) k f = some f' ∧
      Rep n cnt f'
        (if k > 2 ^ e then
          (if k % 2 ^ e > 0 then
            RS.xorWithin
              (ifft s (zeroRange
                  ((List.range (k / 2 ^ e - 1)).foldl (fun a i => highFullChunk s (2 ^ e) a (i + 1)) A)
                  (k / 2 ^ e * 2 ^ e + k % 2 ^ e)
                  ((List.range (k / 2 ^ e - 1)).foldl
                    (fun a i => highFullChunk s (2 ^ e) a (i + 1)) A).size)
                (k / 2 ^ e * 2 ^ e) (2 ^ e) (k % 2 ^ e) (k / 2 ^ e * 2 ^ e + 2 ^ e))
              0 (k / 2 ^ e * 2 ^ e) (2 ^ e)
          else (List.range (k / 2 ^ e - 1)).foldl (fun a i => highFullChunk s (2 ^ e) a (i + 1)) A)
        else A) := by
  unfold flatHighOtherChunks
  have hpos : 0 < 2 ^ e := Nat.two_pow_pos e
  by_cases hkc : k > 2 ^ e
  · rw [if_pos hkc, if_pos hkc]
    have hq : 1 ≤ k / 2 ^ e := (Nat.le_div_iff_mul_le hpos).2 (by omega)
    have hdm : k / 2 ^ e * 2 ^ e + k % 2 ^ e = k := Nat.div_add_mod' k (2 ^ e)
    obtain ⟨f1, e1, r1⟩ := foldO_rep (List.range (k / 2 ^ e - 1))
      (fun f i => flatHighFullChunk s (2 ^ e) f (i + 1))
      (fun a i => highFullChunk s (2 ^ e) a (i + 1))
      (by
        intro i hi f A hrep
        have hi' : i < k / 2 ^ e - 1 := List.mem_range.1 hi
        have h1 : (i + 1 + 1) * 2 ^ e ≤ k / 2 ^ e * 2 ^ e := Nat.mul_le_mul_right _ (by omega)
        have h2 : (i + 1) * 2 ^ e < k := by
          rw [Nat.add_mul (i + 1) 1, Nat.one_mul] at h1; omega
        exact flatHighFullChunk_rep hn s e (i + 1) (by omega) (hgeo (i + 1) h2) hrep) f A hr
    obtain ⟨f2, e2, r2⟩ := flatHighLastChunk_rep hn s e k hq hk
      (fun hl => hgeo (k / 2 ^ e) (by omega)) r1
    refine ⟨f2, ?_, r2⟩
    rw [e1, Option.bind_some, e2]
  · rw [if_neg hkc, if_neg hkc]
    exact ⟨f, rfl, hr⟩

theorem flatEncodeHigh_rep {n cnt : Nat} (hn : 0 < n) (s : Sched) (k r : Nat)
    (hsup : supportsHigh k r = true) (hc : cnt = highEncWorkCount k r)
    {f : Flat} {A : Array (BVec n)} (hr : Rep n cnt f A) :
    ∃ f', flatEncodeHigh s f k r = some f' ∧ Rep n cnt f' (encodeHigh s k r A) := by
  obtain ⟨g1, g2, g3, g4, g5, _, _⟩ := high_geometry hsup
  obtain ⟨hk0, hr0, hk, hr', hs⟩ := supportsHigh_eq.mp hsup
  obtain ⟨e, he, hpe, hre, _⟩ := npow2_eq_pow (n := r) (by omega)
  rw [← hc] at g2 g3 g4 g5
  have hchunk : 2 ^ e ≤ cnt := by
    have := (g5 0 (by omega)).2
    rw [hpe] at this; omega
  unfold flatEncodeHigh encodeHigh
  simp only []
  rw [hpe]
  rw [hpe] at g5
  obtain ⟨f1, e1, r1⟩ := zero_rep hr (min k (2 ^ e)) (2 ^ e) (Nat.min_le_right _ _) hchunk
  obtain ⟨f2, e2, r2⟩ := flatIfft_rep hn s 0 e (min k (2 ^ e)) (2 ^ e) (Nat.min_le_right _ _)
    (by omega) r1
  obtain ⟨f3, e3, r3⟩ := flatHighOtherChunks_rep hn s e k g2 (fun j hj => (g5 j hj).2) r2
  obtain ⟨f4, e4, r4⟩ := flatFft_rep hn s 0 e r 0 hre (by omega) r3
  refine ⟨f4, ?_, r4⟩
  rw [e1, Option.bind_some, e2, Option.bind_some, e3, Option.bind_some, e4]

theorem flatEncodeLow_rep {n cnt : Nat} (hn : 0 < n) (s : Sched) (k r : Nat)
    (hsup : supportsLow k r = true) (hc : cnt = lowEncWorkCount k r)
    {f : Flat} {A : Array (BVec n)} (hr : Rep n cnt f A) :
    ∃ f', flatEncodeLow s f k r = some f' ∧ Rep n cnt f' (encodeLow s k r A) := by
  obtain ⟨g1, g2, g3, g4, g5, _, _⟩ := low_geometry hsup
  obtain ⟨hk0, hr0, hk, hr', hs⟩ := supportsLow_eq.mp hsup
  obtain ⟨e, he, hpe, hke, _⟩ := npow2_eq_pow (n := k) (by omega)
  rw [← hc] at g2 g3 g4 g5
  have hpos : 0 < 2 ^ e := Nat.two_pow_pos e
  unfold flatEncodeLow encodeLow
  simp only []
  rw [hpe]
  rw [hpe] at g3 g5
  have hdm : r / 2 ^ e * 2 ^ e + r % 2 ^ e = r := Nat.div_add_mod' r (2 ^ e)
  obtain ⟨f1, e1, r1⟩ := zero_rep hr k (2 ^ e) hke g3
  obtain ⟨f2, e2, r2⟩ := flatIfft_rep hn s 0 e k 0 hke (by omega) r1
  obtain ⟨f3, e3, r3⟩ := foldO_rep (List.range ((r + 2 ^ e - 1) / 2 ^ e - 1))
    (fun f i => f.copyWithin 0 ((i + 1) * 2 ^ e) (2 ^ e))
    (fun a i => RS.copyWithin a 0 ((i + 1) * 2 ^ e) (2 ^ e))
    (by
      intro i hi f A hrep
      have hi' : i < (r + 2 ^ e - 1) / 2 ^ e - 1 := List.mem_range.1 hi
      have h1 : (i + 1) * 2 ^ e < r := (blockStarts_lt hpos).1 (by omega)
      have h2 := (g5 (i + 1) h1).2
      have h3 : 1 * 2 ^ e ≤ (i + 1) * 2 ^ e := Nat.mul_le_mul_right _ (by omega)
      rw [Nat.add_mul (i + 1) 1, Nat.one_mul] at h2
      exact copyWithin_rep hrep 0 ((i + 1) * 2 ^ e) (2 ^ e) (by omega) h2 (Or.inr (by omega)))
    f2 _ r2
  obtain ⟨f4, e4, r4⟩ := foldO_rep (List.range (r / 2 ^ e))
    (fun f c => flatFft s f (c * 2 ^ e) (2 ^ e) (2 ^ e) (c * 2 ^ e + 2 ^ e))
    (fun a c => fft s a (c * 2 ^ e) (2 ^ e) (2 ^ e) (c * 2 ^ e + 2 ^ e))
    (by
      intro c hcm f A hrep
      have hc' : c < r / 2 ^ e := List.mem_range.1 hcm
      have h1 : (c + 1) * 2 ^ e ≤ r / 2 ^ e * 2 ^ e := Nat.mul_le_mul_right _ hc'
      rw [Nat.add_mul, Nat.one_mul] at h1
      exact flatFft_rep hn s (c * 2 ^ e) e (2 ^ e) (c * 2 ^ e + 2 ^ e) (Nat.le_refl _) (by omega)
        hrep)
    f3 _ r3
  by_cases hl : r % 2 ^ e > 0
  · have h2 := (g5 (r / 2 ^ e) (by omega)).2
    rw [Nat.add_mul, Nat.one_mul] at h2
    have hml : r % 2 ^ e < 2 ^ e := Nat.mod_lt _ hpos
    obtain ⟨f5, e5, r5⟩ := flatFft_rep hn s (r / 2 ^ e * 2 ^ e) e (r % 2 ^ e)
      (r / 2 ^ e * 2 ^ e + 2 ^ e) (by omega) h2 r4
    refine ⟨f5, ?_, ?_⟩
    · rw [e1, Option.bind_some, e2, Option.bind_some, e3, Option.bind_some, e4, Option.bind_some,
        if_pos hl, e5]
    · rw [if_pos hl]; exact r5
  · refine ⟨f4, ?_, ?_⟩
    · rw [e1, Option.bind_some, e2, Option.bind_some, e3, Option.bind_some, e4, Option.bind_some,
        if_neg hl]
    · rw [if_neg hl]; exact r4

end Flat

/-- **`HighRateEncoder::encode` on the real flat memory**: for every supported configuration and a
    well-formed work memory of `work_count` shards no slice / split bound is violated, and the
    result read through the abstraction is `encodeHigh` of Model/Codec.lean -/
theorem flatEncodeHigh_refines (s : Sched) (f : Flat) (k r : Nat) (hsup : supportsHigh k r = true)
    (hc : f.count = highEncWorkCount k r) (hwf : f.WF) (hn : 0 < f.len64) :
    ∃ f', flatEncodeHigh s f k r = some f' ∧ f'.WF ∧ f'.count = f.count ∧ f'.len64 = f.len64 ∧
      f'.absAt f.len64 = encodeHigh s k r f.absV := by
  obtain ⟨f', h1, r⟩ := Flat.flatEncodeHigh_rep hn s k r hsup hc (Flat.rep_self f hwf)
  exact ⟨f', h1, Flat.of_rep r⟩

/-- **`LowRateEncoder::encode` on the real flat memory** -/
theorem flatEncodeLow_refines (s : Sched) (f : Flat) (k r : Nat) (hsup : supportsLow k r = true)
    (hc : f.count = lowEncWorkCount k r) (hwf : f.WF) (hn : 0 < f.len64) :
    ∃ f', flatEncodeLow s f k r = some f' ∧ f'.WF ∧ f'.count = f.count ∧ f'.len64 = f.len64 ∧
      f'.absAt f.len64 = encodeLow s k r f.absV := by
  obtain ⟨f', h1, r⟩ := Flat.flatEncodeLow_rep hn s k r hsup hc (Flat.rep_self f hwf)
  exact ⟨f', h1, Flat.of_rep r⟩

end RS

/-! ### c. the decoders -/

namespace RS
open SeqEq

/-! position-level description of the per-shard loops of `decode` -/

section maprange
variable {V : Type} [ShardAlg V]

/-- `for i in lo..lo+c { data[i] = g i data[i] }` -/
def mapRange (g : Nat → V → V) (lo c : Nat) (A : Array V) : Array V :=
  Array.ofFn (n := A.size) fun p =>
    if lo ≤ p.val ∧ p.val < lo + c then g p.val (rd A p.val) else rd A p.val

theorem mapRange_size (g : Nat → V → V) (lo c : Nat) (A : Array V) :
    (mapRange g lo c A).size = A.size := by
  unfold mapRange; exact Array.size_ofFn

theorem rd_mapRange (g : Nat → V → V) (lo c : Nat) (A : Array V) (p : Nat) (hp : p < A.size) :
    rd (mapRange g lo c A) p = if lo ≤ p ∧ p < lo + c then g p (rd A p) else rd A p := by
  rw [fl_rd_lt _ _ (by rw [mapRange_size]; exact hp)]
  simp only [mapRange, Array.getElem_ofFn]

theorem rd_zeroRange (A : Array V) (lo hi p : Nat) (hp : p < A.size) :
    rd (zeroRange A lo hi) p = if lo ≤ p ∧ p < hi then ShardAlg.zero else rd A p := by
  rw [fl_rd_lt _ _ (by rw [fl_zeroRange_size]; exact hp), fl_zeroRange_getElem]

/-- the sequential loop is the pointwise map -/
theorem mapRange_fold (g : Nat → V → V) (lo : Nat) (A : Array V) :
    ∀ c, lo + c ≤ A.size →
      (List.range c).foldl (fun a j => a.setIfInBounds (lo + j) (g (lo + j) (rd a (lo + j)))) A
        = mapRange g lo c A := by
  intro c
  induction c with
  | zero =>
    intro _
    apply ext_rd_lt
    · rw [mapRange_size]; rfl
    · intro p hp
      rw [mapRange_size] at hp
      rw [rd_mapRange _ _ _ _ _ hp, if_neg (by omega)]
      rfl
  | succ c ih =>
    intro hc
    rw [List.range_succ, List.foldl_append, ih (by omega)]
    simp only [List.foldl_cons, List.foldl_nil]
    apply ext_rd_lt
    · rw [Array.size_setIfInBounds, mapRange_size, mapRange_size]
    · intro p hp
      rw [mapRange_size] at hp
      rw [fl_rd_setIfInBounds, mapRange_size, rd_mapRange _ _ _ _ _ hp,
        rd_mapRange _ _ _ _ _ (by omega : lo + c < A.size), rd_mapRange _ _ _ _ _ hp,
        if_neg (by omega : ¬ (lo ≤ lo + c ∧ lo + c < lo + c))]
      by_cases hpc : lo + c = p
      · subst hpc
        rw [if_pos ⟨rfl, hp⟩, if_pos (by omega)]
      · rw [if_neg (fun h => hpc h.1)]
        by_cases hw : lo ≤ p ∧ p < lo + c
        · rw [if_pos hw, if_pos (by omega)]
        · rw [if_neg hw, if_neg (by omega)]

/-- `if received[i] { mul(work[i], erasures[i]) } else { work[i].fill(0) }` on one shard value -/
def prepG (recv : Nat → Bool) (loc : Array Nat) (p : Nat) (v : V) : V :=
  if recv p then mulLog v (loc.getD p 0) else ShardAlg.zero

/-- `if !received[i] { mul(work[i], GF_MODULUS - erasures[i]) }` on one shard value -/
def revG (recv : Nat → Bool) (loc : Array Nat) (p : Nat) (v : V) : V :=
  if recv p = false then mulLog v (65535 - loc.getD p 0) else v

/-- the four statements of MULTIPLY SHARDS are `decodePrepare` -/
theorem prepare_eq (recv : Nat → Bool) (loc : Array Nat) (a c b N : Nat) (hac : a ≤ c)
    (A : Array V) (hN : A.size = N) :
    zeroRange (mapRange (prepG recv loc) c b (zeroRange (mapRange (prepG recv loc) 0 a A) a c))
        (c + b) N
      = decodePrepare (fun p => decide (p < a) || (decide (c ≤ p) && decide (p < c + b))) recv loc A := by
  have s1 : (mapRange (prepG (V := V) recv loc) 0 a A).size = N := by rw [mapRange_size, hN]
  have s2 : (zeroRange (mapRange (prepG (V := V) recv loc) 0 a A) a c).size = N := by
    rw [fl_zeroRange_size, s1]
  have s3 : (mapRange (prepG recv loc) c b
      (zeroRange (mapRange (prepG (V := V) recv loc) 0 a A) a c)).size = N := by
    rw [mapRange_size, s2]
  apply ext_rd_lt
  · rw [fl_zeroRange_size, s3]; unfold decodePrepare; rw [Array.size_ofFn, hN]
  · intro p hp
    have hpN : p < N := by unfold decodePrepare at hp; rw [Array.size_ofFn, hN] at hp; exact hp
    rw [rd_zeroRange _ _ _ _ (by rw [s3]; exact hpN), rd_mapRange _ _ _ _ _ (by rw [s2]; exact hpN),
      rd_zeroRange _ _ _ _ (by rw [s1]; exact hpN), rd_mapRange _ _ _ _ _ (by rw [hN]; exact hpN),
      fl_rd_lt _ _ hp]
    simp only [decodePrepare, Array.getElem_ofFn]
    by_cases h1 : p < a
    · rw [if_neg (by omega), if_neg (by omega), if_neg (by omega), if_pos (by omega)]
      simp [prepG, h1]
    · by_cases h2 : p < c
      · rw [if_neg (by omega), if_neg (by omega), if_pos (by omega)]
        have : ¬ c ≤ p := by omega
        simp [h1, this]
      · by_cases h3 : p < c + b
        · rw [if_neg (by omega), if_pos (by omega), if_neg (by omega), if_neg (by omega)]
          have : c ≤ p := by omega
          simp [prepG, h1, h3, this]
        · rw [if_pos (by omega)]
          simp [h1, h3]

/-- REVEAL ERASURES is `decodeReveal` -/
theorem reveal_eq (recv : Nat → Bool) (loc : Array Nat) (lo c : Nat) (A : Array V) :
    mapRange (revG recv loc) lo c A = decodeReveal lo (lo + c) recv loc A := by
  apply ext_rd_lt
  · rw [mapRange_size]; unfold decodeReveal; rw [Array.size_ofFn]
  · intro p hp
    have hpA : p < A.size := by unfold decodeReveal at hp; rw [Array.size_ofFn] at hp; exact hp
    rw [rd_mapRange _ _ _ _ _ hpA, fl_rd_lt _ _ hp]
    simp only [decodeReveal, Array.getElem_ofFn]
    by_cases hw : lo ≤ p ∧ p < lo + c
    · rw [if_pos hw]
      by_cases hrc : recv p = false
      · rw [if_pos ⟨hw.1, hw.2, hrc⟩]; simp [revG, hrc]
      · rw [if_neg (fun h => hrc h.2.2)]; simp [revG, hrc]
    · rw [if_neg hw, if_neg (fun h => hw ⟨h.1, h.2.1⟩)]

theorem setIfInBounds_rd_self (A : Array V) (i : Nat) : A.setIfInBounds i (rd A i) = A := by
  apply ext_rd_lt
  · rw [Array.size_setIfInBounds]
  · intro p hp
    rw [fl_rd_setIfInBounds]
    by_cases h : i = p ∧ p < A.size
    · rw [if_pos h, h.1]
    · rw [if_neg h]

end maprange

namespace Flat

/-! `IndexMut` + `Engine::mul` / `fill` on one shard -/

theorem shard_view (f : Flat) (hwf : f.WF) (i : Nat) (hi : i < f.count) :
    f.shard i = some (rd f.absV i).toArray := by
  rw [shard_eq f hwf i hi, fl_rd_lt _ _ (by rw [absV_size]; exact hi),
    absV_getElem_toArray f hwf i hi]

/-- `engine.mul(&mut work[i], log_m)` multiplies shard `i` by `g^log_m` and touches nothing else -/
theorem mulShard_refines (f : Flat) (hwf : f.WF) (i m : Nat) (hi : i < f.count) :
    ∃ f', f.mulShard i m = some f' ∧ f'.count = f.count ∧ f'.len64 = f.len64 ∧ f'.WF ∧
      f'.absAt f.len64 = f.absV.setIfInBounds i (mulLog (rd f.absV i) m) := by
  refine ⟨f.setShard i (bMul (gmul (gexp m)) (rd f.absV i).toArray), ?_, rfl, rfl,
    setShard_wf f hwf _ _, ?_⟩
  · unfold mulShard
    rw [shard_view f hwf i hi, Option.bind_some]
  · rw [setShard_absV f hwf i _ (by rw [bMul_size, Vector.size_toArray]), ← bvec_smul_toArray,
      toBVec_toArray]
    rfl

/-- `work[i].fill([0; 64])` -/
theorem fillShard_refines (f : Flat) (hwf : f.WF) (i : Nat) (hi : i < f.count) :
    ∃ f', f.fillShard i = some f' ∧ f'.count = f.count ∧ f'.len64 = f.len64 ∧ f'.WF ∧
      f'.absAt f.len64 = f.absV.setIfInBounds i ShardAlg.zero := by
  refine ⟨f.setShard i (Array.replicate (rd f.absV i).toArray.size zeroBlock), ?_, rfl, rfl,
    setShard_wf f hwf _ _, ?_⟩
  · unfold fillShard
    rw [shard_view f hwf i hi, Option.bind_some]
  · rw [Vector.size_toArray, ← bvec_zero_toArray,
      setShard_absV f hwf i _ (Vector.size_toArray _), toBVec_toArray]

theorem mulShard_rep {n cnt : Nat} {f : Flat} {A : Array (BVec n)} (hr : Rep n cnt f A)
    (i m : Nat) (hi : i < cnt) :
    ∃ f', f.mulShard i m = some f' ∧ Rep n cnt f' (A.setIfInBounds i (mulLog (rd A i) m)) := by
  obtain ⟨hwf, hl, hc, ha⟩ := hr
  subst hl; subst hc; subst ha
  obtain ⟨f', h1, h2, h3, h4, h5⟩ := mulShard_refines f hwf i m hi
  exact ⟨f', h1, rep_of_refines h2 h3 h4 h5⟩

theorem fillShard_rep {n cnt : Nat} {f : Flat} {A : Array (BVec n)} (hr : Rep n cnt f A)
    (i : Nat) (hi : i < cnt) :
    ∃ f', f.fillShard i = some f' ∧ Rep n cnt f' (A.setIfInBounds i ShardAlg.zero) := by
  obtain ⟨hwf, hl, hc, ha⟩ := hr
  subst hl; subst hc; subst ha
  obtain ⟨f', h1, h2, h3, h4, h5⟩ := fillShard_refines f hwf i hi
  exact ⟨f', h1, rep_of_refines h2 h3 h4 h5⟩

theorem prepareRange_rep {n cnt : Nat} (recv : Nat → Bool) (loc : Array Nat) (lo c : Nat)
    (hb : lo + c ≤ cnt) {f : Flat} {A : Array (BVec n)} (hr : Rep n cnt f A) :
    ∃ f', prepareRange recv loc lo c f = some f' ∧ Rep n cnt f' (mapRange (prepG recv loc) lo c A) := by
  rw [← mapRange_fold (prepG recv loc) lo A c (by rw [hr.size]; exact hb)]
  unfold prepareRange
  apply foldO_rep (List.range c) _ _ _ f A hr
  intro j hj f A hrep
  have hj' : j < c := List.mem_range.1 hj
  simp only [prepG]
  by_cases hrc : recv (lo + j) = true
  · rw [if_pos hrc, if_pos hrc]
    exact mulShard_rep hrep _ _ (by omega)
  · rw [if_neg hrc, if_neg hrc]
    exact fillShard_rep hrep _ (by omega)

theorem revealRange_rep {n cnt : Nat} (recv : Nat → Bool) (loc : Array Nat) (lo c : Nat)
    (hb : lo + c ≤ cnt) {f : Flat} {A : Array (BVec n)} (hr : Rep n cnt f A) :
    ∃ f', revealRange recv loc lo c f = some f' ∧
      Rep n cnt f' (decodeReveal lo (lo + c) recv loc A) := by
  rw [← reveal_eq, ← mapRange_fold (revG recv loc) lo A c (by rw [hr.size]; exact hb)]
  unfold revealRange
  apply foldO_rep (List.range c) _ _ _ f A hr
  intro j hj f A hrep
  have hj' : j < c := List.mem_range.1 hj
  simp only [revG]
  by_cases hrc : recv (lo + j) = false
  · rw [if_pos hrc, if_pos hrc]
    exact mulShard_rep hrep _ _ (by omega)
  · rw [if_neg hrc, if_neg hrc, setIfInBounds_rd_self]
    exact ⟨f, rfl, hrep⟩

/-- the part of `decode` shared by both rates: regions `[0, a)` and `[c, c + b)` hold shards,
    `work_count = 2^e` -/
theorem flatDecode_core {n cnt : Nat} (hn : 0 < n) (s : Sched) (recv : Nat → Bool) (loc : Array Nat)
    (a c b e : Nat) (he : e ≤ 63) (hcnt : cnt = 2 ^ e) (hac : a ≤ c) (hcb : c + b ≤ cnt)
    (lo m : Nat) (hlo : lo + m ≤ cnt)
    {f : Flat} {A : Array (BVec n)} (hr : Rep n cnt f A) :
    ∃ f', ((prepareRange recv loc 0 a f).bind fun f =>
        (f.zero a c).bind fun f =>
        (prepareRange recv loc c b f).bind fun f =>
        (f.zeroFrom (c + b)).bind fun f =>
        (flatIfft s f 0 cnt (c + b) 0).bind fun f =>
        (flatFormalDerivative f).bind fun f =>
        (flatFft s f 0 cnt (c + b) 0).bind fun f =>
        revealRange recv loc lo m f) = some f' ∧
      Rep n cnt f' (decodeReveal lo (lo + m) recv loc
        (fft s (formalDerivative (ifft s
          (decodePrepare (fun p => decide (p < a) || (decide (c ≤ p) && decide (p < c + b))) recv loc A)
          0 cnt (c + b) 0)) 0 cnt (c + b) 0)) := by
  obtain ⟨f1, e1, r1⟩ := prepareRange_rep recv loc 0 a (by omega) hr
  obtain ⟨f2, e2, r2⟩ := zero_rep r1 a c hac (by omega)
  obtain ⟨f3, e3, r3⟩ := prepareRange_rep recv loc c b hcb r2
  obtain ⟨f4, e4, r4⟩ := zeroFrom_rep r3 (c + b) hcb
  rw [r3.size, prepare_eq recv loc a c b cnt hac A hr.size] at r4
  subst hcnt
  obtain ⟨f5, e5, r5⟩ := flatIfft_rep hn s 0 e (c + b) 0 hcb (by omega) r4
  obtain ⟨f6, e6, r6⟩ := flatFormalDerivative_rep he rfl r5
  obtain ⟨f7, e7, r7⟩ := flatFft_rep hn s 0 e (c + b) 0 hcb (by omega) r6
  obtain ⟨f8, e8, r8⟩ := revealRange_rep recv loc lo m hlo r7
  refine ⟨f8, ?_, r8⟩
  rw [e1, Option.bind_some, e2, Option.bind_some, e3, Option.bind_some, e4, Option.bind_some,
    e5, Option.bind_some, e6, Option.bind_some, e7, Option.bind_some, e8]

end Flat

end RS

namespace RS
open SeqEq

namespace Flat

theorem decode_sizes {n cnt e : Nat} (he : e ≤ 63) (hcnt : cnt = 2 ^ e) (s : Sched)
    (isData recv : Nat → Bool) (loc : Array Nat) (A : Array (BVec n)) (hA : A.size = cnt) (t : Nat) :
    (decodePrepare isData recv loc A).size = cnt ∧
    (formalDerivative (ifft s (decodePrepare isData recv loc A) 0 cnt t 0)).size = cnt := by
  have h1 : (decodePrepare isData recv loc A).size = cnt := by
    unfold decodePrepare; rw [Array.size_ofFn]; exact hA
  refine ⟨h1, ?_⟩
  rw [FD.formalDerivative_size he _ (by rw [ifft_size, h1, hcnt]), ifft_size, h1]

theorem flatDecodeHigh_rep {n cnt : Nat} (hn : 0 < n) (s : Sched) (lw : Array Nat) (k r : Nat)
    (recv : Nat → Bool) (hsup : supportsHigh k r = true) (hc : cnt = highDecWorkCount k r)
    {f : Flat} {A : Array (BVec n)} (hr : Rep n cnt f A) :
    ∃ f', flatDecodeHigh s lw f k r recv = some f' ∧ Rep n cnt f' (decodeHigh s lw k r recv A) := by
  obtain ⟨_, _, _, _, _, g6, g7⟩ := high_geometry hsup
  obtain ⟨hk0, hr0, hk, hr', hs⟩ := supportsHigh_eq.mp hsup
  obtain ⟨e, he, hpe, _, _⟩ := npow2_eq_pow (n := npow2 r + k) hs
  have hcnt : cnt = 2 ^ e := by rw [hc]; exact hpe
  rw [← hc] at g6
  have hrc : r ≤ npow2 r := le_npow2 (by omega)
  obtain ⟨f', e1, r1⟩ := flatDecode_core hn s recv
    (evalPolyWith lw (erasuresHigh k r recv) (npow2 r + k)) r (npow2 r) k e (by omega) hcnt hrc g6
    (npow2 r) k g6 hr
  obtain ⟨s1, s2⟩ := decode_sizes (by omega : e ≤ 63) hcnt s
    (fun p => decide (p < r) || (decide (npow2 r ≤ p) && decide (p < npow2 r + k))) recv
    (evalPolyWith lw (erasuresHigh k r recv) (npow2 r + k)) A hr.size (npow2 r + k)
  refine ⟨f', ?_, ?_⟩
  · unfold flatDecodeHigh
    simp only []
    rw [hr.2.2.1]
    exact e1
  · unfold decodeHigh
    simp only []
    rw [s1, s2]
    exact r1

theorem flatDecodeLow_rep {n cnt : Nat} (hn : 0 < n) (s : Sched) (lw : Array Nat) (k r : Nat)
    (recv : Nat → Bool) (hsup : supportsLow k r = true) (hc : cnt = lowDecWorkCount k r)
    {f : Flat} {A : Array (BVec n)} (hr : Rep n cnt f A) :
    ∃ f', flatDecodeLow s lw f k r recv = some f' ∧ Rep n cnt f' (decodeLow s lw k r recv A) := by
  obtain ⟨_, _, _, _, _, g6, g7⟩ := low_geometry hsup
  obtain ⟨hk0, hr0, hk, hr', hs⟩ := supportsLow_eq.mp hsup
  obtain ⟨e, he, hpe, _, _⟩ := npow2_eq_pow (n := npow2 k + r) hs
  have hcnt : cnt = 2 ^ e := by rw [hc]; exact hpe
  rw [← hc] at g6
  have hkc : k ≤ npow2 k := le_npow2 (by omega)
  obtain ⟨f', e1, r1⟩ := flatDecode_core hn s recv
    (evalPolyWith lw (erasuresLow k r recv) 65536) k (npow2 k) r e (by omega) hcnt hkc g6
    0 k (by omega) hr
  obtain ⟨s1, s2⟩ := decode_sizes (by omega : e ≤ 63) hcnt s
    (fun p => decide (p < k) || (decide (npow2 k ≤ p) && decide (p < npow2 k + r))) recv
    (evalPolyWith lw (erasuresLow k r recv) 65536) A hr.size (npow2 k + r)
  rw [Nat.zero_add] at r1
  refine ⟨f', ?_, ?_⟩
  · unfold flatDecodeLow
    simp only []
    rw [hr.2.2.1]
    exact e1
  · unfold decodeLow
    simp only []
    rw [s1, s2]
    exact r1

end Flat

/-- **`HighRateDecoder::decode` on the real flat memory** (the branch where `decode_begin` returned
    `Some`; `lw` is the `LOG_WALSH` table as in Model/Codec.lean) -/
theorem flatDecodeHigh_refines (s : Sched) (lw : Array Nat) (f : Flat) (k r : Nat) (recv : Nat → Bool)
    (hsup : supportsHigh k r = true) (hc : f.count = highDecWorkCount k r) (hwf : f.WF)
    (hn : 0 < f.len64) :
    ∃ f', flatDecodeHigh s lw f k r recv = some f' ∧ f'.WF ∧ f'.count = f.count ∧
      f'.len64 = f.len64 ∧ f'.absAt f.len64 = decodeHigh s lw k r recv f.absV := by
  obtain ⟨f', h1, r⟩ := Flat.flatDecodeHigh_rep hn s lw k r recv hsup hc (Flat.rep_self f hwf)
  exact ⟨f', h1, Flat.of_rep r⟩

/-- **`LowRateDecoder::decode` on the real flat memory** -/
theorem flatDecodeLow_refines (s : Sched) (lw : Array Nat) (f : Flat) (k r : Nat) (recv : Nat → Bool)
    (hsup : supportsLow k r = true) (hc : f.count = lowDecWorkCount k r) (hwf : f.WF)
    (hn : 0 < f.len64) :
    ∃ f', flatDecodeLow s lw f k r recv = some f' ∧ f'.WF ∧ f'.count = f.count ∧
      f'.len64 = f.len64 ∧ f'.absAt f.len64 = decodeLow s lw k r recv f.absV := by
  obtain ⟨f', h1, r⟩ := Flat.flatDecodeLow_rep hn s lw k r recv hsup hc (Flat.rep_self f hwf)
  exact ⟨f', h1, Flat.of_rep r⟩

end RS

#print axioms RS.flatNaiveFft_refines
#print axioms RS.flatNaiveIfft_refines
#print axioms RS.flatTwoFft_refines
#print axioms RS.flatTwoIfft_refines
#print axioms RS.flatNaiveFft_fft
#print axioms RS.flatNaiveIfft_ifft
#print axioms RS.flatTwoFft_fft
#print axioms RS.flatTwoIfft_ifft
#print axioms RS.flatTwoFft4_refines
#print axioms RS.flatTwoFft4_eq
#print axioms RS.flatTwoIfft4_refines
#print axioms RS.flatTwoIfft4_eq
#print axioms RS.Flat.fftTwoLayers4O_eq
#print axioms RS.Flat.ifftTwoLayers4O_eq
#print axioms RS.Flat.ifftLastSplitO_eq
#print axioms RS.flatFft_refines
#print axioms RS.flatIfft_refines
#print axioms RS.flatFormalDerivative_refines
#print axioms RS.flatEncodeHigh_refines
#print axioms RS.flatEncodeLow_refines
#print axioms RS.flatDecodeHigh_refines
#print axioms RS.flatDecodeLow_refines
