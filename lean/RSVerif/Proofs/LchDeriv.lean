/-
  The formal derivative in the LCH basis.

  * `derivative_S`  : the subspace polynomials `S e` (`e ≤ 16`) have derivative `1`
  * `derivative_Xp` : `X_t' = Σ_{j ∈ bits t} X_{t - 2^j}`
  * `lchPoly_formalDerivative` : applying the closed form of `formal_derivative`
      (`FD.rd_formalDerivative`) to the LCH coefficients of `G` gives the LCH coefficients of
      `G + G'`
  * `lchF_formalDerivative` : the same on raw symbols / arrays, evaluated at a point
  * `eval_mul_add_derivative_of_root`, `eval_derivative_prod_root` : the product rule at a root of
      the error locator, and the derivative of a product of linear factors at one of its roots.
-/
import RSVerif.Proofs.Lagrange
import RSVerif.Proofs.FormalDeriv
import Mathlib.Algebra.Polynomial.Derivative

namespace RS
open Polynomial GF16 Finset

/-! ### 1. `S e' = 1` -/

theorem S_zero : S 0 = X := by
  unfold S
  simp [pt_zero]

theorem derivative_S : ∀ e, e ≤ 16 → derivative (S e) = 1
  | 0 => by
    intro _
    rw [S_zero, derivative_X]
  | e + 1 => by
    intro he
    have ih := derivative_S e (by omega)
    rw [S_succ (by omega), derivative_mul, derivative_add, derivative_one, ih]
    linear_combination CharTwo.add_self_eq_zero (S e)

/-! ### bit lemmas -/

/-- setting a clear bit by addition changes only that bit -/
theorem testBit_add_two_pow {s j : Nat} (h : s.testBit j = false) (i : Nat) :
    (s + 2 ^ j).testBit i = (s.testBit i || decide (i = j)) := by
  rcases Nat.lt_trichotomy i j with hij | hij | hij
  · rw [Nat.add_comm, Nat.testBit_two_pow_add_gt hij]
    simp [Nat.ne_of_lt hij]
  · subst hij
    rw [Nat.add_comm, Nat.testBit_two_pow_add_eq, h]
    simp
  · have hne : ¬ i = j := by omega
    obtain ⟨k, rfl⟩ : ∃ k, i = j + 1 + k := ⟨i - (j + 1), by omega⟩
    simp only [hne, decide_false, Bool.or_false]
    rw [Nat.testBit_eq_decide_div_mod_eq] at h
    have h0 : s / 2 ^ j % 2 = 0 := by
      have : ¬ s / 2 ^ j % 2 = 1 := by simpa using h
      omega
    have hpos : 0 < 2 ^ j := Nat.two_pow_pos j
    have e1 : (s + 2 ^ j) / 2 ^ j = s / 2 ^ j + 1 := Nat.add_div_right s hpos
    have e2 : ∀ x : Nat, x / 2 ^ (j + 1 + k) = x / 2 ^ j / 2 / 2 ^ k := by
      intro x
      rw [Nat.div_div_eq_div_mul, Nat.div_div_eq_div_mul, pow_add, pow_add, pow_one, mul_assoc]
    rw [Nat.testBit_eq_decide_div_mod_eq, Nat.testBit_eq_decide_div_mod_eq, e2, e2, e1]
    have e3 : (s / 2 ^ j + 1) / 2 = s / 2 ^ j / 2 := by omega
    rw [e3]

theorem testBit_add_two_pow_self {s j : Nat} (h : s.testBit j = false) :
    (s + 2 ^ j).testBit j = true := by
  rw [testBit_add_two_pow h]; simp

theorem two_pow_le_of_testBit {t j : Nat} (h : t.testBit j = true) : 2 ^ j ≤ t :=
  Nat.ge_two_pow_of_testBit h

theorem testBit_sub_two_pow_self {t j : Nat} (h : t.testBit j = true) :
    (t - 2 ^ j).testBit j = false := by
  have hle := two_pow_le_of_testBit h
  have e : t = 2 ^ j + (t - 2 ^ j) := by omega
  rw [e, Nat.testBit_two_pow_add_eq] at h
  simpa using h

/-- clearing a set bit by subtraction changes only that bit -/
theorem testBit_sub_two_pow {t j : Nat} (h : t.testBit j = true) (i : Nat) :
    (t - 2 ^ j).testBit i = (t.testBit i && !decide (i = j)) := by
  have hle := two_pow_le_of_testBit h
  have h0 := testBit_sub_two_pow_self h
  have e : t = (t - 2 ^ j) + 2 ^ j := by omega
  have h1 := testBit_add_two_pow h0 i
  rw [← e] at h1
  rw [h1]
  by_cases hij : i = j
  · subst hij; simp [h0]
  · simp [hij]

/-! ### 2. `X_t'` -/

theorem Xp_sub_two_pow {t j : Nat} (h : t.testBit j = true) :
    Xp (t - 2 ^ j) = ∏ i ∈ ((range 16).filter (fun i => t.testBit i)).erase j, S i := by
  unfold Xp
  apply prod_congr ?_ (fun _ _ => rfl)
  ext i
  simp only [mem_filter, mem_erase, mem_range, testBit_sub_two_pow h]
  by_cases hij : i = j <;> simp [hij]

theorem derivative_Xp {t : Nat} (_ht : t < 65536) :
    derivative (Xp t) = ∑ j ∈ (range 16).filter (fun j => t.testBit j), Xp (t - 2 ^ j) := by
  conv_lhs => unfold Xp
  rw [derivative_prod_finset]
  apply sum_congr rfl
  intro j hj
  rw [mem_filter, mem_range] at hj
  rw [derivative_S j (by omega), mul_one, Xp_sub_two_pow hj.2]

/-! ### 3. coefficient form -/

/-- the closed form of `formal_derivative` (`FD.rd_formalDerivative`) on coefficient functions -/
def fdCoeff (n : Nat) (c : Nat → Sym) (t : Nat) : Sym :=
  (List.range n).foldl (fun acc b => if t.testBit b then acc else acc ^^^ c (t + 2 ^ b)) (c t)

theorem mk_foldl_xor_if (p : Nat → Bool) (g : Nat → Sym) (l : List Nat) (init : Sym) :
    (⟨l.foldl (fun acc b => if p b then acc else acc ^^^ g b) init⟩ : GF16)
      = ⟨init⟩ + (l.map (fun b => if p b then (0 : GF16) else ⟨g b⟩)).sum := by
  induction l generalizing init with
  | nil => simp
  | cons a l ih =>
    simp only [List.foldl_cons, List.map_cons, List.sum_cons]
    rw [ih]
    by_cases h : p a
    · simp [h]
    · simp only [h, Bool.false_eq_true, if_false]; rw [mk_add, add_assoc]

theorem mk_fdCoeff (n : Nat) (c : Nat → Sym) (t : Nat) :
    (⟨fdCoeff n c t⟩ : GF16)
      = ⟨c t⟩ + ∑ b ∈ range n, if t.testBit b then (0 : GF16) else ⟨c (t + 2 ^ b)⟩ := by
  unfold fdCoeff
  rw [mk_foldl_xor_if (fun b => t.testBit b) (fun b => c (t + 2 ^ b)), list_sum_map_range]

/-- for `t < 2^n`, `n ≤ 16`, the set bits of `t` below `16` are the set bits below `n` -/
theorem filter_testBit_range {n t : Nat} (hn : n ≤ 16) (ht : t < 2 ^ n) :
    (range 16).filter (fun j => t.testBit j) = (range n).filter (fun j => t.testBit j) := by
  ext j
  simp only [mem_filter, mem_range]
  constructor
  · rintro ⟨_, h⟩
    refine ⟨?_, h⟩
    by_contra hjn
    have : t < 2 ^ j := lt_of_lt_of_le ht (Nat.pow_le_pow_right (by decide) (by omega))
    rw [Nat.testBit_lt_two_pow this] at h
    exact Bool.false_ne_true h
  · rintro ⟨h1, h⟩
    exact ⟨by omega, h⟩

/-- the derivative of an LCH combination, as a double sum -/
theorem derivative_lchPoly {n : Nat} (hn : n ≤ 16) (c : Nat → Sym) :
    derivative (lchPoly (2 ^ n) c) =
      ∑ t ∈ range (2 ^ n), ∑ j ∈ range n,
        if t.testBit j then C (⟨c t⟩ : GF16) * Xp (t - 2 ^ j) else 0 := by
  unfold lchPoly
  rw [derivative_sum]
  apply sum_congr rfl
  intro t ht
  rw [mem_range] at ht
  have ht' : t < 65536 := lt_of_lt_of_le ht (two_pow_le_65536 hn)
  rw [derivative_C_mul, derivative_Xp ht', filter_testBit_range hn ht, mul_sum, sum_filter]

/-- the reindexing `s ↦ s + 2^b` between indices with bit `b` clear and indices with bit `b` set -/
theorem sum_shift_bit (n b : Nat) (hb : b < n) (f : Nat → GF16[X]) :
    ∑ s ∈ (range (2 ^ n)).filter (fun s => s.testBit b = false), f (s + 2 ^ b)
      = ∑ t ∈ (range (2 ^ n)).filter (fun t => t.testBit b = true), f t := by
  apply sum_nbij' (fun s => s + 2 ^ b) (fun t => t - 2 ^ b)
  · intro s hs
    rw [mem_filter, mem_range] at hs
    rw [mem_filter, mem_range]
    exact ⟨FD.add_two_pow_lt hs.1 hb hs.2, testBit_add_two_pow_self hs.2⟩
  · intro t ht
    rw [mem_filter, mem_range] at ht
    rw [mem_filter, mem_range]
    exact ⟨Nat.lt_of_le_of_lt (Nat.sub_le _ _) ht.1, testBit_sub_two_pow_self ht.2⟩
  · intro s _; exact Nat.add_sub_cancel ..
  · intro t ht
    rw [mem_filter, mem_range] at ht
    have := two_pow_le_of_testBit ht.2
    show t - 2 ^ b + 2 ^ b = t
    omega
  · intro s _; rfl

/-- **`formal_derivative` on LCH coefficients computes `G + G'`.** -/
theorem lchPoly_formalDerivative {n : Nat} (hn : n ≤ 16) (c : Nat → Sym) :
    lchPoly (2 ^ n) (fdCoeff n c) = lchPoly (2 ^ n) c + derivative (lchPoly (2 ^ n) c) := by
  rw [derivative_lchPoly hn]
  unfold lchPoly
  simp only [mk_fdCoeff, C_add, add_mul, sum_add_distrib, map_sum, sum_mul]
  congr 1
  rw [sum_comm, sum_comm (s := range (2 ^ n))]
  apply sum_congr rfl
  intro b hb
  rw [mem_range] at hb
  have hL : ∀ s ∈ range (2 ^ n),
      C (if s.testBit b = true then (0 : GF16) else ⟨c (s + 2 ^ b)⟩) * Xp s
        = if s.testBit b = false then C (⟨c (s + 2 ^ b)⟩ : GF16) * Xp (s + 2 ^ b - 2 ^ b) else 0 := by
    intro s _
    rw [Nat.add_sub_cancel]
    cases s.testBit b <;> simp
  rw [sum_congr rfl hL, ← sum_filter, ← sum_filter,
    ← sum_shift_bit n b hb (fun t => C (⟨c t⟩ : GF16) * Xp (t - 2 ^ b))]

/-! ### 5. the product rule at a root -/

/-- if `E x = 0` then `(F·E)(x) + (F·E)'(x) = F(x) · E'(x)` -/
theorem eval_mul_add_derivative_of_root (F E : GF16[X]) (x : GF16) (hx : eval x E = 0) :
    eval x (F * E) + eval x (derivative (F * E)) = eval x F * eval x (derivative E) := by
  rw [derivative_mul, eval_add, eval_mul, eval_mul, eval_mul, hx]
  ring

/-- `E = Π_{u ∈ U} (X - p u)`, `w ∈ U`: `E'(p w) = Π_{u ∈ U \ {w}} (p w - p u)`
    (no injectivity is needed: if `p w = p u` for some other `u ∈ U` both sides vanish). -/
theorem eval_derivative_prod_root {ι : Type} [DecidableEq ι] (U : Finset ι) (p : ι → GF16)
    {w : ι} (hw : w ∈ U) :
    eval (p w) (derivative (∏ u ∈ U, (X - C (p u)))) = ∏ u ∈ U.erase w, (p w - p u) := by
  have h := Lagrange.eval_nodal_derivative_eval_node_eq (s := U) (v := p) hw
  rw [Lagrange.eval_nodal] at h
  rw [← h, Lagrange.nodal_eq]

/-- the two combined: value of `F·E + (F·E)'` at a root `p w` of the locator `E` -/
theorem eval_mul_locator_add_derivative {ι : Type} [DecidableEq ι] (U : Finset ι) (p : ι → GF16)
    (F : GF16[X]) {w : ι} (hw : w ∈ U) :
    eval (p w) (F * ∏ u ∈ U, (X - C (p u)))
        + eval (p w) (derivative (F * ∏ u ∈ U, (X - C (p u))))
      = eval (p w) F * ∏ u ∈ U.erase w, (p w - p u) := by
  rw [eval_mul_add_derivative_of_root, eval_derivative_prod_root U p hw]
  rw [eval_prod]
  exact prod_eq_zero hw (by simp)

/-! ### 4. on arrays of raw symbols -/

theorem lchPoly_congr {m : Nat} {c d : Nat → Sym} (h : ∀ t, t < m → c t = d t) :
    lchPoly m c = lchPoly m d := by
  unfold lchPoly
  apply sum_congr rfl
  intro t ht
  rw [h t (mem_range.1 ht)]

theorem rd_formalDerivative_eq_fdCoeff {n : Nat} (hn : n ≤ 16) (a : Array Sym)
    (ha : a.size = 2 ^ n) {t : Nat} (ht : t < 2 ^ n) :
    rd (formalDerivative a) t = fdCoeff n (fun t => rd a t) t :=
  FD.rd_formalDerivative (by omega) a ha ht

/-- **`formal_derivative` on an array of LCH coefficients**: the result, read as LCH coefficients
    and evaluated at `x`, is `G(x) + G'(x)`. -/
theorem lchF_formalDerivative {n : Nat} (hn : n ≤ 16) (a : Array Sym) (ha : a.size = 2 ^ n)
    (x : Sym) :
    (⟨lchF (2 ^ n) (fun t => rd (formalDerivative a) t) x⟩ : GF16)
      = eval ⟨x⟩ (lchPoly (2 ^ n) (fun t => rd a t))
        + eval ⟨x⟩ (derivative (lchPoly (2 ^ n) (fun t => rd a t))) := by
  rw [mk_lchF, lchPoly_congr (fun t ht => rd_formalDerivative_eq_fdCoeff hn a ha ht),
    lchPoly_formalDerivative hn, eval_add]

end RS

#print axioms RS.derivative_S
#print axioms RS.derivative_Xp
#print axioms RS.lchPoly_formalDerivative
#print axioms RS.eval_mul_add_derivative_of_root
#print axioms RS.eval_derivative_prod_root
#print axioms RS.eval_mul_locator_add_derivative
#print axioms RS.lchF_formalDerivative
