/-
  Subspace polynomials, the LCH basis and Lagrange interpolation on cosets over `GF16`
  (Mathlib `Polynomial`), and the transfer to the raw-symbol functions of `Model/Spec.lean`.
-/
import RSVerif.Proofs.GF16
import Mathlib.LinearAlgebra.Lagrange
import Mathlib.Algebra.Polynomial.BigOperators
import Mathlib.Algebra.Polynomial.Monic
import Mathlib.Algebra.CharP.Two
import Mathlib.Tactic.LinearCombination
import Mathlib.Tactic.Ring
import Mathlib.Data.Nat.Bitwise

namespace RS
open Polynomial GF16 Finset

/-! ### points -/

/-- the point number `i`: the symbol with value `i` -/
def pt (i : Nat) : GF16 := ⟨BitVec.ofNat 16 i⟩

theorem pt_val (i : Nat) : (pt i).val = BitVec.ofNat 16 i := rfl
theorem mk_ofNat (i : Nat) : (⟨BitVec.ofNat 16 i⟩ : GF16) = pt i := rfl
theorem pt_zero : pt 0 = 0 := rfl

theorem pt_add (i j : Nat) : pt i + pt j = pt (i ^^^ j) :=
  GF16.ext (BitVec.ofNat_xor (w := 16) (x := i) (y := j)).symm

theorem gf_sub_eq_add (a b : GF16) : a - b = a + b := rfl
theorem gf_neg (a : GF16) : -a = a := rfl

theorem pt_injOn {i j : Nat} (hi : i < 65536) (hj : j < 65536) (h : pt i = pt j) : i = j := by
  have h1 : (BitVec.ofNat 16 i).toNat = (BitVec.ofNat 16 j).toNat := by
    rw [← pt_val, ← pt_val, h]
  rw [BitVec.toNat_ofNat, BitVec.toNat_ofNat] at h1
  omega

theorem add_eq_xor_of_dvd {e δ u : Nat} (hδ : 2 ^ e ∣ δ) (hu : u < 2 ^ e) : δ + u = δ ^^^ u := by
  obtain ⟨a, rfl⟩ := hδ
  apply Nat.eq_of_testBit_eq
  intro j
  rw [Nat.testBit_two_pow_mul_add _ hu, Nat.testBit_xor, Nat.testBit_two_pow_mul]
  by_cases h : j < e
  · simp [h, Nat.not_le_of_lt h]
  · have : u < 2 ^ j :=
      lt_of_lt_of_le hu (Nat.pow_le_pow_right (by decide) (Nat.le_of_not_lt h))
    simp [h, Nat.le_of_not_lt h, Nat.testBit_lt_two_pow this]

/-- `pt (δ + u) = pt δ + pt u` when `δ` is a multiple of `2^e > u` -/
theorem pt_add_of_dvd {e δ u : Nat} (hδ : 2 ^ e ∣ δ) (hu : u < 2 ^ e) :
    pt (δ + u) = pt δ + pt u := by
  rw [add_eq_xor_of_dvd hδ hu, pt_add]

/-! ### the subspace polynomials as functions -/

/-- `sPoly` on field elements -/
def sP (e : Nat) (x : GF16) : GF16 := ⟨sPoly e x.val⟩

theorem sP_zero (x : GF16) : sP 0 x = x := rfl
theorem sP_succ (e : Nat) (x : GF16) : sP (e + 1) x = sP e x * (sP e x + 1) := rfl

theorem sP_add (e : Nat) (x y : GF16) : sP e (x + y) = sP e x + sP e y := by
  induction e with
  | zero => rfl
  | succ e ih =>
    rw [sP_succ, sP_succ, sP_succ, ih]
    have h2 : sP e x * sP e y + sP e x * sP e y = 0 := CharTwo.add_self_eq_zero _
    linear_combination h2

theorem sPoly_basis : ∀ e : Fin 16, sPoly e.val (BitVec.ofNat 16 (2 ^ e.val)) = gone := by
  decide +kernel

theorem sP_basis {e : Nat} (he : e < 16) : sP e (pt (2 ^ e)) = 1 :=
  GF16.ext (sPoly_basis ⟨e, he⟩)

/-! ### the subspace polynomials as polynomials -/

/-- `S e = Π_{v < 2^e} (X - pt v)` -/
noncomputable def S (e : Nat) : GF16[X] := ∏ v ∈ range (2 ^ e), (X - C (pt v))

theorem S_eq_nodal (e : Nat) : S e = Lagrange.nodal (range (2 ^ e)) pt :=
  (Lagrange.nodal_eq _ _).symm

theorem eval_S_prod (e : Nat) (x : GF16) : eval x (S e) = ∏ v ∈ range (2 ^ e), (x - pt v) := by
  rw [S_eq_nodal, Lagrange.eval_nodal]

theorem natDegree_S (e : Nat) : (S e).natDegree = 2 ^ e := by
  rw [S_eq_nodal, Lagrange.natDegree_nodal, card_range]

theorem monic_S (e : Nat) : (S e).Monic := by
  rw [S_eq_nodal]; exact Lagrange.nodal_monic

theorem degree_S (e : Nat) : (S e).degree = ((2 ^ e : Nat) : WithBot Nat) := by
  rw [degree_eq_natDegree (monic_S e).ne_zero, natDegree_S]

/-- `eval x (S e) = s_e(x)` -/
theorem eval_S_sP : ∀ e, e ≤ 16 → ∀ x, eval x (S e) = sP e x
  | 0 => by
    intro _ x
    simp [eval_S_prod, pt_zero, sP_zero]
  | e + 1 => by
    intro he x
    have ih := eval_S_sP e (by omega)
    have h2 : ∏ v ∈ range (2 ^ e), (x - pt (2 ^ e + v)) = eval (x - pt (2 ^ e)) (S e) := by
      rw [eval_S_prod]
      apply prod_congr rfl
      intro v hv
      rw [pt_add_of_dvd (dvd_refl _) (mem_range.1 hv)]
      ring
    rw [eval_S_prod, pow_succ, mul_two, prod_range_add, ← eval_S_prod, h2, ih, ih,
      gf_sub_eq_add, sP_add, sP_basis (by omega), sP_succ]

theorem eval_S {e : Nat} (he : e ≤ 16) (x : GF16) : eval x (S e) = ⟨sPoly e x.val⟩ :=
  eval_S_sP e he x

theorem eval_S_add {e : Nat} (he : e ≤ 16) (x y : GF16) :
    eval (x + y) (S e) = eval x (S e) + eval y (S e) := by
  rw [eval_S_sP e he, eval_S_sP e he, eval_S_sP e he, sP_add]

theorem eval_S_pt {e v : Nat} (hv : v < 2 ^ e) : eval (pt v) (S e) = 0 := by
  rw [eval_S_prod]
  exact prod_eq_zero (mem_range.2 hv) (sub_self _)

theorem eval_S_basis {e : Nat} (he : e < 16) : eval (pt (2 ^ e)) (S e) = 1 := by
  rw [eval_S_sP e (by omega), sP_basis he]

/-- `S (e+1) = S e * (S e + 1)` -/
theorem S_succ {e : Nat} (he : e < 16) : S (e + 1) = S e * (S e + 1) := by
  have hpos : 0 < 2 ^ e := Nat.two_pow_pos e
  have hm1 : (S e + 1).Monic := by
    apply (monic_S e).add_of_left
    rw [degree_one, degree_S]
    exact_mod_cast hpos
  have hm : (S e * (S e + 1)).Monic := (monic_S e).mul hm1
  have hd1 : (S e + 1).natDegree = 2 ^ e := by
    rw [natDegree_add_eq_left_of_natDegree_lt, natDegree_S]
    rw [natDegree_one, natDegree_S]; exact hpos
  have hd : (S e * (S e + 1)).natDegree = 2 ^ (e + 1) := by
    rw [(monic_S e).natDegree_mul hm1, natDegree_S, hd1, pow_succ, mul_two]
  have hdeg : (S e * (S e + 1)).degree = (S (e + 1)).degree := by
    rw [degree_eq_natDegree hm.ne_zero, hd, degree_S]
  apply eq_of_degree_sub_lt_of_eval_finset_eq (Finset.univ : Finset GF16)
  · refine lt_of_lt_of_le (degree_sub_lt_left hdeg.symm (monic_S _).ne_zero ?_) ?_
    · rw [(monic_S _).leadingCoeff, hm.leadingCoeff]
    · rw [degree_S, Finset.card_univ, GF16.card]
      have : 2 ^ (e + 1) ≤ 65536 := by
        calc 2 ^ (e + 1) ≤ 2 ^ 16 := Nat.pow_le_pow_right (by decide) (by omega)
          _ = 65536 := by norm_num
      exact_mod_cast this
  · intro x _
    rw [eval_mul, eval_add, eval_one, eval_S_sP _ (by omega), eval_S_sP _ (by omega), sP_succ]

/-! ### `foldl` products and XOR-sums on raw symbols -/

theorem mk_foldl_gmul (f : Nat → Sym) (l : List Nat) (init : Sym) :
    (⟨l.foldl (fun acc v => gmul acc (f v)) init⟩ : GF16)
      = ⟨init⟩ * (l.map (fun v => (⟨f v⟩ : GF16))).prod := by
  induction l generalizing init with
  | nil => simp
  | cons a l ih =>
    simp only [List.foldl_cons, List.map_cons, List.prod_cons]
    rw [ih, mk_mul, mul_assoc]

theorem list_prod_map_range (g : Nat → GF16) (n : Nat) :
    ((List.range n).map g).prod = ∏ v ∈ range n, g v := by
  induction n with
  | zero => simp
  | succ n ih =>
    rw [List.range_succ, List.map_append, List.prod_append, ih, prod_range_succ]
    simp

/-- the direct product of `Spec.lean` -/
theorem mk_vanishProd (m : Nat) (x : Sym) :
    (⟨vanishProd m x⟩ : GF16) = ∏ v ∈ range m, ((⟨x⟩ : GF16) - pt v) := by
  unfold vanishProd
  rw [mk_foldl_gmul, list_prod_map_range, mk_one, one_mul]
  rfl

theorem vanishProd_eq (e : Nat) (x : Sym) : (⟨vanishProd (2 ^ e) x⟩ : GF16) = eval ⟨x⟩ (S e) := by
  rw [mk_vanishProd, eval_S_prod]

theorem vanishProd_eq_sPoly {e : Nat} (he : e ≤ 16) (x : Sym) : vanishProd (2 ^ e) x = sPoly e x := by
  have := vanishProd_eq e x
  rw [eval_S he] at this
  exact congrArg GF16.val this

/-! ### the LCH basis polynomials -/

/-- `X_t = Π_{j ∈ bits t} S_j` -/
noncomputable def Xp (t : Nat) : GF16[X] := ∏ j ∈ (range 16).filter (fun j => t.testBit j), S j

theorem sum_testBit_two_pow : ∀ (n t : Nat), t < 2 ^ n →
    ∑ j ∈ (range n).filter (fun j => t.testBit j), 2 ^ j = t
  | 0, t, h => by
    have : t = 0 := by simpa using h
    subst this; simp
  | n + 1, t, h => by
    have ih := sum_testBit_two_pow n (t / 2) (by rw [pow_succ] at h; omega)
    rw [sum_filter] at ih ⊢
    rw [sum_range_succ']
    have h1 : ∀ j, (if t.testBit (j + 1) then 2 ^ (j + 1) else 0)
        = 2 * (if (t / 2).testBit j then 2 ^ j else 0) := by
      intro j
      rw [Nat.testBit_succ, pow_succ]
      split <;> omega
    simp only [h1, ← mul_sum, ih, Nat.testBit_zero]
    by_cases h2 : t % 2 = 1 <;> simp [h2] <;> omega

theorem monic_Xp (t : Nat) : (Xp t).Monic :=
  monic_prod_of_monic _ _ (fun j _ => monic_S j)

theorem natDegree_Xp {t : Nat} (ht : t < 65536) : (Xp t).natDegree = t := by
  unfold Xp
  rw [natDegree_prod_of_monic _ _ (fun j _ => monic_S j)]
  simp only [natDegree_S]
  exact sum_testBit_two_pow 16 t (by norm_num; exact ht)

theorem degree_Xp {t : Nat} (ht : t < 65536) : (Xp t).degree = (t : WithBot Nat) := by
  rw [degree_eq_natDegree (monic_Xp t).ne_zero, natDegree_Xp ht]

theorem mk_foldl_gmul_if (p : Nat → Bool) (f : Nat → Sym) (l : List Nat) (init : Sym) :
    (⟨l.foldl (fun acc j => if p j then gmul acc (f j) else acc) init⟩ : GF16)
      = ⟨init⟩ * (l.map (fun j => if p j then (⟨f j⟩ : GF16) else 1)).prod := by
  induction l generalizing init with
  | nil => simp
  | cons a l ih =>
    simp only [List.foldl_cons, List.map_cons, List.prod_cons]
    rw [ih]
    by_cases h : p a
    · simp only [h, if_true]; rw [mk_mul, mul_assoc]
    · simp [h]

theorem mk_lchBasis (t : Nat) (x : Sym) :
    (⟨lchBasis t x⟩ : GF16) = ∏ j ∈ range 16, if t.testBit j then (⟨sPoly j x⟩ : GF16) else 1 := by
  unfold lchBasis
  rw [mk_foldl_gmul_if (fun j => t.testBit j) (fun j => sPoly j x), list_prod_map_range, mk_one,
    one_mul]

/-- `eval x (X_t) = lchBasis t x` -/
theorem eval_Xp (t : Nat) (x : GF16) : eval x (Xp t) = ⟨lchBasis t x.val⟩ := by
  unfold Xp
  rw [eval_prod, prod_filter, mk_lchBasis]
  apply prod_congr rfl
  intro j hj
  rw [eval_S (by have := mem_range.1 hj; omega)]

/-- a combination of `X_t`, `t < m`, has degree `< m` -/
theorem degree_lch_lt {m : Nat} (hm : m ≤ 65536) (c : Nat → GF16) :
    (∑ t ∈ range m, C (c t) * Xp t).degree < (m : WithBot Nat) := by
  refine lt_of_le_of_lt (degree_sum_le _ _) ?_
  rw [Finset.sup_lt_iff (WithBot.bot_lt_coe _)]
  intro t ht
  have ht' := mem_range.1 ht
  refine lt_of_le_of_lt (degree_mul_le _ _) ?_
  rw [degree_Xp (by omega)]
  have h1 : (C (c t)).degree ≤ 0 := degree_C_le
  have h2 : ((t : Nat) : WithBot Nat) < (m : WithBot Nat) := by exact_mod_cast ht'
  calc (C (c t)).degree + (t : WithBot Nat) ≤ 0 + (t : WithBot Nat) := by gcongr
    _ = t := zero_add _
    _ < m := h2

/-! ### Lagrange interpolation on a coset of `V_e` -/

/-- `W_m = Π_{0 < v < m} pt v` -/
def Wp (m : Nat) : GF16 := ∏ v ∈ (range m).filter (· ≠ 0), pt v

theorem mk_wProd (m : Nat) : (⟨wProd m⟩ : GF16) = Wp m := by
  unfold wProd Wp
  rw [mk_foldl_gmul, list_prod_map_range, mk_one, one_mul, prod_filter]
  cases m with
  | zero => simp
  | succ k =>
    rw [prod_range_succ']
    simp [mk_ofNat]

theorem Wp_ne_zero {m : Nat} (hm : m ≤ 65536) : Wp m ≠ 0 := by
  unfold Wp
  rw [prod_ne_zero_iff]
  intro v hv
  rw [mem_filter, mem_range] at hv
  intro h
  exact hv.2 (pt_injOn (by omega) (by omega) (h.trans pt_zero.symm))

theorem pt_coset_injOn {e δ : Nat} (hb : δ + 2 ^ e ≤ 65536) :
    Set.InjOn (fun u => pt (δ + u)) (↑(range (2 ^ e)) : Set Nat) := by
  intro a ha b hb' h
  have ha' : a < 2 ^ e := by simpa using ha
  have hb'' : b < 2 ^ e := by simpa using hb'
  have := pt_injOn (i := δ + a) (j := δ + b) (by omega) (by omega) h
  omega

/-- the barycentric weights of a coset are all `1 / W` -/
theorem nodalWeight_coset {e δ u : Nat} (hδ : 2 ^ e ∣ δ) (hu : u < 2 ^ e) :
    Lagrange.nodalWeight (range (2 ^ e)) (fun u => pt (δ + u)) u = (Wp (2 ^ e))⁻¹ := by
  unfold Lagrange.nodalWeight Wp
  rw [prod_inv_distrib]
  congr 1
  apply prod_nbij' (fun w => u ^^^ w) (fun v => u ^^^ v)
  · intro w hw
    rw [mem_erase, mem_range] at hw
    rw [mem_filter, mem_range]
    refine ⟨Nat.xor_lt_two_pow hu hw.2, ?_⟩
    rw [Nat.xor_ne_zero_iff]
    exact fun h => hw.1 h.symm
  · intro v hv
    rw [mem_filter, mem_range] at hv
    rw [mem_erase, mem_range]
    refine ⟨?_, Nat.xor_lt_two_pow hu hv.1⟩
    intro h
    apply hv.2
    have := congrArg (fun z => u ^^^ z) h
    simpa using this
  · intro w _; exact Nat.xor_xor_cancel_left u w
  · intro v _; exact Nat.xor_xor_cancel_left u v
  · intro w hw
    rw [mem_erase, mem_range] at hw
    show pt (δ + u) - pt (δ + w) = pt (u ^^^ w)
    rw [pt_add_of_dvd hδ hu, pt_add_of_dvd hδ hw.2, ← pt_add, gf_sub_eq_add]
    linear_combination CharTwo.add_self_eq_zero (pt δ)

/-- the nodal polynomial of a coset, evaluated -/
theorem eval_nodal_coset {e δ : Nat} (he : e ≤ 16) (hδ : 2 ^ e ∣ δ) (x : GF16) :
    eval x (Lagrange.nodal (range (2 ^ e)) (fun u => pt (δ + u)))
      = eval x (S e) + eval (pt δ) (S e) := by
  rw [Lagrange.eval_nodal, ← eval_S_add he, eval_S_prod]
  apply prod_congr rfl
  intro u hu
  rw [pt_add_of_dvd hδ (mem_range.1 hu), gf_sub_eq_add, gf_sub_eq_add, add_assoc]

/-- Lagrange interpolation from the coset `pt δ + V_e` to any point `x` outside it. -/
theorem lagrange_coset {e δ : Nat} (he : e ≤ 16) (hδ : 2 ^ e ∣ δ) (hb : δ + 2 ^ e ≤ 65536)
    {f : GF16[X]} (hf : f.degree < ((2 ^ e : Nat) : WithBot Nat)) {x : GF16}
    (hx : ∀ u, u < 2 ^ e → x ≠ pt (δ + u)) :
    eval x f = ∑ u ∈ range (2 ^ e),
      (eval x (S e) + eval (pt δ) (S e)) / (Wp (2 ^ e) * (x + pt (δ + u))) * eval (pt (δ + u)) f := by
  have hinj := pt_coset_injOn (e := e) (δ := δ) hb
  have hf' : f.degree < ((range (2 ^ e)).card : WithBot Nat) := by rw [card_range]; exact hf
  have h := Lagrange.eq_interpolate hinj hf'
  conv_lhs => rw [h]
  rw [Lagrange.eval_interpolate_not_at_node _ (fun u hu => hx u (mem_range.1 hu)),
    eval_nodal_coset he hδ, mul_sum]
  apply sum_congr rfl
  intro u hu
  rw [nodalWeight_coset hδ (mem_range.1 hu), gf_sub_eq_add, div_eq_mul_inv, mul_inv]
  ring

/-- High-rate form: nodes `pt (δ + u)`, evaluation at `pt j`, `j < m = 2^e ≤ δ`. -/
theorem lagrange_high {e δ : Nat} (he : e ≤ 16) (hδ : 2 ^ e ∣ δ) (hmδ : 2 ^ e ≤ δ)
    (hb : δ + 2 ^ e ≤ 65536) {f : GF16[X]} (hf : f.degree < ((2 ^ e : Nat) : WithBot Nat))
    {j : Nat} (hj : j < 2 ^ e) :
    eval (pt j) f = ∑ u ∈ range (2 ^ e),
      eval (pt (δ + u)) (S e) / (Wp (2 ^ e) * (pt j + pt (δ + u))) * eval (pt (δ + u)) f := by
  rw [lagrange_coset he hδ hb hf (x := pt j)]
  · apply sum_congr rfl
    intro u hu
    rw [pt_add_of_dvd hδ (mem_range.1 hu), eval_S_add he, eval_S_pt hj,
      eval_S_pt (mem_range.1 hu), zero_add, add_zero]
  · intro u hu h
    have := pt_injOn (by omega) (by omega) h
    omega

/-- Low-rate form: nodes `pt u`, `u < m = 2^e`, evaluation at `pt (m + j)`. -/
theorem lagrange_low {e : Nat} (he : e ≤ 16) {f : GF16[X]}
    (hf : f.degree < ((2 ^ e : Nat) : WithBot Nat)) {j : Nat} (hj : 2 ^ e + j < 65536) :
    eval (pt (2 ^ e + j)) f = ∑ u ∈ range (2 ^ e),
      eval (pt (2 ^ e + j)) (S e) / (Wp (2 ^ e) * (pt (2 ^ e + j) + pt u)) * eval (pt u) f := by
  have h := lagrange_coset (δ := 0) he (dvd_zero _) (by omega) hf (x := pt (2 ^ e + j)) ?_
  · simp only [zero_add] at h
    rw [h]
    apply sum_congr rfl
    intro u _
    rw [eval_S_pt (Nat.two_pow_pos e), add_zero]
  · intro u hu h
    rw [zero_add] at h
    have := pt_injOn (by omega) (by omega) h
    omega

/-! ### transfer to the LCH functions on raw symbols -/

/-- XOR-sum `g 0 ⊕ g 1 ⊕ … ⊕ g (m-1)`: left fold over `List.range m` starting from `0`
    (the same fold as `Spec.lchEval`). -/
def xsum (m : Nat) (g : Nat → Sym) : Sym := (List.range m).foldl (fun acc t => acc ^^^ g t) 0#16

/-- value at `x` of the polynomial with LCH coefficients `c 0, …, c (m-1)`:
    `F x = ⊕_{t<m} c_t · X_t(x)` -/
def lchF (m : Nat) (c : Nat → Sym) (x : Sym) : Sym := xsum m (fun t => gmul (c t) (lchBasis t x))

theorem lchEval_eq_lchF (c : Array Sym) (x : Sym) :
    lchEval c x = lchF c.size (fun t => c.getD t 0#16) x := rfl

theorem mk_foldl_xor (g : Nat → Sym) (l : List Nat) (init : Sym) :
    (⟨l.foldl (fun acc t => acc ^^^ g t) init⟩ : GF16)
      = ⟨init⟩ + (l.map (fun t => (⟨g t⟩ : GF16))).sum := by
  induction l generalizing init with
  | nil => simp
  | cons a l ih =>
    simp only [List.foldl_cons, List.map_cons, List.sum_cons]
    rw [ih, mk_add, add_assoc]

theorem list_sum_map_range (g : Nat → GF16) (n : Nat) :
    ((List.range n).map g).sum = ∑ v ∈ range n, g v := by
  induction n with
  | zero => simp
  | succ n ih =>
    rw [List.range_succ, List.map_append, List.sum_append, ih, sum_range_succ]
    simp

theorem mk_xsum (m : Nat) (g : Nat → Sym) : (⟨xsum m g⟩ : GF16) = ∑ t ∈ range m, (⟨g t⟩ : GF16) := by
  unfold xsum
  rw [mk_foldl_xor, list_sum_map_range, GF16.mk_zero, zero_add]

theorem mk_ginv (a : Sym) : (⟨ginv a⟩ : GF16) = (⟨a⟩ : GF16)⁻¹ := rfl

/-- the polynomial with LCH coefficients `c` -/
noncomputable def lchPoly (m : Nat) (c : Nat → Sym) : GF16[X] :=
  ∑ t ∈ range m, C (⟨c t⟩ : GF16) * Xp t

theorem degree_lchPoly_lt {m : Nat} (hm : m ≤ 65536) (c : Nat → Sym) :
    (lchPoly m c).degree < (m : WithBot Nat) :=
  degree_lch_lt hm _

theorem mk_lchF (m : Nat) (c : Nat → Sym) (x : Sym) :
    (⟨lchF m c x⟩ : GF16) = eval ⟨x⟩ (lchPoly m c) := by
  unfold lchF lchPoly
  rw [mk_xsum, eval_finsetSum]
  apply sum_congr rfl
  intro t _
  rw [eval_mul, eval_C, eval_Xp, mk_mul]

theorem two_pow_le_65536 {e : Nat} (he : e ≤ 16) : 2 ^ e ≤ 65536 :=
  calc 2 ^ e ≤ 2 ^ 16 := Nat.pow_le_pow_right (by decide) he
    _ = 65536 := by norm_num

/-- **High-rate transfer.**  `m = 2^e`, `δ` a multiple of `m` with `m ≤ δ`, `δ + m ≤ 65536`:
    the value of `F` at the point `j < m` is the `cauchyHigh`-combination of its values on the
    coset `δ … δ+m-1`. -/
theorem lch_transfer_high {e δ : Nat} (he : e ≤ 16) (hδ : 2 ^ e ∣ δ) (hmδ : 2 ^ e ≤ δ)
    (hb : δ + 2 ^ e ≤ 65536) (c : Nat → Sym) {j : Nat} (hj : j < 2 ^ e) :
    lchF (2 ^ e) c (BitVec.ofNat 16 j) =
      xsum (2 ^ e) (fun u =>
        gmul (gmul (sPoly e (BitVec.ofNat 16 (δ + u)))
                (ginv (gmul (wProd (2 ^ e)) (BitVec.ofNat 16 j ^^^ BitVec.ofNat 16 (δ + u)))))
          (lchF (2 ^ e) c (BitVec.ofNat 16 (δ + u)))) := by
  refine congrArg GF16.val (?_ : (⟨lchF (2 ^ e) c (BitVec.ofNat 16 j)⟩ : GF16) = ⟨xsum _ _⟩)
  rw [mk_lchF, mk_xsum, mk_ofNat,
    lagrange_high he hδ hmδ hb (degree_lchPoly_lt (two_pow_le_65536 he) c) hj]
  apply sum_congr rfl
  intro u _
  rw [mk_mul, mk_mul, mk_ginv, mk_mul, mk_add, mk_wProd, mk_lchF, mk_ofNat, mk_ofNat,
    ← div_eq_mul_inv, eval_S he, pt_val]

/-- **Low-rate transfer.**  `m = 2^e`, nodes `0 … m-1`, evaluation at `m + j < 65536`. -/
theorem lch_transfer_low {e : Nat} (he : e ≤ 16) (c : Nat → Sym) {j : Nat}
    (hj : 2 ^ e + j < 65536) :
    lchF (2 ^ e) c (BitVec.ofNat 16 (2 ^ e + j)) =
      xsum (2 ^ e) (fun u =>
        gmul (gmul (sPoly e (BitVec.ofNat 16 (2 ^ e + j)))
                (ginv (gmul (wProd (2 ^ e))
                  (BitVec.ofNat 16 (2 ^ e + j) ^^^ BitVec.ofNat 16 u))))
          (lchF (2 ^ e) c (BitVec.ofNat 16 u))) := by
  refine congrArg GF16.val
    (?_ : (⟨lchF (2 ^ e) c (BitVec.ofNat 16 (2 ^ e + j))⟩ : GF16) = ⟨xsum _ _⟩)
  rw [mk_lchF, mk_xsum, mk_ofNat,
    lagrange_low he (degree_lchPoly_lt (two_pow_le_65536 he) c) hj]
  apply sum_congr rfl
  intro u _
  rw [mk_mul, mk_mul, mk_ginv, mk_mul, mk_add, mk_wProd, mk_lchF, mk_ofNat, mk_ofNat,
    ← div_eq_mul_inv, eval_S he, pt_val]

theorem cauchyHigh_eq (k r j i : Nat) : cauchyHigh k r j i =
    gmul (vanishProd (npow2 r) (BitVec.ofNat 16 (npow2 r + i)))
      (ginv (gmul (wProd (npow2 r)) (BitVec.ofNat 16 j ^^^ BitVec.ofNat 16 (npow2 r + i)))) := rfl

theorem cauchyLow_eq (k r j i : Nat) : cauchyLow k r j i =
    gmul (vanishProd (npow2 k) (BitVec.ofNat 16 (npow2 k + j)))
      (ginv (gmul (wProd (npow2 k)) (BitVec.ofNat 16 (npow2 k + j) ^^^ BitVec.ofNat 16 i))) := rfl

/-- High-rate transfer with the entries of `Spec.cauchyHigh` (`npow2 r = 2^e = m`); the original
    index is `i = δ - m + u`, i.e. the point `m + i = δ + u`. -/
theorem lch_transfer_high_cauchy {e δ k r : Nat} (he : e ≤ 16) (hr : npow2 r = 2 ^ e)
    (hδ : 2 ^ e ∣ δ) (hmδ : 2 ^ e ≤ δ) (hb : δ + 2 ^ e ≤ 65536) (c : Nat → Sym) {j : Nat}
    (hj : j < 2 ^ e) :
    lchF (2 ^ e) c (BitVec.ofNat 16 j) =
      xsum (2 ^ e) (fun u =>
        gmul (cauchyHigh k r j (δ - 2 ^ e + u)) (lchF (2 ^ e) c (BitVec.ofNat 16 (δ + u)))) := by
  rw [lch_transfer_high he hδ hmδ hb c hj]
  refine congrArg (xsum (2 ^ e)) (funext fun u => ?_)
  have h1 : 2 ^ e + (δ - 2 ^ e + u) = δ + u := by omega
  rw [cauchyHigh_eq, hr, h1, vanishProd_eq_sPoly he]

/-- Low-rate transfer with the entries of `Spec.cauchyLow` (`npow2 k = 2^e = m`). -/
theorem lch_transfer_low_cauchy {e k r : Nat} (he : e ≤ 16) (hk : npow2 k = 2 ^ e)
    (c : Nat → Sym) {j : Nat} (hj : 2 ^ e + j < 65536) :
    lchF (2 ^ e) c (BitVec.ofNat 16 (2 ^ e + j)) =
      xsum (2 ^ e) (fun u =>
        gmul (cauchyLow k r j u) (lchF (2 ^ e) c (BitVec.ofNat 16 u))) := by
  rw [lch_transfer_low he c hj]
  refine congrArg (xsum (2 ^ e)) (funext fun u => ?_)
  rw [cauchyLow_eq, hk, vanishProd_eq_sPoly he]

end RS

#print axioms RS.natDegree_S
#print axioms RS.monic_S
#print axioms RS.S_succ
#print axioms RS.eval_S
#print axioms RS.vanishProd_eq
#print axioms RS.eval_S_pt
#print axioms RS.eval_S_add
#print axioms RS.natDegree_Xp
#print axioms RS.eval_Xp
#print axioms RS.degree_lch_lt
#print axioms RS.mk_wProd
#print axioms RS.lagrange_coset
#print axioms RS.lagrange_high
#print axioms RS.lagrange_low
#print axioms RS.lch_transfer_high
#print axioms RS.lch_transfer_low
#print axioms RS.lch_transfer_high_cauchy
#print axioms RS.lch_transfer_low_cauchy
