/-
  Arithmetic of `npow2` / `nextMultipleOf` used by the envelope proofs (`Proofs/Envelope.lean`).
-/
import RSVerif.Model.Spec

namespace RS

theorem ite_eq_imp {c : Prop} [Decidable c] {a b m : Nat} {Q : Prop}
    (h1 : c → a = m → Q) (h2 : ¬ c → b = m → Q) : (ite c a b = m → Q) := by
  intro h; by_cases hc : c
  · rw [if_pos hc] at h; exact h1 hc h
  · rw [if_neg hc] at h; exact h2 hc h

/-- prove a disjunction by trying `omega` on each disjunct separately -/
syntax "pick_omega" : tactic
macro_rules
  | `(tactic| pick_omega) =>
    `(tactic| first | (refine Or.inl ?_; omega) | (refine Or.inr ?_; pick_omega) | omega)

/-- complete case description of `npow2` on `[0, 65536]` with literal bounds (fodder for `omega`) -/
theorem npow2_cases (n : Nat) (h : n ≤ 65536) :
    (n ≤ 1 ∧ npow2 n = 1) ∨ (1 < n ∧ n ≤ 2 ∧ npow2 n = 2) ∨ (2 < n ∧ n ≤ 4 ∧ npow2 n = 4)
    ∨ (4 < n ∧ n ≤ 8 ∧ npow2 n = 8) ∨ (8 < n ∧ n ≤ 16 ∧ npow2 n = 16)
    ∨ (16 < n ∧ n ≤ 32 ∧ npow2 n = 32) ∨ (32 < n ∧ n ≤ 64 ∧ npow2 n = 64)
    ∨ (64 < n ∧ n ≤ 128 ∧ npow2 n = 128) ∨ (128 < n ∧ n ≤ 256 ∧ npow2 n = 256)
    ∨ (256 < n ∧ n ≤ 512 ∧ npow2 n = 512) ∨ (512 < n ∧ n ≤ 1024 ∧ npow2 n = 1024)
    ∨ (1024 < n ∧ n ≤ 2048 ∧ npow2 n = 2048) ∨ (2048 < n ∧ n ≤ 4096 ∧ npow2 n = 4096)
    ∨ (4096 < n ∧ n ≤ 8192 ∧ npow2 n = 8192) ∨ (8192 < n ∧ n ≤ 16384 ∧ npow2 n = 16384)
    ∨ (16384 < n ∧ n ≤ 32768 ∧ npow2 n = 32768) ∨ (32768 < n ∧ n ≤ 65536 ∧ npow2 n = 65536) := by
  generalize hm : npow2 n = m
  revert hm
  unfold npow2
  iterate 17 (refine ite_eq_imp (fun _ _ => by pick_omega) (fun _ => ?_))
  intro; omega

/-- the 17 powers of two as literals -/
theorem pow2_cases (e : Nat) (h : e ≤ 16) :
    (e = 0 ∧ 2 ^ e = 1) ∨ (e = 1 ∧ 2 ^ e = 2) ∨ (e = 2 ∧ 2 ^ e = 4) ∨ (e = 3 ∧ 2 ^ e = 8)
    ∨ (e = 4 ∧ 2 ^ e = 16) ∨ (e = 5 ∧ 2 ^ e = 32) ∨ (e = 6 ∧ 2 ^ e = 64) ∨ (e = 7 ∧ 2 ^ e = 128)
    ∨ (e = 8 ∧ 2 ^ e = 256) ∨ (e = 9 ∧ 2 ^ e = 512) ∨ (e = 10 ∧ 2 ^ e = 1024)
    ∨ (e = 11 ∧ 2 ^ e = 2048) ∨ (e = 12 ∧ 2 ^ e = 4096) ∨ (e = 13 ∧ 2 ^ e = 8192)
    ∨ (e = 14 ∧ 2 ^ e = 16384) ∨ (e = 15 ∧ 2 ^ e = 32768) ∨ (e = 16 ∧ 2 ^ e = 65536) := by
  have : e = 0 ∨ e = 1 ∨ e = 2 ∨ e = 3 ∨ e = 4 ∨ e = 5 ∨ e = 6 ∨ e = 7 ∨ e = 8 ∨ e = 9 ∨ e = 10
      ∨ e = 11 ∨ e = 12 ∨ e = 13 ∨ e = 14 ∨ e = 15 ∨ e = 16 := by omega
  rcases this with rfl | rfl | rfl | rfl | rfl | rfl | rfl | rfl | rfl | rfl | rfl | rfl | rfl | rfl
    | rfl | rfl | rfl <;> decide

/-- `npow2 n` is one of 17 literals -/
theorem npow2_lit (n : Nat) (h : n ≤ 65536) :
    npow2 n = 1 ∨ npow2 n = 2 ∨ npow2 n = 4 ∨ npow2 n = 8 ∨ npow2 n = 16 ∨ npow2 n = 32
    ∨ npow2 n = 64 ∨ npow2 n = 128 ∨ npow2 n = 256 ∨ npow2 n = 512 ∨ npow2 n = 1024
    ∨ npow2 n = 2048 ∨ npow2 n = 4096 ∨ npow2 n = 8192 ∨ npow2 n = 16384 ∨ npow2 n = 32768
    ∨ npow2 n = 65536 := by
  have := npow2_cases n h; omega

theorem le_npow2 {n : Nat} (h : n ≤ 65536) : n ≤ npow2 n := by
  have := npow2_cases n h; omega

theorem npow2_pos {n : Nat} (h : n ≤ 65536) : 1 ≤ npow2 n := by
  have := npow2_cases n h; omega

theorem npow2_le_65536 {n : Nat} (h : n ≤ 65536) : npow2 n ≤ 65536 := by
  have := npow2_cases n h; omega

theorem npow2_lt_two_mul {n : Nat} (h : n ≤ 65536) (h1 : 1 ≤ n) : npow2 n < 2 * n := by
  have := npow2_cases n h; omega

/-- below `2^16` the next power of two is at most `2^15` -/
theorem npow2_le_32768 {n : Nat} (h : n ≤ 65536) (h1 : npow2 n < 65536) : npow2 n ≤ 32768 := by
  have := npow2_cases n h; omega

/-- `npow2 n` is the least power of two `≥ n` -/
theorem npow2_eq_pow {n : Nat} (h : n ≤ 65536) :
    ∃ e, e ≤ 16 ∧ npow2 n = 2 ^ e ∧ n ≤ 2 ^ e ∧ (e = 0 ∨ 2 ^ (e - 1) < n) := by
  rcases npow2_cases n h with h | h | h | h | h | h | h | h | h | h | h | h | h | h | h | h | h
  · exact ⟨0, by omega, by omega, by omega, by omega⟩
  · exact ⟨1, by omega, by omega, by omega, by omega⟩
  · exact ⟨2, by omega, by omega, by omega, by omega⟩
  · exact ⟨3, by omega, by omega, by omega, by omega⟩
  · exact ⟨4, by omega, by omega, by omega, by omega⟩
  · exact ⟨5, by omega, by omega, by omega, by omega⟩
  · exact ⟨6, by omega, by omega, by omega, by omega⟩
  · exact ⟨7, by omega, by omega, by omega, by omega⟩
  · exact ⟨8, by omega, by omega, by omega, by omega⟩
  · exact ⟨9, by omega, by omega, by omega, by omega⟩
  · exact ⟨10, by omega, by omega, by omega, by omega⟩
  · exact ⟨11, by omega, by omega, by omega, by omega⟩
  · exact ⟨12, by omega, by omega, by omega, by omega⟩
  · exact ⟨13, by omega, by omega, by omega, by omega⟩
  · exact ⟨14, by omega, by omega, by omega, by omega⟩
  · exact ⟨15, by omega, by omega, by omega, by omega⟩
  · exact ⟨16, by omega, by omega, by omega, by omega⟩

theorem npow2_le_pow {n e : Nat} (he : e ≤ 16) (h : n ≤ 2 ^ e) : npow2 n ≤ 2 ^ e := by
  have hp := pow2_cases e he
  have hn : n ≤ 65536 := by omega
  have := npow2_cases n hn
  omega

theorem npow2_mono {a b : Nat} (hab : a ≤ b) (hb : b ≤ 65536) : npow2 a ≤ npow2 b := by
  obtain ⟨e, he, heq, hle, _⟩ := npow2_eq_pow hb
  rw [heq]; exact npow2_le_pow he (by omega)

end RS
