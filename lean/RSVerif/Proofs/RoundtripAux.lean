/-
  Common part of the decoder correctness theorems (C01), one symbol lane.

  * `marked`, `LocSpec`       : the hypothesis on the output of `eval_poly` (log of the locator).
  * `RT.decode_generic`       : steps 3–4 of the assembly for an abstract codeword polynomial `F`,
      erased set `E ⊆ [0, n)`, constant `τ ≠ 0` (the contribution of the marks beyond `n`),
      data predicate `isData` and truncation `oend`: prepare / ifft / formal derivative / fft /
      reveal leaves `F(pt w)` at every erased position `w` of the reveal window.
  * `RT.tail_prod`            : `Π_{u ∈ [2^N, 65536)} (pt x - pt u)` does not depend on `x < 2^N`.
  * `RT.length_filter_range`  : list count = finset count.
-/
import RSVerif.Proofs.DecCore
import RSVerif.Proofs.Codeword
import RSVerif.Proofs.TableSpec
import RSVerif.Proofs.Hom

namespace RS
open Polynomial GF16 Finset ShardAlg

/-- the positions marked as erased in an indicator array -/
def marked (er : Array Nat) : Finset Nat :=
  (Finset.range 65536).filter (fun u => er.getD u 0 = 1)

/-- `loc` holds, for every point `x`, the discrete log of the locator value
    `Π_{u marked, u ≠ x} (pt x - pt u)` -/
def LocSpec (er loc : Array Nat) : Prop :=
  ∀ x, x < 65536 → loc.getD x 0 < 65536 ∧
    (⟨gexp (loc.getD x 0)⟩ : GF16) = ∏ u ∈ (marked er).erase x, (pt x - pt u)

namespace RT

/-! ### reads of the pointwise phases -/

theorem rd_ofFn {V : Type} [ShardAlg V] {n : Nat} (f : Fin n → V) (p : Nat) :
    rd (Array.ofFn f) p = if h : p < n then f ⟨p, h⟩ else zero := by
  unfold rd
  by_cases hp : p < n
  · simp [Array.getD_eq_getD_getElem?, hp]
  · simp [Array.getD_eq_getD_getElem?, hp]

theorem rd_decodePrepare (isData recv : Nat → Bool) (loc : Array Nat) (a : Array Sym) (p : Nat) :
    rd (decodePrepare isData recv loc a) p =
      if p < a.size then
        (if (isData p && recv p) = true then mulLog (rd a p) (loc.getD p 0) else 0#16)
      else 0#16 := by
  unfold decodePrepare
  rw [rd_ofFn]
  by_cases hp : p < a.size
  · rw [dif_pos hp, if_pos hp]; rfl
  · rw [dif_neg hp, if_neg hp]; rfl

theorem rd_decodeReveal (lo hi : Nat) (recv : Nat → Bool) (loc : Array Nat) (a : Array Sym)
    {p : Nat} (hp : p < a.size) :
    rd (decodeReveal lo hi recv loc a) p =
      if lo ≤ p ∧ p < hi ∧ recv p = false then mulLog (rd a p) (65535 - loc.getD p 0)
      else rd a p := by
  unfold decodeReveal
  rw [rd_ofFn, dif_pos hp]

theorem mulLog_sym (v : Sym) (m : Nat) : mulLog v m = gmul (gexp m) v := rfl

/-- `g^(65535 - l)` is the inverse of `g^l` -/
theorem mk_gexp_neg {l : Nat} (hl : l < 65536) :
    (⟨gexp (65535 - l)⟩ : GF16) * ⟨gexp l⟩ = 1 := by
  rw [mul_comm, ← mk_mul, gexp_neg hl]
  rfl

/-! ### steps 3–4 for an abstract codeword polynomial -/

/-- **Generic decoder.**  `F` is the codeword polynomial, `E ⊆ [0, n)` the erased positions,
    `τ ≠ 0` a constant.  If the received data positions hold the values of `F` and `loc` holds
    there the log of `τ · e(pt p)`, every other position is erased or a zero of `F`, the data
    positions end before `oend`, and `deg (F · e) < n`, then after prepare / ifft / formal
    derivative / fft / reveal (reveal dividing by `τ · e'(pt w)`) an erased position `w` of the
    reveal window holds `F(pt w)`. -/
theorem decode_generic {N n : Nat} (hN : N ≤ 16) (hn : n = 2 ^ N) (s : Sched)
    (F : GF16[X]) (τ : GF16) (hτ : τ ≠ 0) (E : Finset Nat) (hE : ∀ u ∈ E, u < n)
    (hdeg : (F * locPoly E).degree < (n : WithBot Nat))
    (isData recv : Nat → Bool) (loc : Array Nat) (mem : Array Sym) (hmem : mem.size = n)
    {oend : Nat} (ho : oend ≤ n)
    (hdend : ∀ p, isData p = true → p < oend)
    (hrecv : ∀ p, p < n → isData p = true → recv p = true →
      (⟨rd mem p⟩ : GF16) = eval (pt p) F ∧
      (⟨gexp (loc.getD p 0)⟩ : GF16) = τ * ∏ u ∈ E, (pt p - pt u))
    (hother : ∀ p, p < n → ¬(isData p = true ∧ recv p = true) → p ∈ E ∨ eval (pt p) F = 0)
    {w : Nat} (hw : w ∈ E) (hwo : w < oend) (lo hi : Nat) (hlo : lo ≤ w) (hhi : w < hi)
    (hr : recv w = false) (hl : loc.getD w 0 < 65536)
    (hlw : (⟨gexp (loc.getD w 0)⟩ : GF16) = τ * ∏ u ∈ E.erase w, (pt w - pt u)) :
    rd (decodeReveal lo hi recv loc (fft s (formalDerivative
        (ifft s (decodePrepare isData recv loc mem) 0 n oend 0)) 0 n oend 0)) w
      = (eval (pt w) F).val := by
  have hv : (decodePrepare isData recv loc mem).size = n := by
    simp [decodePrepare, hmem]
  have hprod : (C τ * F) * ∏ u ∈ E, (X - C (pt u)) = C τ * (F * locPoly E) := by
    unfold locPoly; rw [mul_assoc]
  have hdeg' : ((C τ * F) * ∏ u ∈ E, (X - C (pt u))).degree < (n : WithBot Nat) := by
    rw [hprod, degree_C_mul hτ]; exact hdeg
  have hz : ∀ p, oend ≤ p → p < n → rd (decodePrepare isData recv loc mem) p = 0#16 := by
    intro p hp hpn
    rw [rd_decodePrepare, hmem, if_pos hpn]
    have hd : isData p = false := by
      cases h : isData p
      · rfl
      · have := hdend p h; omega
    rw [hd, Bool.false_and, if_neg (by simp)]
  have hval : ∀ p, p < n → (⟨rd (decodePrepare isData recv loc mem) p⟩ : GF16)
      = eval (pt p) ((C τ * F) * ∏ u ∈ E, (X - C (pt u))) := by
    intro p hpn
    rw [rd_decodePrepare, hmem, if_pos hpn, hprod, eval_mul, eval_C, eval_mul, eval_locPoly]
    by_cases hc : (isData p && recv p) = true
    · rw [if_pos hc]
      rw [Bool.and_eq_true] at hc
      obtain ⟨h1, h2⟩ := hrecv p hpn hc.1 hc.2
      rw [mulLog_sym, mk_mul, h1, h2]
      ring
    · rw [if_neg hc]
      have hc' : ¬(isData p = true ∧ recv p = true) := by
        rwa [Bool.and_eq_true] at hc
      rcases hother p hpn hc' with h | h
      · rw [prod_eq_zero h (sub_self _), mul_zero, mul_zero]; rfl
      · rw [h, zero_mul, mul_zero]; rfl
  have hcore := decode_core_trunc hN hn s (C τ * F) E hE hdeg' _ hv ho hz hval hw hwo
  obtain ⟨_, _, hs3⟩ := decode_core_sizes hN hn s _ hv oend oend
  have hwn : w < n := hE w hw
  rw [rd_decodeReveal _ _ _ _ _ (by rw [hs3]; exact hwn), if_pos ⟨hlo, hhi, hr⟩, mulLog_sym]
  have key : (⟨gmul (gexp (65535 - loc.getD w 0)) (rd (fft s (formalDerivative
      (ifft s (decodePrepare isData recv loc mem) 0 n oend 0)) 0 n oend 0) w)⟩ : GF16)
      = eval (pt w) F := by
    rw [mk_mul, hcore, eval_mul, eval_C, mul_right_comm, ← hlw, ← mul_assoc, mk_gexp_neg hl,
      one_mul]
  exact congrArg GF16.val key

/-! ### the marks beyond the work area (low rate) -/

/-- `Π_{u ∈ [2^N, 65536)} (pt x - pt u)` is the same for every `x < 2^N` -/
theorem tail_prod {N x : Nat} (hN : N ≤ 16) (hx : x < 2 ^ N) :
    ∏ u ∈ Ico (2 ^ N) 65536, (pt x - pt u) = ∏ u ∈ Ico (2 ^ N) 65536, pt u := by
  rcases Nat.lt_or_ge N 16 with h16 | h16
  · have e16 : (65536 : Nat) = 2 ^ 16 := by norm_num
    rw [e16]
    apply prod_nbij' (fun q => q ^^^ x) (fun q => q ^^^ x)
    · intro q hq; exact xor_mem_Ico h16 hx hq
    · intro q hq; exact xor_mem_Ico h16 hx hq
    · intro q _; exact Nat.xor_xor_cancel_right q x
    · intro q _; exact Nat.xor_xor_cancel_right q x
    · intro q _
      rw [gf_sub_eq_add, pt_add, Nat.xor_comm]
  · have hN' : N = 16 := by omega
    subst hN'
    rw [show (2 : Nat) ^ 16 = 65536 by norm_num, Ico_self, prod_empty, prod_empty]

theorem tail_prod_ne_zero {n : Nat} (hn : 1 ≤ n) : ∏ u ∈ Ico n 65536, pt u ≠ 0 := by
  rw [prod_ne_zero_iff]
  intro u hu h
  rw [mem_Ico] at hu
  have := pt_injOn (i := u) (j := 0) hu.2 (by omega) (by rw [h, pt_zero])
  omega

/-! ### counting -/

theorem length_filter_range (p : Nat → Bool) (k : Nat) :
    ((List.range k).filter p).length = ((Finset.range k).filter (fun i => p i = true)).card := by
  induction k with
  | zero => simp
  | succ k ih =>
    rw [List.range_succ, List.filter_append, List.length_append, ih, Finset.range_add_one,
      Finset.filter_insert]
    by_cases hp : p k = true
    · rw [if_pos hp, card_insert_of_notMem (by simp)]
      simp [hp]
    · rw [if_neg hp]
      simp [hp]

/-- complementary counts -/
theorem card_filter_false (p : Nat → Bool) (k : Nat) :
    ((Finset.range k).filter (fun i => p i = false)).card
      + ((Finset.range k).filter (fun i => p i = true)).card = k := by
  have h := Finset.card_filter_add_card_filter_not (s := Finset.range k) (fun i => p i = true)
  rw [card_range] at h
  have e : (Finset.range k).filter (fun i => p i = false)
      = (Finset.range k).filter (fun i => ¬ p i = true) := by
    apply filter_congr
    intro i _
    simp
  rw [e]
  omega

end RT
end RS

#print axioms RS.RT.decode_generic
#print axioms RS.RT.tail_prod
#print axioms RS.RT.length_filter_range
