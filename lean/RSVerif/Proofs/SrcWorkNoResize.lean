/-
  ROUNDS NEVER RESIZE: in the bookkeeping methods of `EncoderWork` / `DecoderWork` AS TRANSLATED FROM TODAY'S SOURCE
  (Gen/SrcWork.lean, regenerated on every run) the shard memory is resized (the only operation that may allocate) by
  `reset` alone.  Stated by instrumenting the abstract memory with a counter that `resize` — and nothing else — may
  touch: every other method leaves the counter where it was; the bitmap's length changes in `reset` only (C17).
-/
import RSVerif.Gen.SrcWork
import RSVerif.Proofs.SrcWorkSpec

namespace RS
open RS.RustW RS.SrcW

variable {σ : Type}

/-- the memory carries a counter (second component) that `insert` and `undo_last_chunk_encoding` preserve -/
def CountsResizes (ops : ShardsOps (σ × Nat)) : Prop :=
  (∀ m p a m', ops.insert m p a = some m' → m'.2 = m.2) ∧
  (∀ m a b c m', ops.undoLast m a b c = some m' → m'.2 = m.2)

theorem src_encoder_round_never_resizes (ops : ShardsOps (σ × Nat)) (h : CountsResizes ops)
    (st st' : EncoderWorkS (σ × Nat)) :
    (∀ sh r, EncoderWork_add_original_shard ops st sh = some (r, st') → st'.shards.2 = st.shards.2) ∧
    (∀ r, EncoderWork_encode_begin ops st = some (r, st') → st'.shards.2 = st.shards.2) ∧
    (∀ i r, EncoderWork_recovery ops st i = some (r, st') → st'.shards.2 = st.shards.2) ∧
    (∀ r, EncoderWork_reset_received ops st = some (r, st') → st'.shards.2 = st.shards.2) ∧
    (∀ r, EncoderWork_undo_last_chunk_encoding ops st = some (r, st') → st'.shards.2 = st.shards.2) := by
  obtain ⟨h1, h2⟩ := h
  refine ⟨?_, ?_, ?_, ?_, ?_⟩
  · intro sh r hh
    simp only [EncoderWork_add_original_shard] at hh
    grind
  · intro r hh
    simp only [EncoderWork_encode_begin] at hh
    grind
  · intro i r hh
    simp only [EncoderWork_recovery] at hh
    grind
  · intro r hh
    simp only [EncoderWork_reset_received] at hh
    grind
  · intro r hh
    simp only [EncoderWork_undo_last_chunk_encoding] at hh
    grind

theorem src_decoder_round_never_resizes (ops : ShardsOps (σ × Nat)) (h : CountsResizes ops)
    (st st' : DecoderWorkS (σ × Nat)) :
    (∀ i sh r, DecoderWork_add_original_shard ops st i sh = some (r, st') →
      st'.shards.2 = st.shards.2 ∧ st'.received.size = st.received.size) ∧
    (∀ i sh r, DecoderWork_add_recovery_shard ops st i sh = some (r, st') →
      st'.shards.2 = st.shards.2 ∧ st'.received.size = st.received.size) ∧
    (∀ r, DecoderWork_decode_begin ops st = some (r, st') →
      st'.shards.2 = st.shards.2 ∧ st'.received.size = st.received.size) ∧
    (∀ i r, DecoderWork_restored_original ops st i = some (r, st') →
      st'.shards.2 = st.shards.2 ∧ st'.received.size = st.received.size) ∧
    (∀ r, DecoderWork_reset_received ops st = some (r, st') →
      st'.shards.2 = st.shards.2 ∧ st'.received.size = st.received.size) ∧
    (∀ r, DecoderWork_undo_last_chunk_encoding ops st = some (r, st') →
      st'.shards.2 = st.shards.2 ∧ st'.received.size = st.received.size) := by
  obtain ⟨h1, h2⟩ := h
  refine ⟨?_, ?_, ?_, ?_, ?_, ?_⟩
  · intro i sh r hh
    simp only [DecoderWork_add_original_shard, BitSet.set] at hh
    grind
  · intro i sh r hh
    simp only [DecoderWork_add_recovery_shard, BitSet.set] at hh
    grind
  · intro r hh
    simp only [DecoderWork_decode_begin] at hh
    grind
  · intro i r hh
    simp only [DecoderWork_restored_original] at hh
    grind
  · intro r hh
    simp only [DecoderWork_reset_received, BitSet.clear] at hh
    grind
  · intro r hh
    simp only [DecoderWork_undo_last_chunk_encoding] at hh
    grind

/-- non-vacuity: an array memory paired with a counter, `resize` counting, satisfies `CountsResizes` -/
example : CountsResizes (σ := Array (Array Nat))
    { insert := fun m p a => if p < m.1.size then some (m.1.set! p a, m.2) else none
      resize := fun m n _ => (m.1.extract 0 n ++ Array.replicate (n - m.1.size) #[], m.2 + 1)
      undoLast := fun m _ _ _ => some m
      slice := fun m p n => (m.1[p]?).map (fun s => s.extract 0 n) } := by
  constructor
  · intro m p a m' hh
    simp only at hh
    split at hh <;> simp_all
    rw [← hh]
  · intro m a b c m' hh
    simp only [Option.some.injEq] at hh
    rw [hh]

end RS
