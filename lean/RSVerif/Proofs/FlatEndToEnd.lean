/-
  End of the refinement chain: the encoders run on the REAL flat byte memory (`Vec<[u8; 64]>` with the
  index arithmetic, views and byte kernels of the code: Model/Flat.lean, Model/FlatEngine.lean) produce,
  symbol lane by symbol lane, the closed-form scaled-Cauchy code of the property statement.
    flat memory  --FlatEngineSpec-->  positions of block vectors  --FlatSpec (blockLanes hom)-->
    lanes of field symbols  --CauchyEnc-->  closed form
-/
import RSVerif.Proofs.FlatEngineSpec
import RSVerif.Proofs.CauchyEnc

namespace RS

/-- the lanes of shard `j` of a flat memory -/
def Flat.lanesAt (f : Flat) (n : Nat) (j : Nat) : Vector Sym (32 * n) := bvecLanes n (rd (f.absAt n) j)

theorem Flat.lanes_map_rd (f : Flat) (n j : Nat) :
    rd ((f.absAt n).map (bvecLanes n)) j = f.lanesAt n j :=
  rd_map (ShardHom.blockLanes n) (f.absAt n) j

/-- `HighRateEncoder::encode` on the flat memory: no panic, and recovery shard `j` is `Σ_i G[j][i]·original i`
    on every one of the `32 · len64` symbol lanes of the blocks -/
theorem flatEncodeHigh_eq_cauchy (s : Sched) (f : Flat) (k r : Nat) (hsup : supportsHigh k r = true)
    (hc : f.count = highEncWorkCount k r) (hwf : f.WF) (hn : 0 < f.len64) (j : Nat) (hj : j < r) :
    ∃ f', flatEncodeHigh s f k r = some f' ∧ f'.WF ∧
      f'.lanesAt f.len64 j =
        (cauchyEncode .high k r ((f.absV.map (bvecLanes f.len64)).extract 0 k)).getD j
          (Vector.replicate (32 * f.len64) 0#16) := by
  obtain ⟨f', h1, hw, _, _, ha⟩ := flatEncodeHigh_refines s f k r hsup hc hwf hn
  refine ⟨f', h1, hw, ?_⟩
  rw [← Flat.lanes_map_rd, ha, encodeHigh_blocks]
  exact encodeHigh_eq_cauchy s k r hsup _ (by rw [Array.size_map, Flat.absV_size, hc]) hj

/-- `LowRateEncoder::encode` on the flat memory -/
theorem flatEncodeLow_eq_cauchy (s : Sched) (f : Flat) (k r : Nat) (hsup : supportsLow k r = true)
    (hc : f.count = lowEncWorkCount k r) (hwf : f.WF) (hn : 0 < f.len64) (j : Nat) (hj : j < r) :
    ∃ f', flatEncodeLow s f k r = some f' ∧ f'.WF ∧
      f'.lanesAt f.len64 j =
        (cauchyEncode .low k r ((f.absV.map (bvecLanes f.len64)).extract 0 k)).getD j
          (Vector.replicate (32 * f.len64) 0#16) := by
  obtain ⟨f', h1, hw, _, _, ha⟩ := flatEncodeLow_refines s f k r hsup hc hwf hn
  refine ⟨f', h1, hw, ?_⟩
  rw [← Flat.lanes_map_rd, ha, encodeLow_blocks]
  exact encodeLow_eq_cauchy s k r hsup _ (by rw [Array.size_map, Flat.absV_size, hc]) hj

/-- the decoders on the flat memory are, lane by lane, the lane-model decoders (to which `decode_core`,
    `decodeHigh_correct`, `decodeLow_correct` and the round-trip theorem of C01 apply) -/
theorem flatDecode_lanes (s : Sched) (lw : Array Nat) (f : Flat) (k r : Nat) (recv : Nat → Bool)
    (hwf : f.WF) (hn : 0 < f.len64) :
    (supportsHigh k r = true → f.count = highDecWorkCount k r →
      ∃ f', flatDecodeHigh s lw f k r recv = some f' ∧ f'.WF ∧
        (f'.absAt f.len64).map (bvecLanes f.len64)
          = decodeHigh s lw k r recv (f.absV.map (bvecLanes f.len64))) ∧
    (supportsLow k r = true → f.count = lowDecWorkCount k r →
      ∃ f', flatDecodeLow s lw f k r recv = some f' ∧ f'.WF ∧
        (f'.absAt f.len64).map (bvecLanes f.len64)
          = decodeLow s lw k r recv (f.absV.map (bvecLanes f.len64))) := by
  constructor
  · intro hsup hc
    obtain ⟨f', h1, hw, _, _, ha⟩ := flatDecodeHigh_refines s lw f k r recv hsup hc hwf hn
    exact ⟨f', h1, hw, by rw [ha, decodeHigh_blocks]⟩
  · intro hsup hc
    obtain ⟨f', h1, hw, _, _, ha⟩ := flatDecodeLow_refines s lw f k r recv hsup hc hwf hn
    exact ⟨f', h1, hw, by rw [ha, decodeLow_blocks]⟩

end RS
