/-
  Auxiliary material for `Proofs/CauchyEnc.lean` (property C02), all in the namespace `RS.CE`:

  1. XOR-sums `xsum` (of `Lagrange.lean`): congruence, additivity, splitting, trimming zero terms;
  2. `lchF`: additivity in the coefficients; the bridge `lchF` / `lchSum`;
  3. windowed transforms for an arbitrary schedule: `fft_window` (a possibly truncated fft
     evaluates the LCH polynomial of the window on the first `trunc` outputs) and `ifft_window`
     (a possibly truncated ifft of a window with a zero tail interpolates);
  4. pointwise descriptions of `xorWithin` and `copyWithin`;
  5. the lane projection of the fold of `Spec.cauchyEncode`.
-/
import RSVerif.Proofs.FftEval
import RSVerif.Proofs.Lagrange
import RSVerif.Proofs.StaleAux
import RSVerif.Proofs.Hom
import RSVerif.Proofs.Lanes

namespace RS
namespace CE
open ShardAlg

/-! ### 1. XOR-sums -/

theorem xsum_eq (m : Nat) (g : Nat → Sym) : xsum m g = xsumF g m := foldl_xor_eq_xsumF g m

theorem xsum_zero_len (g : Nat → Sym) : xsum 0 g = 0#16 := rfl

theorem xsum_succ (m : Nat) (g : Nat → Sym) : xsum (m + 1) g = xsum m g ^^^ g m := by
  rw [xsum_eq, xsum_eq]; rfl

theorem xsum_congr' {m : Nat} {g h : Nat → Sym} (H : ∀ t, t < m → g t = h t) :
    xsum m g = xsum m h := by
  rw [xsum_eq, xsum_eq]; exact xsum_congr H

theorem xsum_xor' (m : Nat) (g h : Nat → Sym) :
    xsum m (fun t => g t ^^^ h t) = xsum m g ^^^ xsum m h := by
  rw [xsum_eq, xsum_eq, xsum_eq]; exact xsum_xor g h m

theorem xsum_split' (a b : Nat) (g : Nat → Sym) :
    xsum (a + b) g = xsum a g ^^^ xsum b (fun t => g (a + t)) := by
  rw [xsum_eq, xsum_eq, xsum_eq]; exact xsum_split g a b

theorem xsum_zero' {m : Nat} {g : Nat → Sym} (H : ∀ t, t < m → g t = 0#16) : xsum m g = 0#16 := by
  induction m with
  | zero => rfl
  | succ m ih => rw [xsum_succ, ih (fun t ht => H t (by omega)), H m (by omega)]; rfl

/-- terms beyond `k` that vanish can be dropped -/
theorem xsum_trim {k n : Nat} {g : Nat → Sym} (hkn : k ≤ n)
    (H : ∀ t, k ≤ t → t < n → g t = 0#16) : xsum n g = xsum k g := by
  obtain ⟨d, rfl⟩ : ∃ d, n = k + d := ⟨n - k, by omega⟩
  rw [xsum_split', xsum_zero' (fun t ht => H (k + t) (by omega) (by omega)), xor_zero']

/-! ### 2. `lchF` -/

theorem lchF_congr {m : Nat} {c c' : Nat → Sym} (x : Sym) (H : ∀ t, t < m → c t = c' t) :
    lchF m c x = lchF m c' x := by
  unfold lchF
  exact xsum_congr' (fun t ht => by rw [H t ht])

theorem lchF_xor (m : Nat) (c c' : Nat → Sym) (x : Sym) :
    lchF m (fun t => c t ^^^ c' t) x = lchF m c x ^^^ lchF m c' x := by
  unfold lchF
  rw [← xsum_xor']
  exact xsum_congr' (fun t _ => gmul_xor_left _ _ _)

theorem lchF_eq_lchSum (a : Array Sym) (pos size : Nat) (x : Sym) :
    lchF size (fun t => rd a (pos + t)) x = lchSum a pos size x := rfl

/-! ### 3. windowed transforms, any schedule -/

/-- a (possibly truncated) fft of any schedule on the window `[pos, pos + 2^e)` leaves at
    `pos + i`, `i < trunc`, the value at the point `delta + i` of the polynomial whose LCH
    coefficients the window held -/
theorem fft_window (s : Sched) (a : Array Sym) (pos e trunc delta : Nat) (he : e ≤ 16)
    (hd : 2 ^ e ∣ delta) (hp : pos + 2 ^ e ≤ a.size) (ht : trunc ≤ 2 ^ e) {i : Nat}
    (hi : i < trunc) :
    rd (fft s a pos (2 ^ e) trunc delta) (pos + i) =
      lchF (2 ^ e) (fun t => rd a (pos + t)) (BitVec.ofNat 16 (delta + i)) := by
  rw [fft_trunc s .naive a pos (2 ^ e) e trunc delta rfl ht hp hi,
    fft_eval' a pos e delta he hd hp i (by omega), lchF_eq_lchSum]

/-- a (possibly truncated) ifft of any schedule on a window whose tail from `trunc` on is zero
    yields the LCH coefficients of the interpolant through the points `delta + i` -/
theorem ifft_window (s : Sched) (a : Array Sym) (pos e trunc delta : Nat) (he : e ≤ 16)
    (hd : 2 ^ e ∣ delta) (hb : delta + 2 ^ e ≤ 65536) (hp : pos + 2 ^ e ≤ a.size)
    (ht : trunc ≤ 2 ^ e) (hz : ∀ i, trunc ≤ i → i < 2 ^ e → rd a (pos + i) = 0#16)
    {i : Nat} (hi : i < 2 ^ e) :
    lchF (2 ^ e) (fun t => rd (ifft s a pos (2 ^ e) trunc delta) (pos + t))
        (BitVec.ofNat 16 (delta + i)) = rd a (pos + i) := by
  rw [ifft_trunc s .naive a pos (2 ^ e) e trunc delta rfl ht hp hz, lchF_eq_lchSum]
  exact ifft_eval a pos e delta he hd hb hp i hi

/-! ### 4. `xorWithin` / `copyWithin` pointwise -/

section ops
variable {V : Type} [ShardAlg V]

open Stale in
theorem xorWithin_prefix (a : Array V) (x y count : Nat)
    (hd : x + count ≤ y ∨ y + count ≤ x) :
    ∀ j, j ≤ count →
      ((List.range j).foldl
          (fun a i => a.setIfInBounds (x + i) (add (rd a (x + i)) (rd a (y + i)))) a).size = a.size ∧
      ∀ p, p < a.size → rd ((List.range j).foldl
          (fun a i => a.setIfInBounds (x + i) (add (rd a (x + i)) (rd a (y + i)))) a) p =
        if x ≤ p ∧ p < x + j then add (rd a p) (rd a (p - x + y)) else rd a p := by
  intro j
  induction j with
  | zero =>
    intro _
    refine ⟨rfl, fun p _ => ?_⟩
    rw [if_neg (by omega)]; rfl
  | succ j ih =>
    intro hj
    obtain ⟨hs, hr⟩ := ih (by omega)
    rw [List.range_succ, List.foldl_append]
    simp only [List.foldl_cons, List.foldl_nil]
    refine ⟨by rw [Array.size_setIfInBounds, hs], fun p hpa => ?_⟩
    rw [rd_setIfInBounds, hs]
    by_cases hp : p = x + j
    · subst hp
      rw [if_pos ⟨rfl, hpa⟩, if_pos (by omega), hr (x + j) hpa, if_neg (by omega)]
      have e : x + j - x + y = y + j := by omega
      rw [e]
      by_cases hy : y + j < a.size
      · rw [hr (y + j) hy, if_neg (by omega)]
      · have h1 := rd_eq_zero ((List.range j).foldl
            (fun a i => a.setIfInBounds (x + i) (add (rd a (x + i)) (rd a (y + i)))) a)
            (p := y + j) (by rw [hs]; exact hy)
        rw [h1, rd_eq_zero a hy]
    · rw [if_neg (fun h => hp h.1), hr p hpa]
      by_cases hw : x ≤ p ∧ p < x + j
      · rw [if_pos hw, if_pos (by omega)]
      · rw [if_neg hw, if_neg (by omega)]

theorem xorWithin_size (a : Array V) (x y count : Nat)
    (hd : x + count ≤ y ∨ y + count ≤ x) : (xorWithin a x y count).size = a.size :=
  (xorWithin_prefix a x y count hd count (Nat.le_refl _)).1

/-- `xorWithin` pointwise, disjoint ranges -/
theorem rd_xorWithin (a : Array V) (x y count : Nat)
    (hd : x + count ≤ y ∨ y + count ≤ x) {p : Nat} (hp : p < a.size) :
    rd (xorWithin a x y count) p =
      if x ≤ p ∧ p < x + count then add (rd a p) (rd a (p - x + y)) else rd a p :=
  (xorWithin_prefix a x y count hd count (Nat.le_refl _)).2 p hp

open Stale in
theorem copyWithin_prefix (a : Array V) (src dest count : Nat)
    (hd : src + count ≤ dest ∨ dest + count ≤ src) :
    ∀ j, j ≤ count →
      ((List.range j).foldl
          (fun a i => a.setIfInBounds (dest + i) (rd a (src + i))) a).size = a.size ∧
      ∀ p, p < a.size → rd ((List.range j).foldl
          (fun a i => a.setIfInBounds (dest + i) (rd a (src + i))) a) p =
        if dest ≤ p ∧ p < dest + j then rd a (p - dest + src) else rd a p := by
  intro j
  induction j with
  | zero =>
    intro _
    refine ⟨rfl, fun p _ => ?_⟩
    rw [if_neg (by omega)]; rfl
  | succ j ih =>
    intro hj
    obtain ⟨hs, hr⟩ := ih (by omega)
    rw [List.range_succ, List.foldl_append]
    simp only [List.foldl_cons, List.foldl_nil]
    refine ⟨by rw [Array.size_setIfInBounds, hs], fun p hpa => ?_⟩
    rw [rd_setIfInBounds, hs]
    by_cases hp : p = dest + j
    · subst hp
      rw [if_pos ⟨rfl, hpa⟩, if_pos (by omega)]
      have e : dest + j - dest + src = src + j := by omega
      rw [e]
      by_cases hy : src + j < a.size
      · rw [hr (src + j) hy, if_neg (by omega)]
      · have h1 := rd_eq_zero ((List.range j).foldl
            (fun a i => a.setIfInBounds (dest + i) (rd a (src + i))) a)
            (p := src + j) (by rw [hs]; exact hy)
        rw [h1, rd_eq_zero a hy]
    · rw [if_neg (fun h => hp h.1), hr p hpa]
      by_cases hw : dest ≤ p ∧ p < dest + j
      · rw [if_pos hw, if_pos (by omega)]
      · rw [if_neg hw, if_neg (by omega)]

theorem copyWithin_size (a : Array V) (src dest count : Nat)
    (hd : src + count ≤ dest ∨ dest + count ≤ src) : (copyWithin a src dest count).size = a.size :=
  (copyWithin_prefix a src dest count hd count (Nat.le_refl _)).1

/-- `copyWithin` pointwise, disjoint ranges -/
theorem rd_copyWithin (a : Array V) (src dest count : Nat)
    (hd : src + count ≤ dest ∨ dest + count ≤ src) {p : Nat} (hp : p < a.size) :
    rd (copyWithin a src dest count) p =
      if dest ≤ p ∧ p < dest + count then rd a (p - dest + src) else rd a p :=
  (copyWithin_prefix a src dest count hd count (Nat.le_refl _)).2 p hp

end ops

/-! ### 5. lanes of the fold of `cauchyEncode` -/

theorem lane_zero {L : Nat} (l : Fin L) : (Vector.replicate L 0#16 : Vector Sym L)[l] = 0#16 := by
  simp

theorem lane_add_smul {L : Nat} (l : Fin L) (acc v : Vector Sym L) (g : Sym) :
    (ShardAlg.add acc (ShardAlg.smul g v))[l] = acc[l] ^^^ gmul g v[l] := by
  simp [ShardAlg.add, ShardAlg.smul]

/-- lane `l` of `Σ_i g_i · v_i` (the fold of `cauchyEncode`) is the XOR-sum of the lane-`l`
    products -/
theorem lane_fold {L : Nat} (l : Fin L) (g : Nat → Sym) (v : Nat → Vector Sym L) (k : Nat) :
    ((List.range k).foldl (fun acc i => ShardAlg.add acc (ShardAlg.smul (g i) (v i)))
        (Vector.replicate L 0#16))[l] = xsum k (fun i => gmul (g i) (v i)[l]) := by
  induction k with
  | zero => exact lane_zero l
  | succ k ih =>
    rw [List.range_succ, List.foldl_append, xsum_succ]
    simp only [List.foldl_cons, List.foldl_nil]
    rw [lane_add_smul, ih]

/-- a fold over `List.range k` only evaluates the step function below `k` -/
theorem foldl_range_congr {β : Type} (f f' : β → Nat → β) (k : Nat) (b : β)
    (H : ∀ acc i, i < k → f acc i = f' acc i) :
    (List.range k).foldl f b = (List.range k).foldl f' b := by
  induction k with
  | zero => rfl
  | succ k ih =>
    rw [List.range_succ, List.foldl_append, List.foldl_append, ih (fun a i hi => H a i (by omega))]
    simp only [List.foldl_cons, List.foldl_nil]
    exact H _ _ (by omega)

end CE
end RS

namespace RS
namespace CE
open ShardAlg

/-- an index-dependent invariant carried along a fold over `List.range n` -/
theorem foldl_range_inv {β : Type} (P : Nat → β → Prop) (f : β → Nat → β) (n : Nat) {b : β}
    (h0 : P 0 b) (hstep : ∀ i a, i < n → P i a → P (i + 1) (f a i)) :
    P n ((List.range n).foldl f b) := by
  induction n with
  | zero => exact h0
  | succ n ih =>
    rw [List.range_succ, List.foldl_append]
    exact hstep n _ (Nat.lt_succ_self n) (ih fun i a hi => hstep i a (Nat.lt_succ_of_lt hi))

/-! ### 6. lanes of `cauchyEncode` -/

theorem cauchyEncode_lane_high {L : Nat} (k r : Nat) (orig : Array (Vector Sym L)) {j : Nat}
    (hj : j < r) (l : Fin L) :
    ((cauchyEncode .high k r orig).getD j (Vector.replicate L 0#16))[l] =
      xsum k (fun i => gmul (cauchyHigh k r j i) (orig.getD i (Vector.replicate L 0#16))[l]) := by
  rw [← lane_fold l (fun i => cauchyHigh k r j i) (fun i => orig.getD i (Vector.replicate L 0#16)) k]
  simp only [cauchyEncode, Array.getD_eq_getD_getElem?, Array.getElem?_ofFn, hj, dite_true,
    Option.getD_some]
  congr 1
  apply foldl_range_congr
  intro acc i hi
  simp only [hi, dite_true, cauchyHigh, Option.getD_some]

theorem cauchyEncode_lane_low {L : Nat} (k r : Nat) (orig : Array (Vector Sym L)) {j : Nat}
    (hj : j < r) (l : Fin L) :
    ((cauchyEncode .low k r orig).getD j (Vector.replicate L 0#16))[l] =
      xsum k (fun i => gmul (cauchyLow k r j i) (orig.getD i (Vector.replicate L 0#16))[l]) := by
  rw [← lane_fold l (fun i => cauchyLow k r j i) (fun i => orig.getD i (Vector.replicate L 0#16)) k]
  simp only [cauchyEncode, Array.getD_eq_getD_getElem?, Array.getElem?_ofFn, hj, dite_true,
    Option.getD_some]
  rfl

/-- lane projection of a read -/
theorem rd_lane {L : Nat} (l : Fin L) (a : Array (Vector Sym L)) (p : Nat) :
    (rd a p)[l] = rd (a.map (·[l])) p :=
  (rd_map (ShardHom.lane L l) a p).symm

end CE
end RS
