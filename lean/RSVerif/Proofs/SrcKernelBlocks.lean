/-
  The chunk kernels of the SOURCE (Gen/SrcKernel.lean, via Proofs/SrcKernelSpec.lean) applied to whole shards are the
  block-level operations `bMul` / `bXor` of Model/Blocks.lean — the operations from which the flat-memory butterflies
  `Flat.fftBfly` / `Flat.ifftBfly` (Model/Flat.lean) are built and on which the refinement chain
  flat bytes → block vectors → lanes is proved (Proofs/FlatSpec.lean, FlatEngineSpec.lean).
-/
import RSVerif.Proofs.SrcKernelSpec
import RSVerif.Model.Flat

namespace RS.SrcK
open RS RS.RustK


theorem zipUpd1_eq_zipWith (g : Block → Block → Block) (xs ys : List Block) (h : xs.length = ys.length) :
    zipUpd1 g xs ys = List.zipWith g xs ys := by
  induction xs generalizing ys with
  | nil => cases ys <;> simp [zipUpd1]
  | cons a as ih =>
    cases ys with
    | nil => simp at h
    | cons b bs =>
      simp only [zipUpd1, List.zipWith_cons_cons]
      rw [ih bs (by simpa using h)]

theorem zipUpd2_eq_zipWith (g : Block → Block → Block × Block) (xs ys : List Block) (h : xs.length = ys.length) :
    zipUpd2 g xs ys = (List.zipWith (fun a b => (g a b).1) xs ys, List.zipWith (fun a b => (g a b).2) xs ys) := by
  induction xs generalizing ys with
  | nil =>
    cases ys with
    | nil => simp [zipUpd2]
    | cons b bs => simp at h
  | cons a as ih =>
    cases ys with
    | nil => simp at h
    | cons b bs =>
      simp only [zipUpd2, List.zipWith_cons_cons]
      rw [ih bs (by simpa using h)]

theorem bMul_eq_map (f : Sym → Sym) (x : BShard) : bMul f x = x.map (specMulBlock f) := by
  apply Array.ext
  · simp [bMul]
  · intro i h1 h2
    have hi : i < x.size := by simpa [bMul] using h1
    simp only [bMul, Array.getElem_ofFn, Array.getElem_map]
    rw [Array.getD_eq_getD_getElem?, Array.getElem?_eq_getElem hi]
    rfl

theorem bXor_eq_zipWith (x y : BShard) (h : x.size = y.size) : bXor x y = Array.zipWith blockXor x y := by
  apply Array.ext
  · simp [bXor, h]
  · intro i h1 h2
    have hi : i < x.size := by simpa [bXor] using h1
    have hj : i < y.size := h ▸ hi
    simp only [bXor, Array.getElem_ofFn, Array.getElem_zipWith]
    rw [Array.getD_eq_getD_getElem?, Array.getElem?_eq_getElem hi, Array.getD_eq_getD_getElem?, Array.getElem?_eq_getElem hj]
    rfl

theorem zipWith_toArray (g : Block → Block → Block) (x y : BShard) :
    (List.zipWith g x.toList y.toList).toArray = Array.zipWith g x y := by
  apply Array.toList_inj.mp
  simp

/-- with the tables of the multiplier `g^m`: `mul`, `xor` and the two partial butterflies of the translated source,
    run on the blocks of one or two shards of equal length, give exactly `bMul (g^m ⊗ ·)`, `bXor`, and the two
    assignments of `Flat.fftBfly (gexp m)` / `Flat.ifftBfly (gexp m)` -/
theorem src_kernels_are_block_ops (m : Nat) (x y : BShard) (h : x.size = y.size) :
    let f := fun s => gmul (gexp m) s
    (NoSimd_mul (lut16 f) x.toList).toArray = bMul f x ∧
    (Utils_xor x.toList y.toList).toArray = bXor x y ∧
    ((NoSimd_fft_butterfly_partial (lut16 f) x.toList y.toList).1.toArray = bXor x (bMul f y) ∧
     (NoSimd_fft_butterfly_partial (lut16 f) x.toList y.toList).2.toArray = bXor y (bXor x (bMul f y))) ∧
    ((NoSimd_ifft_butterfly_partial (lut16 f) x.toList y.toList).2.toArray = bXor y x ∧
     (NoSimd_ifft_butterfly_partial (lut16 f) x.toList y.toList).1.toArray = bXor x (bMul f (bXor y x))) := by
  intro f
  have hn := mulNibble_funext f (gmul_gexp_add m)
  have hl : x.toList.length = y.toList.length := by simpa using h
  have hmul : nosimdMulBlock f = specMulBlock f := funext (nosimdMulBlock_eq f (gmul_gexp_add m))
  have sMul : ∀ z : BShard, (bMul f z).size = z.size := fun z => by simp [bMul]
  have sXor : ∀ a b : BShard, (bXor a b).size = a.size := fun a b => by simp [bXor]
  refine ⟨?_, ?_, ⟨?_, ?_⟩, ?_, ?_⟩
  · rw [nosimd_mul, hmul, bMul_eq_map]; apply Array.toList_inj.mp; simp
  · rw [utils_xor, zipUpd1_eq_zipWith _ _ _ hl, zipWith_toArray, bXor_eq_zipWith _ _ h]
  · rw [nosimd_fft_partial, zipUpd2_eq_zipWith _ _ _ hl, zipWith_toArray,
      bXor_eq_zipWith _ _ (by rw [sMul]; exact h), bMul_eq_map]
    simp only [nosimdFftb_spec, hn]
    apply Array.ext <;> simp
  · rw [nosimd_fft_partial, zipUpd2_eq_zipWith _ _ _ hl, zipWith_toArray,
      bXor_eq_zipWith _ _ (by rw [sXor]; exact h.symm), bXor_eq_zipWith _ _ (by rw [sMul]; exact h), bMul_eq_map]
    simp only [nosimdFftb_spec, hn]
    apply Array.ext <;> simp [h]
  · rw [nosimd_ifft_partial, zipUpd2_eq_zipWith _ _ _ hl, zipWith_toArray, bXor_eq_zipWith _ _ h.symm]
    simp only [nosimdIfftb_spec, hn]
    apply Array.ext <;> simp [h]
  · rw [nosimd_ifft_partial, zipUpd2_eq_zipWith _ _ _ hl, zipWith_toArray,
      bXor_eq_zipWith _ _ (by rw [sMul, sXor]; exact h), bMul_eq_map, bXor_eq_zipWith _ _ h.symm]
    simp only [nosimdIfftb_spec, hn]
    apply Array.ext <;> simp [h]


end RS.SrcK

#print axioms RS.SrcK.src_kernels_are_block_ops
