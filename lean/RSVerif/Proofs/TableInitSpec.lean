/-
  The table construction algorithms of `Model/TableInit.lean` (`initialize_exp_log`,
  `initialize_mul16`, `initialize_log_walsh`, `initialize_skew` of src/engine/tables.rs) produce
  the specified tables of `Model/Tables.lean`.

  All proofs are structural inductions over the recursions with the counts as variables; the
  kernel never evaluates a table.
-/
import RSVerif.Model.TableInit
import RSVerif.Proofs.TableSpec
import RSVerif.Proofs.FftEval
import RSVerif.Proofs.Walsh

namespace RS

/-! ## 0. generic helpers -/

theorem toNat_ofNat_lt {c : Nat} (h : c < 65536) : (BitVec.ofNat 16 c).toNat = c := by
  rw [BitVec.toNat_ofNat]; exact Nat.mod_eq_of_lt h

theorem ofNat_toNat_sym (x : Sym) : BitVec.ofNat 16 x.toNat = x :=
  BitVec.eq_of_toNat_eq (toNat_ofNat_lt x.isLt)

theorem sym_toNat_lt (x : Sym) : x.toNat < 65536 := x.isLt

theorem natXor_toNat (x y : Sym) : Nat.xor x.toNat y.toNat = (x ^^^ y).toNat :=
  (BitVec.toNat_xor x y).symm

theorem getD_ofFn {n : Nat} (f : Fin n → Nat) (k : Nat) (h : k < n) :
    (Array.ofFn f).getD k 0 = f ⟨k, h⟩ := by
  simp [Array.getD, h]

theorem getD_replicate_zero (n k : Nat) : (Array.replicate n 0).getD k 0 = 0 := by
  by_cases h : k < n <;> simp [Array.getD, h]

/-- a fold of `setIfInBounds` never changes the size -/
theorem foldl_set_size {β : Type} (idx : Array Nat → β → Nat) (val : Array Nat → β → Nat) :
    ∀ (l : List β) (a : Array Nat),
      (l.foldl (fun a j => a.setIfInBounds (idx a j) (val a j)) a).size = a.size
  | [], _ => rfl
  | j :: l, a => by
    rw [List.foldl_cons, foldl_set_size idx val l, Array.size_setIfInBounds]

/-! ## A.1 the LFSR loop -/

theorem xor_high_bit {r : Nat} (hr : r < 65536) : Nat.xor (65536 + r) 0x1002D = Nat.xor r 0x2D := by
  have h1 : 65536 + r = 65536 ^^^ r :=
    add_eq_xor_of_dvdF (j := 16) (D := 65536) (Nat.dvd_refl _) hr
  have h2 : (0x1002D : Nat) = 65536 ^^^ 0x2D := by decide
  show (65536 + r) ^^^ 0x1002D = r ^^^ 0x2D
  rw [h1, h2, Nat.xor_assoc, ← Nat.xor_assoc r, Nat.xor_comm r 65536, Nat.xor_assoc 65536 r,
    ← Nat.xor_assoc 65536 65536, Nat.xor_self, Nat.zero_xor]

theorem lfsrStep_eq {s : Nat} (hs : s < 65536) :
    lfsrStep s = (mulX (BitVec.ofNat 16 s)).toNat := by
  unfold lfsrStep mulX polyLow
  have hmsb : (BitVec.ofNat 16 s).msb = decide (32768 ≤ s) := by
    rw [BitVec.msb_eq_decide, toNat_ofNat_lt hs]
  have hshl : ((BitVec.ofNat 16 s) <<< 1).toNat = (s * 2) % 65536 := by
    rw [BitVec.toNat_shiftLeft, toNat_ofNat_lt hs, Nat.shiftLeft_eq]
  rw [hmsb]
  by_cases h : 32768 ≤ s
  · have h1 : s * 2 ≥ 65536 := by omega
    simp only [h, decide_true, if_true]
    rw [if_pos h1, BitVec.toNat_xor, hshl]
    have e : s * 2 = 65536 + (s * 2 - 65536) := by omega
    have e2 : s * 2 % 65536 = s * 2 - 65536 := by omega
    rw [e2]
    conv_lhs => rw [e]
    exact xor_high_bit (by omega)
  · have h1 : ¬ s * 2 ≥ 65536 := by omega
    simp only [h, decide_false, Bool.false_eq_true, if_false]
    rw [if_neg h1, hshl]
    omega

theorem gexp_eq_phiInv_xpow (k : Nat) (hk : k < 2 ^ 64) : gexp k = phiInv (xpow k) :=
  GF16.gpow_gen k hk

theorem phi_gexp (k : Nat) (hk : k < 2 ^ 64) : phi (gexp k) = xpow k := by
  rw [gexp_eq_phiInv_xpow k hk, phi_phiInv]

theorem xpow_injOn {a b : Nat} (ha : a < 65535) (hb : b < 65535) (h : xpow a = xpow b) : a = b := by
  apply gexp_injOn ha hb
  rw [gexp_eq_phiInv_xpow a (by omega), gexp_eq_phiInv_xpow b (by omega), h]

theorem xpow_ne_zero (k : Nat) (hk : k < 2 ^ 64) : xpow k ≠ 0 := by
  intro h
  apply gexp_ne_zero k hk
  rw [gexp_eq_phiInv_xpow k hk, h]
  exact phiInv_zero

/-- every non-zero polynomial-representation element is a power of `x` -/
theorem exists_xpow (p : Sym) (hp : p ≠ 0) : ∃ k, k < 65535 ∧ xpow k = p := by
  have hq : phiInv p ≠ 0 := by
    intro h
    apply hp
    have := congrArg phi h
    rw [phi_phiInv, phi_zero] at this
    exact this
  obtain ⟨k, hk, h⟩ := exists_log (phiInv p) hq
  refine ⟨k, hk, ?_⟩
  rw [gexp_eq_phiInv_xpow k (by omega)] at h
  exact GF16.phiInv_injective h

/-- invariant of the LFSR loop once the exponents `k < K` have been written -/
def LfsrInv (K : Nat) (a : Array Nat) : Prop :=
  a.size = 65536 ∧ ∀ p : Sym,
    (∀ k, k < K → xpow k = p → a.getD p.toNat 0 = k) ∧
    ((∀ k, k < K → xpow k ≠ p) → a.getD p.toNat 0 = 0)

theorem LfsrInv.step {K : Nat} {a : Array Nat} (hK : K < 65535) (h : LfsrInv K a) :
    LfsrInv (K + 1) (a.setIfInBounds (xpow K).toNat K) := by
  obtain ⟨hs, hx⟩ := h
  refine ⟨by rw [Array.size_setIfInBounds, hs], fun x => ?_⟩
  have hlt : x.toNat < a.size := by rw [hs]; exact x.isLt
  rw [getD_setIfInBounds]
  by_cases hx' : xpow K = x
  · have hc : (xpow K).toNat = x.toNat ∧ x.toNat < a.size := ⟨by rw [hx'], hlt⟩
    rw [if_pos hc]
    refine ⟨fun k hk hk' => ?_, fun hn => absurd hx' (hn K (by omega))⟩
    exact (xpow_injOn (by omega) hK (hk'.trans hx'.symm)).symm
  · have hc : ¬((xpow K).toNat = x.toNat ∧ x.toNat < a.size) :=
      fun hc => hx' (BitVec.eq_of_toNat_eq hc.1)
    rw [if_neg hc]
    refine ⟨fun k hk hk' => ?_, fun hn => (hx x).2 (fun k hk => hn k (by omega))⟩
    have : k < K := by
      rcases Nat.lt_succ_iff_lt_or_eq.1 hk with h | h
      · exact h
      · subst h; exact absurd hk' hx'
    exact (hx x).1 k this hk'

theorem lfsrFill_succ (n i s : Nat) (a : Array Nat) :
    lfsrFill (n + 1) i s a = lfsrFill n (i + 1) (lfsrStep s) (a.setIfInBounds s i) := rfl

theorem lfsrFill_inv (n : Nat) : ∀ (K s : Nat) (a : Array Nat), K + n ≤ 65535 →
    s = (xpow K).toNat → LfsrInv K a → LfsrInv (K + n) (lfsrFill n K s a) := by
  induction n with
  | zero => intro K s a _ _ h; exact h
  | succ n ih =>
    intro K s a hb hs h
    subst hs
    have h1 : LfsrInv (K + 1) _ := h.step (Nat.lt_of_lt_of_le (by omega) hb)
    have hs' : lfsrStep (xpow K).toNat = (xpow (K + 1)).toNat := by
      rw [lfsrStep_eq (sym_toNat_lt _), ofNat_toNat_sym, xpow_succ]
    have h2 := ih (K + 1) _ _ (by omega) hs' h1
    rw [show K + 1 + n = K + (n + 1) by omega] at h2
    rw [lfsrFill_succ]
    exact h2

theorem lfsrInv_init : LfsrInv 0 (Array.replicate 65536 0) :=
  ⟨Array.size_replicate, fun _ =>
    ⟨fun k hk => absurd hk (Nat.not_lt_zero k), fun _ => getD_replicate_zero _ _⟩⟩

/-- A.1: after the LFSR loop the array holds `i` at index `x^i` (`i < 65535`), `0` elsewhere -/
theorem lfsrFill_spec : LfsrInv 65535 (lfsrFill 65535 0 1 (Array.replicate 65536 0)) := by
  have := lfsrFill_inv 65535 0 1 _ (by decide) (by decide) lfsrInv_init
  rw [Nat.zero_add] at this
  exact this

theorem lfsrFill_get {E : Array Nat} (hE : LfsrInv 65535 E) (i : Nat) (hi : i < 65535) :
    E.getD (xpow i).toNat 0 = i := (hE.2 (xpow i)).1 i hi rfl

theorem lfsrFill_get_zero {E : Array Nat} (hE : LfsrInv 65535 E) : E.getD 0 0 = 0 :=
  (hE.2 0#16).2 (fun k hk => xpow_ne_zero k (by omega))

/-- the polynomial-representation log table `exp0` is `logArr ∘ phiInv` -/
theorem exp0_spec {E : Array Nat} (hE : LfsrInv 65535 E) (p : Sym) :
    (E.setIfInBounds 0 65535).getD p.toNat 0 = logArr.getD (phiInv p).toNat 0 := by
  rw [getD_setIfInBounds]
  by_cases hp : p = 0
  · subst hp
    rw [if_pos ⟨rfl, by rw [hE.1]; decide⟩, phiInv_zero]
    exact logArr_zero.symm
  · rw [if_neg (fun h => hp (BitVec.eq_of_toNat_eq h.1.symm))]
    obtain ⟨k, hk, rfl⟩ := exists_xpow p hp
    rw [lfsrFill_get hE k hk, ← gexp_eq_phiInv_xpow k (by omega), logArr_gexp k hk]

/-! ## A.2 the Cantor conversion loop -/

/-- `a[j + w] := f a[j]` for `j < m ≤ w` -/
theorem shiftFill_getD (f : Nat → Nat) (w : Nat) : ∀ (m : Nat) (a : Array Nat), m ≤ w → ∀ k,
    ((List.range m).foldl (fun a j => a.setIfInBounds (j + w) (f (a.getD j 0))) a).getD k 0 =
      if w ≤ k ∧ k < w + m ∧ k < a.size then f (a.getD (k - w) 0) else a.getD k 0 := by
  intro m
  induction m with
  | zero =>
    intro a _ k
    rw [if_neg (by omega)]; rfl
  | succ m ih =>
    intro a hm k
    have hm' : ¬ (w ≤ m ∧ m < w + m ∧ m < a.size) := by omega
    have e1 := ih a (by omega) m
    rw [if_neg hm'] at e1
    rw [List.range_succ, List.foldl_append, List.foldl_cons, List.foldl_nil, getD_setIfInBounds,
      foldl_set_size (fun _ j => j + w) (fun a j => f (a.getD j 0)), e1, ih a (by omega) k]
    by_cases h1 : m + w = k ∧ k < a.size
    · rw [if_pos h1, if_pos ⟨by omega, by omega, h1.2⟩]
      congr 2; omega
    · rw [if_neg h1]
      by_cases h2 : w ≤ k ∧ k < w + m ∧ k < a.size
      · rw [if_pos h2, if_pos ⟨h2.1, by omega, h2.2.2⟩]
      · rw [if_neg h2, if_neg (by omega)]

theorem phi_basis_fin : ∀ i : Fin 16,
    cantorBasis.getD i.val 0#16 = phi (BitVec.ofNat 16 (2 ^ i.val)) := by decide

/-- invariant of the Cantor loop: the first `2^i` entries are converted -/
def CantorInv (i : Nat) (a : Array Nat) : Prop :=
  a.size = 65536 ∧ ∀ c, c < 2 ^ i → a.getD c 0 = (phi (BitVec.ofNat 16 c)).toNat

theorem cantorFill_succ (n i : Nat) (a : Array Nat) :
    cantorFill (n + 1) i a = cantorFill n (i + 1)
      ((List.range (2 ^ i)).foldl (fun a j => a.setIfInBounds (j + 2 ^ i)
        (Nat.xor (a.getD j 0) (cantorBasis.getD i 0#16).toNat)) a) := rfl

theorem CantorInv.step {i : Nat} {a : Array Nat} (hi : i < 16) (h : CantorInv i a) :
    CantorInv (i + 1) ((List.range (2 ^ i)).foldl (fun a j => a.setIfInBounds (j + 2 ^ i)
        (Nat.xor (a.getD j 0) (cantorBasis.getD i 0#16).toNat)) a) := by
  obtain ⟨hs, hc⟩ := h
  refine ⟨?_, fun c hcl => ?_⟩
  · rw [foldl_set_size (fun _ j => j + 2 ^ i)
      (fun a j => Nat.xor (a.getD j 0) (cantorBasis.getD i 0#16).toNat), hs]
  · have hpow : 2 ^ (i + 1) ≤ 65536 :=
      Nat.pow_le_pow_right (by decide) (show i + 1 ≤ 16 by omega)
    have e : 2 ^ (i + 1) = 2 ^ i + 2 ^ i := by rw [Nat.pow_succ]; omega
    rw [shiftFill_getD (fun v => Nat.xor v (cantorBasis.getD i 0#16).toNat) (2 ^ i) (2 ^ i) a
      (Nat.le_refl _) c]
    by_cases hlo : c < 2 ^ i
    · rw [if_neg (by omega)]; exact hc c hlo
    · rw [if_pos ⟨by omega, by omega, by omega⟩, hc (c - 2 ^ i) (by omega),
        phi_basis_fin ⟨i, hi⟩, natXor_toNat, ← phi_xor, BitVec.xor_comm,
        ← ofNat_add_of_dvd (Nat.dvd_refl _) (show c - 2 ^ i < 2 ^ i by omega)]
      congr 3; omega

theorem cantorFill_inv (n : Nat) : ∀ (i : Nat) (a : Array Nat), i + n ≤ 16 →
    CantorInv i a → CantorInv (i + n) (cantorFill n i a) := by
  induction n with
  | zero => intro i a _ h; exact h
  | succ n ih =>
    intro i a hb h
    have h2 := ih (i + 1) _ (by omega) (h.step (by omega))
    rw [show i + 1 + n = i + (n + 1) by omega] at h2
    rw [cantorFill_succ]
    exact h2

theorem cantorInv_init : CantorInv 0 (Array.replicate 65536 0) := by
  refine ⟨Array.size_replicate, fun c hc => ?_⟩
  have : c = 0 := by simpa using hc
  subst this
  rw [getD_replicate_zero]
  decide

/-- A.2: after the Cantor loop entry `c` is `phi c` -/
theorem cantorFill_spec : CantorInv 16 (cantorFill 16 0 (Array.replicate 65536 0)) := by
  have := cantorFill_inv 16 0 _ (by decide) cantorInv_init
  rw [Nat.zero_add] at this
  exact this

theorem cantorFill_get {L : Array Nat} (hL : CantorInv 16 L) (c : Nat) (hc : c < 65536) :
    L.getD c 0 = (phi (BitVec.ofNat 16 c)).toNat := hL.2 c hc

/-! ## A.3 `initialize_exp_log` -/

/-- `initialize_exp_log` with the results of its first two loops abstracted -/
def initExpLogWith (E L : Array Nat) : Array Nat × Array Nat :=
  let exp0 := E.setIfInBounds 0 65535
  let log1 := Array.ofFn (n := 65536) fun i => exp0.getD (L.getD i.val 0) 0
  let exp1 := (List.range 65536).foldl (fun e i => e.setIfInBounds (log1.getD i 0) i) exp0
  let exp2 := exp1.setIfInBounds 65535 (exp1.getD 0 0)
  (exp2, log1)

theorem initExpLog_eq : initExpLog =
    initExpLogWith (lfsrFill 65535 0 1 (Array.replicate 65536 0))
      (cantorFill 16 0 (Array.replicate 65536 0)) := rfl

/-- scatter `e[f i] := i` for `i < n` with `f` injective: afterwards `e[f i] = i` -/
theorem scatter_getD (f : Nat → Nat) (e : Array Nat) : ∀ (n : Nat),
    (∀ i j, i < n → j < n → f i = f j → i = j) → (∀ i, i < n → f i < e.size) →
    ∀ i, i < n → ((List.range n).foldl (fun e i => e.setIfInBounds (f i) i) e).getD (f i) 0 = i := by
  intro n
  induction n with
  | zero => intro _ _ i hi; omega
  | succ n ih =>
    intro hinj hb i hi
    rw [List.range_succ, List.foldl_append, List.foldl_cons, List.foldl_nil, getD_setIfInBounds,
      foldl_set_size (fun _ i => f i) (fun _ i => i)]
    by_cases h : i = n
    · subst h
      rw [if_pos ⟨rfl, hb i hi⟩]
    · have hne : f n ≠ f i := fun h' => h (hinj n i (by omega) hi h').symm
      rw [if_neg (fun h' => hne h'.1)]
      exact ih (fun i j hi hj => hinj i j (by omega) (by omega)) (fun i hi => hb i (by omega))
        i (by omega)

theorem logArr_getD_lt {c : Nat} (hc : c < 65536) (h0 : c ≠ 0) :
    logArr.getD c 0 < 65535 ∧ gexp (logArr.getD c 0) = BitVec.ofNat 16 c := by
  have hne : BitVec.ofNat 16 c ≠ 0 := by
    intro h
    apply h0
    have := congrArg BitVec.toNat h
    rw [toNat_ofNat_lt hc] at this
    exact this
  have h1 := logArr_spec _ hne
  rw [toNat_ofNat_lt hc] at h1
  rw [h1]
  exact glog_spec _ hne

/-- the log table is injective on `[0, 65536)` -/
theorem logArr_inj {i j : Nat} (hi : i < 65536) (hj : j < 65536)
    (h : logArr.getD i 0 = logArr.getD j 0) : i = j := by
  by_cases hi0 : i = 0
  · by_cases hj0 : j = 0
    · omega
    · subst hi0
      have := (logArr_getD_lt hj hj0).1
      rw [← h, logArr_zero] at this
      omega
  · by_cases hj0 : j = 0
    · subst hj0
      have := (logArr_getD_lt hi hi0).1
      rw [h, logArr_zero] at this
      omega
    · have h1 := (logArr_getD_lt hi hi0).2
      have h2 := (logArr_getD_lt hj hj0).2
      rw [h, h2] at h1
      have := congrArg BitVec.toNat h1
      rw [toNat_ofNat_lt hi, toNat_ofNat_lt hj] at this
      exact this.symm

section withEL
variable {E L : Array Nat} (hE : LfsrInv 65535 E) (hL : CantorInv 16 L)
include hE hL

theorem initExpLogWith_log_size : (initExpLogWith E L).2.size = 65536 := Array.size_ofFn

theorem initExpLogWith_log (c : Nat) (hc : c < 65536) :
    (initExpLogWith E L).2.getD c 0 = logArr.getD c 0 := by
  show (Array.ofFn (n := 65536) fun i =>
    (E.setIfInBounds 0 65535).getD (L.getD i.val 0) 0).getD c 0 = _
  rw [getD_ofFn _ c hc]
  show (E.setIfInBounds 0 65535).getD (L.getD c 0) 0 = _
  rw [cantorFill_get hL c hc, exp0_spec hE, phiInv_phi, toNat_ofNat_lt hc]

theorem initExpLogWith_exp1 (k : Nat) (hk : k < 65535) :
    ((List.range 65536).foldl
      (fun e i => e.setIfInBounds ((initExpLogWith E L).2.getD i 0) i)
      (E.setIfInBounds 0 65535)).getD k 0 = (gexp k).toNat := by
  have hlog := initExpLogWith_log hE hL
  have key := scatter_getD (fun i => (initExpLogWith E L).2.getD i 0) (E.setIfInBounds 0 65535) 65536
    (fun i j hi hj h => by
      simp only [hlog i hi, hlog j hj] at h
      exact logArr_inj hi hj h)
    (fun i hi => by
      simp only [hlog i hi]
      rw [Array.size_setIfInBounds, hE.1]
      exact Nat.lt_succ_of_le (logArr_le i))
    (gexp k).toNat (sym_toNat_lt _)
  simp only [hlog _ (sym_toNat_lt (gexp k)), logArr_gexp k hk] at key
  exact key

theorem initExpLogWith_exp (k : Nat) (hk : k < 65536) :
    (initExpLogWith E L).1.getD k 0 = (gexp k).toNat := by
  show (Array.setIfInBounds _ 65535 _).getD k 0 = _
  rw [getD_setIfInBounds]
  by_cases h : k = 65535
  · subst h
    rw [if_pos ⟨rfl, ?_⟩]
    · have := initExpLogWith_exp1 hE hL 0 (by decide)
      rw [gexp_65535, ← gexp_zero]
      exact this
    · rw [foldl_set_size (fun _ i => (initExpLogWith E L).2.getD i 0) (fun _ i => i),
        Array.size_setIfInBounds, hE.1]
      decide
  · rw [if_neg (fun h' => h h'.1.symm)]
    exact initExpLogWith_exp1 hE hL k (by omega)

theorem initExpLogWith_exp_size : (initExpLogWith E L).1.size = 65536 := by
  show (Array.setIfInBounds _ 65535 _).size = _
  rw [Array.size_setIfInBounds,
    foldl_set_size (fun _ i => (initExpLogWith E L).2.getD i 0) (fun _ i => i),
    Array.size_setIfInBounds, hE.1]

end withEL

/-- A.3 (log): `log[c]` is the specified log table -/
theorem initExpLog_log (c : Nat) (hc : c < 65536) :
    initExpLog.2.getD c 0 = logArr.getD c 0 := by
  rw [initExpLog_eq]
  exact initExpLogWith_log lfsrFill_spec cantorFill_spec c hc

theorem initExpLog_log_size : initExpLog.2.size = 65536 := by
  rw [initExpLog_eq]
  exact initExpLogWith_log_size lfsrFill_spec cantorFill_spec

/-- A.3 (exp): `exp[k] = g^k`, in particular `exp[65535] = exp[0] = 1` -/
theorem initExpLog_exp (k : Nat) (hk : k < 65536) :
    initExpLog.1.getD k 0 = (gexp k).toNat := by
  rw [initExpLog_eq]
  exact initExpLogWith_exp lfsrFill_spec cantorFill_spec k hk

theorem initExpLog_exp_expArr (k : Nat) (hk : k < 65536) :
    initExpLog.1.getD k 0 = (expArr.getD k 0).toNat := by
  rw [initExpLog_exp k hk, expArr_get k hk]

theorem initExpLog_exp_size : initExpLog.1.size = 65536 := by
  rw [initExpLog_eq]
  exact initExpLogWith_exp_size lfsrFill_spec cantorFill_spec

/-- the log table as a discrete logarithm: `log[c] = glog c` for `c ≠ 0`, `log[0] = 65535` -/
theorem initExpLog_log_glog (x : Sym) (hx : x ≠ 0) : initExpLog.2.getD x.toNat 0 = glog x := by
  rw [initExpLog_log _ (sym_toNat_lt x), logArr_spec x hx]

theorem initExpLog_log_zero : initExpLog.2.getD 0 0 = 65535 := by
  rw [initExpLog_log 0 (by decide), logArr_zero]

/-- `e[log c] = c` -/
theorem initExpLog_exp_log (x : Sym) (hx : x ≠ 0) :
    initExpLog.1.getD (initExpLog.2.getD x.toNat 0) 0 = x.toNat := by
  rw [initExpLog_log_glog x hx, initExpLog_exp _ (by have := (glog_spec x hx).1; omega),
    (glog_spec x hx).2]

end RS
